(* Liveness of the decompression scheduler, group G3a: the invariant [lld] (XLiveDefs.v).

   The lines (retrieve jobs, emit-stage jobs, last buffers) have pairwise distinct bit
   positions, the queued candidates have pairwise distinct bases, every line beyond the
   parser has its candidate in unord_q, and a queued candidate that is complete is not
   linked by a retrieve job.

   The proof works on a predicate [LL] over the lists the invariant looks at (jobs, lines,
   bits, unord store, parser position, parsing_done) so that the list reasoning is done once:
     LL_mono    lines / bits / links shrink (multiset-wise), the parser moves forward
     LL_upd     a field of one unord record changes
     LL_del     a record outside unord_q is freed
     LL_drop(s) drop_unord_link() of a job that leaves the job list
   [LL_advance] is advance(); then one lemma per event. *)
From Coq Require Import List NArith Bool Lia Arith ZifyBool ZifyN ZifyNat Sorted.
From LBZ Require Import Gen.Consts SchedX.XState Gen.SchedXTab SchedX.XSet SchedX.XModel SchedX.XLemmas
  SchedX.XFrame SchedX.XInvDefs SchedX.XOps SchedX.XInv SchedX.XInv2 SchedX.XInv3 SchedX.XInv4 SchedX.XOracle
  SchedX.XSeq SchedX.XCount SchedX.XOwn SchedX.XOwnAdv SchedX.XOwnRetr SchedX.XOwnProofs SchedX.XLiveDefs.
Import ListNotations.
Local Open Scope N_scope.

(* ---- occurrences ------------------------------------------------------------------------- *)
Definition occ (b : N) (l : list N) : nat := length (filter (N.eqb b) l).

Lemma occ_app b l1 l2 : occ b (l1 ++ l2) = (occ b l1 + occ b l2)%nat.
Proof. unfold occ. rewrite filter_app, app_length. reflexivity. Qed.

Lemma occ_cons b a l : occ b (a :: l) = ((if (b =? a)%N then 1 else 0) + occ b l)%nat.
Proof. unfold occ. simpl. destruct (b =? a); reflexivity. Qed.

Lemma occ_nil b : occ b [] = 0%nat.
Proof. reflexivity. Qed.

Lemma occ_map {A} (f : A -> N) b l : occ b (map f l) = length (filter (fun x => b =? f x) l).
Proof. unfold occ. induction l as [|a r IH]; simpl; auto. destruct (b =? f a); simpl; auto. Qed.

Lemma filter_len_pos {A} (p : A -> bool) l : (1 <= length (filter p l))%nat <-> exists x, In x l /\ p x = true.
Proof.
  split.
  - destruct (filter p l) as [|x r] eqn:F; simpl; [lia|]. intros _.
    assert (H : In x (filter p l)) by (rewrite F; left; auto). apply filter_In in H. eauto.
  - intros (x & Hx & Px). assert (H : In x (filter p l)) by (apply filter_In; auto).
    destruct (filter p l); [destruct H|simpl; lia].
Qed.

Lemma occ_In b l : In b l <-> (1 <= occ b l)%nat.
Proof.
  unfold occ. rewrite filter_len_pos. split.
  - intro H. exists b. split; auto. apply N.eqb_refl.
  - intros (x & Hx & E). apply N.eqb_eq in E. subst. auto.
Qed.

Lemma nodup_occ l : NoDup l <-> forall b, (occ b l <= 1)%nat.
Proof.
  split.
  - induction 1 as [|x l H N IH]; intro b; [rewrite occ_nil; lia|]. rewrite occ_cons. destruct (b =? x) eqn:E.
    + apply N.eqb_eq in E. subst b. assert (Z : ~ (1 <= occ x l)%nat) by (rewrite <- occ_In; exact H). lia.
    + specialize (IH b). lia.
  - induction l as [|a l IH]; intro H; constructor.
    + intro Hin. apply occ_In in Hin. specialize (H a). rewrite occ_cons, N.eqb_refl in H. lia.
    + apply IH. intro b. specialize (H b). rewrite occ_cons in H. lia.
Qed.

Lemma nodup_sub l l' : (forall b, (occ b l' <= occ b l)%nat) -> NoDup l -> NoDup l'.
Proof. intros H N. apply nodup_occ. intro b. rewrite nodup_occ in N. specialize (H b). specialize (N b). lia. Qed.

(* ---- the bases of the queued candidates -------------------------------------------------- *)
Definition ubs (us : list unord) : list N := map ubit (filter u_inq us).

Lemma ubits_ubs st : ubits st = ubs (x_unords st).
Proof. reflexivity. Qed.

Lemma ubs_In b us : In b (ubs us) <-> exists u, In u us /\ u_inq u = true /\ ubit u = b.
Proof.
  unfold ubs. rewrite in_map_iff. split.
  - intros (u & A & B). apply filter_In in B. exists u. tauto.
  - intros (u & A & B & C). exists u. split; auto. apply filter_In. auto.
Qed.

Lemma ubs_map g us : (forall u, In u us -> u_inq (g u) = u_inq u /\ ubit (g u) = ubit u) -> ubs (map g us) = ubs us.
Proof.
  unfold ubs. induction us as [|a r IH]; simpl; intro H; auto.
  destruct (H a (or_introl eq_refl)) as [E1 E2]. rewrite E1.
  destruct (u_inq a); simpl; rewrite ?E2, IH; auto.
Qed.

Lemma ubs_filter p us : (forall u, In u us -> u_inq u = true -> p u = true) -> ubs (filter p us) = ubs us.
Proof.
  unfold ubs. induction us as [|a r IH]; simpl; intro H; auto. destruct (p a) eqn:P; simpl.
  - destruct (u_inq a); simpl; rewrite IH; auto.
  - destruct (u_inq a) eqn:Q; [rewrite H in P; auto; discriminate|]. apply IH; auto.
Qed.

Lemma ubs_app a b : ubs (a ++ b) = ubs a ++ ubs b.
Proof. unfold ubs. rewrite filter_app, map_app. reflexivity. Qed.

Lemma ubs_sub_In g p us b :
  (forall u, u_inq (g u) = true -> u_inq u = true /\ ubit (g u) = ubit u) ->
  In b (ubs (map g (filter p us))) -> In b (ubs us).
Proof.
  intros HG H. apply ubs_In in H. destruct H as (u & Hu & Q & E). apply in_map_iff in Hu.
  destruct Hu as (u0 & <- & H0). apply filter_In in H0. destruct (HG u0 Q) as [Q0 E0].
  apply ubs_In. exists u0. repeat split; auto; try tauto. congruence.
Qed.

Lemma ubs_sub_nodup g p us :
  (forall u, u_inq (g u) = true -> u_inq u = true /\ ubit (g u) = ubit u) ->
  NoDup (ubs us) -> NoDup (ubs (map g (filter p us))).
Proof.
  intros HG. induction us as [|a r IH]; intro N; [constructor|].
  assert (Nr : NoDup (ubs r)).
  { unfold ubs in *. simpl in N. destruct (u_inq a); simpl in N; [inversion N; auto|auto]. }
  specialize (IH Nr). simpl. destruct (p a); [|exact IH]. simpl. unfold ubs in *. simpl.
  destruct (u_inq (g a)) eqn:Q; [|exact IH]. destruct (HG a Q) as [Qa E]. simpl. constructor; [|exact IH].
  simpl in N. rewrite Qa in N. simpl in N. inversion N as [|x l NI ND]; subst. rewrite E. intro X. apply NI.
  exact (ubs_sub_In g p r _ HG X).
Qed.

(* ---- the invariant over lists ------------------------------------------------------------- *)
Definition lcount (id : N) (JL : list rjob) : nat := length (filter (links id) JL).

Lemma lcount_In id JL : (1 <= lcount id JL)%nat <-> exists j, In j JL /\ r_link j = Some id.
Proof.
  unfold lcount. rewrite filter_len_pos. split; intros (j & A & B); exists j; split; auto.
  - unfold links in B. apply optN_eqb_eq in B. exact B.
  - unfold links. rewrite B. apply optN_eqb_refl.
Qed.

Lemma lcount_cons id j JL : lcount id (j :: JL) = ((if links id j then 1 else 0) + lcount id JL)%nat.
Proof. unfold lcount. simpl. destruct (links id j); reflexivity. Qed.

Lemma lcount_app id a b : lcount id (a ++ b) = (lcount id a + lcount id b)%nat.
Proof. unfold lcount. rewrite filter_app, app_length. reflexivity. Qed.

Record LL (JL : list rjob) (LN AB : list N) (US : list unord) (pb : N) (pd : bool) : Prop := mkLL {
  L_dist : NoDup LN;
  L_udist : NoDup (ubs US);
  L_ub : pd = false -> forall b, In b AB -> pb < b -> In b (ubs US);
  L_ul : forall u j, In u US -> u_inq u = true -> u_complete u = true -> In j JL -> r_link j <> Some (u_id u);
  L_ids : NoDup (map u_id US);
  L_lc : forall id, (lcount id JL <= 1)%nat
}.

Lemma LL_mono JL JL' LN LN' AB AB' US pb pb' pd :
  (forall id, (lcount id JL' <= lcount id JL)%nat) -> (forall b, (occ b LN' <= occ b LN)%nat) ->
  (forall b, In b AB' -> In b AB) -> pb <= pb' ->
  LL JL LN AB US pb pd -> LL JL' LN' AB' US pb' pd.
Proof.
  intros HJ HL HA HP [A B C D E F]. constructor; auto.
  - eapply nodup_sub; eauto.
  - intros PD b Hb LT. apply (C PD b (HA b Hb)). lia.
  - intros u j Hu Q Cu Hj EL.
    assert (K : (1 <= lcount (u_id u) JL')%nat) by (apply lcount_In; eauto).
    specialize (HJ (u_id u)). assert (K2 : (1 <= lcount (u_id u) JL)%nat) by lia.
    apply lcount_In in K2. destruct K2 as (j0 & H0 & E0). exact (D u j0 Hu Q Cu H0 E0).
  - intro id. specialize (HJ id). specialize (F id). lia.
Qed.

(* a field of the record [id] changes *)
Lemma LL_upd id g JL LN AB US pb pd :
  (forall u, u_id (g u) = u_id u /\ ubit (g u) = ubit u /\ u_inq (g u) = u_inq u) ->
  ((forall u, u_complete (g u) = true -> u_complete u = true) \/ (forall x, In x JL -> r_link x <> Some id)) ->
  LL JL LN AB US pb pd ->
  LL JL LN AB (upd_unord id g US) pb pd /\ ubs (upd_unord id g US) = ubs US.
Proof.
  intros HG HC [A B C D E F].
  assert (EU : ubs (upd_unord id g US) = ubs US).
  { unfold upd_unord. apply ubs_map. intros u _. destruct (u_id u =? id); auto. destruct (HG u) as (_ & G2 & G3). auto. }
  split; [|exact EU]. constructor; rewrite ?EU; auto.
  - intros u' j Hu' Q Cu Hj. unfold upd_unord in Hu'. apply in_map_iff in Hu'. destruct Hu' as (u & <- & Hu).
    destruct (u_id u =? id) eqn:K; [|apply D; auto].
    destruct (HG u) as (G1 & G2 & G3). rewrite G1. rewrite G3 in Q. destruct HC as [HC|HC].
    + apply D; auto.
    + apply N.eqb_eq in K. rewrite K. apply HC. exact Hj.
  - rewrite map_id_upd; auto. intro u. apply HG.
Qed.

(* a record outside unord_q is freed *)
Lemma LL_del id JL LN AB US pb pd :
  (forall u, In u US -> u_id u = id -> u_inq u = false) ->
  LL JL LN AB US pb pd ->
  LL JL LN AB (del_unord id US) pb pd /\ ubs (del_unord id US) = ubs US.
Proof.
  intros HQ [A B C D E F].
  assert (EU : ubs (del_unord id US) = ubs US).
  { unfold del_unord. apply ubs_filter. intros u Hu Q. apply negb_true_iff. apply N.eqb_neq. intro K.
    rewrite (HQ u Hu K) in Q. discriminate. }
  split; [|exact EU]. constructor; rewrite ?EU; auto.
  - intros u j Hu. apply D. unfold del_unord in Hu. apply filter_In in Hu. tauto.
  - unfold del_unord. apply nodup_map_filter. exact E.
Qed.

(* a job leaves the job list and gives its record back *)
Lemma LL_drop j JL LN AB US pb pd :
  LL (j :: JL) LN AB US pb pd ->
  LL JL LN AB (drop_link (r_link j) US) pb pd /\ ubs (drop_link (r_link j) US) = ubs US.
Proof.
  intro L.
  assert (L0 : LL JL LN AB US pb pd).
  { eapply LL_mono; [| | | |exact L]; auto; [|apply N.le_refl]. intro id. rewrite lcount_cons. lia. }
  unfold drop_link. destruct (r_link j) as [id|] eqn:EL; [|split; auto].
  destruct (get_unord id US) as [u1|] eqn:G; [|split; auto].
  destruct (get_unord_some _ _ _ G) as [H1 E1].
  destruct (u_complete u1) eqn:C1.
  - apply LL_del; auto. intros u Hu Eu.
    assert (u = u1) by (apply (nodup_id_unique US); auto; [apply L|congruence]). subst u.
    destruct (u_inq u1) eqn:Q; auto. exfalso.
    apply (L_ul _ _ _ _ _ _ L u1 j H1 Q C1 (or_introl eq_refl)). congruence.
  - apply LL_upd; [intro u; repeat split; reflexivity| |exact L0].
    right. intros x Hx Ex. pose proof (L_lc _ _ _ _ _ _ L id) as K. rewrite lcount_cons in K.
      assert (K1 : links id j = true) by (unfold links; rewrite EL; apply optN_eqb_refl). rewrite K1 in K.
      assert (K2 : (1 <= lcount id JL)%nat) by (apply lcount_In; eauto). lia.
Qed.

Lemma LL_drops D JL LN AB pb pd : forall US,
  LL (D ++ JL) LN AB US pb pd ->
  LL JL LN AB (drop_links D US) pb pd /\ ubs (drop_links D US) = ubs US.
Proof.
  unfold drop_links. induction D as [|j D IH]; intros US L; simpl; [split; auto|].
  simpl in L. destruct (LL_drop _ _ _ _ _ _ _ L) as [L1 E1].
  destruct (IH _ L1) as [L2 E2]. split; [exact L2|congruence].
Qed.

(* ---- advance() ------------------------------------------------------------------------------ *)
Lemma adv_retr_split fuel hd : forall q p,
  length (filter p q) = (length (filter p (fst (adv_retr fuel hd q))) + length (filter p (snd (adv_retr fuel hd q))))%nat.
Proof.
  induction fuel as [|f IH]; intros q p; simpl; [lia|].
  destruct (qmin rkey pos_lt q) as [m|]; simpl; [|lia].
  destruct (d_off (r_cur m) <? hd); simpl; [|lia].
  destruct (remove_one rjob_eqb m q) as [q'|] eqn:R; simpl; [|lia].
  specialize (IH q' p). destruct (adv_retr f hd q') as [d k]. simpl in *.
  rewrite (remove_one_filter_len _ rjob_eqb_eq p _ _ _ R). destruct (p m); simpl; lia.
Qed.

Definition linesp (JL : list rjob) (st : xstate) : list N :=
  map jbit JL ++ map ebit (estage st) ++ map obit (filter is_final (x_reord_q st)).
Definition allbitsp (JL : list rjob) (st : xstate) : list N :=
  map jbit JL ++ map ebit (estage st) ++ map obit (x_reord_q st).
Definition pbit (st : xstate) : N := x_next st.

Definition LLs (JL : list rjob) (st : xstate) : Prop :=
  LL JL (linesp JL st) (allbitsp JL st) (x_unords st) (pbit st) (x_parsing_done st).

Lemma lld_LLs st : inv st -> lld st -> LLs (all_jobs st) st.
Proof.
  intros I [A B C D]. constructor; auto.
  - apply I.
  - apply I.
Qed.

Lemma LLs_lld st : LLs (all_jobs st) st -> lld st.
Proof. intros [A B C D E F]. constructor; auto. Qed.

Lemma LLs_mono JL JL' st st' :
  x_unords st' = x_unords st -> x_parsing_done st' = x_parsing_done st -> pbit st <= pbit st' ->
  (forall id, (lcount id JL' <= lcount id JL)%nat) ->
  (forall b, (occ b (linesp JL' st') <= occ b (linesp JL st))%nat) ->
  (forall b, In b (allbitsp JL' st') -> In b (allbitsp JL st)) ->
  LLs JL st -> LLs JL' st'.
Proof. unfold LLs. intros -> -> HP HJ HL HA L. eapply LL_mono; eauto. Qed.

(* the state changes in fields the invariant does not look at *)
Lemma LLs_view JL st st' :
  x_unords st' = x_unords st -> x_parsing_done st' = x_parsing_done st -> x_next st' = x_next st ->
  estage st' = estage st -> x_reord_q st' = x_reord_q st -> LLs JL st -> LLs JL st'.
Proof.
  intros E1 E2 E3 E4 E5. apply LLs_mono; auto.
  - unfold pbit. rewrite E3. apply N.le_refl.
  - intro b. unfold linesp. rewrite E4, E5. lia.
  - intro b. unfold allbitsp. rewrite E4, E5. auto.
Qed.

Lemma adv_retr_kept fuel hd : forall q j, In j (snd (adv_retr fuel hd q)) -> In j q.
Proof.
  induction fuel as [|f IH]; intros q j; simpl; auto.
  destruct (qmin rkey pos_lt q) as [m|]; simpl; auto.
  destruct (d_off (r_cur m) <? hd); simpl; auto.
  destruct (remove_one rjob_eqb m q) as [q'|] eqn:R; simpl; auto.
  specialize (IH q' j). destruct (adv_retr f hd q') as [d k]. simpl in *. intro H.
  eapply remove_one_In; eauto using rjob_eqb_eq.
Qed.

Lemma In_map_incl {A B} (f : A -> B) l l' b : (forall x, In x l' -> In x l) -> In b (map f l') -> In b (map f l).
Proof. intros H Hb. apply in_map_iff in Hb. destruct Hb as (x & <- & Hx). apply in_map. auto. Qed.

Lemma LLs_advance cfg bs st J0 :
  LLs (J0 ++ all_jobs st) st ->
  LLs (J0 ++ all_jobs (advance cfg bs st)) (advance cfg bs st) /\ ubits (advance cfg bs st) = ubits st.
Proof.
  intros L.
  destruct (adv_fields cfg bs st) as [EH EU]. cbv zeta in EH, EU.
  pose proof (adv_retr_q cfg bs st) as ER.
  set (hd := x_head_offs (adv_input (d_off bs) (set_parser_bs bs st))) in *. clearbody hd.
  pose proof (adv_retr_split (length (x_retr_q st)) hd (x_retr_q st)) as SP.
  pose proof (adv_retr_kept (length (x_retr_q st)) hd (x_retr_q st)) as KP.
  set (dk := adv_retr (length (x_retr_q st)) hd (x_retr_q st)) in *. clearbody dk.
  assert (RU : x_running (advance cfg bs st) = x_running st) by (autorewrite with xf; reflexivity).
  assert (ES : estage (advance cfg bs st) = estage st) by (unfold estage; autorewrite with xf; reflexivity).
  assert (RO : x_reord_q (advance cfg bs st) = x_reord_q st) by (autorewrite with xf; reflexivity).
  assert (PD : x_parsing_done (advance cfg bs st) = x_parsing_done st) by (autorewrite with xf; reflexivity).
  assert (PB : pbit (advance cfg bs st) = pbit st) by (unfold pbit; autorewrite with xf; reflexivity).
  unfold LLs. rewrite PD, PB, !ubits_ubs.
  set (LN := linesp (J0 ++ all_jobs (advance cfg bs st)) (advance cfg bs st)).
  set (AB := allbitsp (J0 ++ all_jobs (advance cfg bs st)) (advance cfg bs st)).
  assert (L1 : LL (fst dk ++ (J0 ++ all_jobs (advance cfg bs st))) LN AB (x_unords st) (pbit st) (x_parsing_done st)).
  { revert L. unfold LLs. apply LL_mono.
    - intro id. unfold all_jobs. rewrite RU, ER, !lcount_app. unfold lcount. rewrite (SP (links id)). lia.
    - intro b. subst LN. unfold linesp. rewrite ES, RO. unfold all_jobs. rewrite RU, ER.
      rewrite !map_app, !occ_app, !occ_map. rewrite (SP (fun x => b =? jbit x)). lia.
    - intro b. subst AB. unfold allbitsp. rewrite ES, RO. unfold all_jobs. rewrite RU, ER.
      rewrite !map_app, !in_app_iff. intros [[H|[H|H]]|H]; auto. left. right. left.
      eapply In_map_incl; [|exact H]. exact KP.
    - apply N.le_refl. }
  rewrite EU. destruct (c_advance_drops_link cfg).
  - apply LL_drops. exact L1.
  - split; [|reflexivity]. eapply LL_mono; [| | | |exact L1]; auto; [|apply N.le_refl].
    intro id. rewrite !lcount_app. lia.
Qed.

(* ---- normalisation of the lists ------------------------------------------------------------- *)
Lemma lcount_nil id : lcount id [] = 0%nat.
Proof. reflexivity. Qed.

Ltac lnorm :=
  rewrite ?run_jobs_app, ?run_jobs_cons, ?run_ejobs_app, ?run_ejobs_cons; cbn [cjobs cejobs app];
  repeat (progress (rewrite ?map_app, ?filter_app; cbn [map filter app])).
Ltac snorm := unfold linesp, allbitsp, all_jobs, estage, add_run, give_unit; xs; autorewrite with xf; xs.
Ltac occ_fin := repeat (progress (rewrite ?occ_app, ?occ_cons, ?occ_nil)); unfold jbit, ebit, obit; cbn [r_base e_base o_base fst snd]; try lia.
Ltac lc_fin := repeat (progress (rewrite ?lcount_app, ?lcount_cons, ?lcount_nil)); unfold links; cbn [r_link]; try lia.
Ltac in_fin := repeat (progress (rewrite ?in_app_iff; cbn [In])); unfold jbit, ebit, obit; cbn [r_base e_base o_base fst snd]; try tauto.

Lemma lld_view st st' :
  all_jobs st' = all_jobs st -> estage st' = estage st -> x_reord_q st' = x_reord_q st -> x_unords st' = x_unords st ->
  x_parsing_done st' = x_parsing_done st -> x_next st' = x_next st -> lld st -> lld st'.
Proof.
  intros E1 E2 E3 E4 E5 E6 [A B C D].
  constructor; unfold lines, allbits, ubits, unord_q in *; rewrite ?E1, ?E2, ?E3, ?E4, ?E5, ?E6; auto.
Qed.

Ltac view_fin := first [reflexivity | snorm; reflexivity].
Ltac pb_fin := unfold pbit; snorm; apply N.le_refl.

(* ---- events that do not touch what the invariant looks at ------------------------------- *)
Lemma lld_input sz m st st' : lld st -> input sz m st = Some st' -> lld st'.
Proof.
  unfold input. intros I H. match type of H with (if ?c then _ else _) = _ => destruct c; [|discriminate] end.
  destruct (x_parsing_done st); inversion H; subst; auto.
  eapply lld_view; [| | | | | |exact I]; view_fin.
Qed.

Lemma lld_eof st st' : lld st -> reader_eof st = Some st' -> lld st'.
Proof.
  unfold reader_eof. intros I H. destruct (x_eof st); [discriminate|]. inversion H; subst.
  eapply lld_view; [| | | | | |exact I]; view_fin.
Qed.

Lemma lld_written st st' : lld st -> written st = Some st' -> lld st'.
Proof.
  unfold written. intros I H. destruct (0 <? x_outq st); [|discriminate]. inversion H; subst.
  eapply lld_view; [| | | | | |exact I]; view_fin.
Qed.

Lemma lld_parse0 st st' : lld st -> parse0 st = Some st' -> lld st'.
Proof.
  unfold parse0. intros I H. destruct (selects TParse st); [|discriminate].
  set (st1 := set_work_units (N.pred (x_work_units st)) (set_parse_token false st)) in *.
  destruct (attach (x_parser_bs st1) st1) as [st2 att] eqn:A.
  assert (E2 : st2 = fst (attach (x_parser_bs st1) st1)) by (rewrite A; reflexivity).
  inversion H; subst st'. clear H. rewrite E2. subst st1.
  eapply lld_view; [| | | | | |exact I]; view_fin.
Qed.

Lemma lld_scan0 st st' : lld st -> scan0 st = Some st' -> lld st'.
Proof.
  unfold scan0. intros I H. destruct (selects TScan st); [|discriminate].
  destruct (qmin d_pos pos_lt (x_scan_q st)) as [s|]; [|discriminate].
  destruct (remove_one dbs_eqb s (x_scan_q st)) as [q|]; [|discriminate].
  set (st1 := set_scan_q q (set_work_units (N.pred (x_work_units st)) st)) in *.
  destruct (attach s st1) as [st2 att] eqn:A.
  assert (E2 : st2 = fst (attach s st1)) by (rewrite A; reflexivity).
  inversion H; subst st'. clear H. rewrite E2. subst st1.
  eapply lld_view; [| | | | | |exact I]; view_fin.
Qed.

(* ---- a job moves between a queue and the running set ---------------------------------------- *)
Lemma lld_retr0 j st st' : inv st -> lld st -> retr0 j st = Some st' -> lld st'.
Proof.
  unfold retr0. intros IV I H. destruct (selects TRetrieve st); [|discriminate].
  destruct (take_min rjob_eqb rkey j (x_retr_q st)) as [q|] eqn:T; [|discriminate].
  apply take_min_spec in T. destruct T as [R _].
  destruct (remove_one_split _ rjob_eqb_eq _ _ _ R) as (l1 & l2 & EQ & Eq).
  set (st1 := set_retr_q q st) in *.
  destruct (attach (r_cur j) st1) as [st2 att] eqn:A.
  assert (E2 : st2 = fst (attach (r_cur j) st1)) by (rewrite A; reflexivity).
  inversion H; subst st'. clear H. rewrite E2. subst st1.
  apply LLs_lld. generalize (lld_LLs st IV I). apply LLs_mono; [view_fin|view_fin|pb_fin| | | ].
  - intro id. snorm. rewrite EQ, Eq. lnorm. lc_fin.
  - intro b. snorm. rewrite EQ, Eq. lnorm. occ_fin.
  - intro b. snorm. rewrite EQ, Eq. lnorm. in_fin.
Qed.

Lemma lld_retr2 e st st' : inv st -> lld st -> retr2 e st = Some st' -> lld st'.
Proof.
  unfold retr2. intros IV I H. destruct (del_run (CRetr2 e) st) as [s1|] eqn:D; [|discriminate]. inversion H; subst.
  destruct (del_run_spec _ _ _ D) as (l1 & l2 & E & ->).
  apply LLs_lld. generalize (lld_LLs st IV I). apply LLs_mono; [view_fin|view_fin|pb_fin| | | ].
  - intro id. snorm. rewrite E. lnorm. lc_fin.
  - intro b. snorm. rewrite E. lnorm. occ_fin.
  - intro b. snorm. rewrite E. lnorm. in_fin.
Qed.

Lemma lld_emit0 st st' : inv st -> lld st -> emit0 st = Some st' -> lld st'.
Proof.
  unfold emit0. intros IV I H. destruct (selects TEmit st); [|discriminate].
  destruct (qmin e_base pos_lt (x_emit_q st)) as [e|]; [|discriminate].
  destruct (remove_one ejob_eqb e (x_emit_q st)) as [q|] eqn:R; [|discriminate]. inversion H; subst.
  destruct (remove_one_split _ ejob_eqb_eq _ _ _ R) as (l1 & l2 & EQ & Eq).
  apply LLs_lld. generalize (lld_LLs st IV I). apply LLs_mono; [view_fin|view_fin|pb_fin| | | ].
  - intro id. snorm. lnorm. lc_fin.
  - intro b. snorm. rewrite EQ, Eq. lnorm. occ_fin.
  - intro b. snorm. rewrite EQ, Eq. lnorm. in_fin.
Qed.

Lemma lld_emit1 e rv size crc blksz st st' : inv st -> lld st -> emit1 e rv size crc blksz st = Some st' -> lld st'.
Proof.
  unfold emit1. intros IV I H. destruct (del_run (CEmit e) st) as [s1|] eqn:D; [|discriminate].
  destruct (del_run_spec _ _ _ D) as (l1 & l2 & E & ->).
  match type of H with (if ?c then _ else _) = _ => destruct c; [|discriminate] end.
  destruct (rv =? MORE) eqn:RV; inversion H; subst st'; clear H.
  - apply LLs_lld. generalize (lld_LLs st IV I). apply LLs_mono; [view_fin|view_fin|pb_fin| | | ].
    + intro id. snorm. rewrite E. lnorm. lc_fin.
    + intro b. snorm. rewrite E. lnorm. unfold is_final at 1. cbn [o_status]. rewrite RV. cbn [negb]. occ_fin.
    + intro b. snorm. rewrite E. lnorm. in_fin.
  - apply LLs_lld. generalize (lld_LLs st IV I). apply LLs_mono; [view_fin|view_fin|pb_fin| | | ].
    + intro id. snorm. rewrite E. lnorm. lc_fin.
    + intro b. snorm. rewrite E. lnorm. unfold is_final at 1. cbn [o_status]. rewrite RV. cbn [negb map]. occ_fin.
    + intro b. snorm. rewrite E. lnorm. in_fin.
Qed.

Lemma lld_reorder st st' : inv st -> lld st -> reorder st = Some st' -> lld st'.
Proof.
  unfold reorder. intros IV I H. destruct (selects TReorder st); [|discriminate].
  destruct (qmin o_base pos_lt (x_reord_q st)) as [o|]; [|discriminate].
  destruct (remove_one oblk_eqb o (x_reord_q st)) as [q|] eqn:R; [|discriminate].
  destruct (remove_one_split _ oblk_eqb_eq _ _ _ R) as (l1 & l2 & EQ & Eq).
  assert (G : forall s2, all_jobs s2 = all_jobs st -> estage s2 = estage st -> x_reord_q s2 = q -> x_unords s2 = x_unords st ->
                x_parsing_done s2 = x_parsing_done st -> x_next s2 = x_next st -> lld s2).
  { intros s2 E1 E2 E3 E4 E5 E6. apply LLs_lld. rewrite E1. generalize (lld_LLs st IV I). apply LLs_mono; auto.
    - unfold pbit. rewrite E6. apply N.le_refl.
    - intro b. unfold linesp. rewrite E2, E3, EQ, Eq. lnorm. destruct (is_final o); cbn [map]; occ_fin.
    - intro b. unfold allbitsp. rewrite E2, E3, EQ, Eq. lnorm. in_fin. }
  xs in H. destruct (x_order_q st) as [|ord rest].
  { inversion H; subst st'. apply G; view_fin. }
  destruct (pos_lt (o_base o) (h_base ord)).
  { inversion H; subst st'. apply G; view_fin. }
  match type of H with (if ?c then _ else _) = _ => destruct c end.
  { inversion H; subst st'. apply G; view_fin. }
  match type of H with (if ?c then _ else _) = _ => destruct c end; inversion H; subst st'; apply G; unfold fail; view_fin.
Qed.

(* ---- do_scan ---------------------------------------------------------------------------------- *)
Lemma lines_allbits JL st b : In b (linesp JL st) -> In b (allbitsp JL st).
Proof.
  unfold linesp, allbitsp. rewrite !in_app_iff. intros [H|[H|H]]; auto. right. right.
  eapply In_map_incl; [|exact H]. intros x Hx. apply filter_In in Hx. tauto.
Qed.

(* a new speculative job with its own new record *)
Lemma LL_new jn un b0 id0 JL LN AB US pb pd :
  LL JL LN AB US pb pd -> ~ In b0 LN -> ~ In b0 (ubs US) ->
  (forall u, In u US -> u_id u <> id0) -> (forall j, In j JL -> r_link j <> Some id0) ->
  u_inq un = true -> ubit un = b0 -> u_id un = id0 -> u_complete un = false -> r_link jn = Some id0 ->
  LL (jn :: JL) (b0 :: LN) (b0 :: AB) (US ++ [un]) pb pd.
Proof.
  intros [A B C D E F] N1 N2 FU FJ Q UB UI UC JL0.
  assert (EU : ubs (US ++ [un]) = ubs US ++ [b0]).
  { rewrite ubs_app. unfold ubs at 2. simpl. rewrite Q. simpl. rewrite UB. reflexivity. }
  constructor; rewrite ?EU.
  - constructor; auto.
  - apply nodup_snoc; auto.
  - intros PD b [<-|Hb] LT; apply in_or_app; [right; left; auto|left; apply C; auto].
  - intros u j Hu Qu Cu Hj. apply in_app_or in Hu. destruct Hu as [Hu|[<-|[]]]; [|congruence].
    destruct Hj as [<-|Hj]; [|apply D; auto]. rewrite JL0. intro X. inversion X. apply (FU u Hu). auto.
  - rewrite map_app. simpl. apply nodup_snoc; auto. rewrite UI. intro X. apply in_map_iff in X.
    destruct X as (u & Eu & Hu). exact (FU u Hu Eu).
  - intro id. rewrite lcount_cons. destruct (links id jn) eqn:K; [|apply F].
    unfold links in K. apply optN_eqb_eq in K. rewrite JL0 in K. inversion K as [K0].
    assert (Z : ~ (1 <= lcount id JL)%nat).
    { intro X. apply lcount_In in X. destruct X as (j & Hj & Ej). apply (FJ j Hj). congruence. }
    lia.
Qed.

Lemma lld_scan1 cfg s att found s' more st st' :
  inv st -> own st -> lld st -> ev_fresh st (EvScan1 s att found s' more) ->
  scan1 cfg s att found s' more st = Some st' -> lld st'.
Proof.
  intros IV OW I EF H. unfold scan1 in H.
  destruct (del_run (CScan s att) st) as [s1|] eqn:D; [|discriminate].
  assert (I1 : inv s1) by (eapply inv_view; [eapply view_del_run; eauto|auto]).
  destruct (del_run_spec _ _ _ D) as (l1 & l2 & E & ES1).
  assert (I2 : inv (detach att s1)) by (eapply inv_view; [apply view_detach|auto]).
  assert (L2 : lld (detach att s1)).
  { eapply lld_view; [| | | | | |exact I]; subst s1; snorm; rewrite ?E; lnorm; reflexivity. }
  assert (ON : x_parsing_done (detach att s1) = false -> x_next (detach att s1) <= d_bit (x_parser_bs (detach att s1))).
  { destruct OW as [OP _]. generalize (o_next _ _ _ OP). subst s1. snorm. auto. }
  assert (EF2 : found = true -> ~ In (d_bit s') (ubits (detach att s1))).
  { intros ->. simpl in EF. subst s1. unfold ubits, unord_q in *. autorewrite with xf. xs. exact EF. }
  clear IV OW I EF D ES1 E I1. set (aend := att_end att s1) in *. clearbody aend.
  set (s2 := detach att s1) in *. clearbody s2. clear s1.
  destruct (negb found || x_parsing_done s2) eqn:F.
  { inversion H; subst. eapply lld_view; [| | | | | |exact L2]; view_fin. }
  match type of H with (if ?c then _ else _) = _ => destruct c; [|discriminate] end.
  apply orb_false_iff in F. destruct F as [FD PD]. apply negb_false_iff in FD. specialize (EF2 FD). specialize (ON PD).
  set (s3 := if pos_le (d_pos s') (d_pos (x_parser_bs s2)) || (c_scan_job_checks_head cfg && (d_off s' <? x_head_offs s2)) then give_unit s2
             else if c_scan_checks_unord_cap cfg && unord_full s2 then give_unit s2
             else set_retr_q (mkrjob (d_pos s') s' (Some (x_next_uid s2)) :: x_retr_q s2)
                   (set_next_uid (x_next_uid s2 + 1)
                      (set_unords (x_unords s2 ++ [mkunord (x_next_uid s2) (d_pos s') s' false false true]) s2))) in *.
  assert (O3 : lld s3).
  { subst s3. destruct (pos_le (d_pos s') (d_pos (x_parser_bs s2)) || (c_scan_job_checks_head cfg && (d_off s' <? x_head_offs s2))) eqn:PL;
      [|destruct (c_scan_checks_unord_cap cfg && unord_full s2)].
    - eapply lld_view; [| | | | | |exact L2]; view_fin.
    - eapply lld_view; [| | | | | |exact L2]; view_fin.
    - apply orb_false_iff in PL. destruct PL as [PL _].
      assert (GT : x_next s2 < d_bit s').
      { unfold pos_le in PL. apply negb_false_iff in PL. apply pos_lt_spec in PL. unfold lexlt, d_pos in PL. simpl in PL.
        clear - PL ON. lia. }
      pose proof (lld_LLs s2 I2 L2) as L.
      set (un := mkunord (x_next_uid s2) (d_pos s') s' false false true).
      set (jn := mkrjob (d_pos s') s' (Some (x_next_uid s2))).
      apply LLs_lld.
      apply (LL_new jn un (d_bit s') (x_next_uid s2) _ _ _ _ _ _ L); try reflexivity.
      + intro X. apply EF2. rewrite ubits_ubs. apply (L_ub _ _ _ _ _ _ L PD); [apply lines_allbits; exact X|exact GT].
      + exact EF2.
      + intros u Hu Eu. pose proof (i_ufresh _ I2) as UF. rewrite Forall_forall in UF. specialize (UF u Hu). rewrite Eu in UF.
        exact (N.lt_irrefl _ UF).
      + intros j Hj Ej. pose proof (i_jobs _ I2) as IJ. rewrite Forall_forall in IJ. destruct (IJ j Hj) as (_ & _ & _ & J4 & _).
        exact (N.lt_irrefl _ (J4 _ Ej)). }
  clearbody s3.
  match type of H with (if ?c then _ else _) = _ => destruct c end; inversion H; subst; auto.
  eapply lld_view; [| | | | | |exact O3]; view_fin.
Qed.

(* ---- do_retrieve --------------------------------------------------------------------------------- *)
Lemma lld_fin JL LN AB pb st' :
  LL JL LN AB (x_unords st') pb (x_parsing_done st') -> pb <= x_next st' ->
  (forall id, (lcount id (all_jobs st') <= lcount id JL)%nat) ->
  (forall b, (occ b (lines st') <= occ b LN)%nat) ->
  (forall b, In b (allbits st') -> In b AB) -> lld st'.
Proof. intros L HP HJ HL HA. apply LLs_lld. unfold LLs. revert L. apply LL_mono; auto. Qed.

Lemma job_swap j j' JL st : jbit j' = jbit j -> r_link j' = r_link j -> LLs (j :: JL) st -> LLs (j' :: JL) st.
Proof.
  intros EB EL. apply LLs_mono; auto.
  - apply N.le_refl.
  - intro id. rewrite !lcount_cons. unfold links. rewrite EL. lia.
  - intro b. unfold linesp. cbn [map app]. rewrite !occ_cons, EB. lia.
  - intro b. unfold allbitsp. cbn [map app In]. rewrite EB. auto.
Qed.

(* the job is dropped, with or without drop_unord_link() *)
Lemma lld_drop_job j s st' (dl : bool) :
  LLs (j :: all_jobs s) s ->
  all_jobs st' = all_jobs s -> estage st' = estage s -> x_reord_q st' = x_reord_q s ->
  x_parsing_done st' = x_parsing_done s -> x_next st' = x_next s ->
  x_unords st' = (if dl then drop_link (r_link j) (x_unords s) else x_unords s) -> lld st'.
Proof.
  intros L E1 E2 E3 E4 E5 E6.
  assert (X : LL (all_jobs s) (linesp (j :: all_jobs s) s) (allbitsp (j :: all_jobs s) s) (x_unords st') (pbit s) (x_parsing_done st')).
  { rewrite E6, E4. destruct dl; [apply LL_drop; exact L|]. revert L. apply LL_mono; auto; [|apply N.le_refl].
    intro id. rewrite lcount_cons. lia. }
  apply (lld_fin _ _ _ _ st' X).
  - unfold pbit. rewrite E5. apply N.le_refl.
  - intro id. rewrite E1. lia.
  - intro b. unfold lines, linesp. rewrite E1, E2, E3. cbn [map app]. rewrite occ_cons. lia.
  - intro b. unfold allbits, allbitsp. rewrite E1, E2, E3. cbn [map app In]. auto.
Qed.

Lemma lretr1_master cfg j lk rv cur s2 st' :
  r_link j = lk ->
  (forall u, In u (x_unords s2) -> lk = Some (u_id u) -> u_complete u = true) ->
  LLs (j :: all_jobs s2) s2 ->
  (let st := advance cfg cur s2 in
   if rv =? MORE then
     if c_requeue_retr_checks_head cfg && (d_off cur <? x_head_offs st)
     then Some (give_unit (if c_stale_drops_link cfg then set_unords (drop_link lk (x_unords st)) st else st))
     else Some (set_retr_q (mkrjob (r_base j) cur lk :: x_retr_q st) st)
   else Some (add_run (CRetr2 (mkejob (r_base j) rv (d_off cur)))
                (match lk with
                 | Some id => set_unords (del_unord id (x_unords (set_parse_token true st))) (set_parse_token true st)
                 | None => set_parse_token true st
                 end))) = Some st' ->
  lld st'.
Proof.
  intros ELK HC L Hst. subst lk.
  set (j' := mkrjob (r_base j) cur (r_link j)).
  assert (L' : LLs ([j'] ++ all_jobs s2) s2) by (apply (job_swap j j'); auto).
  destruct (LLs_advance cfg cur s2 [j'] L') as [L3 _]. simpl app in L3.
  assert (HQ3 : forall id, r_link j = Some id -> forall u, In u (x_unords (advance cfg cur s2)) -> u_id u = id -> u_inq u = false).
  { intros id EL u3 H3 E3. destruct (adv_fields cfg cur s2) as [_ EU]. cbv zeta in EU. rewrite EU in H3.
    assert (ST : exists u0, In u0 (x_unords s2) /\ stems u3 u0).
    { destruct (c_advance_drops_link cfg); [apply drop_links_stems in H3; exact H3|exists u3; split; [auto|apply stems_refl]]. }
    destruct ST as (u0 & H0 & (S1 & _ & _ & S4 & _)). rewrite S4.
    destruct (u_inq u0) eqn:Q; auto. exfalso.
    apply (L_ul _ _ _ _ _ _ L u0 j H0 Q); [apply HC; auto; congruence|left; auto|congruence]. }
  cbv zeta in Hst. set (st := advance cfg cur s2) in *. clearbody st.
  destruct (rv =? MORE).
  - destruct (c_requeue_retr_checks_head cfg && (d_off cur <? x_head_offs st)); inversion Hst; subst st'; clear Hst.
    + apply (lld_drop_job j' st _ (c_stale_drops_link cfg) L3); destruct (c_stale_drops_link cfg); view_fin.
    + apply LLs_lld. revert L3. apply LLs_mono; [view_fin|view_fin|pb_fin| | | ].
      * intro id. snorm. apply Nat.le_refl.
      * intro b. snorm. apply Nat.le_refl.
      * intro b. snorm. auto.
  - inversion Hst; subst st'; clear Hst.
    match goal with |- context [add_run _ ?x] => set (sf := x) end.
    assert (EF : x_next sf = x_next st /\ x_emit_q sf = x_emit_q st /\ x_running sf = x_running st /\
                 x_reord_q sf = x_reord_q st /\ x_retr_q sf = x_retr_q st /\ x_parsing_done sf = x_parsing_done st).
    { subst sf. destruct (r_link j); xs; auto 10. }
    destruct EF as (F1 & F2 & F3 & F4 & F5 & F6).
    assert (X : LL (j' :: all_jobs st) (linesp (j' :: all_jobs st) st) (allbitsp (j' :: all_jobs st) st) (x_unords sf) (pbit st) (x_parsing_done st)).
    { subst sf. destruct (r_link j) as [id|] eqn:EL; xs; [|exact L3]. apply LL_del; [|exact L3]. apply (HQ3 id eq_refl). }
    clearbody sf. rewrite <- F6 in X.
    match goal with |- lld ?s => apply (lld_fin _ _ _ _ s X) end.
    + unfold pbit. snorm. rewrite F1. apply N.le_refl.
    + intro id. snorm. rewrite F5, F3. lnorm. lc_fin.
    + intro b. unfold lines. snorm. rewrite F5, F3, F2, F4. lnorm. subst j'. occ_fin.
    + intro b. unfold allbits. snorm. rewrite F5, F3, F2, F4. lnorm. subst j'. in_fin.
Qed.

Lemma lretr1_spec cfg j id rv cur s2 st' :
  r_link j = Some id -> LLs (j :: all_jobs s2) s2 ->
  (let st := set_unords (upd_unord id (u_set_end cur) (x_unords s2)) s2 in
   if rv =? MORE then
     if c_requeue_retr_checks_head cfg && (d_off cur <? x_head_offs st)
     then Some (give_unit (if c_stale_drops_link cfg then set_unords (drop_link (Some id) (x_unords st)) st else st))
     else Some (set_retr_q (mkrjob (r_base j) cur (Some id) :: x_retr_q st) st)
   else Some (add_run (CRetr2 (mkejob (r_base j) rv (d_off cur)))
                (set_unords (upd_unord id (fun u => u_set_complete (u_set_end cur u)) (x_unords st)) st))) = Some st' ->
  lld st'.
Proof.
  intros EL L Hst.
  set (j' := mkrjob (r_base j) cur (Some id)).
  assert (L' : LLs (j' :: all_jobs s2) s2) by (apply (job_swap j j'); auto).
  destruct (LL_upd id (u_set_end cur) _ _ _ _ _ _ (fun u => conj eq_refl (conj eq_refl eq_refl))
              (or_introl (fun u (X : u_complete (u_set_end cur u) = true) => X)) L') as [L3a _].
  cbv zeta in Hst. set (st := set_unords (upd_unord id (u_set_end cur) (x_unords s2)) s2) in *.
  assert (L3 : LLs (j' :: all_jobs st) st) by exact L3a. clearbody st. clear L3a L' L.
  destruct (rv =? MORE).
  - destruct (c_requeue_retr_checks_head cfg && (d_off cur <? x_head_offs st)); inversion Hst; subst st'; clear Hst.
    + apply (lld_drop_job j' st _ (c_stale_drops_link cfg) L3); destruct (c_stale_drops_link cfg); view_fin.
    + apply LLs_lld. revert L3. apply LLs_mono; [view_fin|view_fin|pb_fin| | | ].
      * intro id0. snorm. apply Nat.le_refl.
      * intro b. snorm. apply Nat.le_refl.
      * intro b. snorm. auto.
  - inversion Hst; subst st'; clear Hst.
    assert (L4 : LL (all_jobs st) (linesp (j' :: all_jobs st) st) (allbitsp (j' :: all_jobs st) st) (x_unords st) (pbit st) (x_parsing_done st)).
    { revert L3. apply LL_mono; auto; [|apply N.le_refl]. intro id0. rewrite lcount_cons. lia. }
    assert (SEP : forall x, In x (all_jobs st) -> r_link x <> Some id).
    { intros x Hx Ex. pose proof (L_lc _ _ _ _ _ _ L3 id) as K. rewrite lcount_cons in K. unfold links at 1 in K. simpl in K.
      rewrite N.eqb_refl in K. assert (K2 : (1 <= lcount id (all_jobs st))%nat) by (apply lcount_In; eauto). lia. }
    destruct (LL_upd id (fun u => u_set_complete (u_set_end cur u)) _ _ _ _ _ _ (fun u => conj eq_refl (conj eq_refl eq_refl))
                (or_intror SEP) L4) as [X _].
    match goal with |- lld ?s => apply (lld_fin _ _ _ _ s X) end.
    + unfold pbit. snorm. apply N.le_refl.
    + intro id0. snorm. lnorm. lc_fin.
    + intro b. unfold lines. snorm. lnorm. subst j'. occ_fin.
    + intro b. unfold allbits. snorm. lnorm. subst j'. in_fin.
Qed.

Lemma lld_retr1 cfg j att rv cur st st' :
  inv st -> lld st -> retr1 cfg j att rv cur st = Some st' -> lld st'.
Proof.
  intros IV I H. unfold retr1 in H.
  destruct (del_run (CRetr j att) st) as [s1|] eqn:D; [|discriminate].
  destruct (del_run_spec _ _ _ D) as (l1 & l2 & E & ES1).
  assert (L2 : LLs (j :: all_jobs (detach att s1)) (detach att s1)).
  { generalize (lld_LLs st IV I). subst s1. apply LLs_mono; [view_fin|view_fin|pb_fin| | | ].
    - intro id. snorm. rewrite E. lnorm. lc_fin.
    - intro b. snorm. rewrite E. lnorm. occ_fin.
    - intro b. snorm. rewrite E. lnorm. in_fin. }
  assert (I2 : NoDup (map u_id (x_unords (detach att s1)))) by apply L2.
  clear IV I D ES1 E.
  set (aend := att_end att s1) in *. clearbody aend.
  match type of H with (if ?c then _ else _) = _ => destruct c eqn:C; [|discriminate] end. clear C.
  set (s2 := detach att s1) in *. clearbody s2. clear s1.
  (* parsing_done *)
  destruct (x_parsing_done s2) eqn:PD.
  { inversion H; subst st'.
    apply (lld_drop_job j s2 _ (c_retr_done_drops_link cfg) L2); destruct (c_retr_done_drops_link cfg); view_fin. }
  destruct (link_state (r_link j) s2) as [u|] eqn:LS.
  - destruct (link_state_spec _ _ _ LS) as (id & EL & Hu & Hid). rewrite EL in H. cbn [andb negb orb] in H.
    assert (UNI : forall u0, In u0 (x_unords s2) -> u_id u0 = id -> u0 = u).
    { intros u0 Hv0 E0. apply (nodup_id_unique (x_unords s2)); auto. congruence. }
    destruct (u_complete u) eqn:UC; cbn [andb negb orb] in H.
    + destruct (u_legit u) eqn:UL; cbn [andb negb orb] in H.
      * (* adopted: acts as the master *)
        eapply (lretr1_master cfg j (Some id) rv cur s2 st' EL); try exact H; auto.
        intros u0 Hv0 E0. inversion E0 as [E1]. rewrite (UNI u0 Hv0 (eq_sym E1)). exact UC.
      * (* proven not legitimate: aborted *)
        inversion H; subst st'.
        apply (lld_drop_job j s2 _ (c_retr_abort_drops_link cfg) L2); destruct (c_retr_abort_drops_link cfg); rewrite ?EL; view_fin.
    + (* speculative *)
      eapply (lretr1_spec cfg j id rv cur s2 st' EL); try exact H; auto.
  - assert (EL : (exists id, r_link j = Some id) \/ r_link j = None) by (destruct (r_link j); eauto).
    destruct EL as [[id EL]|EL]; rewrite EL in H; cbn [andb negb orb] in H.
    + (* dangling link: treated as speculative, the update is void *)
      eapply (lretr1_spec cfg j id rv cur s2 st' EL); try exact H; auto.
    + (* created by the parser: the master *)
      eapply (lretr1_master cfg j None rv cur s2 st' EL); try exact H; auto.
      intros u0 _ X. discriminate.
Qed.

(* ---- do_parse --------------------------------------------------------------------------------------- *)
Lemma adv_stems cfg bs st u : In u (x_unords (advance cfg bs st)) -> exists u0, In u0 (x_unords st) /\ stems u u0.
Proof.
  intro H. destruct (adv_fields cfg bs st) as [_ EU]. cbv zeta in EU. rewrite EU in H.
  destruct (c_advance_drops_link cfg); [apply drop_links_stems in H; exact H|exists u; split; [auto|apply stems_refl]].
Qed.

Lemma LL_done JL LN AB US pb pd : LL JL LN AB US pb pd -> LL JL LN AB US pb true.
Proof. intros [A B C D E F]. constructor; auto. discriminate. Qed.

Lemma ubs_noinq us : Forall (fun u => u_inq u = false) us -> ubs us = [].
Proof. unfold ubs. induction 1 as [|u r Q _ IH]; simpl; auto. rewrite Q. exact IH. Qed.

Lemma LLs_lld_view st st' :
  LLs (all_jobs st) st -> all_jobs st' = all_jobs st -> estage st' = estage st -> x_reord_q st' = x_reord_q st ->
  x_unords st' = x_unords st -> x_parsing_done st' = x_parsing_done st -> x_next st' = x_next st -> lld st'.
Proof. intros L E1 E2 E3 E4 E5 E6. apply (lld_view st st'); auto. apply LLs_lld. exact L. Qed.

Lemma lld_parse_finish cfg g s : LLs (all_jobs s) s -> lld (parse_finish cfg g s).
Proof.
  intro L. unfold parse_finish. set (pb' := mkdbs _ _). clearbody pb'.
  match goal with |- lld (if ?c then _ else _) => destruct c end.
  { apply LLs_lld. unfold LLs, fail. apply LL_done in L. revert L. xs. apply LL_mono.
    - intro id. snorm. apply Nat.le_refl.
    - intro b. snorm. apply Nat.le_refl.
    - intro b. snorm. auto.
    - unfold pbit. snorm. apply N.le_refl. }
  match goal with |- lld ?r => set (r0 := r) end.
  assert (ER : x_emit_q r0 = x_emit_q s /\ x_running r0 = x_running s /\ x_reord_q r0 = x_reord_q s /\
               x_parsing_done r0 = true /\ x_retr_q r0 = [] /\
               exists us, x_unords r0 = flush_unords us).
  { subst r0. destruct (c_finish_drops_link cfg); xs; autorewrite with xf; xs; repeat split; eauto. }
  destruct ER as (E1 & E2 & E3 & E5 & E7 & (us & E8)). clearbody r0.
  assert (NQ : Forall (fun u => u_inq u = false) (x_unords r0)) by (rewrite E8; apply flush_noinq).
  constructor.
  - eapply nodup_sub; [|exact (L_dist _ _ _ _ _ _ L)].
    intro b. unfold lines, linesp, all_jobs, estage. rewrite E1, E2, E3, E7. lnorm. occ_fin.
  - rewrite ubits_ubs, (ubs_noinq _ NQ). constructor.
  - rewrite E5. discriminate.
  - intros u j Hu Q. rewrite Forall_forall in NQ. rewrite (NQ u Hu) in Q. discriminate.
Qed.

Lemma discard_keep p us u : In u us -> pos_lt (u_base u) p = false -> In u (discard_below p us).
Proof.
  unfold discard_below. intros Hu LT. apply in_map_iff. exists u. rewrite LT, andb_false_r. simpl. split; auto.
  apply filter_In. split; auto. rewrite LT, andb_false_r. reflexivity.
Qed.

Lemma discard_inq p us u : In u (discard_below p us) -> u_inq u = true -> In u us /\ pos_lt (u_base u) p = false.
Proof.
  unfold discard_below. rewrite in_map_iff. intros (u0 & E & H0) Q. apply filter_In in H0. destruct H0 as [H0 K].
  destruct (u_inq u0 && pos_lt (u_base u0) p && negb (u_complete u0)) eqn:C.
  - subst u. simpl in Q. discriminate.
  - subst u0. split; auto. rewrite Q in *. simpl in *. destruct (pos_lt (u_base u) p); auto.
    simpl in *. destruct (u_complete u); simpl in *; discriminate.
Qed.

Lemma filter_true {A} (l : list A) : filter (fun _ => true) l = l.
Proof. induction l; simpl; congruence. Qed.

(* the parser discards the candidates below the block it has confirmed *)
Lemma LL_discard p JL LN AB US pb pd :
  pb <= fst p -> LL JL LN AB US pb pd -> LL JL LN AB (discard_below p US) (fst p) pd.
Proof.
  intros LE [A B C D E F]. constructor; auto.
  - unfold discard_below. apply ubs_sub_nodup; auto. intro u.
    destruct (u_inq u && pos_lt (u_base u) p && negb (u_complete u)); simpl; auto. discriminate.
  - intros PD b Hb LT. assert (LT0 : pb < b) by lia. apply (C PD b Hb) in LT0. apply ubs_In in LT0.
    destruct LT0 as (u & Hu & Q & Eb). apply ubs_In. exists u. split; auto. apply discard_keep; auto.
    apply not_true_iff_false. rewrite pos_lt_spec. unfold lexlt. unfold ubit in Eb. lia.
  - intros u j Hu Q Cu. destruct (discard_inq _ _ _ Hu Q) as [H0 _]. apply D; auto.
  - apply nodup_discard. exact E.
Qed.

(* the candidate at the confirmed position leaves unord_q (freed or adopted) *)
Lemma LL_pop id l JL LN AB US pb pd :
  (forall u, In u US -> u_id u = id -> ubit u <= pb) -> LL JL LN AB US pb pd ->
  LL JL LN AB (del_unord id US) pb pd /\ LL JL LN AB (upd_unord id (u_detach l) US) pb pd.
Proof.
  intros HB [A B C D E F]. split; constructor; auto.
  - unfold del_unord. rewrite <- (map_id (filter _ US)). apply ubs_sub_nodup; auto.
  - intros PD b Hb LT. pose proof (C PD b Hb LT) as IN. apply ubs_In in IN. destruct IN as (u & Hu & Q & Eb).
    apply ubs_In. exists u. split; auto. unfold del_unord. apply filter_In. split; auto. apply negb_true_iff. apply N.eqb_neq.
    intro K. specialize (HB u Hu K). lia.
  - intros u j Hu. apply D. unfold del_unord in Hu. apply filter_In in Hu. tauto.
  - unfold del_unord. apply nodup_map_filter. exact E.
  - unfold upd_unord. rewrite <- (filter_true US) at 1. apply ubs_sub_nodup; auto. intro u.
    destruct (u_id u =? id); simpl; auto. discriminate.
  - intros PD b Hb LT. pose proof (C PD b Hb LT) as IN. apply ubs_In in IN. destruct IN as (u & Hu & Q & Eb).
    apply ubs_In. exists u. split; auto. unfold upd_unord. apply in_map_iff. exists u. split; auto.
    destruct (u_id u =? id) eqn:K; auto. apply N.eqb_eq in K. specialize (HB u Hu K). lia.
  - intros u' j Hu' Q Cu. unfold upd_unord in Hu'. apply in_map_iff in Hu'. destruct Hu' as (u & <- & Hu).
    destruct (u_id u =? id); [simpl in Q; discriminate|]. apply D; auto.
  - rewrite map_id_upd; auto.
Qed.

(* the parser creates the master retrieve job of the block it has confirmed *)
Lemma LL_master jn b0 JL LN AB US pb pd :
  LL JL LN AB US pb pd -> ~ In b0 LN -> b0 <= pb -> r_link jn = None ->
  LL (jn :: JL) (b0 :: LN) (b0 :: AB) US pb pd.
Proof.
  intros [A B C D E F] N1 LE NL. constructor; auto.
  - constructor; auto.
  - intros PD b [<-|Hb] LT; [lia|apply C; auto].
  - intros u j Hu Q Cu [<-|Hj]; [congruence|apply D; auto].
  - intro id. rewrite lcount_cons. unfold links. rewrite NL. simpl. apply F.
Qed.

Lemma lld_parse_ok cfg lv crc s pb0 :
  LL (all_jobs s) (linesp (all_jobs s) s) (allbitsp (all_jobs s) s) (x_unords s) pb0 (x_parsing_done s) ->
  pb0 < d_bit (x_parser_bs s) -> x_next s = d_bit (x_parser_bs s) -> x_parsing_done s = false ->
  (forall u, In u (x_unords s) -> snd (u_base u) = 0) ->
  lld (parse_ok cfg lv crc s).
Proof.
  intros L LT NX PD SB. unfold parse_ok.
  set (p := d_pos (x_parser_bs s)) in *.
  set (s1 := set_order_q (x_order_q s ++ [mkhead p lv crc]) s).
  set (s2 := set_unords (discard_below p (x_unords s1)) s1).
  assert (FP : fst p = d_bit (x_parser_bs s)) by reflexivity.
  assert (L2 : LLs (all_jobs s2) s2).
  { assert (LE : pb0 <= fst p) by (rewrite FP; apply N.lt_le_incl; exact LT).
    pose proof (LL_discard p _ _ _ _ _ _ LE L) as X. rewrite FP, <- NX in X. exact X. }
  assert (US2 : x_unords s2 = discard_below p (x_unords s)) by reflexivity.
  assert (NX2 : pbit s2 = fst p) by (rewrite FP, <- NX; reflexivity).
  assert (PB2 : x_parser_bs s2 = x_parser_bs s) by reflexivity.
  assert (NEW : (forall m, In m (unord_q s2) -> u_base m <> p) ->
                lld (set_retr_q (mkrjob p (x_parser_bs s2) None :: x_retr_q s2) s2)).
  { intro NOC. apply LLs_lld.
    apply (LL_master (mkrjob p (x_parser_bs s2) None) (fst p) _ _ _ _ _ _ L2); [|rewrite NX2; apply N.le_refl|reflexivity].
    intro X. apply lines_allbits in X.
    assert (X0 : In (fst p) (allbitsp (all_jobs s) s)) by exact X.
    rewrite <- FP in LT. pose proof (L_ub _ _ _ _ _ _ L PD _ X0 LT) as IN. apply ubs_In in IN. destruct IN as (u0 & H0 & Q0 & E0).
    assert (B0 : u_base u0 = p).
    { pose proof (SB u0 H0) as Z. unfold ubit in E0. destruct (u_base u0) as [a b]. simpl in *. subst p. unfold d_pos. simpl in E0. congruence. }
    apply (NOC u0); auto. unfold unord_q. apply filter_In. split; auto. rewrite US2. apply discard_keep; auto.
    rewrite B0. apply pos_lt_irrefl. }
  destruct (qmin u_base pos_lt (unord_q s2)) as [u|] eqn:Q.
  2:{ apply NEW. intros m Hm. apply qmin_none in Q. rewrite Q in Hm. destruct Hm. }
  destruct (pos_eq (u_base u) p) eqn:PE.
  2:{ apply NEW. intros m Hm Em.
      pose proof (qmin_min _ _ _ _ Q Hm) as M. rewrite Em in M.
      pose proof (qmin_In _ _ _ Q) as Hu. unfold unord_q in Hu. apply filter_In in Hu. destruct Hu as [Hu Qu].
      rewrite US2 in Hu. destruct (discard_inq _ _ _ Hu Qu) as [_ M2].
      rewrite (pos_lt_total _ _ M2 M) in PE. assert (T : pos_eq p p = true) by (apply pos_eq_spec; reflexivity). congruence. }
  clear NEW. apply pos_eq_spec in PE. apply qmin_In in Q. unfold unord_q in Q. apply filter_In in Q. destruct Q as [Hu Qi].
  destruct (LLs_advance cfg (u_end u) s2 [] L2) as [L3 _]. simpl app in L3.
  assert (HB : forall u', In u' (x_unords (advance cfg (u_end u) s2)) -> u_id u' = u_id u -> ubit u' <= pbit (advance cfg (u_end u) s2)).
  { intros u' H' E'. destruct (adv_stems _ _ _ _ H') as (u0 & H0 & (S1 & S2 & _)).
    assert (u0 = u) by (apply (nodup_id_unique (x_unords s2)); auto; [apply L2|congruence]). subst u0.
    replace (pbit (advance cfg (u_end u) s2)) with (pbit s2) by (unfold pbit; autorewrite with xf; reflexivity).
    unfold ubit. rewrite S2, PE, NX2. apply N.le_refl. }
  destruct (LL_pop (u_id u) true _ _ _ _ _ _ HB L3) as [LD LU].
  set (s3 := advance cfg (u_end u) s2) in *. clearbody s3.
  destruct (u_complete u).
  - match goal with |- lld ?x => apply (lld_fin _ _ _ _ x LD) end.
    + unfold pbit. snorm. apply N.le_refl.
    + intro id. snorm. apply Nat.le_refl.
    + intro b. unfold lines. snorm. apply Nat.le_refl.
    + intro b. unfold allbits. snorm. auto.
  - match goal with |- lld ?x => apply (lld_fin _ _ _ _ x LU) end.
    + unfold pbit. snorm. apply N.le_refl.
    + intro id. snorm. apply Nat.le_refl.
    + intro b. unfold lines. snorm. apply Nat.le_refl.
    + intro b. unfold allbits. snorm. auto.
Qed.

Lemma lld_parse1 cfg att r st st' :
  inv st -> lld st -> ev_next st (EvParse1 att r) -> parse1 cfg att r st = Some st' -> lld st'.
Proof.
  intros IV I EV H. unfold parse1 in H.
  destruct (del_run (CParse att) st) as [s1|] eqn:D; [|discriminate].
  destruct (inv_del_parse _ _ _ D IV) as (_ & _ & _ & _ & PD1).
  destruct (del_run_spec _ _ _ D) as (l1 & l2 & E & ES1).
  assert (L2 : LLs (all_jobs (detach att s1)) (detach att s1)).
  { generalize (lld_LLs st IV I). subst s1. apply LLs_mono; [view_fin|view_fin|pb_fin| | | ].
    - intro id. snorm. rewrite E. lnorm. lc_fin.
    - intro b. snorm. rewrite E. lnorm. occ_fin.
    - intro b. snorm. rewrite E. lnorm. in_fin. }
  assert (SB2 : forall u, In u (x_unords (detach att s1)) -> snd (u_base u) = 0).
  { intros u Hu. subst s1. autorewrite with xf in Hu. xs in Hu. pose proof (i_unord _ IV) as UO. rewrite Forall_forall in UO.
    apply UO; auto. }
  assert (F2 : x_next (detach att s1) = x_next st /\ x_parsing_done (detach att s1) = false).
  { subst s1. autorewrite with xf. xs. xs in PD1. auto. }
  destruct F2 as (NX2 & PD2).
  clear IV I D ES1 E PD1. set (aend := att_end att s1) in *. clearbody aend.
  match type of H with (if ?c then _ else _) = _ => destruct c eqn:CC; [|discriminate] end. clear CC.
  set (s2 := detach att s1) in *. clearbody s2. clear s1.
  set (bs := res_bs r) in *.
  destruct (LLs_advance cfg bs s2 [] L2) as [L3 _]. simpl app in L3.
  assert (SB3 : forall u, In u (x_unords (advance cfg bs s2)) -> snd (u_base u) = 0).
  { intros u Hu. destruct (adv_stems _ _ _ _ Hu) as (u0 & H0 & (_ & S2 & _)). rewrite S2. auto. }
  assert (F3 : x_next (advance cfg bs s2) = x_next st /\ x_parsing_done (advance cfg bs s2) = false /\
               x_parser_bs (advance cfg bs s2) = bs).
  { unfold advance. autorewrite with xf. xs. auto. }
  destruct F3 as (NX3 & PD3 & PB3).
  set (s3 := advance cfg bs s2) in *. clearbody s3. clear L2 SB2 NX2 PD2.
  destruct r as [b ps|b g|b code|b ps lv crc]; simpl res_bs in *; subst bs.
  - match type of H with (if ?c then _ else _) = _ => destruct c; [|discriminate] end. inversion H; subst st'. clear H.
    eapply LLs_lld_view; [exact L3| | | | | | ]; view_fin.
  - match type of H with (if ?c then _ else _) = _ => destruct c; [|discriminate] end. inversion H; subst st'. clear H.
    apply lld_parse_finish. exact L3.
  - match type of H with (if ?c then _ else _) = _ => destruct c; [discriminate|] end. inversion H; subst st'. clear H.
    eapply LLs_lld_view; [exact L3| | | | | | ]; unfold fail; view_fin.
  - match type of H with (if ?c then _ else _) = _ => destruct c; [|discriminate] end. inversion H; subst st'. clear H.
    simpl in EV.
    apply (lld_parse_ok cfg lv crc (set_par ps (set_next (d_bit b) s3)) (x_next s3)).
    + exact L3.
    + xs. rewrite PB3, NX3. unfold HDR_MIN in EV. clear - EV. lia.
    + xs. rewrite PB3. reflexivity.
    + xs. exact PD3.
    + xs. exact SB3.
Qed.

(* ---- the invariant is inductive -------------------------------------------------------------------- *)
Lemma lld_init n tin tout ultra : lld (init_state n tin tout ultra).
Proof.
  constructor; simpl.
  - constructor.
  - constructor.
  - intros _ b [].
  - intros u j [].
Qed.

(* hypotheses used: [inv], [own] (only its clause o_next: x_next <= parser position, for do_scan), the label
   hypotheses [ev_next] (parse1, POk) and [ev_fresh] (scan1).  Not needed: cfg_safe, cfg_drops, sown, cnt,
   x_failed st' = None (the failing branches preserve lld as well). *)
Theorem lld_step cfg st e st' :
  inv st -> own st -> ev_next st e -> ev_fresh st e -> lld st -> step cfg st e = Some st' -> lld st'.
Proof.
  intros I OW EV EF L H. unfold step in H. destruct (x_failed st); [discriminate|].
  destruct e.
  - eapply lld_input; eauto.
  - eapply lld_eof; eauto.
  - eapply lld_written; eauto.
  - eapply lld_parse0; eauto.
  - eapply lld_parse1; eauto.
  - eapply lld_retr0; eauto.
  - eapply lld_retr1; eauto.
  - eapply lld_retr2; eauto.
  - eapply lld_emit0; eauto.
  - eapply lld_emit1; eauto.
  - eapply lld_reorder; eauto.
  - eapply lld_scan0; eauto.
  - eapply lld_scan1; eauto.
Qed.

Print Assumptions lld_init.
Print Assumptions lld_step.
