From Coq Require Import List NArith Bool Lia Arith ZifyBool ZifyN.
From LBZ Require Import Gen.Consts SchedX.XState Gen.SchedXTab SchedX.XSet SchedX.XModel SchedX.XLemmas
  SchedX.XFrame SchedX.XInvDefs SchedX.XOps SchedX.XInv.
Import ListNotations.
Local Open Scope N_scope.

Lemma job_ok_ext st st' j : x_next_uid st' = x_next_uid st -> x_unords st' = x_unords st -> job_ok st j -> job_ok st' j.
Proof. unfold job_ok. intros -> ->. auto. Qed.

Lemma inv_input sz m st st' : inv st -> input sz m st = Some st' -> inv st'.
Proof.
  unfold input. intros I H.
  destruct (negb (x_eof st) && (0 <? x_in_slots st) && (0 <? sz) && (m <? 4)) eqn:C; [|discriminate].
  destruct (x_parsing_done st) eqn:PD; inversion H; subst; auto.
  destruct I as [Ic Ip Ir Is Iu If Ij Il Ie Im Id Ib Iq]. unfold all_jobs, nparse in *.
  constructor; unfold all_jobs, nparse; xs; auto.
  - apply contig_app; simpl; auto. lia.
  - constructor; auto. simpl. apply contig_le in Ic. unfold dbs_norm; simpl. split; lia.
Qed.

Lemma task_eqb_eq a b : task_eqb a b = true -> a = b.
Proof. destruct a, b; simpl; congruence. Qed.

Lemma selects_ready t st : selects t st = true -> ready t st = true.
Proof.
  unfold selects, first_ready. destruct (find (fun t0 => ready t0 st) task_list) as [u|] eqn:F; [|discriminate].
  intro E. apply task_eqb_eq in E; subst. apply find_some in F. tauto.
Qed.

Lemma can_attach_le st d : can_attach st d = true -> d_off d <= x_tail_offs st.
Proof. unfold can_attach. lia. Qed.


Ltac bool_hyps := repeat match goal with
  | H : _ && _ = true |- _ => apply andb_true_iff in H; destruct H
  | H : negb _ = true |- _ => apply negb_true_iff in H
  | H : negb _ = false |- _ => apply negb_false_iff in H
  | H : _ || _ = false |- _ => apply orb_false_iff in H; destruct H
  end.


Ltac nrm := unfold all_jobs, nparse, add_run, give_unit, fail; xs; autorewrite with xf; xs.
Ltac jobs_ext Ij := eapply Forall_impl; [|exact Ij]; intro; apply job_ok_ext; nrm; reflexivity.

Lemma inv_parse0 st st' : inv st -> parse0 st = Some st' -> inv st'.
Proof.
  unfold parse0. intros I H. destruct (selects TParse st) eqn:S; [|discriminate].
  apply selects_ready in S. simpl in S. unfold can_parse in S. bool_hyps.
  match goal with H : can_attach _ _ = true |- _ => apply can_attach_le in H end.
  destruct I as [Ic Ip Ir Is Iu If Ij Il Ie Im Id Ib Iq].
  set (st1 := set_work_units (N.pred (x_work_units st)) (set_parse_token false st)) in *.
  destruct (attach (x_parser_bs st1) st1) as [st2 att] eqn:A.
  assert (E2 : st2 = fst (attach (x_parser_bs st1) st1)) by (rewrite A; reflexivity).
  inversion H; subst st'. clear H. rewrite E2. unfold all_jobs, nparse in *.
  constructor; nrm; subst st1; nrm.
  - apply attach_contig. nrm. auto.
  - auto.
  - auto.
  - auto.
  - auto.
  - auto.
  - jobs_ext Ij.
  - auto.
  - simpl. match goal with H : x_parse_token st = true |- _ => rewrite H in Ie end. simpl in Ie. lia.
  - auto.
  - congruence.
  - apply attach_ok; nrm; auto.
  - auto.
Qed.

Lemma norm_same_bit a b : dbs_norm a = true -> dbs_norm b = true -> d_bit a = d_bit b -> d_off a = d_off b.
Proof. unfold dbs_norm. lia. Qed.

Lemma move_job {A} (l1 l2 R : list A) j :
  (forall P, Forall P ((l1 ++ j :: l2) ++ R) <-> Forall P ((l1 ++ l2) ++ j :: R)) /\
  (forall p, length (filter p ((l1 ++ l2) ++ j :: R)) = length (filter p ((l1 ++ j :: l2) ++ R))).
Proof.
  split.
  - intro P. rewrite !Forall_app. split.
    + intros [[H1 H2] H3]. inversion H2; subst. repeat split; auto.
    + intros [[H1 H2] H3]. inversion H3; subst. repeat split; auto.
  - intro p. rewrite !filter_len_app. simpl. destruct (p j); simpl; rewrite ?filter_len_app; simpl; lia.
Qed.

Lemma inv_retr0 j st st' : inv st -> retr0 j st = Some st' -> inv st'.
Proof.
  unfold retr0. intros I H. destruct (selects TRetrieve st) eqn:S; [|discriminate].
  apply selects_ready in S. simpl in S. unfold can_retrieve in S. bool_hyps.
  destruct (take_min rjob_eqb rkey j (x_retr_q st)) as [q|] eqn:T; [|discriminate].
  apply take_min_spec in T. destruct T as [R M].
  destruct (remove_one_split _ rjob_eqb_eq _ _ _ R) as (l1 & l2 & EQ & Eq).
  destruct I as [Ic Ip Ir Is Iu If Ij Il Ie Im Id Ib Iq].
  unfold all_jobs, nparse in *.
  assert (Jj : job_ok st j) by (rewrite Forall_forall in Ij; apply Ij; apply in_or_app; left; rewrite EQ; apply in_or_app; right; left; auto).
  assert (Hj : x_head_offs st <= d_off (r_cur j)) by (rewrite Forall_forall in Ir; apply Ir; rewrite EQ; apply in_or_app; right; left; auto).
  assert (Tj : d_off (r_cur j) <= x_tail_offs st).
  { match goal with H : can_attach _ _ = true |- _ => apply can_attach_le in H; rename H into CA end.
    unfold peek_retr in CA. destruct (qmin rkey pos_lt (x_retr_q st)) as [p|] eqn:Q.
    - pose proof (qmin_In _ _ _ Q) as Pin. pose proof (qmin_min _ _ _ _ Q (remove_one_self _ rjob_eqb_eq _ _ _ R)) as M1.
      pose proof (M _ Pin) as M2. pose proof (pos_lt_total _ _ M1 M2) as KE. unfold rkey, d_pos in KE. inversion KE as [KB].
      assert (Jp : job_ok st p) by (rewrite Forall_forall in Ij; apply Ij; apply in_or_app; left; auto).
      destruct Jj as (_ & Nj & _). destruct Jp as (_ & Np & _).
      rewrite (norm_same_bit _ _ Nj Np KB). exact CA.
    - apply qmin_none in Q. rewrite Q in EQ. destruct l1; discriminate. }
  set (st1 := set_retr_q q st) in *.
  destruct (attach (r_cur j) st1) as [st2 att] eqn:A.
  assert (E2 : st2 = fst (attach (r_cur j) st1)) by (rewrite A; reflexivity).
  inversion H; subst st'. clear H. rewrite E2.
  destruct (move_job l1 l2 (run_jobs (x_running st)) j) as [MF ML].
  constructor; nrm; subst st1; nrm; rewrite ?run_jobs_cons; simpl cjobs; simpl app.
  - apply attach_contig. nrm. auto.
  - auto.
  - rewrite EQ in Ir. rewrite Eq. rewrite Forall_app in *. destruct Ir as [A1 A2]. inversion A2; subst. auto.
  - auto.
  - auto.
  - auto.
  - rewrite Eq. apply MF. rewrite <- EQ. jobs_ext Ij.
  - intro id. rewrite Eq, ML, <- EQ. apply Il.
  - simpl. rewrite Eq, ML, <- EQ. exact Ie.
  - constructor; auto.
  - auto.
  - apply attach_ok; nrm; auto.
  - auto.
Qed.

Lemma inv_scan0 st st' : inv st -> scan0 st = Some st' -> inv st'.
Proof.
  unfold scan0. intros I H. destruct (selects TScan st) eqn:S; [|discriminate].
  apply selects_ready in S. simpl in S. unfold can_scan in S. bool_hyps.
  destruct (qmin d_pos pos_lt (x_scan_q st)) as [s|] eqn:Q; [|discriminate].
  destruct (remove_one dbs_eqb s (x_scan_q st)) as [q|] eqn:R; [|discriminate].
  destruct I as [Ic Ip Ir Is Iu If Ij Il Ie Im Id Ib Iq].
  unfold all_jobs, nparse in *.
  destruct (remove_one_Forall _ dbs_eqb_eq _ _ _ _ R Is) as [Is' [Hs Ns]].
  match goal with H : can_attach _ _ = true |- _ => apply can_attach_le in H; rename H into CA end.
  unfold peek_scan in CA. rewrite Q in CA.
  set (st1 := set_scan_q q (set_work_units (N.pred (x_work_units st)) st)) in *.
  destruct (attach s st1) as [st2 att] eqn:A.
  assert (E2 : st2 = fst (attach s st1)) by (rewrite A; reflexivity).
  inversion H; subst st'. clear H. rewrite E2.
  constructor; nrm; subst st1; nrm; rewrite ?run_jobs_cons; simpl cjobs; simpl app.
  - apply attach_contig. nrm. auto.
  - auto.
  - auto.
  - auto.
  - auto.
  - auto.
  - jobs_ext Ij.
  - auto.
  - simpl. exact Ie.
  - auto.
  - auto.
  - apply attach_ok; nrm; auto.
  - auto.
Qed.

Lemma jm_app_new us u j : u_complete u = false -> jm (us ++ [u]) j = jm us j.
Proof.
  intro C. unfold jm. destruct (r_link j); auto. rewrite existsb_app. simpl. rewrite C.
  rewrite andb_false_r. simpl. rewrite !orb_false_r. reflexivity.
Qed.

Lemma view_detach att st : view_eq st (detach att st).
Proof.
  constructor; nrm; auto. intros. apply detach_contig.
Qed.

Lemma job_ok_fresh st st' j u : x_unords st' = x_unords st ++ [u] -> x_next_uid st' = x_next_uid st + 1 ->
  u_id u = x_next_uid st -> job_ok st j -> job_ok st' j.
Proof.
  intros EU EN EI (J1 & J2 & J3 & J4 & J5). unfold job_ok. rewrite EU, EN.
  split; [auto|]. split; [auto|]. split; [auto|]. split.
  - intros id E. specialize (J4 id E). lia.
  - intros id u0 E Hin Hid. apply in_app_or in Hin. destruct Hin as [Hin|[Hin|[]]]; [eapply J5; eauto|].
    subst u0. specialize (J4 _ E). lia.
Qed.

Lemma job_ok_new st st' b s id : x_unords st' = x_unords st ++ [mkunord id (d_pos s) s false false true] ->
  x_next_uid st' = id + 1 -> id = x_next_uid st -> Forall (fun u => u_id u < x_next_uid st) (x_unords st) ->
  dbs_norm s = true -> b = d_pos s -> job_ok st' (mkrjob b s (Some id)).
Proof.
  intros EU EN EI If Ns ->. unfold job_ok; simpl. rewrite EU, EN.
  split; [lia|]. split; [auto|]. split; [auto|]. split.
  - intros id0 E. inversion E; subst. lia.
  - intros id0 u E Hin Hid. inversion E; subst id0. apply in_app_or in Hin. destruct Hin as [Hin|[Hin|[]]].
    + rewrite Forall_forall in If. apply If in Hin. lia.
    + subst u. simpl. auto.
Qed.

Lemma nodup_snoc {A} (l : list A) x : NoDup l -> ~ In x l -> NoDup (l ++ [x]).
Proof.
  induction l as [|a r IH]; simpl; intros H N.
  - constructor; auto.
  - inversion H; subst. constructor.
    + rewrite in_app_iff. simpl. intros [K|[K|[]]]; auto.
    + apply IH; auto.
Qed.

Lemma fresh_not_in us id : Forall (fun u => u_id u < id) us -> ~ In id (map u_id us).
Proof. rewrite Forall_forall, in_map_iff. intros H (u & E & Hu). apply H in Hu. lia. Qed.

Lemma inv_scan1 cfg s att found s' more st st' : cfg_safe cfg -> inv st -> scan1 cfg s att found s' more st = Some st' -> inv st'.
Proof.
  intros (CS & CJ & CR) I H. unfold scan1 in H.
  destruct (del_run (CScan s att) st) as [s1|] eqn:D; [|discriminate].
  assert (I1 : inv s1) by (eapply inv_view; [eapply view_del_run; eauto|auto]).
  clear I D. set (aend := att_end att s1) in *. clearbody aend.
  assert (I2 : inv (detach att s1)) by (eapply inv_view; [apply view_detach|auto]).
  set (s2 := detach att s1) in *. clearbody s2. clear I1.
  destruct (negb found || x_parsing_done s2) eqn:F.
  { inversion H; subst. eapply inv_view; [|eauto]. view_tac. }
  destruct (dbs_norm s' && (d_off s <=? d_off s') && (d_off s' <=? aend) && Bool.eqb more (d_off s' <? aend)) eqn:C; [|discriminate].
  bool_hyps. rewrite CS, CJ in H. cbn [negb orb andb] in H.
  match goal with N : dbs_norm s' = true |- _ => rename N into Ns end.
  (* the state after the candidate has been registered (or not) *)
  set (s3 := if pos_le (d_pos s') (d_pos (x_parser_bs s2)) || (d_off s' <? x_head_offs s2) then give_unit s2
             else if c_scan_checks_unord_cap cfg && unord_full s2 then give_unit s2
             else set_retr_q (mkrjob (d_pos s') s' (Some (x_next_uid s2)) :: x_retr_q s2)
                   (set_next_uid (x_next_uid s2 + 1)
                      (set_unords (x_unords s2 ++ [mkunord (x_next_uid s2) (d_pos s') s' false false true]) s2))) in *.
  assert (I3 : inv s3 /\ x_head_offs s3 = x_head_offs s2 /\ x_scan_q s3 = x_scan_q s2).
  { subst s3. destruct (pos_le (d_pos s') (d_pos (x_parser_bs s2)) || (d_off s' <? x_head_offs s2)) eqn:K;
      [|destruct (c_scan_checks_unord_cap cfg && unord_full s2)].
    - split; [|nrm; auto]. eapply inv_view; [|eauto]. view_tac.
    - split; [|nrm; auto]. eapply inv_view; [|eauto]. view_tac.
    - split; [|nrm; auto]. apply orb_false_iff in K. destruct K as [_ K].
      destruct I2 as [Ic Ip Ir Is Iu If Ij Il Ie Im Id Ib Iq]. unfold all_jobs, nparse in *.
      constructor; nrm; auto.
      + constructor; auto. simpl. lia.
      + apply Forall_app. split; auto. constructor; auto. unfold unord_ok; simpl.
        split; [intros _; split; [apply dbs_norm_ok; auto|split; [lia|auto]]|split; [discriminate|auto]].
      + apply Forall_app. split.
        * eapply Forall_impl; [|exact If]. simpl. intros. lia.
        * constructor; auto. simpl. lia.
      + constructor.
        * eapply job_ok_new with (st := s2); nrm; auto.
        * eapply Forall_impl; [|exact Ij]. intros j. eapply job_ok_fresh; nrm; simpl; auto.
      + intro id. simpl. unfold links at 1. simpl.
        destruct (x_next_uid s2 =? id) eqn:E.
        * apply N.eqb_eq in E. subst id. simpl.
          assert (Z : length (filter (links (x_next_uid s2)) (x_retr_q s2 ++ run_jobs (x_running s2))) = 0%nat).
          { apply length_zero_iff_nil. apply (proj2 (filter_nil_iff _ _)) || idtac.
            destruct (filter (links (x_next_uid s2)) (x_retr_q s2 ++ run_jobs (x_running s2))) as [|j r] eqn:FL; auto.
            assert (Hin : In j (filter (links (x_next_uid s2)) (x_retr_q s2 ++ run_jobs (x_running s2)))) by (rewrite FL; left; auto).
            apply filter_In in Hin. destruct Hin as [Hin Hl]. unfold links in Hl. apply optN_eqb_eq in Hl.
            rewrite Forall_forall in Ij. destruct (Ij _ Hin) as (_ & _ & _ & J4 & _). specialize (J4 _ Hl). lia. }
          rewrite Z. lia.
        * apply Il.
      + simpl. unfold jm at 1. simpl. rewrite existsb_app. simpl.
        assert (Z : existsb (fun u => (u_id u =? x_next_uid s2) && u_complete u && u_legit u) (x_unords s2) = false).
        { apply not_true_iff_false. intro E. apply existsb_exists in E. destruct E as (u & Hu & E). bool_hyps.
          rewrite Forall_forall in If. apply If in Hu. lia. }
        rewrite Z. rewrite andb_false_r. simpl.
        rewrite (filter_len_ext (jm (x_unords s2 ++ [mkunord (x_next_uid s2) (d_pos s') s' false false true])) (jm (x_unords s2)));
          [exact Ie|]. intros. apply jm_app_new. reflexivity.
      + eapply Forall_impl; [|exact Im]. intros j. rewrite jm_app_new by reflexivity. auto.
      + rewrite map_app. simpl. apply nodup_snoc; auto. apply fresh_not_in; auto. }
  destruct I3 as (I3 & Hh3 & Q3).
  destruct (more && (x_head_offs s3 <=? d_off s')) eqn:RQ; inversion H; subst; auto.
  bool_hyps. destruct I3 as [Ic Ip Ir Is Iu If Ij Il Ie Im Id Ib Iq]. unfold all_jobs, nparse in *.
  constructor; nrm; auto.
  constructor; auto. split; auto. lia.
Qed.


Lemma jm_stems us us' j : (forall u, In u us' -> exists u0, In u0 us /\ stems u u0) -> Forall unord_ok us ->
  jm us' j = true -> jm us j = true.
Proof.
  intros HS HO. unfold jm. destruct (r_link j) as [id|]; auto. rewrite !existsb_exists.
  intros (u & Hu & E). destruct (HS u Hu) as (u0 & H0 & (S1 & S2 & S3 & S4 & S5 & S6)). exists u0. split; auto.
  bool_hyps. rewrite Forall_forall in HO. destruct (HO _ H0) as (O1 & O2 & _).
  rewrite <- S1, <- S5.
  destruct (u_complete u0) eqn:C0.
  - rewrite H, H1. reflexivity.
  - destruct (u_inq u0) eqn:Q0; [|specialize (O2 eq_refl); congruence].
    destruct (O1 eq_refl) as (_ & _ & L). congruence.
Qed.

Lemma job_ok_stems st st' j : x_next_uid st' = x_next_uid st ->
  (forall u, In u (x_unords st') -> exists u0, In u0 (x_unords st) /\ stems u u0) ->
  job_ok st j -> job_ok st' j.
Proof.
  intros EN HS (J1 & J2 & J3 & J4 & J5). unfold job_ok. rewrite EN.
  split; [auto|]. split; [auto|]. split; [auto|]. split; [auto|].
  intros id u E Hin Hid. destruct (HS u Hin) as (u0 & H0 & (S1 & S2 & S3 & S4 & S5 & S6)).
  destruct (J5 id u0 E H0 ltac:(congruence)) as [B1 B2]. split; [congruence|].
  intro C. rewrite S3. apply B2. destruct (u_complete u0); auto. specialize (S6 eq_refl). congruence.
Qed.

Lemma nodup_map_filter {A B} (f : A -> B) p l : NoDup (map f l) -> NoDup (map f (filter p l)).
Proof.
  induction l as [|a r IH]; simpl; intro H; auto. inversion H; subst.
  destruct (p a); simpl; auto. constructor; auto.
  intro K. apply H2. apply in_map_iff in K. destruct K as (x & E & Hx). apply filter_In in Hx.
  apply in_map_iff. exists x. tauto.
Qed.

Lemma map_id_upd id f us : (forall u, u_id (f u) = u_id u) -> map u_id (upd_unord id f us) = map u_id us.
Proof.
  intro H. unfold upd_unord. rewrite map_map. apply map_ext. intro u. destruct (u_id u =? id); auto.
Qed.

Lemma nodup_drop_link l us : NoDup (map u_id us) -> NoDup (map u_id (drop_link l us)).
Proof.
  intro H. unfold drop_link. destruct l as [id|]; auto. destruct (get_unord id us) as [u|]; auto.
  destruct (u_complete u).
  - apply nodup_map_filter; auto.
  - rewrite map_id_upd; auto.
Qed.

Lemma nodup_drop_links js us : NoDup (map u_id us) -> NoDup (map u_id (drop_links js us)).
Proof.
  unfold drop_links. revert us. induction js as [|j r IH]; simpl; intros us H; auto.
  apply IH. apply nodup_drop_link. auto.
Qed.

Definition masters (st : xstate) : nat := length (filter (jm (x_unords st)) (all_jobs st)).

Lemma inv_advance cfg bs st :
  inv st -> masters st = 0%nat -> x_head_offs st <= d_off bs ->
  inv (advance cfg bs st) /\ masters (advance cfg bs st) = 0%nat /\
  x_head_offs st <= x_head_offs (advance cfg bs st) /\
  x_head_offs (advance cfg bs st) <= d_off bs /\
  (forall u, In u (x_unords (advance cfg bs st)) -> exists u0, In u0 (x_unords st) /\ stems u u0) /\
  (forall P, Forall P (x_retr_q st) -> Forall P (x_retr_q (advance cfg bs st))).
Proof.
  intros [Ic Ip Ir Is Iu If Ij Il Ie Im Id Ib Iq] M0 Hb. unfold masters, all_jobs, nparse in *.
  set (sa := adv_input (d_off bs) (set_parser_bs bs st)).
  assert (Ca : contig (x_head_offs sa) (x_input_q sa) (x_tail_offs st) /\ x_head_offs st <= x_head_offs sa /\ x_head_offs sa <= d_off bs).
  { assert (P0 : contig (x_head_offs (set_parser_bs bs st)) (x_input_q (set_parser_bs bs st)) (x_tail_offs (set_parser_bs bs st))) by (nrm; exact Ic).
    destruct (adv_input_spec (d_off bs) _ P0) as (A1 & A2 & A3). fold sa in A1, A2, A3. revert A1 A2 A3. nrm. intros. repeat split; auto. }
  destruct Ca as (Ca1 & Ca2 & Ca3).
  assert (Nq : Forall (fun j => dbs_norm (r_cur j) = true) (x_retr_q st)).
  { apply Forall_app in Ij. destruct Ij as [Ij _]. eapply Forall_impl; [|exact Ij]. intros j J. apply J. }
  pose proof (adv_retr_spec (length (x_retr_q st)) (x_head_offs sa) (x_retr_q st) (le_n _) Nq) as SP.
  cbv zeta in SP. set (dk := adv_retr (length (x_retr_q st)) (x_head_offs sa) (x_retr_q st)) in *.
  destruct SP as (K1 & K2 & K3).
  set (us' := if c_advance_drops_link cfg then drop_links (fst dk) (x_unords st) else x_unords st).
  assert (ST : forall u, In u us' -> exists u0, In u0 (x_unords st) /\ stems u u0).
  { subst us'. destruct (c_advance_drops_link cfg); [apply drop_links_stems|]. intros; eexists; split; eauto using stems_refl. }
  assert (Ns : Forall (fun s => dbs_norm s = true) (x_scan_q st)) by (eapply Forall_impl; [|exact Is]; simpl; tauto).
  pose proof (adv_scan_spec (length (x_scan_q st)) (x_head_offs sa) (x_scan_q st) (le_n _) Ns) as (Q1 & Q2 & Q3).
  assert (EH : x_head_offs (advance cfg bs st) = x_head_offs sa) by (unfold advance; nrm; reflexivity).
  assert (EI : x_input_q (advance cfg bs st) = x_input_q sa) by (unfold advance; nrm; reflexivity).
  assert (Erq : x_retr_q sa = x_retr_q st) by (subst sa; nrm; reflexivity).
  assert (Eus : x_unords sa = x_unords st) by (subst sa; nrm; reflexivity).
  assert (Esq : x_scan_q sa = x_scan_q st) by (subst sa; nrm; reflexivity).
  assert (ER : x_retr_q (advance cfg bs st) = snd dk).
  { unfold advance. nrm. unfold adv_jobs. fold sa. subst dk.
    destruct (c_advance_drops_link cfg); nrm; rewrite ?Erq, ?Eus; reflexivity. }
  assert (EU : x_unords (advance cfg bs st) = us').
  { unfold advance. nrm. unfold adv_jobs. fold sa. subst us' dk.
    destruct (c_advance_drops_link cfg); nrm; rewrite ?Erq, ?Eus; reflexivity. }
  assert (ES : x_scan_q (advance cfg bs st) = adv_scan (length (x_scan_q st)) (x_head_offs sa) (x_scan_q st)).
  { unfold advance, adv_scans. nrm. unfold adv_jobs. fold sa.
    destruct (c_advance_drops_link cfg); nrm; rewrite ?Erq, ?Eus, ?Esq; reflexivity. }
  assert (EP : x_parser_bs (advance cfg bs st) = bs) by (unfold advance; nrm; reflexivity).
  assert (JM : forall j, jm us' j = true -> jm (x_unords st) j = true) by (intro j; apply jm_stems; auto).
  assert (MZ : forall j, In j (x_retr_q st ++ run_jobs (x_running st)) -> jm (x_unords st) j = false).
  { intros j Hj. destruct (jm (x_unords st) j) eqn:E; auto.
    assert (In j (filter (jm (x_unords st)) (x_retr_q st ++ run_jobs (x_running st)))) by (apply filter_In; auto).
    destruct (filter (jm (x_unords st)) (x_retr_q st ++ run_jobs (x_running st))); [contradiction|discriminate]. }
  assert (SUB : forall j, In j (snd dk ++ run_jobs (x_running st)) -> In j (x_retr_q st ++ run_jobs (x_running st))).
  { intros j Hj. apply in_app_or in Hj. apply in_or_app. destruct Hj as [Hj|Hj]; auto. left.
    destruct (K2 (fun x => In x (x_retr_q st))) as [K _]; [apply Forall_forall; auto|]. rewrite Forall_forall in K. auto. }
  assert (MZ' : length (filter (jm us') (snd dk ++ run_jobs (x_running st))) = 0%nat).
  { apply length_zero_iff_nil. destruct (filter (jm us') (snd dk ++ run_jobs (x_running st))) as [|j r] eqn:FL; auto.
    assert (Hin : In j (filter (jm us') (snd dk ++ run_jobs (x_running st)))) by (rewrite FL; left; auto).
    apply filter_In in Hin. destruct Hin as [Hin Hm]. apply JM in Hm. rewrite (MZ j (SUB _ Hin)) in Hm. discriminate. }
  split; [|split; [|split; [|split; [|split]]]].
  - constructor; unfold all_jobs, nparse; rewrite ?EH, ?EI, ?ER, ?EU, ?ES, ?EP; nrm.
    + exact Ca1.
    + intros _. exact Ca3.
    + exact K1.
    + apply Forall_forall. intros s Hs. split.
      * rewrite Forall_forall in Q1. auto.
      * specialize (Q2 (fun s => dbs_norm s = true) Ns). rewrite Forall_forall in Q2. auto.
    + apply Forall_forall. intros u Hu. destruct (ST u Hu) as (u0 & H0 & S0). eapply unord_ok_stems; eauto.
      rewrite Forall_forall in Iu. auto.
    + apply Forall_forall. intros u Hu. destruct (ST u Hu) as (u0 & H0 & S0). rewrite Forall_forall in If.
      destruct S0 as (S1 & _). rewrite S1. auto.
    + apply Forall_forall. intros j Hj. apply SUB in Hj. rewrite Forall_forall in Ij.
      eapply job_ok_stems; [| |apply Ij; exact Hj].
      * nrm; reflexivity.
      * rewrite EU. exact ST.
    + intro id. specialize (Il id). rewrite filter_len_app in *. rewrite (K3 (links id)) in Il. lia.
    + rewrite MZ'. lia.
    + apply Forall_forall. intros j Hj Hm. apply JM in Hm. rewrite MZ in Hm; [discriminate|]. apply in_or_app; auto.
    + exact Id.
    + exact Ib.
    + subst us'. destruct (c_advance_drops_link cfg); auto. apply nodup_drop_links; auto.
  - unfold masters, all_jobs. rewrite ER, EU. nrm. exact MZ'.
  - rewrite EH. exact Ca2.
  - rewrite EH. exact Ca3.
  - rewrite EU. exact ST.
  - rewrite ER. intros P HP. apply K2. exact HP.
Qed.
