(* The safety invariants of the decompression scheduler are preserved by every
   event, provided the source tests `offset >= head_offs` at the three sites that
   put a job into retr_q / scan_q (cfg_safe: the repair of finding F4). *)
From Coq Require Import List NArith Bool Lia Arith ZifyBool ZifyN.
From LBZ Require Import Gen.Consts SchedX.XState Gen.SchedXTab SchedX.XSet SchedX.XModel SchedX.XLemmas
  SchedX.XFrame SchedX.XInvDefs SchedX.XOps.
Import ListNotations.
Local Open Scope N_scope.

(* ---- running continuations ---------------------------------------------------- *)
Definition cjobs (c : cont) : list rjob := match c with CRetr j _ => [j] | _ => [] end.

Lemma run_jobs_app a b : run_jobs (a ++ b) = run_jobs a ++ run_jobs b.
Proof. unfold run_jobs. apply flat_map_app. Qed.

Lemma run_jobs_cons c r : run_jobs (c :: r) = cjobs c ++ run_jobs r.
Proof. reflexivity. Qed.

Lemma del_run_spec c st st' : del_run c st = Some st' ->
  exists l1 l2, x_running st = l1 ++ c :: l2 /\ st' = set_running (l1 ++ l2) st.
Proof.
  unfold del_run. destruct (remove_one cont_eqb c (x_running st)) as [r|] eqn:R; [|discriminate].
  intro H; inversion H; subst. destruct (remove_one_split _ cont_eqb_eq _ _ _ R) as (l1 & l2 & E1 & E2).
  exists l1, l2. subst. auto.
Qed.

Lemma filter_len_app {A} (p : A -> bool) a b : length (filter p (a ++ b)) = (length (filter p a) + length (filter p b))%nat.
Proof. rewrite filter_app, app_length. reflexivity. Qed.

Lemma filter_len_mono {A} (p q : A -> bool) l : (forall x, In x l -> p x = true -> q x = true) ->
  (length (filter p l) <= length (filter q l))%nat.
Proof.
  induction l as [|a r IH]; simpl; intros H; [lia|].
  assert (IH' := IH (fun x Hx => H x (or_intror Hx))).
  destruct (p a) eqn:P; [rewrite (H a (or_introl eq_refl) P)|destruct (q a)]; simpl; lia.
Qed.

Lemma filter_len_mono2 {A} (p q s : A -> bool) l : (forall x, In x l -> p x = true -> q x = true \/ s x = true) ->
  (length (filter p l) <= length (filter q l) + length (filter s l))%nat.
Proof.
  induction l as [|a r IH]; simpl; intros H; [lia|].
  assert (IH' := IH (fun x Hx => H x (or_intror Hx))).
  destruct (p a) eqn:P.
  - destruct (H a (or_introl eq_refl) P) as [E|E]; rewrite E; simpl; destruct (q a), (s a); simpl; lia.
  - destruct (q a), (s a); simpl; lia.
Qed.

Lemma filter_len_ext {A} (p q : A -> bool) l : (forall x, In x l -> p x = q x) -> length (filter p l) = length (filter q l).
Proof.
  intro H. assert (length (filter p l) <= length (filter q l) /\ length (filter q l) <= length (filter p l))%nat; [|lia].
  split; apply filter_len_mono; intros x Hx; rewrite (H x Hx); auto.
Qed.

(* ---- states that agree on everything the invariants look at ----------------------- *)
Record view_eq (st st' : xstate) : Prop := mkview {
  v_head : x_head_offs st' = x_head_offs st;
  v_tail : x_tail_offs st' = x_tail_offs st;
  v_inq : forall h t, contig h (x_input_q st') t <-> contig h (x_input_q st) t;
  v_done : x_parsing_done st' = x_parsing_done st;
  v_pbs : x_parser_bs st' = x_parser_bs st;
  v_retr : x_retr_q st' = x_retr_q st;
  v_scan : x_scan_q st' = x_scan_q st;
  v_un : x_unords st' = x_unords st;
  v_uid : x_next_uid st' = x_next_uid st;
  v_tok : x_parse_token st' = x_parse_token st;
  v_rj : run_jobs (x_running st') = run_jobs (x_running st);
  v_np : nparse st' = nparse st;
  v_bad : x_bad_attach st' = x_bad_attach st
}.

Lemma inv_view st st' : view_eq st st' -> inv st -> inv st'.
Proof.
  intros [] [].
  assert (AJ : all_jobs st' = all_jobs st) by (unfold all_jobs; congruence).
  constructor; unfold job_ok in *; rewrite ?AJ, ?v_head0, ?v_tail0, ?v_done0, ?v_pbs0, ?v_retr0, ?v_scan0, ?v_un0, ?v_uid0,
    ?v_tok0, ?v_rj0, ?v_np0, ?v_bad0; auto.
  apply v_inq0; auto.
Qed.

Ltac view_tac := constructor; xs; autorewrite with xf; xs; auto; try tauto.

(* ---- the events that do not touch what the invariants look at ----------------------- *)
Lemma nparse_cons c r st : nparse (set_running (c :: r) st) = (b2n (is_parse c) + length (filter is_parse r))%nat.
Proof. unfold nparse. xs. simpl. destruct (is_parse c); reflexivity. Qed.

Lemma view_del_run c st st' : del_run c st = Some st' -> cjobs c = [] -> is_parse c = false -> view_eq st st'.
Proof.
  intros H Hj Hp. destruct (del_run_spec _ _ _ H) as (l1 & l2 & E & ->).
  constructor; xs; auto; try tauto.
  - rewrite E, !run_jobs_app, run_jobs_cons, Hj. reflexivity.
  - unfold nparse. xs. rewrite E, !filter_len_app. simpl. rewrite Hp. reflexivity.
Qed.

Lemma view_add_run c st : cjobs c = [] -> is_parse c = false -> view_eq st (add_run c st).
Proof.
  intros Hj Hp. constructor; xs; autorewrite with xf; xs; auto; try tauto.
  - unfold add_run. xs. rewrite run_jobs_cons, Hj. reflexivity.
  - unfold add_run. rewrite nparse_cons, Hp. reflexivity.
Qed.

Lemma view_trans a b c : view_eq a b -> view_eq b c -> view_eq a c.
Proof.
  intros [] []. constructor; try congruence. intros h t. rewrite v_inq1. apply v_inq0.
Qed.

Lemma view_refl a : view_eq a a.
Proof. constructor; auto; tauto. Qed.

Lemma inv_eof st st' : inv st -> reader_eof st = Some st' -> inv st'.
Proof.
  unfold reader_eof. intros I H. destruct (x_eof st); [discriminate|]. inversion H; subst.
  eapply inv_view; [|eauto]. view_tac.
Qed.

Lemma inv_written st st' : inv st -> written st = Some st' -> inv st'.
Proof.
  unfold written. intros I H. destruct (0 <? x_outq st); [|discriminate]. inversion H; subst.
  eapply inv_view; [|eauto]. view_tac.
Qed.

Lemma inv_retr2 e st st' : inv st -> retr2 e st = Some st' -> inv st'.
Proof.
  unfold retr2. intros I H. destruct (del_run (CRetr2 e) st) as [s1|] eqn:D; [|discriminate]. inversion H; subst.
  eapply inv_view; [|eauto]. eapply view_trans; [eapply view_del_run; eauto|]. view_tac.
Qed.

Lemma inv_emit0 st st' : inv st -> emit0 st = Some st' -> inv st'.
Proof.
  unfold emit0. intros I H. destruct (selects TEmit st); [|discriminate].
  destruct (qmin e_base pos_lt (x_emit_q st)) as [e|]; [|discriminate].
  destruct (remove_one ejob_eqb e (x_emit_q st)) as [q|]; [|discriminate]. inversion H; subst.
  eapply inv_view; [|eauto]. eapply view_trans; [|apply view_add_run; auto]. view_tac.
Qed.

Lemma inv_emit1 e rv size crc blksz st st' : inv st -> emit1 e rv size crc blksz st = Some st' -> inv st'.
Proof.
  unfold emit1. intros I H. destruct (del_run (CEmit e) st) as [s1|] eqn:D; [|discriminate].
  assert (V : view_eq st s1) by (eapply view_del_run; eauto).
  destruct (((e_status e =? OK) || (rv =? e_status e)) && negb (rv =? FINISH)); [|discriminate].
  destruct (rv =? MORE); inversion H; subst; (eapply inv_view; [|eauto]); (eapply view_trans; [exact V|]);
    unfold give_unit; view_tac.
Qed.

Lemma inv_reorder st st' : inv st -> reorder st = Some st' -> inv st'.
Proof.
  unfold reorder. intros I H. destruct (selects TReorder st); [|discriminate].
  destruct (qmin o_base pos_lt (x_reord_q st)) as [o|]; [|discriminate].
  destruct (remove_one oblk_eqb o (x_reord_q st)) as [q|]; [|discriminate].
  xs in H.
  destruct (x_order_q st) as [|ord rest]; [inversion H; subst; eapply inv_view; [|eauto]; view_tac|].
  destruct (pos_lt (o_base o) (h_base ord)); [inversion H; subst; eapply inv_view; [|eauto]; view_tac|].
  repeat match type of H with context [if ?c then _ else _] => destruct c end;
    inversion H; subst; (eapply inv_view; [|eauto]); unfold fail; view_tac.
Qed.
