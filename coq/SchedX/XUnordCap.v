(* Capacity of unord_q (finding F9).  unord_q grows only when do_scan() records a
   candidate; every other event leaves its length alone or shrinks it.  When the source
   tests `size(unord_q) >= unord_cap` before recording (regenerated boolean
   scan_checks_unord_cap), the queue never exceeds the capacity it was allocated with.
   Without the test the bound is false: notes/XF9Refuted_before_fix.v. *)
From Coq Require Import List NArith Bool Lia Arith ZifyBool ZifyN ZifyNat.
From LBZ Require Import Gen.Consts SchedX.XState Gen.SchedXTab SchedX.XSet SchedX.XModel SchedX.XLemmas
  SchedX.XFrame SchedX.XInvDefs SchedX.XOps SchedX.XInv SchedX.XInv2 SchedX.XSeq SchedX.XCount.
Import ListNotations.
Local Open Scope N_scope.

Definition inq_len (us : list unord) : nat := length (filter u_inq us).

Lemma inq_len_filter p us : (inq_len (filter p us) <= inq_len us)%nat.
Proof. unfold inq_len. induction us as [|u r IH]; simpl; auto. destruct (p u); simpl; destruct (u_inq u); simpl; lia. Qed.

Lemma inq_len_map f us : (forall u, u_inq (f u) = true -> u_inq u = true) -> (inq_len (map f us) <= inq_len us)%nat.
Proof.
  intro HF. unfold inq_len. induction us as [|u r IH]; simpl; auto.
  destruct (u_inq (f u)) eqn:E; [rewrite (HF u E)|destruct (u_inq u)]; simpl; lia.
Qed.

Lemma inq_len_upd id f us : (forall u, u_inq (f u) = true -> u_inq u = true) -> (inq_len (upd_unord id f us) <= inq_len us)%nat.
Proof. intro HF. unfold upd_unord. apply inq_len_map. intros u. destruct (u_id u =? id); auto. Qed.

Lemma inq_len_del id us : (inq_len (del_unord id us) <= inq_len us)%nat.
Proof. apply inq_len_filter. Qed.

Lemma inq_len_drop_link l us : (inq_len (drop_link l us) <= inq_len us)%nat.
Proof.
  unfold drop_link. destruct l as [id|]; auto. destruct (get_unord id us) as [u|]; auto.
  destruct (u_complete u); [apply inq_len_del|apply inq_len_upd; auto].
Qed.

Lemma inq_len_drop_links js us : (inq_len (drop_links js us) <= inq_len us)%nat.
Proof.
  unfold drop_links. revert us. induction js as [|j r IH]; simpl; intro us; auto.
  eapply Nat.le_trans; [apply IH|apply inq_len_drop_link].
Qed.

Lemma inq_len_discard p us : (inq_len (discard_below p us) <= inq_len us)%nat.
Proof.
  unfold discard_below. eapply Nat.le_trans; [apply inq_len_map|apply inq_len_filter].
  intro u. destruct (u_inq u && pos_lt (u_base u) p && negb (u_complete u)); simpl; auto. discriminate.
Qed.

Lemma inq_len_flush us : (inq_len (flush_unords us) <= inq_len us)%nat.
Proof.
  unfold flush_unords. eapply Nat.le_trans; [apply inq_len_map|apply inq_len_filter].
  intro u. destruct (u_inq u) eqn:E; simpl; intro X; congruence.
Qed.

Definition ulen (st : xstate) : nat := inq_len (x_unords st).

Lemma ulen_unord_q st : length (unord_q st) = ulen st.
Proof. reflexivity. Qed.

Lemma ulen_advance cfg bs st : (ulen (advance cfg bs st) <= ulen st)%nat.
Proof.
  unfold ulen. destruct (adv_fields cfg bs st) as [_ EU]. cbv zeta in EU. rewrite EU.
  destruct (c_advance_drops_link cfg); auto. apply inq_len_drop_links.
Qed.

Lemma ulen_parse_finish cfg g s : (ulen (parse_finish cfg g s) <= ulen s)%nat.
Proof.
  unfold parse_finish. set (pb' := mkdbs _ _). clearbody pb'.
  match goal with |- (ulen (if ?c then _ else _) <= _)%nat => destruct c end; [unfold ulen, fail; xs; auto|].
  unfold ulen. destruct (c_finish_drops_link cfg); xs; autorewrite with xf; xs.
  - eapply Nat.le_trans; [apply inq_len_flush|apply inq_len_drop_links].
  - apply inq_len_flush.
Qed.

Lemma ulen_parse_ok cfg lv crc s : (ulen (parse_ok cfg lv crc s) <= ulen s)%nat.
Proof.
  unfold parse_ok.
  set (s2 := set_unords (discard_below (d_pos (x_parser_bs s)) (x_unords (set_order_q _ s))) (set_order_q _ s)).
  assert (L2 : (ulen s2 <= ulen s)%nat) by (subst s2; unfold ulen; xs; apply inq_len_discard).
  clearbody s2.
  destruct (qmin u_base pos_lt (unord_q s2)) as [u|]; [|unfold ulen in *; xs; auto].
  destruct (pos_eq (u_base u) (d_pos (x_parser_bs s))); [|unfold ulen in *; xs; auto].
  pose proof (ulen_advance cfg (u_end u) s2) as L3. set (s3 := advance cfg (u_end u) s2) in *. clearbody s3.
  destruct (u_complete u); unfold ulen in *; xs.
  - eapply Nat.le_trans; [apply inq_len_del|lia].
  - eapply Nat.le_trans; [apply inq_len_upd|lia]. intros v X. simpl in X. discriminate.
Qed.

(* every event but the recording of a candidate leaves the length of unord_q alone or shrinks it *)
Lemma ulen_step cfg st e st' : step cfg st e = Some st' ->
  (ulen st' <= ulen st)%nat \/
  (exists s att s' more, e = EvScan1 s att true s' more /\ ulen st' = S (ulen st) /\
     (c_scan_checks_unord_cap cfg && unord_full st) = false).
Proof.
  unfold step. destruct (x_failed st); [discriminate|]. destruct e; intro H.
  - left. unfold input in H. repeat match type of H with context [if ?c then _ else _] => destruct c end; inversion H; subst; unfold ulen; xs; auto.
  - left. unfold reader_eof in H. destruct (x_eof st); inversion H; unfold ulen; xs; auto.
  - left. unfold written in H. destruct (0 <? x_outq st); inversion H; unfold ulen; xs; auto.
  - left. unfold parse0 in H. destruct (selects TParse st); [|discriminate].
    match type of H with context [attach ?a ?b] => destruct (attach a b) as [s2 att] eqn:A; assert (s2 = fst (attach a b)) by (rewrite A; auto) end.
    inversion H; subst. unfold ulen, add_run. xs. autorewrite with xf. xs. auto.
  - left. unfold parse1 in H. destruct (del_run (CParse att) st) as [s1|] eqn:D; [|discriminate].
    destruct (del_run_spec _ _ _ D) as (l1 & l2 & _ & ->).
    match type of H with (if ?c then _ else _) = _ => destruct c; [|discriminate] end.
    set (s2 := detach att (set_running (l1 ++ l2) st)) in *.
    assert (E2 : ulen s2 = ulen st) by (subst s2; unfold ulen; autorewrite with xf; xs; reflexivity). clearbody s2.
    pose proof (ulen_advance cfg (res_bs r) s2) as L3. set (s3 := advance cfg (res_bs r) s2) in *. clearbody s3.
    destruct r as [bs ps|bs g|bs code|bs ps lv crc].
    + match type of H with (if ?c then _ else _) = _ => destruct c; [|discriminate] end. inversion H; subst. unfold ulen in *. xs. lia.
    + match type of H with (if ?c then _ else _) = _ => destruct c; [|discriminate] end. inversion H; subst.
      pose proof (ulen_parse_finish cfg g s3). lia.
    + match type of H with (if ?c then _ else _) = _ => destruct c; [discriminate|] end. inversion H; subst. unfold ulen, fail in *. xs. lia.
    + match type of H with (if ?c then _ else _) = _ => destruct c; [|discriminate] end. inversion H; subst.
      pose proof (ulen_parse_ok cfg lv crc (set_par ps (set_next (d_bit bs) s3))) as L4. unfold ulen in *. xs in L4. lia.
  - left. unfold retr0 in H. destruct (selects TRetrieve st); [|discriminate]. destruct (take_min rjob_eqb rkey j (x_retr_q st)); [|discriminate].
    match type of H with context [attach ?a ?b] => destruct (attach a b) as [s2 att] eqn:A; assert (s2 = fst (attach a b)) by (rewrite A; auto) end.
    inversion H; subst. unfold ulen, add_run. xs. autorewrite with xf. xs. auto.
  - left. unfold retr1 in H. destruct (del_run (CRetr j att) st) as [s1|] eqn:D; [|discriminate].
    destruct (del_run_spec _ _ _ D) as (l1 & l2 & _ & ->).
    match type of H with (if ?c then _ else _) = _ => destruct c; [|discriminate] end.
    set (s2 := detach att (set_running (l1 ++ l2) st)) in *.
    assert (E2 : ulen s2 = ulen st) by (subst s2; unfold ulen; autorewrite with xf; xs; reflexivity). clearbody s2.
    assert (DROP : forall l s, (ulen (give_unit (set_unords (drop_link l (x_unords s)) s)) <= ulen s)%nat)
      by (intros; unfold ulen, give_unit; xs; apply inq_len_drop_link).
    assert (GU : forall s, ulen (give_unit s) = ulen s) by (intros; unfold ulen, give_unit; xs; reflexivity).
    destruct (x_parsing_done s2).
    { inversion H; subst. destruct (c_retr_done_drops_link cfg); [pose proof (DROP (r_link j) s2)|rewrite GU]; lia. }
    cbv zeta in H.
    match type of H with (if ?c then _ else _) = _ => destruct c end.
    { inversion H; subst. destruct (c_retr_abort_drops_link cfg); [pose proof (DROP (r_link j) s2)|rewrite GU]; lia. }
    match type of H with context [d_off cur <? x_head_offs ?s] => set (s3 := s) in H end.
    assert (L3 : (ulen s3 <= ulen s2)%nat).
    { subst s3. match goal with |- context [if ?c then _ else _] => destruct c end; [apply ulen_advance|].
      destruct (r_link j); unfold ulen; xs; auto. apply inq_len_upd. auto. }
    clearbody s3.
    destruct (rv =? MORE).
    + match type of H with (if ?c then _ else _) = _ => destruct c end; inversion H; subst.
      * destruct (c_stale_drops_link cfg); [pose proof (DROP (r_link j) s3)|rewrite GU]; lia.
      * unfold ulen in *. xs. lia.
    + inversion H; subst. unfold ulen, add_run in *. xs.
      match goal with |- context [if ?c then _ else _] => destruct c end; destruct (r_link j); xs; try lia.
      * eapply Nat.le_trans; [apply inq_len_upd|lia]. auto.
      * eapply Nat.le_trans; [apply inq_len_del|lia].
  - left. unfold retr2 in H. destruct (del_run (CRetr2 e) st) as [s1|] eqn:D; [|discriminate].
    destruct (del_run_spec _ _ _ D) as (l1 & l2 & _ & ->). inversion H; subst. unfold ulen. xs. auto.
  - left. unfold emit0 in H. destruct (selects TEmit st); [|discriminate]. destruct (qmin e_base pos_lt (x_emit_q st)); [|discriminate].
    destruct (remove_one ejob_eqb e (x_emit_q st)); inversion H; unfold ulen, add_run; xs; auto.
  - left. unfold emit1 in H. destruct (del_run (CEmit e) st) as [s1|] eqn:D; [|discriminate].
    destruct (del_run_spec _ _ _ D) as (l1 & l2 & _ & ->).
    repeat match type of H with context [if ?c then _ else _] => destruct c end; inversion H; subst; unfold ulen, give_unit; xs; auto.
  - left. unfold reorder in H. destruct (selects TReorder st); [|discriminate]. destruct (qmin o_base pos_lt (x_reord_q st)); [|discriminate].
    destruct (remove_one oblk_eqb o (x_reord_q st)); [|discriminate]. xs in H. destruct (x_order_q st); [inversion H; unfold ulen; xs; auto|].
    repeat match type of H with context [if ?c then _ else _] => destruct c end; inversion H; subst; unfold ulen, fail; xs; auto.
  - left. unfold scan0 in H. destruct (selects TScan st); [|discriminate]. destruct (qmin d_pos pos_lt (x_scan_q st)); [|discriminate].
    destruct (remove_one dbs_eqb d (x_scan_q st)); [|discriminate].
    match type of H with context [attach ?a ?b] => destruct (attach a b) as [s2 att] eqn:A; assert (s2 = fst (attach a b)) by (rewrite A; auto) end.
    inversion H; subst. unfold ulen, add_run. xs. autorewrite with xf. xs. auto.
  - unfold scan1 in H. destruct (del_run (CScan s att) st) as [s1|] eqn:D; [|discriminate].
    destruct (del_run_spec _ _ _ D) as (l1 & l2 & _ & ->).
    set (s2 := detach att (set_running (l1 ++ l2) st)) in *.
    assert (E2 : x_unords s2 = x_unords st) by (subst s2; autorewrite with xf; xs; reflexivity).
    assert (F2 : unord_full s2 = unord_full st).
    { unfold unord_full, unord_cap, unord_q. rewrite E2. subst s2. autorewrite with xf. xs. reflexivity. }
    clearbody s2.
    destruct (negb found || x_parsing_done s2) eqn:FD; [left; inversion H; subst; unfold ulen, give_unit; xs; rewrite E2; auto|].
    match type of H with (if ?c then _ else _) = _ => destruct c; [|discriminate] end.
    assert (FT : found = true) by (destruct found; auto; discriminate).
    destruct (pos_le (d_pos s') (d_pos (x_parser_bs s2)) || (c_scan_job_checks_head cfg && (d_off s' <? x_head_offs s2))).
    { left. match type of H with (if ?c then _ else _) = _ => destruct c end; inversion H; subst; unfold ulen, give_unit; xs; rewrite E2; auto. }
    destruct (c_scan_checks_unord_cap cfg && unord_full s2) eqn:CAP.
    { left. match type of H with (if ?c then _ else _) = _ => destruct c end; inversion H; subst; unfold ulen, give_unit; xs; rewrite E2; auto. }
    right. exists s, att, s', more. subst found. split; [reflexivity|]. rewrite <- F2. split; [|exact CAP].
    match type of H with (if ?c then _ else _) = _ => destruct c end; inversion H; subst; unfold ulen, inq_len; xs;
      rewrite E2, filter_app, app_length; simpl; lia.
Qed.

Definition ucap_ok (st : xstate) : Prop := N.of_nat (length (unord_q st)) <= unord_cap st.

Theorem unord_q_capacity cfg n tin tout ultra st :
  c_scan_checks_unord_cap cfg = true -> reach cfg (init_state n tin tout ultra) st -> ucap_ok st.
Proof.
  intros CU R. induction R as [|st e st' R IH H].
  - unfold ucap_ok. simpl. lia.
  - unfold ucap_ok in *. rewrite ulen_unord_q in *.
    assert (CE : unord_cap st' = unord_cap st).
    { pose proof (consts_step _ _ _ _ H) as K. unfold consts in K. inversion K as [[K1 K2 K3]]. unfold unord_cap. rewrite K1, K2, K3. reflexivity. }
    rewrite CE. destruct (ulen_step _ _ _ _ H) as [L|(s & att & s' & more & _ & L & G)]; [lia|].
    rewrite CU in G. simpl in G. unfold unord_full in G. rewrite ulen_unord_q in G. lia.
Qed.
