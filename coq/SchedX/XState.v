(* Hand-written interface between the regenerated definitions (Gen/SchedXTab.v)
   and the model of the decompression scheduler (expand.c on process.c):
   the state record and the accessor vocabulary the translator may emit.
   Nothing here states a guard, a threshold, a capacity, a task order or a
   slot formula: those are regenerated from the source.

   Positions.  A bit position in the compressed stream is the absolute bit
   index [32*offset - live] counted from the first byte after the 4-byte
   stream header that work() consumes.  [pos] = (bit, sub) ordered
   lexicographically; [sub] counts the output buffers already produced for a
   block (the C code does [base.minor++]).  XPos.v proves that this order is
   isomorphic to the C order on (major, minor) for every input block size
   that is a multiple of 4. *)
From Coq Require Import List NArith Bool.
Import ListNotations.
Local Open Scope N_scope.

Definition pos := (N * N)%type.

(* struct detached_bitstream: bit position and word offset of the next unread
   word ([live = 32*d_off - d_bit] bits are buffered). *)
Record dbs := mkdbs { d_bit : N; d_off : N }.
Definition d_pos (d : dbs) : pos := (d_bit d, 0).
Definition dbs0 : dbs := mkdbs 0 0.

(* struct in_blk (sizes and offsets in 32-bit words) *)
Record inblk := mkinblk { ib_off : N; ib_size : N; ib_ref : N }.

(* struct unord_blk; [u_inq]: still an element of unord_q.  An element with
   [u_inq = false] is referenced only by its retrieve job (or by nobody: leaked). *)
Record unord := mkunord {
  u_id : N; u_base : pos; u_end : dbs; u_complete : bool; u_legit : bool; u_inq : bool }.
Definition unord0 : unord := mkunord 0 (0, 0) dbs0 false false false.

(* struct retr_blk: the decoder state is a function of (base, cur) (oracle) *)
Record rjob := mkrjob { r_base : pos; r_cur : dbs; r_link : option N }.
Definition rjob0 : rjob := mkrjob (0, 0) dbs0 None.

(* struct emit_blk *)
Record ejob := mkejob { e_base : pos; e_status : N; e_end : N }.
Definition ejob0 : ejob := mkejob (0, 0) 0 0.

(* struct out_blk *)
Record oblk := mkoblk {
  o_base : pos; o_size : N; o_crc : N; o_blksz : N; o_status : N; o_end : N }.
Definition oblk0 : oblk := mkoblk (0, 0) 0 0 0 0 0.

(* struct head_blk *)
Record head := mkhead { h_base : pos; h_bs100k : N; h_crc : N }.
Definition head0 : head := mkhead (0, 0) 0 0.

(* rows of task_list[] *)
Inductive task := TReorder | TParse | TEmit | TRetrieve | TScan.
Definition task_eqb (a b : task) : bool :=
  match a, b with
  | TReorder, TReorder | TParse, TParse | TEmit, TEmit | TRetrieve, TRetrieve | TScan, TScan => true
  | _, _ => false
  end.

(* what a worker that is between two locked segments of a task holds;
   [att] = offset of the input block its bit stream is attached to *)
Inductive cont :=
| CParse (att : option N)
| CRetr (j : rjob) (att : option N)
| CRetr2 (e : ejob)
| CEmit (e : ejob)
| CScan (s : dbs) (att : option N).

Record xstate := mkx {
  (* process.c *)
  x_eof : bool;
  x_work_units : N;
  x_out_slots : N;
  x_in_slots : N;
  x_num_worker : N;
  x_total_out : N;
  x_total_in : N;
  x_ultra : bool;
  x_closed : bool;                 (* request_close *)
  x_outq : N;                      (* buffers handed to the writer and not yet written *)
  (* expand.c *)
  x_eof_missing : N;
  x_input_q : list inblk;
  x_zombies : list inblk;          (* shifted out of input_q but still referenced by a running task *)
  x_head_offs : N;
  x_tail_offs : N;
  x_retr_q : list rjob;
  x_emit_q : list ejob;
  x_reord_q : list oblk;
  x_order_q : list head;
  x_unords : list unord;           (* every unord_blk that has been allocated and not freed *)
  x_next_uid : N;
  x_parse_token : bool;
  x_parsing_done : bool;
  x_scan_q : list dbs;
  x_reord_offs : N;
  x_parser_bs : dbs;
  x_par : N;                       (* struct parser_state, opaque *)
  (* runtime *)
  x_running : list cont;
  x_written : list (pos * N);      (* (base, size) of every buffer handed to sink_write_buffer *)
  x_failed : option N;             (* failf(): error code *)
  x_bad_attach : bool;             (* assert(bs.offset >= head_offs) / <= tail_offs in attach() violated *)
  x_next : N                       (* ghost: bit position (base) of the block confirmed last *)
}.

(* ---------------------------------------------------------------------- *)
(* queues: unordered lists; peek = first minimal element                    *)

Definition nilb {A} (l : list A) : bool := match l with [] => true | _ => false end.

Section MinQ.
  Context {A : Type} (key : A -> pos) (ltb : pos -> pos -> bool).

  Fixpoint qmin_acc (best : A) (l : list A) : A :=
    match l with
    | [] => best
    | x :: r => qmin_acc (if ltb (key x) (key best) then x else best) r
    end.

  Definition qmin (l : list A) : option A :=
    match l with [] => None | x :: r => Some (qmin_acc x r) end.

  Definition is_minimal (x : A) (l : list A) : bool :=
    forallb (fun y => negb (ltb (key y) (key x))) l.
End MinQ.

Section RemoveOne.
  Context {A : Type} (eqb : A -> A -> bool).
  Fixpoint remove_one (x : A) (l : list A) : option (list A) :=
    match l with
    | [] => None
    | y :: r => if eqb x y then Some r
                else match remove_one x r with Some r' => Some (y :: r') | None => None end
    end.
End RemoveOne.

Definition unord_q (st : xstate) : list unord := filter u_inq (x_unords st).

(* accessors for the guards (the order on positions, regenerated, is a parameter) *)
Section Peek.
  Variable lt : pos -> pos -> bool.
  Definition rkey (j : rjob) : pos := d_pos (r_cur j).
  Definition peek_retr (st : xstate) : rjob :=
    match qmin rkey lt (x_retr_q st) with Some j => j | None => rjob0 end.
  Definition peek_emit (st : xstate) : ejob :=
    match qmin e_base lt (x_emit_q st) with Some j => j | None => ejob0 end.
  Definition peek_reord (st : xstate) : oblk :=
    match qmin o_base lt (x_reord_q st) with Some j => j | None => oblk0 end.
  Definition peek_scan (st : xstate) : dbs :=
    match qmin d_pos lt (x_scan_q st) with Some j => j | None => dbs0 end.
  Definition peek_unord (st : xstate) : unord :=
    match qmin u_base lt (unord_q st) with Some j => j | None => unord0 end.
End Peek.
Definition order_head (st : xstate) : head := hd head0 (x_order_q st).
