(* C09: the sequential decoding does not depend on where the output buffer boundaries
   fall (out_granul), given the corresponding fact about emit() for one block. *)
From Coq Require Import List NArith Bool Lia.
From LBZ Require Import Gen.Consts SchedX.XState SchedX.XModel SchedX.XOracle.
Import ListNotations.
Local Open Scope N_scope.

Section TwoGranules.
  (* the same stream decoded with two output buffer sizes: everything but the cutting
     of a block's output into buffers is shared *)
  Variables O1 O2 : oracle.
  Hypothesis same_hdr : forall ps p, next_hdr O1 ps p = next_hdr O2 ps p.
  Hypothesis same_end : forall b, blk_end O1 b = blk_end O2 b.
  (* the bytes of the k-th buffer of block b under either cutting *)
  Variables bytes1 bytes2 : N -> N -> list N.
  Definition out_bytes (f : N -> N -> list N) (l : list wr) : list N :=
    concat (map (fun w => f (fst (fst w)) (snd (fst w))) l).
  (* codec layer (emit_sm_chunking, DESIGN.md C09): for one block both cuttings agree on
     success and, on success, on the concatenated bytes *)
  Hypothesis block_same : forall b lv crc l1 r1 l2 r2,
    BlockOut O1 b lv crc 0 l1 r1 -> BlockOut O2 b lv crc 0 l2 r2 ->
    r1 = r2 /\ (r1 = true -> out_bytes bytes1 l1 = out_bytes bytes2 l2).

  Lemma out_bytes_app f a b : out_bytes f (a ++ b) = out_bytes f a ++ out_bytes f b.
  Proof. unfold out_bytes. rewrite map_app, concat_app. reflexivity. Qed.

  Theorem seqdec_granule_indep ps p L1 R1 L2 R2 :
    SeqDec O1 ps p L1 R1 -> SeqDec O2 ps p L2 R2 ->
    R1 = R2 /\ (R1 = true -> out_bytes bytes1 L1 = out_bytes bytes2 L2).
  Proof.
    intro H1. revert L2 R2. induction H1 as [ps p ps' base lv crc l1 l2 r E B1 S1 IH|ps p ps' base lv crc l1 E B1|ps p e E|ps p c E];
      intros L2 R2 H2; rewrite same_hdr in E; inversion H2 as [? ? ? ? ? ? m1 m2 r' E' B2 S2|? ? ? ? ? ? m1 E' B2|? ? e' E'|? ? c' E']; subst;
      rewrite E in E'; inversion E'; subst.
    1:{ rewrite same_end in IH. destruct (block_same _ _ _ _ _ _ _ B1 B2) as [_ BB]. destruct (IH _ _ S2) as [RR BY].
      split; auto. intro T. rewrite !out_bytes_app, (BB eq_refl), (BY T). reflexivity. }
    all: try (destruct (block_same _ _ _ _ _ _ _ B1 B2) as [X _]; discriminate).
    all: try (split; auto; discriminate).
    all: try (split; auto; fail).
  Qed.
End TwoGranules.
