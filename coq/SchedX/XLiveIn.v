(* The invariant [lin] (XLiveDefs: reference counts of the input blocks, position of the
   parser inside input_q) is inductive.

   Organisation: [lin] is split into a block part [lblk] (clauses li_refq, li_refz, li_att:
   input_q, zombies, head_offs, running) and a position part [lpos] (li_pbs, li_first,
   li_retr, li_uend: input_q's shape, tail_offs, parsing_done, parser_bs, retr_q, unords),
   both stated over the lists so that attach / detach / release can be treated as list
   operations; then one lemma per event. *)
From Coq Require Import List NArith Bool Lia Arith ZifyBool ZifyN ZifyNat.
From LBZ Require Import Gen.Consts SchedX.XState Gen.SchedXTab SchedX.XSet SchedX.XModel SchedX.XLemmas
  SchedX.XFrame SchedX.XInvDefs SchedX.XOps SchedX.XInv SchedX.XInv2 SchedX.XInv3 SchedX.XInv4 SchedX.XCount SchedX.XScanOwn SchedX.XLiveDefs.
Import ListNotations.
Local Open Scope N_scope.

(* ---- counting attached continuations --------------------------------------------------------- *)
Lemma att_is_true o c : att_is o c = true <-> catt c = Some o.
Proof.
  unfold att_is. destruct (catt c) as [x|]; simpl; split; intro H; try discriminate.
  - apply N.eqb_eq in H. congruence.
  - inversion H. apply N.eqb_refl.
Qed.

Lemma att_is_false o c : catt c <> Some o -> att_is o c = false.
Proof. intro H. destruct (att_is o c) eqn:E; auto. apply att_is_true in E. contradiction. Qed.

Lemma natt_app o a b : natt o (a ++ b) = natt o a + natt o b.
Proof. unfold natt. rewrite filter_app, app_length. lia. Qed.

Lemma natt_cons o c r : natt o (c :: r) = (if att_is o c then 1 else 0) + natt o r.
Proof. unfold natt. cbn [filter]. destruct (att_is o c); cbn [length]; lia. Qed.

Lemma natt_pos o c r : In c r -> catt c = Some o -> 0 < natt o r.
Proof.
  intros Hc Ha. apply att_is_true in Ha. unfold natt.
  assert (X : In c (filter (att_is o) r)) by (apply filter_In; auto).
  destruct (filter (att_is o) r); [contradiction|cbn [length]; lia].
Qed.

Lemma natt_zero o r : (forall c, In c r -> catt c <> Some o) -> natt o r = 0.
Proof.
  intro H. induction r as [|c r IH]; [reflexivity|]. rewrite natt_cons, IH.
  - rewrite att_is_false; [reflexivity|]. apply H. left; auto.
  - intros c' Hc'. apply H. right; auto.
Qed.

(* ---- the two halves of [lin], over lists --------------------------------------------------------- *)
Record lblk (IQ ZQ : list inblk) (hd : N) (R : list cont) : Prop := mklblk {
  lb_refq : forall b, In b IQ -> ib_ref b = 1 + natt (ib_off b) R;
  lb_refz : forall z, In z ZQ -> ib_ref z = natt (ib_off z) R /\ 0 < ib_ref z /\ 0 < ib_size z /\ ib_end z <= hd;
  lb_att : forall c o, In c R -> catt c = Some o -> exists b, In b (IQ ++ ZQ) /\ ib_off b = o
}.

Definition uend_ok (tl : N) (u : unord) : Prop := u_inq u = true -> d_off (u_end u) <= tl.

Record lpos (IS : list (N * N)) (tl : N) (done : bool) (pbs : dbs) (RQ : list rjob) (US : list unord) : Prop := mklpos {
  lp_pbs : done = false -> d_off pbs <= tl;
  lp_first : done = false -> forall r rest, IS = r :: rest -> d_off pbs < fst r + snd r;
  lp_retr : Forall (fun j => d_off (r_cur j) <= tl) RQ;
  lp_uend : Forall (uend_ok tl) US
}.

Definition lblk_st (st : xstate) : Prop := lblk (x_input_q st) (x_zombies st) (x_head_offs st) (x_running st).
Definition lpos_st (st : xstate) : Prop :=
  lpos (map bshape (x_input_q st)) (x_tail_offs st) (x_parsing_done st) (x_parser_bs st) (x_retr_q st) (x_unords st).

Lemma lin_split st : lin st <-> lblk_st st /\ lpos_st st.
Proof.
  split.
  - intros [A B C D E F G]. split; constructor; auto.
    intros Hd r rest EQ. destruct (x_input_q st) as [|b q] eqn:IQ; [discriminate|]. simpl in EQ. inversion EQ; subst.
    simpl. apply (E Hd b q eq_refl).
  - intros [[A B C] [D E F G]]. constructor; auto.
    intros Hd b rest EQ. rewrite EQ in E. apply (E Hd (bshape b) (map bshape rest) eq_refl).
Qed.

(* ---- blocks: list-level lemmas ------------------------------------------------------------------ *)
Lemma find_blk_In off q b : find_blk off q = Some b -> In b q.
Proof.
  induction q as [|a r IH]; simpl; [discriminate|]. destruct (off <? ib_end a); [intro H; inversion H; auto|auto].
Qed.

Lemma upd_ref_In f o q b' : In b' (upd_ref f o q) ->
  exists b, In b q /\ b' = (if ib_off b =? o then set_ref (f (ib_ref b)) b else b).
Proof. unfold upd_ref. rewrite in_map_iff. intros (b & E & Hb). exists b. auto. Qed.

Lemma upd_ref_img f o q b : In b q -> In (if ib_off b =? o then set_ref (f (ib_ref b)) b else b) (upd_ref f o q).
Proof. intro Hb. unfold upd_ref. apply in_map_iff. exists b. auto. Qed.

Lemma img_off f o b : ib_off (if ib_off b =? o then set_ref (f (ib_ref b)) b else b) = ib_off b.
Proof. destruct (ib_off b =? o); reflexivity. Qed.

(* a zombie lies strictly below every block of input_q *)
Lemma zomb_lt IQ ZQ hd tl R z b : contig hd IQ tl -> lblk IQ ZQ hd R -> In z ZQ -> In b IQ -> ib_off z < ib_off b.
Proof.
  intros CT L Hz Hb. destruct (lb_refz _ _ _ _ L z Hz) as (_ & _ & Z1 & Z2).
  destruct (contig_bounds _ _ _ _ CT Hb) as (B1 & _). unfold ib_end in *. lia.
Qed.

(* running changes that leave every count alone *)
Lemma lblk_running IQ ZQ hd R R' :
  (forall o, natt o R' = natt o R) -> (forall c, In c R' -> catt c <> None -> In c R) ->
  lblk IQ ZQ hd R -> lblk IQ ZQ hd R'.
Proof.
  intros HN HI [A B C]. constructor.
  - intros b Hb. rewrite HN. auto.
  - intros z Hz. rewrite HN. auto.
  - intros c o Hc Ho. apply (C c o); auto. apply HI; auto. congruence.
Qed.

Lemma lblk_add_none IQ ZQ hd R c : catt c = None -> lblk IQ ZQ hd R -> lblk IQ ZQ hd (c :: R).
Proof.
  intro N0. apply lblk_running.
  - intro o. rewrite natt_cons, att_is_false; [reflexivity|congruence].
  - intros c' [<-|H] NN; [contradiction|auto].
Qed.

Lemma lblk_del_none IQ ZQ hd l1 l2 c : catt c = None -> lblk IQ ZQ hd (l1 ++ c :: l2) -> lblk IQ ZQ hd (l1 ++ l2).
Proof.
  intro N0. apply lblk_running.
  - intro o. rewrite !natt_app, natt_cons, att_is_false; [reflexivity|congruence].
  - intros c' H _. apply in_app_or in H. apply in_or_app. simpl. tauto.
Qed.

(* attach() + the new continuation *)
Lemma lblk_attach IQ ZQ hd tl R b c :
  contig hd IQ tl -> In b IQ -> catt c = Some (ib_off b) -> lblk IQ ZQ hd R ->
  lblk (upd_ref N.succ (ib_off b) IQ) ZQ hd (c :: R).
Proof.
  intros CT Hb Hc L. pose proof L as [A B C]. set (o := ib_off b) in *. constructor.
  - intros b' Hb'. destruct (upd_ref_In _ _ _ _ Hb') as (b0 & H0 & ->). rewrite img_off, natt_cons.
    specialize (A b0 H0). destruct (ib_off b0 =? o) eqn:E.
    + apply N.eqb_eq in E. rewrite E. assert (X : att_is o c = true) by (apply att_is_true; auto). rewrite X.
      cbn [ib_ref set_ref]. rewrite E in A. lia.
    + apply N.eqb_neq in E. rewrite att_is_false; [exact A|]. rewrite Hc. congruence.
  - intros z Hz. pose proof (zomb_lt _ _ _ _ _ z b CT L Hz Hb) as LT. fold o in LT.
    rewrite natt_cons, att_is_false; [apply B; auto|]. rewrite Hc. intro X. inversion X. lia.
  - intros c' o' [<-|Hc'] Ho'.
    + rewrite Hc in Ho'. inversion Ho'; subst o'. eexists. split; [apply in_or_app; left; apply upd_ref_img; exact Hb|]. apply img_off.
    + destruct (C c' o' Hc' Ho') as (b1 & H1 & O1). apply in_app_or in H1. destruct H1 as [H1|H1].
      * eexists. split; [apply in_or_app; left; apply upd_ref_img; exact H1|]. rewrite img_off. exact O1.
      * exists b1. split; auto. apply in_or_app; auto.
Qed.

Lemma has_blk_true o q : has_blk o q = true -> exists b, In b q /\ ib_off b = o.
Proof. unfold has_blk. rewrite existsb_exists. intros (b & Hb & E). apply N.eqb_eq in E. eauto. Qed.

Lemma has_blk_false o q b : has_blk o q = false -> In b q -> ib_off b <> o.
Proof.
  unfold has_blk. intros H Hb E. assert (X : existsb (fun b => ib_off b =? o) q = true); [|congruence].
  apply existsb_exists. exists b. split; auto. apply N.eqb_eq; auto.
Qed.

(* the continuation is removed and its reference dropped: block still in input_q *)
Lemma lblk_detach_q IQ ZQ hd tl l1 l2 c o :
  contig hd IQ tl -> catt c = Some o -> has_blk o IQ = true -> lblk IQ ZQ hd (l1 ++ c :: l2) ->
  lblk (upd_ref N.pred o IQ) ZQ hd (l1 ++ l2).
Proof.
  intros CT Hc HB L. pose proof L as [A B C]. destruct (has_blk_true _ _ HB) as (b & Hb & Ob).
  assert (X : att_is o c = true) by (apply att_is_true; auto).
  assert (NE : forall o', natt o' (l1 ++ c :: l2) = natt o' (l1 ++ l2) + (if att_is o' c then 1 else 0)).
  { intro o'. rewrite !natt_app, natt_cons. lia. }
  constructor.
  - intros b' Hb'. destruct (upd_ref_In _ _ _ _ Hb') as (b0 & H0 & ->). rewrite img_off.
    specialize (A b0 H0). rewrite NE in A. destruct (ib_off b0 =? o) eqn:E.
    + apply N.eqb_eq in E. rewrite E in *. rewrite X in A. cbn [ib_ref set_ref]. lia.
    + apply N.eqb_neq in E. rewrite att_is_false in A; [lia|]. rewrite Hc. congruence.
  - intros z Hz. pose proof (zomb_lt _ _ _ _ _ z b CT L Hz Hb) as LT.
    specialize (B z Hz). rewrite NE in B. rewrite att_is_false in B; [rewrite N.add_0_r in B; exact B|].
    rewrite Hc. intro Y. inversion Y. lia.
  - intros c' o' Hc' Ho'. destruct (C c' o') as (b1 & H1 & O1); auto.
    { apply in_app_or in Hc'. apply in_or_app. simpl. tauto. }
    apply in_app_or in H1. destruct H1 as [H1|H1].
    + eexists. split; [apply in_or_app; left; apply upd_ref_img; exact H1|]. rewrite img_off. exact O1.
    + exists b1. split; auto. apply in_or_app; auto.
Qed.

(* ... block already a zombie *)
Lemma lblk_detach_z IQ ZQ hd l1 l2 c o :
  catt c = Some o -> has_blk o IQ = false -> lblk IQ ZQ hd (l1 ++ c :: l2) ->
  lblk IQ (filter (fun b => negb (ib_ref b =? 0)) (upd_ref N.pred o ZQ)) hd (l1 ++ l2).
Proof.
  intros Hc HB L. pose proof L as [A B C].
  assert (X : att_is o c = true) by (apply att_is_true; auto).
  assert (NE : forall o', natt o' (l1 ++ c :: l2) = natt o' (l1 ++ l2) + (if att_is o' c then 1 else 0)).
  { intro o'. rewrite !natt_app, natt_cons. lia. }
  assert (ZI : forall z, In z ZQ -> let z' := (if ib_off z =? o then set_ref (N.pred (ib_ref z)) z else z) in
                ib_ref z' = natt (ib_off z) (l1 ++ l2) /\ ib_off z' = ib_off z /\ ib_size z' = ib_size z).
  { intros z Hz. specialize (B z Hz). rewrite NE in B. destruct (ib_off z =? o) eqn:E; cbn [ib_ref ib_off ib_size set_ref].
    - apply N.eqb_eq in E. rewrite E in *. rewrite X in B. lia.
    - apply N.eqb_neq in E. rewrite att_is_false in B; [repeat split; lia|]. rewrite Hc. congruence. }
  constructor.
  - intros b Hb. specialize (A b Hb). rewrite NE in A. rewrite att_is_false in A; [lia|].
    rewrite Hc. intro Y. inversion Y. eapply has_blk_false; eauto.
  - intros z' Hz'. apply filter_In in Hz'. destruct Hz' as [Hz' NZ]. destruct (upd_ref_In _ _ _ _ Hz') as (z & Hz & ->).
    destruct (ZI z Hz) as (Z1 & Z2 & Z3). cbv zeta in *. destruct (B z Hz) as (_ & _ & Z4 & Z5).
    unfold ib_end in *. rewrite Z2, Z3, Z1 in *. repeat split; auto. lia.
  - intros c' o' Hc' Ho'. destruct (C c' o') as (b1 & H1 & O1); auto.
    { apply in_app_or in Hc'. apply in_or_app. simpl. tauto. }
    apply in_app_or in H1. destruct H1 as [H1|H1]; [exists b1; split; auto; apply in_or_app; auto|].
    destruct (ZI b1 H1) as (Z1 & Z2 & Z3). cbv zeta in *. eexists. split; [|rewrite Z2; exact O1].
    apply in_or_app. right. apply filter_In. split; [apply upd_ref_img; exact H1|].
    rewrite Z1, O1. pose proof (natt_pos o' c' _ Hc' Ho'). lia.
Qed.

(* blocks leave input_q *)
Definition zrel (p : list inblk) : list inblk :=
  map (fun b => set_ref (N.pred (ib_ref b)) b) (filter (fun b => negb (ib_ref b =? 1)) p).

Lemma fold_release_zrel l st : x_zombies (fold_left (fun a b => release_blk b a) l st) = x_zombies st ++ zrel l.
Proof.
  revert st; induction l as [|b r IH]; intro st; simpl.
  - unfold zrel. simpl. rewrite app_nil_r. reflexivity.
  - rewrite IH. unfold release_blk, zrel. simpl. destruct (ib_ref b =? 1); simpl; xs; [reflexivity|].
    rewrite <- app_assoc. reflexivity.
Qed.

Lemma pop_input_app lim q : q = fst (pop_input lim q) ++ snd (pop_input lim q).
Proof.
  induction q as [|b r IH]; simpl; auto. destruct (ib_end b <=? lim); [|reflexivity].
  destruct (pop_input lim r) as [p k]. simpl in *. congruence.
Qed.

Lemma pop_input_first lim q b rest : snd (pop_input lim q) = b :: rest -> lim < ib_end b.
Proof.
  induction q as [|a r IH]; simpl; [discriminate|]. destruct (ib_end a <=? lim) eqn:E.
  - destruct (pop_input lim r) as [p k]. simpl in *. exact IH.
  - simpl. intro H. inversion H; subst. lia.
Qed.

Lemma lblk_release p k ZQ hd hd' tl R :
  contig hd (p ++ k) tl -> hd <= hd' -> (forall b, In b p -> ib_end b <= hd') ->
  lblk (p ++ k) ZQ hd R -> lblk k (ZQ ++ zrel p) hd' R.
Proof.
  intros CT HH HE [A B C]. constructor.
  - intros b Hb. apply A. apply in_or_app; auto.
  - intros z Hz. apply in_app_or in Hz. destruct Hz as [Hz|Hz].
    + destruct (B z Hz) as (B1 & B2 & B3 & B4). repeat split; auto. lia.
    + unfold zrel in Hz. apply in_map_iff in Hz. destruct Hz as (b & <- & Hb). apply filter_In in Hb. destruct Hb as [Hb NR].
      assert (Hb' : In b (p ++ k)) by (apply in_or_app; auto).
      specialize (A b Hb'). destruct (contig_bounds _ _ _ _ CT Hb') as (_ & _ & SZ). specialize (HE b Hb).
      unfold ib_end in *. cbn [ib_ref ib_off ib_size set_ref]. repeat split; auto; lia.
  - intros c o Hc Ho. destruct (C c o Hc Ho) as (b & Hb & Ob). rewrite <- app_assoc in Hb. apply in_app_or in Hb.
    destruct Hb as [Hb|Hb].
    + exists (set_ref (N.pred (ib_ref b)) b). split; [|exact Ob]. apply in_or_app. right. apply in_or_app. right.
      unfold zrel. apply in_map_iff. exists b. split; auto. apply filter_In. split; auto.
      assert (Hb' : In b (p ++ k)) by (apply in_or_app; auto). specialize (A b Hb'). rewrite Ob in A.
      pose proof (natt_pos o c R Hc Ho). lia.
    + exists b. split; auto. apply in_app_or in Hb. apply in_or_app. destruct Hb; auto.
      right. apply in_or_app; auto.
Qed.

(* ---- position part: retr_q and unords ----------------------------------------------------------- *)
Definition rqrel (tl : N) (RQ RQ' : list rjob) : Prop := forall j, In j RQ' -> In j RQ \/ d_off (r_cur j) <= tl.
Definition usrel (tl : N) (US US' : list unord) : Prop :=
  forall u, In u US' -> (exists u0, In u0 US /\ stems u u0) \/ uend_ok tl u.

Lemma rq_refl tl RQ : rqrel tl RQ RQ.
Proof. intros j Hj; auto. Qed.

Lemma rq_cons tl RQ j : d_off (r_cur j) <= tl -> rqrel tl RQ (j :: RQ).
Proof. intros Hj j' [<-|H]; auto. Qed.

Lemma rq_nil tl RQ : rqrel tl RQ [].
Proof. intros j []. Qed.

Lemma uend_stems tl u u0 : stems u u0 -> uend_ok tl u0 -> uend_ok tl u.
Proof. unfold stems, uend_ok. intros (_ & _ & E3 & E4 & _). rewrite E3, E4. auto. Qed.

Lemma us_refl tl US : usrel tl US US.
Proof. intros u Hu. left. exists u. split; auto. apply stems_refl. Qed.

Lemma us_drop_link tl l US : usrel tl US (drop_link l US).
Proof. intros u Hu. left. apply drop_link_stems in Hu. exact Hu. Qed.

Lemma us_drop_links tl js US : usrel tl US (drop_links js US).
Proof. intros u Hu. left. apply drop_links_stems in Hu. exact Hu. Qed.

Lemma us_upd tl id f US : (forall u, In u US -> uend_ok tl u -> uend_ok tl (f u)) -> Forall (uend_ok tl) US -> usrel tl US (upd_unord id f US).
Proof.
  intros Hf FA u Hu. unfold upd_unord in Hu. apply in_map_iff in Hu. destruct Hu as (u0 & <- & H0).
  rewrite Forall_forall in FA. destruct (u_id u0 =? id); [right; apply Hf; auto|left; exists u0; split; auto; apply stems_refl].
Qed.

Lemma us_upd_end tl id f US : (forall u, u_inq (f u) = true -> d_off (u_end (f u)) <= tl) -> usrel tl US (upd_unord id f US).
Proof.
  intros Hf u Hu. unfold upd_unord in Hu. apply in_map_iff in Hu. destruct Hu as (u0 & <- & H0).
  destruct (u_id u0 =? id); [right; unfold uend_ok; apply Hf|left; exists u0; split; auto; apply stems_refl].
Qed.

Lemma us_del tl id US : usrel tl US (del_unord id US).
Proof. intros u Hu. unfold del_unord in Hu. apply filter_In in Hu. left. exists u. split; [tauto|apply stems_refl]. Qed.

Lemma us_discard tl p US : usrel tl US (discard_below p US).
Proof.
  intros u Hu. unfold discard_below in Hu. apply in_map_iff in Hu. destruct Hu as (u0 & <- & H0). apply filter_In in H0.
  destruct (u_inq u0 && pos_lt (u_base u0) p && negb (u_complete u0)).
  - right. unfold uend_ok, u_detach. simpl. discriminate.
  - left. exists u0. split; [tauto|apply stems_refl].
Qed.

Lemma us_flush tl US : usrel tl US (flush_unords US).
Proof.
  intros u Hu. unfold flush_unords in Hu. apply in_map_iff in Hu. destruct Hu as (u0 & <- & H0). apply filter_In in H0.
  destruct (u_inq u0).
  - right. unfold uend_ok, u_detach. simpl. discriminate.
  - left. exists u0. split; [tauto|apply stems_refl].
Qed.

Lemma us_snoc tl US u : uend_ok tl u -> usrel tl US (US ++ [u]).
Proof. intros Hu u' H. apply in_app_or in H. destruct H as [H|[<-|[]]]; auto. left. exists u'. split; auto. apply stems_refl. Qed.

Lemma us_trans tl A B C : usrel tl A B -> usrel tl B C -> usrel tl A C.
Proof.
  intros AB BC u Hu. destruct (BC u Hu) as [(u1 & H1 & S1)|OK]; auto.
  destruct (AB u1 H1) as [(u0 & H0 & S0)|OK1].
  - left. exists u0. split; auto. unfold stems in *. intuition congruence.
  - right. eapply uend_stems; eauto.
Qed.

Lemma us_forall tl US US' : usrel tl US US' -> Forall (uend_ok tl) US -> Forall (uend_ok tl) US'.
Proof.
  intros R F. rewrite Forall_forall in *. intros u Hu. destruct (R u Hu) as [(u0 & H0 & S0)|OK]; auto.
  eapply uend_stems; eauto.
Qed.

(* ---- state level ------------------------------------------------------------------------------------ *)
Ltac fld := unfold add_run, give_unit, fail; xs; autorewrite with xf; xs.

Lemma lin_chg st st' : lin st ->
  x_input_q st' = x_input_q st -> x_zombies st' = x_zombies st -> x_head_offs st' = x_head_offs st ->
  x_tail_offs st' = x_tail_offs st -> x_parsing_done st' = x_parsing_done st -> x_parser_bs st' = x_parser_bs st ->
  x_running st' = x_running st ->
  rqrel (x_tail_offs st) (x_retr_q st) (x_retr_q st') -> usrel (x_tail_offs st) (x_unords st) (x_unords st') ->
  lin st'.
Proof.
  intros L E1 E2 E3 E4 E5 E6 E7 RQ US. apply lin_split in L. destruct L as [LB [P1 P2 P3 P4]]. apply lin_split.
  unfold lblk_st, lpos_st in *. rewrite E1, E2, E3, E4, E5, E6, E7. split; auto. constructor; auto.
  - rewrite Forall_forall in *. intros j Hj. destruct (RQ j Hj); auto.
  - eapply us_forall; eauto.
Qed.

Ltac lc L := apply (lin_chg _ _ L); [fld; reflexivity .. | fld | fld].
Ltac lc0 L := apply (lin_chg _ _ L); [fld; reflexivity .. | fld; apply rq_refl | fld; apply us_refl].

Lemma lin_add_none c st : catt c = None -> lin st -> lin (add_run c st).
Proof.
  intros Hc L. apply lin_split in L. destruct L as [LB LP]. apply lin_split. unfold lblk_st, lpos_st, add_run in *. xs.
  split; auto. apply lblk_add_none; auto.
Qed.

Lemma attach_cases d st :
  (x_input_q (fst (attach d st)) = x_input_q st /\ snd (attach d st) = None) \/
  (exists b, In b (x_input_q st) /\ x_input_q (fst (attach d st)) = upd_ref N.succ (ib_off b) (x_input_q st) /\
             snd (attach d st) = Some (ib_off b)).
Proof.
  unfold attach. destruct (can_attach_assert st d && (d_off d <=? x_tail_offs st));
    destruct (d_off d =? x_tail_offs st); simpl; xs; auto;
    destruct (find_blk (d_off d) (x_input_q st)) as [b|] eqn:F; simpl; xs; auto;
    right; exists b; split; auto; eapply find_blk_In; eauto.
Qed.

Lemma lin_attach_run d st mk : (forall a, catt (mk a) = a) -> cg st -> lin st ->
  lin (add_run (mk (snd (attach d st))) (fst (attach d st))).
Proof.
  intros Hmk CT L. apply lin_split in L. destruct L as [LB LP]. apply lin_split. split.
  - unfold lblk_st, add_run in *. xs. autorewrite with xf.
    destruct (attach_cases d st) as [[E1 E2]|(b & Hb & E1 & E2)]; rewrite E1, E2.
    + apply lblk_add_none; auto.
    + eapply lblk_attach; eauto.
  - unfold lpos_st, add_run in *. xs. rewrite shape_attach. autorewrite with xf. exact LP.
Qed.

Lemma lin_del_detach c st s1 : cg st -> lin st -> del_run c st = Some s1 -> lin (detach (catt c) s1).
Proof.
  intros CT L D. apply lin_split in L. destruct L as [LB LP]. apply lin_split.
  destruct (del_run_spec _ _ _ D) as (l1 & l2 & E & ->). split.
  - unfold lblk_st in *. rewrite E in LB. unfold detach. destruct (catt c) as [o|] eqn:Hc; xs.
    + destruct (has_blk o (x_input_q st)) eqn:HB; xs.
      * eapply lblk_detach_q; eauto.
      * eapply lblk_detach_z; eauto.
    + eapply lblk_del_none; eauto.
  - unfold lpos_st in *. rewrite shape_detach. autorewrite with xf. xs. exact LP.
Qed.

Lemma adv_retr_sub fuel hd q j : In j (snd (adv_retr fuel hd q)) -> In j q.
Proof.
  revert q; induction fuel as [|f IH]; intro q; simpl; auto.
  destruct (qmin rkey pos_lt q) as [x|]; auto. destruct (d_off (r_cur x) <? hd); auto.
  destruct (remove_one rjob_eqb x q) as [q'|] eqn:R; auto.
  specialize (IH q'). destruct (adv_retr f hd q') as [d k]. simpl in *. intro H.
  eapply remove_one_In; eauto using rjob_eqb_eq.
Qed.

Lemma advance_fields cfg bs st :
  x_input_q (advance cfg bs st) = snd (pop_input (d_off bs) (x_input_q st)) /\
  x_zombies (advance cfg bs st) = x_zombies st ++ zrel (fst (pop_input (d_off bs) (x_input_q st))) /\
  x_head_offs (advance cfg bs st) = x_head_offs st + sum_sizes (fst (pop_input (d_off bs) (x_input_q st))) /\
  x_parser_bs (advance cfg bs st) = bs /\
  (forall j, In j (x_retr_q (advance cfg bs st)) -> In j (x_retr_q st)) /\
  (forall u, In u (x_unords (advance cfg bs st)) -> exists u0, In u0 (x_unords st) /\ stems u u0).
Proof.
  unfold advance. autorewrite with xf. rewrite adv_input_q, adv_input_head. xs. repeat split; auto.
  - unfold adv_input. rewrite fold_release_zrel. xs. reflexivity.
  - intros j. unfold adv_jobs. destruct (c_advance_drops_link cfg); xs; autorewrite with xf; xs; apply adv_retr_sub.
  - intros u. unfold adv_jobs. destruct (c_advance_drops_link cfg); xs; autorewrite with xf; xs.
    + apply drop_links_stems.
    + intro Hu. exists u. split; auto. apply stems_refl.
Qed.

Lemma lin_advance cfg bs st : cg st -> d_off bs <= x_tail_offs st -> lin st -> lin (advance cfg bs st).
Proof.
  intros CT LE L. apply lin_split in L. destruct L as [LB [P1 P2 P3 P4]]. apply lin_split.
  destruct (advance_fields cfg bs st) as (F1 & F2 & F3 & F4 & F5 & F6).
  unfold lblk_st, lpos_st in *. rewrite F1, F2, F3, F4. autorewrite with xf. split.
  - unfold cg in CT. destruct (pop_input_in (d_off bs) (x_input_q st) _ _ CT) as [PI1 _].
    apply (lblk_release _ _ _ (x_head_offs st) _ (x_tail_offs st)).
    + rewrite <- pop_input_app. exact CT.
    + lia.
    + intros b Hb. apply PI1. exact Hb.
    + rewrite <- pop_input_app. exact LB.
  - constructor.
    + intros _. exact LE.
    + intros _ r rest EQ. destruct (snd (pop_input (d_off bs) (x_input_q st))) as [|b k] eqn:PK; [discriminate|].
      simpl in EQ. inversion EQ; subst r rest. apply pop_input_first in PK. unfold ib_end in PK. exact PK.
    + rewrite Forall_forall in *. intros j Hj. auto.
    + rewrite Forall_forall in *. intros u Hu. destruct (F6 u Hu) as (u0 & H0 & S0). eapply uend_stems; eauto.
Qed.

Lemma att_end_le att st : cg st -> lin st -> att_end att st <= x_tail_offs st.
Proof.
  intros CT L. unfold att_end. destruct att as [o|]; [|lia].
  destruct (find (fun b => ib_off b =? o) (x_input_q st ++ x_zombies st)) as [b|] eqn:F; [|lia].
  destruct (find_att_end o st b F) as [[X _]|[X _]].
  - destruct (contig_bounds _ _ _ _ CT X) as (_ & B2 & _). exact B2.
  - destruct (li_refz _ L b X) as (_ & _ & _ & Z). pose proof (contig_le _ _ _ CT). lia.
Qed.

Lemma lin_init n tin tout ultra : lin (init_state n tin tout ultra).
Proof.
  constructor; simpl; try (intros; contradiction); try constructor.
  - intros _. lia.
  - intros _ b rest E. discriminate.
Qed.

(* ---- events ---------------------------------------------------------------------------------------- *)
Lemma lin_input sz m st st' : cg st -> lin st -> input sz m st = Some st' -> lin st'.
Proof.
  unfold input. intros CT L H. match type of H with (if ?c then _ else _) = _ => destruct c eqn:C; [|discriminate] end.
  bool_hyps. apply lin_split in L. destruct L as [LB LP]. unfold lblk_st, lpos_st in *.
  destruct (x_parsing_done st) eqn:PD; inversion H; subst.
  { apply lin_split. unfold lblk_st, lpos_st. rewrite PD. auto. }
  clear H. apply lin_split. unfold lblk_st, lpos_st. xs. rewrite PD. unfold cg in CT.
  set (t := x_tail_offs st) in *. pose proof (contig_le _ _ _ CT) as HT.
  destruct LB as [A B C0]. destruct LP as [P1 P2 P3 P4]. split.
  - constructor.
    + intros b Hb. apply in_app_or in Hb. destruct Hb as [Hb|[<-|[]]]; auto. cbn [ib_ref ib_off].
      rewrite natt_zero; [reflexivity|]. intros c Hc Ho. destruct (C0 c t Hc Ho) as (b & Hb & Ob).
      apply in_app_or in Hb. destruct Hb as [Hb|Hb].
      * destruct (contig_bounds _ _ _ _ CT Hb) as (_ & B2 & B3). unfold ib_end in *. lia.
      * destruct (B b Hb) as (_ & _ & B3 & B4). unfold ib_end in *. lia.
    + exact B.
    + intros c o Hc Ho. destruct (C0 c o Hc Ho) as (b & Hb & Ob). exists b. split; auto.
      apply in_app_or in Hb. apply in_or_app. destruct Hb; auto. left. apply in_or_app; auto.
  - constructor.
    + intros _. specialize (P1 eq_refl). lia.
    + intros _ r rest EQ. rewrite map_app in EQ. destruct (x_input_q st) as [|b q].
      * simpl in EQ. inversion EQ; subst r rest. simpl. specialize (P1 eq_refl). lia.
      * simpl in EQ. inversion EQ; subst r rest. apply (P2 eq_refl (bshape b) (map bshape q)). reflexivity.
    + eapply Forall_impl; [|exact P3]. simpl. intros. lia.
    + eapply Forall_impl; [|exact P4]. unfold uend_ok. intros u Hu I. specialize (Hu I). lia.
Qed.

Lemma lin_parse0 st st' : cg st -> lin st -> parse0 st = Some st' -> lin st'.
Proof.
  unfold parse0. intros CT L H. destruct (selects TParse st); [|discriminate].
  match type of H with context [attach ?a ?b] =>
    destruct (attach a b) as [s2 att] eqn:A; assert (E2 : s2 = fst (attach a b)) by (rewrite A; auto);
    assert (EA : att = snd (attach a b)) by (rewrite A; auto) end.
  inversion H; subst st' s2 att. apply (lin_attach_run _ _ CParse); auto.
  lc0 L.
Qed.

Lemma lin_retr0 j st st' : cg st -> lin st -> retr0 j st = Some st' -> lin st'.
Proof.
  unfold retr0. intros CT L H. destruct (selects TRetrieve st); [|discriminate].
  destruct (take_min rjob_eqb rkey j (x_retr_q st)) as [q|] eqn:TM; [|discriminate].
  match type of H with context [attach ?a ?b] =>
    destruct (attach a b) as [s2 att] eqn:A; assert (E2 : s2 = fst (attach a b)) by (rewrite A; auto);
    assert (EA : att = snd (attach a b)) by (rewrite A; auto) end.
  inversion H; subst st' s2 att. apply (lin_attach_run _ _ (CRetr j)); auto.
  apply (lin_chg _ _ L); try (fld; reflexivity); fld; [|apply us_refl].
  apply take_min_spec in TM. destruct TM as [RM _]. intros j' Hj'. left. eapply remove_one_In; eauto using rjob_eqb_eq.
Qed.

Lemma lin_scan0 st st' : cg st -> lin st -> scan0 st = Some st' -> lin st'.
Proof.
  unfold scan0. intros CT L H. destruct (selects TScan st); [|discriminate].
  destruct (qmin d_pos pos_lt (x_scan_q st)) as [s|] eqn:Q; [|discriminate].
  destruct (remove_one dbs_eqb s (x_scan_q st)) as [q|] eqn:R; [|discriminate].
  match type of H with context [attach ?a ?b] =>
    destruct (attach a b) as [s2 att] eqn:A; assert (E2 : s2 = fst (attach a b)) by (rewrite A; auto);
    assert (EA : att = snd (attach a b)) by (rewrite A; auto) end.
  inversion H; subst st' s2 att. apply (lin_attach_run _ _ (CScan s)); auto.
  lc0 L.
Qed.

Lemma lin_del_none c st s1 : catt c = None -> cg st -> lin st -> del_run c st = Some s1 -> lin s1.
Proof. intros Hc CT L D. pose proof (lin_del_detach _ _ _ CT L D) as X. rewrite Hc in X. exact X. Qed.

Lemma lin_light cfg st e st' : cg st -> lin st -> step cfg st e = Some st' ->
  match e with EvEof | EvWritten | EvRetr2 _ | EvEmit0 | EvEmit1 _ _ _ _ _ | EvReorder => True | _ => False end -> lin st'.
Proof.
  intros CT L H E. unfold step in H. destruct (x_failed st); [discriminate|]. destruct e; try contradiction.
  - unfold reader_eof in H. destruct (x_eof st); inversion H. lc0 L.
  - unfold written in H. destruct (0 <? x_outq st); inversion H. lc0 L.
  - unfold retr2 in H. destruct (del_run (CRetr2 e) st) as [s1|] eqn:D; [|discriminate]. inversion H; subst.
    pose proof (lin_del_none (CRetr2 e) _ _ eq_refl CT L D) as L1. lc0 L1.
  - unfold emit0 in H. destruct (selects TEmit st); [|discriminate]. destruct (qmin e_base pos_lt (x_emit_q st)); [|discriminate].
    destruct (remove_one ejob_eqb e (x_emit_q st)) as [q|]; [|discriminate]. inversion H; subst st'.
    apply lin_add_none; [reflexivity|]. lc0 L.
  - unfold emit1 in H. destruct (del_run (CEmit e) st) as [s1|] eqn:D; [|discriminate].
    pose proof (lin_del_none (CEmit e) _ _ eq_refl CT L D) as L1.
    repeat match type of H with context [if ?c then _ else _] => destruct c end; inversion H; subst; lc0 L1.
  - unfold reorder in H. destruct (selects TReorder st); [|discriminate]. destruct (qmin o_base pos_lt (x_reord_q st)); [|discriminate].
    destruct (remove_one oblk_eqb o (x_reord_q st)); [|discriminate]. xs in H.
    destruct (x_order_q st); [inversion H; lc0 L|].
    repeat match type of H with context [if ?c then _ else _] => destruct c end; inversion H; subst; lc0 L.
Qed.

(* ---- do_parse, second half ------------------------------------------------------------------------------ *)
Lemma lin_parse_finish cfg g s : cg s -> lin s -> lin (parse_finish cfg g s).
Proof.
  intros CT L. unfold parse_finish. set (pb' := mkdbs _ _). clearbody pb'.
  apply lin_split in L. destruct L as [LB [P1 P2 P3 P4]]. apply lin_split. unfold lblk_st, lpos_st in *.
  match goal with |- context [if ?c then _ else _] => destruct c end.
  { unfold fail. xs. split; auto. constructor; auto; discriminate. }
  unfold cg in CT.
  assert (LB' : lblk [] (x_zombies s ++ zrel (x_input_q s)) (x_head_offs s + sum_sizes (x_input_q s)) (x_running s)).
  { apply (lblk_release (x_input_q s) [] _ (x_head_offs s) _ (x_tail_offs s)); rewrite ?app_nil_r; auto.
    - lia.
    - intros b Hb. destruct (contig_bounds _ _ _ _ CT Hb) as (_ & LE & _). pose proof (contig_sum _ _ _ CT). lia. }
  destruct (c_finish_drops_link cfg); xs; autorewrite with xf; xs; rewrite fold_release_zrel; xs;
    (split; [exact LB'|constructor; try discriminate; [constructor|]]).
  - eapply us_forall; [apply us_flush|]. eapply us_forall; [apply us_drop_links|]. exact P4.
  - eapply us_forall; [apply us_flush|]. exact P4.
Qed.

Lemma lin_parse_ok cfg lv crc s : cg s -> d_off (x_parser_bs s) <= x_tail_offs s -> lin s -> lin (parse_ok cfg lv crc s).
Proof.
  intros CT PB L. unfold parse_ok.
  set (s2 := set_unords _ (set_order_q _ s)).
  assert (L2 : lin s2). { subst s2. apply (lin_chg _ _ L); try (fld; reflexivity); fld; [apply rq_refl|apply us_discard]. }
  assert (C2 : cg s2) by (unfold cg in *; subst s2; xs; exact CT).
  assert (T2 : x_tail_offs s2 = x_tail_offs s) by (subst s2; xs; reflexivity).
  assert (B2 : x_parser_bs s2 = x_parser_bs s) by (subst s2; xs; reflexivity).
  assert (NEW : lin (set_retr_q (mkrjob (d_pos (x_parser_bs s)) (x_parser_bs s2) None :: x_retr_q s2) s2)).
  { apply (lin_chg _ _ L2); try (fld; reflexivity); fld; [|apply us_refl]. apply rq_cons. cbn [r_cur]. rewrite B2, T2. exact PB. }
  clearbody s2.
  destruct (qmin u_base pos_lt (unord_q s2)) as [u|] eqn:Q; [|exact NEW].
  destruct (pos_eq (u_base u) (d_pos (x_parser_bs s))); [|exact NEW]. clear NEW.
  apply qmin_In in Q. unfold unord_q in Q. apply filter_In in Q. destruct Q as [Q1 Q2].
  assert (UE : d_off (u_end u) <= x_tail_offs s2).
  { pose proof (li_uend _ L2) as F. rewrite Forall_forall in F. apply F; auto. }
  pose proof (lin_advance cfg (u_end u) s2 C2 UE L2) as L3. set (s3 := advance cfg (u_end u) s2) in *. clearbody s3.
  destruct (u_complete u).
  - apply (lin_chg _ _ L3); try (fld; reflexivity); fld; [apply rq_refl|apply us_del].
  - apply (lin_chg _ _ L3); try (fld; reflexivity); fld; [apply rq_refl|]. apply us_upd_end. unfold u_detach. simpl. discriminate.
Qed.

Lemma lin_parse1 cfg att r st st' : cg st -> lin st -> parse1 cfg att r st = Some st' -> lin st'.
Proof.
  intros CT L H. unfold parse1 in H.
  destruct (del_run (CParse att) st) as [s1|] eqn:D; [|discriminate].
  pose proof (lin_del_detach _ _ _ CT L D) as L2. cbn [catt] in L2.
  pose proof (att_end_le att st CT L) as AE.
  assert (C1 : cg s1 /\ att_end att s1 = att_end att st /\ x_tail_offs s1 = x_tail_offs st).
  { destruct (del_run_spec _ _ _ D) as (l1 & l2 & E & ->). unfold cg, att_end. xs. auto. }
  destruct C1 as (C1 & EA & T1). rewrite EA in H.
  match type of H with (if ?c then _ else _) = _ => destruct c eqn:CK; [|discriminate] end. bool_hyps.
  assert (C2 : cg (detach att s1)) by (eapply cg_view; [apply view_detach|auto]).
  assert (T2 : x_tail_offs (detach att s1) = x_tail_offs st) by (autorewrite with xf; exact T1).
  set (s2 := detach att s1) in *. clearbody s2.
  assert (BT : d_off (res_bs r) <= x_tail_offs s2) by (rewrite T2; lia).
  pose proof (lin_advance cfg (res_bs r) s2 C2 BT L2) as L3. pose proof (cg_advance cfg (res_bs r) s2 C2) as C3.
  assert (T3 : x_tail_offs (advance cfg (res_bs r) s2) = x_tail_offs s2) by (autorewrite with xf; reflexivity).
  assert (B3 : x_parser_bs (advance cfg (res_bs r) s2) = res_bs r) by (apply advance_fields).
  set (s3 := advance cfg (res_bs r) s2) in *. clearbody s3.
  destruct r as [bs ps|bs g|bs code|bs ps lv crc].
  - match type of H with (if ?c then _ else _) = _ => destruct c; [|discriminate] end. inversion H; subst. lc0 L3.
  - match type of H with (if ?c then _ else _) = _ => destruct c; [|discriminate] end. inversion H; subst.
    apply lin_parse_finish; auto.
  - match type of H with (if ?c then _ else _) = _ => destruct c; [discriminate|] end. inversion H; subst. lc0 L3.
  - match type of H with (if ?c then _ else _) = _ => destruct c; [|discriminate] end. inversion H; subst.
    apply lin_parse_ok.
    + unfold cg in *. xs. exact C3.
    + xs. rewrite B3, T3. exact BT.
    + lc0 L3.
Qed.

(* ---- do_retrieve, second half ---------------------------------------------------------------------------- *)
Lemma lin_retr1 cfg j att rv cur st st' : cg st -> lin st -> retr1 cfg j att rv cur st = Some st' -> lin st'.
Proof.
  intros CT L H. unfold retr1 in H.
  destruct (del_run (CRetr j att) st) as [s1|] eqn:D; [|discriminate].
  pose proof (lin_del_detach _ _ _ CT L D) as L2. cbn [catt] in L2.
  pose proof (att_end_le att st CT L) as AE.
  assert (C1 : cg s1 /\ att_end att s1 = att_end att st /\ x_tail_offs s1 = x_tail_offs st).
  { destruct (del_run_spec _ _ _ D) as (l1 & l2 & E & ->). unfold cg, att_end. xs. auto. }
  destruct C1 as (C1 & EA & T1). rewrite EA in H.
  match type of H with (if ?c then _ else _) = _ => destruct c eqn:CK; [|discriminate] end.
  assert (BT0 : d_off cur <= x_tail_offs st).
  { apply andb_true_iff in CK. destruct CK as [CK _]. apply andb_true_iff in CK. destruct CK as [CK _].
    apply andb_true_iff in CK. destruct CK as [_ CK]. apply N.leb_le in CK. eapply N.le_trans; eauto. }
  clear CK.
  assert (C2 : cg (detach att s1)) by (eapply cg_view; [apply view_detach|auto]).
  assert (T2 : x_tail_offs (detach att s1) = x_tail_offs st) by (autorewrite with xf; exact T1).
  set (s2 := detach att s1) in *. clearbody s2.
  assert (BT : d_off cur <= x_tail_offs s2) by (rewrite T2; exact BT0).
  destruct (x_parsing_done s2).
  { inversion H; subst. destruct (c_retr_done_drops_link cfg); [|lc0 L2].
    apply (lin_chg _ _ L2); try (fld; reflexivity); fld; [apply rq_refl|apply us_drop_link]. }
  cbv zeta in H.
  match type of H with (if ?c then _ else _) = _ => destruct c end.
  { inversion H; subst. destruct (c_retr_abort_drops_link cfg); [|lc0 L2].
    apply (lin_chg _ _ L2); try (fld; reflexivity); fld; [apply rq_refl|apply us_drop_link]. }
  match type of H with context [d_off cur <? x_head_offs ?s] => set (s3 := s) in H end.
  assert (L3 : lin s3 /\ x_tail_offs s3 = x_tail_offs s2).
  { subst s3. match goal with |- context [if ?c then _ else _] => destruct c end.
    - split; [apply lin_advance; auto|autorewrite with xf; reflexivity].
    - destruct (r_link j); [|auto]. split; [|reflexivity].
      apply (lin_chg _ _ L2); try (fld; reflexivity); fld; [apply rq_refl|]. apply us_upd_end. intros u _. exact BT. }
  destruct L3 as [L3 T3]. clearbody s3.
  assert (BT3 : d_off cur <= x_tail_offs s3) by (rewrite T3; exact BT).
  destruct (rv =? MORE).
  - match type of H with (if ?c then _ else _) = _ => destruct c end; inversion H; subst.
    + destruct (c_stale_drops_link cfg); [|lc0 L3].
      apply (lin_chg _ _ L3); try (fld; reflexivity); fld; [apply rq_refl|apply us_drop_link].
    + apply (lin_chg _ _ L3); try (fld; reflexivity); fld; [|apply us_refl]. apply rq_cons. exact BT3.
  - inversion H; subst. apply lin_add_none; [reflexivity|].
    match goal with |- context [if ?c then _ else _] => destruct c end; destruct (r_link j); try exact L3.
    + apply (lin_chg _ _ L3); try (fld; reflexivity); fld; [apply rq_refl|]. apply us_upd_end. intros u _. exact BT3.
    + apply (lin_chg _ _ L3); try (fld; reflexivity); fld; [apply rq_refl|apply us_del].
    + lc0 L3.
Qed.

(* ---- do_scan, second half ------------------------------------------------------------------------------------ *)
Lemma lin_scan1 cfg s att found s' more st st' : cg st -> lin st -> scan1 cfg s att found s' more st = Some st' -> lin st'.
Proof.
  intros CT L H. unfold scan1 in H.
  destruct (del_run (CScan s att) st) as [s1|] eqn:D; [|discriminate].
  pose proof (lin_del_detach _ _ _ CT L D) as L2. cbn [catt] in L2.
  pose proof (att_end_le att st CT L) as AE.
  assert (C1 : att_end att s1 = att_end att st /\ x_tail_offs s1 = x_tail_offs st).
  { destruct (del_run_spec _ _ _ D) as (l1 & l2 & E & ->). unfold att_end. xs. auto. }
  destruct C1 as (EA & T1). rewrite EA in H.
  assert (T2 : x_tail_offs (detach att s1) = x_tail_offs st) by (autorewrite with xf; exact T1).
  set (s2 := detach att s1) in *. clearbody s2.
  destruct (negb found || x_parsing_done s2).
  { inversion H; subst. lc0 L2. }
  match type of H with (if ?c then _ else _) = _ => destruct c eqn:CK; [|discriminate] end.
  assert (BT : d_off s' <= x_tail_offs s2).
  { rewrite T2. apply andb_true_iff in CK. destruct CK as [CK _]. apply andb_true_iff in CK. destruct CK as [_ CK].
    apply N.leb_le in CK. eapply N.le_trans; eauto. }
  clear CK.
  match type of H with context [set_scan_q (s' :: x_scan_q ?x) _] => set (s3 := x) in H end.
  assert (L3 : lin s3).
  { subst s3. repeat match goal with |- context [if ?c then _ else _] => destruct c end; try (lc0 L2).
    apply (lin_chg _ _ L2); try (fld; reflexivity); fld.
    - apply rq_cons. exact BT.
    - apply us_snoc. unfold uend_ok. intros _. exact BT. }
  clearbody s3.
  match type of H with (if ?c then _ else _) = _ => destruct c end; inversion H; subst; [lc0 L3|exact L3].
Qed.

(* ---- the invariant is inductive ---------------------------------------------------------------------------- *)
(* only [i_contig] of [inv] is used *)
Theorem lin_step_min cfg st e st' : inv st -> lin st -> step cfg st e = Some st' -> lin st'.
Proof.
  intros IV L H. assert (CT : cg st) by apply IV.
  destruct e; try (eapply lin_light; eauto; exact I); unfold step in H; destruct (x_failed st); try discriminate.
  - eapply lin_input; eauto.
  - eapply lin_parse0; eauto.
  - eapply lin_parse1; eauto.
  - eapply lin_retr0; eauto.
  - eapply lin_retr1; eauto.
  - eapply lin_scan0; eauto.
  - eapply lin_scan1; eauto.
Qed.

Theorem lin_step cfg st e st' : cfg_safe cfg -> inv st -> sown st -> lin st -> step cfg st e = Some st' -> lin st'.
Proof. intros _ IV _. apply lin_step_min. exact IV. Qed.

Theorem lin_reach cfg n tin tout ultra st : cfg_safe cfg -> reach cfg (init_state n tin tout ultra) st -> lin st.
Proof.
  intros CS R. induction R as [|st e st' R IH H]; [apply lin_init|].
  destruct (sown_reach _ _ _ _ _ _ CS R) as [IV _]. eapply lin_step_min; eauto.
Qed.

Print Assumptions lin_init.
Print Assumptions lin_step.
Print Assumptions lin_reach.
