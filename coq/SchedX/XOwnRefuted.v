(* Why the ownership theorems of XOwnProofs.v are stated over runs whose POk labels make
   progress ([preach]: a confirmed block starts at least 32 bits after the one confirmed before):
   the model's parse1/retr1 accept labels that consume no bits (a POk whose position equals the
   parser's, a retriever that ends where it began) - labels the unlocked computations can never
   produce, parse() consumes the 48-bit block magic and the 32-bit CRC of a header before it returns
   OK.  With such labels two "blocks" get the same base, the buffers of one are taken for the
   other's, and a head is left in order_q that nothing owns: can_terminate() holds although order_q
   is not empty.  This file compiles for every source (the run does not depend on any regenerated
   boolean it could trip over). *)
From Coq Require Import List NArith Bool.
From LBZ Require Import Gen.Consts SchedX.XState Gen.SchedXTab SchedX.XSet SchedX.XModel SchedX.XInvDefs.
Import ListNotations.
Local Open Scope N_scope.

Definition zp_m : rjob := mkrjob (32, 0) (mkdbs 32 1) None.
Definition zp_e : ejob := mkejob (32, 0) OK 1.
Definition zp_e1 : ejob := mkejob (32, 1) OK 1.

Definition zp_events : list event :=
  [ EvInput 4 0;
    EvParse0; EvParse1 (Some 0) (POk (mkdbs 32 1) 0 9 0);          (* header of zero bits at bit 32 *)
    EvRetr0 zp_m; EvRetr1 zp_m (Some 0) OK (mkdbs 32 1);           (* block of zero bits *)
    EvParse0; EvParse1 (Some 0) (POk (mkdbs 32 1) 0 9 0);          (* the "next" block: same base *)
    EvRetr0 zp_m; EvRetr1 zp_m (Some 0) OK (mkdbs 32 1);
    EvRetr2 zp_e; EvRetr2 zp_e;
    EvEmit0; EvEmit1 zp_e MORE 10 0 0;                              (* first line: buffer (32,0), more to come *)
    EvReorder;                                                      (* accepted: head becomes (32,1) *)
    EvEmit0; EvEmit1 zp_e OK 10 0 0;                                (* second line: its only buffer (32,0) *)
    EvReorder;                                                      (* rejected as bogus: (32,0) < (32,1) *)
    EvParse0; EvParse1 (Some 0) (PFinish (mkdbs 128 4) 0);
    EvEmit0; EvEmit1 zp_e1 OK 10 0 0;
    EvReorder; EvWritten; EvWritten; EvEof ].

Theorem terminate_order_empty_needs_progress :
  exists st, reach gen_cfg (init_state 2 8 32 false) st /\ x_failed st = None /\ can_terminate st = true /\
    x_order_q st <> [].
Proof.
  destruct (run gen_cfg (init_state 2 8 32 false) zp_events) as [st|] eqn:R; [|vm_compute in R; discriminate].
  exists st. split; [eapply run_reach; eauto|].
  vm_compute in R. inversion R; subst st. repeat split; try reflexivity. discriminate.
Qed.
