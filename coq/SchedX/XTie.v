(* Tie-breaking in the priority queues.

   The real pqueue (binary heap, process.h/process.c) returns SOME minimal element when keys are
   equal (Properties_C11pool.v: C11_pqueue_refines_sorted, C11_pqueue_ties_not_fifo), the model's
   [qmin] the first minimal element in list order.  That is faithful if the keys of a queue are
   pairwise distinct or if the continuation does not depend on which of the tied elements is taken.

   scan_q   keys (bit positions) are pairwise distinct: one scan job per input block [sown], blocks
            are disjoint, streams are normalised                                   (here: scan_keys_distinct)
   unord_q, emit_q, reord_q
            keys are pairwise distinct along runs whose scanner labels are fresh    (XLive.v)
   retr_q   keys are the CURRENT positions of the jobs and CAN tie in the program: two retrieve jobs
            (e.g. the master and a spurious candidate inside its block) that both ran to the end of the
            same input block with the same number of buffered bits.  The model is tie-insensitive there:
            - do_retrieve: [retr0] takes a label-chosen minimal element ([take_min]);
            - can_retrieve: tied jobs have the same word offset, so the guard does not depend on
              which of them peek() returns                                            (can_retrieve_tie)
            - advance(): the loop "while peek(retr_q) lies below head_offs: dequeue" removes exactly
              the jobs below head_offs, whatever minimal element each peek returns      (adv_retr_any_tiebreak) *)
From Coq Require Import List NArith Bool Lia Arith ZifyBool ZifyN ZifyNat Permutation.
From LBZ Require Import Gen.Consts SchedX.XState Gen.SchedXTab SchedX.XSet SchedX.XModel SchedX.XLemmas
  SchedX.XFrame SchedX.XInvDefs SchedX.XOps SchedX.XInv SchedX.XInv2 SchedX.XCount SchedX.XScanOwn.
Import ListNotations.
Local Open Scope N_scope.

(* ---- scan_q ------------------------------------------------------------------------------------ *)
Lemma filter_len_cons_le {A} (p : A -> bool) a l : (length (filter p l) <= length (filter p (a :: l)))%nat.
Proof. simpl. destruct (p a); simpl; lia. Qed.

Lemma scan_nodup_aux (IS : list (N * N)) (l : list dbs) :
  (forall r, In r IS -> (length (filter (in_rng r) l) <= 1)%nat) ->
  Forall (fun s => dbs_norm s = true /\ exists r, In r IS /\ in_rng r s = true) l ->
  NoDup (map d_bit l).
Proof.
  induction l as [|a l IH]; intros ONE F; simpl; [constructor|].
  inversion F as [|? ? [Na (r & Hr & Ra)] F']; subst. constructor.
  - intro Hin. apply in_map_iff in Hin. destruct Hin as (s & Es & Hs).
    rewrite Forall_forall in F'. destruct (F' s Hs) as [Ns _].
    pose proof (norm_same_bit s a Ns Na Es) as EO.
    assert (Rs : in_rng r s = true) by (unfold in_rng in *; rewrite EO; exact Ra).
    specialize (ONE r Hr). simpl in ONE. rewrite Ra in ONE. simpl in ONE.
    assert (In s (filter (in_rng r) l)) by (apply filter_In; auto).
    destruct (filter (in_rng r) l); [contradiction|simpl in ONE; lia].
  - apply IH; auto. intros r0 H0. specialize (ONE r0 H0). pose proof (filter_len_cons_le (in_rng r0) a l). lia.
Qed.

Theorem scan_keys_distinct st : inv st -> sown st -> NoDup (map d_bit (x_scan_q st)).
Proof.
  intros I [SL ONE _ _]. apply (scan_nodup_aux (map bshape (x_input_q st))).
  - intros r Hr. specialize (ONE r Hr). lia.
  - pose proof (i_scan _ I) as IS. rewrite Forall_forall in *. intros s Hs. destruct (IS s Hs) as [HD NM]. split; auto.
    specialize (SL s Hs). simpl in SL.
    destruct (find_blk_contig (d_off s) _ _ _ (i_contig _ I) HD SL) as [b FB].
    destruct (find_blk_spec _ _ _ _ (i_contig _ I) HD b FB) as (Hb & L1 & L2).
    exists (bshape b). split; [apply in_map; exact Hb|]. unfold in_rng, bshape, ib_end in *. simpl. lia.
Qed.

(* keys of scan_q as positions *)
Corollary scan_pos_distinct st : inv st -> sown st -> NoDup (map d_pos (x_scan_q st)).
Proof.
  intros I S. pose proof (scan_keys_distinct st I S) as ND.
  assert (E : map d_bit (x_scan_q st) = map fst (map d_pos (x_scan_q st))) by (rewrite map_map; reflexivity).
  rewrite E in ND. eapply NoDup_map_inv; eauto.
Qed.

(* ---- retr_q: tied jobs stand at the same word offset ---------------------------------------------- *)
Lemma retr_ties_same_off st x y :
  inv st -> In x (x_retr_q st) -> In y (x_retr_q st) -> rkey x = rkey y -> d_off (r_cur x) = d_off (r_cur y).
Proof.
  intros I Hx Hy E. pose proof (i_jobs _ I) as IJ. rewrite Forall_forall in IJ.
  assert (Nx : dbs_norm (r_cur x) = true) by (apply (IJ x); unfold all_jobs; apply in_or_app; auto).
  assert (Ny : dbs_norm (r_cur y) = true) by (apply (IJ y); unfold all_jobs; apply in_or_app; auto).
  apply norm_same_bit; auto. unfold rkey, d_pos in E. congruence.
Qed.

(* the guard can_retrieve() evaluates the same whichever minimal element peek() returns *)
Theorem can_retrieve_tie st x :
  inv st -> In x (x_retr_q st) -> is_minimal rkey pos_lt x (x_retr_q st) = true ->
  can_attach st (r_cur x) = can_attach st (r_cur (peek_retr pos_lt st)).
Proof.
  intros I Hx M. unfold peek_retr. destruct (qmin rkey pos_lt (x_retr_q st)) as [m|] eqn:Q.
  - pose proof (qmin_In _ _ _ Q) as Hm. pose proof (qmin_min _ _ _ _ Q Hx) as M1.
    rewrite is_minimal_spec in M. pose proof (M m Hm) as M2.
    assert (E : rkey x = rkey m) by (apply pos_lt_total; auto).
    unfold can_attach. rewrite (retr_ties_same_off st x m I Hx Hm E). reflexivity.
  - apply qmin_none in Q. rewrite Q in Hx. destruct Hx.
Qed.

(* ---- advance(): the release loops under ANY tie-breaking rule -------------------------------------- *)
Section AnyTieBreak.
  (* peek/dequeue of some priority queue implementation: returns a minimal element *)
  Variable pick : list rjob -> option rjob.
  Hypothesis pick_min : forall q j, pick q = Some j -> In j q /\ forall y, In y q -> pos_lt (rkey y) (rkey j) = false.
  Hypothesis pick_some : forall q, q <> [] -> exists j, pick q = Some j.

  Fixpoint adv_retr_g (fuel : nat) (hd : N) (q : list rjob) : list rjob * list rjob :=
    match fuel with
    | O => ([], q)
    | S f =>
      match pick q with
      | Some j =>
        if d_off (r_cur j) <? hd then
          match remove_one rjob_eqb j q with
          | Some q' => let (d, k) := adv_retr_g f hd q' in (j :: d, k)
          | None => ([], q)
          end
        else ([], q)
      | None => ([], q)
      end
    end.

  Definition below (hd : N) (j : rjob) : bool := d_off (r_cur j) <? hd.

  Lemma filter_all {A} (p : A -> bool) l : (forall x, In x l -> p x = true) -> filter p l = l.
  Proof. induction l as [|a l IH]; simpl; intro H; auto. rewrite (H a (or_introl eq_refl)). f_equal. apply IH. auto. Qed.

  Lemma filter_none {A} (p : A -> bool) l : (forall x, In x l -> p x = false) -> filter p l = [].
  Proof. induction l as [|a l IH]; simpl; intro H; auto. rewrite (H a (or_introl eq_refl)). apply IH. auto. Qed.

  Theorem adv_retr_g_spec fuel hd q :
    (length q <= fuel)%nat -> Forall (fun j => dbs_norm (r_cur j) = true) q ->
    snd (adv_retr_g fuel hd q) = filter (fun j => negb (below hd j)) q /\
    Permutation (fst (adv_retr_g fuel hd q)) (filter (below hd) q).
  Proof.
    revert q. induction fuel as [|f IH]; intros q L NM; simpl.
    - destruct q; [simpl; auto|simpl in L; lia].
    - destruct (pick q) as [j|] eqn:P.
      + destruct (pick_min _ _ P) as [Hj MIN].
        destruct (d_off (r_cur j) <? hd) eqn:B.
        * destruct (In_remove_one_some rjob_eqb rjob_eqb_refl _ _ Hj) as [q' R]. rewrite R.
          destruct (remove_one_split _ rjob_eqb_eq _ _ _ R) as (l1 & l2 & -> & ->).
          assert (L' : (length (l1 ++ l2) <= f)%nat) by (rewrite app_length in *; simpl in L; lia).
          assert (NM' : Forall (fun j => dbs_norm (r_cur j) = true) (l1 ++ l2)).
          { apply Forall_app in NM. destruct NM as [N1 N2]. inversion N2; subst. apply Forall_app; auto. }
          destruct (IH _ L' NM') as [I1 I2]. destruct (adv_retr_g f hd (l1 ++ l2)) as [d k]. simpl in *.
          rewrite !filter_app in *. simpl.
          assert (Bj : below hd j = true) by exact B. rewrite Bj. simpl. split; [exact I1|].
          apply Permutation_cons_app. exact I2.
        * simpl. rewrite Forall_forall in NM.
          assert (ALL : forall y, In y q -> below hd y = false).
          { intros y Hy. pose proof (MIN y Hy) as M. apply not_true_iff_false in M. rewrite pos_lt_spec in M.
            unfold rkey, d_pos, lexlt in M. simpl in M. pose proof (NM y Hy) as Ny. pose proof (NM j Hj) as Nj.
            unfold below. apply N.ltb_ge. apply N.ltb_ge in B. unfold dbs_norm in *. lia. }
          split.
          -- symmetry. apply filter_all. intros y Hy. rewrite (ALL y Hy). reflexivity.
          -- rewrite (filter_none _ _ ALL). constructor.
      + destruct q as [|a r]; [simpl; auto|]. destruct (pick_some (a :: r)) as [j Pj]; [discriminate|congruence].
  Qed.
End AnyTieBreak.

(* the model's loop is the instance "first minimal element in list order" *)
Lemma adv_retr_is_g fuel hd q : adv_retr fuel hd q = adv_retr_g (qmin rkey pos_lt) fuel hd q.
Proof.
  revert q. induction fuel as [|f IH]; intro q; [reflexivity|].
  cbn [adv_retr adv_retr_g].
  destruct (qmin rkey pos_lt q) as [j|]; [|reflexivity]. destruct (d_off (r_cur j) <? hd); [|reflexivity].
  destruct (remove_one rjob_eqb j q) as [q'|]; [|reflexivity]. rewrite IH. reflexivity.
Qed.

Lemma qmin_pick_min (q : list rjob) j : qmin rkey pos_lt q = Some j -> In j q /\ forall y, In y q -> pos_lt (rkey y) (rkey j) = false.
Proof. intro Q. split; [eapply qmin_In; eauto|intros; eapply qmin_min; eauto]. Qed.

(* advance() keeps exactly the jobs at or above head_offs and drops exactly those below it: for the
   model's tie-breaking and for that of any other priority queue *)
Theorem adv_retr_any_tiebreak pick hd q :
  (forall q j, pick q = Some j -> In j q /\ forall y, In y q -> pos_lt (rkey y) (rkey j) = false) ->
  (forall q, q <> [] -> exists j, pick q = Some j) ->
  Forall (fun j => dbs_norm (r_cur j) = true) q ->
  snd (adv_retr_g pick (length q) hd q) = snd (adv_retr (length q) hd q) /\
  Permutation (fst (adv_retr_g pick (length q) hd q)) (fst (adv_retr (length q) hd q)).
Proof.
  intros PM PS NM.
  destruct (adv_retr_g_spec pick PM PS (length q) hd q (le_n _) NM) as [A1 A2].
  rewrite adv_retr_is_g.
  destruct (adv_retr_g_spec (qmin rkey pos_lt) qmin_pick_min (fun q => qmin_some rkey q) (length q) hd q (le_n _) NM) as [B1 B2].
  split; [congruence|]. eapply Permutation_trans; [exact A2|apply Permutation_sym; exact B2].
Qed.

Corollary adv_retr_exact st hd :
  inv st ->
  snd (adv_retr (length (x_retr_q st)) hd (x_retr_q st)) = filter (fun j => negb (below hd j)) (x_retr_q st) /\
  Permutation (fst (adv_retr (length (x_retr_q st)) hd (x_retr_q st))) (filter (below hd) (x_retr_q st)).
Proof.
  intro I. rewrite adv_retr_is_g. apply adv_retr_g_spec.
  - exact qmin_pick_min.
  - intro q. apply qmin_some.
  - apply le_n.
  - pose proof (i_jobs _ I) as IJ. unfold all_jobs in IJ. apply Forall_app in IJ. destruct IJ as [IJ _].
    eapply Forall_impl; [|exact IJ]. intros j J. apply J.
Qed.
