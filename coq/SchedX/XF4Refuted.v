(* Finding F4, refutation for the source as it is NOW: compiles only while
   do_retrieve() re-queues on MORE without the test `offset >= head_offs`
   (Gen.SchedXTab.requeue_retr_checks_head = false).  The event list is the witness. *)
From Coq Require Import List NArith Bool.
From LBZ Require Import Gen.Consts SchedX.XState Gen.SchedXTab SchedX.XSet SchedX.XModel SchedX.XF4.
Import ListNotations.
Local Open Scope N_scope.

Lemma requeue_retr_unguarded : requeue_retr_checks_head = false.
Proof. reflexivity. Qed.

Theorem SchedX_retr_inv_refuted :
  exists evs st, run gen_cfg f4_init evs = Some st /\ retr_inv st = false.
Proof. exists f4_events. eexists. split; [vm_compute; reflexivity | vm_compute; reflexivity]. Qed.

(* ... and the next scheduling decision attaches a bit stream below head_offs:
   the assert of can_attach()/attach() fails (asserts on) or freed memory is read (NDEBUG). *)
Theorem SchedX_bad_attach_reachable :
  exists evs st, run gen_cfg f4_init evs = Some st /\ x_bad_attach st = true.
Proof. exists f4_events_attach. eexists. split; [vm_compute; reflexivity | vm_compute; reflexivity]. Qed.
