(* Executable labelled transition system of the decompression scheduler
   (expand.c on the runtime of process.c), DESIGN.md Appendix A.3.

   One event = one locked segment (scheduler mutex held from its first to its
   last action).  Unlocked computations (parse, retrieve, decode/emit, scan)
   are not modelled: what they returned is carried by the event label; which
   labels are admissible for a given stream is said in XOracle.v.
   Guards, thresholds, task order, capacities and the booleans describing the
   re-enqueue sites come from Gen/SchedXTab.v (regenerated); the latter enter
   as the configuration [xcfg] so that the repaired code can be modelled too. *)
From Coq Require Import List NArith Bool.
From LBZ Require Import Gen.Consts SchedX.XState Gen.SchedXTab SchedX.XSet.
Import ListNotations.
Local Open Scope N_scope.

(* ---- status codes (enum error, common.h; regenerated in Gen/Consts.v) ---- *)
Definition OK := E_OK.
Definition MORE := E_MORE.
Definition FINISH := E_FINISH.

(* ---- which optional statements the source contains ----------------------- *)
Record xcfg := mkcfg {
  c_requeue_scan_checks_head : bool;
  c_scan_job_checks_head : bool;
  c_scan_checks_unord_cap : bool;          (* finding F9: do_scan passes over a candidate when unord_q is full *)
  c_requeue_retr_checks_head : bool;
  c_stale_drops_link : bool;
  c_retr_done_drops_link : bool;
  c_retr_abort_drops_link : bool;
  c_advance_drops_link : bool;
  c_finish_drops_link : bool }.

Definition gen_cfg : xcfg :=
  mkcfg requeue_scan_checks_head scan_job_checks_head scan_checks_unord_cap requeue_retr_checks_head stale_drops_link retr_done_drops_link
        retr_abort_drops_link advance_drops_link finish_drops_link.

(* ---- decidable equalities ------------------------------------------------- *)
Definition pos_eqb (a b : pos) : bool := (fst a =? fst b) && (snd a =? snd b).
Definition dbs_eqb (a b : dbs) : bool := (d_bit a =? d_bit b) && (d_off a =? d_off b).
Definition optN_eqb (a b : option N) : bool :=
  match a, b with Some x, Some y => x =? y | None, None => true | _, _ => false end.
Definition rjob_eqb (a b : rjob) : bool :=
  pos_eqb (r_base a) (r_base b) && dbs_eqb (r_cur a) (r_cur b) && optN_eqb (r_link a) (r_link b).
Definition ejob_eqb (a b : ejob) : bool :=
  pos_eqb (e_base a) (e_base b) && (e_status a =? e_status b) && (e_end a =? e_end b).
Definition oblk_eqb (a b : oblk) : bool :=
  pos_eqb (o_base a) (o_base b) && (o_size a =? o_size b) && (o_crc a =? o_crc b) &&
  (o_blksz a =? o_blksz b) && (o_status a =? o_status b) && (o_end a =? o_end b).
Definition cont_eqb (a b : cont) : bool :=
  match a, b with
  | CParse x, CParse y => optN_eqb x y
  | CRetr j x, CRetr k y => rjob_eqb j k && optN_eqb x y
  | CRetr2 e, CRetr2 f => ejob_eqb e f
  | CEmit e, CEmit f => ejob_eqb e f
  | CScan s x, CScan t y => dbs_eqb s t && optN_eqb x y
  | _, _ => false
  end.

(* remove a minimal element chosen by the label *)
Definition take_min {A} (eqb : A -> A -> bool) (key : A -> pos) (x : A) (q : list A) : option (list A) :=
  if is_minimal key pos_lt x q then remove_one eqb x q else None.

(* ---- well-formedness of detached bit streams returned by the codec ------- *)
(* 0 <= live < 64 *)
Definition dbs_ok (d : dbs) : bool := (d_bit d <=? 32 * d_off d) && (32 * d_off d <? d_bit d + 64).
(* 0 <= live < 32 *)
Definition dbs_norm (d : dbs) : bool := (d_bit d <=? 32 * d_off d) && (32 * d_off d <? d_bit d + 32).

(* ---- input blocks ----------------------------------------------------------- *)
Definition set_ref (r : N) (b : inblk) : inblk := mkinblk (ib_off b) (ib_size b) r.
Definition ib_end (b : inblk) : N := ib_off b + ib_size b.

Fixpoint find_blk (off : N) (q : list inblk) : option inblk :=
  match q with
  | [] => None
  | b :: r => if off <? ib_end b then Some b else find_blk off r
  end.

Definition upd_ref (f : N -> N) (boff : N) (q : list inblk) : list inblk :=
  map (fun b => if ib_off b =? boff then set_ref (f (ib_ref b)) b else b) q.

Definition has_blk (boff : N) (q : list inblk) : bool := existsb (fun b => ib_off b =? boff) q.

(* attach(): expand.c:316.  Returns the state and the offset of the block the
   bit stream is attached to.  The two asserts at its head are the ghost flag. *)
Definition attach (d : dbs) (st : xstate) : xstate * option N :=
  let st1 := if can_attach_assert st d && (d_off d <=? x_tail_offs st) then st else set_bad_attach true st in
  if d_off d =? x_tail_offs st then (st1, None)
  else match find_blk (d_off d) (x_input_q st1) with
       | Some b => (set_input_q (upd_ref N.succ (ib_off b) (x_input_q st1)) st1, Some (ib_off b))
       | None => (set_bad_attach true st1, None)
       end.

(* end (word offset) of the attached block; tail_offs for the empty stream at EOF *)
Definition att_end (att : option N) (st : xstate) : N :=
  match att with
  | None => x_tail_offs st
  | Some boff =>
    match find (fun b => ib_off b =? boff) (x_input_q st ++ x_zombies st) with
    | Some b => ib_end b
    | None => 0
    end
  end.

(* the reference-dropping half of detach(): expand.c:398 *)
Definition detach (att : option N) (st : xstate) : xstate :=
  match att with
  | None => st
  | Some boff =>
    if has_blk boff (x_input_q st) then set_input_q (upd_ref N.pred boff (x_input_q st)) st
    else
      let z := upd_ref N.pred boff (x_zombies st) in
      let freed := N.of_nat (length (filter (fun b => ib_ref b =? 0) z)) in
      set_in_slots (x_in_slots st + freed) (set_zombies (filter (fun b => negb (ib_ref b =? 0)) z) st)
  end.

(* a block leaves input_q: --ref_count, free it when nobody is attached *)
Definition release_blk (b : inblk) (st : xstate) : xstate :=
  if ib_ref b =? 1 then set_in_slots (x_in_slots st + 1) st
  else set_zombies (x_zombies st ++ [set_ref (N.pred (ib_ref b)) b]) st.

Fixpoint pop_input (lim : N) (q : list inblk) : list inblk * list inblk :=
  match q with
  | [] => ([], [])
  | b :: r => if ib_end b <=? lim then let (p, k) := pop_input lim r in (b :: p, k) else ([], q)
  end.

Definition sum_sizes (l : list inblk) : N := fold_right (fun b a => ib_size b + a) 0 l.

(* ---- unord blocks ------------------------------------------------------------ *)
Definition get_unord (id : N) (l : list unord) : option unord := find (fun u => u_id u =? id) l.
Definition upd_unord (id : N) (f : unord -> unord) (l : list unord) : list unord :=
  map (fun u => if u_id u =? id then f u else u) l.
Definition del_unord (id : N) (l : list unord) : list unord := filter (fun u => negb (u_id u =? id)) l.

Definition u_set_end (e : dbs) (u : unord) := mkunord (u_id u) (u_base u) e (u_complete u) (u_legit u) (u_inq u).
Definition u_set_complete (u : unord) := mkunord (u_id u) (u_base u) (u_end u) true (u_legit u) (u_inq u).
(* removed from unord_q by the parser while its job is unfinished *)
Definition u_detach (legit : bool) (u : unord) := mkunord (u_id u) (u_base u) (u_end u) true legit false.

(* drop_unord_link() of the repaired source: the job gives its unord_blk back *)
Definition drop_link (l : option N) (us : list unord) : list unord :=
  match l with
  | None => us
  | Some id =>
    match get_unord id us with
    | Some u => if u_complete u then del_unord id us else upd_unord id u_set_complete us
    | None => us
    end
  end.

Definition drop_links (js : list rjob) (us : list unord) : list unord :=
  fold_left (fun a j => drop_link (r_link j) a) js us.

(* parser: discard every queued candidate below [p]   (expand.c:558-570) *)
Definition discard_below (p : pos) (us : list unord) : list unord :=
  map (fun u => if u_inq u && pos_lt (u_base u) p && negb (u_complete u) then u_detach false u else u)
      (filter (fun u => negb (u_inq u && pos_lt (u_base u) p && u_complete u)) us).

(* parser at end of input: flush unord_q   (expand.c:531-540) *)
Definition flush_unords (us : list unord) : list unord :=
  map (fun u => if u_inq u then u_detach false u else u)
      (filter (fun u => negb (u_inq u && u_complete u)) us).

(* ---- advance(): expand.c:409 ---------------------------------------------------- *)
Fixpoint adv_retr (fuel : nat) (hd : N) (q : list rjob) : list rjob * list rjob :=
  match fuel with
  | O => ([], q)
  | S f =>
    match qmin rkey pos_lt q with
    | Some j =>
      if d_off (r_cur j) <? hd then
        match remove_one rjob_eqb j q with
        | Some q' => let (d, k) := adv_retr f hd q' in (j :: d, k)
        | None => ([], q)
        end
      else ([], q)
    | None => ([], q)
    end
  end.

Fixpoint adv_scan (fuel : nat) (hd : N) (q : list dbs) : list dbs :=
  match fuel with
  | O => q
  | S f =>
    match qmin d_pos pos_lt q with
    | Some s =>
      if d_off s <? hd then
        match remove_one dbs_eqb s q with
        | Some q' => adv_scan f hd q'
        | None => q
        end
      else q
    | None => q
    end
  end.

(* release input blocks that end at or before [lim] *)
Definition adv_input (lim : N) (st : xstate) : xstate :=
  let pk := pop_input lim (x_input_q st) in
  fold_left (fun a b => release_blk b a) (fst pk)
    (set_head_offs (x_head_offs st + sum_sizes (fst pk)) (set_input_q (snd pk) st)).

(* release queued retrieve jobs that lie below head_offs *)
Definition adv_jobs (cfg : xcfg) (st : xstate) : xstate :=
  let dk := adv_retr (length (x_retr_q st)) (x_head_offs st) (x_retr_q st) in
  let st := set_work_units (x_work_units st + N.of_nat (length (fst dk))) (set_retr_q (snd dk) st) in
  if c_advance_drops_link cfg then set_unords (drop_links (fst dk) (x_unords st)) st else st.

(* release queued scan jobs that lie below head_offs *)
Definition adv_scans (st : xstate) : xstate :=
  set_scan_q (adv_scan (length (x_scan_q st)) (x_head_offs st) (x_scan_q st)) st.

Definition advance (cfg : xcfg) (bs : dbs) (st : xstate) : xstate :=
  adv_scans (adv_jobs cfg (adv_input (d_off bs) (set_parser_bs bs st))).

(* ---- scheduling ----------------------------------------------------------------- *)
Definition first_ready (st : xstate) : option task := find (fun t => ready t st) task_list.
Definition selects (t : task) (st : xstate) : bool :=
  match first_ready st with Some u => task_eqb t u | None => false end.

Definition add_run (c : cont) (st : xstate) : xstate := set_running (c :: x_running st) st.
Definition del_run (c : cont) (st : xstate) : option xstate :=
  match remove_one cont_eqb c (x_running st) with
  | Some r => Some (set_running r st)
  | None => None
  end.

(* ---- event labels ----------------------------------------------------------------- *)
Inductive parse_res :=
| PMore (bs : dbs) (ps : N)
| PFinish (bs : dbs) (garbage : N)
| PErr (bs : dbs) (code : N)
| POk (bs : dbs) (ps : N) (bs100k crc : N).

Inductive event :=
| EvInput (size missing : N)            (* reader: on_input_avail (size in words) *)
| EvEof                                 (* reader: eof = 1 *)
| EvWritten                             (* writer: on_write_complete *)
| EvParse0
| EvParse1 (att : option N) (r : parse_res)
| EvRetr0 (j : rjob)
| EvRetr1 (j : rjob) (att : option N) (rv : N) (cur : dbs)
| EvRetr2 (e : ejob)
| EvEmit0
| EvEmit1 (e : ejob) (rv size crc blksz : N)
| EvReorder
| EvScan0
| EvScan1 (s : dbs) (att : option N) (found : bool) (s' : dbs) (more : bool).

Definition fail (code : N) (st : xstate) : xstate := set_failed (Some code) st.

(* ---- do_parse ------------------------------------------------------------------ *)
Definition parse0 (st : xstate) : option xstate :=
  if selects TParse st then
    let st := set_work_units (N.pred (x_work_units st)) (set_parse_token false st) in
    let (st, att) := attach (x_parser_bs st) st in
    Some (add_run (CParse att) st)
  else None.

Definition parse_finish (cfg : xcfg) (garbage : N) (st : xstate) : xstate :=
  let st := set_parsing_done true (set_parse_token true (set_closed true st)) in
  let pb := x_parser_bs st in
  let live := 32 * d_off pb - d_bit pb + garbage in
  let pb' := mkdbs (d_bit pb - garbage) (if 32 <=? live then N.pred (d_off pb) else d_off pb) in
  let live' := 32 * d_off pb' - d_bit pb' in
  let st := set_parser_bs pb' st in
  if (d_off pb' =? x_tail_offs st) && (live' <? 8 * x_eof_missing st) then fail E_ERR_EOF st
  else
    (* the five releases below touch disjoint variables inside one locked segment;
       the input blocks (expand.c:503-511) are listed last here *)
    let st := if c_finish_drops_link cfg then set_unords (drop_links (x_retr_q st) (x_unords st)) st else st in
    let st := set_work_units (x_work_units st + N.of_nat (length (x_retr_q st))) (set_retr_q [] st) in
    let st := set_scan_q [] st in
    let st := set_unords (flush_unords (x_unords st)) st in
    let st := set_head_offs (x_head_offs st + sum_sizes (x_input_q st))
                (fold_left (fun a b => release_blk b a) (x_input_q st) (set_input_q [] st)) in
    set_work_units (x_work_units st + 1) st.

Definition parse_ok (cfg : xcfg) (bs100k crc : N) (st : xstate) : xstate :=
  let p := d_pos (x_parser_bs st) in
  let st := set_order_q (x_order_q st ++ [mkhead p bs100k crc]) st in
  let st := set_unords (discard_below p (x_unords st)) st in
  match qmin u_base pos_lt (unord_q st) with
  | Some u =>
    if pos_eq (u_base u) p then
      let st := advance cfg (u_end u) st in
      let st := if u_complete u
                then set_parse_token true (set_unords (del_unord (u_id u) (x_unords st)) st)
                else set_unords (upd_unord (u_id u) (u_detach true) (x_unords st)) st in
      set_work_units (x_work_units st + 1) st
    else set_retr_q (mkrjob p (x_parser_bs st) None :: x_retr_q st) st
  | None => set_retr_q (mkrjob p (x_parser_bs st) None :: x_retr_q st) st
  end.

Definition res_bs (r : parse_res) : dbs :=
  match r with PMore b _ | PFinish b _ | PErr b _ | POk b _ _ _ => b end.

Definition parse1 (cfg : xcfg) (att : option N) (r : parse_res) (st : xstate) : option xstate :=
  match del_run (CParse att) st with
  | None => None
  | Some st =>
    let bs := res_bs r in
    let aend := att_end att st in
    if dbs_ok bs && (d_bit (x_parser_bs st) <=? d_bit bs) && (d_off (x_parser_bs st) <=? d_off bs)
       && (d_off bs <=? aend) then
      let st := detach att st in
      let st := advance cfg bs st in
      match r with
      | PMore _ ps =>
        if (d_off bs =? aend) && dbs_norm bs then
          Some (set_work_units (x_work_units st + 1) (set_parse_token true (set_par ps st)))
        else None
      | PFinish _ g =>
        if (g <=? 32) && (g <=? d_bit bs) then Some (parse_finish cfg g st) else None
      | PErr _ code =>
        if (code =? OK) || (code =? MORE) || (code =? FINISH) then None else Some (fail code st)
      | POk _ ps lv crc =>
        if dbs_norm bs then Some (parse_ok cfg lv crc (set_par ps (set_next (d_bit bs) st))) else None
      end
    else None
  end.

(* ---- do_retrieve ------------------------------------------------------------------ *)
Definition retr0 (j : rjob) (st : xstate) : option xstate :=
  if selects TRetrieve st then
    match take_min rjob_eqb rkey j (x_retr_q st) with
    | Some q =>
      let (st, att) := attach (r_cur j) (set_retr_q q st) in
      Some (add_run (CRetr j att) st)
    | None => None
    end
  else None.

Definition link_state (l : option N) (st : xstate) : option unord :=
  match l with Some id => get_unord id (x_unords st) | None => None end.

Definition give_unit (st : xstate) : xstate := set_work_units (x_work_units st + 1) st.

Definition retr1 (cfg : xcfg) (j : rjob) (att : option N) (rv : N) (cur : dbs) (st : xstate) : option xstate :=
  match del_run (CRetr j att) st with
  | None => None
  | Some st =>
    let aend := att_end att st in
    if dbs_ok cur && (d_bit (r_cur j) <=? d_bit cur) && (d_off (r_cur j) <=? d_off cur) && (d_off cur <=? aend)
       && (if rv =? MORE then (d_off cur =? aend) && dbs_norm cur && (d_off (r_cur j) <? d_off cur) else true)
       && negb (rv =? FINISH) then
      let st := detach att st in
      let j' := mkrjob (r_base j) cur (r_link j) in
      if x_parsing_done st then
        Some (give_unit (if c_retr_done_drops_link cfg then set_unords (drop_link (r_link j) (x_unords st)) st else st))
      else
        let lk := link_state (r_link j) st in
        let complete := match lk with Some u => u_complete u | None => false end in
        let legit := match lk with Some u => u_legit u | None => false end in
        let linked := match r_link j with Some _ => true | None => false end in
        if linked && complete && negb legit then
          Some (give_unit (if c_retr_abort_drops_link cfg then set_unords (drop_link (r_link j) (x_unords st)) st else st))
        else
          let st := if negb linked || complete then advance cfg cur st
                    else match r_link j with
                         | Some id => set_unords (upd_unord id (u_set_end cur) (x_unords st)) st
                         | None => st
                         end in
          if rv =? MORE then
            if c_requeue_retr_checks_head cfg && (d_off cur <? x_head_offs st) then
              Some (give_unit (if c_stale_drops_link cfg then set_unords (drop_link (r_link j) (x_unords st)) st else st))
            else Some (set_retr_q (j' :: x_retr_q st) st)
          else
            let st := if linked && negb complete then
                        match r_link j with
                        | Some id => set_unords (upd_unord id (fun u => u_set_complete (u_set_end cur u)) (x_unords st)) st
                        | None => st
                        end
                      else
                        let st := set_parse_token true st in
                        match r_link j with
                        | Some id => set_unords (del_unord id (x_unords st)) st
                        | None => st
                        end in
            Some (add_run (CRetr2 (mkejob (r_base j) rv (d_off cur))) st)
    else None
  end.

Definition retr2 (e : ejob) (st : xstate) : option xstate :=
  match del_run (CRetr2 e) st with
  | None => None
  | Some st => Some (set_emit_q (e :: x_emit_q st) st)
  end.

(* ---- do_emit ------------------------------------------------------------------------ *)
Definition emit0 (st : xstate) : option xstate :=
  if selects TEmit st then
    match qmin e_base pos_lt (x_emit_q st) with
    | Some e =>
      match remove_one ejob_eqb e (x_emit_q st) with
      | Some q => Some (add_run (CEmit e) (set_emit_q q (set_out_slots (N.pred (x_out_slots st)) st)))
      | None => None
      end
    | None => None
    end
  else None.

Definition emit1 (e : ejob) (rv size crc blksz : N) (st : xstate) : option xstate :=
  match del_run (CEmit e) st with
  | None => None
  | Some st =>
    if ((e_status e =? OK) || (rv =? e_status e)) && negb (rv =? FINISH) then
      let ob end_ := mkoblk (e_base e) size crc blksz rv end_ in
      if rv =? MORE then
        let e' := mkejob (fst (e_base e), snd (e_base e) + 1) (e_status e) (e_end e) in
        Some (set_reord_q (ob 0 :: x_reord_q st) (set_emit_q (e' :: x_emit_q st) st))
      else
        Some (set_reord_q (ob (e_end e) :: x_reord_q st) (give_unit st))
    else None
  end.

(* ---- do_reorder ------------------------------------------------------------------------ *)
Definition reorder (st : xstate) : option xstate :=
  if selects TReorder st then
    match qmin o_base pos_lt (x_reord_q st) with
    | None => None
    | Some o =>
      match remove_one oblk_eqb o (x_reord_q st) with
      | None => None
      | Some q =>
        let st := set_reord_q q st in
        match x_order_q st with
        | [] => Some (set_out_slots (x_out_slots st + 1) st)
        | ord :: rest =>
          if pos_lt (o_base o) (h_base ord) then Some (set_out_slots (x_out_slots st + 1) st)
          else
            let incr := if x_reord_offs st <? o_end o then o_end o - x_reord_offs st else 0 in
            let st := set_reord_offs (x_reord_offs st + incr) st in
            let status := if h_bs100k ord * 100000 <? o_blksz o then E_ERR_OVERFLOW else o_status o in
            let hand st := set_outq (x_outq st + 1) (set_written (x_written st ++ [(o_base o, o_size o)]) st) in
            if status =? MORE then
              Some (hand (set_order_q (mkhead (fst (h_base ord), snd (h_base ord) + 1) (h_bs100k ord) (h_crc ord) :: rest) st))
            else
              let status := if (status =? OK) && negb (o_crc o =? h_crc ord) then E_ERR_BLKCRC else status in
              if status =? OK then Some (hand (set_order_q rest st))
              else Some (fail status (set_order_q rest st))
        end
      end
    end
  else None.

(* ---- do_scan ------------------------------------------------------------------------------ *)
(* size(unord_q) >= unord_cap: the capacity unord_q was allocated with in init() *)
Definition unord_cap (st : xstate) : N := cap_unord_q (x_total_in st) (x_num_worker st) (x_total_out st).
Definition unord_full (st : xstate) : bool := unord_cap st <=? N.of_nat (length (unord_q st)).
Definition scan0 (st : xstate) : option xstate :=
  if selects TScan st then
    match qmin d_pos pos_lt (x_scan_q st) with
    | Some s =>
      match remove_one dbs_eqb s (x_scan_q st) with
      | Some q =>
        let (st, att) := attach s (set_scan_q q (set_work_units (N.pred (x_work_units st)) st)) in
        Some (add_run (CScan s att) st)
      | None => None
      end
    | None => None
    end
  else None.

Definition scan1 (cfg : xcfg) (s : dbs) (att : option N) (found : bool) (s' : dbs) (more : bool) (st : xstate)
  : option xstate :=
  match del_run (CScan s att) st with
  | None => None
  | Some st =>
    let aend := att_end att st in
    let st := detach att st in
    if negb found || x_parsing_done st then Some (give_unit st)
    else if dbs_norm s' && (d_off s <=? d_off s') && (d_off s' <=? aend) && (Bool.eqb more (d_off s' <? aend)) then
      let st :=
        if pos_le (d_pos s') (d_pos (x_parser_bs st)) || (c_scan_job_checks_head cfg && (d_off s' <? x_head_offs st))
        then give_unit st
        else if c_scan_checks_unord_cap cfg && unord_full st
        then give_unit st                  (* no room in unord_q: the candidate is passed over *)
        else
          let id := x_next_uid st in
          set_retr_q (mkrjob (d_pos s') s' (Some id) :: x_retr_q st)
            (set_next_uid (id + 1) (set_unords (x_unords st ++ [mkunord id (d_pos s') s' false false true]) st)) in
      if more && (negb (c_requeue_scan_checks_head cfg) || (x_head_offs st <=? d_off s'))
      then Some (set_scan_q (s' :: x_scan_q st) st) else Some st
    else None
  end.

(* ---- reader, writer ---------------------------------------------------------------------------- *)
Definition input (size missing : N) (st : xstate) : option xstate :=
  if negb (x_eof st) && (0 <? x_in_slots st) && (0 <? size) && (missing <? 4) then
    if x_parsing_done st then Some st
    else
      let t := x_tail_offs st in
      Some (set_scan_q (mkdbs (32 * t) t :: x_scan_q st)
             (set_input_q (x_input_q st ++ [mkinblk t size 1])
               (set_tail_offs (t + size) (set_eof_missing missing (set_in_slots (N.pred (x_in_slots st)) st)))))
  else None.

Definition reader_eof (st : xstate) : option xstate :=
  if x_eof st then None else Some (set_eof true st).

Definition written (st : xstate) : option xstate :=
  if 0 <? x_outq st then Some (set_out_slots (x_out_slots st + 1) (set_outq (N.pred (x_outq st)) st)) else None.

(* ---- the transition function ------------------------------------------------------------------- *)
Definition step (cfg : xcfg) (st : xstate) (e : event) : option xstate :=
  match x_failed st with
  | Some _ => None                      (* failf() does not return *)
  | None =>
    match e with
    | EvInput sz m => input sz m st
    | EvEof => reader_eof st
    | EvWritten => written st
    | EvParse0 => parse0 st
    | EvParse1 att r => parse1 cfg att r st
    | EvRetr0 j => retr0 j st
    | EvRetr1 j att rv cur => retr1 cfg j att rv cur st
    | EvRetr2 e => retr2 e st
    | EvEmit0 => emit0 st
    | EvEmit1 e rv size crc blksz => emit1 e rv size crc blksz st
    | EvReorder => reorder st
    | EvScan0 => scan0 st
    | EvScan1 s att found s' more => scan1 cfg s att found s' more st
    end
  end.

Fixpoint run (cfg : xcfg) (st : xstate) (es : list event) : option xstate :=
  match es with
  | [] => Some st
  | e :: r => match step cfg st e with Some st' => run cfg st' r | None => None end
  end.

(* primary_thread() + init(): expand.c:941, process.c:614 *)
Definition init_state (n tin tout : N) (ultra : bool) : xstate :=
  mkx false n tout tin n tout tin ultra false 0
      init_eof_missing [] [] init_head_offs init_tail_offs [] [] [] [] [] 0
      init_parse_token init_parsing_done [] init_reord_offs (mkdbs (32 * init_tail_offs) init_tail_offs) 0
      [] [] None false 0.

Definition init_dec (n : N) (small ultra : bool) : xstate :=
  init_state n (dec_total_in small n) (dec_total_out small n) ultra.

(* worker about to wait / to exit *)
Definition idle_ok (st : xstate) : bool :=
  match first_ready st with None => negb (can_terminate st) | Some _ => false end.
Definition final (st : xstate) : bool := can_terminate st && nilb (x_running st).
