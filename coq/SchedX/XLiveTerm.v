(* Termination of the decompression scheduler model (expand.c on process.c): every event of a
   run that is not a stutter strictly decreases a lexicographic measure (style of SchedC/SchedCTerm.v).
   Together with deadlock freedom (XLive.v, progress_sreach) this gives: every maximal run is finite
   up to stuttering and ends in a final or failed state.

   The labels of the model are unconstrained and the input is supplied by EvInput events, so the
   statement needs label hypotheses ([ev_term]):
     T  total length of the input (32-bit words): the reader never delivers more than T words;
     a parse() call that returns MORE has consumed at least one bit (parse() reads 16 bits at a time and returns
        MORE only after it has used up what it had; at the end of the input a call may return MORE once more
        after consuming buffered bits without reaching a new word - observed on traces of truncated files);
     K  emit() of one block returns MORE fewer than K times (snd base = number of buffers produced).
   besides [ev_prog] (a confirmed block starts >= 32 bits after the previous one) and [ev_scan_prog]
   (a scan that finds a magic stops strictly after its start), the hypotheses of [sreach].

   Measure (most significant first), all components in N:
     0 fail    1 while not failed                                failf() ends the run
     1 input   (eof ? 0 : 1) + (T - tail_offs)                   EvInput, EvEof
     2 parse   parsing_done ? 0 : 1 + (32 T - x_next)            PFinish, POk
     3 scan    sum over scan jobs (queued, running) of (32 T - bit) + 1
     4 retr    sum over retrieve jobs (queued, running) of (T - offset) + 1
     5 pbs     32 T - bit position of the parser                  PMore
     6 emit    sum over emit-stage jobs of (K - snd base) + 1
     7 buf     2 |reord_q| + outq                                reorder, written
     8 noise   first segments (token/queue -> running), retr2 (running -> emit_q)
   advance() and parse_finish only remove queued scan / retrieve jobs, so components 3 and 4 never
   grow there.  Only [inv] (parser exclusion), [lin] (an attached block ends at or before
   tail_offs) and tail_offs <= T are needed of the run. *)
From Coq Require Import List NArith Bool Lia Arith ZifyBool ZifyN ZifyNat Wellfounded.
From LBZ Require Import Gen.Consts SchedX.XState Gen.SchedXTab SchedX.XSet SchedX.XModel SchedX.XLemmas
  SchedX.XFrame SchedX.XInvDefs SchedX.XOps SchedX.XInv SchedX.XInv2 SchedX.XInv3 SchedX.XInv4 SchedX.XOracle
  SchedX.XCount SchedX.XC10 SchedX.XOwn SchedX.XOwnAdv SchedX.XOwnProofs SchedX.XScanOwn SchedX.XC11b
  SchedX.XLiveDefs SchedX.XLiveIn SchedX.XScanFront SchedX.XLiveRun SchedX.XLive.
Import ListNotations.
Local Open Scope N_scope.

(* ---- label hypotheses ------------------------------------------------------------------------ *)
Definition ev_term (T K : N) (st : xstate) (e : event) : Prop :=
  match e with
  | EvInput sz _ => x_tail_offs st + sz <= T
  | EvParse1 _ (PMore bs _) => d_bit (x_parser_bs st) < d_bit bs
  | EvEmit1 e rv _ _ _ => rv = MORE -> snd (e_base e) < K
  | _ => True
  end.

Inductive treach (T K : N) (cfg : xcfg) (s0 : xstate) : xstate -> Prop :=
| treach_init : treach T K cfg s0 s0
| treach_step st e st' : treach T K cfg s0 st -> ev_prog st e -> ev_scan_prog e -> ev_term T K st e ->
                         step cfg st e = Some st' -> treach T K cfg s0 st'.

Lemma treach_sreach T K cfg s0 st : treach T K cfg s0 st -> sreach cfg s0 st.
Proof. induction 1; [constructor|econstructor; eauto]. Qed.

(* ---- the order ----------------------------------------------------------------------------------- *)
Definition lexp {A} (ltA : A -> A -> Prop) (x y : N * A) : Prop :=
  fst x < fst y \/ (fst x = fst y /\ ltA (snd x) (snd y)).

Lemma lexp_wf {A} (ltA : A -> A -> Prop) : well_founded ltA -> well_founded (lexp ltA).
Proof.
  intro W. assert (G : forall a r, Acc (lexp ltA) (a, r)).
  { intro a. induction a as [a IHa] using (well_founded_induction N.lt_wf_0).
    intro r. induction r as [r IHr] using (well_founded_induction W).
    constructor. intros [a' r'] [H|[H1 H2]]; simpl in *.
    - apply IHa. exact H.
    - subst a'. apply IHr. exact H2. }
  intros [a r]. apply G.
Qed.

Lemma lexp_lt {A} (ltA : A -> A -> Prop) a a' r r' : a' < a -> lexp ltA (a', r') (a, r).
Proof. intro H. left. exact H. Qed.

Lemma lexp_le {A} (ltA : A -> A -> Prop) a a' r r' : a' <= a -> (a' = a -> ltA r' r) -> lexp ltA (a', r') (a, r).
Proof.
  intros H K. destruct (N.eq_dec a' a) as [E|NE]; [right; simpl; auto|left; simpl; lia].
Qed.

Definition mtype : Type := (N * (N * (N * (N * (N * (N * (N * (N * N))))))))%type.
Definition mlt : mtype -> mtype -> Prop :=
  lexp (lexp (lexp (lexp (lexp (lexp (lexp (lexp N.lt))))))).

Theorem mlt_wf : well_founded mlt.
Proof. unfold mlt. repeat apply lexp_wf. exact N.lt_wf_0. Qed.

(* ---- sums ------------------------------------------------------------------------------------------ *)
Fixpoint sumN {A} (f : A -> N) (l : list A) : N :=
  match l with [] => 0 | x :: r => f x + sumN f r end.

Lemma sumN_app {A} (f : A -> N) a b : sumN f (a ++ b) = sumN f a + sumN f b.
Proof. induction a as [|x a IH]; simpl; [reflexivity|]. rewrite IH. lia. Qed.

Lemma sumN_mid {A} (f : A -> N) l1 x l2 : sumN f (l1 ++ x :: l2) = f x + sumN f (l1 ++ l2).
Proof. rewrite !sumN_app. simpl. lia. Qed.

Lemma adv_retr_le (f : rjob -> N) fuel hd q : sumN f (snd (adv_retr fuel hd q)) <= sumN f q.
Proof.
  revert q; induction fuel as [|n IH]; intro q; simpl; [lia|].
  destruct (qmin rkey pos_lt q) as [m|]; simpl; [|lia].
  destruct (d_off (r_cur m) <? hd); simpl; [|lia].
  destruct (remove_one rjob_eqb m q) as [q'|] eqn:R; simpl; [|lia].
  destruct (remove_one_split _ rjob_eqb_eq _ _ _ R) as (l1 & l2 & -> & ->).
  specialize (IH (l1 ++ l2)). destruct (adv_retr n hd (l1 ++ l2)) as [d k]. simpl in *.
  rewrite sumN_mid. lia.
Qed.

Lemma adv_scan_le (f : dbs -> N) fuel hd q : sumN f (adv_scan fuel hd q) <= sumN f q.
Proof.
  revert q; induction fuel as [|n IH]; intro q; simpl; [lia|].
  destruct (qmin d_pos pos_lt q) as [m|]; simpl; [|lia].
  destruct (d_off m <? hd); simpl; [|lia].
  destruct (remove_one dbs_eqb m q) as [q'|] eqn:R; simpl; [|lia].
  destruct (remove_one_split _ dbs_eqb_eq _ _ _ R) as (l1 & l2 & -> & ->).
  specialize (IH (l1 ++ l2)). rewrite sumN_mid. lia.
Qed.

(* what advance() does to the fields the measure looks at *)
Lemma advance_pbs cfg bs st : x_parser_bs (advance cfg bs st) = bs.
Proof. unfold advance. autorewrite with xf. xs. reflexivity. Qed.

Lemma advance_retr_le f cfg bs st : sumN f (x_retr_q (advance cfg bs st)) <= sumN f (x_retr_q st).
Proof. rewrite adv_retr_q. apply adv_retr_le. Qed.

Lemma advance_scan_le f cfg bs st : sumN f (x_scan_q (advance cfg bs st)) <= sumN f (x_scan_q st).
Proof.
  unfold advance, adv_scans. xs. autorewrite with xf. xs.
  eapply N.le_trans; [apply adv_scan_le|]. apply N.le_refl.
Qed.

(* ---- the measure ----------------------------------------------------------------------------------- *)
Definition wscan (T : N) (s : dbs) : N := (32 * T - d_bit s) + 1.
Definition wretr (T : N) (j : rjob) : N := (T - d_off (r_cur j)) + 1.
Definition wemit (K : N) (e : ejob) : N := (K - snd (e_base e)) + 1.
Definition cscan (T : N) (c : cont) : N := match c with CScan s _ => wscan T s | _ => 0 end.
Definition cretr (T : N) (c : cont) : N := match c with CRetr j _ => wretr T j | _ => 0 end.
Definition cemit (K : N) (c : cont) : N := match c with CRetr2 e | CEmit e => wemit K e | _ => 0 end.
Definition wrun (c : cont) : N := match c with CRetr2 _ => 3 | _ => 1 end.
Definition len {A} (l : list A) : N := sumN (fun _ => 1) l.

Definition c_fail (st : xstate) : N := match x_failed st with None => 1 | Some _ => 0 end.
Definition c_in (T : N) (st : xstate) : N := (if x_eof st then 0 else 1) + (T - x_tail_offs st).
Definition c_parse (T : N) (st : xstate) : N := if x_parsing_done st then 0 else 1 + (32 * T - x_next st).
Definition c_scan (T : N) (st : xstate) : N := sumN (wscan T) (x_scan_q st) + sumN (cscan T) (x_running st).
Definition c_retr (T : N) (st : xstate) : N := sumN (wretr T) (x_retr_q st) + sumN (cretr T) (x_running st).
Definition c_pbs (T : N) (st : xstate) : N := 32 * T - d_bit (x_parser_bs st).
Definition c_emit (K : N) (st : xstate) : N := sumN (wemit K) (x_emit_q st) + sumN (cemit K) (x_running st).
Definition c_buf (st : xstate) : N := 2 * len (x_reord_q st) + x_outq st.
Definition c_noise (st : xstate) : N :=
  2 * (len (x_retr_q st) + len (x_emit_q st) + len (x_scan_q st)) + sumN wrun (x_running st) +
  (if x_parse_token st then 2 else 0).

Definition measure (T K : N) (st : xstate) : mtype :=
  (c_fail st, (c_in T st, (c_parse T st, (c_scan T st, (c_retr T st, (c_pbs T st, (c_emit K st, (c_buf st, c_noise st)))))))).

(* the emit-stage component is the sum over [estage] (XOwn.v) *)
Lemma c_emit_estage K st : c_emit K st = sumN (wemit K) (estage st).
Proof.
  unfold c_emit, estage. rewrite sumN_app. f_equal.
  induction (x_running st) as [|c r IH]; simpl; [reflexivity|]. rewrite sumN_app, <- IH.
  destruct c; simpl; lia.
Qed.

Ltac msimp :=
  unfold c_fail, c_in, c_parse, c_scan, c_retr, c_pbs, c_emit, c_buf, c_noise, len, add_run, give_unit, fail;
  xs; autorewrite with xf; xs;
  rewrite ?sumN_mid; cbn [sumN cscan cretr cemit wrun].
Ltac mstart := unfold mlt, measure.
Ltac meq := apply lexp_le; [msimp; apply N.le_refl|intros _].


(* ---- light events ------------------------------------------------------------------------------- *)
Lemma term_input T K sz m st st' :
  x_tail_offs st + sz <= T -> x_parsing_done st = false -> input sz m st = Some st' ->
  mlt (measure T K st') (measure T K st).
Proof.
  unfold input. intros HT PD H. match type of H with (if ?c then _ else _) = _ => destruct c eqn:C; [|discriminate] end.
  rewrite PD in H. inversion H; subst st'; clear H. bool_hyps. mstart.
  meq. apply lexp_lt. msimp. lia.
Qed.

Lemma term_eof T K st st' : reader_eof st = Some st' -> mlt (measure T K st') (measure T K st).
Proof.
  unfold reader_eof. intro H. destruct (x_eof st) eqn:E; [discriminate|]. inversion H; subst st'; clear H. mstart.
  meq. apply lexp_lt. msimp. rewrite E. lia.
Qed.

Lemma term_written T K st st' : written st = Some st' -> mlt (measure T K st') (measure T K st).
Proof.
  unfold written. intro H. destruct (0 <? x_outq st) eqn:E; [|discriminate]. inversion H; subst st'; clear H. mstart.
  do 7 meq. apply lexp_lt. msimp. lia.
Qed.

Lemma term_parse0 T K st st' : parse0 st = Some st' -> mlt (measure T K st') (measure T K st).
Proof.
  unfold parse0. intro H. destruct (selects TParse st) eqn:S; [|discriminate].
  apply selects_ready in S. simpl in S. unfold can_parse in S. bool_hyps.
  set (st1 := set_work_units (N.pred (x_work_units st)) (set_parse_token false st)) in *.
  destruct (attach (x_parser_bs st1) st1) as [st2 att] eqn:A.
  assert (E2 : st2 = fst (attach (x_parser_bs st1) st1)) by (rewrite A; reflexivity).
  inversion H; subst st'. clear H. rewrite E2. subst st1. mstart.
  do 7 meq. apply lexp_le; [msimp; lia|intros _]. msimp.
  match goal with K : x_parse_token st = true |- _ => rewrite K end. lia.
Qed.

Lemma term_retr0 T K j st st' : retr0 j st = Some st' -> mlt (measure T K st') (measure T K st).
Proof.
  unfold retr0. intro H. destruct (selects TRetrieve st); [|discriminate].
  destruct (take_min rjob_eqb rkey j (x_retr_q st)) as [q|] eqn:TM; [|discriminate].
  apply take_min_spec in TM. destruct TM as [R _].
  destruct (remove_one_split _ rjob_eqb_eq _ _ _ R) as (l1 & l2 & EQ & Eq).
  set (st1 := set_retr_q q st) in *.
  destruct (attach (r_cur j) st1) as [st2 att] eqn:A.
  assert (E2 : st2 = fst (attach (r_cur j) st1)) by (rewrite A; reflexivity).
  inversion H; subst st'. clear H. rewrite E2. subst st1 q. mstart.
  do 4 meq. apply lexp_le; [msimp; rewrite EQ, sumN_mid; lia|intros _].
  do 3 meq. msimp. rewrite EQ, sumN_mid. lia.
Qed.

Lemma term_retr2 T K e st st' : retr2 e st = Some st' -> mlt (measure T K st') (measure T K st).
Proof.
  unfold retr2. intro H. destruct (del_run (CRetr2 e) st) as [s1|] eqn:D; [|discriminate]. inversion H; subst st'; clear H.
  destruct (del_run_spec _ _ _ D) as (l1 & l2 & E & ->). mstart.
  do 3 meq. apply lexp_le; [msimp; rewrite E, sumN_mid; cbn [cscan]; lia|intros _].
  apply lexp_le; [msimp; rewrite E, sumN_mid; cbn [cretr]; lia|intros _].
  meq. apply lexp_le; [msimp; rewrite E, sumN_mid; cbn [cemit]; lia|intros _].
  meq. msimp. rewrite E, sumN_mid. cbn [wrun]. lia.
Qed.

Lemma term_emit0 T K st st' : emit0 st = Some st' -> mlt (measure T K st') (measure T K st).
Proof.
  unfold emit0. intro H. destruct (selects TEmit st); [|discriminate].
  destruct (qmin e_base pos_lt (x_emit_q st)) as [e|]; [|discriminate].
  destruct (remove_one ejob_eqb e (x_emit_q st)) as [q|] eqn:R; [|discriminate]. inversion H; subst st'; clear H.
  destruct (remove_one_split _ ejob_eqb_eq _ _ _ R) as (l1 & l2 & EQ & ->). mstart.
  do 6 meq. apply lexp_le; [msimp; rewrite EQ, sumN_mid; lia|intros _].
  meq. msimp. rewrite EQ, sumN_mid. lia.
Qed.

Lemma term_emit1 T K e rv size crc blksz st st' :
  (rv = MORE -> snd (e_base e) < K) -> emit1 e rv size crc blksz st = Some st' ->
  mlt (measure T K st') (measure T K st).
Proof.
  unfold emit1. intros HK H. destruct (del_run (CEmit e) st) as [s1|] eqn:D; [|discriminate].
  destruct (del_run_spec _ _ _ D) as (l1 & l2 & E & ->).
  match type of H with (if ?c then _ else _) = _ => destruct c; [|discriminate] end.
  destruct (rv =? MORE) eqn:RV; inversion H; subst st'; clear H; mstart.
  - apply N.eqb_eq in RV. specialize (HK RV).
    do 3 meq. apply lexp_le; [msimp; rewrite E, sumN_mid; cbn [cscan]; lia|intros _].
    apply lexp_le; [msimp; rewrite E, sumN_mid; cbn [cretr]; lia|intros _].
    meq. apply lexp_lt. msimp. rewrite E, sumN_mid. cbn [cemit]. unfold wemit. cbn [e_base snd]. lia.
  - do 3 meq. apply lexp_le; [msimp; rewrite E, sumN_mid; cbn [cscan]; lia|intros _].
    apply lexp_le; [msimp; rewrite E, sumN_mid; cbn [cretr]; lia|intros _].
    meq. apply lexp_lt. msimp. rewrite E, sumN_mid. cbn [cemit]. unfold wemit. lia.
Qed.

Lemma term_reorder T K st st' : x_failed st = None -> reorder st = Some st' -> mlt (measure T K st') (measure T K st).
Proof.
  unfold reorder. intros NF H. destruct (selects TReorder st); [|discriminate].
  destruct (qmin o_base pos_lt (x_reord_q st)) as [o|]; [|discriminate].
  destruct (remove_one oblk_eqb o (x_reord_q st)) as [q|] eqn:R; [|discriminate].
  destruct (remove_one_split _ oblk_eqb_eq _ _ _ R) as (l1 & l2 & EQ & ->).
  xs in H.
  assert (G : forall s2, x_failed s2 = None -> x_eof s2 = x_eof st -> x_tail_offs s2 = x_tail_offs st ->
              x_parsing_done s2 = x_parsing_done st -> x_next s2 = x_next st -> x_scan_q s2 = x_scan_q st ->
              x_running s2 = x_running st -> x_retr_q s2 = x_retr_q st -> x_parser_bs s2 = x_parser_bs st ->
              x_emit_q s2 = x_emit_q st -> x_reord_q s2 = l1 ++ l2 -> x_outq s2 <= x_outq st + 1 ->
              mlt (measure T K s2) (measure T K st)).
  { intros s2 F1 F2 F3 F4 F5 F6 F7 F8 F9 F10 F11 F12. mstart.
    unfold c_fail, c_in, c_parse, c_scan, c_retr, c_pbs, c_emit, c_buf, len.
    rewrite F1, F2, F3, F4, F5, F6, F7, F8, F9, F10, F11, NF, EQ, sumN_mid.
    do 7 (apply lexp_le; [apply N.le_refl|intros _]). apply lexp_lt. lia. }
  destruct (x_order_q st) as [|ord rest]; [inversion H; subst st'; apply G; xs; auto; lia|].
  destruct (pos_lt (o_base o) (h_base ord)); [inversion H; subst st'; apply G; xs; auto; lia|].
  match type of H with (if ?c then _ else _) = _ => destruct c end; [inversion H; subst st'; apply G; xs; auto; lia|].
  match type of H with (if ?c then _ else _) = _ => destruct c end; [inversion H; subst st'; apply G; xs; auto; lia|].
  inversion H; subst st'. mstart. apply lexp_lt. msimp. rewrite NF. lia.
Qed.

Lemma term_scan0 T K st st' : scan0 st = Some st' -> mlt (measure T K st') (measure T K st).
Proof.
  unfold scan0. intro H. destruct (selects TScan st); [|discriminate].
  destruct (qmin d_pos pos_lt (x_scan_q st)) as [s|]; [|discriminate].
  destruct (remove_one dbs_eqb s (x_scan_q st)) as [q|] eqn:R; [|discriminate].
  destruct (remove_one_split _ dbs_eqb_eq _ _ _ R) as (l1 & l2 & EQ & ->).
  set (st1 := set_scan_q (l1 ++ l2) (set_work_units (N.pred (x_work_units st)) st)) in *.
  destruct (attach s st1) as [st2 att] eqn:A.
  assert (E2 : st2 = fst (attach s st1)) by (rewrite A; reflexivity).
  inversion H; subst st'. clear H. rewrite E2. subst st1. mstart.
  do 3 meq. apply lexp_le; [msimp; rewrite EQ, sumN_mid; lia|intros _].
  do 4 meq. msimp. rewrite EQ, sumN_mid. lia.
Qed.


(* ---- do_scan, second segment ---------------------------------------------------------------------- *)
Lemma term_scan1 T K cfg s att found s' more st st' :
  inv st -> lin st -> x_tail_offs st <= T -> (found = true -> d_bit s < d_bit s') ->
  scan1 cfg s att found s' more st = Some st' -> mlt (measure T K st') (measure T K st).
Proof.
  unfold scan1. intros I L HT SP H. destruct (del_run (CScan s att) st) as [s1|] eqn:D; [|discriminate].
  destruct (del_run_spec _ _ _ D) as (l1 & l2 & E & ->).
  pose proof (att_end_le att st (i_contig _ I) L) as AE. rewrite <- (att_end_running att (l1 ++ l2) st) in AE.
  set (aend := att_end att (set_running (l1 ++ l2) st)) in *. clearbody aend.
  set (s2 := detach att (set_running (l1 ++ l2) st)) in *.
  assert (F : x_failed s2 = x_failed st /\ x_eof s2 = x_eof st /\ x_tail_offs s2 = x_tail_offs st /\
              x_parsing_done s2 = x_parsing_done st /\ x_next s2 = x_next st /\ x_scan_q s2 = x_scan_q st /\
              x_running s2 = l1 ++ l2)
    by (subst s2; autorewrite with xf; xs; auto 10).
  destruct F as (F1 & F2 & F3 & F4 & F5 & F6 & F7). clearbody s2. clear I L D.
  (* what remains to be shown of the final state *)
  assert (G : forall s3, x_failed s3 = x_failed st -> x_eof s3 = x_eof st -> x_tail_offs s3 = x_tail_offs st ->
              x_parsing_done s3 = x_parsing_done st -> x_next s3 = x_next st -> x_running s3 = l1 ++ l2 ->
              (x_scan_q s3 = x_scan_q st \/
               (x_scan_q s3 = s' :: x_scan_q st /\ d_bit s < d_bit s' /\ d_bit s' <= 32 * T)) ->
              mlt (measure T K s3) (measure T K st)).
  { intros s3 G1 G2 G3 G4 G5 G6 G7. mstart. unfold c_fail, c_in, c_parse, c_scan.
    rewrite G1, G2, G3, G4, G5, G6, E, sumN_mid. cbn [cscan].
    do 3 (apply lexp_le; [apply N.le_refl|intros _]). apply lexp_lt.
    destruct G7 as [->|(-> & A & B)]; cbn [sumN]; unfold wscan; lia. }
  destruct (negb found || x_parsing_done s2) eqn:NFD.
  { inversion H; subst st'. apply G; unfold give_unit; xs; auto. }
  apply orb_false_iff in NFD. destruct NFD as [FD _]. apply negb_false_iff in FD. specialize (SP FD).
  match type of H with (if ?c then _ else _) = _ => destruct c eqn:C; [|discriminate] end.
  assert (B : d_bit s' <= 32 * T).
  { apply andb_true_iff in C. destruct C as [C _]. apply andb_true_iff in C. destruct C as [C C3].
    apply andb_true_iff in C. destruct C as [C1 _]. unfold dbs_norm in C1. clear - AE HT C1 C3. lia. }
  repeat match type of H with context [if ?c then _ else _] => destruct c end; inversion H; subst st';
    apply G; unfold give_unit; xs; auto; rewrite F6; auto.
Qed.


(* ---- do_parse, second segment ---------------------------------------------------------------------- *)
Ltac ftac2 := unfold add_run, give_unit, fail; xs; autorewrite with xf; xs; auto.

Lemma parse_finish_fields cfg g s :
  x_eof (parse_finish cfg g s) = x_eof s /\ x_tail_offs (parse_finish cfg g s) = x_tail_offs s /\
  x_parsing_done (parse_finish cfg g s) = true /\ c_fail (parse_finish cfg g s) <= c_fail s.
Proof.
  unfold parse_finish, c_fail. set (pb := mkdbs _ _). clearbody pb.
  match goal with |- context [if ?c then _ else _] => destruct c end.
  - ftac2. repeat split; auto. destruct (x_failed s); lia.
  - destruct (c_finish_drops_link cfg); ftac2; repeat split; auto; lia.
Qed.

Lemma parse_ok_fields cfg lv crc s :
  x_failed (parse_ok cfg lv crc s) = x_failed s /\ x_eof (parse_ok cfg lv crc s) = x_eof s /\
  x_tail_offs (parse_ok cfg lv crc s) = x_tail_offs s /\ x_parsing_done (parse_ok cfg lv crc s) = x_parsing_done s /\
  x_next (parse_ok cfg lv crc s) = x_next s.
Proof.
  unfold parse_ok. match goal with |- context [match ?c with Some _ => _ | None => _ end] => destruct c end; [|ftac2].
  match goal with |- context [if ?c then _ else _] => destruct c end; [|ftac2]. destruct (u_complete u); ftac2.
Qed.

Lemma nparse_in att st : In (CParse att) (x_running st) -> (0 < nparse st)%nat.
Proof.
  unfold nparse. induction (x_running st) as [|c r IH]; simpl; [tauto|].
  intros [->|H]; simpl; [lia|]. specialize (IH H). destruct (is_parse c); simpl; lia.
Qed.

Lemma term_parse1 T K cfg att r st st' :
  inv st -> lin st -> x_tail_offs st <= T -> x_failed st = None ->
  ev_prog st (EvParse1 att r) -> ev_term T K st (EvParse1 att r) ->
  parse1 cfg att r st = Some st' -> mlt (measure T K st') (measure T K st).
Proof.
  unfold parse1. intros I L HT NF EP ET H. destruct (del_run (CParse att) st) as [s1|] eqn:D; [|discriminate].
  destruct (del_run_spec _ _ _ D) as (l1 & l2 & E & ->).
  pose proof (att_end_le att st (i_contig _ I) L) as AE. rewrite <- (att_end_running att (l1 ++ l2) st) in AE.
  assert (PD : x_parsing_done st = false).
  { destruct (x_parsing_done st) eqn:PD; auto. destruct (i_done _ I PD) as [Z _].
    pose proof (nparse_in att st) as X. rewrite E in X. specialize (X ltac:(apply in_or_app; right; left; reflexivity)). lia. }
  set (aend := att_end att (set_running (l1 ++ l2) st)) in *. clearbody aend.
  match type of H with (if ?c then _ else _) = _ => destruct c eqn:C; [|discriminate] end.
  assert (B : d_bit (res_bs r) <= 32 * d_off (res_bs r) /\ d_off (res_bs r) <= T).
  { xs in C. unfold dbs_ok in C. clear - C AE HT. lia. }
  clear C.
  set (s3 := advance cfg (res_bs r) (detach att (set_running (l1 ++ l2) st))) in *.
  assert (F : x_failed s3 = None /\ x_eof s3 = x_eof st /\ x_tail_offs s3 = x_tail_offs st /\
              x_parsing_done s3 = false /\ x_next s3 = x_next st /\ x_running s3 = l1 ++ l2 /\
              x_parser_bs s3 = res_bs r /\
              sumN (wscan T) (x_scan_q s3) <= sumN (wscan T) (x_scan_q st) /\
              sumN (wretr T) (x_retr_q s3) <= sumN (wretr T) (x_retr_q st)).
  { subst s3. rewrite advance_pbs. autorewrite with xf. xs. repeat split; auto.
    - eapply N.le_trans; [apply advance_scan_le|]. autorewrite with xf. xs. apply N.le_refl.
    - eapply N.le_trans; [apply advance_retr_le|]. autorewrite with xf. xs. apply N.le_refl. }
  destruct F as (F1 & F2 & F3 & F4 & F5 & F6 & F7 & F8 & F9). clearbody s3. clear I L D AE.
  destruct r as [bs ps|bs g|bs code|bs ps lv crc]; cbn [res_bs] in *.
  - (* MORE *)
    match type of H with (if ?c then _ else _) = _ => destruct c eqn:C; [|discriminate] end.
    inversion H; subst st'; clear H. simpl in ET. mstart.
    unfold c_fail, c_in, c_parse, c_scan, c_retr, c_pbs. xs.
    rewrite F1, F2, F3, F4, F5, F6, F7, NF, PD, E, !sumN_mid. cbn [cscan cretr].
    do 3 (apply lexp_le; [apply N.le_refl|intros _]).
    apply lexp_le; [lia|intros _]. apply lexp_le; [lia|intros _]. apply lexp_lt. lia.
  - (* FINISH *)
    match type of H with (if ?c then _ else _) = _ => destruct c eqn:C; [|discriminate] end.
    inversion H; subst st'; clear H. destruct (parse_finish_fields cfg g s3) as (P1 & P2 & P3 & P4). mstart.
    apply lexp_le; [unfold c_fail in *; rewrite F1 in P4; rewrite NF; exact P4|intros _].
    unfold c_in, c_parse. rewrite P1, P2, P3, F2, F3, PD.
    apply lexp_le; [apply N.le_refl|intros _]. apply lexp_lt. lia.
  - (* error *)
    match type of H with (if ?c then _ else _) = _ => destruct c eqn:C; [discriminate|] end.
    inversion H; subst st'; clear H. mstart. apply lexp_lt. msimp. rewrite NF. lia.
  - (* a block header *)
    match type of H with (if ?c then _ else _) = _ => destruct c eqn:C; [|discriminate] end.
    inversion H; subst st'; clear H.
    destruct (parse_ok_fields cfg lv crc (set_par ps (set_next (d_bit bs) s3))) as (P1 & P2 & P3 & P4 & P5).
    xs in P1. xs in P2. xs in P3. xs in P4. xs in P5. simpl in EP. unfold HDR_MIN in EP. mstart.
    unfold c_fail, c_in, c_parse. rewrite P1, P2, P3, P4, P5, F1, F2, F3, F4, NF, PD.
    do 2 (apply lexp_le; [apply N.le_refl|intros _]). apply lexp_lt. lia.
Qed.


(* ---- do_retrieve, second segment ------------------------------------------------------------------- *)
Lemma term_retr1 T K cfg j att rv cur st st' :
  inv st -> lin st -> x_tail_offs st <= T ->
  retr1 cfg j att rv cur st = Some st' -> mlt (measure T K st') (measure T K st).
Proof.
  unfold retr1. intros I L HT H. destruct (del_run (CRetr j att) st) as [s1|] eqn:D; [|discriminate].
  destruct (del_run_spec _ _ _ D) as (l1 & l2 & E & ->).
  pose proof (att_end_le att st (i_contig _ I) L) as AE. rewrite <- (att_end_running att (l1 ++ l2) st) in AE.
  set (aend := att_end att (set_running (l1 ++ l2) st)) in *. clearbody aend.
  match type of H with (if ?c then _ else _) = _ => destruct c eqn:C; [|discriminate] end.
  assert (B : d_off cur <= T /\ (rv =? MORE = true -> d_off (r_cur j) < d_off cur)).
  { destruct (rv =? MORE); clear - C AE HT; [split; [|intros _]|split; [|discriminate]]; lia. }
  destruct B as [B1 B2]. clear C AE I L D.
  (* what remains to be shown of the final state *)
  assert (G : forall s4, x_failed s4 = x_failed st -> x_eof s4 = x_eof st -> x_tail_offs s4 = x_tail_offs st ->
              x_parsing_done s4 = x_parsing_done st -> x_next s4 = x_next st ->
              c_scan T s4 <= sumN (wscan T) (x_scan_q st) + sumN (cscan T) (l1 ++ l2) ->
              c_retr T s4 < sumN (wretr T) (x_retr_q st) + (wretr T j + sumN (cretr T) (l1 ++ l2)) ->
              mlt (measure T K s4) (measure T K st)).
  { intros s4 G1 G2 G3 G4 G5 G6 G7. mstart. unfold c_fail, c_in, c_parse.
    rewrite G1, G2, G3, G4, G5.
    do 3 (apply lexp_le; [apply N.le_refl|intros _]).
    apply lexp_le; [unfold c_scan at 2; rewrite E, sumN_mid; cbn [cscan]; lia|intros _].
    apply lexp_lt. unfold c_retr at 2. rewrite E, sumN_mid. cbn [cretr]. lia. }
  assert (W : 0 < wretr T j) by (unfold wretr; lia).
  set (s2 := detach att (set_running (l1 ++ l2) st)) in *.
  assert (F : x_failed s2 = x_failed st /\ x_eof s2 = x_eof st /\ x_tail_offs s2 = x_tail_offs st /\
              x_parsing_done s2 = x_parsing_done st /\ x_next s2 = x_next st /\ x_running s2 = l1 ++ l2 /\
              x_scan_q s2 = x_scan_q st /\ x_retr_q s2 = x_retr_q st)
    by (subst s2; autorewrite with xf; xs; auto 10).
  destruct F as (F1 & F2 & F3 & F4 & F5 & F6 & F7 & F8). clearbody s2.
  cbv zeta in H.
  destruct (x_parsing_done s2) eqn:PD2.
  { destruct (c_retr_done_drops_link cfg); inversion H; subst st';
      apply G; unfold c_scan, c_retr, give_unit; xs; rewrite ?F1, ?F2, ?F3, ?F5, ?F6, ?F7, ?F8; auto; lia. }
  match type of H with (if ?c then _ else _) = _ => destruct c end.
  { destruct (c_retr_abort_drops_link cfg); inversion H; subst st';
      apply G; unfold c_scan, c_retr, give_unit; xs; rewrite ?F1, ?F2, ?F3, ?F5, ?F6, ?F7, ?F8; auto; lia. }
  match type of H with context [advance cfg cur s2] => 
    match type of H with context [if ?c then advance cfg cur s2 else ?x] => set (s3 := if c then advance cfg cur s2 else x) in * end end.
  assert (Q : x_failed s3 = x_failed st /\ x_eof s3 = x_eof st /\ x_tail_offs s3 = x_tail_offs st /\
              x_parsing_done s3 = x_parsing_done st /\ x_next s3 = x_next st /\ x_running s3 = l1 ++ l2 /\
              sumN (wscan T) (x_scan_q s3) <= sumN (wscan T) (x_scan_q st) /\
              sumN (wretr T) (x_retr_q s3) <= sumN (wretr T) (x_retr_q st)).
  { subst s3. match goal with |- context [if ?c then _ else _] => destruct c end.
    - autorewrite with xf. repeat split; auto; try congruence.
      + eapply N.le_trans; [apply advance_scan_le|]. rewrite F7. apply N.le_refl.
      + eapply N.le_trans; [apply advance_retr_le|]. rewrite F8. apply N.le_refl.
    - destruct (r_link j); xs; rewrite ?F7, ?F8; repeat split; auto; try congruence; apply N.le_refl. }
  destruct Q as (Q1 & Q2 & Q3 & Q4 & Q5 & Q6 & Q7 & Q8). clearbody s3.
  clear F1 F2 F3 F4 F5 F6 F7 F8 PD2.
  destruct (rv =? MORE) eqn:RV.
  - specialize (B2 eq_refl).
    match type of H with (if ?c then _ else _) = _ => destruct c end.
    + destruct (c_stale_drops_link cfg); inversion H; subst st';
        apply G; unfold c_scan, c_retr, give_unit; xs; rewrite ?Q6; auto; lia.
    + inversion H; subst st'. apply G; unfold c_scan, c_retr; xs; rewrite ?Q6; auto; [lia|].
      cbn [sumN].
      assert (W2 : wretr T (mkrjob (r_base j) cur (r_link j)) < wretr T j) by (unfold wretr; cbn [r_cur]; clear - B1 B2; lia).
      clear - Q8 W2. lia.
  - match type of H with context [add_run _ ?s] => set (s4 := s) in * end.
    assert (R : x_failed s4 = x_failed st /\ x_eof s4 = x_eof st /\ x_tail_offs s4 = x_tail_offs st /\
                x_parsing_done s4 = x_parsing_done st /\ x_next s4 = x_next st /\ x_running s4 = l1 ++ l2 /\
                x_scan_q s4 = x_scan_q s3 /\ x_retr_q s4 = x_retr_q s3).
    { subst s4. match goal with |- context [if ?c then _ else _] => destruct c end; destruct (r_link j); xs; auto 10. }
    destruct R as (R1 & R2 & R3 & R4 & R5 & R6 & R7 & R8). clearbody s4.
    inversion H; subst st'. apply G; unfold c_scan, c_retr, add_run; xs; rewrite ?R6, ?R7, ?R8; auto.
    + cbn [sumN cscan]. lia.
    + cbn [sumN cretr]. lia.
Qed.


(* ---- the reader never delivers more than T words --------------------------------------------------- *)
Lemma tail_step cfg st e st' : step cfg st e = Some st' ->
  match e with
  | EvInput sz _ => x_tail_offs st' = x_tail_offs st \/ x_tail_offs st' = x_tail_offs st + sz
  | _ => x_tail_offs st' = x_tail_offs st
  end.
Proof.
  unfold step. destruct (x_failed st); [discriminate|]. destruct e; intro H.
  - unfold input in H. repeat match type of H with context [if ?c then _ else _] => destruct c end; inversion H; subst; xs; auto.
  - unfold reader_eof in H. destruct (x_eof st); inversion H; ftac2.
  - unfold written in H. destruct (0 <? x_outq st); inversion H; ftac2.
  - unfold parse0 in H. destruct (selects TParse st); [|discriminate].
    match type of H with context [attach ?a ?b] => destruct (attach a b) as [s2 att] eqn:A; assert (s2 = fst (attach a b)) by (rewrite A; auto) end.
    inversion H; subst. ftac2.
  - unfold parse1 in H. destruct (del_run (CParse att) st) as [s1|] eqn:D; [|discriminate].
    destruct (del_run_spec _ _ _ D) as (l1 & l2 & _ & ->).
    match type of H with (if ?c then _ else _) = _ => destruct c; [|discriminate] end.
    destruct r; repeat match type of H with (if ?c then _ else _) = _ => destruct c; try discriminate end; inversion H; subst.
    + ftac2.
    + match goal with |- x_tail_offs (parse_finish ?c ?g ?s) = _ => destruct (parse_finish_fields c g s) as (_ & -> & _) end. ftac2.
    + ftac2.
    + match goal with |- x_tail_offs (parse_ok ?c ?a ?b ?s) = _ => destruct (parse_ok_fields c a b s) as (_ & _ & -> & _) end. ftac2.
  - unfold retr0 in H. destruct (selects TRetrieve st); [|discriminate]. destruct (take_min rjob_eqb rkey j (x_retr_q st)); [|discriminate].
    match type of H with context [attach ?a ?b] => destruct (attach a b) as [s2 att] eqn:A; assert (s2 = fst (attach a b)) by (rewrite A; auto) end.
    inversion H; subst. ftac2.
  - unfold retr1 in H. destruct (del_run (CRetr j att) st) as [s1|] eqn:D; [|discriminate].
    destruct (del_run_spec _ _ _ D) as (l1 & l2 & _ & ->).
    match type of H with (if ?c then _ else _) = _ => destruct c; [|discriminate] end. cbv zeta in H.
    repeat match type of H with context [if ?c then _ else _] => destruct c end; try destruct (r_link j); inversion H; subst; ftac2.
  - unfold retr2 in H. destruct (del_run (CRetr2 e) st) as [s1|] eqn:D; [|discriminate].
    destruct (del_run_spec _ _ _ D) as (l1 & l2 & _ & ->). inversion H; ftac2.
  - unfold emit0 in H. destruct (selects TEmit st); [|discriminate]. destruct (qmin e_base pos_lt (x_emit_q st)); [|discriminate].
    destruct (remove_one ejob_eqb e (x_emit_q st)); inversion H; ftac2.
  - unfold emit1 in H. destruct (del_run (CEmit e) st) as [s1|] eqn:D; [|discriminate].
    destruct (del_run_spec _ _ _ D) as (l1 & l2 & _ & ->).
    repeat match type of H with context [if ?c then _ else _] => destruct c end; inversion H; subst; ftac2.
  - unfold reorder in H. destruct (selects TReorder st); [|discriminate]. destruct (qmin o_base pos_lt (x_reord_q st)); [|discriminate].
    destruct (remove_one oblk_eqb o (x_reord_q st)); [|discriminate]. xs in H. destruct (x_order_q st); [inversion H; ftac2|].
    repeat match type of H with context [if ?c then _ else _] => destruct c end; inversion H; subst; ftac2.
  - unfold scan0 in H. destruct (selects TScan st); [|discriminate]. destruct (qmin d_pos pos_lt (x_scan_q st)); [|discriminate].
    destruct (remove_one dbs_eqb d (x_scan_q st)); [|discriminate].
    match type of H with context [attach ?a ?b] => destruct (attach a b) as [s2 att] eqn:A; assert (s2 = fst (attach a b)) by (rewrite A; auto) end.
    inversion H; subst. ftac2.
  - unfold scan1 in H. destruct (del_run (CScan s att) st) as [s1|] eqn:D; [|discriminate].
    destruct (del_run_spec _ _ _ D) as (l1 & l2 & _ & ->).
    repeat match type of H with context [if ?c then _ else _] => destruct c end; inversion H; subst; ftac2.
Qed.

Lemma treach_tail T K cfg n tin tout ultra st :
  treach T K cfg (init_state n tin tout ultra) st -> x_tail_offs st <= T.
Proof.
  induction 1 as [|st e st' R IH EP ES ET H].
  - simpl. unfold init_tail_offs. lia.
  - pose proof (tail_step _ _ _ _ H) as TS. destruct e; try (rewrite TS; exact IH).
    simpl in ET. destruct TS as [->| ->]; [exact IH|exact ET].
Qed.

(* ---- termination ------------------------------------------------------------------------------------- *)
Theorem terminates_step T K cfg n tin tout ultra st e st' :
  cfg_safe cfg -> cfg_drops cfg -> 0 < n -> treach T K cfg (init_state n tin tout ultra) st ->
  ev_prog st e -> ev_scan_prog e -> ev_term T K st e -> step cfg st e = Some st' -> productive st e = true ->
  mlt (measure T K st') (measure T K st).
Proof.
  intros CS CD Hn R EP ES ET H PR.
  pose proof (treach_tail _ _ _ _ _ _ _ _ R) as HT.
  pose proof (livep_lreach cfg n tin tout ultra st CS CD Hn
                (sreach_lreach cfg n tin tout ultra st CS CD (treach_sreach _ _ _ _ _ R))) as LP.
  pose proof (lv_inv _ LP) as I. pose proof (lv_lin _ LP) as L. clear LP R.
  pose proof (step_not_failed _ _ _ _ H) as NF.
  unfold step in H. rewrite NF in H. destruct e.
  - simpl in PR. apply negb_true_iff in PR. eapply term_input; eauto.
  - eapply term_eof; eauto.
  - eapply term_written; eauto.
  - eapply term_parse0; eauto.
  - eapply term_parse1; eauto.
  - eapply term_retr0; eauto.
  - eapply term_retr1; eauto.
  - eapply term_retr2; eauto.
  - eapply term_emit0; eauto.
  - eapply term_emit1; eauto.
  - eapply term_reorder; eauto.
  - eapply term_scan0; eauto.
  - eapply term_scan1; eauto. simpl in ES. intros ->. exact ES.
Qed.

(* no infinite run of productive events: the relation "st' is a productive successor of the
   reachable state st" is well founded *)
Definition pstep (T K : N) (cfg : xcfg) (s0 : xstate) (st' st : xstate) : Prop :=
  treach T K cfg s0 st /\
  exists e, ev_prog st e /\ ev_scan_prog e /\ ev_term T K st e /\ step cfg st e = Some st' /\ productive st e = true.

Theorem no_infinite_run T K cfg n tin tout ultra :
  cfg_safe cfg -> cfg_drops cfg -> 0 < n -> well_founded (pstep T K cfg (init_state n tin tout ultra)).
Proof.
  intros CS CD Hn.
  apply (wf_incl _ _ (fun a b => mlt (measure T K a) (measure T K b))).
  - intros a b (R & e & EP & ES & ET & H & PR). eapply terminates_step; eauto.
  - apply wf_inverse_image. apply mlt_wf.
Qed.

(* ... and a run that has stopped at a non-failed, non-final state can be continued by a productive
   event (deadlock freedom, XLive.v) *)
Corollary treach_progress T K cfg n tin tout ultra st :
  cfg_safe cfg -> cfg_drops cfg -> 1 <= n -> 1 <= tin -> EMIT_THRESH < tout ->
  treach T K cfg (init_state n tin tout ultra) st -> x_failed st = None -> final st = false ->
  exists e st', step cfg st e = Some st' /\ productive st e = true.
Proof.
  intros CS CD Hn Hi Ho R NF NFIN.
  exact (proj2 (progress_sreach cfg n tin tout ultra st CS CD Hn Hi Ho (treach_sreach _ _ _ _ _ R) NF NFIN)).
Qed.

(* ---- the hypotheses are satisfiable: a complete run --------------------------------------------------- *)
Definition ev_termb (T K : N) (st : xstate) (e : event) : bool :=
  match e with
  | EvInput sz _ => x_tail_offs st + sz <=? T
  | EvParse1 _ (PMore bs _) => d_bit (x_parser_bs st) <? d_bit bs
  | EvEmit1 e rv _ _ _ => negb (rv =? MORE) || (snd (e_base e) <? K)
  | _ => true
  end.

Lemma ev_termb_spec T K st e : ev_termb T K st e = true -> ev_term T K st e.
Proof.
  destruct e; simpl; auto.
  - intro H. apply N.leb_le. exact H.
  - destruct r; simpl; auto. intro H. apply N.ltb_lt. exact H.
  - intros H E. apply orb_true_iff in H. destruct H as [H|H].
    + apply negb_true_iff in H. apply N.eqb_neq in H. contradiction.
    + apply N.ltb_lt. exact H.
Qed.

Fixpoint trun (T K : N) (cfg : xcfg) (st : xstate) (es : list event) : option xstate :=
  match es with
  | [] => Some st
  | e :: r => if ev_progb st e && ev_scan_progb e && ev_termb T K st e
              then match step cfg st e with Some st' => trun T K cfg st' r | None => None end
              else None
  end.

Lemma trun_treach T K cfg s0 es : forall st st', treach T K cfg s0 st -> trun T K cfg st es = Some st' -> treach T K cfg s0 st'.
Proof.
  induction es as [|e r IH]; simpl; intros st st' R H.
  - inversion H; subst. exact R.
  - destruct (ev_progb st e && ev_scan_progb e && ev_termb T K st e) eqn:B; [|discriminate].
    apply andb_true_iff in B. destruct B as [B B3]. apply andb_true_iff in B. destruct B as [B1 B2].
    destruct (step cfg st e) as [s1|] eqn:S; [|discriminate].
    eapply IH; [|exact H]. econstructor; eauto using ev_progb_spec, ev_scan_progb_spec, ev_termb_spec.
Qed.

(* a 6-word input in two blocks: one bzip2 block at bit 40 (its retrieval straddles the input blocks,
   its emission takes two buffers), a bogus candidate at bit 150 found by the scanner and dropped,
   a parse() call that returns MORE, end of input *)
Definition ex_m0 : rjob := mkrjob (40, 0) (mkdbs 40 2) None.
Definition ex_m1 : rjob := mkrjob (40, 0) (mkdbs 128 4) None.
Definition ex_e0 : ejob := mkejob (40, 0) OK 5.
Definition ex_e1 : ejob := mkejob (40, 1) OK 5.
Definition ex_events : list event :=
  [ EvInput 4 0; EvParse0; EvParse1 (Some 0) (POk (mkdbs 40 2) 0 9 0);
    EvRetr0 ex_m0; EvRetr1 ex_m0 (Some 0) MORE (mkdbs 128 4);
    EvInput 2 0; EvRetr0 ex_m1; EvScan0; EvScan1 (mkdbs 128 4) (Some 4) true (mkdbs 150 5) true;
    EvRetr1 ex_m1 (Some 4) OK (mkdbs 150 5); EvRetr2 ex_e0; EvParse0;
    EvEmit0; EvEmit1 ex_e0 MORE 100 0 50; EvReorder; EvWritten;
    EvEmit0; EvEmit1 ex_e1 OK 100 0 50; EvReorder; EvWritten;
    EvParse1 (Some 4) (PMore (mkdbs 192 6) 0); EvEof;
    EvParse0; EvParse1 None (PFinish (mkdbs 192 6) 0) ].

Example term_example :
  exists st, treach 6 1 gen_cfg (init_state 3 8 8 false) st /\ x_failed st = None /\ final st = true.
Proof.
  assert (E : exists s, trun 6 1 gen_cfg (init_state 3 8 8 false) ex_events = Some s /\ x_failed s = None /\ final s = true)
    by (eexists; split; [vm_compute; reflexivity|split; reflexivity]).
  destruct E as (s & RUN & A & B). exists s. split; [|auto]. eapply trun_treach; [constructor|exact RUN].
Qed.

(* the run [tie_events] of XLive.v is a [treach] run too *)
Example term_example_tie : exists st, treach 4 1 gen_cfg (init_state 3 8 8 false) st /\ x_failed st = None /\ final st = false.
Proof.
  assert (E : exists s, trun 4 1 gen_cfg (init_state 3 8 8 false) tie_events = Some s /\ x_failed s = None /\ final s = false)
    by (eexists; split; [vm_compute; reflexivity|split; reflexivity]).
  destruct E as (s & RUN & A & B). exists s. split; [|auto]. eapply trun_treach; [constructor|exact RUN].
Qed.

(* ---- the statements for gen_cfg ------------------------------------------------------------------------ *)
Lemma C11x_terminates_gen T K n tin tout ultra st e st' :
  0 < n -> treach T K gen_cfg (init_state n tin tout ultra) st ->
  ev_prog st e -> ev_scan_prog e -> ev_term T K st e -> step gen_cfg st e = Some st' -> productive st e = true ->
  mlt (measure T K st') (measure T K st).
Proof. apply terminates_step; [exact gen_cfg_safe|exact gen_cfg_drops]. Qed.

Print Assumptions mlt_wf.
Print Assumptions terminates_step.
Print Assumptions no_infinite_run.
Print Assumptions treach_progress.
Print Assumptions term_example.
Print Assumptions C11x_terminates_gen.
