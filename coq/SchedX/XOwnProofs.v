(* Ownership invariant of order_q (XOwn.v): it holds in every non-failed state of a run
   whose POk labels make progress; consequences: capacity of order_q, order_q is empty
   when can_terminate() holds, the head of order_q always has an owner. *)
From Coq Require Import List NArith Bool Lia Arith ZifyBool ZifyN ZifyNat Sorted.
From LBZ Require Import Gen.Consts SchedX.XState Gen.SchedXTab SchedX.XSet SchedX.XModel SchedX.XLemmas
  SchedX.XFrame SchedX.XInvDefs SchedX.XOps SchedX.XInv SchedX.XInv2 SchedX.XInv3 SchedX.XInv4 SchedX.XOracle
  SchedX.XSeq SchedX.XCount SchedX.XC11 SchedX.XOwn SchedX.XOwnAdv SchedX.XOwnRetr.
Import ListNotations.
Local Open Scope N_scope.

Lemma own_init n tin tout ultra : own (init_state n tin tout ultra).
Proof.
  split.
  - constructor; simpl.
    + intros h [].
    + intros o [].
    + intros j [].
    + intros u [].
    + intros u [].
    + intros _. constructor.
    + intros _. apply N.le_refl.
    + intros _. reflexivity.
    + intros u [].
  - constructor; simpl; constructor.
Qed.

Theorem own_step cfg st e st' :
  cfg_safe cfg -> cfg_drops cfg -> x_failed st' = None -> inv st -> own st -> ev_prog st e ->
  step cfg st e = Some st' -> own st'.
Proof.
  intros CS CD NF' I OW EV H. unfold step in H. destruct (x_failed st) eqn:NF; [discriminate|].
  destruct e.
  - eapply own_input; eauto.
  - eapply own_eof; eauto.
  - eapply own_written; eauto.
  - eapply own_parse0; eauto.
  - eapply own_parse1; eauto.
  - eapply own_retr0; eauto.
  - eapply own_retr1; eauto.
  - eapply own_retr2; eauto.
  - eapply own_emit0; eauto.
  - eapply own_emit1; eauto.
  - eapply own_reorder; eauto.
  - eapply own_scan0; eauto.
  - eapply own_scan1; eauto.
Qed.

Lemma step_not_failed cfg st e st' : step cfg st e = Some st' -> x_failed st = None.
Proof. unfold step. destruct (x_failed st); [discriminate|auto]. Qed.

Theorem own_preach cfg n tin tout ultra st :
  cfg_safe cfg -> cfg_drops cfg -> preach cfg (init_state n tin tout ultra) st ->
  inv st /\ (x_failed st = None -> own st).
Proof.
  intros CS CD R. induction R as [|st e st' R [I OW] EV H].
  - split; [apply inv_init|intros _; apply own_init].
  - split; [eapply inv_step; eauto|]. intro NF'. eapply own_step; eauto. apply OW. eapply step_not_failed; eauto.
Qed.

(* ---- counting the owners ------------------------------------------------------------------- *)
Definition is_final (o : oblk) : bool := negb (o_status o =? MORE).
Definition owners (st : xstate) : list N :=
  map (fun j => fst (r_base j)) (filter (jm (x_unords st)) (all_jobs st)) ++
  map (fun e => fst (e_base e)) (estage st) ++
  map (fun o => fst (o_base o)) (filter is_final (x_reord_q st)).

Lemma sorted_lt_nodup l : StronglySorted N.lt l -> NoDup l.
Proof.
  induction 1 as [|a l S IH F]; constructor; auto.
  intro Hin. rewrite Forall_forall in F. specialize (F a Hin). lia.
Qed.

Lemma heads_in_owners st : own st -> incl (map hb (x_order_q st)) (owners st).
Proof.
  intros [OP _] b Hb. apply in_map_iff in Hb. destruct Hb as (h & <- & Hh). unfold owners.
  destruct (o_heads _ _ _ OP h Hh) as [[_ (j & J1 & J2 & J3)]|[(e & E1 & E2 & _)|(o & O1 & O2 & O3 & _)]].
  - apply in_or_app. left. apply in_map_iff. exists j. split; auto. apply filter_In. auto.
  - apply in_or_app. right. apply in_or_app. left. apply in_map_iff. exists e. auto.
  - apply in_or_app. right. apply in_or_app. right. apply in_map_iff. exists o. split; auto. apply filter_In. split; auto.
    unfold is_final. apply negb_true_iff. apply N.eqb_neq. exact O2.
Qed.

Lemma order_le_owners st : own st -> (length (x_order_q st) <= length (owners st))%nat.
Proof.
  intro OW. rewrite <- (map_length hb). apply NoDup_incl_length; [|apply heads_in_owners; auto].
  apply sorted_lt_nodup. apply OW.
Qed.

Lemma run_lists_len r : (length (run_jobs r) + length (run_ejobs r) <= length r)%nat.
Proof.
  induction r as [|c r IH]; simpl; auto. rewrite !app_length. destruct c; simpl; lia.
Qed.

Lemma owners_le_held st : N.of_nat (length (owners st)) <= units_held st + N.of_nat (length (x_reord_q st)).
Proof.
  unfold owners, units_held, estage, all_jobs. rewrite !app_length, !map_length, app_length.
  pose proof (filter_split_len (jm (x_unords st)) (x_retr_q st ++ run_jobs (x_running st))) as F1.
  pose proof (filter_split_len is_final (x_reord_q st)) as F2. rewrite app_length in F1.
  pose proof (run_lists_len (x_running st)). lia.
Qed.

(* capacity of order_q: deque_init(order_q, work_units + out_slots) *)
Theorem order_q_capacity cfg n tin tout ultra st :
  cfg_safe cfg -> cfg_drops cfg -> preach cfg (init_state n tin tout ultra) st -> x_failed st = None ->
  N.of_nat (length (x_order_q st)) <= cap_order_q (x_total_in st) (x_num_worker st) (x_total_out st).
Proof.
  intros CS CD R NF. destruct (own_preach _ _ _ _ _ _ CS CD R) as [_ OW]. specialize (OW NF).
  pose proof (order_le_owners st OW) as L1. pose proof (owners_le_held st) as L2.
  destruct (cnt_reach _ _ _ _ _ _ (preach_reach _ _ _ R)) as [KU KS _]. specialize (KU NF). specialize (KS NF).
  unfold cap_order_q, slots_held in *. lia.
Qed.

(* when the workers may exit nothing is left in the order: the run has completed *)
Theorem terminate_order_empty cfg n tin tout ultra st :
  cfg_safe cfg -> cfg_drops cfg -> preach cfg (init_state n tin tout ultra) st -> x_failed st = None ->
  can_terminate st = true -> x_order_q st = [].
Proof.
  intros CS CD R NF T. destruct (own_preach _ _ _ _ _ _ CS CD R) as [_ OW]. specialize (OW NF).
  pose proof (order_le_owners st OW) as L1. pose proof (owners_le_held st) as L2.
  destruct (cnt_reach _ _ _ _ _ _ (preach_reach _ _ _ R)) as [KU KS _]. specialize (KU NF). specialize (KS NF).
  unfold can_terminate in T. repeat (apply andb_true_iff in T; destruct T as [T ?]).
  unfold slots_held in *.
  assert (length (x_order_q st) = 0)%nat by lia. apply length_zero_iff_nil. assumption.
Qed.

(* the head of the order always has an owner: the master retriever of its block, an
   emit-stage job of its block that has not yet passed it, or the block's last buffer *)
Theorem order_head_owned cfg n tin tout ultra st h rest :
  cfg_safe cfg -> cfg_drops cfg -> preach cfg (init_state n tin tout ultra) st -> x_failed st = None ->
  x_order_q st = h :: rest ->
  (snd (h_base h) = 0 /\ exists j, In j (all_jobs st) /\ jm (x_unords st) j = true /\ fst (r_base j) = fst (h_base h)) \/
  (exists e, In e (estage st) /\ fst (e_base e) = fst (h_base h) /\ snd (h_base h) <= snd (e_base e)) \/
  (exists o, In o (x_reord_q st) /\ o_status o <> MORE /\ fst (o_base o) = fst (h_base h) /\ snd (h_base h) <= snd (o_base o)).
Proof.
  intros CS CD R NF OQ. destruct (own_preach _ _ _ _ _ _ CS CD R) as [_ OW]. destruct (OW NF) as [OP _].
  assert (Hh : In h (x_order_q st)) by (rewrite OQ; left; auto).
  destruct (o_heads _ _ _ OP h Hh) as [[Z M]|[L|L]]; [left; split; auto|right; left; auto|right; right; auto].
Qed.

(* every buffer with status MORE that waits in reord_q is followed by its block's emit job
   or last buffer *)
Theorem more_buffer_followed cfg n tin tout ultra st o :
  cfg_safe cfg -> cfg_drops cfg -> preach cfg (init_state n tin tout ultra) st -> x_failed st = None ->
  In o (x_reord_q st) -> o_status o = MORE -> la st (fst (o_base o)) (snd (o_base o) + 1).
Proof.
  intros CS CD R NF Ho S. destruct (own_preach _ _ _ _ _ _ CS CD R) as [_ OW]. destruct (OW NF) as [OP _].
  apply (o_more _ _ _ OP); auto.
Qed.

(* ---- the unord_blk records ------------------------------------------------------------------ *)
(* every record outside unord_q is referenced by a retrieve job, and no two by the same one *)
Definition link_ids (js : list rjob) : list N :=
  flat_map (fun j => match r_link j with Some id => [id] | None => [] end) js.

Lemma link_ids_len js : (length (link_ids js) <= length js)%nat.
Proof. induction js as [|j r IH]; simpl; auto. rewrite app_length. destruct (r_link j); simpl; lia. Qed.

Lemma link_ids_in js j id : In j js -> r_link j = Some id -> In id (link_ids js).
Proof. intros Hj L. unfold link_ids. apply in_flat_map. exists j. split; auto. rewrite L. left. auto. Qed.

Theorem unord_records_bound cfg n tin tout ultra st :
  cfg_safe cfg -> cfg_drops cfg -> preach cfg (init_state n tin tout ultra) st -> x_failed st = None ->
  (length (x_unords st) <= length (unord_q st) + length (all_jobs st))%nat.
Proof.
  intros CS CD R NF. destruct (own_preach _ _ _ _ _ _ CS CD R) as [IV OW]. destruct (OW NF) as [OP _].
  pose proof (filter_split_len u_inq (x_unords st)) as SP. unfold unord_q.
  assert (L : (length (filter (fun u => negb (u_inq u)) (x_unords st)) <= length (all_jobs st))%nat).
  { eapply Nat.le_trans; [|apply link_ids_len]. rewrite <- (map_length u_id).
    apply NoDup_incl_length.
    - apply nodup_map_filter. apply IV.
    - intros id Hid. apply in_map_iff in Hid. destruct Hid as (u & <- & Hu). apply filter_In in Hu. destruct Hu as [Hu Qu].
      apply negb_true_iff in Qu. destruct (o_u3 _ _ _ OP u Hu Qu) as (j & J1 & J2). eapply link_ids_in; eauto. }
  lia.
Qed.
