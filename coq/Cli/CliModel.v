(* Cli/CliModel.v - executable model of option processing in /repo/src/main.c
   (opts_setup(), xstrtol(), opts_outmode(), opts_decompress(), and the statements
   main() executes between opts_setup() and the operand loop).

   Everything that is *data* in the C code is not restated here: it is regenerated
   from the source into Gen/CliTab.v (ev_name, envsep, the invocation-name
   chain, the long-option strcmp chain, the short-option switch, the unit suffix
   string, the initial values, main()'s post-setup statements) as uninterpreted
   statement triples; this file gives them a meaning (compile_stmt, classify_short, classify_long),
   and models by hand what is code: the argument loop, the cluster loop, the
   option-argument handling of -n/-m, xstrtol, the two opts_* helpers, the
   finalisation at the end of opts_setup().

   Shape of the argument loop: the C loop walks a linked list and, for -n/-m without
   attached value, consumes the next list element inside the same iteration.  Here
   the loop is a left fold of [step] whose state remembers a pending option argument
   ([l_want]); the two are the same function of the argument list.  `fail()`
   (immediate exit 1) is the absorbing [l_err]; AS_USAGE / AS_VERSION leave the loop
   and are absorbing too; AS_STOP turns every later argument into an operand.

   Platform assumptions (LP64 Linux/glibc, C locale): long is 64 bit, uintmax_t and
   size_t are 64 bit, unsigned is 32 bit, sysconf(_SC_THREAD_THREADS_MAX) = -1.
   Strings are Coq [string]s (no NUL inside, as for real argv/environment strings);
   the character '\0' that ends a cluster in C is the lookup of code 0. *)
From Coq Require Import List NArith Bool String Ascii.
From LBZ Require Import Gen.CliTab.
Import ListNotations.
Local Open Scope string_scope.
Local Open Scope N_scope.
Local Open Scope list_scope.

Definition code (c : ascii) : N := N_of_ascii c.

(* ---------------------------------------------------------------- platform *)
Definition UINTMAX_MAX : N := 18446744073709551615.
Definition SIZE_MAX : N := 18446744073709551615.
Definition LONG_MAX : N := 9223372036854775807.
Definition UINT_MAX : N := 4294967295.
(* mx_worker = min(sysconf(_SC_THREAD_THREADS_MAX) [= (uintmax_t)-1 on glibc],
                   min(UINT_MAX, SIZE_MAX / sizeof(pthread_t))) *)
Definition MX_WORKER : N := UINT_MAX.

(* ---------------------------------------------------------------- strings *)
Fixpoint mem_char (c : ascii) (s : string) : bool :=
  match s with
  | EmptyString => false
  | String d r => Ascii.eqb c d || mem_char c r
  end.

Fixpoint index_of (c : ascii) (s : string) : option N :=
  match s with
  | EmptyString => None
  | String d r => if Ascii.eqb c d then Some 0 else option_map N.succ (index_of c r)
  end.

Definition slen (s : string) : N := N.of_nat (String.length s).

Fixpoint mem_str (x : string) (l : list string) : bool :=
  match l with
  | [] => false
  | y :: r => String.eqb x y || mem_str x r
  end.

Fixpoint mem_N (x : N) (l : list N) : bool :=
  match l with
  | [] => false
  | y :: r => N.eqb x y || mem_N x r
  end.

(* strtok(v, sep) repeated until NULL: maximal runs of non-separator characters *)
Fixpoint tokens (sep s : string) : list string :=
  match s with
  | EmptyString => []
  | String c r =>
      if mem_char c sep then tokens sep r
      else match r with
           | EmptyString => [String c EmptyString]
           | String c' _ =>
               if mem_char c' sep then String c EmptyString :: tokens sep r
               else match tokens sep r with
                    | t :: ts => String c t :: ts
                    | [] => [String c EmptyString]
                    end
           end
  end.

(* pname = strrchr(argv[0], '/') ? that + 1 : argv[0] *)
Fixpoint basename (s : string) : string :=
  match s with
  | EmptyString => EmptyString
  | String c r => if mem_char "/" r then basename r else if Ascii.eqb c "/" then r else s
  end.

Fixpoint parse_dec_aux (s : string) (acc : N) : option N :=
  match s with
  | EmptyString => Some acc
  | String c r => let k := code c in
                  if (48 <=? k) && (k <=? 57) then parse_dec_aux r (10 * acc + (k - 48)) else None
  end.
Definition parse_dec (s : string) : option N :=
  match s with EmptyString => None | _ => parse_dec_aux s 0 end.

(* ---------------------------------------------------------------- xstrtol *)
Definition isspace (c : ascii) : bool :=
  let k := code c in ((9 <=? k) && (k <=? 13)) || (k =? 32).
Definition isdigit (c : ascii) : bool :=
  let k := code c in (48 <=? k) && (k <? 48 + N.min xstrtol_base 10).

Fixpoint skip_space (s : string) : string :=
  match s with
  | String c r => if isspace c then skip_space r else s
  | EmptyString => s
  end.

Fixpoint digits (s : string) (acc : N) : N * string :=
  match s with
  | String c r => if isdigit c then digits r (xstrtol_base * acc + (code c - 48)) else (acc, s)
  | EmptyString => (acc, s)
  end.

Definition starts_digit (s : string) : bool :=
  match s with String c _ => isdigit c | EmptyString => false end.

(* strtol(str, &endptr, base) followed by the test `0 != errno || tmp < 0`:
   None = rejected by that test, Some (tmp, rest-from-endptr) otherwise.  With no
   digits strtol converts nothing: tmp = 0 and endptr = str. *)
Definition strtol_nonneg (str : string) : option (N * string) :=
  let s1 := skip_space str in
  let '(neg, s2) := match s1 with
                    | String c r => if Ascii.eqb c "-" then (true, r)
                                    else if Ascii.eqb c "+" then (false, r) else (false, s1)
                    | EmptyString => (false, s1)
                    end in
  if starts_digit s2 then
    let '(v, rest) := digits s2 0 in
    if neg then (if v =? 0 then Some (0, rest) else None)
    else if LONG_MAX <? v then None else Some (v, rest)
  else Some (0, str).

Definition xstrtol (str : string) (lower upper : N) : option N :=
  match str with
  | EmptyString => None
  | _ =>
    if negb (xstrtol_base <=? 10) then None else
    match strtol_nonneg str with
    | None => None
    | Some (v, rest) =>
      match rest with
      | String _ (String _ _) => None                 (* endptr[0] != 0 && endptr[1] != 0 *)
      | _ =>
        let idx := match rest with
                   | EmptyString => Some (slen xstrtol_suffix)   (* strchr finds the terminator *)
                   | String c _ => index_of c xstrtol_suffix
                   end in
        match idx with
        | None => None
        | Some i =>
          let shift := ((slen xstrtol_suffix - i + 1) / 2) * 10 in
          if N.shiftr UINTMAX_MAX shift <? v then None else
          let val := N.shiftl v shift in
          if (val <? lower) || (upper <? val) then None else Some val
        end
      end
    end
  end.

(* ---------------------------------------------------------------- configuration *)
Inductive outmode := OM_STDOUT | OM_DISCARD | OM_REGF.
Inductive astate := AS_CONTINUE | AS_STOP | AS_USAGE | AS_VERSION.
Inductive boolvar := BDecompress | BForce | BKeep | BVerbose | BCctrs | BSmall | BUltra.
Inductive argvar := VNumWorker | VMaxMem.

Record config := mkConfig {
  c_decompress : bool;      (* -d *)
  c_outmode : outmode;      (* -c / -t *)
  c_bs100k : N;             (* -1 .. -9 *)
  c_force : bool;           (* -f *)
  c_keep : bool;            (* -k *)
  c_verbose : bool;         (* -v *)
  c_cctrs : bool;           (* -S *)
  c_small : bool;           (* -s *)
  c_ultra : bool;           (* -u *)
  c_num_worker : N;         (* -n, 0 = not given (number of online processors is used) *)
  c_max_mem : N             (* -m, 0 = not given *)
}.

Definition set_outmode (m : outmode) (c : config) : config :=
  mkConfig (c_decompress c) m (c_bs100k c) (c_force c) (c_keep c) (c_verbose c) (c_cctrs c)
           (c_small c) (c_ultra c) (c_num_worker c) (c_max_mem c).
Definition set_bs100k (n : N) (c : config) : config :=
  mkConfig (c_decompress c) (c_outmode c) n (c_force c) (c_keep c) (c_verbose c) (c_cctrs c)
           (c_small c) (c_ultra c) (c_num_worker c) (c_max_mem c).
Definition set_bool (v : boolvar) (b : bool) (c : config) : config :=
  match v with
  | BDecompress => mkConfig b (c_outmode c) (c_bs100k c) (c_force c) (c_keep c) (c_verbose c) (c_cctrs c) (c_small c) (c_ultra c) (c_num_worker c) (c_max_mem c)
  | BForce => mkConfig (c_decompress c) (c_outmode c) (c_bs100k c) b (c_keep c) (c_verbose c) (c_cctrs c) (c_small c) (c_ultra c) (c_num_worker c) (c_max_mem c)
  | BKeep => mkConfig (c_decompress c) (c_outmode c) (c_bs100k c) (c_force c) b (c_verbose c) (c_cctrs c) (c_small c) (c_ultra c) (c_num_worker c) (c_max_mem c)
  | BVerbose => mkConfig (c_decompress c) (c_outmode c) (c_bs100k c) (c_force c) (c_keep c) b (c_cctrs c) (c_small c) (c_ultra c) (c_num_worker c) (c_max_mem c)
  | BCctrs => mkConfig (c_decompress c) (c_outmode c) (c_bs100k c) (c_force c) (c_keep c) (c_verbose c) b (c_small c) (c_ultra c) (c_num_worker c) (c_max_mem c)
  | BSmall => mkConfig (c_decompress c) (c_outmode c) (c_bs100k c) (c_force c) (c_keep c) (c_verbose c) (c_cctrs c) b (c_ultra c) (c_num_worker c) (c_max_mem c)
  | BUltra => mkConfig (c_decompress c) (c_outmode c) (c_bs100k c) (c_force c) (c_keep c) (c_verbose c) (c_cctrs c) (c_small c) b (c_num_worker c) (c_max_mem c)
  end.
Definition set_argvar (v : argvar) (n : N) (c : config) : config :=
  match v with
  | VNumWorker => mkConfig (c_decompress c) (c_outmode c) (c_bs100k c) (c_force c) (c_keep c) (c_verbose c) (c_cctrs c) (c_small c) (c_ultra c) n (c_max_mem c)
  | VMaxMem => mkConfig (c_decompress c) (c_outmode c) (c_bs100k c) (c_force c) (c_keep c) (c_verbose c) (c_cctrs c) (c_small c) (c_ultra c) (c_num_worker c) n
  end.

(* ---------------------------------------------------------------- meaning of the transcribed statements *)
Inductive argsrc := ALit (c : N) | AOpt.   (* 'c' literal / the variable opt *)

Inductive prim :=
| PSetBool (v : boolvar) (b : bool)      (* force = 1; *)
| PSetBs (n : N)                         (* bs100k = 1; *)
| PSetBsOpt                              (* bs100k = opt - '0'; *)
| PSetOutmode (m : outmode)              (* outmode = OM_STDOUT; *)
| PCallOutmode (a : argsrc)              (* opts_outmode(..); *)
| PCallDecompress (a : argsrc)           (* opts_decompress(..); *)
| PSetState (st : astate)                (* args_state = AS_..; *)
| PCont0                                 (* cont = 0; *)
| POptArg (v : argvar) (lo hi : N)       (* the -n/-m body *)
| PFail.                                 (* fail(..); *)

Definition stmt := (string * string * string)%type.

Definition outmode_of_name (s : string) : option outmode :=
  if String.eqb s "OM_STDOUT" then Some OM_STDOUT
  else if String.eqb s "OM_DISCARD" then Some OM_DISCARD
  else if String.eqb s "OM_REGF" then Some OM_REGF else None.

Definition astate_of_name (s : string) : option astate :=
  if String.eqb s "AS_CONTINUE" then Some AS_CONTINUE
  else if String.eqb s "AS_STOP" then Some AS_STOP
  else if String.eqb s "AS_USAGE" then Some AS_USAGE
  else if String.eqb s "AS_VERSION" then Some AS_VERSION else None.

Definition boolvar_of_name (s : string) : option boolvar :=
  if String.eqb s "decompress" then Some BDecompress
  else if String.eqb s "force" then Some BForce
  else if String.eqb s "keep" then Some BKeep
  else if String.eqb s "verbose" then Some BVerbose
  else if String.eqb s "print_cctrs" then Some BCctrs
  else if String.eqb s "small" then Some BSmall
  else if String.eqb s "ultra" then Some BUltra else None.

Definition bool_of_lit (s : string) : option bool :=
  if String.eqb s "1" then Some true else if String.eqb s "0" then Some false else None.

Definition argsrc_of (s : string) : option argsrc :=
  if String.eqb s "opt" then Some AOpt
  else match s with
       | String q1 (String c (String q2 EmptyString)) =>
           if Ascii.eqb q1 "'" && Ascii.eqb q2 "'" then Some (ALit (code c)) else None
       | _ => None
       end.

Definition bound_of (s : string) : option N :=
  if String.eqb s "mx_worker" then Some MX_WORKER
  else if String.eqb s "SIZE_MAX" then Some SIZE_MAX else parse_dec s.

Fixpoint split_comma (s : string) : string * option string :=
  match s with
  | EmptyString => (EmptyString, None)
  | String c r => if Ascii.eqb c "," then (EmptyString, Some r)
                  else let '(a, b) := split_comma r in (String c a, b)
  end.

Definition compile_stmt (t : stmt) : option prim :=
  let '(kind, a, b) := t in
  if String.eqb kind "set" then
    if String.eqb a "bs100k" then
      (if String.eqb b "opt-'0'" then Some PSetBsOpt else option_map PSetBs (parse_dec b))
    else if String.eqb a "outmode" then option_map PSetOutmode (outmode_of_name b)
    else if String.eqb a "args_state" then option_map PSetState (astate_of_name b)
    else if String.eqb a "cont" then (if String.eqb b "0" then Some PCont0 else None)
    else match boolvar_of_name a, bool_of_lit b with
         | Some v, Some bb => Some (PSetBool v bb)
         | _, _ => None
         end
  else if String.eqb kind "call" then
    if String.eqb a "opts_outmode" then option_map PCallOutmode (argsrc_of b)
    else if String.eqb a "opts_decompress" then option_map PCallDecompress (argsrc_of b)
    else None
  else if String.eqb kind "fail" then Some PFail
  else if String.eqb kind "optarg" then
    match (if String.eqb a "num_worker" then Some VNumWorker
           else if String.eqb a "max_mem" then Some VMaxMem else None),
          split_comma b with
    | Some v, (lo, Some hi) =>
        match bound_of lo, bound_of hi with
        | Some l, Some h => Some (POptArg v l h)
        | _, _ => None
        end
    | _, _ => None
    end
  else None.

Fixpoint compile (l : list stmt) : option (list prim) :=
  match l with
  | [] => Some []
  | t :: r => match compile_stmt t, compile r with
              | Some p, Some ps => Some (p :: ps)
              | _, _ => None
              end
  end.

(* What a rule does, by the shape of its statement list.  KGap = a shape this model
   gives no meaning to (distinct from every real outcome; see EModelGap). *)
Inductive kind :=
| KEnd                                    (* cont = 0;                       (the '\0' case) *)
| KStop (st : astate)                     (* args_state = ..; [cont = 0;]    *)
| KAct (ps : list prim)                   (* assignments / opts_* calls only *)
| KOptArg (v : argvar) (lo hi : N)
| KFail
| KGap.

Definition is_effect (p : prim) : bool :=
  match p with
  | PSetBool _ _ | PSetBs _ | PSetBsOpt | PSetOutmode _ | PCallOutmode _ | PCallDecompress _ => true
  | _ => false
  end.

Definition uses_opt (p : prim) : bool :=
  match p with
  | PSetBsOpt | PCallOutmode AOpt | PCallDecompress AOpt => true
  | _ => false
  end.

Definition classify_short (ps : list prim) : kind :=
  match ps with
  | [PCont0] => KEnd
  | [PSetState AS_USAGE; PCont0] => KStop AS_USAGE
  | [PSetState AS_VERSION; PCont0] => KStop AS_VERSION
  | [POptArg v lo hi] => KOptArg v lo hi
  | [PFail] => KFail
  | _ => if forallb is_effect ps then KAct ps else KGap
  end.

Definition classify_long (ps : list prim) : kind :=
  match ps with
  | [PSetState AS_STOP] => KStop AS_STOP
  | [PSetState AS_USAGE] => KStop AS_USAGE
  | [PSetState AS_VERSION] => KStop AS_VERSION
  | [PFail] => KFail
  | _ => if forallb (fun p => is_effect p && negb (uses_opt p)) ps then KAct ps else KGap
  end.

Definition kind_of (cl : list prim -> kind) (l : list stmt) : kind :=
  match compile l with Some ps => cl ps | None => KGap end.

Fixpoint find_rule {A} (mem : A -> list A -> bool) (x : A) (rules : list (list A * list stmt)) : option (list stmt) :=
  match rules with
  | [] => None
  | (keys, st) :: r => if mem x keys then Some st else find_rule mem x r
  end.

(* switch (opt) *)
Definition short_kind (k : N) : kind :=
  match find_rule mem_N k short_rules with
  | Some st => kind_of classify_short st
  | None => kind_of classify_short short_default
  end.

(* the strcmp chain on the text after "--" *)
Definition long_kind (r : string) : kind :=
  match find_rule mem_str r long_rules with
  | Some st => kind_of classify_long st
  | None => if mem_str r long_ignored then KAct [] else kind_of classify_long long_else
  end.

(* ---------------------------------------------------------------- opts_outmode / opts_decompress *)
(* NDEBUG build: the asserts on ch are compiled out; any ch other than 'c' behaves like 't'
   in opts_outmode, any ch other than 'd' like 'z' in opts_decompress. *)
Definition opts_outmode (ch : N) (c : config) : option config :=    (* None: "-c and -t are incompatible" *)
  let clash := match c_outmode c with
               | OM_DISCARD => ch =? 99
               | OM_STDOUT => negb (ch =? 99)
               | OM_REGF => false
               end in
  if clash then None
  else if ch =? 99 then Some (set_outmode OM_STDOUT c)
  else Some (set_bool BDecompress true (set_outmode OM_DISCARD c)).

Definition opts_decompress (ch : N) (c : config) : config :=
  let c1 := set_bool BDecompress (ch =? 100) c in
  match c_outmode c1 with
  | OM_DISCARD => set_outmode OM_REGF c1
  | _ => c1
  end.

Definition arg_char (opt : N) (a : argsrc) : N :=
  match a with ALit c => c | AOpt => opt end.

Definition exec_effect (opt : N) (p : prim) (c : config) : option config :=
  match p with
  | PSetBool v b => Some (set_bool v b c)
  | PSetBs n => Some (set_bs100k n c)
  | PSetBsOpt => Some (set_bs100k ((opt + 4294967296 - 48) mod 4294967296) c)   (* unsigned = int - '0' *)
  | PSetOutmode m => Some (set_outmode m c)
  | PCallOutmode a => opts_outmode (arg_char opt a) c
  | PCallDecompress a => Some (opts_decompress (arg_char opt a) c)
  | _ => Some c
  end.

Fixpoint exec_effects (opt : N) (ps : list prim) (c : config) : option config :=
  match ps with
  | [] => Some c
  | p :: r => match exec_effect opt p c with
              | Some c' => exec_effects opt r c'
              | None => None
              end
  end.

(* ---------------------------------------------------------------- the argument loop *)
Inductive error :=
| EIncompat                      (* "-c" and "-t" are incompatible *)
| EUnknownShort (k : N)          (* unknown option "-%c" *)
| EUnknownLong (a : string)      (* unknown option "%s" *)
| EMissingArg (k : N)            (* option "-%.1s" requires an argument *)
| EBadArg (k : N) (v : string)   (* failed to parse "%s" from "-%c" as an integer in [..] *)
| ETtyIn                         (* won't read compressed data from a terminal *)
| ETtyOut                        (* won't write compressed data to a terminal *)
| EModelGap.                     (* the source has a construct this model gives no meaning to *)

Definition want := (N * argvar * N * N)%type.

Record lstate := mkL {
  l_cfg : config;
  l_as : astate;
  l_want : option want;          (* -n/-m seen at the end of a cluster: next argument is its value *)
  l_err : option error;          (* fail() was called *)
  l_ops : list string            (* operands kept so far, in order *)
}.

Definition set_cfg (c : config) (s : lstate) := mkL c (l_as s) (l_want s) (l_err s) (l_ops s).
Definition set_as (a : astate) (s : lstate) := mkL (l_cfg s) a (l_want s) (l_err s) (l_ops s).
Definition set_want (w : option want) (s : lstate) := mkL (l_cfg s) (l_as s) w (l_err s) (l_ops s).
Definition set_err (e : error) (s : lstate) := mkL (l_cfg s) (l_as s) None (Some e) (l_ops s).
Definition push_op (a : string) (s : lstate) := mkL (l_cfg s) (l_as s) (l_want s) (l_err s) (l_ops s ++ [a]).

Definition do_optarg (w : want) (a : string) (s : lstate) : lstate :=
  let '(k, v, lo, hi) := w in
  match xstrtol a lo hi with
  | Some n => set_cfg (set_argvar v n (l_cfg s)) s
  | None => set_err (EBadArg k a) s
  end.

Definition do_effects (opt : N) (ps : list prim) (s : lstate) : lstate :=
  match exec_effects opt ps (l_cfg s) with
  | Some c => set_cfg c s
  | None => set_err EIncompat s
  end.

(* the do { switch (opt = *argscan) ..; ++argscan; } while (cont) loop; [str] is the text
   from argscan on *)
Fixpoint cluster (str : string) (s : lstate) : lstate :=
  match str with
  | EmptyString =>
      match short_kind 0 with
      | KEnd => s
      | KFail => set_err (EUnknownShort 0) s
      | _ => set_err EModelGap s        (* the C loop would run past the terminator *)
      end
  | String c rest =>
      let k := code c in
      match short_kind k with
      | KEnd => s
      | KStop st => set_as st s
      | KAct ps =>
          match exec_effects k ps (l_cfg s) with
          | Some c' => cluster rest (set_cfg c' s)
          | None => set_err EIncompat s
          end
      | KOptArg v lo hi =>
          match rest with
          | EmptyString => set_want (Some (k, v, lo, hi)) s
          | _ => do_optarg (k, v, lo, hi) rest s
          end
      | KFail => set_err (EUnknownShort k) s
      | KGap => set_err EModelGap s
      end
  end.

Definition do_long (r a : string) (s : lstate) : lstate :=
  match long_kind r with
  | KStop st => set_as st s
  | KAct ps => do_effects 0 ps s
  | KFail => set_err (EUnknownLong a) s
  | _ => set_err EModelGap s
  end.

Definition halted (s : lstate) : bool :=
  match l_err s, l_as s with
  | Some _, _ => true
  | None, AS_USAGE => true
  | None, AS_VERSION => true
  | None, _ => false
  end.

(* one element of the homogeneous argument list *)
Definition step (s : lstate) (a : string) : lstate :=
  if halted s then s else
  match l_as s with
  | AS_STOP => push_op a s
  | _ =>
    match l_want s with
    | Some w => do_optarg w a (set_want None s)
    | None =>
        match a with
        | String c1 r1 =>
            if Ascii.eqb c1 "-" then
              match r1 with
              | String c2 r2 => if Ascii.eqb c2 "-" then do_long r2 a s else cluster r1 s
              | EmptyString => cluster r1 s
              end
            else push_op a s
        | EmptyString => push_op a s
        end
    end
  end.

Inductive outcome :=
| Run (c : config) (operands : list string)
| Usage                          (* usage text on stdout, exit 0 *)
| Version                        (* version/licence text on stdout, exit 0 *)
| Fatal (e : error).             (* message on stderr, exit 1 *)

Definition is_stdout (m : outmode) : bool := match m with OM_STDOUT => true | _ => false end.

(* end of the loop, usage()/version(), "Finalize options" *)
Definition finalize (tty_in tty_out : bool) (s : lstate) : outcome :=
  match l_err s with
  | Some e => Fatal e
  | None =>
    match l_want s with
    | Some (k, _, _, _) => Fatal (EMissingArg k)
    | None =>
      match l_as s with
      | AS_USAGE => Usage
      | AS_VERSION => Version
      | _ =>
        let c0 := l_cfg s in
        let c := match c_outmode c0, l_ops s with
                 | OM_REGF, [] => set_outmode OM_STDOUT c0
                 | _, _ => c0
                 end in
        if c_decompress c then
          match l_ops s with
          | [] => if tty_in then Fatal ETtyIn else Run c (l_ops s)
          | _ => Run c (l_ops s)
          end
        else if is_stdout (c_outmode c) && tty_out then Fatal ETtyOut
        else Run c (l_ops s)
      end
    end
  end.

(* static initialisers + "Effectuate option defaults" *)
Definition init_config : option config :=
  match outmode_of_name init_outmode with
  | Some m => Some (mkConfig false m init_bs100k false false false false false false 0 0)
  | None => None
  end.

Definition plain_assign (p : prim) : bool :=
  match p with PSetBool _ _ | PSetBs _ | PSetOutmode _ => true | _ => false end.

Definition name_prims (pname : string) : option (list prim) :=
  match find_rule mem_str pname name_rules with
  | Some st => match compile st with
               | Some ps => if forallb plain_assign ps then Some ps else None
               | None => None
               end
  | None => Some []
  end.

Definition init_state (pname : string) : option lstate :=
  match init_config, name_prims pname with
  | Some c, Some ps =>
      match exec_effects 0 ps c with
      | Some c' => Some (mkL c' AS_CONTINUE None None [])
      | None => None
      end
  | _, _ => None
  end.

Definition opts_setup (pname : string) (args : list string) (tty_in tty_out : bool) : outcome :=
  match init_state pname with
  | Some s0 => finalize tty_in tty_out (fold_left step args s0)
  | None => Fatal EModelGap
  end.

(* main() between opts_setup() and the operand loop (currently: small = 0;) *)
Definition effective (o : outcome) : outcome :=
  match o with
  | Run c ops =>
      match compile post_setup with
      | Some ps => if forallb plain_assign ps then
                     match exec_effects 0 ps c with
                     | Some c' => Run c' ops
                     | None => Fatal EModelGap
                     end
                   else Fatal EModelGap
      | None => Fatal EModelGap
      end
  | _ => o
  end.

(* the environment: value of a variable, if set *)
Definition environ := string -> option string.
Definition no_env : environ := fun _ => None.

Definition env_tokens (env : environ) : list string :=
  flat_map (fun nm => match env nm with Some v => tokens envsep v | None => [] end) ev_name.

(* everything from process start to the first operand being opened *)
Definition parse_cli (pname : string) (env : environ) (argv : list string) (tty_in tty_out : bool) : outcome :=
  effective (opts_setup pname (if env_before_argv then env_tokens env ++ argv else argv ++ env_tokens env) tty_in tty_out).

(* argv[0] as given to exec *)
Definition main_model (argv0 : string) (env : environ) (argv : list string) (tty_in tty_out : bool) : outcome :=
  parse_cli (basename argv0) env argv tty_in tty_out.
