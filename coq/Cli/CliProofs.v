(* Cli/CliProofs.v - proofs about the command-line model (property C22).

   Structure
   0. list/string basics, "finite support" principles for the regenerated tables:
      a statement about [short_kind k] for ALL k is reduced to a computed check over
      the keys that occur in the table plus the default branch.
   1. facts about the regenerated tables, each discharged by computation.  These are
      the side conditions through which an edit of main.c reaches the theorems.
   2. the documented option syntax as a state-free lexer [lex] (operands, `--`, long
      options, clusters, -n/-m with attached or separate value) and the meaning of
      an item list [run]; refinement: the one-pass model loop = run o lex.
   3. the C22 theorems on item lists. *)
From Coq Require Import List NArith Bool String Ascii Lia.
From LBZ Require Import Gen.CliTab Cli.CliModel.
Import ListNotations.
Local Open Scope string_scope.
Local Open Scope N_scope.
Local Open Scope list_scope.

(* ------------------------------------------------------------------ 0. basics *)
Lemma mem_str_In x l : mem_str x l = true <-> In x l.
Proof.
  induction l as [|y l IH]; cbn.
  - split; [discriminate | tauto].
  - rewrite orb_true_iff, IH, String.eqb_eq. split; intros [H|H]; auto.
Qed.

Lemma mem_N_In x l : mem_N x l = true <-> In x l.
Proof.
  induction l as [|y l IH]; cbn.
  - split; [discriminate | tauto].
  - rewrite orb_true_iff, IH, N.eqb_eq. split; intros [H|H]; auto.
Qed.

Lemma mem_str_app x l1 l2 : mem_str x (l1 ++ l2) = mem_str x l1 || mem_str x l2.
Proof. induction l1; cbn; [reflexivity | rewrite IHl1, orb_assoc; reflexivity]. Qed.

Lemma mem_N_app x l1 l2 : mem_N x (l1 ++ l2) = mem_N x l1 || mem_N x l2.
Proof. induction l1; cbn; [reflexivity | rewrite IHl1, orb_assoc; reflexivity]. Qed.

Definition keys_of {A} (rules : list (list A * list stmt)) : list A := flat_map fst rules.

Lemma find_rule_none_str x rules :
  mem_str x (keys_of rules) = false -> find_rule mem_str x rules = None.
Proof.
  induction rules as [|[ks st] r IH]; cbn; [reflexivity|].
  rewrite mem_str_app, orb_false_iff. intros [H1 H2]. rewrite H1. auto.
Qed.

Lemma find_rule_none_N x rules :
  mem_N x (keys_of rules) = false -> find_rule mem_N x rules = None.
Proof.
  induction rules as [|[ks st] r IH]; cbn; [reflexivity|].
  rewrite mem_N_app, orb_false_iff. intros [H1 H2]. rewrite H1. auto.
Qed.

(* ------------------------------------------------------------------ 1. table facts *)
Definition short_keys : list N := keys_of short_rules.
Definition long_keys : list string := keys_of long_rules ++ long_ignored.
Definition name_keys : list string := keys_of name_rules.

Lemma short_default_is_fail : kind_of classify_short short_default = KFail.
Proof. vm_compute. reflexivity. Qed.

Lemma long_else_is_fail : kind_of classify_long long_else = KFail.
Proof. vm_compute. reflexivity. Qed.

Lemma short_kind_cases k :
  In k short_keys \/ (mem_N k short_keys = false /\ short_kind k = KFail).
Proof.
  destruct (mem_N k short_keys) eqn:E.
  - left. apply mem_N_In. exact E.
  - right. split; [reflexivity|].
    unfold short_kind. rewrite (find_rule_none_N _ _ E). exact short_default_is_fail.
Qed.

Lemma long_kind_cases r :
  In r long_keys \/ (mem_str r long_keys = false /\ long_kind r = KFail).
Proof.
  destruct (mem_str r long_keys) eqn:E.
  - left. apply mem_str_In. exact E.
  - right. split; [reflexivity|].
    unfold long_keys in E. rewrite mem_str_app, orb_false_iff in E. destruct E as [E1 E2].
    unfold long_kind. rewrite (find_rule_none_str _ _ E1), E2. exact long_else_is_fail.
Qed.

(* finite support: a boolean property of (k, short_kind k) holds for all k as soon as it
   holds on the keys of the table (computed) and for the default outcome *)
Lemma short_forall (Pb : N -> kind -> bool) :
  forallb (fun k => Pb k (short_kind k)) short_keys = true ->
  (forall k, mem_N k short_keys = false -> Pb k KFail = true) ->
  forall k, Pb k (short_kind k) = true.
Proof.
  intros Hk Hd k. destruct (short_kind_cases k) as [H|[H1 H2]].
  - rewrite forallb_forall in Hk. apply Hk. exact H.
  - rewrite H2. apply Hd. exact H1.
Qed.

Lemma long_forall (Pb : string -> kind -> bool) :
  forallb (fun r => Pb r (long_kind r)) long_keys = true ->
  (forall r, mem_str r long_keys = false -> Pb r KFail = true) ->
  forall r, Pb r (long_kind r) = true.
Proof.
  intros Hk Hd r. destruct (long_kind_cases r) as [H|[H1 H2]].
  - rewrite forallb_forall in Hk. apply Hk. exact H.
  - rewrite H2. apply Hd. exact H1.
Qed.

(* --- the documented syntax classes *)
Definition takes_arg (k : N) : bool := (k =? 110) || (k =? 109).     (* n m *)

Definition syntax_pb (k : N) (kd : kind) : bool :=
  match kd with
  | KEnd => k =? 0
  | KStop AS_USAGE | KStop AS_VERSION => negb (takes_arg k) && negb (k =? 0)
  | KStop _ => false
  | KAct _ => negb (takes_arg k) && negb (k =? 0)
  | KOptArg _ _ _ => takes_arg k
  | KFail => negb (takes_arg k) && negb (k =? 0)
  | KGap => false
  end.

(* a key outside the table is none of the given (table) keys *)
Lemma not_key_N k x : mem_N k short_keys = false -> mem_N x short_keys = true -> (k =? x) = false.
Proof.
  intros H1 H2. destruct (k =? x) eqn:E; [|reflexivity].
  apply N.eqb_eq in E. subst. congruence.
Qed.

Lemma not_key_str r x : mem_str r long_keys = false -> mem_str x long_keys = true -> String.eqb r x = false.
Proof.
  intros H1 H2. destruct (String.eqb r x) eqn:E; [|reflexivity].
  apply String.eqb_eq in E. subst. congruence.
Qed.

Lemma short_syntax : forall k, syntax_pb k (short_kind k) = true.
Proof.
  apply short_forall.
  - vm_compute. reflexivity.
  - intros k H. unfold syntax_pb, takes_arg.
    rewrite (not_key_N k 110 H), (not_key_N k 109 H), (not_key_N k 0 H); reflexivity.
Qed.

(* consequences of [short_syntax] in the form the refinement proof uses *)
Lemma short_kind_0 : short_kind 0 = KEnd.
Proof. vm_compute. reflexivity. Qed.

Lemma short_kind_n : short_kind 110 = KOptArg VNumWorker 1 MX_WORKER.
Proof. vm_compute. reflexivity. Qed.

Lemma short_kind_m : short_kind 109 = KOptArg VMaxMem 1 SIZE_MAX.
Proof. vm_compute. reflexivity. Qed.

Lemma takes_arg_optarg k : takes_arg k = true -> exists v lo hi, short_kind k = KOptArg v lo hi.
Proof.
  unfold takes_arg. rewrite orb_true_iff, !N.eqb_eq. intros [H|H]; subst.
  - rewrite short_kind_n. eauto.
  - rewrite short_kind_m. eauto.
Qed.

Definition long_syntax_pb (r : string) (kd : kind) : bool :=
  match kd with
  | KStop AS_STOP => String.eqb r ""
  | KStop AS_USAGE | KStop AS_VERSION => negb (String.eqb r "")
  | KStop AS_CONTINUE => false
  | KAct _ | KFail => negb (String.eqb r "")
  | _ => false
  end.

Lemma long_syntax : forall r, long_syntax_pb r (long_kind r) = true.
Proof.
  apply long_forall.
  - vm_compute. reflexivity.
  - intros r H. cbn. rewrite (not_key_str r "" H); reflexivity.
Qed.

Lemma long_kind_empty : long_kind "" = KStop AS_STOP.
Proof. vm_compute. reflexivity. Qed.

(* ------------------------------------------------------------------ 2. documented syntax *)
Inductive item :=
| IOperand (a : string)        (* a file operand *)
| ILong (r a : string)         (* the long option --r (r non-empty); a is the whole token *)
| IEndOpts                     (* the token "--" *)
| IShort (k : N)               (* the option letter with byte code k inside a cluster (not n, m) *)
| IArg (k : N) (v : string)    (* -n / -m (code k) with its value v, attached or separate *)
| IArgMissing (k : N).         (* -n / -m as the very last thing on the line *)

Inductive lmode := LGo | LWant (k : N) | LStop.

Fixpoint lex_cluster (str : string) : list item * option N :=
  match str with
  | EmptyString => ([], None)
  | String c rest =>
      let k := code c in
      if k =? 0 then ([], None)
      else if takes_arg k then
        match rest with
        | EmptyString => ([], Some k)
        | _ => ([IArg k rest], None)
        end
      else let '(is, w) := lex_cluster rest in (IShort k :: is, w)
  end.

Definition mode_after (w : option N) : lmode :=
  match w with Some k => LWant k | None => LGo end.

(* the text after "--" if the text after the first "-" starts with another "-" *)
Definition long_part (r1 : string) : option string :=
  match r1 with
  | String c2 r2 => if Ascii.eqb c2 "-" then Some r2 else None
  | EmptyString => None
  end.

Definition dash_part (a : string) : option string :=
  match a with
  | String c1 r1 => if Ascii.eqb c1 "-" then Some r1 else None
  | EmptyString => None
  end.

Fixpoint lex (m : lmode) (args : list string) : list item :=
  match args with
  | [] => match m with LWant k => [IArgMissing k] | _ => [] end
  | a :: rest =>
      match m with
      | LStop => IOperand a :: lex LStop rest
      | LWant k => IArg k a :: lex LGo rest
      | LGo =>
          match dash_part a with
          | None => IOperand a :: lex LGo rest
          | Some r1 =>
              match long_part r1 with
              | Some EmptyString => IEndOpts :: lex LStop rest
              | Some r2 => ILong r2 a :: lex LGo rest
              | None => let '(is, w) := lex_cluster r1 in is ++ lex (mode_after w) rest
              end
          end
      end
  end.

(* meaning of one item; the letters and names get their meaning from the regenerated tables *)
Definition do_short (k : N) (s : lstate) : lstate :=
  match short_kind k with
  | KEnd => s
  | KStop st => set_as st s
  | KAct ps => do_effects k ps s
  | KFail => set_err (EUnknownShort k) s
  | _ => set_err EModelGap s
  end.

Definition run_item (s : lstate) (i : item) : lstate :=
  if halted s then s else
  match i with
  | IOperand a => push_op a s
  | ILong r a => do_long r a s
  | IEndOpts => set_as AS_STOP s
  | IShort k => do_short k s
  | IArg k v =>
      match short_kind k with
      | KOptArg var lo hi => do_optarg (k, var, lo, hi) v s
      | _ => set_err EModelGap s
      end
  | IArgMissing k => set_err (EMissingArg k) s
  end.

Definition run (items : list item) (s : lstate) : lstate := fold_left run_item items s.

(* --- absorbing states *)
Lemma run_halted items s : halted s = true -> run items s = s.
Proof.
  unfold run. induction items as [|i r IH]; cbn; [reflexivity|].
  intros H. unfold run_item at 2. rewrite H. apply IH. exact H.
Qed.

Lemma steps_halted args s : halted s = true -> fold_left step args s = s.
Proof.
  induction args as [|a r IH]; cbn; [reflexivity|].
  intros H. unfold step at 2. rewrite H. apply IH. exact H.
Qed.

Lemma run_app i1 i2 s : run (i1 ++ i2) s = run i2 (run i1 s).
Proof. unfold run. apply fold_left_app. Qed.

Lemma halted_set_err e s : halted (set_err e s) = true.
Proof. reflexivity. Qed.

Lemma set_want_none_id s : l_want s = None -> set_want None s = s.
Proof. destruct s; cbn. intros ->. reflexivity. Qed.

(* the fields other than the configuration after the elementary updates *)
Lemma do_optarg_shape w a s :
  (exists c, do_optarg w a s = set_cfg c s) \/ (exists e, do_optarg w a s = set_err e s).
Proof.
  destruct w as [[[k v] lo] hi]. unfold do_optarg. destruct (xstrtol a lo hi); eauto.
Qed.

Lemma do_effects_shape k ps s :
  (exists c, do_effects k ps s = set_cfg c s) \/ (exists e, do_effects k ps s = set_err e s).
Proof. unfold do_effects. destruct (exec_effects k ps (l_cfg s)); eauto. Qed.

(* --- the cluster loop against the cluster lexer *)
Definition finish_cluster (w : option N) (s' : lstate) : lstate :=
  if halted s' then s' else
  match w with
  | None => s'
  | Some k => match short_kind k with
              | KOptArg v lo hi => set_want (Some (k, v, lo, hi)) s'
              | _ => s'
              end
  end.

Lemma cluster_refine str : forall s,
  halted s = false -> l_want s = None ->
  cluster str s = finish_cluster (snd (lex_cluster str)) (run (fst (lex_cluster str)) s) /\
  (halted (run (fst (lex_cluster str)) s) = false ->
     l_as (run (fst (lex_cluster str)) s) = l_as s /\ l_want (run (fst (lex_cluster str)) s) = None).
Proof.
  induction str as [|c rest IH]; intros s Hh Hw.
  - cbn [cluster lex_cluster fst snd]. rewrite short_kind_0. unfold finish_cluster, run. cbn [fold_left]. rewrite Hh. auto.
  - cbn [cluster lex_cluster]. set (k := code c).
    pose proof (short_syntax k) as Hsyn.
    destruct (k =? 0) eqn:E0.
    + apply N.eqb_eq in E0. rewrite E0, short_kind_0. unfold finish_cluster, run. cbn [fold_left fst snd]. rewrite Hh. auto.
    + destruct (takes_arg k) eqn:Eta.
      * destruct (takes_arg_optarg k Eta) as (v & lo & hi & Hk). rewrite Hk.
        destruct rest as [|c' rest'].
        -- unfold finish_cluster, run. cbn [fold_left fst snd]. rewrite Hh, Hk. auto.
        -- unfold finish_cluster, run. cbn [fst snd fold_left]. unfold run_item. rewrite Hh, Hk.
           split.
           ++ destruct (halted (do_optarg (k, v, lo, hi) (String c' rest') s)); reflexivity.
           ++ intros Hn. destruct (do_optarg_shape (k, v, lo, hi) (String c' rest') s) as [[c0 H]|[e H]];
                rewrite H in *; [cbn; auto | discriminate].
      * destruct (lex_cluster rest) as [is w] eqn:Elex. cbn [fst snd].
        unfold run. cbn [fold_left]. fold (run is (run_item s (IShort k))).
        unfold run_item. rewrite Hh. unfold do_short.
        destruct (short_kind k) as [|st|ps|v lo hi| |] eqn:Ek; cbn in Hsyn; rewrite ?E0, ?Eta in Hsyn; cbn in Hsyn; try discriminate.
        -- (* KStop *)
           assert (Hst : halted (set_as st s) = true).
           { destruct st; try discriminate; unfold halted; cbn;
               unfold halted in Hh; destruct (l_err s); try discriminate; reflexivity. }
           rewrite (run_halted _ _ Hst). unfold finish_cluster. rewrite Hst. split; [reflexivity|congruence].
        -- (* KAct *)
           unfold do_effects. destruct (exec_effects k ps (l_cfg s)) as [c'|] eqn:Ex.
           ++ specialize (IH (set_cfg c' s)). cbn [fst snd] in IH.
              apply IH; [exact Hh | exact Hw].
           ++ rewrite (run_halted _ _ (halted_set_err _ _)). unfold finish_cluster. cbn. split; [reflexivity|discriminate].
        -- (* KFail *)
           rewrite (run_halted _ _ (halted_set_err _ _)). unfold finish_cluster. cbn. split; [reflexivity|discriminate].
Qed.

Lemma lex_cluster_want str k : snd (lex_cluster str) = Some k -> takes_arg k = true.
Proof.
  induction str as [|c rest IH]; cbn; [discriminate|].
  destruct (code c =? 0); [discriminate|].
  destruct (takes_arg (code c)) eqn:E.
  - destruct rest; cbn; [intros [= <-]; exact E | discriminate].
  - destruct (lex_cluster rest); cbn in *. exact IH.
Qed.

(* --- the argument loop against the lexer *)
Definition mode_of (s : lstate) : lmode :=
  match l_want s with
  | Some (k, _, _, _) => LWant k
  | None => match l_as s with AS_STOP => LStop | _ => LGo end
  end.

Definition want_ok (s : lstate) : Prop :=
  match l_want s with
  | Some (k, v, lo, hi) => short_kind k = KOptArg v lo hi /\ l_as s = AS_CONTINUE
  | None => True
  end.

Lemma not_halted s : halted s = false -> l_err s = None /\ (l_as s = AS_CONTINUE \/ l_as s = AS_STOP).
Proof. unfold halted. destruct (l_err s), (l_as s); try discriminate; auto. Qed.

Lemma halted_set_want w s : halted (set_want w s) = halted s.
Proof. reflexivity. Qed.

Lemma halted_push a s : halted (push_op a s) = halted s.
Proof. reflexivity. Qed.

Lemma halted_set_cfg c s : halted (set_cfg c s) = halted s.
Proof. reflexivity. Qed.

Lemma do_long_after r a s :
  halted s = false -> String.eqb r "" = false -> halted (do_long r a s) = false ->
  l_as (do_long r a s) = l_as s /\ l_want (do_long r a s) = l_want s.
Proof.
  intros Hh Hr. unfold do_long. pose proof (long_syntax r) as Hs.
  destruct (long_kind r) as [|st|ps|v lo hi| |]; cbn in Hs; try discriminate; try (cbn; discriminate).
  - rewrite Hr in Hs. destruct st; cbn in Hs; try discriminate.
    + unfold halted; cbn. destruct (l_err s); discriminate.
    + unfold halted; cbn. destruct (l_err s); discriminate.
  - destruct (do_effects_shape 0 ps s) as [[c H]|[e H]]; rewrite H; cbn; [auto | discriminate].
Qed.

Lemma refine args : forall s ti to, halted s = false -> want_ok s ->
  finalize ti to (fold_left step args s) =
  finalize ti to (run (lex (mode_of s) args) (set_want None s)).
Proof.
  induction args as [|a rest IH]; intros s ti to Hh Hwok.
  - cbn [fold_left]. destruct (not_halted s Hh) as [He Has].
    unfold mode_of, want_ok in *. destruct (l_want s) as [[[[k v] lo] hi]|] eqn:Ew.
    + cbn [lex]. unfold run. cbn [fold_left]. unfold run_item. rewrite halted_set_want, Hh.
      unfold finalize. rewrite He, Ew. reflexivity.
    + rewrite (set_want_none_id s Ew). destruct (l_as s); reflexivity.
  - cbn [fold_left]. unfold step at 2. rewrite Hh.
    destruct (not_halted s Hh) as [He Has].
    unfold mode_of, want_ok in *. destruct (l_want s) as [[[[k v] lo] hi]|] eqn:Ew.
    + (* a is the value of a pending -n/-m *)
      destruct Hwok as [Hk Hc]. rewrite Hc. cbn [lex]. unfold run. cbn [fold_left].
      fold (run (lex LGo rest) (run_item (set_want None s) (IArg k a))).
      unfold run_item. rewrite halted_set_want, Hh, Hk.
      set (s1 := do_optarg (k, v, lo, hi) a (set_want None s)).
      destruct (halted s1) eqn:H1.
      * rewrite (steps_halted _ _ H1), (run_halted _ _ H1). reflexivity.
      * assert (Hs1 : l_want s1 = None /\ l_as s1 = AS_CONTINUE).
        { unfold s1. destruct (do_optarg_shape (k, v, lo, hi) a (set_want None s)) as [[c H]|[e H]];
            rewrite H; cbn; auto. }
        destruct Hs1 as [Hw1 Ha1].
        rewrite (IH s1 ti to H1); unfold mode_of, want_ok; rewrite Hw1; [|exact I].
        rewrite Ha1, (set_want_none_id s1 Hw1). reflexivity.
    + rewrite (set_want_none_id s Ew).
      assert (Hpush : forall m, (m = LGo \/ m = LStop) -> m = match l_as s with AS_STOP => LStop | _ => LGo end ->
                finalize ti to (fold_left step rest (push_op a s)) =
                finalize ti to (run (lex m rest) (run_item s (IOperand a)))).
      { intros m _ Hm. unfold run_item. rewrite Hh.
        rewrite (IH (push_op a s) ti to); [|exact Hh|unfold want_ok; cbn; rewrite Ew; exact I].
        unfold mode_of. cbn [l_want l_as push_op]. rewrite Ew, <- Hm.
        rewrite set_want_none_id; [reflexivity | cbn; exact Ew]. }
      destruct Has as [Has|Has]; rewrite Has in *.
      2:{ (* after "--": every argument is an operand *)
          cbn [lex]. unfold run. cbn [fold_left]. apply (Hpush LStop); auto. }
      destruct (dash_part a) as [r1|] eqn:Ed.
      2:{ (* operand *)
          assert (Hstep : match a with
                          | String c1 r1 => if Ascii.eqb c1 "-" then
                                match r1 with
                                | String c2 r2 => if Ascii.eqb c2 "-" then do_long r2 a s else cluster r1 s
                                | EmptyString => cluster r1 s
                                end else push_op a s
                          | EmptyString => push_op a s
                          end = push_op a s).
          { destruct a as [|c1 r1]; [reflexivity|]. cbn in Ed. destruct (Ascii.eqb c1 "-"); [discriminate|reflexivity]. }
          rewrite Hstep. cbn [lex]. rewrite Ed. unfold run. cbn [fold_left]. apply (Hpush LGo); auto. }
      destruct a as [|c1 r1']; [discriminate|]. cbn in Ed.
      destruct (Ascii.eqb c1 "-") eqn:Ec1; [|discriminate]. injection Ed as ->.
      cbn [lex]. cbn [dash_part]. rewrite Ec1.
      destruct (long_part r1) as [r2|] eqn:El.
      * (* long option or "--" *)
        destruct r1 as [|c2 r2']; [discriminate|]. cbn in El.
        destruct (Ascii.eqb c2 "-") eqn:Ec2; [|discriminate]. injection El as ->.
        destruct r2 as [|c3 r3].
        -- unfold do_long. rewrite long_kind_empty. unfold run. cbn [fold_left].
           fold (run (lex LStop rest) (run_item s IEndOpts)). unfold run_item. rewrite Hh.
           rewrite (IH (set_as AS_STOP s) ti to).
           ++ unfold mode_of. cbn [l_want l_as set_as]. rewrite Ew.
              rewrite set_want_none_id; [reflexivity | cbn; exact Ew].
           ++ unfold halted. cbn. rewrite He. reflexivity.
           ++ unfold want_ok. cbn. rewrite Ew. exact I.
        -- unfold run. cbn [fold_left].
           fold (run (lex LGo rest) (run_item s (ILong (String c3 r3) (String c1 (String c2 (String c3 r3)))))).
           unfold run_item. rewrite Hh.
           set (s1 := do_long (String c3 r3) (String c1 (String c2 (String c3 r3))) s).
           destruct (halted s1) eqn:H1.
           ++ rewrite (steps_halted _ _ H1), (run_halted _ _ H1). reflexivity.
           ++ destruct (do_long_after (String c3 r3) (String c1 (String c2 (String c3 r3))) s Hh eq_refl H1) as [Ha1 Hw1].
              fold s1 in Ha1, Hw1. rewrite Ew in Hw1. rewrite Has in Ha1.
              rewrite (IH s1 ti to H1); unfold mode_of, want_ok; rewrite Hw1; [|exact I].
              rewrite Ha1, (set_want_none_id s1 Hw1). reflexivity.
      * (* cluster *)
        assert (Hstep : match r1 with
                        | String c2 r2 => if Ascii.eqb c2 "-" then do_long r2 (String c1 r1) s else cluster r1 s
                        | EmptyString => cluster r1 s
                        end = cluster r1 s).
        { destruct r1 as [|c2 r2]; [reflexivity|]. cbn in El. destruct (Ascii.eqb c2 "-"); [discriminate|reflexivity]. }
        rewrite Hstep.
        destruct (cluster_refine r1 s Hh Ew) as [Hc1 Hc2].
        destruct (lex_cluster r1) as [is w] eqn:Elex. cbn [fst snd] in Hc1, Hc2.
        rewrite Hc1, run_app. set (s' := run is s) in *.
        unfold finish_cluster. destruct (halted s') eqn:H'.
        -- rewrite (steps_halted _ _ H'), (run_halted _ _ H'). reflexivity.
        -- destruct (Hc2 eq_refl) as [Ha' Hw']. rewrite Has in Ha'.
           destruct w as [kw|].
           ++ assert (Hta : takes_arg kw = true).
              { apply (lex_cluster_want r1). rewrite Elex. reflexivity. }
              destruct (takes_arg_optarg kw Hta) as (v & lo & hi & Hk). rewrite Hk.
              rewrite (IH (set_want (Some (kw, v, lo, hi)) s') ti to).
              ** unfold mode_of. cbn [l_want set_want mode_after].
                 replace (set_want None (set_want (Some (kw, v, lo, hi)) s')) with s'; [reflexivity|].
                 destruct s'; cbn in *. subst. reflexivity.
              ** rewrite halted_set_want. exact H'.
              ** unfold want_ok. cbn. auto.
           ++ rewrite (IH s' ti to H'); unfold mode_of, want_ok; rewrite Hw'; [|exact I].
              rewrite Ha', (set_want_none_id s' Hw'). reflexivity.
Qed.

(* ------------------------------------------------------------------ invocation name *)
Definition doc_decomp_names : list string := ["bunzip2"; "lbunzip2"; "bzcat"; "lbzcat"].
Definition doc_cat_names : list string := ["bzcat"; "lbzcat"].

(* the documented defaults: compress to files, level 9, everything else off; the four names *)
Definition doc_init_config (pname : string) : config :=
  mkConfig (mem_str pname doc_decomp_names)
           (if mem_str pname doc_cat_names then OM_STDOUT else OM_REGF)
           9 false false false false false false 0 0.

Definition doc_init_state (pname : string) : lstate :=
  mkL (doc_init_config pname) AS_CONTINUE None None [].

Lemma init_state_spec pname : init_state pname = Some (doc_init_state pname).
Proof.
  destruct (mem_str pname name_keys) eqn:E.
  - apply mem_str_In in E. unfold name_keys, keys_of in E. cbn in E.
    repeat (destruct E as [E|E]; [subst pname; vm_compute; reflexivity|]). destruct E.
  - unfold init_state, name_prims. rewrite (find_rule_none_str _ _ E).
    assert (Hd : mem_str pname doc_decomp_names = false).
    { destruct (mem_str pname doc_decomp_names) eqn:D; [|reflexivity].
      apply mem_str_In in D. cbn in D.
      repeat (destruct D as [D|D]; [subst pname; vm_compute in E; discriminate|]). destruct D. }
    assert (Hc : mem_str pname doc_cat_names = false).
    { destruct (mem_str pname doc_cat_names) eqn:D; [|reflexivity].
      apply mem_str_In in D. cbn in D.
      repeat (destruct D as [D|D]; [subst pname; vm_compute in E; discriminate|]). destruct D. }
    unfold doc_init_state, doc_init_config. rewrite Hd, Hc. vm_compute. reflexivity.
Qed.

(* the model's argument loop is [run] over the lexed argument list *)
Theorem opts_setup_lex pname args ti to :
  opts_setup pname args ti to = finalize ti to (run (lex LGo args) (doc_init_state pname)).
Proof.
  unfold opts_setup. rewrite init_state_spec.
  rewrite (refine args (doc_init_state pname) ti to); [reflexivity | reflexivity | exact I].
Qed.

Lemma post_setup_small : compile post_setup = Some [PSetBool BSmall false].
Proof. vm_compute. reflexivity. Qed.

Lemma effective_run c ops : effective (Run c ops) = Run (set_bool BSmall false c) ops.
Proof. unfold effective. rewrite post_setup_small. reflexivity. Qed.

Definition fin_cfg (s : lstate) : config :=
  match c_outmode (l_cfg s), l_ops s with
  | OM_REGF, [] => set_outmode OM_STDOUT (l_cfg s)
  | _, _ => l_cfg s
  end.

Lemma finalize_run ti to s c ops :
  finalize ti to s = Run c ops -> halted s = false /\ c = fin_cfg s /\ ops = l_ops s.
Proof.
  unfold finalize, halted, fin_cfg.
  destruct (l_err s); [discriminate|].
  destruct (l_want s) as [[[[k v] lo] hi]|]; [discriminate|].
  destruct (l_as s); try discriminate;
    destruct (c_outmode (l_cfg s)), (l_ops s); cbn;
    repeat match goal with |- context [if ?b then _ else _] => destruct b end;
    intros H; inversion H; auto.
Qed.

Definition toks_of (env : environ) (argv : list string) : list string := env_tokens env ++ argv.

Lemma parse_cli_run pname env argv ti to cfg ops :
  parse_cli pname env argv ti to = Run cfg ops ->
  let s := run (lex LGo (toks_of env argv)) (doc_init_state pname) in
  halted s = false /\ cfg = set_bool BSmall false (fin_cfg s) /\ ops = l_ops s.
Proof.
  unfold parse_cli. change env_before_argv with true. cbn iota. fold (toks_of env argv).
  rewrite opts_setup_lex. intros H.
  destruct (finalize ti to (run (lex LGo (toks_of env argv)) (doc_init_state pname))) eqn:F;
    try discriminate.
  rewrite effective_run in H. inversion H; subst.
  destruct (finalize_run _ _ _ _ _ F) as (H1 & H2 & H3). subst. auto.
Qed.

(* ------------------------------------------------------------------ 3a. mode selection *)
Inductive modeopt := MD | MZ | MT.    (* -d/--decompress, -z/--compress, -t/--test *)

Definition short_mode (k : N) : option modeopt :=
  if k =? 100 then Some MD else if k =? 122 then Some MZ else if k =? 116 then Some MT else None.

Definition long_mode (r : string) : option modeopt :=
  if String.eqb r "decompress" then Some MD
  else if String.eqb r "compress" then Some MZ
  else if String.eqb r "test" then Some MT else None.

Definition item_mode (i : item) : option modeopt :=
  match i with
  | IShort k => short_mode k
  | ILong r _ => long_mode r
  | _ => None
  end.

Definition expect_dec (m : option modeopt) (d : bool) : bool :=
  match m with
  | Some MD | Some MT => true
  | Some MZ => false
  | None => d
  end.

(* the last of the mode options decides; none: the value before *)
Fixpoint decompress_after (items : list item) (d : bool) : bool :=
  match items with
  | [] => d
  | i :: r => decompress_after r (expect_dec (item_mode i) d)
  end.

Definition dec_effect (opt : N) (p : prim) (d : bool) : bool :=
  match p with
  | PSetBool BDecompress b => b
  | PCallDecompress a => arg_char opt a =? 100
  | PCallOutmode a => if arg_char opt a =? 99 then d else true
  | _ => d
  end.

Fixpoint dec_effects (opt : N) (ps : list prim) (d : bool) : bool :=
  match ps with
  | [] => d
  | p :: r => dec_effects opt r (dec_effect opt p d)
  end.

Lemma exec_effect_dec opt p c c' :
  exec_effect opt p c = Some c' -> c_decompress c' = dec_effect opt p (c_decompress c).
Proof.
  destruct p; cbn; try (intros [= <-]; reflexivity).
  - destruct v; intros [= <-]; reflexivity.
  - unfold opts_outmode. destruct (c_outmode c); destruct (arg_char opt a =? 99); cbn; intros [= <-]; reflexivity.
  - unfold opts_decompress. intros [= <-]. cbn. destruct (c_outmode c); reflexivity.
Qed.

Lemma exec_effects_dec opt ps : forall c c',
  exec_effects opt ps c = Some c' -> c_decompress c' = dec_effects opt ps (c_decompress c).
Proof.
  induction ps as [|p r IH]; cbn; intros c c'.
  - intros [= <-]. reflexivity.
  - destruct (exec_effect opt p c) as [c1|] eqn:E; [|discriminate].
    intros H. rewrite (IH _ _ H), (exec_effect_dec _ _ _ _ E). reflexivity.
Qed.

Definition is_none {A} (o : option A) : bool := match o with None => true | Some _ => false end.

Definition dec_pb (opt : N) (m : option modeopt) (kd : kind) : bool :=
  match kd with
  | KAct ps => Bool.eqb (dec_effects opt ps true) (expect_dec m true) &&
               Bool.eqb (dec_effects opt ps false) (expect_dec m false)
  | KStop AS_USAGE | KStop AS_VERSION | KFail | KGap => true
  | _ => is_none m
  end.

Lemma short_dec : forall k, dec_pb k (short_mode k) (short_kind k) = true.
Proof.
  apply (short_forall (fun k kd => dec_pb k (short_mode k) kd)).
  - vm_compute. reflexivity.
  - reflexivity.
Qed.

Lemma long_dec : forall r, dec_pb 0 (long_mode r) (long_kind r) = true.
Proof.
  apply (long_forall (fun r kd => dec_pb 0 (long_mode r) kd)).
  - vm_compute. reflexivity.
  - reflexivity.
Qed.

Lemma dec_pb_act opt m ps d :
  dec_pb opt m (KAct ps) = true -> dec_effects opt ps d = expect_dec m d.
Proof.
  cbn. rewrite andb_true_iff, !Bool.eqb_true_iff. intros [H1 H2]. destruct d; assumption.
Qed.

Lemma halted_set_as_stop s st :
  halted s = false -> halted (set_as st s) = false -> st = AS_CONTINUE \/ st = AS_STOP.
Proof. unfold halted. cbn. destruct (l_err s); [discriminate|]. destruct st; auto; discriminate. Qed.

Lemma set_argvar_dec v n c : c_decompress (set_argvar v n c) = c_decompress c.
Proof. destruct v; reflexivity. Qed.

Lemma run_item_dec s i :
  halted (run_item s i) = false ->
  c_decompress (l_cfg (run_item s i)) = expect_dec (item_mode i) (c_decompress (l_cfg s)).
Proof.
  unfold run_item. destruct (halted s) eqn:Hh; [congruence|].
  destruct i as [a|r a| |k|k v|k]; cbn [item_mode].
  - reflexivity.
  - unfold do_long. pose proof (long_dec r) as Hd.
    destruct (long_kind r) as [|st|ps|v lo hi| |] eqn:Ek; try (cbn; discriminate).
    + intros Hn. destruct (halted_set_as_stop s st Hh Hn) as [->| ->]; cbn in Hd;
        destruct (long_mode r); try discriminate; reflexivity.
    + unfold do_effects. destruct (exec_effects 0 ps (l_cfg s)) as [c'|] eqn:Ex; [|cbn; discriminate].
      intros _. cbn. rewrite (exec_effects_dec _ _ _ _ Ex). apply dec_pb_act. exact Hd.
  - reflexivity.
  - unfold do_short. pose proof (short_dec k) as Hd.
    destruct (short_kind k) as [|st|ps|v lo hi| |] eqn:Ek; try (cbn; discriminate).
    + cbn in Hd. destruct (short_mode k); [discriminate|reflexivity].
    + intros Hn. destruct (halted_set_as_stop s st Hh Hn) as [->| ->]; cbn in Hd;
        destruct (short_mode k); try discriminate; reflexivity.
    + unfold do_effects. destruct (exec_effects k ps (l_cfg s)) as [c'|] eqn:Ex; [|cbn; discriminate].
      intros _. cbn. rewrite (exec_effects_dec _ _ _ _ Ex). apply dec_pb_act. exact Hd.
  - destruct (short_kind k) as [|st|ps|var lo hi| |]; try (cbn; discriminate).
    unfold do_optarg. destruct (xstrtol v lo hi); [|cbn; discriminate].
    intros _. cbn. apply set_argvar_dec.
  - cbn. discriminate.
Qed.

Lemma run_cons i r s : run (i :: r) s = run r (run_item s i).
Proof. reflexivity. Qed.

Lemma run_not_halted_head i r s : halted (run (i :: r) s) = false -> halted (run_item s i) = false.
Proof.
  rewrite run_cons. intros H. destruct (halted (run_item s i)) eqn:E; [|reflexivity].
  rewrite (run_halted _ _ E) in H. congruence.
Qed.

Lemma run_dec items : forall s,
  halted (run items s) = false ->
  c_decompress (l_cfg (run items s)) = decompress_after items (c_decompress (l_cfg s)).
Proof.
  induction items as [|i r IH]; intros s H; [reflexivity|].
  pose proof (run_not_halted_head _ _ _ H) as Hi.
  rewrite run_cons in *. rewrite (IH _ H). cbn. rewrite (run_item_dec _ _ Hi). reflexivity.
Qed.

Lemma fin_cfg_dec s : c_decompress (fin_cfg s) = c_decompress (l_cfg s).
Proof. unfold fin_cfg. destruct (c_outmode (l_cfg s)), (l_ops s); reflexivity. Qed.

Theorem mode_selection pname env argv ti to cfg ops :
  parse_cli pname env argv ti to = Run cfg ops ->
  c_decompress cfg = decompress_after (lex LGo (toks_of env argv)) (mem_str pname doc_decomp_names).
Proof.
  intros H. destruct (parse_cli_run _ _ _ _ _ _ _ H) as (Hh & -> & _).
  cbn [set_bool c_decompress]. rewrite fin_cfg_dec, (run_dec _ _ Hh). reflexivity.
Qed.

Lemma decompress_after_app l1 l2 d :
  decompress_after (l1 ++ l2) d = decompress_after l2 (decompress_after l1 d).
Proof. revert d. induction l1; cbn; auto. Qed.

Lemma decompress_after_none items d :
  Forall (fun i => item_mode i = None) items -> decompress_after items d = d.
Proof. induction 1 as [|i r Hi _ IH]; cbn; [reflexivity|]. rewrite Hi. exact IH. Qed.

Lemma decompress_after_last pre i post m d :
  item_mode i = Some m -> Forall (fun j => item_mode j = None) post ->
  decompress_after (pre ++ i :: post) d = expect_dec (Some m) false.
Proof.
  intros Hi Hp. rewrite decompress_after_app. cbn. rewrite Hi, (decompress_after_none _ _ Hp).
  destruct m; reflexivity.
Qed.

(* --- bzcat / lbzcat: standard output unless -t *)
Definition keeps_stdout (opt : N) (p : prim) : bool :=
  match p with
  | PSetOutmode m => is_stdout m
  | PCallOutmode a => arg_char opt a =? 99
  | _ => true
  end.

Lemma exec_effect_stdout opt p c c' :
  keeps_stdout opt p = true -> exec_effect opt p c = Some c' ->
  c_outmode c = OM_STDOUT -> c_outmode c' = OM_STDOUT.
Proof.
  destruct p; cbn; intros Hk; try (intros [= <-]; auto; fail).
  - destruct v; intros [= <-]; auto.
  - destruct m; try discriminate. intros [= <-]; auto.
  - unfold opts_outmode. rewrite Hk. intros H Ho. rewrite Ho in H. cbn in H. injection H as <-. reflexivity.
  - unfold opts_decompress. intros [= <-] Ho. cbn. rewrite Ho. reflexivity.
Qed.

Lemma exec_effects_stdout opt ps : forall c c',
  forallb (keeps_stdout opt) ps = true -> exec_effects opt ps c = Some c' ->
  c_outmode c = OM_STDOUT -> c_outmode c' = OM_STDOUT.
Proof.
  induction ps as [|p r IH]; cbn; intros c c' Hk.
  - intros [= <-]. auto.
  - apply andb_true_iff in Hk. destruct Hk as [H1 H2].
    destruct (exec_effect opt p c) as [c1|] eqn:E; [|discriminate].
    intros H Ho. apply (IH _ _ H2 H). apply (exec_effect_stdout _ _ _ _ H1 E Ho).
Qed.

Definition is_MT (m : option modeopt) : bool := match m with Some MT => true | _ => false end.

Definition std_pb (opt : N) (m : option modeopt) (kd : kind) : bool :=
  match kd with
  | KAct ps => is_MT m || forallb (keeps_stdout opt) ps
  | _ => true
  end.

Lemma short_std : forall k, std_pb k (short_mode k) (short_kind k) = true.
Proof.
  apply (short_forall (fun k kd => std_pb k (short_mode k) kd)); [vm_compute|]; reflexivity.
Qed.

Lemma long_std : forall r, std_pb 0 (long_mode r) (long_kind r) = true.
Proof.
  apply (long_forall (fun r kd => std_pb 0 (long_mode r) kd)); [vm_compute|]; reflexivity.
Qed.

Lemma set_argvar_outmode v n c : c_outmode (set_argvar v n c) = c_outmode c.
Proof. destruct v; reflexivity. Qed.

Lemma run_item_stdout s i :
  item_mode i <> Some MT -> halted (run_item s i) = false ->
  c_outmode (l_cfg s) = OM_STDOUT -> c_outmode (l_cfg (run_item s i)) = OM_STDOUT.
Proof.
  intros Hm. unfold run_item. destruct (halted s) eqn:Hh; [congruence|].
  destruct i as [a|r a| |k|k v|k]; cbn [item_mode] in Hm; try (cbn; auto; fail).
  - unfold do_long. pose proof (long_std r) as Hd.
    destruct (long_kind r) as [|st|ps|v lo hi| |]; try (cbn; auto; discriminate).
    unfold do_effects. destruct (exec_effects 0 ps (l_cfg s)) as [c'|] eqn:Ex; [|cbn; discriminate].
    intros _ Ho. cbn. cbn in Hd. apply orb_true_iff in Hd. destruct Hd as [Hd|Hd].
    + destruct (long_mode r) as [[]|]; try discriminate. congruence.
    + apply (exec_effects_stdout _ _ _ _ Hd Ex Ho).
  - unfold do_short. pose proof (short_std k) as Hd.
    destruct (short_kind k) as [|st|ps|v lo hi| |]; try (cbn; auto; discriminate).
    unfold do_effects. destruct (exec_effects k ps (l_cfg s)) as [c'|] eqn:Ex; [|cbn; discriminate].
    intros _ Ho. cbn. cbn in Hd. apply orb_true_iff in Hd. destruct Hd as [Hd|Hd].
    + destruct (short_mode k) as [[]|]; try discriminate. congruence.
    + apply (exec_effects_stdout _ _ _ _ Hd Ex Ho).
  - destruct (short_kind k) as [|st|ps|var lo hi| |]; try (cbn; discriminate).
    unfold do_optarg. destruct (xstrtol v lo hi); [|cbn; discriminate].
    intros _ Ho. cbn. rewrite set_argvar_outmode. exact Ho.
Qed.

Lemma run_stdout items : forall s,
  Forall (fun i => item_mode i <> Some MT) items ->
  halted (run items s) = false ->
  c_outmode (l_cfg s) = OM_STDOUT -> c_outmode (l_cfg (run items s)) = OM_STDOUT.
Proof.
  induction items as [|i r IH]; intros s Hf H Ho; [exact Ho|].
  inversion Hf as [|? ? Hi Hr]; subst.
  pose proof (run_not_halted_head _ _ _ H) as Hn.
  rewrite run_cons in *. apply (IH _ Hr H). apply (run_item_stdout _ _ Hi Hn Ho).
Qed.

Theorem cat_names_stdout pname env argv ti to cfg ops :
  parse_cli pname env argv ti to = Run cfg ops ->
  In pname doc_cat_names ->
  Forall (fun i => item_mode i <> Some MT) (lex LGo (toks_of env argv)) ->
  c_outmode cfg = OM_STDOUT.
Proof.
  intros H Hn Hf. destruct (parse_cli_run _ _ _ _ _ _ _ H) as (Hh & -> & _).
  cbn [set_bool c_outmode].
  assert (Ho : c_outmode (l_cfg (run (lex LGo (toks_of env argv)) (doc_init_state pname))) = OM_STDOUT).
  { apply (run_stdout _ _ Hf Hh). apply mem_str_In in Hn.
    unfold doc_init_state, doc_init_config. cbn [l_cfg c_outmode]. rewrite Hn. reflexivity. }
  unfold fin_cfg. rewrite Ho. exact Ho.
Qed.

(* ------------------------------------------------------------------ 3b. documented no-ops *)
Definition doc_noop_long : list string :=
  ["quiet"; "small"; "repetitive-fast"; "repetitive-best"; "exponential"].

Definition is_noop_item (i : item) : bool :=
  match i with
  | IShort k => (k =? 113) || (k =? 115)          (* q s *)
  | ILong r _ => mem_str r doc_noop_long
  | _ => false
  end.

Definition drop_noops (items : list item) : list item :=
  filter (fun i => negb (is_noop_item i)) items.

Definition usm (c : config) : config := set_bool BSmall false c.

(* equal except for the value of `small` *)
Definition sim (s s' : lstate) : Prop :=
  l_as s = l_as s' /\ l_want s = l_want s' /\ l_err s = l_err s' /\ l_ops s = l_ops s' /\
  usm (l_cfg s) = usm (l_cfg s').

Lemma sim_refl s : sim s s.
Proof. unfold sim. auto. Qed.

Lemma sim_sym s s' : sim s s' -> sim s' s.
Proof. unfold sim. intuition congruence. Qed.

Lemma sim_trans s1 s2 s3 : sim s1 s2 -> sim s2 s3 -> sim s1 s3.
Proof. unfold sim. intuition congruence. Qed.

Lemma sim_halted s s' : sim s s' -> halted s = halted s'.
Proof. unfold sim, halted. intros (H1 & _ & H3 & _). rewrite H1, H3. reflexivity. Qed.

Lemma usm_fields c1 c2 :
  usm c1 = usm c2 ->
  c_decompress c1 = c_decompress c2 /\ c_outmode c1 = c_outmode c2 /\ c_bs100k c1 = c_bs100k c2 /\
  c_force c1 = c_force c2 /\ c_keep c1 = c_keep c2 /\ c_verbose c1 = c_verbose c2 /\
  c_cctrs c1 = c_cctrs c2 /\ c_ultra c1 = c_ultra c2 /\ c_num_worker c1 = c_num_worker c2 /\
  c_max_mem c1 = c_max_mem c2.
Proof. destruct c1, c2. unfold usm. cbn. intros H. injection H. intros. subst. repeat split. Qed.

Lemma exec_effect_sim opt p c1 c2 :
  usm c1 = usm c2 ->
  match exec_effect opt p c1, exec_effect opt p c2 with
  | Some a, Some b => usm a = usm b
  | None, None => True
  | _, _ => False
  end.
Proof.
  intros H. pose proof (usm_fields _ _ H) as F. destruct c1, c2. cbn in F.
  decompose [and] F. subst. clear F H.
  destruct p; cbn; try reflexivity.
  - destruct v; reflexivity.
  - unfold opts_outmode. cbn. destruct c_outmode0; destruct (arg_char opt a =? 99); cbn; auto.
  - unfold opts_decompress. cbn. destruct c_outmode0; reflexivity.
Qed.

Lemma exec_effects_sim opt ps : forall c1 c2,
  usm c1 = usm c2 ->
  match exec_effects opt ps c1, exec_effects opt ps c2 with
  | Some a, Some b => usm a = usm b
  | None, None => True
  | _, _ => False
  end.
Proof.
  induction ps as [|p r IH]; cbn; intros c1 c2 H; [exact H|].
  pose proof (exec_effect_sim opt p c1 c2 H) as E.
  destruct (exec_effect opt p c1), (exec_effect opt p c2); try contradiction; [apply IH; exact E | exact I].
Qed.

Lemma set_argvar_sim v n c1 c2 : usm c1 = usm c2 -> usm (set_argvar v n c1) = usm (set_argvar v n c2).
Proof.
  intros H. pose proof (usm_fields _ _ H) as F. destruct c1, c2. cbn in F.
  decompose [and] F. subst. destruct v; reflexivity.
Qed.

Lemma do_effects_sim opt ps s s' : sim s s' -> sim (do_effects opt ps s) (do_effects opt ps s').
Proof.
  intros (H1 & H2 & H3 & H4 & H5). unfold do_effects.
  pose proof (exec_effects_sim opt ps _ _ H5) as E.
  destruct (exec_effects opt ps (l_cfg s)), (exec_effects opt ps (l_cfg s')); try contradiction;
    unfold sim; cbn; auto 10.
Qed.

Lemma run_item_sim s s' i : sim s s' -> sim (run_item s i) (run_item s' i).
Proof.
  intros Hs. unfold run_item. rewrite <- (sim_halted _ _ Hs).
  destruct (halted s); [exact Hs|].
  pose proof Hs as (H1 & H2 & H3 & H4 & H5).
  destruct i as [a|r a| |k|k v|k].
  - unfold sim. cbn. rewrite H4. auto 10.
  - unfold do_long. destruct (long_kind r); try (unfold sim; cbn; auto 10; fail).
    apply do_effects_sim. exact Hs.
  - unfold sim. cbn. auto 10.
  - unfold do_short. destruct (short_kind k); try (unfold sim; cbn; auto 10; fail).
    apply do_effects_sim. exact Hs.
  - destruct (short_kind k); try (unfold sim; cbn; auto 10; fail).
    unfold do_optarg. destruct (xstrtol v lo hi); unfold sim; cbn; auto 10.
    repeat split; auto. apply set_argvar_sim. exact H5.
  - unfold sim. cbn. auto 10.
Qed.

Definition only_small (p : prim) : bool :=
  match p with PSetBool BSmall _ => true | _ => false end.

Definition noop_kind (kd : kind) : bool :=
  match kd with KAct ps => forallb only_small ps | _ => false end.

Lemma exec_only_small opt ps : forall c,
  forallb only_small ps = true -> exists c', exec_effects opt ps c = Some c' /\ usm c' = usm c.
Proof.
  induction ps as [|p r IH]; cbn; intros c H; [eauto|].
  apply andb_true_iff in H. destruct H as [Hp Hr].
  destruct p; try discriminate. destruct v; try discriminate. cbn.
  destruct (IH (set_bool BSmall b c) Hr) as (c' & E & U). exists c'. split; [exact E|].
  change (usm c' = usm c). etransitivity; [exact U|]. destruct c; reflexivity.
Qed.

(* the regenerated tables give the documented no-ops no effect other than on `small` *)
Lemma short_noops k : (k =? 113) || (k =? 115) = true -> noop_kind (short_kind k) = true.
Proof.
  rewrite orb_true_iff, !N.eqb_eq. intros [->| ->]; vm_compute; reflexivity.
Qed.

Lemma long_noops r : mem_str r doc_noop_long = true -> noop_kind (long_kind r) = true.
Proof.
  intros H. apply mem_str_In in H. cbn in H.
  repeat (destruct H as [H|H]; [subst r; vm_compute; reflexivity|]). destruct H.
Qed.

Lemma noop_item_sim s i : is_noop_item i = true -> sim s (run_item s i).
Proof.
  intros Hn. unfold run_item. destruct (halted s); [apply sim_refl|].
  destruct i as [a|r a| |k|k v|k]; cbn in Hn; try discriminate.
  - unfold do_long. pose proof (long_noops r Hn) as Hk.
    destruct (long_kind r) as [|st|ps|v lo hi| |]; try discriminate. cbn in Hk.
    unfold do_effects. destruct (exec_only_small 0 ps (l_cfg s) Hk) as (c' & E & U). rewrite E.
    unfold sim. cbn. auto 10.
  - unfold do_short. pose proof (short_noops k Hn) as Hk.
    destruct (short_kind k) as [|st|ps|v lo hi| |]; try discriminate. cbn in Hk.
    unfold do_effects. destruct (exec_only_small k ps (l_cfg s) Hk) as (c' & E & U). rewrite E.
    unfold sim. cbn. auto 10.
Qed.

Lemma run_sim_drop items : forall s s', sim s s' -> sim (run items s) (run (drop_noops items) s').
Proof.
  induction items as [|i r IH]; intros s s' H; [exact H|].
  rewrite run_cons. cbn [drop_noops filter]. fold (drop_noops r).
  destruct (is_noop_item i) eqn:E; cbn [negb].
  - apply IH. apply (sim_trans _ s); [apply sim_sym, noop_item_sim; exact E | exact H].
  - rewrite run_cons. apply IH. apply run_item_sim. exact H.
Qed.

Lemma finalize_sim ti to s s' :
  sim s s' -> effective (finalize ti to s) = effective (finalize ti to s').
Proof.
  intros (H1 & H2 & H3 & H4 & H5). pose proof (usm_fields _ _ H5) as F.
  destruct s as [c a w e o], s' as [c' a' w' e' o']. cbn in *. subst.
  destruct c, c'. cbn in F. decompose [and] F. subst. clear F H5.
  unfold finalize. cbn.
  destruct e'; [reflexivity|]. destruct w' as [[[[k v] lo] hi]|]; [reflexivity|].
  destruct a'; try reflexivity;
    destruct c_outmode0, o'; cbn; destruct c_decompress0; cbn;
    repeat match goal with |- context [if ?b then _ else _] => destruct b end;
    rewrite ?effective_run; reflexivity.
Qed.

Theorem noops_irrelevant pname toks toks' ti to :
  drop_noops (lex LGo toks) = drop_noops (lex LGo toks') ->
  effective (opts_setup pname toks ti to) = effective (opts_setup pname toks' ti to).
Proof.
  intros H. rewrite !opts_setup_lex.
  rewrite (finalize_sim ti to _ _ (run_sim_drop (lex LGo toks) _ _ (sim_refl (doc_init_state pname)))).
  rewrite (finalize_sim ti to _ _ (run_sim_drop (lex LGo toks') _ _ (sim_refl (doc_init_state pname)))).
  rewrite H. reflexivity.
Qed.

Theorem noops_irrelevant_cli pname env argv env' argv' ti to :
  drop_noops (lex LGo (toks_of env argv)) = drop_noops (lex LGo (toks_of env' argv')) ->
  parse_cli pname env argv ti to = parse_cli pname env' argv' ti to.
Proof.
  intros H. unfold parse_cli. change env_before_argv with true. cbn iota.
  apply noops_irrelevant. exact H.
Qed.

(* the effective configuration never has `small` set *)
Theorem small_is_off pname env argv ti to cfg ops :
  parse_cli pname env argv ti to = Run cfg ops -> c_small cfg = false.
Proof.
  intros H. destruct (parse_cli_run _ _ _ _ _ _ _ H) as (_ & -> & _). reflexivity.
Qed.

(* ------------------------------------------------------------------ 3c. environment *)
Definition toks_of_var (v : option string) : list string :=
  match v with Some s => tokens envsep s | None => [] end.

Theorem env_is_prefix pname env argv ti to :
  parse_cli pname env argv ti to =
  parse_cli pname no_env
    (toks_of_var (env "LBZIP2") ++ toks_of_var (env "BZIP2") ++ toks_of_var (env "BZIP") ++ argv) ti to.
Proof.
  unfold parse_cli. change env_before_argv with true. cbn iota.
  assert (H0 : env_tokens no_env = []) by reflexivity.
  rewrite H0. cbn [app].
  assert (H1 : env_tokens env = toks_of_var (env "LBZIP2") ++ toks_of_var (env "BZIP2") ++ toks_of_var (env "BZIP")).
  { unfold env_tokens. change ev_name with ["LBZIP2"; "BZIP2"; "BZIP"]. cbn [flat_map].
    rewrite app_nil_r. reflexivity. }
  rewrite H1, <- !app_assoc. reflexivity.
Qed.

Lemma envsep_chars c : mem_char c envsep = Ascii.eqb c " " || Ascii.eqb c "009".
Proof. change envsep with (String " " (String "009" EmptyString)). cbn. rewrite orb_false_r. reflexivity. Qed.

(* tokenisation: maximal runs of non-separators *)
Lemma tokens_nonempty sep c r : mem_char c sep = false -> tokens sep (String c r) <> [].
Proof.
  intros H. cbn. rewrite H. destruct r as [|c' r']; [discriminate|].
  destruct (mem_char c' sep); [discriminate|]. destruct (tokens sep (String c' r')); discriminate.
Qed.

Lemma tokens_cons_sep sep x r : mem_char x sep = true -> tokens sep (String x r) = tokens sep r.
Proof. intros H. cbn [tokens]. rewrite H. reflexivity. Qed.

Lemma tokens_cons_nonsep sep x r :
  mem_char x sep = false ->
  tokens sep (String x r) =
  match r with
  | EmptyString => [String x EmptyString]
  | String y _ => if mem_char y sep then String x EmptyString :: tokens sep r
                  else match tokens sep r with
                       | t :: ts => String x t :: ts
                       | [] => [String x EmptyString]
                       end
  end.
Proof. intros H. cbn [tokens]. rewrite H. reflexivity. Qed.

Lemma tokens_sep_app sep c a b :
  mem_char c sep = true ->
  tokens sep (a ++ String c b)%string = tokens sep a ++ tokens sep b.
Proof.
  intros Hc. induction a as [|x a' IH].
  - cbn [append]. rewrite tokens_cons_sep by exact Hc. reflexivity.
  - cbn [append]. destruct (mem_char x sep) eqn:Hx.
    + rewrite !tokens_cons_sep by exact Hx. exact IH.
    + rewrite !(tokens_cons_nonsep sep x) by exact Hx.
      destruct a' as [|y a''].
      * cbn [append]. rewrite Hc. rewrite tokens_cons_sep by exact Hc. reflexivity.
      * cbn [append] in *. destruct (mem_char y sep) eqn:Hy.
        -- rewrite IH. reflexivity.
        -- rewrite IH. pose proof (tokens_nonempty sep y a'' Hy) as Hne.
           destruct (tokens sep (String y a'')); [contradiction|reflexivity].
Qed.

Fixpoint no_sep (sep s : string) : bool :=
  match s with
  | EmptyString => true
  | String c r => negb (mem_char c sep) && no_sep sep r
  end.

Lemma tokens_single sep s : s <> EmptyString -> no_sep sep s = true -> tokens sep s = [s].
Proof.
  induction s as [|c r IH]; [congruence|]. intros _ H. cbn in H.
  apply andb_true_iff in H. destruct H as [Hc Hr]. apply negb_true_iff in Hc.
  cbn [tokens]. rewrite Hc. destruct r as [|c' r']; [reflexivity|].
  cbn in Hr. apply andb_true_iff in Hr. destruct Hr as [Hc' Hr']. apply negb_true_iff in Hc'.
  rewrite Hc'. rewrite IH; [reflexivity | discriminate | cbn; rewrite Hc', Hr'; reflexivity].
Qed.

Lemma tokens_empty sep : tokens sep EmptyString = [].
Proof. reflexivity. Qed.

(* ------------------------------------------------------------------ the statements in the form of C22 *)
Theorem name_selects_mode pname env argv ti to cfg ops :
  parse_cli pname env argv ti to = Run cfg ops ->
  Forall (fun i => item_mode i = None) (lex LGo (toks_of env argv)) ->
  c_decompress cfg = mem_str pname doc_decomp_names /\
  (In pname doc_cat_names -> c_outmode cfg = OM_STDOUT).
Proof.
  intros H Hf. split.
  - rewrite (mode_selection _ _ _ _ _ _ _ H). apply decompress_after_none. exact Hf.
  - intros Hn. apply (cat_names_stdout _ _ _ _ _ _ _ H Hn).
    eapply Forall_impl; [|exact Hf]. cbn. intros i Hi. rewrite Hi. discriminate.
Qed.

Theorem last_mode_option_wins pname env argv ti to cfg ops pre i post m :
  parse_cli pname env argv ti to = Run cfg ops ->
  lex LGo (toks_of env argv) = pre ++ i :: post ->
  item_mode i = Some m ->
  Forall (fun j => item_mode j = None) post ->
  c_decompress cfg = match m with MZ => false | MD | MT => true end.
Proof.
  intros H Hl Hi Hp. rewrite (mode_selection _ _ _ _ _ _ _ H), Hl.
  rewrite (decompress_after_last pre i post m _ Hi Hp). destruct m; reflexivity.
Qed.
