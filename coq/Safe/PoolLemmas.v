(* Lemmas shared by the deque and heap refinement proofs: C `unsigned` arithmetic of
   Safe/PoolVocab.v, bounds-checked arrays of Safe/PoolModel.v, and the order facts about
   the REGENERATED pos_lt / pos_le (Gen/PoolTab.v) that the heap proofs rely on. *)
From Coq Require Import List NArith ZArith Arith Bool Lia ZifyBool ZifyN ZifyNat Permutation.
From LBZ Require Import Safe.PoolVocab Gen.PoolTab Safe.PoolModel.
Import ListNotations.
Local Open Scope N_scope.

Ltac Zify.zify_post_hook ::= Z.div_mod_to_equations.

(* largest capacity for which the `min(x, x - modulus)` wrap trick and `2*j+1` are exact *)
Definition UHALF : N := 2147483648.

(* ---- unsigned arithmetic ---------------------------------------------------------- *)
Lemma uadd_small a b : a + b < UMOD -> uadd a b = a + b.
Proof. unfold uadd, UMOD. intros. apply N.mod_small; auto. Qed.

Lemma usub_spec a b : a < UMOD -> b < UMOD -> usub a b = if b <=? a then a - b else a + UMOD - b.
Proof. unfold usub, UMOD. intros. destruct (N.leb_spec b a); lia. Qed.

Lemma umul_small a b : a * b < UMOD -> umul a b = a * b.
Proof. unfold umul, UMOD. intros. apply N.mod_small; auto. Qed.

Lemma uadd_lt a b : uadd a b < UMOD.
Proof. unfold uadd, UMOD. lia. Qed.

Lemma usub_lt a b : usub a b < UMOD.
Proof. unfold usub, UMOD. lia. Qed.

(* case analysis on every N comparison in the goal *)
Ltac ncases :=
  repeat match goal with
         | |- context [?a <? ?b] => destruct (N.ltb_spec a b)
         | |- context [?a <=? ?b] => destruct (N.leb_spec a b)
         | |- context [?a =? ?b] => destruct (N.eqb_spec a b)
         end.

Lemma nth_error_Some_lt {T} (l : list T) i x : nth_error l i = Some x -> (i < length l)%nat.
Proof. intro H. apply nth_error_Some. congruence. Qed.

(* ---- arrays ----------------------------------------------------------------------- *)
Section Arrays.
  Context {A : Type}.
  Implicit Types a : arr A.

  Definition cell a (i : N) : option (option A) := nth_error a (N.to_nat i).
  Definition alen a : N := N.of_nat (length a).

  Lemma upd_length a i v : length (upd a i v) = length a.
  Proof. revert i; induction a as [|x a IH]; intros [|i]; cbn; auto. Qed.

  Lemma nth_upd_eq a i v : (i < length a)%nat -> nth_error (upd a i v) i = Some v.
  Proof. revert i; induction a as [|x a IH]; intros [|i]; cbn; intros; try lia; auto. apply IH; lia. Qed.

  Lemma nth_upd_neq a i k v : i <> k -> nth_error (upd a i v) k = nth_error a k.
  Proof. revert i k; induction a as [|x a IH]; intros [|i] [|k]; cbn; intros; try congruence; auto. Qed.

  Lemma upd_upd a i v w : upd (upd a i v) i w = upd a i w.
  Proof. revert i; induction a as [|x a IH]; intros [|i]; cbn; auto. f_equal; auto. Qed.

  Lemma cell_lt a i c : cell a i = Some c -> i < alen a.
  Proof. unfold cell, alen. intro H. assert (nth_error a (N.to_nat i) <> None) by congruence. apply nth_error_Some in H0. lia. Qed.

  Lemma cell_upd_eq a i v : i < alen a -> cell (upd a (N.to_nat i) v) i = Some v.
  Proof. unfold cell, alen. intros. apply nth_upd_eq. lia. Qed.

  Lemma cell_upd_neq a i k v : i <> k -> cell (upd a (N.to_nat i) v) k = cell a k.
  Proof. unfold cell. intros. apply nth_upd_neq. lia. Qed.

  Lemma alen_upd a i v : alen (upd a i v) = alen a.
  Proof. unfold alen. rewrite upd_length. auto. Qed.

  Lemma rd_cell a i x : cell a i = Some (Some x) -> rd a i = Good x.
  Proof.
    intro H. unfold rd. pose proof (cell_lt _ _ _ H) as L. unfold alen in L.
    destruct (N.ltb_spec i (N.of_nat (length a))); [|lia]. unfold cell in H. rewrite H. auto.
  Qed.

  Lemma rd_good a i x : rd a i = Good x -> cell a i = Some (Some x).
  Proof.
    unfold rd, cell. destruct (i <? _); [|discriminate]. destruct (nth_error a (N.to_nat i)) as [[y|]|]; try discriminate.
    intro H; inversion H; auto.
  Qed.

  Lemma wr_ok a i x : i < alen a -> wr a i x = Good (upd a (N.to_nat i) (Some x)).
  Proof. unfold wr, alen. intros. destruct (N.ltb_spec i (N.of_nat (length a))); [auto|lia]. Qed.

  (* replacing the content u of one cell by v *)
  Lemma upd_perm a i u v : nth_error a i = Some u -> Permutation (v :: a) (u :: upd a i v).
  Proof.
    revert i; induction a as [|x a IH]; intros [|i]; cbn; intro H; try discriminate.
    - inversion H; subst. apply perm_swap.
    - apply IH in H. etransitivity; [apply perm_swap|]. etransitivity; [|apply perm_swap]. constructor. auto.
  Qed.

  Lemma skipn_upd a i v n : (i < n)%nat -> skipn n (upd a i v) = skipn n a.
  Proof.
    revert i n; induction a as [|x a IH]; intros [|i] [|n]; cbn; intros; try lia; auto. apply IH; lia.
  Qed.

  Lemma firstn_upd_ge a i v n : (n <= i)%nat -> firstn n (upd a i v) = firstn n a.
  Proof.
    revert i n; induction a as [|x a IH]; intros [|i] [|n]; cbn; intros; try lia; auto. f_equal. apply IH; lia.
  Qed.

  (* the initialised cells of a segment *)
  Fixpoint somes (l : list (option A)) : list A :=
    match l with [] => [] | Some x :: r => x :: somes r | None :: r => somes r end.

  Lemma somes_app l1 l2 : somes (l1 ++ l2) = somes l1 ++ somes l2.
  Proof. induction l1 as [|[x|] l1 IH]; cbn; auto. f_equal; auto. Qed.

  Lemma somes_perm l1 l2 : Permutation l1 l2 -> Permutation (somes l1) (somes l2).
  Proof.
    induction 1 as [|[x|] l l' _ IH|[x|] [y|] l|l l' l'' _ IH1 _ IH2]; cbn; auto.
    - apply perm_swap.
    - etransitivity; eauto.
  Qed.

  Lemma perm_firstn (a b : list (option A)) n :
    Permutation a b -> skipn n a = skipn n b -> Permutation (firstn n a) (firstn n b).
  Proof.
    intros P S. rewrite <- (firstn_skipn n a), <- (firstn_skipn n b) in P. rewrite S in P.
    eapply Permutation_app_inv_r; eauto.
  Qed.

  Lemma firstn_succ_cell a n c : cell a n = Some c -> firstn (N.to_nat (n + 1)) a = firstn (N.to_nat n) a ++ [c].
  Proof.
    unfold cell. replace (N.to_nat (n + 1)) with (S (N.to_nat n)) by lia. generalize (N.to_nat n). clear n.
    intro n. revert a. induction n as [|n IH]; intros [|x a] H; try discriminate.
    - cbn in H. inversion H; auto.
    - change (x :: firstn (S n) a = x :: (firstn n a ++ [c])). f_equal. apply IH. exact H.
  Qed.
End Arrays.

(* ---- the regenerated order on positions ------------------------------------------- *)
Definition lexlt (p q : pos) : Prop := fst p < fst q \/ (fst p = fst q /\ snd p < snd q).

Lemma pos_lt_iff p q : pos_lt p q = true <-> lexlt p q.
Proof. unfold pos_lt, lexlt. destruct p, q; cbn [fst snd]. lia. Qed.

Lemma pos_lt_false p q : pos_lt p q = false <-> ~ lexlt p q.
Proof. rewrite <- pos_lt_iff. destruct (pos_lt p q); split; intros; congruence. Qed.

Lemma pos_le_iff p q : pos_le p q = true <-> pos_lt q p = false.
Proof. unfold pos_le. destruct (pos_lt q p); cbn; split; congruence. Qed.

Lemma pos_eq_iff p q : pos_eq p q = true <-> p = q.
Proof. unfold pos_eq. destruct p, q; cbn [fst snd]. split; [intro; f_equal; lia|intro H; inversion H; lia]. Qed.

(* [ple p q]: p <= q, i.e. not (q < p) *)
Definition ple (p q : pos) : Prop := pos_lt q p = false.

Lemma ple_refl p : ple p p.
Proof. apply pos_lt_false. unfold lexlt. lia. Qed.

Lemma ple_trans p q r : ple p q -> ple q r -> ple p r.
Proof. unfold ple. rewrite !pos_lt_false. unfold lexlt. destruct p, q, r; cbn [fst snd]. lia. Qed.

Lemma plt_ple p q : pos_lt p q = true -> ple p q.
Proof. unfold ple. rewrite pos_lt_iff, pos_lt_false. unfold lexlt. lia. Qed.

Lemma plt_ple_trans p q r : pos_lt p q = true -> ple q r -> ple p r.
Proof. intros. eapply ple_trans; [apply plt_ple|]; eauto. Qed.

Lemma ple_total p q : ple p q \/ ple q p.
Proof. unfold ple. rewrite !pos_lt_false. unfold lexlt. lia. Qed.

Lemma ple_antisym p q : ple p q -> ple q p -> p = q.
Proof. unfold ple. rewrite !pos_lt_false. unfold lexlt. destruct p, q; cbn [fst snd]. intros. f_equal; lia. Qed.
