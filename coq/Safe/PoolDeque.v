(* Refinement proof for the ring-buffer deque: the array-level model of Safe/PoolModel.v
   (interpreting the macro bodies regenerated into Gen/PoolTab.v) implements a list.

   [dq_rep s l]: state s represents list l: the array has [modulus] cells,
   1 <= modulus <= 2^31, head < modulus, size = length l <= modulus and element number i of l
   sits in cell (head + 1 + i) mod modulus ([head] is the cell BEFORE the first element).
   Every index fact is proved about the regenerated expression (dq_push_2, dq_unshift_3 ...),
   by unfolding it and doing the unsigned arithmetic: a changed macro breaks these lemmas. *)
From Coq Require Import List NArith ZArith Arith Bool Lia ZifyBool ZifyN ZifyNat.
From LBZ Require Import Safe.PoolVocab Gen.PoolTab Safe.PoolModel Safe.PoolLemmas.
Import ListNotations.
Local Open Scope N_scope.

Ltac Zify.zify_post_hook ::= Z.div_mod_to_equations.

(* (h + k) mod m for h < m, k <= m *)
Definition widx (m h k : N) : N := if h + k <? m then h + k else h + k - m.

Ltac usolve := unfold uadd, usub, umul, udiv, UMOD, UHALF, widx in *; ncases; lia.

Ltac qstep :=
  cbn [run_macro run_ops run_op q_f q_arr f_size f_modulus f_head qf_set bind fst snd
       want_unit want_elt want_num want_bool].

Section Deque.
  Context {A : Type}.
  Variable key : A -> pos.      (* irrelevant for the deque: its macros never call the heap functions *)

  Record dq_rep (s : qstate A) (l : list A) : Prop := mkrep {
    r_len : alen (q_arr s) = f_modulus (q_f s);
    r_mod : 1 <= f_modulus (q_f s) <= UHALF;
    r_head : f_head (q_f s) < f_modulus (q_f s);
    r_size : f_size (q_f s) = N.of_nat (length l);
    r_cap : f_size (q_f s) <= f_modulus (q_f s);
    r_cells : forall i x, nth_error l i = Some x ->
      cell (q_arr s) (widx (f_modulus (q_f s)) (f_head (q_f s)) (N.of_nat i + 1)) = Some (Some x)
  }.

  (* the abstraction function: [size] cells starting after [head], wrapping at [modulus] *)
  Fixpoint abs_cells (a : arr A) (m h k : N) (n : nat) : list A :=
    match n with
    | O => []
    | S n' => match cell a (widx m h (k + 1)) with
              | Some (Some x) => x :: abs_cells a m h (k + 1) n'
              | _ => []
              end
    end.

  Definition abs_dq (s : qstate A) : list A :=
    abs_cells (q_arr s) (f_modulus (q_f s)) (f_head (q_f s)) 0 (N.to_nat (f_size (q_f s))).

  (* representation invariant: the state represents what the abstraction function reads *)
  Definition dq_inv (s : qstate A) : Prop := dq_rep s (abs_dq s).

  Lemma abs_cells_spec a m h l : forall k,
    (forall i x, nth_error l i = Some x -> cell a (widx m h (k + N.of_nat i + 1)) = Some (Some x)) ->
    abs_cells a m h k (length l) = l.
  Proof.
    induction l as [|x l IH]; intros k H; cbn [abs_cells length]; auto.
    pose proof (H 0%nat x eq_refl) as H0. replace (k + N.of_nat 0 + 1) with (k + 1) in H0 by lia. rewrite H0.
    f_equal. apply IH. intros i y Hi. specialize (H (S i) y Hi). replace (k + 1 + N.of_nat i + 1) with (k + N.of_nat (S i) + 1) by lia. auto.
  Qed.

  Lemma rep_abs s l : dq_rep s l -> abs_dq s = l.
  Proof.
    intros R. unfold abs_dq. rewrite (r_size _ _ R). rewrite Nat2N.id. apply abs_cells_spec.
    intros i x Hi. replace (0 + N.of_nat i + 1) with (N.of_nat i + 1) by lia. apply (r_cells _ _ R); auto.
  Qed.

  Lemma rep_inv s l : dq_rep s l -> dq_inv s.
  Proof. intro R. unfold dq_inv. rewrite (rep_abs _ _ R). auto. Qed.

  (* ---- deque_init ---- *)
  Lemma cell_repeat_none n i : cell (repeat (@None A) n) i = Some None \/ cell (repeat (@None A) n) i = None.
  Proof.
    unfold cell. generalize (N.to_nat i). clear i. induction n as [|n IH]; intros [|i]; cbn; auto.
  Qed.

  Theorem dq_init_rep n : 1 <= n <= UHALF -> exists s, dq_init key n = Good s /\ dq_rep s [] /\ f_modulus (q_f s) = n.
  Proof.
    intros Hn. unfold dq_init, dq_init_prog, q0. qstep.
    unfold dq_init_0, dq_init_1, dq_init_2, dq_init_3. qstep.
    eexists; split; [reflexivity|]. split; [|reflexivity]. constructor; cbn [q_f q_arr f_size f_modulus f_head length]; try lia.
    - unfold alen. rewrite repeat_length. lia.
    - intros [|i] x; discriminate.
  Qed.

  (* ---- size / empty ---- *)
  Theorem q_size_rep s l : dq_rep s l -> q_size key s = Good (N.of_nat (length l)).
  Proof. intros R. unfold q_size, q_size_prog. qstep. unfold q_size_0. rewrite (r_size _ _ R). auto. Qed.

  Theorem q_empty_rep s l : dq_rep s l -> q_empty key s = Good (match l with [] => true | _ => false end).
  Proof.
    intros R. unfold q_empty, q_empty_prog. qstep. unfold q_empty_0. rewrite (r_size _ _ R).
    destruct l; cbn [length]; f_equal; lia.
  Qed.

  (* ---- push ---- *)
  Lemma push_ix sz m h : 1 <= m <= UHALF -> h < m -> sz < m ->
    dq_push_2 (mkqf (dq_push_1 (mkqf sz m h) 0) m h) 0 = widx m h (sz + 1) /\ dq_push_1 (mkqf sz m h) 0 = sz + 1.
  Proof. intros. unfold dq_push_2, dq_push_1. cbn [f_size f_modulus f_head]. split; usolve. Qed.

  Theorem dq_push_rep s l x : dq_rep s l -> f_size (q_f s) < f_modulus (q_f s) ->
    exists s', dq_push key s x = Good s' /\ dq_rep s' (l ++ [x]) /\ f_modulus (q_f s') = f_modulus (q_f s).
  Proof.
    destruct s as [[sz m h] a]. intros [R1 R2 R3 R4 R5 R6] Hf. cbn [q_f q_arr f_size f_modulus f_head] in *.
    unfold dq_push, dq_push_prog. qstep.
    assert (E0 : dq_push_0 (mkqf sz m h) 0 = true) by (unfold dq_push_0; cbn [f_size f_modulus]; lia). rewrite E0. qstep.
    destruct (push_ix sz m h R2 R3 Hf) as [E2 E1]. rewrite E2, E1.
    assert (W : widx m h (sz + 1) < alen a) by (rewrite R1; unfold widx; ncases; lia).
    rewrite (wr_ok _ _ _ W). qstep. eexists; split; [reflexivity|]. split; [|reflexivity].
    constructor; cbn [q_f q_arr f_size f_modulus f_head]; try lia.
    - rewrite alen_upd; auto.
    - rewrite app_length; cbn [length]; lia.
    - intros i y Hi. destruct (Nat.lt_ge_cases i (length l)) as [Lt|Ge].
      + rewrite nth_error_app1 in Hi by auto. rewrite cell_upd_neq; [apply R6; auto|].
        unfold widx; ncases; lia.
      + rewrite nth_error_app2 in Hi by auto. destruct (i - length l)%nat as [|k] eqn:Ek; [|destruct k; discriminate].
        cbn in Hi. inversion Hi; subst y. replace (N.of_nat i + 1) with (sz + 1) by lia. apply cell_upd_eq; auto.
  Qed.

  (* ---- shift ---- *)
  Lemma shift_ix sz m h : 1 <= m <= UHALF -> h < m -> 0 < sz <= m ->
    dq_shift_2 (mkqf (dq_shift_1 (mkqf sz m h) 0) m h) 0 = widx m h 1 /\ dq_shift_1 (mkqf sz m h) 0 = sz - 1.
  Proof. intros. unfold dq_shift_2, dq_shift_1. cbn [f_size f_modulus f_head]. split; usolve. Qed.

  Theorem dq_shift_rep s x l : dq_rep s (x :: l) ->
    exists s', dq_shift key s = Good (x, s') /\ dq_rep s' l /\ f_modulus (q_f s') = f_modulus (q_f s).
  Proof.
    destruct s as [[sz m h] a]. intros [R1 R2 R3 R4 R5 R6]. cbn [q_f q_arr f_size f_modulus f_head length] in *.
    unfold dq_shift, dq_shift_prog. qstep.
    assert (E0 : dq_shift_0 (mkqf sz m h) 0 = true) by (unfold dq_shift_0; cbn [f_size]; lia). rewrite E0. qstep.
    destruct (shift_ix sz m h R2 R3 ltac:(lia)) as [E2 E1]. rewrite E2, E1.
    unfold dq_shift_3. cbn [f_head].
    pose proof (R6 0%nat x eq_refl) as C0. change (N.of_nat 0 + 1) with 1 in C0.
    rewrite (rd_cell _ _ _ C0). qstep. eexists; split; [reflexivity|]. split; [|reflexivity].
    constructor; cbn [q_f q_arr f_size f_modulus f_head]; try lia.
    - unfold widx; ncases; lia.
    - intros i y Hi. assert (N.of_nat i + 1 < sz) by (apply nth_error_Some_lt in Hi; lia).
      specialize (R6 (S i) y Hi). rewrite <- R6. f_equal. unfold widx; ncases; lia.
  Qed.

  (* ---- unshift: the element goes into cell [head], the new head is head - 1, and
          modulus - 1 when head = 0 ---- *)
  Lemma unshift_ix sz m h : 1 <= m <= UHALF -> h < m -> sz < m ->
    dq_unshift_3 (mkqf (dq_unshift_1 (mkqf sz m h) 0) m h) 0 = (if h =? 0 then m - 1 else h - 1)
    /\ dq_unshift_1 (mkqf sz m h) 0 = sz + 1.
  Proof. intros. unfold dq_unshift_3, dq_unshift_1. cbn [f_size f_modulus f_head]. split; usolve. Qed.

  Theorem dq_unshift_rep s l x : dq_rep s l -> f_size (q_f s) < f_modulus (q_f s) ->
    exists s', dq_unshift key s x = Good s' /\ dq_rep s' (x :: l) /\ f_modulus (q_f s') = f_modulus (q_f s).
  Proof.
    destruct s as [[sz m h] a]. intros [R1 R2 R3 R4 R5 R6] Hf. cbn [q_f q_arr f_size f_modulus f_head] in *.
    unfold dq_unshift, dq_unshift_prog. qstep.
    assert (E0 : dq_unshift_0 (mkqf sz m h) 0 = true) by (unfold dq_unshift_0; cbn [f_size f_modulus]; lia). rewrite E0. qstep.
    destruct (unshift_ix sz m h R2 R3 Hf) as [E3 E1].
    unfold dq_unshift_2 at 1. cbn [f_head].
    assert (W : h < alen a) by lia. rewrite (wr_ok _ _ _ W). qstep. rewrite E3, E1.
    eexists; split; [reflexivity|]. split; [|reflexivity].
    constructor; cbn [q_f q_arr f_size f_modulus f_head length]; try lia.
    - rewrite alen_upd; auto.
    - ncases; lia.
    - intros [|i] y Hi.
      + cbn in Hi. inversion Hi; subst y. change (N.of_nat 0 + 1) with 1.
        replace (widx m (if h =? 0 then m - 1 else h - 1) 1) with h by (unfold widx; ncases; lia).
        apply cell_upd_eq; auto.
      + cbn [nth_error] in Hi. pose proof (R6 i y Hi) as C.
        assert (N.of_nat i < sz) by (apply nth_error_Some_lt in Hi; lia).
        replace (widx m (if h =? 0 then m - 1 else h - 1) (N.of_nat (S i) + 1)) with (widx m h (N.of_nat i + 1))
          by (unfold widx; ncases; lia).
        rewrite cell_upd_neq; auto. unfold widx; ncases; lia.
  Qed.

  (* ---- pop ---- *)
  Lemma pop_ix sz m h : 1 <= m <= UHALF -> h < m -> 0 < sz <= m ->
    dq_pop_2 (mkqf (dq_pop_1 (mkqf sz m h) 0) m h) 0 = widx m h sz /\ dq_pop_1 (mkqf sz m h) 0 = sz - 1.
  Proof. intros. unfold dq_pop_2, dq_pop_1. cbn [f_size f_modulus f_head]. split; usolve. Qed.

  Theorem dq_pop_rep s l x : dq_rep s (l ++ [x]) ->
    exists s', dq_pop key s = Good (x, s') /\ dq_rep s' l /\ f_modulus (q_f s') = f_modulus (q_f s).
  Proof.
    destruct s as [[sz m h] a]. intros [R1 R2 R3 R4 R5 R6]. cbn [q_f q_arr f_size f_modulus f_head] in *.
    rewrite app_length in R4. cbn [length] in R4.
    unfold dq_pop, dq_pop_prog. qstep.
    assert (E0 : dq_pop_0 (mkqf sz m h) 0 = true) by (unfold dq_pop_0; cbn [f_size]; lia). rewrite E0. qstep.
    destruct (pop_ix sz m h R2 R3 ltac:(lia)) as [E2 E1]. rewrite E2, E1.
    assert (C : cell a (widx m h sz) = Some (Some x)).
    { replace sz with (N.of_nat (length l) + 1) by lia. apply R6. rewrite nth_error_app2 by lia.
      rewrite Nat.sub_diag. reflexivity. }
    rewrite (rd_cell _ _ _ C). qstep. eexists; split; [reflexivity|]. split; [|reflexivity].
    constructor; cbn [q_f q_arr f_size f_modulus f_head]; try lia.
    intros i y Hi. apply R6. rewrite nth_error_app1; auto. apply nth_error_Some_lt in Hi; auto.
  Qed.

  (* ---- dq_get / dq_set ---- *)
  Lemma get_ix sz m h i : 1 <= m <= UHALF -> h < m -> i < sz <= m ->
    dq_get_1 (mkqf sz m h) i = widx m h (i + 1) /\ dq_set_1 (mkqf sz m h) i = widx m h (i + 1).
  Proof. intros. unfold dq_get_1, dq_set_1. cbn [f_size f_modulus f_head]. split; usolve. Qed.

  Theorem dq_get_rep s l i x : dq_rep s l -> nth_error l i = Some x -> dq_get key s (N.of_nat i) = Good x.
  Proof.
    destruct s as [[sz m h] a]. intros [R1 R2 R3 R4 R5 R6] Hi. cbn [q_f q_arr f_size f_modulus f_head] in *.
    assert (L : N.of_nat i < sz) by (apply nth_error_Some_lt in Hi; lia).
    unfold dq_get, dq_get_prog. qstep.
    assert (E0 : dq_get_0 (mkqf sz m h) (N.of_nat i) = true) by (unfold dq_get_0; cbn [f_size]; lia). rewrite E0. qstep.
    destruct (get_ix sz m h (N.of_nat i) R2 R3 ltac:(lia)) as [E1 _]. rewrite E1.
    rewrite (rd_cell _ _ _ (R6 i x Hi)). qstep. reflexivity.
  Qed.

  Fixpoint lset (l : list A) (i : nat) (x : A) : list A :=
    match l, i with
    | [], _ => []
    | _ :: r, O => x :: r
    | y :: r, S i' => y :: lset r i' x
    end.

  Lemma lset_length l i x : length (lset l i x) = length l.
  Proof. revert i; induction l; intros [|i]; cbn; auto. Qed.

  Lemma lset_nth l i x k : (i < length l)%nat ->
    nth_error (lset l i x) k = if Nat.eqb k i then Some x else nth_error l k.
  Proof.
    revert i k; induction l as [|y l IH]; intros [|i] [|k]; cbn [lset nth_error Nat.eqb length]; intros; try lia; auto.
    apply IH. lia.
  Qed.

  Theorem dq_set_rep s l i x : dq_rep s l -> (i < length l)%nat ->
    exists s', dq_set key s (N.of_nat i) x = Good s' /\ dq_rep s' (lset l i x) /\ f_modulus (q_f s') = f_modulus (q_f s).
  Proof.
    destruct s as [[sz m h] a]. intros [R1 R2 R3 R4 R5 R6] Hi. cbn [q_f q_arr f_size f_modulus f_head] in *.
    unfold dq_set, dq_set_prog. qstep.
    assert (E0 : dq_set_0 (mkqf sz m h) (N.of_nat i) = true) by (unfold dq_set_0; cbn [f_size]; lia). rewrite E0. qstep.
    destruct (get_ix sz m h (N.of_nat i) R2 R3 ltac:(lia)) as [_ E1]. rewrite E1.
    assert (W : widx m h (N.of_nat i + 1) < alen a) by (rewrite R1; unfold widx; ncases; lia).
    rewrite (wr_ok _ _ _ W). qstep. eexists; split; [reflexivity|]. split; [|reflexivity].
    constructor; cbn [q_f q_arr f_size f_modulus f_head]; try lia.
    - rewrite alen_upd; auto.
    - rewrite lset_length; auto.
    - intros k y Hk. rewrite lset_nth in Hk by auto. destruct (Nat.eqb_spec k i) as [->|Ne].
      + inversion Hk; subst y. apply cell_upd_eq; auto.
      + assert (N.of_nat k < sz) by (apply nth_error_Some_lt in Hk; lia).
        rewrite cell_upd_neq; [apply R6; auto|]. unfold widx; ncases; lia.
  Qed.
End Deque.
