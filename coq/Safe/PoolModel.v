(* Array-level executable model of the ring-buffer deque and the binary-heap priority
   queue of src/process.h / src/process.c.

   State: the integer members of the C structure ([qf]: size, modulus, head) and the
   malloc'ed array [root] as a list of cells, [None] = never written.  EVERY array access
   is bounds-checked ([Bad Oob]) and a read of a cell that was never written is an error
   ([Bad Uninit]); a failing assert() of the macros is [Bad AssertFail]; the loops of
   up_heap()/down_heap() run on explicit fuel S(log2(size+1)) ([Bad Fuel] when exhausted).

   Nothing about indices is written here: a macro is executed by interpreting the
   regenerated list of its side effects (Gen/PoolTab.v: <macro>_prog, in source order,
   each expression evaluated on the fields as they are at that point), and up_heap /
   down_heap compose the regenerated pieces (parent/child expressions, conditions with
   their short-circuit structure, moves) in the control skeleton that lib/gen_pool.py
   matched against the C functions.  Proofs: Safe/PoolProofs.v. *)
From Coq Require Import List NArith Arith Bool.
From LBZ Require Import Safe.PoolVocab Gen.PoolTab.
Import ListNotations.
Local Open Scope N_scope.

Inductive fault := Oob | Uninit | AssertFail | Fuel | BadOp.
Inductive res (T : Type) := Good (t : T) | Bad (f : fault).
Arguments Good {T} t.
Arguments Bad {T} f.

Definition bind {T U} (x : res T) (f : T -> res U) : res U :=
  match x with Good t => f t | Bad e => Bad e end.
Notation "x <-- p ;; q" := (bind p (fun x => q)) (at level 61, p at next level, right associativity).

(* value of a macro (an expression in C) *)
Inductive qval (A : Type) := VUnit | VElt (x : A) | VNum (n : N) | VBool (b : bool).
Arguments VUnit {A}.
Arguments VElt {A} x.
Arguments VNum {A} n.
Arguments VBool {A} b.

Section Model.
  Context {A : Type}.
  Variable key : A -> pos.        (* heap elements point to structures that start with a struct position *)

  Definition arr := list (option A).

  (* ---- bounds-checked memory ---- *)
  Definition rd (a : arr) (i : N) : res A :=
    if i <? N.of_nat (length a) then
      match nth_error a (N.to_nat i) with
      | Some (Some x) => Good x
      | Some None => Bad Uninit
      | None => Bad Oob
      end
    else Bad Oob.

  Fixpoint upd (l : arr) (i : nat) (v : option A) : arr :=
    match l, i with
    | [], _ => []
    | _ :: r, O => v :: r
    | x :: r, S i' => x :: upd r i' v
    end.

  Definition wr (a : arr) (i : N) (x : A) : res arr :=
    if i <? N.of_nat (length a) then Good (upd a (N.to_nat i) (Some x)) else Bad Oob.

  (* ---- conditions of the heap functions ---- *)
  Definition cmp_eval (k : cmpk) (x y : pos) : bool :=
    match k with CmpLt => pos_lt x y | CmpLe => pos_le x y | CmpEq => pos_eq x y end.

  Definition operand_key (a : arr) (el : A) (o : operand) : res pos :=
    match o with
    | OEl => Good (key el)
    | ORoot ix => x <-- rd a ix ;; Good (key x)
    end.

  Fixpoint eval_cond (a : arr) (el : A) (c : hcond) : res bool :=
    match c with
    | HPure b => Good b
    | HCmp k x y => kx <-- operand_key a el x ;; ky <-- operand_key a el y ;; Good (cmp_eval k kx ky)
    | HAnd x y => bx <-- eval_cond a el x ;; if bx then eval_cond a el y else Good false
    | HOr x y => bx <-- eval_cond a el x ;; if bx then Good true else eval_cond a el y
    | HNot x => bx <-- eval_cond a el x ;; Good (negb bx)
    end.

  Definition heap_fuel (size : N) : nat := S (N.to_nat (N.log2 (size + 1))).

  (* ---- up_heap(root, size) ----
       if (up_ret) return;
       j = up_j0; el = root[up_el_ix];
       if (up_enter) { do { root[up_mv_dst] = root[up_mv_src]; j = up_next; } while (up_cont);
                       root[up_fin_ix] = el; }                                              *)
  Fixpoint up_loop (fuel : nat) (a : arr) (el : A) (size j : N) : res (arr * N) :=
    match fuel with
    | O => Bad Fuel
    | S fuel' =>
        x <-- rd a (up_mv_src size j) ;;
        a' <-- wr a (up_mv_dst size j) x ;;
        let j' := up_next size j in
        c <-- eval_cond a' el (up_cont size j') ;;
        if c then up_loop fuel' a' el size j' else Good (a', j')
    end.

  Definition up_heap (a : arr) (size : N) : res arr :=
    if up_ret size then Good a else
    let j := up_j0 size in
    el <-- rd a (up_el_ix size j) ;;
    c <-- eval_cond a el (up_enter size j) ;;
    if c then
      r <-- up_loop (heap_fuel size) a el size j ;;
      wr (fst r) (up_fin_ix size (snd r)) el
    else Good a.

  (* ---- down_heap(root, size) ----
       if (down_ret) return;
       el = root[down_el_ix]; root[down_sv_dst] = root[down_sv_src]; j = down_j0;
       while (down_loop) { child = down_child0; if (down_sel) child = down_child1;
                           if (down_brk) break;
                           root[down_mv_dst] = root[down_mv_src]; j = down_next; }
       root[down_fin_ix] = el;                                                             *)
  Fixpoint down_loop_f (fuel : nat) (a : arr) (el : A) (size j : N) : res (arr * N) :=
    match fuel with
    | O => Bad Fuel
    | S fuel' =>
        if down_loop size j then
          let c0 := down_child0 size j in
          sel <-- eval_cond a el (down_sel size j c0) ;;
          let c := if sel then down_child1 size j c0 else c0 in
          brk <-- eval_cond a el (down_brk size j c) ;;
          if brk then Good (a, j) else
          x <-- rd a (down_mv_src size j c) ;;
          a' <-- wr a (down_mv_dst size j c) x ;;
          down_loop_f fuel' a' el size (down_next size j c)
        else Good (a, j)
    end.

  Definition down_heap (a : arr) (size : N) : res arr :=
    if down_ret size then Good a else
    el <-- rd a (down_el_ix size) ;;
    x <-- rd a (down_sv_src size) ;;
    a1 <-- wr a (down_sv_dst size) x ;;
    r <-- down_loop_f (heap_fuel size) a1 el size (down_j0 size) ;;
    wr (fst r) (down_fin_ix size (snd r)) el.

  (* ---- the macros: interpreter of the regenerated effect lists ---- *)
  Record qstate := mkq { q_f : qf; q_arr : arr }.

  (* [e]: the element argument of the macro (if it has one), [n]: its numeric argument *)
  Definition run_op (e : option A) (n : N) (op : qop) (s : qstate) : res (qstate * qval A) :=
    let f := q_f s in
    match op with
    | QAssert c => if c f n then Good (s, VUnit) else Bad AssertFail
    | QSet fld v => Good (mkq (qf_set fld (v f n) f) (q_arr s), VUnit)
    | QAlloc m => Good (mkq f (repeat None (N.to_nat (m f n))), VUnit)
    | QFree => Good (mkq f [], VUnit)
    | QWrite ix =>
        match e with
        | Some x => a' <-- wr (q_arr s) (ix f n) x ;; Good (mkq f a', VUnit)
        | None => Bad BadOp
        end
    | QRead ix => x <-- rd (q_arr s) (ix f n) ;; Good (s, VElt x)
    | QNum v => Good (s, VNum (v f n))
    | QBool v => Good (s, VBool (v f n))
    | QUp arg => a' <-- up_heap (q_arr s) (arg f n) ;; Good (mkq f a', VUnit)
    | QDown arg => a' <-- down_heap (q_arr s) (arg f n) ;; Good (mkq f a', VUnit)
    end.

  Fixpoint run_ops (e : option A) (n : N) (ops : list qop) (s : qstate) (v : qval A) : res (qstate * qval A) :=
    match ops with
    | [] => Good (s, v)
    | op :: r => sv <-- run_op e n op s ;; run_ops e n r (fst sv) (snd sv)
    end.

  Definition run_macro (ops : list qop) (e : option A) (n : N) (s : qstate) : res (qstate * qval A) :=
    run_ops e n ops s VUnit.

  Definition want_unit (r : res (qstate * qval A)) : res qstate :=
    sv <-- r ;; match snd sv with VUnit => Good (fst sv) | _ => Bad BadOp end.
  Definition want_elt (r : res (qstate * qval A)) : res (A * qstate) :=
    sv <-- r ;; match snd sv with VElt x => Good (x, fst sv) | _ => Bad BadOp end.
  Definition want_num (r : res (qstate * qval A)) : res N :=
    sv <-- r ;; match snd sv with VNum x => Good x | _ => Bad BadOp end.
  Definition want_bool (r : res (qstate * qval A)) : res bool :=
    sv <-- r ;; match snd sv with VBool x => Good x | _ => Bad BadOp end.

  Definition q0 : qstate := mkq (mkqf 0 0 0) [].

  (* deque *)
  Definition dq_init (n : N) : res qstate := want_unit (run_macro dq_init_prog None n q0).
  Definition dq_uninit (s : qstate) : res qstate := want_unit (run_macro dq_uninit_prog None 0 s).
  Definition q_size (s : qstate) : res N := want_num (run_macro q_size_prog None 0 s).
  Definition q_empty (s : qstate) : res bool := want_bool (run_macro q_empty_prog None 0 s).
  Definition dq_get (s : qstate) (i : N) : res A := x <-- want_elt (run_macro dq_get_prog None i s) ;; Good (fst x).
  Definition dq_set (s : qstate) (i : N) (x : A) : res qstate := want_unit (run_macro dq_set_prog (Some x) i s).
  Definition dq_shift (s : qstate) : res (A * qstate) := want_elt (run_macro dq_shift_prog None 0 s).
  Definition dq_unshift (s : qstate) (x : A) : res qstate := want_unit (run_macro dq_unshift_prog (Some x) 0 s).
  Definition dq_push (s : qstate) (x : A) : res qstate := want_unit (run_macro dq_push_prog (Some x) 0 s).
  Definition dq_pop (s : qstate) : res (A * qstate) := want_elt (run_macro dq_pop_prog None 0 s).

  (* priority queue *)
  Definition pq_init (n : N) : res qstate := want_unit (run_macro pq_init_prog None n q0).
  Definition pq_uninit (s : qstate) : res qstate := want_unit (run_macro pq_uninit_prog None 0 s).
  Definition pq_peek (s : qstate) : res A := x <-- want_elt (run_macro pq_peek_prog None 0 s) ;; Good (fst x).
  Definition pq_enqueue (s : qstate) (x : A) : res qstate := want_unit (run_macro pq_enqueue_prog (Some x) 0 s).
  Definition pq_dequeue (s : qstate) : res (A * qstate) := want_elt (run_macro pq_dequeue_prog None 0 s).
End Model.

Arguments qstate A : clear implicits.
Arguments arr A : clear implicits.
