(* C05/C06, retrieve(): the header blocks of the model (Safe/RetrModel.v) read what Format.read_block reads
   (residual programs K_* and abstract values R_* of Safe/RetrSpec.v): origin pointer and bitmap. *)
From Coq Require Import List NArith Arith Bool Lia ZifyBool ZifyNat ZifyN.
From LBZ Require Import Common.Bits Gen.Consts Gen.DecTabs Dec.Prog Dec.Format Dec.Sim Dec.Policies Safe.TreeModel Safe.TreeLemmas
                        Safe.RetrModel Safe.RetrChunk Safe.RetrInv Safe.RetrStepHdr Safe.RetrSpec.
From LBZ Require Import Dec.Delta Dec.DecProofs.
From LBZ Require Safe.SlideModel Safe.SlideProofs.
Import ListNotations.
Local Open Scope N_scope.

(* ---- the stream only depends on v, w ---------------------------------------------------------------------- *)
Lemma strm_frame c c' nx : c_v c' = c_v c -> c_w c' = c_w c -> strm c' nx = strm c nx.
Proof. intros Ev Ew. unfold strm, bufq. rewrite Ev, Ew. reflexivity. Qed.

(* TAKE(x, k) with the stream: c0 is the core the stream is stated for, c1 the core after the store *)
Lemma take_st c k : buf_ok c -> 1 <= k -> k <= c_w c ->
  exists x v', peek c k = XV x /\ x < 2 ^ k /\
    forall c1, c_v c1 = c_v c -> c_w c1 = c_w c ->
      dump c1 k = XV (set_c_w (set_c_v c1 v') (c_w c - k)) /\ buf_ok (set_c_w (set_c_v c1 v') (c_w c - k)) /\
      forall c0 nx, c_v c0 = c_v c -> c_w c0 = c_w c ->
        run (take (N.to_nat k)) (strm c0 nx) = Ok (x, strm (set_c_w (set_c_v c1 v') (c_w c - k)) nx).
Proof.
  intros (q & Hb) H1 H2. destruct (take_ok c q k Hb H1 H2) as (Ep & Hx & Hd).
  exists (q / 2 ^ (c_w c - k)), ((c_v c * 2 ^ k) mod 2 ^ 64). split; [exact Ep|]. split; [exact Hx|].
  intros c1 Ev Ew. destruct (Hd c1 Ev Ew) as (c' & Ed & -> & Hb'). split; [exact Ed|].
  split; [exists (q mod 2 ^ (c_w c - k)); exact Hb'|].
  intros c0 nx Ev0 Ew0. rewrite (strm_frame c c0 nx Ev0 Ew0).
  apply (strm_take c q k _ nx Hb H2 Hb'). dcore c1. reflexivity.
Qed.

(* PEEK(k) with the stream *)
Lemma peek_st c k : buf_ok c -> 1 <= k -> k <= c_w c ->
  exists x, peek c k = XV x /\ x < 2 ^ k /\
    forall c0 nx, c_v c0 = c_v c -> c_w c0 = c_w c -> exists tl, strm c0 nx = bits_msb (N.to_nat k) x ++ tl.
Proof.
  intros (q & Hb) H1 H2. destruct (take_ok c q k Hb H1 H2) as (Ep & Hx & Hd).
  exists (q / 2 ^ (c_w c - k)). split; [exact Ep|]. split; [exact Hx|].
  intros c0 nx Ev0 Ew0. destruct (Hd c eq_refl eq_refl) as (c' & Ed & E' & Hb').
  exists (strm c' nx). rewrite (strm_frame c c0 nx Ev0 Ew0). apply (strm_split c q k c' nx Hb H2 Hb').
  subst c'. dcore c. reflexivity.
Qed.

(* DUMP(k) with the stream *)
Lemma dump_st c k : buf_ok c -> k <= c_w c ->
  exists v', forall c1, c_v c1 = c_v c -> c_w c1 = c_w c ->
    dump c1 k = XV (set_c_w (set_c_v c1 v') (c_w c - k)) /\ buf_ok (set_c_w (set_c_v c1 v') (c_w c - k)) /\
    forall c0 nx, c_v c0 = c_v c -> c_w c0 = c_w c ->
      strm (set_c_w (set_c_v c1 v') (c_w c - k)) nx = skipn (N.to_nat k) (strm c0 nx).
Proof.
  intros (q & Hb) H2. exists ((c_v c * 2 ^ k) mod 2 ^ 64). intros c1 Ev Ew.
  destruct (dump_ok c1 q k (buf_is_frame c c1 q Ev Ew Hb) ltac:(lia)) as (c' & Ed & E' & Hb').
  rewrite Ev, Ew in E'. subst c'. split; [exact Ed|]. split; [eexists; exact Hb'|].
  intros c0 nx Ev0 Ew0. rewrite (strm_frame c c0 nx Ev0 Ew0).
  rewrite Ew in Hb'.
  rewrite (strm_split c q k _ nx Hb H2 Hb') by (dcore c1; reflexivity).
  rewrite skipn_app, bits_msb_length, Nat.sub_diag. cbn [skipn].
  rewrite skipn_all2 by (rewrite bits_msb_length; lia). reflexivity.
Qed.

(* goal: ... x <== peek cp k ;; c <== dump (store cp x) k ;; ...   with Hb0 : buf_ok c0, c0 having the v, w of cp;
   Hr : what take k does on the stream *)
Ltac takes Hb0 k x v' Hx Hb' Hr :=
  let Ep := fresh "Ep" in let Hd := fresh "Hd" in let Ed := fresh "Ed" in
  match goal with |- context [peek ?cp k] =>
    destruct (take_st cp k) as (x & v' & Ep & Hx & Hd);
    [ refine (buf_ok_frame _ _ eq_refl eq_refl Hb0) | rsa; lia | rsa; lia | ];
    rewrite Ep; cbn [bindB];
    match goal with |- context [dump ?c1 k] =>
      destruct (Hd c1 eq_refl eq_refl) as (Ed & Hb' & Hr); rewrite Ed; cbn [bindB]; clear Ep Hd Ed
    end
  end.

(* behind NEED(S_BWT_IDX) *)
Lemma ref_bwt c f nx : J_bwt c -> buf_ok c -> 32 <= c_w c ->
  exists c', after_bwt_idx c = BNeed S_bitmap_big c' /\ R_big c' (d_rand c') (d_bwt_idx c') /\
             run (K_start f) (strm c nx) = run (K_big f (d_rand c') (d_bwt_idx c')) (strm c' nx).
Proof.
  intros HJ Hb Hw.
  enough (H : match after_bwt_idx c with
              | BNeed S_bitmap_big c' => R_big c' (d_rand c') (d_bwt_idx c') /\
                   run (K_start f) (strm c nx) = run (K_big f (d_rand c') (d_bwt_idx c')) (strm c' nx)
              | _ => False end).
  { destruct (after_bwt_idx c) as [p c'|s c'|code c'|c'|ff]; try contradiction.
    destruct s; try contradiction. exists c'. split; [reflexivity|exact H]. }
  dcore c. unfold after_bwt_idx. unfold J_bwt, shape, tt0 in HJ. rsa.
  takes Hb 1 rnd v1 Hrnd Hb1 Hr1. rsa.
  takes Hb1 24 idx v2 Hidx Hb2 Hr2. rsa.
  split.
  - unfold R_big, J_big, J_bwt, shape, tt0. rsa. repeat split; try apply HJ; assumption.
  - unfold K_start. rewrite run_bind.
    change (N.to_nat 1) with 1%nat in Hr1. rewrite Hr1 by reflexivity.
    rewrite run_bind. change (N.to_nat 24) with 24%nat in Hr2. rewrite Hr2 by reflexivity. reflexivity.
Qed.

(* ---- bits of 16-bit words ---------------------------------------------------------------------------------- *)
Lemma W16_pow : W16 = 2 ^ 16. Proof. reflexivity. Qed.

(* bit 15 of a shifted 16-bit word *)
Lemma shl_bit15 s a : (a <= 15)%nat -> N.testbit ((s * 2 ^ N.of_nat a) mod 2 ^ 16) 15 = testbit16 s a.
Proof.
  intro Ha. rewrite N.mod_pow2_bits_low by lia. rewrite N.mul_pow2_bits_high by lia. unfold testbit16.
  f_equal. lia.
Qed.

Lemma shl_step s a : ((s * 2 ^ N.of_nat a) mod 2 ^ 16 * 2) mod 2 ^ 16 = (s * 2 ^ N.of_nat (S a)) mod 2 ^ 16.
Proof.
  rewrite N.mul_mod_idemp_l by discriminate. rewrite Nat2N.inj_succ, N.pow_succ_r'. f_equal. lia.
Qed.

Lemma land_bit15 x : (N.land x 32768 =? 0) = negb (N.testbit x 15).
Proof.
  change 32768 with (2 ^ 15). destruct (N.testbit x 15) eqn:E; cbn [negb].
  - apply N.eqb_neq. intro H. assert (T : N.testbit (N.land x (2 ^ 15)) 15 = true).
    { rewrite N.land_spec, E, N.pow2_bits_true. reflexivity. }
    rewrite H in T. rewrite N.bits_0 in T. discriminate.
  - apply N.eqb_eq. apply N.bits_inj_0. intro m. rewrite N.land_spec, N.pow2_bits_eqb.
    destruct (N.eqb_spec 15 m) as [<-|]; [rewrite E; reflexivity|apply andb_false_r].
Qed.

Lemma topbits_map : forall n s a, (a + n <= 16)%nat ->
  topbits n ((s * 2 ^ N.of_nat a) mod 2 ^ 16) = map (testbit16 s) (seq a n).
Proof.
  induction n as [|n IH]; intros s a H; [reflexivity|].
  cbn [topbits seq map]. rewrite shl_bit15 by lia. f_equal.
  rewrite W16_pow, shl_step. apply IH. lia.
Qed.

Lemma topbits16_map s : s < 2 ^ 16 -> topbits 16 s = map (testbit16 s) (seq 0 16).
Proof.
  intro H. rewrite <- (topbits_map 16 s 0) by lia. f_equal.
  change (2 ^ N.of_nat 0) with 1. rewrite N.mul_1_r, N.mod_small by exact H. reflexivity.
Qed.

Lemma used_from_map (g : nat -> bool) base : forall n a,
  SlideModel.used_from (base + N.of_nat a) (map g (seq a n)) = map (fun t => base + N.of_nat t) (filter g (seq a n)).
Proof.
  induction n as [|n IH]; intro a; [reflexivity|].
  cbn [seq map filter SlideModel.used_from].
  replace (base + N.of_nat a + 1) with (base + N.of_nat (S a)) by lia. rewrite IH.
  destruct (g a); reflexivity.
Qed.

Lemma used_from_app : forall f1 f2 j,
  SlideModel.used_from j (f1 ++ f2) = SlideModel.used_from j f1 ++ SlideModel.used_from (j + N.of_nat (length f1)) f2.
Proof.
  induction f1 as [|b r IH]; intros f2 j; cbn [app SlideModel.used_from length].
  - replace (j + N.of_nat 0) with j by lia. reflexivity.
  - rewrite IH. replace (j + 1 + N.of_nat (length r)) with (j + N.of_nat (S (length r))) by lia.
    destruct b; reflexivity.
Qed.

(* the bytes of range i *)
Lemma used_of_range flags i s : length flags = (16 * i)%nat -> s < 2 ^ 16 ->
  SlideModel.used_of (flags ++ topbits 16 s) = SlideModel.used_of flags ++ range_bytes i s.
Proof.
  intros Hl Hs. unfold SlideModel.used_of. rewrite used_from_app. f_equal.
  rewrite topbits16_map by exact Hs. rewrite Hl.
  replace (0 + N.of_nat (16 * i)) with (16 * N.of_nat i + N.of_nat 0) by lia.
  rewrite used_from_map. reflexivity.
Qed.

Lemma range_bytes_0 i : range_bytes i 0 = [].
Proof. reflexivity. Qed.

(* ---- the residual programs ---------------------------------------------------------------------------------- *)
(* range i+1 is skipped *)
Lemma K_inner_skip f rnd idx big i used sm s : (i < 15)%nat -> testbit16 big (S i) = false ->
  run (K_inner f rnd idx big i used sm) s = run (K_inner f rnd idx big (S i) (used ++ range_bytes i sm) 0) s.
Proof.
  intros Hi Hb. unfold K_inner. replace (15 - i)%nat with (S (15 - S i)) by lia.
  cbn [read_smalls]. rewrite Hb. rewrite !run_bind.
  destruct (run (read_smalls big (S (S i)) (15 - S i)) s) as [[rest r]|e]; [|reflexivity].
  rewrite range_bytes_0. cbn [app]. rewrite <- app_assoc. reflexivity.
Qed.

(* range i+1 is present: its 16 bits are read *)
Lemma K_inner_take f rnd idx big i used sm s sm' r : (i < 15)%nat -> testbit16 big (S i) = true ->
  run (take 16) s = Ok (sm', r) ->
  run (K_inner f rnd idx big i used sm) s = run (K_inner f rnd idx big (S i) (used ++ range_bytes i sm) sm') r.
Proof.
  intros Hi Hb Ht. unfold K_inner. replace (15 - i)%nat with (S (15 - S i)) by lia.
  cbn [read_smalls]. rewrite Hb. rewrite !run_bind. rewrite Ht. rewrite !run_bind.
  destruct (run (read_smalls big (S (S i)) (15 - S i)) r) as [[rest r']|e]; [|reflexivity].
  cbn [run]. fold (range_bytes (S i) sm'). rewrite <- app_assoc. reflexivity.
Qed.

(* all ranges done *)
Lemma K_inner_last f rnd idx big used sm s :
  run (K_inner f rnd idx big 15 used sm) s = run (K_post f rnd idx (used ++ range_bytes 15 sm)) s.
Proof. unfold K_inner. cbn [Nat.sub read_smalls bind]. rewrite app_nil_r. reflexivity. Qed.

(* ---- one unary-coded selector against sel_table ------------------------------------------------------------- *)
Lemma sel_table_fz x : x < 64 -> nth (N.to_nat x) sel_table 0 = first_zero x.
Proof.
  intro H. pose proof sel_table_ok_true as A. unfold sel_table_ok in A. rewrite forallb_forall in A.
  specialize (A (N.to_nat x)). rewrite in_seq in A. specialize (A ltac:(lia)). rewrite N2Nat.id in A.
  apply N.eqb_eq in A. exact A.
Qed.

Lemma unary6 x n rest : (n <= 6)%nat ->
  run (read_unary n 0) (bits_msb 6 x ++ rest) =
  if first_zero x <=? N.of_nat n then Ok (first_zero x - 1, skipn (N.to_nat (first_zero x)) (bits_msb 6 x ++ rest))
  else Err ErrSelector.
Proof.
  intro Hn. unfold first_zero. cbn [bits_msb app]. 
  change (N.of_nat 5) with 5. change (N.of_nat 4) with 4. change (N.of_nat 3) with 3. change (N.of_nat 2) with 2.
  change (N.of_nat 1) with 1. change (N.of_nat 0) with 0.
  destruct n as [|[|[|[|[|[|[|n]]]]]]]; [| | | | | | | lia];
  destruct (N.testbit x 5); try reflexivity;
  destruct (N.testbit x 4); try reflexivity;
  destruct (N.testbit x 3); try reflexivity;
  destruct (N.testbit x 2); try reflexivity;
  destruct (N.testbit x 1); try reflexivity;
  destruct (N.testbit x 0); reflexivity.
Qed.

(* the selector loop with the first selector read *)
Lemma K_sels_first f h s v r : 1 <= h_ns h ->
  run (read_unary (N.to_nat (h_nt h)) 0) s = Ok (v, r) ->
  run (K_sels f h []) s = run (K_sels f h [v]) r.
Proof.
  intros Hns Hu. unfold K_sels. cbn [length].
  replace (N.to_nat (h_ns h) - 0)%nat with (S (N.to_nat (h_ns h) - 1)) by lia.
  cbn [repeat_prog]. rewrite !run_bind. rewrite Hu. rewrite !run_bind.
  destruct (run (repeat_prog (N.to_nat (h_ns h) - 1) (read_unary (N.to_nat (h_nt h)) 0)) r) as [[more r']|e]; reflexivity.
Qed.

Lemma K_sels_fail f h s e : 1 <= h_ns h ->
  run (read_unary (N.to_nat (h_nt h)) 0) s = Err e -> run (K_sels f h []) s = Err e.
Proof.
  intros Hns Hu. unfold K_sels. cbn [length].
  replace (N.to_nat (h_ns h) - 0)%nat with (S (N.to_nat (h_ns h) - 1)) by lia.
  cbn [repeat_prog]. rewrite !run_bind. rewrite Hu. reflexivity.
Qed.

(* K_post step by step *)
Lemma K_post_empty f rnd idx used s : length used = 0%nat -> run (K_post f rnd idx used) s = Err ErrBitmap.
Proof. intro H. unfold K_post. rewrite H. reflexivity. Qed.

Lemma K_post_nt f rnd idx used s nt r : length used <> 0%nat -> run (take 3) s = Ok (nt, r) ->
  run (K_post f rnd idx used) s =
  run (_ <- guard ((2 <=? nt) && (nt <=? 6)) ErrTrees ;; ns <- take 15 ;; _ <- guard (negb (ns =? 0)) ErrGroups ;;
       K_sels f (mk_hdr rnd idx used nt ns) []) r.
Proof.
  intros H Ht. unfold K_post. destruct (N.eqb_spec (N.of_nat (length used)) 0) as [E|E]; [lia|].
  cbn [negb guard bind]. rewrite run_bind, Ht. reflexivity.
Qed.

(* from the entry of the inner bitmap loop of range i to the next NEED *)
Lemma ref_inner : forall n c rnd idx big i used f nx, R_small c rnd idx big i used -> buf_ok c -> (16 - i <= n)%nat -> 16 <= c_w c ->
  (32 <= c_w c \/ (r_alpha_size c = 0 /\ r_small c = 0)) ->
  match bitmap_from_inner n c with
  | BNeed S_bitmap_small c' =>
      exists i' used', R_small c' rnd idx big i' used' /\
        run (K_inner f rnd idx big i used (r_small c)) (strm c nx) = run (K_inner f rnd idx big i' used' (r_small c')) (strm c' nx)
  | BNeed S_selector_mtf c' =>
      exists h selm, R_sel c' h selm /\
        run (K_inner f rnd idx big i used (r_small c)) (strm c nx) = run (K_sels f h selm) (strm c' nx)
  | BRet _ _ => exists e, run (K_inner f rnd idx big i used (r_small c)) (strm c nx) = Err e
  | _ => True
  end.
Proof.
  induction n as [|n IH]; intros c rnd idx big i used f nx HR Hb Hn Hw Hd.
  - destruct HR as (flags & (_ & Hi & _) & _). lia.
  - destruct HR as (flags & HJ & Ernd & Eidx & Eused & Hbig16 & Ebig).
    cbn [bitmap_from_inner].
    destruct (inner_ok c i flags HJ) as (a' & alpha' & Ei & Hla & HF' & Hz). rewrite Ei. cbn [bindB].
    destruct HJ as (HJ & Hi & Hj & Hlen & _ & Hs & Hbg).
    remember (strm c nx) as S0 eqn:ES0.
    unfold with_bitmap. dcore c. unfold J_big, J_bwt, shape, tt0 in HJ. rsa.
    cbn [SlideModel.s_rows SlideModel.s_slide] in *.
    destruct HJ as (((S1 & S2 & S3 & S4 & S5 & S6 & S7) & T1 & T2) & R1 & R2).
    subst rnd idx used.
    assert (ES : forall c0, c_v c0 = xv -> c_w c0 = xw -> strm c0 nx = S0).
    { intros c0 E1 E2. subst S0. apply strm_frame; assumption. }
    pose proof (used_of_range flags i xsmall Hlen Hs) as Hur.
    assert (Ebig2 : (xbig * 2) mod W16 = (big * 2 ^ N.of_nat (S i)) mod 2 ^ 16) by (rewrite Ebig, W16_pow; apply shl_step).
    rewrite Ebig2.
    assert (Hbig : (big * 2 ^ N.of_nat (S i)) mod 2 ^ 16 < 2 ^ 16) by (apply N.mod_lt; discriminate).
    assert (Hfl : length (flags ++ topbits 16 xsmall) = (16 * S i)%nat) by (rewrite app_length, topbits_length; lia).
    destruct (N.ltb_spec (16 * N.of_nat (S i)) 256) as [Hlt|Hge].
    + rewrite land_bit15, shl_bit15 by lia. rewrite negb_involutive.
      destruct (testbit16 big (S i)) eqn:Etb.
      * (* TAKE(rs->small, 16); NEED(S_BITMAP_SMALL) *)
        takes Hb 16 sm v1 Hsm Hb1 Hr1. rsa.
        exists (S i), (SlideModel.used_of flags ++ range_bytes i xsmall). split.
        -- exists (flags ++ topbits 16 xsmall).
           unfold J_bm, J_big, J_bwt, shape, tt0, filled. rsa. cbn [SlideModel.s_slide].
           repeat apply conj; try assumption; try lia; try reflexivity. symmetry; exact Hur.
        -- apply K_inner_take; [lia|exact Etb|]. subst S0. apply Hr1; reflexivity.
      * (* next range skipped: small = 0 *)
        match goal with |- context [bitmap_from_inner n ?c2] =>
          assert (HR2 : R_small c2 xrand xidx big (S i) (SlideModel.used_of flags ++ range_bytes i xsmall));
          [|assert (Hb2 : buf_ok c2) by (refine (buf_ok_frame _ _ eq_refl eq_refl Hb));
            specialize (IH c2 xrand xidx big (S i) (SlideModel.used_of flags ++ range_bytes i xsmall) f nx HR2 Hb2 ltac:(lia))]
        end.
        { exists (flags ++ topbits 16 xsmall).
          unfold J_bm, J_big, J_bwt, shape, tt0, filled. rsa. cbn [SlideModel.s_slide].
          repeat apply conj; try assumption; try lia; try reflexivity. symmetry; exact Hur. }
        rsa. specialize (IH Hw).
        assert (Hd2 : 32 <= xw \/ alpha' = 0 /\ 0 = 0).
        { destruct Hd as [H|[E1 E2]]; [left; exact H|right; split; [apply Hz; assumption|reflexivity]]. }
        specialize (IH Hd2).
        rewrite (K_inner_skip f xrand xidx big i (SlideModel.used_of flags) xsmall S0) by (lia || exact Etb).
        rewrite ES in IH by reflexivity.
        match goal with |- context [bitmap_from_inner n ?c2] => destruct (bitmap_from_inner n c2) as [p c'|s c'|code c'|c'|ff] end;
          try exact IH.
    + (* all 16 ranges done *)
      assert (Ei15 : i = 15%nat) by lia. subst i.
      rewrite K_inner_last.
      unfold post_bitmap. cbv zeta. rsa.
      destruct HF' as (junk' & Hjl' & HF').
      assert (Hl256 : (length (flags ++ topbits 16 xsmall) <= 256)%nat) by lia.
      destruct (fill_alpha _ _ _ _ Hjl' Hl256 HF') as (Ha' & _).
      pose proof (SlideProofs.used_from_length (flags ++ topbits 16 xsmall) 0) as Hu.
      fold (SlideModel.used_of (flags ++ topbits 16 xsmall)) in Hu.
      set (used' := SlideModel.used_of flags ++ range_bytes 15 xsmall) in *.
      destruct (N.eqb_spec alpha' 0) as [Ez|Hnz].
      { exists ErrBitmap. apply K_post_empty. rewrite Hur in Ha'. lia. }
      assert (Hw32 : 32 <= xw).
      { destruct Hd as [H|[E1 E2]]; [exact H|]. exfalso. apply Hnz. apply Hz; assumption. }
      rewrite add32_small by (rewrite W32_val; lia).
      takes Hb 3 nt v1 Hnt Hb1 Hr1. rsa.
      rewrite (K_post_nt f xrand xidx used' S0 nt _ ltac:(rewrite Hur in Ha'; lia) ltac:(subst S0; apply Hr1; reflexivity)).
      rewrite run_bind.
      destruct ((nt <? MIN_TREES) || (MAX_TREES <? nt)) eqn:Ent.
      { exists ErrTrees. change MIN_TREES with 2 in Ent. change MAX_TREES with 6 in Ent.
        replace ((2 <=? nt) && (nt <=? 6)) with false by lia. reflexivity. }
      apply orb_false_elim in Ent. destruct Ent as [Ent1 Ent2]. apply N.ltb_ge in Ent1, Ent2.
      change MIN_TREES with 2 in Ent1. change MAX_TREES with 6 in Ent2.
      replace ((2 <=? nt) && (nt <=? 6)) with true by lia. cbn [guard run].
      rewrite run_bind.
      takes Hb1 15 ns v2 Hns Hb2 Hr2. rsa.
      change (N.to_nat 15) with 15%nat in Hr2. rewrite Hr2 by reflexivity. rewrite run_bind.
      destruct (N.eqb_spec ns 0) as [Ens|Hns0].
      { exists ErrGroups. reflexivity. }
      cbn [negb guard run].
      unfold sel_head. rsa.
      destruct (N.ltb_spec 0 ns) as [Hns1|Hns1]; [|lia].
      match goal with |- context [peek ?cp 6] =>
        destruct (peek_st cp 6) as (x & Ep & Hx & Hst);
          [refine (buf_ok_frame _ _ eq_refl eq_refl Hb2)|rsa; lia|rsa; lia|] end.
      rewrite Ep. cbn [bindB]. change (2 ^ 6) with 64 in Hx.
      rewrite xget_ok by (rewrite sel_table_len; lia). cbn [bindB].
      pose proof (sel_table_range x Hx) as Hk. pose proof (sel_table_fz x Hx) as Ek.
      set (k := nth (N.to_nat x) sel_table 0) in *.
      set (h := mk_hdr xrand xidx used' nt ns).
      match goal with |- context [run (K_sels f h []) (strm ?c0 nx)] =>
        destruct (Hst c0 nx eq_refl eq_refl) as (tl & Etl);
        assert (Eun : run (read_unary (N.to_nat (h_nt h)) 0) (strm c0 nx) =
                      if k <=? nt then Ok (k - 1, skipn (N.to_nat k) (strm c0 nx)) else Err ErrSelector)
      end.
      { rewrite Etl. change (N.to_nat 6) with 6%nat. cbn [h h_nt]. rewrite unary6 by lia. rewrite <- Ek.
        rewrite N2Nat.id. reflexivity. }
      destruct (N.ltb_spec nt k) as [Hkt|Hkt].
      { exists ErrSelector. apply K_sels_fail; [cbn [h h_ns]; lia|]. rewrite Eun.
        destruct (N.leb_spec k nt); [lia|reflexivity]. }
      destruct (N.leb_spec k nt) as [_|]; [|lia].
      rewrite xset_ok by lia. cbn [bindB]. rsa.
      match goal with |- context [dump ?cp k] =>
        destruct (dump_st cp k) as (v3 & Hd3);
          [refine (buf_ok_frame _ _ eq_refl eq_refl Hb2)|rsa; lia|];
        destruct (Hd3 cp eq_refl eq_refl) as (Ed & Hb3 & Hsk) end.
      rewrite Ed. cbn [bindB]. rsa.
      exists h, [k - 1]. split.
      * exists (flags ++ topbits 16 xsmall). split; [|split].
        -- unfold J_selN, J_hdr, J_big, J_bwt, shape, tt0, filled, sels_ok, sel. rsa. cbn [SlideModel.s_slide].
           repeat apply conj; try assumption; try lia.
           ++ rewrite upd_length. exact S1.
           ++ exists junk'. split; [exact Hjl'|]. rewrite <- Ha'. exact HF'.
           ++ intros j Hj0. assert (j = 0) by lia. subst j. rewrite nth_upd_same by lia.
              rewrite sub32_small by (rewrite ?W32_val; lia). rewrite N.mod_small by (change W8 with 256; lia). lia.
        -- unfold R_hdr, J_hdr, J_big, J_bwt, shape, tt0, filled. rsa. cbn [SlideModel.s_slide h h_used h_rnd h_idx h_nt h_ns].
           repeat apply conj; try assumption; try lia; try reflexivity.
           ++ rewrite upd_length. exact S1.
           ++ exists junk'. split; [exact Hjl'|]. rewrite <- Ha'. exact HF'.
           ++ symmetry; exact Hur.
        -- rsa. change (N.to_nat 0 + 1)%nat with 1%nat.
           destruct xsel as [|s0 xsel']; [cbn in S1; lia|]. cbn [N.to_nat upd firstn].
           rewrite sub32_small by (rewrite ?W32_val; lia). rewrite N.mod_small by (change W8 with 256; lia). reflexivity.
      * apply K_sels_first; [cbn [h h_ns]; lia|]. rewrite Eun. f_equal. f_equal. symmetry. apply Hsk; reflexivity.
Qed.

(* behind the 16 bits of big: range 0 present / skipped *)
Lemma K_smalls_take_gen f rnd idx big s sm r n : testbit16 big 0 = true -> run (take 16) s = Ok (sm, r) ->
  run (K_smalls f rnd idx big 0 (S n) []) s =
  run (rest <- read_smalls big 1 n ;; K_post f rnd idx ([] ++ range_bytes 0 sm ++ rest)) r.
Proof.
  intros Hb Ht. unfold K_smalls. cbn [read_smalls]. rewrite Hb. rewrite !run_bind. rewrite Ht. rewrite !run_bind.
  destruct (run (read_smalls big 1 n) r) as [[rest r']|e]; reflexivity.
Qed.

Lemma K_smalls_skip_gen f rnd idx big s n : testbit16 big 0 = false ->
  run (K_smalls f rnd idx big 0 (S n) []) s =
  run (rest <- read_smalls big 1 n ;; K_post f rnd idx ([] ++ range_bytes 0 0 ++ rest)) s.
Proof.
  intros Hb. unfold K_smalls. cbn [read_smalls]. rewrite Hb. rewrite !run_bind.
  destruct (run (read_smalls big 1 n) s) as [[rest r']|e]; reflexivity.
Qed.

Lemma K_smalls_take f rnd idx big s sm r : testbit16 big 0 = true -> run (take 16) s = Ok (sm, r) ->
  run (K_smalls f rnd idx big 0 16 []) s = run (K_inner f rnd idx big 0 [] sm) r.
Proof. intros Hb Ht. rewrite (K_smalls_take_gen f rnd idx big s sm r 15 Hb Ht). reflexivity. Qed.

Lemma K_smalls_skip f rnd idx big s : testbit16 big 0 = false ->
  run (K_smalls f rnd idx big 0 16 []) s = run (K_inner f rnd idx big 0 [] 0) s.
Proof. intros Hb. rewrite (K_smalls_skip_gen f rnd idx big s 15 Hb). reflexivity. Qed.

(* behind NEED(S_BITMAP_BIG) *)
Lemma ref_big c rnd idx f nx : R_big c rnd idx -> buf_ok c -> 32 <= c_w c ->
  match after_bitmap_big c with
  | BNeed S_bitmap_small c' =>
      exists big i' used', R_small c' rnd idx big i' used' /\
        run (K_big f rnd idx) (strm c nx) = run (K_inner f rnd idx big i' used' (r_small c')) (strm c' nx)
  | BRet _ _ => exists e, run (K_big f rnd idx) (strm c nx) = Err e
  | _ => True
  end.
Proof.
  intros (HJ & Ernd & Eidx) Hb Hw. dcore c. unfold after_bitmap_big. unfold J_big, J_bwt, shape, tt0 in HJ. rsa.
  destruct HJ as (((S1 & S2 & S3 & S4 & S5 & S6 & S7) & T1 & T2) & R1 & R2).
  subst rnd idx.
  takes Hb 16 big v1 Hbig Hb1 Hr1. cbv zeta. rsa.
  unfold K_big. rewrite run_bind. change (N.to_nat 16) with 16%nat in Hr1. rewrite Hr1 by reflexivity.
  match goal with |- context [bitmap_from_inner 16 ?c2] =>
    assert (HR2 : forall sm, sm < 2 ^ 16 -> R_small (set_r_small c2 sm) xrand xidx big 0 []) end.
  { intros sm Hsm. exists []. unfold J_bm, J_big, J_bwt, shape, tt0, filled. rsa.
    repeat apply conj; try assumption; try lia; try reflexivity.
    exists (SlideModel.s_slide xslide). split; [exact S6|reflexivity]. }
  rewrite land_bit15. rewrite negb_involutive. change (N.testbit big 15) with (testbit16 big 0).
  destruct (testbit16 big 0) eqn:Etb.
  - takes Hb1 16 sm v2 Hsm Hb2 Hr2. rsa.
    exists big, 0%nat, []. split; [exact (HR2 sm Hsm)|].
    apply K_smalls_take; [exact Etb|]. apply Hr2; reflexivity.
  - rewrite K_smalls_skip by exact Etb.
    match goal with |- context [bitmap_from_inner 16 ?c2] =>
      pose proof (ref_inner 16 c2 xrand xidx big 0%nat [] f nx (HR2 0 ltac:(lia))
                    (buf_ok_frame _ _ eq_refl eq_refl Hb1)) as H; rsa;
      specialize (H ltac:(lia) ltac:(lia) (or_intror (conj eq_refl eq_refl)));
      destruct (bitmap_from_inner 16 c2) as [p c'|s c'|code c'|c'|ff] end; try exact I.
    + destruct s; try exact I.
      destruct H as (i' & used' & A & B). exists big, i', used'. split; [exact A|exact B].
    + exact H.
Qed.

Print Assumptions ref_bwt.
Print Assumptions ref_inner.
Print Assumptions ref_big.
