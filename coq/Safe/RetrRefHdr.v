(* C05/C06, retrieve(): the header blocks of the model (Safe/RetrModel.v) read what Format.read_block reads
   (residual programs K_* and abstract values R_* of Safe/RetrSpec.v): origin pointer and bitmap. *)
From Coq Require Import List NArith Arith Bool Lia ZifyBool ZifyNat ZifyN.
From LBZ Require Import Common.Bits Gen.Consts Gen.DecTabs Dec.Prog Dec.Format Dec.Sim Dec.Policies Safe.TreeModel Safe.TreeLemmas
                        Safe.RetrModel Safe.RetrChunk Safe.RetrInv Safe.RetrStepHdr Safe.RetrSpec.
From LBZ Require Safe.SlideModel Safe.SlideProofs.
Import ListNotations.
Local Open Scope N_scope.

(* behind NEED(S_BWT_IDX) *)
Lemma ref_bwt c f nx : J_bwt c -> buf_ok c -> 32 <= c_w c ->
  exists c', after_bwt_idx c = BNeed S_bitmap_big c' /\ R_big c' (d_rand c') (d_bwt_idx c') /\
             run (K_start f) (strm c nx) = run (K_big f (d_rand c') (d_bwt_idx c')) (strm c' nx).
Proof.
Abort.

(* from the entry of the inner bitmap loop of range i to the next NEED *)
Lemma ref_inner : forall n c rnd idx big i used f nx, R_small c rnd idx big i used -> buf_ok c -> (16 - i <= n)%nat -> 16 <= c_w c ->
  (32 <= c_w c \/ (r_alpha_size c = 0 /\ r_small c = 0)) ->
  match bitmap_from_inner n c with
  | BNeed S_bitmap_small c' =>
      exists i' used', R_small c' rnd idx big i' used' /\
        run (K_inner f rnd idx big i used (r_small c)) (strm c nx) = run (K_inner f rnd idx big i' used' (r_small c')) (strm c' nx)
  | BNeed S_selector_mtf c' =>
      exists h selm, R_sel c' h selm /\
        run (K_inner f rnd idx big i used (r_small c)) (strm c nx) = run (K_sels f h selm) (strm c' nx)
  | BRet _ _ => exists e, run (K_inner f rnd idx big i used (r_small c)) (strm c nx) = Err e
  | _ => True
  end.
Proof.
Abort.

(* behind NEED(S_BITMAP_BIG) *)
Lemma ref_big c rnd idx f nx : R_big c rnd idx -> buf_ok c -> 32 <= c_w c ->
  match after_bitmap_big c with
  | BNeed S_bitmap_small c' =>
      exists big i' used', R_small c' rnd idx big i' used' /\
        run (K_big f rnd idx) (strm c nx) = run (K_inner f rnd idx big i' used' (r_small c')) (strm c' nx)
  | BRet _ _ => exists e, run (K_big f rnd idx) (strm c nx) = Err e
  | _ => True
  end.
Proof.
Abort.
