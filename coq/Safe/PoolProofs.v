(* Refinement theorems for the queue primitives of src/process.h / src/process.c:
     deque_refines_list      the ring-buffer deque implements a list
     pqueue_refines_sorted   the binary heap implements a position-sorted list
   (the abstractions used by the scheduler models SchedC / SchedX), for every capacity
   1 <= n <= 2^31 and every state satisfying the representation invariant.
   Parts: Safe/PoolDeque.v (deque), Safe/PoolHeap.v (up_heap/down_heap), this file (the
   pqueue macros, the sorted-list abstraction, the packaged statements). *)
From Coq Require Import List NArith ZArith Arith Bool Lia ZifyBool ZifyN ZifyNat Permutation Sorted.
From LBZ Require Import Safe.PoolVocab Gen.PoolTab Safe.PoolModel Safe.PoolLemmas Safe.PoolDeque Safe.PoolHeap.
Import ListNotations.
Local Open Scope N_scope.

Ltac Zify.zify_post_hook ::= Z.div_mod_to_equations.

Definition nilb {T} (l : list T) : bool := match l with [] => true | _ => false end.

(* ==================================================================================== *)
(* deque                                                                                *)
(* ==================================================================================== *)
Section DequeThm.
  Context {A : Type}.
  Variable key : A -> pos.

  Theorem deque_init_refines n : 1 <= n <= UHALF ->
    exists s, dq_init key n = Good s /\ dq_inv s /\ abs_dq s = [] /\ f_modulus (q_f s) = n.
  Proof.
    intro H. destruct (dq_init_rep key n H) as (s & E & R & M). exists s. split; auto. split; [eapply rep_inv; eauto|].
    split; auto. eapply rep_abs; eauto.
  Qed.

  Theorem deque_refines_list (s : qstate A) : dq_inv s ->
    let l := abs_dq s in
    let cap := f_modulus (q_f s) in
    N.of_nat (length l) <= cap /\
    q_size key s = Good (N.of_nat (length l)) /\
    q_empty key s = Good (nilb l) /\
    (forall i x, nth_error l i = Some x -> dq_get key s (N.of_nat i) = Good x) /\
    (forall i x, (i < length l)%nat ->
       exists s', dq_set key s (N.of_nat i) x = Good s' /\ dq_inv s' /\ abs_dq s' = lset l i x /\ f_modulus (q_f s') = cap) /\
    (forall x, N.of_nat (length l) < cap ->
       exists s', dq_push key s x = Good s' /\ dq_inv s' /\ abs_dq s' = l ++ [x] /\ f_modulus (q_f s') = cap) /\
    (forall x, N.of_nat (length l) < cap ->
       exists s', dq_unshift key s x = Good s' /\ dq_inv s' /\ abs_dq s' = x :: l /\ f_modulus (q_f s') = cap) /\
    (forall x r, l = x :: r ->
       exists s', dq_shift key s = Good (x, s') /\ dq_inv s' /\ abs_dq s' = r /\ f_modulus (q_f s') = cap) /\
    (forall r x, l = r ++ [x] ->
       exists s', dq_pop key s = Good (x, s') /\ dq_inv s' /\ abs_dq s' = r /\ f_modulus (q_f s') = cap).
  Proof.
    intros R l cap. unfold dq_inv in R. fold l in R.
    assert (Sz : f_size (q_f s) = N.of_nat (length l)) by apply (r_size _ _ R).
    split; [rewrite <- Sz; apply (r_cap _ _ R)|].
    split; [apply q_size_rep; auto|]. split; [apply q_empty_rep; auto|].
    split; [intros; eapply dq_get_rep; eauto|].
    split; [intros i x Hi; destruct (dq_set_rep key s l i x R Hi) as (s' & E & R' & M)|].
    { exists s'. split; auto. split; [eapply rep_inv; eauto|]. split; auto. eapply rep_abs; eauto. }
    split; [intros x Hx; destruct (dq_push_rep key s l x R ltac:(rewrite Sz; exact Hx)) as (s' & E & R' & M)|].
    { exists s'. split; auto. split; [eapply rep_inv; eauto|]. split; auto. eapply rep_abs; eauto. }
    split; [intros x Hx; destruct (dq_unshift_rep key s l x R ltac:(rewrite Sz; exact Hx)) as (s' & E & R' & M)|].
    { exists s'. split; auto. split; [eapply rep_inv; eauto|]. split; auto. eapply rep_abs; eauto. }
    split.
    - intros x r El. rewrite El in R. destruct (dq_shift_rep key s x r R) as (s' & E & R' & M).
      exists s'. split; auto. split; [eapply rep_inv; eauto|]. split; auto. eapply rep_abs; eauto.
    - intros r x El. rewrite El in R. destruct (dq_pop_rep key s r x R) as (s' & E & R' & M).
      exists s'. split; auto. split; [eapply rep_inv; eauto|]. split; auto. eapply rep_abs; eauto.
  Qed.
End DequeThm.

(* ==================================================================================== *)
(* priority queue                                                                       *)
(* ==================================================================================== *)
Section PQ.
  Context {A : Type}.
  Variable key : A -> pos.

  Record pq_inv (s : qstate A) : Prop := mkpqinv {
    p_size : f_size (q_f s) <= alen (q_arr s);
    p_cap : alen (q_arr s) <= UHALF;
    p_filled : filled (q_arr s) (f_size (q_f s));
    p_heap : heap_ord key (q_arr s) (f_size (q_f s))
  }.

  (* the heap content: cells [0, size) *)
  Definition pq_elems (s : qstate A) : list A := somes (firstn (N.to_nat (f_size (q_f s))) (q_arr s)).

  (* the abstraction used by SchedC/Pool.v: the elements in increasing position order,
     insertion AFTER equal keys *)
  Fixpoint pq_insert (x : A) (q : list A) : list A :=
    match q with
    | [] => [x]
    | y :: t => if pos_lt (key x) (key y) then x :: y :: t else y :: pq_insert x t
    end.
  Definition isort (l : list A) : list A := fold_right pq_insert [] l.
  Definition abs_pq (s : qstate A) : list A := isort (pq_elems s).

  Definition sorted (l : list A) : Prop := StronglySorted (lea key) l.

  (* ---- sorted lists ---- *)
  Lemma pq_insert_perm x q : Permutation (pq_insert x q) (x :: q).
  Proof.
    induction q as [|y q IH]; cbn; auto. destruct (pos_lt (key x) (key y)); auto.
    rewrite IH. apply perm_swap.
  Qed.

  Lemma pq_insert_sorted x q : sorted q -> sorted (pq_insert x q).
  Proof.
    unfold sorted. induction q as [|y q IH]; cbn; intros S.
    - repeat constructor.
    - inversion S as [|? ? S1 S2]; subst. destruct (pos_lt (key x) (key y)) eqn:E.
      + constructor; auto. constructor.
        * apply plt_ple. exact E.
        * rewrite Forall_forall in *. intros z Hz. eapply plt_ple_trans; [exact E|]. apply S2; auto.
      + constructor; auto. rewrite Forall_forall in *. intros z Hz.
        apply (Permutation_in _ (pq_insert_perm x q)) in Hz. destruct Hz as [<-|Hz]; [exact E|auto].
  Qed.

  Lemma isort_perm l : Permutation (isort l) l.
  Proof. induction l as [|x l IH]; cbn; auto. rewrite pq_insert_perm. auto. Qed.

  Lemma isort_sorted l : sorted (isort l).
  Proof. induction l as [|x l IH]; cbn; [constructor|apply pq_insert_sorted; auto]. Qed.

  Lemma nodup_key_inj l x y : NoDup (map key l) -> In x l -> In y l -> key x = key y -> x = y.
  Proof.
    induction l as [|z l IH]; cbn; intros ND Hx Hy E; [tauto|]. inversion ND as [|? ? Nin ND']; subst.
    destruct Hx as [->|Hx], Hy as [->|Hy]; auto.
    - exfalso. apply Nin. rewrite E. apply in_map; auto.
    - exfalso. apply Nin. rewrite <- E. apply in_map; auto.
  Qed.

  (* with pairwise distinct keys the sorted arrangement is unique *)
  Lemma sorted_perm_eq l1 : forall l2, sorted l1 -> sorted l2 -> Permutation l1 l2 -> NoDup (map key l1) -> l1 = l2.
  Proof.
    unfold sorted. induction l1 as [|x l1 IH]; intros l2 S1 S2 P ND.
    - apply Permutation_nil in P. auto.
    - destruct l2 as [|y l2]; [apply Permutation_sym, Permutation_nil in P; discriminate|].
      inversion S1 as [|? ? S1' F1]; inversion S2 as [|? ? S2' F2]; subst. rewrite Forall_forall in F1, F2.
      assert (x = y).
      { assert (Iy : In y (x :: l1)) by (apply (Permutation_in _ (Permutation_sym P)); left; auto).
        assert (Ix : In x (y :: l2)) by (apply (Permutation_in _ P); left; auto).
        destruct Iy as [|Iy]; auto. destruct Ix as [|Ix]; auto.
        apply (nodup_key_inj (x :: l1)); auto; [left; auto|right; auto|].
        apply ple_antisym; [apply (F1 y Iy)|apply (F2 x Ix)]. }
      subst y. f_equal. apply IH; auto.
      + eapply Permutation_cons_inv; eauto.
      + inversion ND; auto.
  Qed.

  Lemma sorted_cons_min m l : sorted l -> (forall y, In y l -> lea key m y) -> sorted (m :: l).
  Proof. intros S H. constructor; auto. apply Forall_forall. auto. Qed.

  (* ---- content of a filled prefix ---- *)
  Lemma somes_firstn_length (a : arr A) n : filled a n -> length (somes (firstn (N.to_nat n) a)) = N.to_nat n.
  Proof.
    intros F. assert (G : forall k, (k < N.to_nat n)%nat -> exists x, nth_error a k = Some (Some x)).
    { intros k Hk. destruct (F (N.of_nat k) ltac:(lia)) as [x Hx]. unfold cell in Hx. rewrite Nat2N.id in Hx. eauto. }
    revert G. generalize (N.to_nat n). clear F n. intro n. revert a.
    induction n as [|n IH]; intros a G; [reflexivity|].
    destruct (G 0%nat ltac:(lia)) as [x Hx]. destruct a as [|c a]; [discriminate|]. cbn in Hx. inversion Hx; subst c.
    cbn [firstn somes length]. f_equal. apply IH. intros k Hk. apply (G (S k)). lia.
  Qed.

  (* ---- heap order puts a minimum at the root ---- *)
  Lemma heap_root_min (a : arr A) n m : filled a n -> heap_ord key a n -> cell a 0 = Some (Some m) ->
    forall i y, i < n -> cell a i = Some (Some y) -> lea key m y.
  Proof.
    intros F H Hm i. induction i as [i IH] using (well_founded_induction N.lt_wf_0). intros y Hi Hy.
    destruct (N.eq_dec i 0) as [->|Ne].
    - assert (y = m) by congruence. subst. apply ple_refl.
    - destruct (hp_child i ltac:(lia)) as [Ch Hlt]. destruct (F (hp i) ltac:(lia)) as [z Hz].
      eapply ple_trans; [apply (IH (hp i) Hlt z ltac:(lia) Hz)|]. apply (H (hp i) i z y); auto.
  Qed.

  (* ---- the macros ---- *)
  Theorem pq_init_spec n : n <= UHALF ->
    exists s, pq_init key n = Good s /\ pq_inv s /\ pq_elems s = [] /\ alen (q_arr s) = n.
  Proof.
    intros Hn. unfold pq_init, pq_init_prog, q0. qstep. unfold pq_init_0, pq_init_1. qstep.
    eexists; split; [reflexivity|]. split; [|split]; cbn [q_f q_arr f_size].
    - constructor; cbn [q_f q_arr f_size]; unfold alen; try rewrite repeat_length; try lia.
      + intros i Hi. lia.
      + intros i c x y Hc. lia.
    - reflexivity.
    - unfold alen. rewrite repeat_length. lia.
  Qed.

  Theorem pq_size_spec s : pq_inv s ->
    q_size key s = Good (N.of_nat (length (pq_elems s))) /\ q_empty key s = Good (nilb (pq_elems s)).
  Proof.
    intros I. pose proof (somes_firstn_length _ _ (p_filled _ I)) as L. fold (pq_elems s) in L.
    unfold q_size, q_size_prog, q_empty, q_empty_prog. qstep. unfold q_size_0, q_empty_0. split.
    - f_equal. lia.
    - f_equal. destruct (pq_elems s); cbn [length nilb] in *; lia.
  Qed.

  Theorem pq_enqueue_spec s x : pq_inv s -> f_size (q_f s) < alen (q_arr s) ->
    exists s', pq_enqueue key s x = Good s' /\ pq_inv s' /\ alen (q_arr s') = alen (q_arr s) /\
      f_size (q_f s') = f_size (q_f s) + 1 /\ Permutation (pq_elems s') (x :: pq_elems s).
  Proof.
    destruct s as [[sz m h] a]. intros [I1 I2 I3 I4] Hf. unfold pq_elems. cbn [q_f q_arr f_size] in *.
    unfold pq_enqueue, pq_enqueue_prog. qstep.
    unfold pq_enqueue_0 at 1. cbn [f_size]. rewrite wr_ok by auto. qstep.
    unfold pq_enqueue_1 at 1. cbn [f_size].
    set (a1 := upd a (N.to_nat sz) (Some x)).
    assert (L1 : alen a1 = alen a) by apply alen_upd.
    assert (F1 : filled a1 (sz + 1)).
    { intros i Hi. destruct (N.eq_dec i sz) as [->|Ne].
      - exists x. apply cell_upd_eq; auto.
      - unfold a1. rewrite cell_upd_neq by auto. apply I3. lia. }
    assert (H1 : heap_ord key a1 sz).
    { intros i c y z Hc Hch Hi Hcc. destruct (child_hp _ _ Hch) as (_ & _ & Hl).
      unfold a1 in Hi, Hcc. rewrite cell_upd_neq in Hi by lia. rewrite cell_upd_neq in Hcc by lia. apply (I4 i c y z); auto. }
    destruct (up_heap_spec key a1 sz ltac:(lia) ltac:(lia) F1 H1) as (a' & E & La & P & S & F' & H').
    rewrite E. qstep. unfold pq_enqueue_2. cbn [f_size].
    replace (uadd sz 1) with (sz + 1) by (unfold uadd, UMOD, UHALF in *; lia).
    eexists; split; [reflexivity|]. cbn [q_f q_arr f_size]. split; [|split; [|split]]; try lia.
    - constructor; cbn [q_f q_arr f_size]; auto; lia.
    - rewrite (somes_perm _ _ (perm_firstn _ _ _ P S)).
      assert (C : cell a1 sz = Some (Some x)) by (apply cell_upd_eq; auto).
      rewrite (firstn_succ_cell _ _ _ C). unfold a1. rewrite firstn_upd_ge by lia.
      rewrite somes_app. cbn [somes]. symmetry. apply Permutation_cons_append.
  Qed.

  Theorem pq_peek_spec s : pq_inv s -> 0 < f_size (q_f s) ->
    exists m, pq_peek key s = Good m /\ cell (q_arr s) 0 = Some (Some m) /\ In m (pq_elems s) /\
      forall y, In y (pq_elems s) -> pos_lt (key y) (key m) = false.
  Proof.
    intros [I1 I2 I3 I4] Hs. destruct (I3 0 Hs) as [m Hm]. exists m.
    unfold pq_peek, pq_peek_prog. qstep. unfold pq_peek_0. rewrite (rd_cell _ _ _ Hm). qstep.
    split; auto. split; auto. unfold pq_elems. split.
    - apply in_somes_firstn. exists 0; auto.
    - intros y Hy. apply in_somes_firstn in Hy. destruct Hy as (i & Hi & Hy).
      apply (heap_root_min _ _ m I3 I4 Hm i y Hi Hy).
  Qed.

  Theorem pq_dequeue_spec s : pq_inv s -> 0 < f_size (q_f s) ->
    exists m s', pq_dequeue key s = Good (m, s') /\ pq_peek key s = Good m /\ pq_inv s' /\
      alen (q_arr s') = alen (q_arr s) /\ f_size (q_f s') = f_size (q_f s) - 1 /\
      Permutation (pq_elems s) (m :: pq_elems s').
  Proof.
    intros I Hs. destruct (pq_peek_spec s I Hs) as (m & Epk & Hm & _). exists m.
    destruct s as [[sz mo h] a]. destruct I as [I1 I2 I3 I4]. unfold pq_elems. cbn [q_f q_arr f_size] in *.
    unfold pq_dequeue, pq_dequeue_prog. qstep.
    unfold pq_dequeue_0. cbn [f_size].
    replace (usub sz 1) with (sz - 1) by (unfold usub, UMOD, UHALF in *; lia).
    unfold pq_dequeue_1 at 1. cbn [f_size].
    set (n := sz - 1). assert (En : sz = n + 1) by lia.
    rewrite En in I3, I4.
    destruct (down_heap_spec key a n ltac:(lia) I2 I3 I4) as (a' & E & La & P & S & C & F' & H').
    rewrite E. qstep. unfold pq_dequeue_2. cbn [f_size].
    rewrite Hm in C. rewrite (rd_cell _ _ _ C). qstep.
    eexists; split; [reflexivity|]. cbn [q_f q_arr f_size]. split; auto. split; [|split; [|split]]; try lia.
    - constructor; cbn [q_f q_arr f_size]; auto; try lia. intros i Hi. apply F'. lia.
    - rewrite En. rewrite <- (somes_perm _ _ (perm_firstn _ _ _ P S)).
      rewrite (firstn_succ_cell _ _ _ C). rewrite somes_app. cbn [somes]. symmetry. apply Permutation_cons_append.
  Qed.

  (* ---- the packaged statement ---- *)
  Theorem pqueue_refines_sorted (s : qstate A) : pq_inv s ->
    let l := abs_pq s in
    let cap := alen (q_arr s) in
    StronglySorted (fun x y => pos_lt (key y) (key x) = false) l /\
    Permutation l (pq_elems s) /\
    N.of_nat (length l) <= cap /\
    q_size key s = Good (N.of_nat (length l)) /\
    q_empty key s = Good (nilb l) /\
    (* enqueue on a non-full queue: ordered insertion *)
    (forall x, N.of_nat (length l) < cap ->
       exists s', pq_enqueue key s x = Good s' /\ pq_inv s' /\ alen (q_arr s') = cap /\
         Permutation (abs_pq s') (x :: l) /\
         (NoDup (map key (x :: l)) -> abs_pq s' = pq_insert x l)) /\
    (* peek / dequeue on a non-empty queue: a minimum w.r.t. pos_lt, any one among equal keys *)
    (l <> [] ->
       exists m s', pq_peek key s = Good m /\ pq_dequeue key s = Good (m, s') /\ pq_inv s' /\ alen (q_arr s') = cap /\
         In m l /\ (forall y, In y l -> pos_lt (key y) (key m) = false) /\
         Permutation l (m :: abs_pq s') /\
         (NoDup (map key l) -> l = m :: abs_pq s')).
  Proof.
    intros I l cap.
    assert (Pl : Permutation l (pq_elems s)) by apply isort_perm.
    assert (Sl : sorted l) by apply isort_sorted.
    destruct (pq_size_spec s I) as [Esz Eem].
    assert (Ll : length l = length (pq_elems s)) by (apply Permutation_length; auto).
    assert (Sz : f_size (q_f s) = N.of_nat (length l)).
    { rewrite Ll. pose proof (somes_firstn_length _ _ (p_filled _ I)) as L. fold (pq_elems s) in L. lia. }
    split; [exact Sl|]. split; [exact Pl|]. split; [rewrite <- Sz; apply (p_size _ I)|].
    split; [rewrite Ll; exact Esz|]. split.
    { rewrite Eem. f_equal. destruct l, (pq_elems s); cbn in *; auto; discriminate. }
    split.
    - intros x Hx. destruct (pq_enqueue_spec s x I ltac:(rewrite Sz; exact Hx)) as (s' & E & I' & La & Lz & P).
      exists s'. split; auto. split; auto. split; auto.
      assert (P' : Permutation (abs_pq s') (x :: l)).
      { unfold abs_pq at 1. rewrite isort_perm. rewrite P. constructor. symmetry. exact Pl. }
      split; auto. intros ND. symmetry. apply sorted_perm_eq.
      + apply pq_insert_sorted; auto.
      + apply isort_sorted.
      + rewrite pq_insert_perm. symmetry. exact P'.
      + eapply Permutation_NoDup; [|exact ND]. apply Permutation_map. symmetry. apply pq_insert_perm.
    - intros Hne. assert (Hs : 0 < f_size (q_f s)) by (rewrite Sz; destruct l; [congruence|cbn [length]; lia]).
      destruct (pq_dequeue_spec s I Hs) as (m & s' & E & Epk & I' & La & Lz & P).
      destruct (pq_peek_spec s I Hs) as (m' & Epk' & _ & Hin & Hmin). assert (m' = m) by congruence. subst m'.
      exists m, s'. split; auto. split; auto. split; auto. split; auto.
      assert (Hin' : In m l) by (apply (Permutation_in _ (Permutation_sym Pl)); auto).
      assert (Hmin' : forall y, In y l -> pos_lt (key y) (key m) = false).
      { intros y Hy. apply Hmin. apply (Permutation_in _ Pl); auto. }
      assert (P' : Permutation l (m :: abs_pq s')).
      { rewrite Pl, P. constructor. symmetry. apply isort_perm. }
      split; auto. split; auto. split; auto.
      intros ND. apply sorted_perm_eq; auto.
      apply sorted_cons_min; [apply isort_sorted|].
      intros y Hy. apply Hmin'. apply (Permutation_in _ (Permutation_sym P')). right; auto.
  Qed.
End PQ.
