(* Refinement proof for the binary heap: up_heap()/down_heap() of Safe/PoolModel.v (which
   compose the pieces regenerated into Gen/PoolTab.v) keep the heap order, permute the
   array, never index out of bounds, never read an unwritten cell and stop within
   S(log2(size+1)) iterations.

   Heap order is stated without the C index expressions ([child i c]: c = 2i+1 or 2i+2);
   the regenerated parent()/left() expressions are related to it by the lemmas [up_ix],
   [down_ix], the regenerated conditions by [up_enter_eval], [up_cont_eval], [down_sel_eval],
   [down_brk_eval]: a changed expression or comparison breaks these.  The order facts used
   (reflexivity, transitivity, totality of "not less") are proved about the regenerated
   pos_lt in Safe/PoolLemmas.v. *)
From Coq Require Import List NArith ZArith Arith Bool Lia ZifyBool ZifyN ZifyNat Permutation.
From LBZ Require Import Safe.PoolVocab Gen.PoolTab Safe.PoolModel Safe.PoolLemmas.
Import ListNotations.
Local Open Scope N_scope.

Ltac Zify.zify_post_hook ::= Z.div_mod_to_equations.

Ltac splits := repeat match goal with |- _ /\ _ => split end.
Ltac usolve := unfold uadd, usub, umul, udiv, UMOD, UHALF in *; ncases; lia.

Definition hp (j : N) : N := (j - 1) / 2.
Definition child (i c : N) : Prop := c = 2 * i + 1 \/ c = 2 * i + 2.

Lemma child_hp i c : child i c -> i = hp c /\ 0 < c /\ i < c.
Proof. unfold child, hp. lia. Qed.

Lemma hp_child c : 0 < c -> child (hp c) c /\ hp c < c.
Proof. unfold child, hp. lia. Qed.

Section Arrays2.
  Context {A : Type}.
  Implicit Types a b : arr A.

  Lemma upd_same a i v : nth_error a i = Some v -> upd a i v = a.
  Proof. revert i; induction a as [|x a IH]; intros [|i]; cbn; intro H; try discriminate; auto.
    - inversion H; auto.
    - f_equal; auto.
  Qed.

  Lemma swap_perm b i k u v : i <> k -> nth_error b i = Some u -> nth_error b k = Some v ->
    Permutation (upd (upd b i v) k u) b.
  Proof.
    intros Ne Hi Hk. pose proof (upd_perm b i u v Hi) as P1.
    assert (Hk' : nth_error (upd b i v) k = Some v) by (rewrite nth_upd_neq; auto).
    pose proof (upd_perm (upd b i v) k v u Hk') as P2.
    apply Permutation_cons_inv with (a := v). symmetry. etransitivity; [exact P1|]. exact P2.
  Qed.

  Lemma nth_skipn a n k : nth_error (skipn n a) k = nth_error a (n + k).
  Proof. revert a; induction n as [|n IH]; intros [|x a]; cbn; auto. destruct k; auto. Qed.

  Lemma skipn_nth a b n k : skipn n a = skipn n b -> (n <= k)%nat -> nth_error a k = nth_error b k.
  Proof. intros E L. replace k with (n + (k - n))%nat by lia. rewrite <- !nth_skipn. rewrite E. auto. Qed.

  Lemma skipn_add a k n : skipn (n + k) a = skipn k (skipn n a).
  Proof. revert a; induction n as [|n IH]; intros [|x a]; cbn; auto. destruct k; auto. Qed.

  Lemma skipn_more a b n m : skipn n a = skipn n b -> (n <= m)%nat -> skipn m a = skipn m b.
  Proof.
    intros E L. replace m with (n + (m - n))%nat by lia. rewrite !skipn_add. rewrite E. auto.
  Qed.

  Lemma upd_comm a i k v w : i <> k -> upd (upd a i v) k w = upd (upd a k w) i v.
  Proof.
    revert i k; induction a as [|x a IH]; intros [|i] [|k]; cbn; intros; try congruence; auto. f_equal. apply IH. congruence.
  Qed.

  Lemma in_somes_firstn a n y :
    In y (somes (firstn (N.to_nat n) a)) <-> exists i, i < n /\ cell a i = Some (Some y).
  Proof.
    unfold cell. split.
    - intro H. assert (G : exists k, (k < N.to_nat n)%nat /\ nth_error a k = Some (Some y)).
      { revert H. generalize (N.to_nat n). clear n. intro n. revert a. induction n as [|n IH]; intros [|[x|] a]; cbn; try tauto.
        - intros [->|H]; [exists 0%nat; split; [lia|auto]|]. destruct (IH _ H) as (k & L & E). exists (S k); split; [lia|auto].
        - intros H. destruct (IH _ H) as (k & L & E). exists (S k); split; [lia|auto]. }
      destruct G as (k & L & E). exists (N.of_nat k). rewrite Nat2N.id. split; [lia|auto].
    - intros (i & L & E). assert (Lk : (N.to_nat i < N.to_nat n)%nat) by lia. revert E Lk.
      generalize (N.to_nat i) (N.to_nat n). clear i n L. intros k n. revert a k.
      induction n as [|n IH]; intros [|c a] [|k]; cbn [nth_error firstn]; intros E L; try lia; try discriminate.
      + inversion E; subst. cbn. auto.
      + destruct c; cbn [somes]; [right|]; apply (IH a k); auto; lia.
  Qed.
End Arrays2.

Section Heap.
  Context {A : Type}.
  Variable key : A -> pos.

  Definition lea (x y : A) : Prop := ple (key x) (key y).
  Definition lta (x y : A) : bool := pos_lt (key x) (key y).

  Definition filled (a : arr A) (n : N) : Prop := forall i, i < n -> exists x, cell a i = Some (Some x).

  Definition heap_ord (a : arr A) (n : N) : Prop :=
    forall i c x y, c < n -> child i c -> cell a i = Some (Some x) -> cell a c = Some (Some y) -> lea x y.

  Lemma filled_upd a n i x : filled a n -> filled (upd a (N.to_nat i) (Some x)) n.
  Proof.
    intros F k Hk. destruct (N.eq_dec i k) as [->|Ne].
    - destruct (F k Hk) as [y Hy]. exists x. apply cell_upd_eq. eapply cell_lt; eauto.
    - rewrite cell_upd_neq; auto.
  Qed.

  (* ================================================================================ *)
  (* up_heap                                                                          *)
  (* ================================================================================ *)

  (* the regenerated index expressions *)
  Lemma up_ix n j : 0 < j < UMOD ->
    up_mv_src n j = hp j /\ up_mv_dst n j = j /\ up_next n j = hp j /\ up_fin_ix n j = j /\ up_el_ix n j = j.
  Proof. intros. unfold up_mv_src, up_mv_dst, up_next, up_fin_ix, up_el_ix, hp. splits; usolve. Qed.

  Lemma up_fin_ix0 n : up_fin_ix n 0 = 0.
  Proof. reflexivity. Qed.

  Lemma up_enter_eval a el n j z : 0 < j < UMOD -> cell a (hp j) = Some (Some z) ->
    eval_cond key a el (up_enter n j) = Good (lta el z).
  Proof.
    intros Hj Hz. unfold up_enter. replace (udiv (usub j 1) 2) with (hp j) by (unfold hp; usolve).
    cbn [eval_cond operand_key bind]. rewrite (rd_cell _ _ _ Hz). reflexivity.
  Qed.

  Lemma up_cont_eval0 a el n : eval_cond key a el (up_cont n 0) = Good false.
  Proof. reflexivity. Qed.

  Lemma up_cont_eval a el n j z : 0 < j < UMOD -> cell a (hp j) = Some (Some z) ->
    eval_cond key a el (up_cont n j) = Good (lta el z).
  Proof.
    intros Hj Hz. unfold up_cont. replace (udiv (usub j 1) 2) with (hp j) by (unfold hp; usolve).
    cbn [eval_cond operand_key bind]. replace (0 <? j) with true by lia.
    rewrite (rd_cell _ _ _ Hz). reflexivity.
  Qed.

  (* loop invariant: hole at j (cell j is never read), el to be placed *)
  Definition up_I1 (a : arr A) (n j : N) : Prop :=
    forall i c x y, c < n + 1 -> child i c -> c <> j -> i <> j ->
      cell a i = Some (Some x) -> cell a c = Some (Some y) -> lea x y.
  Definition up_I2 (a : arr A) (n j : N) (el : A) : Prop :=
    forall c y, c < n + 1 -> child j c -> cell a c = Some (Some y) ->
      lea el y /\ (0 < j -> forall z, cell a (hp j) = Some (Some z) -> lea z y).

  Lemma up_move a n j el z :
    0 < j <= n -> n < alen a -> filled a (n + 1) -> up_I1 a n j -> up_I2 a n j el ->
    cell a (hp j) = Some (Some z) -> lta el z = true ->
    let a1 := upd a (N.to_nat j) (Some z) in
    filled a1 (n + 1) /\ up_I1 a1 n (hp j) /\ up_I2 a1 n (hp j) el /\
    Permutation (upd a1 (N.to_nat (hp j)) (Some el)) (upd a (N.to_nat j) (Some el)) /\
    skipn (N.to_nat (n + 1)) a1 = skipn (N.to_nat (n + 1)) a /\ alen a1 = alen a.
  Proof.
    intros Hj Hn F I1 I2 Hz Lt a1. destruct (hp_child j ltac:(lia)) as [Ch Hlt].
    assert (Cj : cell a1 j = Some (Some z)) by (apply cell_upd_eq; lia).
    assert (Co : forall k, k <> j -> cell a1 k = cell a k) by (intros; apply cell_upd_neq; auto).
    assert (Zp : 0 < hp j -> forall zz, cell a (hp (hp j)) = Some (Some zz) -> lea zz z).
    { intros Hp zz Hzz. destruct (hp_child (hp j) Hp) as [Ch2 Hlt2].
      apply (I1 (hp (hp j)) (hp j) zz z); auto; lia. }
    split; [|split; [|split; [|split; [|split]]]].
    - apply filled_upd; auto.
    - intros i c x y Hc Hch Hcj Hij Hi Hcc. destruct (N.eq_dec c j) as [->|Ncj].
      + apply child_hp in Hch. lia.
      + rewrite (Co c Ncj) in Hcc. destruct (N.eq_dec i j) as [->|Nij].
        * rewrite Cj in Hi. inversion Hi; subst x. destruct (I2 c y Hc Hch Hcc) as [_ G]. apply G; auto; lia.
        * rewrite (Co i Nij) in Hi. apply (I1 i c x y); auto.
    - intros c y Hc Hch H1. split.
      + destruct (N.eq_dec c j) as [->|Ncj].
        * rewrite Cj in H1. inversion H1; subst y. apply plt_ple. exact Lt.
        * rewrite (Co c Ncj) in H1. eapply plt_ple_trans; [exact Lt|].
          apply (I1 (hp j) c z y); auto; lia.
      + intros Hp zz Hzz. assert (Ne : hp (hp j) <> j) by (destruct (hp_child (hp j) Hp); lia).
        rewrite (Co _ Ne) in Hzz. destruct (N.eq_dec c j) as [->|Ncj].
        * rewrite Cj in H1. inversion H1; subst y. apply Zp; auto.
        * rewrite (Co c Ncj) in H1. eapply ple_trans; [apply Zp; eauto|].
          apply (I1 (hp j) c z y); auto; lia.
    - unfold a1. set (b := upd a (N.to_nat j) (Some el)).
      replace (upd a (N.to_nat j) (Some z)) with (upd b (N.to_nat j) (Some z)) by (unfold b; apply upd_upd).
      apply swap_perm; [lia| |].
      + unfold b. apply nth_upd_eq. unfold alen in Hn. lia.
      + unfold b. rewrite nth_upd_neq by lia. exact Hz.
    - apply skipn_upd. lia.
    - apply alen_upd.
  Qed.

  Lemma up_loop_spec el n : forall fuel a j,
    j + 1 < 2 ^ N.of_nat fuel -> 0 < j <= n -> n < alen a -> alen a <= UHALF ->
    filled a (n + 1) -> up_I1 a n j -> up_I2 a n j el ->
    (exists z, cell a (hp j) = Some (Some z) /\ lta el z = true) ->
    exists a' j', up_loop key fuel a el n j = Good (a', j') /\ alen a' = alen a /\ j' < j /\
      filled a' (n + 1) /\ up_I1 a' n j' /\ up_I2 a' n j' el /\
      (0 < j' -> exists z, cell a' (hp j') = Some (Some z) /\ lea z el) /\
      Permutation (upd a' (N.to_nat j') (Some el)) (upd a (N.to_nat j) (Some el)) /\
      skipn (N.to_nat (n + 1)) a' = skipn (N.to_nat (n + 1)) a.
  Proof.
    induction fuel as [|fuel IH]; intros a j Hf Hj Hn Hu F I1 I2 (z & Hz & Lt).
    - cbn in Hf. lia.
    - assert (JU : 0 < j < UMOD) by (unfold UMOD, UHALF in *; lia).
      destruct (up_ix n j JU) as (E1 & E2 & E3 & _ & _).
      cbn [up_loop]. rewrite E1, E2, E3. rewrite (rd_cell _ _ _ Hz). cbn [bind].
      rewrite wr_ok by lia. cbn [bind].
      destruct (up_move a n j el z Hj Hn F I1 I2 Hz Lt) as (F1 & I1' & I2' & P1 & S1 & L1).
      set (a1 := upd a (N.to_nat j) (Some z)) in *.
      destruct (hp_child j ltac:(lia)) as [_ Hlt].
      destruct (N.eq_dec (hp j) 0) as [E0|N0].
      + rewrite E0 in *. rewrite up_cont_eval0. cbn [bind].
        exists a1, 0. splits; auto; try lia.
      + assert (Hp : 0 < hp j) by lia. destruct (hp_child (hp j) Hp) as [_ Hlt2].
        destruct (F1 (hp (hp j)) ltac:(lia)) as [zz Hzz].
        rewrite (up_cont_eval a1 el n (hp j) zz) by (auto; unfold UMOD in *; lia). cbn [bind].
        destruct (lta el zz) eqn:Lt2.
        * assert (Hf2 : hp j + 1 < 2 ^ N.of_nat fuel).
          { replace (N.of_nat (S fuel)) with (N.succ (N.of_nat fuel)) in Hf by lia.
            rewrite N.pow_succ_r' in Hf. unfold hp. lia. }
          destruct (IH a1 (hp j) Hf2 ltac:(lia) ltac:(lia) ltac:(lia) F1 I1' I2' (ex_intro _ zz (conj Hzz Lt2)))
            as (a' & j' & R & La & Lj & F' & I1'' & I2'' & Ex & P' & S').
          exists a', j'. rewrite R. splits; auto; try lia.
          -- etransitivity; eauto.
          -- congruence.
        * exists a1, (hp j). splits; auto; try lia.
          intros _. exists zz. split; auto.
  Qed.

  Lemma up_final a n j el :
    j <= n -> n < alen a -> up_I1 a n j -> up_I2 a n j el ->
    (0 < j -> exists z, cell a (hp j) = Some (Some z) /\ lea z el) ->
    heap_ord (upd a (N.to_nat j) (Some el)) (n + 1).
  Proof.
    intros Hj Hn I1 I2 Ex i c x y Hc Hch Hi Hcc.
    assert (Cj : cell (upd a (N.to_nat j) (Some el)) j = Some (Some el)) by (apply cell_upd_eq; lia).
    destruct (N.eq_dec c j) as [->|Ncj].
    - rewrite Cj in Hcc. inversion Hcc; subst y. destruct (child_hp _ _ Hch) as (-> & Hp & Hl).
      rewrite cell_upd_neq in Hi by lia. destruct (Ex Hp) as (z & Hz & Le). congruence.
    - rewrite cell_upd_neq in Hcc by auto. destruct (N.eq_dec i j) as [->|Nij].
      + rewrite Cj in Hi. inversion Hi; subst x. destruct (I2 c y Hc Hch Hcc) as [G _]. exact G.
      + rewrite cell_upd_neq in Hi by auto. apply (I1 i c x y); auto.
  Qed.

  Lemma heap_fuel_spec n : n + 1 < 2 ^ N.of_nat (heap_fuel n).
  Proof.
    unfold heap_fuel. replace (N.of_nat (S (N.to_nat (N.log2 (n + 1))))) with (N.succ (N.log2 (n + 1))) by lia.
    apply N.log2_spec. lia.
  Qed.

  Theorem up_heap_spec a n :
    n < alen a -> alen a <= UHALF -> filled a (n + 1) -> heap_ord a n ->
    exists a', up_heap key a n = Good a' /\ alen a' = alen a /\ Permutation a' a /\
      skipn (N.to_nat (n + 1)) a' = skipn (N.to_nat (n + 1)) a /\ filled a' (n + 1) /\ heap_ord a' (n + 1).
  Proof.
    intros Hn Hu F H. unfold up_heap. unfold up_ret at 1. destruct (N.eqb_spec n 0) as [->|N0].
    - exists a. splits; auto. intros i c x y Hc Hch. apply child_hp in Hch. lia.
    - unfold up_j0. assert (JU : 0 < n < UMOD) by (unfold UMOD, UHALF in *; lia).
      destruct (up_ix n n JU) as (_ & _ & _ & _ & E5). rewrite E5.
      destruct (F n ltac:(lia)) as [el Hel]. rewrite (rd_cell _ _ _ Hel). cbn [bind].
      destruct (hp_child n ltac:(lia)) as [Ch Hlt].
      destruct (F (hp n) ltac:(lia)) as [z Hz]. rewrite (up_enter_eval a el n n z JU Hz). cbn [bind].
      assert (I1 : up_I1 a n n).
      { intros i c x y Hc Hch Hcn Hin. apply H; auto. lia. }
      assert (I2 : up_I2 a n n el).
      { intros c y Hc Hch. unfold child in Hch. lia. }
      destruct (lta el z) eqn:Lt.
      + destruct (up_loop_spec el n (heap_fuel n) a n (heap_fuel_spec n) ltac:(lia) Hn Hu F I1 I2
                    (ex_intro _ z (conj Hz Lt))) as (a' & j' & R & La & Lj & F' & I1' & I2' & Ex & P' & S').
        rewrite R. cbn [bind fst snd].
        assert (E4 : up_fin_ix n j' = j').
        { destruct (N.eq_dec j' 0) as [->|]; [reflexivity|]. apply (up_ix n j'). unfold UMOD in *; lia. }
        rewrite E4. rewrite wr_ok by lia.
        exists (upd a' (N.to_nat j') (Some el)). splits; auto.
        * rewrite alen_upd; auto.
        * rewrite P'. rewrite upd_same; auto.
        * rewrite skipn_upd by lia. auto.
        * apply filled_upd; auto.
        * apply up_final; auto; lia.
      + exists a. splits; auto.
        intros i c x y Hc Hch Hi Hcc. destruct (N.eq_dec c n) as [->|Ncn].
        * destruct (child_hp _ _ Hch) as (-> & _). assert (x = z) by congruence. assert (y = el) by congruence. subst.
          exact Lt.
        * apply (H i c x y); auto. lia.
  Qed.

  (* ================================================================================ *)
  (* down_heap                                                                        *)
  (* ================================================================================ *)

  Lemma down_ix n j : j < n -> n <= UHALF ->
    down_loop n j = (2 * j + 1 <? n) /\ down_child0 n j = 2 * j + 1.
  Proof. intros. unfold down_loop, down_child0. split; usolve. Qed.

  Lemma down_mv_ix n j c : down_mv_dst n j c = j /\ down_mv_src n j c = c /\ down_next n j c = c /\ down_fin_ix n j = j.
  Proof. repeat split. Qed.

  Lemma down_sel_eval1 a el n j c y0 y1 : c + 1 < n -> n <= UHALF ->
    cell a c = Some (Some y0) -> cell a (c + 1) = Some (Some y1) ->
    eval_cond key a el (down_sel n j c) = Good (lta y1 y0) /\ down_child1 n j c = c + 1.
  Proof.
    intros Hc Hn H0 H1. unfold down_sel, down_child1. replace (uadd c 1) with (c + 1) by usolve.
    cbn [eval_cond operand_key bind]. replace (c + 1 <? n) with true by lia.
    rewrite (rd_cell _ _ _ H0), (rd_cell _ _ _ H1). split; reflexivity.
  Qed.

  Lemma down_sel_eval0 a el n j c : c < n -> n <= c + 1 -> n <= UHALF ->
    eval_cond key a el (down_sel n j c) = Good false.
  Proof.
    intros Hc Hc1 Hn. unfold down_sel. replace (uadd c 1) with (c + 1) by usolve.
    cbn [eval_cond operand_key bind]. replace (c + 1 <? n) with false by lia. reflexivity.
  Qed.

  Lemma down_brk_eval a el n j c y : cell a c = Some (Some y) ->
    eval_cond key a el (down_brk n j c) = Good (pos_le (key el) (key y)).
  Proof. intros H. unfold down_brk. cbn [eval_cond operand_key bind]. rewrite (rd_cell _ _ _ H). reflexivity. Qed.

  Definition dn_I1 (a : arr A) (n j : N) : Prop :=
    forall i c x y, c < n -> child i c -> c <> j -> i <> j ->
      cell a i = Some (Some x) -> cell a c = Some (Some y) -> lea x y.
  Definition dn_I2 (a : arr A) (n j : N) (el : A) : Prop :=
    0 < j -> forall z, cell a (hp j) = Some (Some z) -> lea z el.
  Definition dn_I3 (a : arr A) (n j : N) : Prop :=
    0 < j -> forall c y z, c < n -> child j c -> cell a c = Some (Some y) -> cell a (hp j) = Some (Some z) -> lea z y.
  Definition kids_ge (a : arr A) (n j : N) (v : A) : Prop :=
    forall c y, c < n -> child j c -> cell a c = Some (Some y) -> lea v y.

  (* the child chosen by the `if (child + 1 < size && pos_lt(..)) child++` of down_heap *)
  Lemma down_select a el n j : 2 * j + 1 < n -> n <= UHALF -> filled a n ->
    exists b cs ys, eval_cond key a el (down_sel n j (2 * j + 1)) = Good b /\
      (if b then down_child1 n j (2 * j + 1) else 2 * j + 1) = cs /\
      cell a cs = Some (Some ys) /\ child j cs /\ cs < n /\ kids_ge a n j ys.
  Proof.
    intros Hc Hn F. destruct (F (2 * j + 1) Hc) as [y0 H0].
    destruct (N.lt_ge_cases (2 * j + 1 + 1) n) as [L1|G1].
    - destruct (F _ L1) as [y1 H1]. destruct (down_sel_eval1 a el n j _ y0 y1 L1 Hn H0 H1) as [E1 E2].
      exists (lta y1 y0). rewrite E1, E2. destruct (lta y1 y0) eqn:Lt.
      + exists (2 * j + 1 + 1), y1. splits; auto; [unfold child; lia|].
        intros c y Hcn Hch Hy. destruct Hch as [->| ->].
        * assert (y = y0) by congruence. subst. apply plt_ple. exact Lt.
        * replace (2 * j + 2) with (2 * j + 1 + 1) in Hy by lia. assert (y = y1) by congruence. subst. apply ple_refl.
      + exists (2 * j + 1), y0. splits; auto; [unfold child; lia|].
        intros c y Hcn Hch Hy. destruct Hch as [->| ->].
        * assert (y = y0) by congruence. subst. apply ple_refl.
        * replace (2 * j + 2) with (2 * j + 1 + 1) in Hy by lia. assert (y = y1) by congruence. subst. exact Lt.
    - rewrite (down_sel_eval0 a el n j _ Hc G1 Hn). exists false, (2 * j + 1), y0. splits; auto; [unfold child; lia|].
      intros c y Hcn Hch Hy. destruct Hch as [->| ->]; [|lia]. assert (y = y0) by congruence. subst. apply ple_refl.
  Qed.

  Lemma down_move a n j el cs ys :
    j < n -> cs < n -> child j cs -> n <= alen a -> filled a n -> dn_I1 a n j -> dn_I3 a n j ->
    cell a cs = Some (Some ys) -> kids_ge a n j ys -> lta ys el = true ->
    let a1 := upd a (N.to_nat j) (Some ys) in
    filled a1 n /\ dn_I1 a1 n cs /\ dn_I2 a1 n cs el /\ dn_I3 a1 n cs /\
    Permutation (upd a1 (N.to_nat cs) (Some el)) (upd a (N.to_nat j) (Some el)) /\
    skipn (N.to_nat n) a1 = skipn (N.to_nat n) a /\ alen a1 = alen a.
  Proof.
    intros Hj Hcs Hch Hn F I1 I3 Hys Hmin Lt a1. destruct (child_hp _ _ Hch) as (Ej & Hp & Hl).
    assert (Cj : cell a1 j = Some (Some ys)) by (apply cell_upd_eq; lia).
    assert (Co : forall k, k <> j -> cell a1 k = cell a k) by (intros; apply cell_upd_neq; auto).
    split; [|split; [|split; [|split; [|split; [|split]]]]].
    - apply filled_upd; auto.
    - intros i c x y Hc Hch' Hccs Hics Hi Hcc. destruct (N.eq_dec c j) as [->|Ncj].
      + destruct (child_hp _ _ Hch') as (-> & Hp' & Hl'). rewrite Cj in Hcc. inversion Hcc; subst y.
        rewrite Co in Hi by lia. apply (I3 Hp' cs ys x); auto.
      + rewrite (Co c Ncj) in Hcc. destruct (N.eq_dec i j) as [->|Nij].
        * rewrite Cj in Hi. inversion Hi; subst x. apply (Hmin c y); auto.
        * rewrite (Co i Nij) in Hi. apply (I1 i c x y); auto.
    - intros _ z Hz. rewrite <- Ej in Hz. rewrite Cj in Hz. inversion Hz; subst z. apply plt_ple. exact Lt.
    - intros _ c y z Hc Hch' Hy Hz. rewrite <- Ej in Hz. rewrite Cj in Hz. inversion Hz; subst z.
      destruct (child_hp _ _ Hch') as (_ & _ & Hl'). rewrite Co in Hy by lia.
      apply (I1 cs c ys y); auto; lia.
    - unfold a1. set (b := upd a (N.to_nat j) (Some el)).
      replace (upd a (N.to_nat j) (Some ys)) with (upd b (N.to_nat j) (Some ys)) by (unfold b; apply upd_upd).
      apply swap_perm; [lia| |].
      + unfold b. apply nth_upd_eq. unfold alen in Hn. lia.
      + unfold b. rewrite nth_upd_neq by lia. exact Hys.
    - apply skipn_upd. lia.
    - apply alen_upd.
  Qed.

  Lemma down_loop_spec el n : forall fuel a j,
    n < (j + 1) * 2 ^ N.of_nat fuel -> j < n -> n <= alen a -> n <= UHALF ->
    filled a n -> dn_I1 a n j -> dn_I2 a n j el -> dn_I3 a n j ->
    exists a' j', down_loop_f key fuel a el n j = Good (a', j') /\ alen a' = alen a /\ j' < n /\
      filled a' n /\ dn_I1 a' n j' /\ dn_I2 a' n j' el /\ kids_ge a' n j' el /\
      Permutation (upd a' (N.to_nat j') (Some el)) (upd a (N.to_nat j) (Some el)) /\
      skipn (N.to_nat n) a' = skipn (N.to_nat n) a.
  Proof.
    induction fuel as [|fuel IH]; intros a j Hf Hj Hn Hu F I1 I2 I3.
    - cbn in Hf. lia.
    - cbn [down_loop_f]. destruct (down_ix n j Hj Hu) as [E1 E2]. rewrite E1, E2.
      destruct (N.ltb_spec (2 * j + 1) n) as [Lc|Gc].
      + destruct (down_select a el n j Lc Hu F) as (b & cs & ys & Es & Ec & Hys & Hch & Hcs & Hmin).
        rewrite Es. cbn [bind]. rewrite Ec. rewrite (down_brk_eval a el n j cs ys Hys). cbn [bind].
        destruct (pos_le (key el) (key ys)) eqn:Le.
        * exists a, j. splits; auto.
          intros c y Hc Hch' Hy. eapply ple_trans; [apply pos_le_iff; exact Le|]. apply (Hmin c y); auto.
        * assert (Lt : lta ys el = true).
          { unfold lta. unfold pos_le in Le. destruct (pos_lt (key ys) (key el)); auto. }
          destruct (down_mv_ix n j cs) as (M1 & M2 & M3 & _). rewrite M1, M2, M3.
          rewrite (rd_cell _ _ _ Hys). cbn [bind]. rewrite wr_ok by lia. cbn [bind].
          destruct (down_move a n j el cs ys Hj Hcs Hch Hn F I1 I3 Hys Hmin Lt) as (F1 & I1' & I2' & I3' & P1 & S1 & L1).
          set (a1 := upd a (N.to_nat j) (Some ys)) in *.
          assert (Hf2 : n < (cs + 1) * 2 ^ N.of_nat fuel).
          { replace (N.of_nat (S fuel)) with (N.succ (N.of_nat fuel)) in Hf by lia.
            rewrite N.pow_succ_r' in Hf. unfold child in Hch. nia. }
          destruct (IH a1 cs Hf2 Hcs ltac:(lia) Hu F1 I1' I2' I3')
            as (a' & j' & R & La & Lj & F' & I1'' & I2'' & K' & P' & S').
          exists a', j'. rewrite R. splits; auto; try lia.
          -- etransitivity; eauto.
          -- congruence.
      + exists a, j. splits; auto.
        intros c y Hc Hch. unfold child in Hch. lia.
  Qed.

  Lemma down_final a n j el :
    j < n -> n <= alen a -> dn_I1 a n j -> dn_I2 a n j el -> kids_ge a n j el ->
    heap_ord (upd a (N.to_nat j) (Some el)) n.
  Proof.
    intros Hj Hn I1 I2 K i c x y Hc Hch Hi Hcc.
    assert (Cj : cell (upd a (N.to_nat j) (Some el)) j = Some (Some el)) by (apply cell_upd_eq; lia).
    destruct (N.eq_dec c j) as [->|Ncj].
    - rewrite Cj in Hcc. inversion Hcc; subst y. destruct (child_hp _ _ Hch) as (-> & Hp & Hl).
      rewrite cell_upd_neq in Hi by lia. apply (I2 Hp x Hi).
    - rewrite cell_upd_neq in Hcc by auto. destruct (N.eq_dec i j) as [->|Nij].
      + rewrite Cj in Hi. inversion Hi; subst x. apply (K c y); auto.
      + rewrite cell_upd_neq in Hi by auto. apply (I1 i c x y); auto.
  Qed.

  (* down_heap(root, n) on a heap of n+1 elements: the minimum root[0] ends up in cell n,
     the other n elements form a heap in cells [0, n) *)
  Theorem down_heap_spec a n :
    n < alen a -> alen a <= UHALF -> filled a (n + 1) -> heap_ord a (n + 1) ->
    exists a', down_heap key a n = Good a' /\ alen a' = alen a /\ Permutation a' a /\
      skipn (N.to_nat (n + 1)) a' = skipn (N.to_nat (n + 1)) a /\ cell a' n = cell a 0 /\
      filled a' (n + 1) /\ heap_ord a' n.
  Proof.
    intros Hn Hu F H. unfold down_heap. unfold down_ret at 1. destruct (N.eqb_spec n 0) as [->|N0].
    - exists a. splits; auto. intros i c x y Hc. lia.
    - unfold down_el_ix, down_sv_src, down_sv_dst, down_j0.
      destruct (F n ltac:(lia)) as [el Hel]. destruct (F 0 ltac:(lia)) as [m Hm].
      rewrite (rd_cell _ _ _ Hel). cbn [bind]. rewrite (rd_cell _ _ _ Hm). cbn [bind].
      rewrite wr_ok by lia. cbn [bind].
      set (a1 := upd a (N.to_nat n) (Some m)).
      assert (Co : forall k, k <> n -> cell a1 k = cell a k) by (intros; apply cell_upd_neq; auto).
      assert (F1 : filled a1 n). { intros i Hi. rewrite Co by lia. apply F. lia. }
      assert (I1 : dn_I1 a1 n 0).
      { intros i c x y Hc Hch _ _ Hi Hcc. destruct (child_hp _ _ Hch) as (_ & _ & Hl).
        rewrite Co in Hi by lia. rewrite Co in Hcc by lia. apply (H i c x y); auto. lia. }
      assert (I2 : dn_I2 a1 n 0 el) by (intro; lia).
      assert (I3 : dn_I3 a1 n 0) by (intro; lia).
      assert (Hf : n < (0 + 1) * 2 ^ N.of_nat (heap_fuel n)) by (pose proof (heap_fuel_spec n); lia).
      assert (L1 : alen a1 = alen a) by apply alen_upd.
      destruct (down_loop_spec el n (heap_fuel n) a1 0 Hf ltac:(lia) ltac:(lia) ltac:(unfold UHALF in *; lia) F1 I1 I2 I3)
        as (a' & j' & R & La & Lj & F' & I1' & I2' & K' & P' & S').
      rewrite R. cbn [bind fst snd]. change (down_fin_ix n j') with j'. rewrite wr_ok by lia.
      exists (upd a' (N.to_nat j') (Some el)).
      assert (Cn : cell a' n = Some (Some m)).
      { unfold cell. rewrite (skipn_nth a' a1 (N.to_nat n) (N.to_nat n) S' ltac:(lia)). apply cell_upd_eq. lia. }
      splits.
      + reflexivity.
      + rewrite alen_upd. lia.
      + rewrite P'. unfold a1. apply swap_perm; [lia|exact Hel|exact Hm].
      + rewrite skipn_upd by lia. rewrite (skipn_more a' a1 (N.to_nat n)) by (auto; lia).
        apply skipn_upd. lia.
      + rewrite cell_upd_neq by lia. congruence.
      + intros i Hi. destruct (N.eq_dec i n) as [->|Ne].
        * exists m. rewrite cell_upd_neq by lia. auto.
        * apply (filled_upd a' n j' el F'). lia.
      + apply down_final; auto. lia.
  Qed.
End Heap.
