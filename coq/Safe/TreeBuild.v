(* make_tree() of Safe/TreeModel.v, phase by phase: every phase runs without an undefined event
   and leaves the arrays in a state described in terms of the canonical-code quantities
   cnt / W / IDX / sorted_syms of Dec/Format.v and Enc/HuffProofs.v. *)
From Coq Require Import List NArith Arith Bool Lia ZifyBool ZifyNat ZifyN.
From LBZ Require Import Common.Bits Dec.Prog Dec.Format Enc.EncModel Enc.HuffProofs Gen.Consts Gen.DecTabs
  Safe.TreeModel Safe.TreeLemmas.
Import ListNotations.
Local Open Scope N_scope.

(* side conditions on the regenerated constants (discharged by computation) *)
Lemma const_MAXLEN : MAX_CODE_LENGTH = 20. Proof. reflexivity. Qed.
Lemma const_MINLEN : MIN_CODE_LENGTH = 1. Proof. reflexivity. Qed.
Lemma const_HSW : HUFF_START_WIDTH = 10. Proof. reflexivity. Qed.
Lemma const_ALPHA : MAX_ALPHA_SIZE = 258. Proof. reflexivity. Qed.

Definition BASE (lens : list N) (j : nat) : N := N.min (WS 64 lens (j - 1)) UINT64_MAX.

Section Build.
Variables lens pad : list N.
Hypothesis Hok : lens_ok lens.
Hypothesis Hn3 : (3 <= length lens)%nat.
Hypothesis Hpad : (length lens + length pad = 258)%nat.
Let n := N.of_nat (length lens).
Let L := lens ++ pad.

Lemma L_get s : (s < length lens)%nat -> aget ALen L (N.of_nat s) = Done (nth s lens 0).
Proof.
  intro H. unfold L. rewrite aget_nat by (rewrite app_length; lia). rewrite app_nth1 by exact H. reflexivity.
Qed.

(* ---- C[k] = 0 ---------------------------------------------------------------------------------- *)
Lemma ph_zero_spec C : length C = 21%nat ->
  exists C', ph_zero C = Done C' /\ length C' = 21%nat /\ forall j, (j < 21)%nat -> nth j C' 0 = 0.
Proof.
  intro HC. unfold ph_zero. change (N.to_nat MAX_CODE_LENGTH + 1)%nat with 21%nat.
  destruct (for_loop_inv (fun i C => length C = 21%nat /\ forall j, (j < i)%nat -> nth j C 0 = 0)
              (nrange 0 21) (fun k C => aset ACount C k 0) C) as [C' [E [HL HZ]]].
  - split; [exact HC|]. intros; lia.
  - intros i k s Hk [HL HZ]. apply nrange_nth in Hk as [-> Hi]. cbn [Nat.add].
    rewrite aset_nat by lia. eexists; split; [reflexivity|]. split; [rewrite upd_length; exact HL|].
    intros j Hj. destruct (Nat.eq_dec j i) as [->|Hne]; [apply nth_upd_same; lia|].
    rewrite nth_upd_other by exact Hne. apply HZ; lia.
  - exists C'. rewrite nrange_length in *. auto.
Qed.

(* ---- C[L[s]]++ ---------------------------------------------------------------------------------- *)
Lemma ph_count_spec C : length C = 21%nat -> (forall j, (j < 21)%nat -> nth j C 0 = 0) ->
  exists C', ph_count n L C = Done C' /\ length C' = 21%nat /\
             forall j, (j < 21)%nat -> nth j C' 0 = cnt lens j.
Proof.
  intros HC HZ. unfold ph_count. unfold n at 1. rewrite Nat2N.id.
  destruct (for_loop_inv
    (fun i C => length C = 21%nat /\ forall j, (j < 21)%nat -> nth j C 0 = count_len (firstn i lens) (N.of_nat j))
    (nrange 0 (length lens))
    (fun s C => k <~ aget ALen L s ;; c <~ aget ACount C k ;; aset ACount C k (add32 c 1)) C) as [C' [E [HL HS]]].
  - split; [exact HC|]. intros j Hj. rewrite HZ by exact Hj. reflexivity.
  - intros i k C1 Hk [HL HS]. apply nrange_nth in Hk as [-> Hi]. cbn [Nat.add].
    rewrite L_get by exact Hi. cbn [bindM].
    pose proof (lens_ok_nth lens i Hok Hi) as Hl. set (l := nth i lens 0) in *.
    rewrite aget_ok by lia. cbn [bindM].
    rewrite aset_ok by lia.
    eexists; split; [reflexivity|]. split; [rewrite upd_length; exact HL|].
    intros j Hj. rewrite count_len_firstn_S by exact Hi. fold l.
    destruct (Nat.eq_dec j (N.to_nat l)) as [->|Hne].
    + rewrite nth_upd_same by lia. rewrite HS by lia. rewrite N2Nat.id, N.eqb_refl.
      apply add32_small. pose proof (count_len_le (firstn i lens) l) as B.
      rewrite firstn_length in B. rewrite W32_val. lia.
    + rewrite nth_upd_other by exact Hne. rewrite HS by exact Hj.
      destruct (N.eqb_spec (N.of_nat j) l); [lia|lia].
  - exists C'. rewrite nrange_length in *. split; [exact E|]. split; [exact HL|].
    intros j Hj. rewrite HS by exact Hj. rewrite firstn_all. reflexivity.
Qed.

(* ---- Kraft sum ---------------------------------------------------------------------------------- *)
Lemma ph_kraft_spec C : length C = 21%nat -> (forall j, (j < 21)%nat -> nth j C 0 = cnt lens j) ->
  ph_kraft C = Done (W lens 20).
Proof.
  intros HC HS. unfold ph_kraft.
  change (N.to_nat MIN_CODE_LENGTH) with 1%nat. change (N.to_nat MAX_CODE_LENGTH + 1 - 1)%nat with 20%nat.
  destruct (for_loop_inv (fun i sofar => sofar = WS 20 lens i) (nrange 1 20)
    (fun k sofar => c <~ aget ACount C k ;; sh <~ shl64 c (sub32 MAX_CODE_LENGTH k) ;; Done (add64 sofar sh)) 0)
    as [r [E I]].
  - rewrite WS_0. reflexivity.
  - intros i k s Hk ->. apply nrange_nth in Hk as [-> Hi]. change (1 + i)%nat with (S i).
    rewrite aget_nat by lia. cbn [bindM]. rewrite HS by lia.
    rewrite const_MAXLEN. rewrite sub32_small by (rewrite ?W32_val; lia).
    rewrite shl64_ok by lia. cbn [bindM].
    eexists; split; [reflexivity|].
    rewrite WS_S by lia.
    assert (B : WS 20 lens (S i) <= N.of_nat (length lens) * 2 ^ 19).
    { unfold WS. etransitivity; [apply W_ksum; lia|]. apply ksum_bound. exact Hok. }
    rewrite WS_S in B by lia.
    rewrite (N.mod_small (cnt lens (S i) * _)) by (rewrite W64_val; lia).
    apply add64_small. rewrite W64_val. lia.
  - rewrite E. f_equal. rewrite nrange_length in I. rewrite I. apply WS20_W20.
Qed.

(* ---- from here on: the code is complete ---------------------------------------------------------- *)
Hypothesis Hfull : W lens 20 = 2 ^ 20.

Lemma LJ_20 : WS 64 lens 20 = W64.
Proof. unfold WS. rewrite Hfull. reflexivity. Qed.

Lemma LJ_le j : (j <= 20)%nat -> WS 64 lens j <= W64.
Proof. intro H. rewrite <- LJ_20. apply WS_mono; [exact H|cbn; lia]. Qed.

Lemma cnt_some : ~ (forall j, (1 <= j <= 20)%nat -> cnt lens j = 0).
Proof.
  intro H. assert (E : WS 20 lens 20 = WS 20 lens 0).
  { apply WS_const; [lia|cbn; lia|]. intros j Hj. apply H. lia. }
  rewrite WS20_W20, WS_0, Hfull in E. discriminate.
Qed.

Lemma ph_base_spec C B : length C = 21%nat -> (forall j, (j < 21)%nat -> nth j C 0 = cnt lens j) ->
  length B = 22%nat ->
  exists B', ph_base C B = Done B' /\ length B' = 22%nat /\
             forall j, (1 <= j <= 20)%nat -> nth j B' 0 = WS 64 lens (j - 1) mod W64.
Proof.
  intros HC HS HB. unfold ph_base.
  change (N.to_nat MIN_CODE_LENGTH) with 1%nat. change (N.to_nat MAX_CODE_LENGTH + 1 - 1)%nat with 20%nat.
  match goal with |- context [for_loop ?ks ?body ?s0] =>
    destruct (for_loop_inv (fun i (st : list N * N) => length (fst st) = 22%nat /\ snd st = WS 64 lens i mod W64 /\
                forall j, (1 <= j <= i)%nat -> nth j (fst st) 0 = WS 64 lens (j - 1) mod W64) ks body s0)
      as [r [E [I1 [I2 I3]]]] end.
  - cbn [fst snd]. split; [exact HB|]. split; [rewrite WS_0; reflexivity|]. intros; lia.
  - intros i k [B1 sofar] Hk [I1 [I2 I3]]. cbn [fst snd] in *. apply nrange_nth in Hk as [-> Hi].
    change (1 + i)%nat with (S i).
    rewrite aget_nat by lia. cbn [bindM]. rewrite HS by lia.
    rewrite sub32_small by (rewrite ?W32_val; lia). rewrite shl64_ok by lia. cbn [bindM].
    assert (NX : add64 sofar ((cnt lens (S i) * 2 ^ (64 - N.of_nat (S i))) mod W64) = WS 64 lens (S i) mod W64).
    { unfold add64. rewrite I2, <- N.add_mod by (rewrite W64_val; discriminate).
      rewrite <- WS_S by lia. reflexivity. }
    rewrite NX.
    pose proof (LJ_le (S i) ltac:(lia)) as LE.
    pose proof (WS_mono 64 lens i (S i) ltac:(lia) ltac:(lia)) as MO.
    assert (A : ((WS 64 lens (S i) mod W64 =? 0) || (sofar <=? WS 64 lens (S i) mod W64)) = true).
    { apply orb_true_iff. destruct (N.eq_dec (WS 64 lens (S i)) W64) as [Eq|Ne].
      - left. rewrite Eq, N.mod_same by (rewrite W64_val; discriminate). reflexivity.
      - right. apply N.leb_le. rewrite I2. rewrite !N.mod_small by lia. exact MO. }
    rewrite A. cbn [assert bindM].
    rewrite aset_nat by lia. cbn [bindM].
    eexists; split; [reflexivity|]. cbn [fst snd]. split; [rewrite upd_length; exact I1|]. split; [reflexivity|].
    intros j Hj. destruct (Nat.eq_dec j (S i)) as [->|Hne].
    + rewrite nth_upd_same by lia. rewrite I2. replace (S i - 1)%nat with i by lia. reflexivity.
    + rewrite nth_upd_other by exact Hne. apply I3. lia.
  - rewrite nrange_length in *. rewrite E. cbn [bindM].
    rewrite I2, LJ_20, N.mod_same by (rewrite W64_val; discriminate). cbn [N.eqb assert bindM].
    exists (fst r). auto.
Qed.

Lemma ph_sentinel_spec C B : length C = 21%nat -> (forall j, (j < 21)%nat -> nth j C 0 = cnt lens j) ->
  length B = 22%nat -> (forall j, (1 <= j <= 20)%nat -> nth j B 0 = WS 64 lens (j - 1) mod W64) ->
  exists B', ph_sentinel C B = Done B' /\ length B' = 22%nat /\
             forall j, (1 <= j <= 21)%nat -> nth j B' 0 = BASE lens j.
Proof.
  intros HC HS HB HV. unfold ph_sentinel.
  match goal with |- context [do_while ?fu ?body ?cond ?st0] =>
    destruct (do_while_inv
      (fun st : list N * N => exists kk, snd st = N.of_nat kk /\ (2 <= kk <= 21)%nat /\ length (fst st) = 22%nat /\
         (forall j, (kk <= j <= 20)%nat -> cnt lens j = 0) /\
         (forall j, (kk < j <= 21)%nat -> nth j (fst st) 0 = UINT64_MAX) /\
         (forall j, (1 <= j <= kk)%nat -> (j <= 20)%nat -> nth j (fst st) 0 = WS 64 lens (j - 1) mod W64))
      (fun st : list N * N => exists kk, snd st = N.of_nat kk /\ (1 <= kk <= 20)%nat /\ length (fst st) = 22%nat /\
         (forall j, (kk < j <= 20)%nat -> cnt lens j = 0) /\
         (forall j, (kk < j <= 21)%nat -> nth j (fst st) 0 = UINT64_MAX) /\
         (forall j, (1 <= j <= kk)%nat -> nth j (fst st) 0 = WS 64 lens (j - 1) mod W64))
      (fun st => N.to_nat (snd st)) body cond) with (fuel := fu) (s := st0)
      as [r [E [[kk [K1 [K2 [K3 [K4 [K5 K6]]]]]] Ec]]] end.
  - intros [B1 k] [kk [K1 [K2 [K3 [K4 [K5 K6]]]]]]. cbn [fst snd] in *. subst k.
    rewrite const_MINLEN, const_MAXLEN.
    assert (A5 : (1 <? N.of_nat kk) = true) by (apply N.ltb_lt; lia). rewrite A5. cbn [assert bindM].
    assert (OK : (if 20 <? N.of_nat kk then Done true else b <~ aget ABase B1 (N.of_nat kk) ;; Done (b =? 0)) = Done true).
    { destruct (N.ltb_spec 20 (N.of_nat kk)) as [Hlt|Hge]; [reflexivity|].
      rewrite aget_nat by lia. cbn [bindM]. rewrite K6 by lia.
      rewrite <- (WS_const 64 lens (kk - 1) 20) by (try (cbn; lia); try lia; intros j Hj; apply K4; lia).
      rewrite LJ_20, N.mod_same by (rewrite W64_val; discriminate). reflexivity. }
    rewrite OK. cbn [assert bindM].
    rewrite aset_nat by lia. cbn [bindM].
    rewrite sub32_small by (rewrite ?W32_val; lia).
    eexists; split; [reflexivity|]. cbn [fst snd].
    assert (J : exists kk0 : nat, N.of_nat kk - 1 = N.of_nat kk0 /\ (1 <= kk0 <= 20)%nat /\
        length (upd kk UINT64_MAX B1) = 22%nat /\
        (forall j, (kk0 < j <= 20)%nat -> cnt lens j = 0) /\
        (forall j, (kk0 < j <= 21)%nat -> nth j (upd kk UINT64_MAX B1) 0 = UINT64_MAX) /\
        (forall j, (1 <= j <= kk0)%nat -> nth j (upd kk UINT64_MAX B1) 0 = WS 64 lens (j - 1) mod W64)).
    { exists (kk - 1)%nat. split; [lia|]. split; [lia|]. split; [rewrite upd_length; exact K3|].
      split; [intros j Hj; apply K4; lia|]. split.
      - intros j Hj. destruct (Nat.eq_dec j kk) as [->|Hne]; [apply nth_upd_same; lia|].
        rewrite nth_upd_other by exact Hne. apply K5. lia.
      - intros j Hj. rewrite nth_upd_other by lia. apply K6; lia. }
    split; [exact J|].
    replace (N.of_nat kk - 1) with (N.of_nat (kk - 1)) by lia.
    rewrite aget_nat by lia. cbn [bindM]. rewrite HS by lia.
    eexists; split; [reflexivity|]. intro Hz. apply N.eqb_eq in Hz.
    split; [|lia].
    destruct J as [kk0 [J1 [J2 [J3 [J4 [J5 J6]]]]]]. assert (kk0 = (kk - 1)%nat) by lia. subst kk0.
    exists (kk - 1)%nat. split; [reflexivity|].
    assert (kk <> 2)%nat.
    { intros ->. apply cnt_some. intros j Hj. destruct (Nat.eq_dec j 1) as [->|]; [exact Hz|apply K4; lia]. }
    split; [lia|]. split; [exact J3|]. split.
    + intros j Hj. destruct (Nat.eq_dec j (kk - 1)) as [->|]; [exact Hz|apply K4; lia].
    + split; [exact J5|]. intros j Hj _. apply J6. exact Hj.
  - exists 21%nat. cbn [fst snd]. rewrite const_MAXLEN. split; [reflexivity|]. split; [lia|]. split; [exact HB|].
    split; [intros; lia|]. split; [intros; lia|]. intros j Hj Hj'. apply HV. lia.
  - cbn [snd]. rewrite const_MAXLEN. unfold FUEL_LEN. cbn. lia.
  - rewrite E. cbn [bindM]. exists (fst r). split; [reflexivity|]. split; [exact K3|].
    rewrite K1 in Ec. rewrite aget_nat in Ec by lia. cbn [bindM] in Ec. rewrite HS in Ec by lia.
    assert (Hc : cnt lens kk <> 0).
    { intro Z. rewrite Z in Ec. discriminate. }
    assert (T : WS 64 lens kk = W64).
    { rewrite <- LJ_20. symmetry. apply WS_const; [lia|cbn; lia|]. intros j Hj. apply K4. lia. }
    assert (ST : WS 64 lens (kk - 1) < WS 64 lens kk).
    { replace kk with (S (kk - 1)) at 2 by lia. apply WS_strict; [lia|]. replace (S (kk - 1)) with kk by lia. exact Hc. }
    intros j Hj. unfold BASE. destruct (le_lt_dec j kk) as [Hle|Hgt].
    + rewrite K6 by lia.
      pose proof (WS_mono 64 lens (j - 1) (kk - 1) ltac:(lia) ltac:(lia)) as MO.
      rewrite N.mod_small by lia. rewrite N.min_l; [reflexivity|]. rewrite UINT64_MAX_val, W64_val in *. lia.
    + rewrite K5 by lia.
      pose proof (WS_mono 64 lens kk (j - 1) ltac:(lia) ltac:(lia)) as MO.
      rewrite N.min_r; [reflexivity|]. rewrite UINT64_MAX_val, W64_val in *. lia.
Qed.

(* ---- cumulative counts ---------------------------------------------------------------------------------- *)
Lemma ph_cumul_spec C : length C = 21%nat -> (forall j, (j < 21)%nat -> nth j C 0 = cnt lens j) ->
  exists C', ph_cumul n C = Done C' /\ length C' = 21%nat /\ nth 0 C' 0 = 0 /\
             forall j, (1 <= j <= 20)%nat -> nth j C' 0 = IDX lens (j - 1).
Proof.
  intros HC HS. unfold ph_cumul.
  change (N.to_nat MIN_CODE_LENGTH) with 1%nat. change (N.to_nat MAX_CODE_LENGTH + 1 - 1)%nat with 20%nat.
  match goal with |- context [for_loop ?ks ?body ?s0] =>
    destruct (for_loop_inv (fun i (st : list N * N) => length (fst st) = 21%nat /\ snd st = IDX lens i /\
                nth 0 (fst st) 0 = 0 /\
                (forall j, (1 <= j <= i)%nat -> nth j (fst st) 0 = IDX lens (j - 1)) /\
                (forall j, (i < j <= 20)%nat -> nth j (fst st) 0 = cnt lens j)) ks body s0)
      as [r [E [I1 [I2 [I3 [I4 I5]]]]]] end.
  - cbn [fst snd]. split; [exact HC|]. split; [reflexivity|]. split.
    + rewrite HS by lia. apply count_len_out; [exact Hok|cbn; lia].
    + split; [intros; lia|]. intros j Hj. apply HS. lia.
  - intros i k [C1 cum] Hk [I1 [I2 [I3 [I4 I5]]]]. cbn [fst snd] in *. apply nrange_nth in Hk as [-> Hi].
    change (1 + i)%nat with (S i).
    rewrite aget_nat by lia. cbn [bindM]. rewrite aset_nat by lia. cbn [bindM].
    eexists; split; [reflexivity|]. cbn [fst snd]. split; [rewrite upd_length; exact I1|].
    split.
    { rewrite I5 by lia. subst cum. rewrite IDX_S. apply add32_small.
      pose proof (IDX_le_len lens (S i) Hok ltac:(lia)) as B. rewrite IDX_S in B. rewrite W32_val. lia. }
    split; [rewrite nth_upd_other by lia; exact I3|].
    split.
    + intros j Hj. destruct (Nat.eq_dec j (S i)) as [->|Hne].
      * rewrite nth_upd_same by lia. subst cum. f_equal. lia.
      * rewrite nth_upd_other by exact Hne. apply I4. lia.
    + intros j Hj. rewrite nth_upd_other by lia. apply I5. lia.
  - rewrite nrange_length in *. rewrite E. cbn [bindM].
    rewrite I2, IDX_20 by exact Hok. fold n. rewrite N.eqb_refl. cbn [assert bindM].
    exists (fst r). auto.
Qed.

(* ---- counting sort ------------------------------------------------------------------------------------------ *)
Definition SI (s : nat) (st : list N * list N) : Prop :=
  length (fst st) = 21%nat /\ length (snd st) = 258%nat /\ nth 0 (fst st) 0 = 0 /\
  (forall j, (1 <= j <= 20)%nat -> nth j (fst st) 0 = IDX lens (j - 1) + count_len (firstn s lens) (N.of_nat j)) /\
  (forall s', (s' < s)%nat -> nth (N.to_nat (pos lens s')) (snd st) 0 = isym n (N.of_nat s')).

Lemma sort_put_step s val st : SI s st -> (s < length lens)%nat -> val mod W16 = isym n (N.of_nat s) ->
  exists st', sort_put L (N.of_nat s) val st = Done st' /\ SI (S s) st'.
Proof.
  intros [S1 [S2 [S3 [S4 S5]]]] Hs Hv. destruct st as [C P]. cbn [fst snd] in *.
  unfold sort_put. cbn [fst snd]. rewrite L_get by exact Hs. cbn [bindM].
  pose proof (lens_ok_nth lens s Hok Hs) as Hl. set (l := nth s lens 0) in *.
  rewrite aget_ok by lia. cbn [bindM].
  assert (Ec : nth (N.to_nat l) C 0 = pos lens s).
  { rewrite S4 by lia. unfold pos. fold l. rewrite N2Nat.id. reflexivity. }
  rewrite Ec.
  pose proof (pos_lt lens s Hok Hs) as PL. fold l in PL.
  pose proof (IDX_le_len lens (N.to_nat l) Hok ltac:(lia)) as IL.
  rewrite aset_ok by lia. cbn [bindM]. rewrite aset_ok by lia. cbn [bindM].
  eexists; split; [reflexivity|]. unfold SI. cbn [fst snd].
  split; [rewrite upd_length; exact S1|]. split; [rewrite upd_length; exact S2|].
  split; [rewrite nth_upd_other by lia; exact S3|]. split.
  - intros j Hj. rewrite count_len_firstn_S by exact Hs. fold l.
    destruct (Nat.eq_dec j (N.to_nat l)) as [->|Hne].
    + rewrite nth_upd_same by lia. rewrite N2Nat.id, N.eqb_refl.
      rewrite add32_small by (rewrite W32_val; lia). unfold pos. fold l. lia.
    + rewrite nth_upd_other by exact Hne. rewrite S4 by exact Hj.
      destruct (N.eqb_spec (N.of_nat j) l); lia.
  - intros s' Hs'. destruct (Nat.eq_dec s' s) as [->|Hne].
    + rewrite nth_upd_same by lia. exact Hv.
    + rewrite nth_upd_other; [apply S5; lia|].
      intro E. apply Hne. apply (pos_inj lens s' s Hok); [lia|exact Hs|lia].
Qed.

Definition perm_ok (P : list N) : Prop :=
  forall k r, (1 <= k <= 20)%nat -> r < cnt lens k ->
  exists a, a < n /\ nth (N.to_nat (IDX lens (k - 1) + r)) (sorted_syms lens) 0 = a /\
            nth (N.to_nat (IDX lens (k - 1) + r)) P 0 = isym n a.

Lemma n_bounds : 3 <= n <= 258.
Proof. unfold n. lia. Qed.

Lemma ph_sort_spec C P : length C = 21%nat -> nth 0 C 0 = 0 ->
  (forall j, (1 <= j <= 20)%nat -> nth j C 0 = IDX lens (j - 1)) -> length P = 258%nat ->
  exists C' P', ph_sort n L C P = Done (C', P') /\ length C' = 21%nat /\ length P' = 258%nat /\
     (forall j, (j <= 20)%nat -> nth j C' 0 = IDX lens j) /\ perm_ok P'.
Proof.
  intros HC H0 HI HP. pose proof n_bounds as NB. unfold ph_sort.
  assert (I0 : SI 0 (C, P)).
  { unfold SI. cbn [fst snd firstn]. repeat split; auto. intros j Hj. rewrite HI by exact Hj. unfold count_len. cbn. lia.
    intros; lia. }
  destruct (sort_put_step 0 RUN_A (C, P) I0 ltac:(lia)) as [st1 [E1 I1]].
  { unfold isym. cbn. reflexivity. }
  change (N.of_nat 0) with 0 in E1. rewrite E1. cbn [bindM].
  destruct (sort_put_step 1 RUN_B st1 I1 ltac:(lia)) as [st2 [E2 I2]].
  { unfold isym. cbn. reflexivity. }
  change (N.of_nat 1) with 1 in E2. rewrite E2. cbn [bindM].
  rewrite sub32_small by (rewrite ?W32_val; lia).
  replace (N.to_nat (n - 1) - 2)%nat with (length lens - 3)%nat by (unfold n; lia).
  match goal with |- context [for_loop ?ks ?body st2] =>
    destruct (for_loop_inv (fun i st => SI (2 + i) st) ks body st2) as [st3 [E3 I3]] end.
  - exact I2.
  - intros i k st Hk Hi. apply nrange_nth in Hk as [-> Hlt].
    apply sort_put_step; [exact Hi|lia|].
    rewrite sub32_small by (rewrite ?W32_val; lia).
    rewrite N.mod_small by (rewrite W16_val; lia).
    unfold isym.
    destruct (N.eqb_spec (N.of_nat (2 + i)) 0); [lia|].
    destruct (N.eqb_spec (N.of_nat (2 + i)) 1); [lia|].
    destruct (N.eqb_spec (N.of_nat (2 + i)) (n - 1)); [unfold n in *; lia|reflexivity].
  - rewrite E3. cbn [bindM]. rewrite nrange_length in I3.
    replace (2 + (length lens - 3))%nat with (length lens - 1)%nat in I3 by lia.
    replace (n - 1) with (N.of_nat (length lens - 1)) by (unfold n; lia).
    destruct (sort_put_step (length lens - 1) EOB st3 I3 ltac:(lia)) as [st4 [E4 I4]].
    { unfold isym.
      destruct (N.eqb_spec (N.of_nat (length lens - 1)) 0); [lia|].
      destruct (N.eqb_spec (N.of_nat (length lens - 1)) 1); [lia|].
      destruct (N.eqb_spec (N.of_nat (length lens - 1)) (n - 1)); [reflexivity|unfold n in *; lia]. }
    rewrite E4. replace (S (length lens - 1)) with (length lens) in I4 by lia.
    destruct st4 as [C4 P4]. destruct I4 as [S1 [S2 [S3 [S4 S5]]]]. cbn [fst snd] in *.
    exists C4, P4. split; [reflexivity|]. split; [exact S1|]. split; [exact S2|]. split.
    + intros j Hj. destruct j as [|j]; [exact S3|].
      rewrite S4 by lia. rewrite firstn_all. rewrite IDX_S. replace (S j - 1)%nat with j by lia. reflexivity.
    + intros k r Hk Hr. destruct (pos_onto lens k r Hok Hk Hr) as [s [Hs [Hl Hp]]].
      exists (N.of_nat s). split; [unfold n; lia|]. rewrite <- Hp. split; [apply pos_sorted; assumption|].
      apply S5. exact Hs.
Qed.

(* ---- start[]: complete entries (codes of length <= HUFF_START_WIDTH) ------------------------------------------- *)
Lemma kraft_le_full : kraft lens <= kraft_full.
Proof. rewrite kraft_W20 by exact Hok. rewrite Hfull. unfold kraft_full. rewrite N.shiftl_1_l. lia. Qed.

Lemma C10_le k : (k <= 10)%nat -> WS 10 lens k <= 1024.
Proof.
  intro H. etransitivity; [apply (WS_mono 10 lens k 10); [exact H|cbn; lia]|].
  unfold WS. cbn [N.of_nat]. change (10 - 10) with 0. rewrite N.pow_0_r, N.mul_1_r.
  pose proof (W_bound lens 10 ltac:(lia) kraft_le_full) as B. cbn in B. exact B.
Qed.

(* the value of a complete entry: (perm[IDX(k-1) + r] << 5) | k *)
Definition XE (P : list N) (k : nat) (r : N) : N := nth (N.to_nat (IDX lens (k - 1) + r)) P 0 * 32 + N.of_nat k.

Definition lut_idx (k : nat) (r j : N) : N := WS 10 lens (k - 1) + r * 2 ^ (10 - N.of_nat k) + j.

Definition lut_set (P S : list N) (kmax : nat) (rr : N) : Prop :=
  forall k r j, (1 <= k <= 10)%nat -> r < cnt lens k -> j < 2 ^ (10 - N.of_nat k) ->
    ((k <= kmax)%nat \/ (k = Datatypes.S kmax /\ r < rr)) ->
    nth (N.to_nat (lut_idx k r j)) S 0 = XE P k r.

Lemma lut_idx_lt k r j : (1 <= k <= 10)%nat -> r < cnt lens k -> j < 2 ^ (10 - N.of_nat k) ->
  lut_idx k r j < WS 10 lens (k - 1) + (r + 1) * 2 ^ (10 - N.of_nat k) /\
  WS 10 lens (k - 1) + (r + 1) * 2 ^ (10 - N.of_nat k) <= WS 10 lens k.
Proof.
  intros Hk Hr Hj. unfold lut_idx. split; [lia|].
  replace k with (Datatypes.S (k - 1)) at 3 by lia. rewrite WS_S by lia.
  replace (Datatypes.S (k - 1)) with k by lia.
  apply N.add_le_mono_l. apply N.mul_le_mono_r. lia.
Qed.

Lemma fill_run_spec S a b x : length S = 1024%nat -> a <= b -> b <= 1024 ->
  exists S', fill_run S a b x = Done (S', b) /\ length S' = 1024%nat /\
    (forall c, a <= c < b -> nth (N.to_nat c) S' 0 = x) /\
    (forall c, ~ (a <= c < b) -> nth (N.to_nat c) S' 0 = nth (N.to_nat c) S 0).
Proof.
  intros HS Hab Hb. unfold fill_run.
  match goal with |- context [while ?fu ?cond ?body ?st0] =>
    destruct (while_inv
      (fun st : list N * N => a <= snd st <= b /\ length (fst st) = 1024%nat /\
         (forall c, a <= c < snd st -> nth (N.to_nat c) (fst st) 0 = x) /\
         (forall c, ~ (a <= c < snd st) -> nth (N.to_nat c) (fst st) 0 = nth (N.to_nat c) S 0))
      (fun st => N.to_nat (b - snd st)) cond body) with (fuel := fu) (s := st0)
      as [r [E [[I1 [I2 [I3 I4]]] Ec]]] end.
  - intros [S1 v] [I1 [I2 [I3 I4]]]. cbn [fst snd] in *.
    eexists; split; [reflexivity|]. intro Hlt. apply N.ltb_lt in Hlt.
    rewrite aset_ok by lia. cbn [bindM]. rewrite add64_small by (rewrite W64_val; lia).
    eexists; split; [reflexivity|]. cbn [fst snd]. split.
    + split; [lia|]. split; [rewrite upd_length; exact I2|]. split.
      * intros c Hc. destruct (N.eq_dec c v) as [->|Hne]; [apply nth_upd_same; lia|].
        rewrite nth_upd_other by lia. apply I3. lia.
      * intros c Hc. rewrite nth_upd_other by lia. apply I4. lia.
    + lia.
  - cbn [fst snd]. split; [lia|]. split; [exact HS|]. split; [intros; lia|]. intros; reflexivity.
  - cbn [snd]. change FUEL_START with 1025%nat. lia.
  - destruct r as [S1 v]. cbn [fst snd] in *. injection Ec as Ec. apply N.ltb_ge in Ec.
    assert (v = b) by lia. subst v. exists S1. auto.
Qed.

Lemma perm_val P k r : perm_ok P -> (1 <= k <= 20)%nat -> r < cnt lens k ->
  nth (N.to_nat (IDX lens (k - 1) + r)) P 0 <= 258.
Proof.
  intros HP Hk Hr. destruct (HP k r Hk Hr) as [a [Ha [_ E]]]. rewrite E.
  pose proof n_bounds. unfold isym, RUN_A, RUN_B, EOB.
  destruct (a =? 0); [cbn; lia|]. destruct (a =? 1); [cbn; lia|]. destruct (a =? n - 1); lia.
Qed.

Lemma start_sym_step P k rr S code s :
  perm_ok P -> length P = 258%nat -> (1 <= k <= 10)%nat -> rr < cnt lens k ->
  s = IDX lens (k - 1) + rr -> code = WS 10 lens (k - 1) + rr * 2 ^ (10 - N.of_nat k) ->
  length S = 1024%nat -> lut_set P S (k - 1) rr ->
  exists S', start_sym P (N.of_nat k) (2 ^ (10 - N.of_nat k)) (S, code, s) =
               Done (S', code + 2 ^ (10 - N.of_nat k), s + 1) /\
             length S' = 1024%nat /\ lut_set P S' (k - 1) (rr + 1).
Proof.
  intros HP HPl Hk Hrr Hs Hcode HS HL. set (inc := 2 ^ (10 - N.of_nat k)) in *.
  unfold start_sym. cbn [fst snd].
  pose proof (IDX_le_len lens k Hok ltac:(lia)) as IL.
  assert (Ik : IDX lens k = IDX lens (k - 1) + cnt lens k).
  { replace k with (Datatypes.S (k - 1)) at 1 by lia. rewrite IDX_S. replace (Datatypes.S (k - 1)) with k by lia. reflexivity. }
  pose proof n_bounds as NB. unfold n in NB.
  rewrite aget_ok by lia. cbn [bindM].
  pose proof (perm_val P k rr HP ltac:(lia) Hrr) as PV. rewrite <- Hs in PV.
  rewrite shl_int_ok by (cbn; lia). cbn [bindM].
  change (2 ^ 5) with 32. rewrite lor_shift5 by lia.
  rewrite (N.mod_small (_ + N.of_nat k)) by (rewrite W16_val; lia).
  destruct (lut_idx_lt k rr 0 Hk Hrr ltac:(apply N.neq_0_lt_0, N.pow_nonzero; discriminate)) as [_ LE].
  fold inc in LE. pose proof (C10_le k ltac:(lia)) as C10.
  assert (Einc : add64 code inc mod W32 = code + inc).
  { rewrite add64_small by (rewrite W64_val; lia). apply N.mod_small. rewrite W32_val. lia. }
  rewrite Einc.
  destruct (fill_run_spec S code (code + inc) (nth (N.to_nat s) P 0 * 32 + N.of_nat k) HS ltac:(lia) ltac:(lia))
    as [S' [E [L' [F1 F2]]]].
  rewrite E. cbn [bindM fst snd]. rewrite add32_small by (rewrite W32_val; lia).
  exists S'. split; [reflexivity|]. split; [exact L'|].
  intros k' r' j' Hk' Hr' Hj' Hcase.
  destruct (Nat.eq_dec k' k) as [->|Hnk].
  - destruct (N.eq_dec r' rr) as [->|Hnr].
    + rewrite F1; [unfold XE; rewrite <- Hs; reflexivity|]. unfold lut_idx. fold inc in Hj' |- *. lia.
    + destruct (lut_idx_lt k r' j' Hk' Hr' Hj') as [A _]. fold inc in A.
      assert (r' < rr) by lia.
      assert ((r' + 1) * inc <= rr * inc) by (apply N.mul_le_mono_r; lia).
      rewrite F2 by lia. apply HL; try assumption. right. split; [lia|assumption].
  - assert (Hlt : (k' <= k - 1)%nat) by lia.
    destruct (lut_idx_lt k' r' j' Hk' Hr' Hj') as [A B].
    pose proof (WS_mono 10 lens k' (k - 1) Hlt ltac:(lia)) as MO.
    rewrite F2 by lia. apply HL; try assumption. left. exact Hlt.
Qed.

Lemma inc_val i : (i < 10)%nat -> N.shiftr 512 (N.of_nat i) = 2 ^ (10 - N.of_nat (Datatypes.S i)).
Proof. intro H. do 10 (destruct i as [|i]; [reflexivity|]). lia. Qed.

Lemma start_len_step C P i S :
  length C = 21%nat -> (forall j, (j <= 20)%nat -> nth j C 0 = IDX lens j) ->
  perm_ok P -> length P = 258%nat -> (i < 10)%nat ->
  length S = 1024%nat -> lut_set P S i 0 ->
  exists S', start_len C P (N.of_nat (Datatypes.S i)) (S, WS 10 lens i, N.shiftr 512 (N.of_nat i)) =
               Done (S', WS 10 lens (Datatypes.S i), N.shiftr 512 (N.of_nat (Datatypes.S i))) /\
             length S' = 1024%nat /\ lut_set P S' (Datatypes.S i) 0.
Proof.
  intros HC HI HP HPl Hi HS HL. unfold start_len. cbn [fst snd].
  rewrite sub32_small by (rewrite ?W32_val; lia).
  replace (N.of_nat (Datatypes.S i) - 1) with (N.of_nat i) by lia.
  rewrite aget_nat by lia. cbn [bindM]. rewrite HI by lia.
  rewrite inc_val by exact Hi. set (k := Datatypes.S i) in *. set (inc := 2 ^ (10 - N.of_nat k)).
  match goal with |- context [while ?fu ?cond ?body ?st0] =>
    destruct (while_inv
      (fun st : list N * N * N => exists rr, rr <= cnt lens k /\ snd st = IDX lens i + rr /\
         snd (fst st) = WS 10 lens i + rr * inc /\ length (fst (fst st)) = 1024%nat /\
         lut_set P (fst (fst st)) i rr)
      (fun st => N.to_nat (IDX lens k - snd st)) cond body) with (fuel := fu) (s := st0)
      as [r [E [[rr [I1 [I2 [I3 [I4 I5]]]]] Ec]]] end.
  - intros [[S1 code1] s1] [rr [I1 [I2 [I3 [I4 I5]]]]]. cbn [fst snd] in *.
    rewrite aget_nat by lia. cbn [bindM]. rewrite HI by (unfold k; lia).
    eexists; split; [reflexivity|]. intro Hlt. apply N.ltb_lt in Hlt.
    unfold k in Hlt. rewrite IDX_S in Hlt. fold k in Hlt.
    destruct (start_sym_step P k rr S1 code1 s1 HP HPl ltac:(unfold k; lia) ltac:(lia)) as [S2 [E2 [L2 U2]]].
    + unfold k. replace (Datatypes.S i - 1)%nat with i by lia. exact I2.
    + unfold k. replace (Datatypes.S i - 1)%nat with i by lia. exact I3.
    + exact I4.
    + unfold k. replace (Datatypes.S i - 1)%nat with i by lia. exact I5.
    + fold inc in E2. rewrite E2. eexists; split; [reflexivity|]. cbn [fst snd]. split.
      * exists (rr + 1). split; [lia|]. split; [lia|]. split; [lia|]. split; [exact L2|].
        unfold k in U2. replace (Datatypes.S i - 1)%nat with i in U2 by lia. exact U2.
      * unfold k. rewrite IDX_S. fold k. lia.
  - exists 0. cbn [fst snd]. split; [lia|]. split; [lia|]. split; [lia|]. split; [exact HS|exact HL].
  - cbn [snd]. change FUEL_ALPHA with 259%nat. unfold k. rewrite IDX_S.
    pose proof (cnt_le lens (Datatypes.S i)). pose proof n_bounds as NB. unfold n in NB. lia.
  - destruct r as [[S1 code1] s1]. cbn [fst snd] in *.
    rewrite aget_nat in Ec by lia. cbn [bindM] in Ec. rewrite HI in Ec by (unfold k; lia).
    injection Ec as Ec. apply N.ltb_ge in Ec. unfold k in Ec. rewrite IDX_S in Ec. fold k in Ec.
    assert (rr = cnt lens k) by lia. subst rr.
    rewrite E. cbn [bindM fst snd]. rewrite shr64_ok by lia. cbn [bindM].
    exists S1. split.
    + f_equal. f_equal; [f_equal|].
      * rewrite I3. unfold k. rewrite WS_S by lia. reflexivity.
      * unfold inc, k. rewrite <- inc_val by exact Hi. rewrite <- N.shiftr_div_pow2, N.shiftr_shiftr. f_equal. lia.
    + split; [exact I4|]. intros k' r' j' Hk' Hr' Hj' Hcase. apply I5; try assumption.
      destruct Hcase as [Hle|[Heq Hlt]]; [|lia].
      destruct (Nat.eq_dec k' k) as [->|Hne]; [right; split; [reflexivity|exact Hr']|left; unfold k in *; lia].
Qed.

Lemma ph_start_lut_spec C P S :
  length C = 21%nat -> (forall j, (j <= 20)%nat -> nth j C 0 = IDX lens j) ->
  perm_ok P -> length P = 258%nat -> length S = 1024%nat ->
  exists S', ph_start_lut C P S = Done (S', WS 10 lens 10) /\ length S' = 1024%nat /\ lut_set P S' 10 0.
Proof.
  intros HC HI HP HPl HS. unfold ph_start_lut. rewrite const_HSW.
  rewrite shl_int_ok by (cbn; lia). cbn [bindM]. change (1 * 2 ^ (10 - 1)) with 512.
  change (N.to_nat 10) with 10%nat.
  match goal with |- context [for_loop ?ks ?body ?s0] =>
    destruct (for_loop_inv (fun i (st : list N * N * N) => snd (fst st) = WS 10 lens i /\
                snd st = N.shiftr 512 (N.of_nat i) /\ length (fst (fst st)) = 1024%nat /\
                lut_set P (fst (fst st)) i 0) ks body s0)
      as [r [E [I1 [I2 [I3 I4]]]]] end.
  - cbn [fst snd]. split; [rewrite WS_0; reflexivity|]. split; [reflexivity|]. split; [exact HS|].
    intros k r j Hk Hr Hj [Hc|[_ Hc]]; lia.
  - intros i k [[S1 code1] inc1] Hk [I1 [I2 [I3 I4]]]. cbn [fst snd] in *. apply nrange_nth in Hk as [-> Hi].
    change (1 + i)%nat with (Datatypes.S i). subst code1 inc1.
    destruct (start_len_step C P i S1 HC HI HP HPl Hi I3 I4) as [S2 [E2 [L2 U2]]].
    rewrite E2. eexists; split; [reflexivity|]. cbn [fst snd]. auto.
  - rewrite nrange_length in *. rewrite E. cbn [bindM]. destruct r as [[S1 code1] inc1]. cbn [fst snd] in *.
    subst code1. exists S1. auto.
Qed.

(* ---- the canonical walk  while (x >= B[k + 1]) k++ ------------------------------------------------------------ *)
Definition base_ok (B : list N) : Prop :=
  length B = 22%nat /\ forall j, (1 <= j <= 21)%nat -> nth j B 0 = BASE lens j.

Lemma BASE_21 : BASE lens 21 = UINT64_MAX.
Proof. unfold BASE. change (21 - 1)%nat with 20%nat. rewrite LJ_20. reflexivity. Qed.

Lemma BASE_mono a b : (1 <= a <= b)%nat -> (b <= 21)%nat -> BASE lens a <= BASE lens b.
Proof.
  intros H1 H2. unfold BASE. apply N.min_le_compat_r. apply WS_mono; [lia|lia].
Qed.

Lemma walk_spec B x k0 : base_ok B -> (1 <= k0 <= 20)%nat -> x < UINT64_MAX -> BASE lens k0 <= x ->
  exists k, walk B x (N.of_nat k0) = Done (N.of_nat k) /\ (k0 <= k <= 20)%nat /\
            BASE lens k <= x < BASE lens (Datatypes.S k).
Proof.
  intros [HB HV] Hk0 Hx Hb. unfold walk.
  match goal with |- context [while ?fu ?cond ?body ?st0] =>
    destruct (while_inv
      (fun k : N => exists kk, k = N.of_nat kk /\ (k0 <= kk <= 20)%nat /\ BASE lens kk <= x)
      (fun k => (21 - N.to_nat k)%nat) cond body) with (fuel := fu) (s := st0)
      as [r [E [[kk [I1 [I2 I3]]] Ec]]] end.
  - intros k [kk [-> [I2 I3]]].
    rewrite add32_small by (rewrite W32_val; lia).
    replace (N.of_nat kk + 1) with (N.of_nat (Datatypes.S kk)) by lia.
    rewrite aget_nat by lia. cbn [bindM]. rewrite HV by lia.
    eexists; split; [reflexivity|]. intro Hle. apply N.leb_le in Hle.
    eexists; split; [reflexivity|]. split; [|lia].
    exists (Datatypes.S kk). split; [reflexivity|]. split; [|exact Hle].
    destruct (Nat.eq_dec kk 20) as [->|]; [|lia]. rewrite BASE_21 in Hle. lia.
  - exists k0. split; [reflexivity|]. split; [lia|exact Hb].
  - change FUEL_LEN with 23%nat. lia.
  - subst r. exists kk. split; [exact E|]. split; [exact I2|]. split; [exact I3|].
    rewrite add32_small in Ec by (rewrite W32_val; lia).
    replace (N.of_nat kk + 1) with (N.of_nat (Datatypes.S kk)) in Ec by lia.
    rewrite aget_nat in Ec by lia. cbn [bindM] in Ec. rewrite HV in Ec by lia.
    injection Ec as Ec. apply N.leb_gt in Ec. exact Ec.
Qed.

(* ---- start[]: remaining entries --------------------------------------------------------------------------------- *)
Definition slow_ok (S : list N) : Prop :=
  forall c, WS 10 lens 10 <= c < 1024 ->
  exists k0, nth (N.to_nat c) S 0 = N.of_nat k0 /\ (11 <= k0 <= 20)%nat /\ BASE lens k0 <= c * 2 ^ 54.

Lemma ph_start_rest_spec B P S :
  base_ok B -> length S = 1024%nat -> lut_set P S 10 0 ->
  exists S', ph_start_rest B S (WS 10 lens 10) = Done S' /\ length S' = 1024%nat /\ lut_set P S' 10 0 /\ slow_ok S'.
Proof.
  intros HB HS HL. pose proof HB as [HBl HBv]. unfold ph_start_rest. rewrite const_HSW.
  set (code0 := WS 10 lens 10). pose proof (C10_le 10 ltac:(lia)) as C0. fold code0 in C0.
  rewrite sub32_small by (rewrite ?W32_val; lia). rewrite shl64_ok by lia. cbn [bindM].
  change (64 - 10) with 54. change (10 + 1) with (N.of_nat 11).
  match goal with |- context [while ?fu ?cond ?body ?st0] =>
    destruct (while_inv
      (fun st : list N * N * N * N =>
         exists kk, snd (fst st) = N.of_nat kk /\ (11 <= kk <= 20)%nat /\
           code0 <= snd (fst (fst st)) <= 1024 /\ snd st = (snd (fst (fst st)) * 2 ^ 54) mod W64 /\
           length (fst (fst (fst st))) = 1024%nat /\
           BASE lens kk <= snd (fst (fst st)) * 2 ^ 54 /\
           (forall c, c < code0 -> nth (N.to_nat c) (fst (fst (fst st))) 0 = nth (N.to_nat c) S 0) /\
           (forall c, code0 <= c < snd (fst (fst st)) ->
              exists k0, nth (N.to_nat c) (fst (fst (fst st))) 0 = N.of_nat k0 /\ (11 <= k0 <= 20)%nat /\
                         BASE lens k0 <= c * 2 ^ 54))
      (fun st => N.to_nat (1024 - snd (fst (fst st)))) cond body) with (fuel := fu) (s := st0)
      as [r [E [[kk [I1 [I2 [I3 [I4 [I5 [I6 [I7 I8]]]]]]]] Ec]]] end.
  - intros [[[S1 code1] k1] sofar1] [kk [I1 [I2 [I3 [I4 [I5 [I6 [I7 I8]]]]]]]]. cbn [fst snd] in *.
    rewrite shl_int_ok by (cbn; lia). cbn [bindM]. change (1 * 2 ^ 10) with 1024.
    eexists; split; [reflexivity|]. intro Hlt. apply N.ltb_lt in Hlt.
    assert (SM : code1 * 2 ^ 54 < UINT64_MAX).
    { rewrite UINT64_MAX_val. change (2 ^ 54) with 18014398509481984. lia. }
    rewrite N.mod_small in I4 by (rewrite W64_val, UINT64_MAX_val in *; lia).
    subst k1 sofar1.
    destruct (walk_spec B (code1 * 2 ^ 54) kk HB ltac:(lia) SM I6) as [k' [Ew [K1 K2]]].
    rewrite Ew. cbn [bindM].
    rewrite aset_ok by lia. cbn [bindM].
    rewrite shl64_ok by lia. cbn [bindM].
    eexists; split; [reflexivity|]. cbn [fst snd].
    rewrite add32_small by (rewrite W32_val; lia).
    split; [|lia].
    exists k'. split; [reflexivity|]. split; [lia|]. split; [lia|]. split.
    { unfold add64. change (64 - 10) with 54. rewrite N.mul_1_l.
      rewrite N.add_mod_idemp_r by (rewrite W64_val; discriminate). f_equal. lia. }
    split; [rewrite upd_length; exact I5|]. split; [lia|]. split.
    + intros c Hc. rewrite nth_upd_other by lia. apply I7. exact Hc.
    + intros c Hc. destruct (N.eq_dec c code1) as [->|Hne].
      * exists k'. rewrite nth_upd_same by lia. rewrite N.mod_small by (rewrite W16_val; lia).
        split; [reflexivity|]. split; [lia|]. apply K2.
      * rewrite nth_upd_other by lia. apply I8. lia.
  - exists 11%nat. cbn [fst snd]. split; [reflexivity|]. split; [lia|]. split; [lia|]. split; [reflexivity|].
    split; [exact HS|]. split.
    + unfold BASE. change (11 - 1)%nat with 10%nat. etransitivity; [apply N.le_min_l|].
      rewrite (WS_scale 10 64 lens 10) by (cbn; lia). fold code0. change (64 - 10) with 54. lia.
    + split; [intros; reflexivity|]. intros c Hc. lia.
  - cbn [fst snd]. change FUEL_START with 1025%nat. lia.
  - destruct r as [[[S1 code1] k1] sofar1]. cbn [fst snd] in *.
    rewrite shl_int_ok in Ec by (cbn; lia). cbn [bindM] in Ec. change (1 * 2 ^ 10) with 1024 in Ec.
    injection Ec as Ec. apply N.ltb_ge in Ec. assert (code1 = 1024) by lia. subst code1.
    rewrite E. cbn [bindM fst snd]. rewrite I4. change ((1024 * 2 ^ 54) mod W64) with 0.
    cbn [N.eqb assert bindM].
    exists S1. split; [reflexivity|]. split; [exact I5|]. split.
    + intros k r j Hk Hr Hj Hc. rewrite I7; [apply HL; assumption|].
      destruct (lut_idx_lt k r j Hk Hr Hj) as [A B']. pose proof (WS_mono 10 lens k 10 ltac:(lia) ltac:(cbn; lia)).
      fold code0 in H. lia.
    + exact I8.
Qed.

(* ---- restoring the cumulative counts ------------------------------------------------------------------------------ *)
Lemma rev_range_nth i k : nth_error (rev (nrange 1 20)) i = Some k -> k = N.of_nat (20 - i) /\ (i < 20)%nat.
Proof.
  change (rev (nrange 1 20)) with (map (fun i => N.of_nat (20 - i)) (seq 0 20)). intro H.
  assert (Lt : (i < 20)%nat).
  { assert (H' : nth_error (map (fun i => N.of_nat (20 - i)) (seq 0 20)) i <> None) by congruence.
    apply nth_error_Some in H'. rewrite map_length, seq_length in H'. exact H'. }
  split; [|exact Lt]. rewrite nth_error_map in H.
  rewrite (nth_error_nth' _ 0%nat) in H by (rewrite seq_length; exact Lt).
  rewrite seq_nth in H by exact Lt. cbn [option_map] in H. injection H as H. rewrite <- H. f_equal.
Qed.

Definition count_ok (C : list N) : Prop :=
  length C = 21%nat /\ nth 0 C 0 = 0 /\ forall j, (1 <= j <= 20)%nat -> nth j C 0 = IDX lens (j - 1).

Lemma ph_restore_spec C : length C = 21%nat -> (forall j, (j <= 20)%nat -> nth j C 0 = IDX lens j) ->
  exists C', ph_restore C = Done C' /\ count_ok C'.
Proof.
  intros HC HI. unfold ph_restore. change (N.to_nat MAX_CODE_LENGTH) with 20%nat.
  match goal with |- context [for_loop ?ks ?body ?s0] =>
    destruct (for_loop_inv (fun i (C1 : list N) => length C1 = 21%nat /\
                (forall j, (j <= 20 - i)%nat -> nth j C1 0 = IDX lens j) /\
                (forall j, (20 - i < j <= 20)%nat -> nth j C1 0 = IDX lens (j - 1))) ks body s0)
      as [r [E [I1 [I2 I3]]]] end.
  - split; [exact HC|]. split; [intros j Hj; apply HI; lia|]. intros; lia.
  - intros i k C1 Hk [I1 [I2 I3]]. apply rev_range_nth in Hk as [-> Hi].
    rewrite sub32_small by (rewrite ?W32_val; lia).
    replace (N.of_nat (20 - i) - 1) with (N.of_nat (20 - i - 1)) by lia.
    rewrite aget_nat by lia. cbn [bindM]. rewrite aset_nat by lia.
    eexists; split; [reflexivity|]. split; [rewrite upd_length; exact I1|]. split.
    + intros j Hj. rewrite nth_upd_other by lia. apply I2. lia.
    + intros j Hj. destruct (Nat.eq_dec j (20 - i)) as [->|Hne].
      * rewrite nth_upd_same by lia. apply I2. lia.
      * rewrite nth_upd_other by exact Hne. apply I3. lia.
  - rewrite rev_length, nrange_length in *. rewrite E. cbn [bindM].
    rewrite aget_ok by (rewrite I1; cbn; lia). cbn [bindM]. change (N.to_nat 0) with 0%nat.
    rewrite I2 by lia. rewrite IDX_0. cbn [N.eqb assert bindM].
    exists r. split; [reflexivity|]. split; [exact I1|]. split; [rewrite I2 by lia; apply IDX_0|].
    intros j Hj. apply I3. lia.
Qed.
End Build.

(* ---- make_tree() as a whole ---------------------------------------------------------------------------------------- *)
Lemma tree_wf_lengths T : tree_wf T ->
  length (t_start T) = 1024%nat /\ length (t_base T) = 22%nat /\ length (t_count T) = 21%nat /\ length (t_perm T) = 258%nat.
Proof.
  intros [A [B [C D]]].
  change START_SIZE with 1024 in A. change BASE_SIZE with 22 in B. change COUNT_SIZE with 21 in C.
  change PERM_SIZE with 258 in D. lia.
Qed.

(* what a successfully built tree looks like, in terms of the canonical code of [lens] *)
Definition tree_ok (lens : list N) (T : tree) : Prop :=
  length (t_start T) = 1024%nat /\ lut_set lens (t_perm T) (t_start T) 10 0 /\ slow_ok lens (t_start T) /\
  base_ok lens (t_base T) /\ count_ok lens (t_count T) /\ perm_ok lens (t_perm T) /\ length (t_perm T) = 258%nat.

(* the phase lemmas were generalised over whatever section hypotheses their proofs touched:
   feed them from the context *)
Ltac feed H := repeat match type of H with
  | ?A -> _ => let a := fresh in assert (a : A) by assumption; specialize (H a); clear a end.

Section Whole.
Variables lens pad : list N.
Hypothesis Hok : lens_ok lens.
Hypothesis Hn3 : (3 <= length lens)%nat.
Hypothesis Hpad : (length lens + length pad = 258)%nat.
Variable T : tree.
Hypothesis Hwf : tree_wf T.

Lemma make_tree_prefix :
  exists C, length C = 21%nat /\ (forall j, (j < 21)%nat -> nth j C 0 = cnt lens j) /\
  make_tree (N.of_nat (length lens)) (lens ++ pad) T =
    (if negb (W lens 20 =? 2 ^ 20) then
       Done (if W lens 20 <? 2 ^ 20 then VIncomplete else VPrefix, mk_tree (t_start T) (t_base T) C (t_perm T))
     else
       B <~ ph_base C (t_base T) ;;
       B <~ ph_sentinel C B ;;
       C' <~ ph_cumul (N.of_nat (length lens)) C ;;
       CP <~ ph_sort (N.of_nat (length lens)) (lens ++ pad) C' (t_perm T) ;;
       Sc <~ ph_start_lut (fst CP) (snd CP) (t_start T) ;;
       S <~ ph_start_rest B (fst Sc) (snd Sc) ;;
       C'' <~ ph_restore (fst CP) ;;
       Done (VBuilt, mk_tree S B C'' (snd CP))).
Proof.
  destruct (tree_wf_lengths T Hwf) as [LS [LB [LC LP]]].
  pose proof (ph_zero_spec lens pad) as X1. feed X1. specialize (X1 (t_count T)). feed X1.
  destruct X1 as [C1 [E1 [L1 Z1]]].
  pose proof (ph_count_spec lens pad) as X2. feed X2. specialize (X2 C1). feed X2.
  destruct X2 as [C2 [E2 [L2 S2]]].
  exists C2. split; [exact L2|]. split; [exact S2|].
  unfold make_tree. rewrite E1. cbn [bindM]. rewrite E2. cbn [bindM].
  rewrite aget_ok by (rewrite L2; cbn; lia). cbn [bindM]. change (N.to_nat 0) with 0%nat.
  rewrite S2 by lia. unfold cnt. rewrite (count_len_out lens (N.of_nat 0) Hok) by (cbn; lia).
  cbn [N.eqb assert bindM].
  pose proof (ph_kraft_spec lens pad) as X3. feed X3. specialize (X3 C2). feed X3.
  rewrite X3. cbn [bindM].
  rewrite const_MAXLEN. rewrite shl_int_ok by (cbn; lia). cbn [bindM]. rewrite N.mul_1_l.
  reflexivity.
Qed.

Theorem make_tree_error : W lens 20 <> 2 ^ 20 ->
  exists C, make_tree (N.of_nat (length lens)) (lens ++ pad) T =
    Done (if W lens 20 <? 2 ^ 20 then VIncomplete else VPrefix, mk_tree (t_start T) (t_base T) C (t_perm T)).
Proof.
  intro Hne. destruct make_tree_prefix as [C [_ [_ E]]]. exists C. rewrite E.
  apply N.eqb_neq in Hne. rewrite Hne. reflexivity.
Qed.

Theorem make_tree_built : W lens 20 = 2 ^ 20 ->
  exists T', make_tree (N.of_nat (length lens)) (lens ++ pad) T = Done (VBuilt, T') /\ tree_ok lens T'.
Proof.
  intro Hfull. destruct (tree_wf_lengths T Hwf) as [LS [LB [LC LP]]].
  destruct make_tree_prefix as [C [L2 [S2 E]]]. rewrite E. clear E.
  rewrite Hfull, N.eqb_refl. cbn [negb].
  pose proof (ph_base_spec lens pad) as X1. feed X1. specialize (X1 C (t_base T)). feed X1.
  destruct X1 as [B1 [E1 [LB1 V1]]]. rewrite E1. cbn [bindM].
  pose proof (ph_sentinel_spec lens pad) as X2. feed X2. specialize (X2 C B1). feed X2.
  destruct X2 as [B2 [E2 [LB2 V2]]]. rewrite E2. cbn [bindM].
  pose proof (ph_cumul_spec lens pad) as X3. feed X3. specialize (X3 C). feed X3.
  destruct X3 as [C3 [E3 [L3 [Z3 V3]]]]. rewrite E3. cbn [bindM].
  pose proof (ph_sort_spec lens pad) as X4. feed X4. specialize (X4 C3 (t_perm T)). feed X4.
  destruct X4 as [C4 [P4 [E4 [L4 [LP4 [V4 PO]]]]]]. rewrite E4. cbn [bindM fst snd].
  pose proof (ph_start_lut_spec lens pad) as X5. feed X5. specialize (X5 C4 P4 (t_start T)). feed X5.
  destruct X5 as [S5 [E5 [L5 U5]]]. rewrite E5. cbn [bindM fst snd].
  assert (BO : base_ok lens B2) by (split; assumption).
  pose proof (ph_start_rest_spec lens pad) as X6. feed X6. specialize (X6 B2 P4 S5). feed X6.
  destruct X6 as [S6 [E6 [L6 [U6 SO]]]]. rewrite E6. cbn [bindM].
  pose proof (ph_restore_spec lens pad) as X7. feed X7. specialize (X7 C4). feed X7.
  destruct X7 as [C7 [E7 CO]]. rewrite E7. cbn [bindM].
  eexists; split; [reflexivity|]. unfold tree_ok. cbn [t_start t_base t_count t_perm].
  split; [exact L6|]. split; [exact U6|]. split; [exact SO|]. split; [exact BO|]. split; [exact CO|].
  split; [exact PO|exact LP4].
Qed.
End Whole.
