(* C08, sliding-list inverse MTF (src/decode.c: mtf_one): safety and refinement proofs
   for the array-level model of Safe/SlideModel.v.

   Invariant ([layout L st]):
     - the slide has L cells, there are 16 row offsets;
     - rows are 16 cells wide, ordered and disjoint:  row[i] + 16*(j-i) <= row[j]  for i <= j < 16
       (so  row[i+1] = row[i] + 16 + gap_i  with gap_i >= 0);
     - row[15] + 16 <= L                                  (hence row[i] + 16*(16-i) <= L).
   The lower end needs no clause: offsets are naturals and every decrement is checked by [pdec].
   A fast-path call (c < 16) leaves the row offsets unchanged.  A general-case call with target
   row t = c / 16 first rebuilds if row[0] = 0 (all rows copied to the top, last row first: row[i]
   becomes L - 256 + 16*i, which is >= 1 because 256 < SLIDE_LENGTH), then decrements row[0..t-1]
   by one (gap_(t-1) grows by one, everything else keeps its distance), so row[0] decreases by
   exactly one per general-case call ([mtf_one_ok], last conjunct).  The slot one below row[i]
   (i < t) that becomes its new first cell exists because row[i] >= row[0] >= 1 at that point; it is
   written by the NEXT loop iteration (or by the final  *pp = c  for row 0), and when gap_(i-1) = 0
   it coincides with the last cell of row i-1, whose value is read before ([carry_spec]).

   Abstract content [absl st] = concatenation of the 16 rows (256 cells).  Main results, first for
   any slide length L > 256, then for the regenerated constants (side conditions ROW_WIDTH = 16,
   NUM_ROWS = 16, NUM_ROWS * ROW_WIDTH = 256, 256 < SLIDE_LENGTH, CMAP_BASE + 256 = SLIDE_LENGTH,
   all by computation):
     slide_safe, slide_safe_from_init   (a) no out-of-bounds access for any sequence of positions < 256
     slide_step_refines, slide_refines_list  (b) absl evolves like Format.mtf_front, for positions 1..255
     slide_step_sim, slide_run_sim, slide_block, unmtf_slide_refines
                                        (c) interface with the list-based decoder model Dec/Format.v

   Preconditions and what they mean for the C code:
     * position 0 is excluded from (b),(c): mtf_one(.., 0) executes `default: abort()`
       ([mtf_one_zero]); retrieve() never passes 0 because symbol 0 is EOB and is tested before.
     * (c) needs positions < number of bytes in use.  Cells at positions >= ninuse hold whatever the
       memory held before (the bitmap loop writes only CMAP_BASE .. CMAP_BASE+ninuse, the last one
       with a stale j); the model takes these as an arbitrary list [junk] and the theorems hold for
       every junk, i.e. the returned bytes do not depend on it.  Such positions are never requested:
       symbols come from perm[]/start[], filled by make_tree() with RUN_A, RUN_B, EOB and s - 1 for
       2 <= s < alpha_size - 1 = ninuse + 1, i.e. MTF positions 1 .. ninuse - 1.
       A rebuild does COPY the stale cells (it moves all 256 cells of the 16 rows); that is a read of
       indeterminate `unsigned char` objects in allocated storage, which is not undefined behaviour,
       and the values are never returned or branched on ([slide_block]: result independent of junk). *)
From Coq Require Import List NArith Arith Bool Lia ZifyBool ZifyNat ZifyN.
From LBZ Require Import Gen.DecTabs Safe.SlideModel Dec.Prog Dec.Format.
Import ListNotations.
Local Open Scope N_scope.

(* ---- side conditions on the regenerated constants (by computation) ------------------ *)
Lemma RW16 : ROW_WIDTH = 16. Proof. reflexivity. Qed.
Lemma NR16 : NUM_ROWS = 16. Proof. reflexivity. Qed.
Lemma rows_cover_256 : NUM_ROWS * ROW_WIDTH = 256. Proof. reflexivity. Qed.
Lemma slide_room : 256 < SLIDE_LENGTH. Proof. reflexivity. Qed.
Lemma cmap_base_ok : CMAP_BASE + 256 = SLIDE_LENGTH. Proof. reflexivity. Qed.

(* ---- arrays ----------------------------------------------------------------------------- *)
Definition len (a : list N) : N := N.of_nat (length a).
Definition get (a : list N) (i : N) : N := nth (N.to_nat i) a 0.

Fixpoint upd (n : nat) (v : N) (a : list N) : list N :=
  match a, n with
  | [], _ => []
  | _ :: r, O => v :: r
  | x :: r, S m => x :: upd m v r
  end.
Definition set (a : list N) (i v : N) : list N := upd (N.to_nat i) v a.

Lemma updo_upd : forall n v a, (n < length a)%nat -> updo n v a = Some (upd n v a).
Proof.
  induction n as [|n IH]; intros v [|x r] Hl; cbn [length] in Hl; try lia; cbn [updo upd].
  - reflexivity.
  - rewrite IH by lia. reflexivity.
Qed.

Lemma length_upd : forall n v a, length (upd n v a) = length a.
Proof. induction n as [|n IH]; intros v [|x r]; cbn [upd length]; auto. Qed.

Lemma nth_upd : forall n v a j, (n < length a)%nat ->
  nth j (upd n v a) 0 = if Nat.eqb j n then v else nth j a 0.
Proof.
  induction n as [|n IH]; intros v [|x r] j Hl; cbn [length] in Hl; try lia; cbn [upd].
  - destruct j; reflexivity.
  - destruct j as [|j]; cbn [nth Nat.eqb]; [reflexivity|]. apply IH. lia.
Qed.

Lemma rd_ok : forall a i, i < len a -> rd a i = Some (get a i).
Proof.
  intros a i H. unfold rd, get, len in *. apply nth_error_nth'. lia.
Qed.

Lemma wr_ok : forall a i v, i < len a -> wr a i v = Some (set a i v).
Proof. intros a i v H. unfold wr, set, len in *. apply updo_upd. lia. Qed.

Lemma len_set : forall a i v, len (set a i v) = len a.
Proof. intros. unfold len, set. now rewrite length_upd. Qed.

Lemma get_set : forall a i v j, i < len a ->
  get (set a i v) j = if j =? i then v else get a j.
Proof.
  intros a i v j H. unfold get, set, len in *. rewrite nth_upd by lia.
  destruct (N.eqb_spec j i) as [->|Hn].
  - now rewrite Nat.eqb_refl.
  - destruct (Nat.eqb_spec (N.to_nat j) (N.to_nat i)); [lia|reflexivity].
Qed.

Lemma pdec_ok : forall p, 1 <= p -> pdec p = Some (p - 1).
Proof. intros p H. unfold pdec. destruct (N.eqb_spec p 0); [lia|reflexivity]. Qed.

Lemma padd_ok : forall lim p k, p + k <= lim -> padd lim p k = Some (p + k).
Proof. intros. unfold padd. destruct (N.leb_spec (p + k) lim); [reflexivity|lia]. Qed.

Ltac bdestr :=
  repeat match goal with
  | |- context [if ?b then _ else _] => let E := fresh "E" in destruct b eqn:E
  end.

(* ---- shift_up --------------------------------------------------------------------------- *)
Lemma shift_up_spec : forall k a bb,
  bb + N.of_nat k < len a ->
  exists a', shift_up k a bb = Some a' /\ len a' = len a /\
    forall j, get a' j = if (bb <? j) && (j <=? bb + N.of_nat k) then get a (j - 1) else get a j.
Proof.
  induction k as [|k IH]; intros a bb Hb.
  - exists a. cbn [shift_up]. repeat split. intros j. bdestr; [lia|reflexivity].
  - cbn [shift_up]. rewrite rd_ok by lia. cbn [obind].
    rewrite wr_ok by lia. cbn [obind].
    destruct (IH (set a (bb + N.of_nat (S k)) (get a (bb + N.of_nat k))) bb) as (a' & He & Hl & Hg).
    { rewrite len_set. lia. }
    exists a'. split; [exact He|]. split; [now rewrite Hl, len_set|].
    intros j. rewrite Hg. rewrite !get_set by lia.
    bdestr; try lia; try reflexivity; f_equal; lia.
Qed.

(* ---- copy_down --------------------------------------------------------------------------- *)
Lemma copy_down_spec : forall n a bb kk,
  N.of_nat n <= bb -> bb <= kk -> kk <= len a ->
  exists a', copy_down n a bb kk = Some (a', kk - N.of_nat n) /\ len a' = len a /\
    forall j, get a' j =
      if (kk - N.of_nat n <=? j) && (j <? kk) then get a (j - (kk - bb)) else get a j.
Proof.
  induction n as [|n IH]; intros a bb kk H1 H2 H3.
  - exists a. cbn [copy_down]. split; [f_equal; f_equal; lia|]. split; [reflexivity|].
    intros j. bdestr; [lia|reflexivity].
  - cbn [copy_down]. rewrite (pdec_ok kk) by lia. cbn [obind].
    rewrite (pdec_ok bb) by lia. cbn [obind].
    rewrite rd_ok by lia. cbn [obind]. rewrite wr_ok by lia. cbn [obind].
    destruct (IH (set a (kk - 1) (get a (bb - 1))) (bb - 1) (kk - 1)) as (a' & He & Hl & Hg);
      try (rewrite ?len_set; lia).
    exists a'. split; [rewrite He; f_equal; f_equal; lia|].
    split; [now rewrite Hl, len_set|].
    intros j. rewrite Hg. rewrite !get_set by lia.
    bdestr; try lia; try reflexivity; f_equal; lia.
Qed.

Ltac beq := repeat match goal with H : (_ =? _) = true |- _ => apply N.eqb_eq in H end.

(* ---- carry ------------------------------------------------------------------------------ *)
(* [dm] = the (possibly already decremented) pointer of the row the first iteration writes to *)
Lemma carry_spec : forall m a rows pp dm,
  N.of_nat m < len rows ->
  get rows (N.of_nat m) = dm ->
  dm < len a ->
  (forall i, i < N.of_nat m -> 1 <= get rows i /\ get rows i + 15 <= dm) ->
  (forall i j, i < j -> j < N.of_nat m -> get rows i + 16 <= get rows j) ->
  exists a' rows' pp',
    carry m a rows pp = Some (a', rows', pp') /\ len a' = len a /\ len rows' = len rows /\
    (forall i, get rows' i = if i <? N.of_nat m then get rows i - 1 else get rows i) /\
    pp' = (if N.of_nat m =? 0 then pp else get rows 0 - 1) /\
    (1 <= N.of_nat m -> get a' dm = get a (get rows (N.of_nat m - 1) + 15)) /\
    (forall l, l + 1 < N.of_nat m -> get a' (get rows (l + 1) - 1) = get a (get rows l + 15)) /\
    (forall y, (1 <= N.of_nat m -> y <> dm) ->
               (forall l, l + 1 < N.of_nat m -> y <> get rows (l + 1) - 1) -> get a' y = get a y).
Proof.
  induction m as [|l IH]; intros a rows pp dm Hm Hdm Hda Hlow Hsort.
  - exists a, rows, pp. cbn [carry]. repeat split; try reflexivity; intros; try lia.
    bdestr; [lia|reflexivity].
  - cbn [carry].
    assert (Hl : N.of_nat l < N.of_nat (S l)) by lia.
    destruct (Hlow _ Hl) as [Hl1 Hl15].
    rewrite (rd_ok rows) by lia. cbn [obind].
    rewrite pdec_ok by lia. cbn [obind].
    rewrite (wr_ok rows) by lia. cbn [obind].
    set (r := get rows (N.of_nat l)) in *.
    rewrite RW16. rewrite (rd_ok a) by lia. cbn [obind].
    rewrite rd_ok by (rewrite len_set; lia). cbn [obind].
    rewrite get_set by lia.
    replace (N.of_nat (S l) =? N.of_nat l) with false by lia.
    rewrite Hdm. rewrite wr_ok by lia. cbn [obind].
    set (rows1 := set rows (N.of_nat l) (r - 1)).
    set (v := get a (r - 1 + 16)).
    assert (Hr1 : forall i, get rows1 i = if i =? N.of_nat l then r - 1 else get rows i).
    { intros i. unfold rows1. apply get_set. lia. }
    destruct (IH (set a dm v) rows1 (r - 1) (r - 1)) as (a' & rows' & pp' & He & Hla & Hlr & Hrows & Hpp & Hd & Hc & Hu).
    { unfold rows1. rewrite len_set. lia. }
    { rewrite Hr1. now rewrite N.eqb_refl. }
    { rewrite len_set. lia. }
    { intros i Hi. rewrite Hr1. replace (i =? N.of_nat l) with false by lia.
      split; [apply Hlow; lia|]. pose proof (Hsort i (N.of_nat l)). fold r in H. lia. }
    { intros i j Hij Hj. rewrite !Hr1.
      replace (i =? N.of_nat l) with false by lia. replace (j =? N.of_nat l) with false by lia.
      apply Hsort; lia. }
    exists a', rows', pp'. split; [exact He|].
    split; [now rewrite Hla, len_set|].
    split; [unfold rows1 in Hlr; now rewrite Hlr, len_set|].
    assert (Ha1 : forall y, get (set a dm v) y = if y =? dm then v else get a y).
    { intros y. apply get_set. lia. }
    split; [|split; [|split; [|split]]].
    + intros i. rewrite Hrows, Hr1. bdestr; try lia; try reflexivity.
      beq. subst i. reflexivity.
    + rewrite Hpp. rewrite Hr1. bdestr; try lia; try reflexivity.
      beq. unfold r. f_equal. f_equal. lia.
    + intros _. rewrite Hu.
      * rewrite Ha1, N.eqb_refl. unfold v.
        replace (N.of_nat (S l) - 1) with (N.of_nat l) by lia. fold r. f_equal. lia.
      * intros _. lia.
      * intros l0 Hl0. rewrite Hr1. replace (l0 + 1 =? N.of_nat l) with false by lia.
        pose proof (Hsort (l0 + 1) (N.of_nat l)). fold r in H. lia.
    + intros l0 Hl0.
      destruct (N.eq_dec (l0 + 1) (N.of_nat l)) as [Heq|Hne].
      * rewrite Heq. fold r.
        assert (H1l : 1 <= N.of_nat l) by lia. specialize (Hd H1l).
        rewrite Hd. rewrite Hr1. replace (N.of_nat l - 1 =? N.of_nat l) with false by lia.
        rewrite Ha1. replace (N.of_nat l - 1) with l0 by lia.
        pose proof (Hsort l0 (N.of_nat l)). fold r in H.
        replace (get rows l0 + 15 =? dm) with false by lia. reflexivity.
      * assert (Hlt : l0 + 1 < N.of_nat l) by lia.
        specialize (Hc l0 Hlt). rewrite !Hr1 in Hc.
        replace (l0 + 1 =? N.of_nat l) with false in Hc by lia.
        replace (l0 =? N.of_nat l) with false in Hc by lia.
        rewrite Hc, Ha1.
        pose proof (Hsort l0 (N.of_nat l)). fold r in H.
        replace (get rows l0 + 15 =? dm) with false by lia. reflexivity.
    + intros y Hy1 Hy2. rewrite Hu.
      * rewrite Ha1. replace (y =? dm) with false; [reflexivity|]. symmetry. apply N.eqb_neq. apply Hy1. lia.
      * intros H1l. specialize (Hy2 (N.of_nat l - 1)).
        replace (N.of_nat l - 1 + 1) with (N.of_nat l) in Hy2 by lia. fold r in Hy2. apply Hy2. lia.
      * intros l0 Hl0. rewrite Hr1. replace (l0 + 1 =? N.of_nat l) with false by lia. apply Hy2. lia.
Qed.

(* ---- rebuild ------------------------------------------------------------------------------ *)
Lemma rebuild_loop_spec : forall L n a rows kk,
  len a = L -> N.of_nat n <= len rows -> kk <= L ->
  (forall i, i < N.of_nat n -> get rows i + 16 * (N.of_nat n - i) <= kk) ->
  exists a' rows', rebuild_loop L n a rows kk = Some (a', rows') /\ len a' = L /\ len rows' = len rows /\
    (forall i, get rows' i = if i <? N.of_nat n then kk - 16 * (N.of_nat n - i) else get rows i) /\
    (forall i q, i < N.of_nat n -> q < 16 ->
       get a' (kk - 16 * (N.of_nat n - i) + q) = get a (get rows i + q)) /\
    (forall y, kk <= y -> get a' y = get a y).
Proof.
  intros L. induction n as [|r IH]; intros a rows kk Hla Hn Hkk Hfit.
  - exists a, rows. cbn [rebuild_loop]. repeat split; auto; intros; try lia.
    bdestr; [lia|reflexivity].
  - cbn [rebuild_loop].
    assert (Hr : N.of_nat r < N.of_nat (S r)) by lia.
    pose proof (Hfit _ Hr) as Hbg.
    rewrite (rd_ok rows) by lia. cbn [obind].
    set (bg := get rows (N.of_nat r)) in *.
    rewrite RW16. rewrite padd_ok by lia. cbn [obind].
    replace (bg + 16 - bg) with 16 by lia.
    destruct (copy_down_spec (N.to_nat 16) a (bg + 16) kk) as (a1 & He1 & Hl1 & Hg1); try lia.
    rewrite He1. cbn [obind].
    replace (kk - N.of_nat (N.to_nat 16)) with (kk - 16) in * by lia.
    rewrite (wr_ok rows) by lia. cbn [obind].
    set (rows1 := set rows (N.of_nat r) (kk - 16)).
    assert (Hr1 : forall i, get rows1 i = if i =? N.of_nat r then kk - 16 else get rows i).
    { intros i. unfold rows1. apply get_set. lia. }
    destruct (IH a1 rows1 (kk - 16)) as (a' & rows' & He & Hla' & Hlr' & Hrows & Hcells & Hhi).
    { lia. } { unfold rows1. rewrite len_set. lia. } { lia. }
    { intros i Hi. rewrite Hr1. replace (i =? N.of_nat r) with false by lia.
      pose proof (Hfit i). lia. }
    exists a', rows'. split; [exact He|]. split; [exact Hla'|].
    split; [unfold rows1 in Hlr'; now rewrite Hlr', len_set|].
    split; [|split].
    + intros i. rewrite Hrows, Hr1. pose proof (Hfit i).
      bdestr; beq; try lia; try reflexivity.
    + intros i q Hi Hq. pose proof (Hfit i Hi) as Hfi.
      destruct (N.eq_dec i (N.of_nat r)) as [->|Hne].
      * replace (kk - 16 * (N.of_nat (S r) - N.of_nat r) + q) with (kk - 16 + q) by lia.
        rewrite Hhi by lia. rewrite Hg1. fold bg.
        replace ((kk - 16 <=? kk - 16 + q) && (kk - 16 + q <? kk)) with true by lia.
        f_equal. lia.
      * assert (Hir : i < N.of_nat r) by lia.
        specialize (Hcells i q Hir Hq).
        replace (kk - 16 * (N.of_nat (S r) - i) + q) with (kk - 16 - 16 * (N.of_nat r - i) + q) by lia.
        rewrite Hcells, Hr1. replace (i =? N.of_nat r) with false by lia.
        rewrite Hg1.
        replace ((kk - 16 <=? get rows i + q) && (get rows i + q <? kk)) with false by lia.
        reflexivity.
    + intros y Hy. rewrite Hhi by lia. rewrite Hg1.
      replace ((kk - 16 <=? y) && (y <? kk)) with false by lia. reflexivity.
Qed.

(* ---- the abstract content [absl] pointwise ---------------------------------------------------- *)
Lemma nth_firstn_lt : forall (l : list N) n i d, (i < n)%nat -> nth i (firstn n l) d = nth i l d.
Proof.
  induction l as [|x l IH]; intros n i d H.
  - rewrite firstn_nil. reflexivity.
  - destruct n; [lia|]. destruct i; cbn [firstn nth]; [reflexivity|]. apply IH. lia.
Qed.

Lemma nth_skipn_add : forall (l : list N) r i d, nth i (skipn r l) d = nth (r + i) l d.
Proof.
  induction l as [|x l IH]; intros r i d.
  - rewrite skipn_nil. destruct i, r; reflexivity.
  - destruct r; cbn [skipn Nat.add nth]; [reflexivity|]. apply IH.
Qed.

Lemma row_cells_length : forall a r, r + 16 <= len a -> length (row_cells a r) = 16%nat.
Proof.
  intros a r H. unfold row_cells, len in *. rewrite RW16.
  rewrite firstn_length, skipn_length. lia.
Qed.

Lemma row_cells_nth : forall a r q, (q < 16)%nat ->
  nth q (row_cells a r) 0 = get a (r + N.of_nat q).
Proof.
  intros a r q H. unfold row_cells, get. rewrite RW16.
  rewrite nth_firstn_lt by lia. rewrite nth_skipn_add. f_equal. lia.
Qed.

Lemma flat_map_uniform : forall (f : N -> list N) (l : list N),
  (forall r, In r l -> length (f r) = 16%nat) ->
  length (flat_map f l) = (16 * length l)%nat /\
  forall p, (p < 16 * length l)%nat ->
    nth p (flat_map f l) 0 = nth (p mod 16) (f (nth (p / 16) l 0)) 0.
Proof.
  intros f. induction l as [|r l IH]; intros Hf.
  - cbn [flat_map length]. split; [reflexivity|]. intros p Hp. lia.
  - destruct IH as [IHl IHn]. { intros r' Hr'. apply Hf. now right. }
    assert (Hr : length (f r) = 16%nat) by (apply Hf; now left).
    cbn [flat_map length]. rewrite app_length. split; [lia|].
    intros p Hp. destruct (Nat.lt_ge_cases p 16) as [Hlt|Hge].
    + rewrite app_nth1 by lia.
      replace (p / 16)%nat with 0%nat by lia. replace (p mod 16)%nat with p by lia. reflexivity.
    + rewrite app_nth2 by lia. rewrite Hr. rewrite IHn by lia.
      replace (p / 16)%nat with (S ((p - 16) / 16)) by lia.
      replace ((p - 16) mod 16)%nat with (p mod 16)%nat by lia. reflexivity.
Qed.

(* layout part of the invariant *)
Definition layout (L : N) (st : sstate) : Prop :=
  len (s_slide st) = L /\ len (s_rows st) = 16 /\
  (forall i j, i <= j -> j < 16 ->
     get (s_rows st) i + 16 * (j - i) <= get (s_rows st) j) /\
  get (s_rows st) 15 + 16 <= L.

Lemma layout_row_fits : forall L st i, layout L st -> i < 16 ->
  get (s_rows st) i + 16 * (16 - i) <= L.
Proof. intros L st i (H1 & H2 & H3 & H4) Hi. pose proof (H3 i 15). lia. Qed.

Definition cell (st : sstate) (p : N) : N :=
  get (s_slide st) (get (s_rows st) (p / 16) + p mod 16).

Lemma absl_len : forall L st, layout L st -> length (absl st) = 256%nat.
Proof.
  intros L st HL. unfold absl.
  destruct (flat_map_uniform (row_cells (s_slide st)) (s_rows st)) as [Hl _].
  - intros r Hr. apply row_cells_length.
    destruct (In_nth _ _ 0 Hr) as (n & Hn & <-).
    pose proof (layout_row_fits L st (N.of_nat n) HL) as Hf.
    destruct HL as (H1 & H2 & _). unfold get, len in *. rewrite Nat2N.id in Hf. lia.
  - rewrite Hl. destruct HL as (_ & H2 & _). unfold len in H2. lia.
Qed.

Lemma absl_get : forall L st p, layout L st -> p < 256 -> get (absl st) p = cell st p.
Proof.
  intros L st p HL Hp. unfold absl, cell.
  destruct (flat_map_uniform (row_cells (s_slide st)) (s_rows st)) as [_ Hn].
  - intros r Hr. apply row_cells_length.
    destruct (In_nth _ _ 0 Hr) as (n & Hn & <-).
    pose proof (layout_row_fits L st (N.of_nat n) HL) as Hf.
    destruct HL as (H1 & H2 & _). unfold get, len in *. rewrite Nat2N.id in Hf. lia.
  - destruct HL as (_ & H2 & _). unfold len in H2.
    unfold get at 1. rewrite Hn by lia.
    rewrite row_cells_nth by lia. unfold get. f_equal.
    replace (N.to_nat p / 16)%nat with (N.to_nat (p / 16)) by lia.
    f_equal. lia.
Qed.

(* ---- move-to-front on lists, pointwise ---------------------------------------------------- *)
Lemma mtf_front_nth : forall (l : list N) (c p : nat) x, (c < length l)%nat -> (p < length l)%nat ->
  nth p (x :: firstn c l ++ skipn (S c) l) 0 =
    if Nat.eqb p 0 then x else if Nat.leb p c then nth (p - 1) l 0 else nth p l 0.
Proof.
  intros l c p x Hc Hp. destruct p as [|p]; [reflexivity|]. cbn [nth Nat.eqb].
  assert (Hfl : length (firstn c l) = c) by (rewrite firstn_length; lia).
  destruct (Nat.leb_spec (S p) c) as [Hle|Hgt].
  - rewrite app_nth1 by lia. rewrite nth_firstn_lt by lia. f_equal. lia.
  - rewrite app_nth2 by lia. rewrite Hfl, nth_skipn_add. f_equal. lia.
Qed.

Lemma mtf_front_length : forall (l : list N) (c : nat) x, (c < length l)%nat ->
  length (x :: firstn c l ++ skipn (S c) l) = length l.
Proof.
  intros l c x H. cbn [length]. rewrite app_length, firstn_length, skipn_length. lia.
Qed.

(* list equality from the cell-wise description *)
Lemma absl_mtf_front : forall L st st' c, layout L st -> layout L st' -> c < 256 ->
  (forall p, p < 256 ->
     cell st' p = if p =? 0 then cell st c else if p <=? c then cell st (p - 1) else cell st p) ->
  absl st' = snd (mtf_front (N.to_nat c) (absl st) 0) /\
  get (absl st) c = fst (mtf_front (N.to_nat c) (absl st) 0).
Proof.
  intros L st st' c HL HL' Hc Hcell. unfold mtf_front. cbn [fst snd]. split; [|reflexivity].
  pose proof (absl_len L st HL) as Hl. pose proof (absl_len L st' HL') as Hl'.
  apply nth_ext with (d := 0) (d' := 0).
  - rewrite mtf_front_length by lia. lia.
  - intros n Hn. rewrite mtf_front_nth by lia.
    pose proof (absl_get L st' (N.of_nat n) HL') as G'. unfold get in G'. rewrite Nat2N.id in G'.
    rewrite G' by lia. rewrite Hcell by lia.
    pose proof (absl_get L st c HL Hc) as Gc. unfold get in Gc.
    pose proof (absl_get L st (N.of_nat n - 1) HL) as G1. unfold get in G1.
    pose proof (absl_get L st (N.of_nat n) HL) as G2. unfold get in G2. rewrite Nat2N.id in G2.
    destruct n as [|n]; [cbn [Nat.eqb N.of_nat N.eqb]; now rewrite Gc|].
    replace (N.of_nat (S n) =? 0) with false by lia. cbn [Nat.eqb].
    destruct (Nat.leb_spec (S n) (N.to_nat c)).
    + replace (N.of_nat (S n) <=? c) with true by lia. rewrite <- G1 by lia. f_equal. lia.
    + replace (N.of_nat (S n) <=? c) with false by lia. rewrite G2 by lia. reflexivity.
Qed.

(* ---- one call: fast path ------------------------------------------------------------------------ *)
Lemma cell_at : forall st j i, i < 16 ->
  cell st (16 * j + i) = get (s_slide st) (get (s_rows st) j + i).
Proof.
  intros st j i Hi. unfold cell.
  replace ((16 * j + i) / 16) with j by lia. replace ((16 * j + i) mod 16) with i by lia. reflexivity.
Qed.

Lemma layout_sep : forall L st i j, layout L st -> i < j -> j < 16 ->
  get (s_rows st) i + 16 <= get (s_rows st) j.
Proof. intros L st i j (_ & _ & H & _) Hij Hj. pose proof (H i j). lia. Qed.

(* the cell-wise description of "move position c to the front" *)
Definition moved (st st' : sstate) (c : N) : Prop :=
  forall p, p < 256 ->
    cell st' p = if p =? 0 then cell st c else if p <=? c then cell st (p - 1) else cell st p.

Lemma fast_ok : forall L st c, layout L st -> 1 <= c -> c < 16 ->
  exists st', mtf_fast c st = Done (cell st c) st' /\ layout L st' /\
              s_rows st' = s_rows st /\ moved st st' c.
Proof.
  intros L [a rows] c HL Hc1 Hc16.
  pose proof (layout_row_fits L _ 0 HL) as Hf0.
  pose proof (fun j => layout_sep L _ 0 j HL) as Hsep.
  destruct HL as (Hla & Hlr & Hch & Htop). cbn [s_slide s_rows] in *.
  unfold mtf_fast. cbn [s_slide s_rows].
  rewrite (rd_ok rows) by lia. cbn [obind].
  set (r0 := get rows 0) in *.
  rewrite (rd_ok a) by lia. cbn [obind].
  replace (c =? 0) with false by lia.
  destruct (shift_up_spec (N.to_nat c) a r0) as (a1 & He1 & Hl1 & Hg1); [lia|].
  rewrite He1. cbn [obind]. rewrite wr_ok by lia. cbn [obind lift].
  replace (r0 + N.of_nat (N.to_nat c)) with (r0 + c) in Hg1 by lia.
  eexists. split.
  { f_equal. unfold cell. cbn [s_slide s_rows].
    replace (c / 16) with 0 by lia. replace (c mod 16) with c by lia. reflexivity. }
  split; [|split; [reflexivity|]].
  { unfold layout. cbn [s_slide s_rows]. rewrite len_set. repeat split; auto; lia. }
  intros p Hp.
  remember (p / 16) as j eqn:Ej. remember (p mod 16) as i eqn:Ei.
  assert (Hji : p = 16 * j + i /\ i < 16 /\ j < 16) by lia. clear Ej Ei.
  destruct Hji as (-> & Hi & Hj).
  rewrite cell_at by lia. cbn [s_slide s_rows].
  rewrite get_set by lia. rewrite Hg1.
  assert (Hj0 : j = 0 \/ 0 < j) by lia.
  destruct Hj0 as [->|Hjpos].
  - fold r0. replace (16 * 0 + i) with i by lia.
    destruct (N.eq_dec i 0) as [->|Hi0].
    + replace (r0 + 0 =? r0) with true by lia. cbn [N.eqb].
      unfold cell. cbn [s_slide s_rows].
      replace (c / 16) with 0 by lia. replace (c mod 16) with c by lia. reflexivity.
    + replace (r0 + i =? r0) with false by lia. replace (i =? 0) with false by lia.
      destruct (N.leb_spec i c).
      * replace ((r0 <? r0 + i) && (r0 + i <=? r0 + c)) with true by lia.
        replace (i - 1) with (16 * 0 + (i - 1)) by lia. rewrite cell_at by lia.
        cbn [s_slide s_rows]. fold r0. f_equal. lia.
      * replace ((r0 <? r0 + i) && (r0 + i <=? r0 + c)) with false by lia.
        replace i with (16 * 0 + i) at 2 by lia. rewrite cell_at by lia. reflexivity.
  - pose proof (Hsep j Hjpos Hj) as Hs. fold r0 in Hs.
    replace (get rows j + i =? r0) with false by lia.
    replace ((r0 <? get rows j + i) && (get rows j + i <=? r0 + c)) with false by lia.
    replace (16 * j + i =? 0) with false by lia. replace (16 * j + i <=? c) with false by lia.
    rewrite cell_at by lia. reflexivity.
Qed.

(* ---- rebuild -------------------------------------------------------------------------------------- *)
Lemma rebuild_ok : forall L st, layout L st ->
  exists st1, rebuild L st = Some st1 /\ layout L st1 /\
    (forall i, i < 16 -> get (s_rows st1) i = L - 256 + 16 * i) /\
    (forall p, p < 256 -> cell st1 p = cell st p).
Proof.
  intros L [a rows] HL.
  pose proof (layout_row_fits L _ 0 HL) as Hf0.
  assert (Hfit : forall i, i < 16 -> get rows i + 16 * (16 - i) <= L).
  { intros i Hi. apply (layout_row_fits L _ i HL Hi). }
  destruct HL as (Hla & Hlr & Hch & Htop). cbn [s_slide s_rows] in *.
  unfold rebuild. cbn [s_slide s_rows]. rewrite NR16.
  destruct (rebuild_loop_spec L (N.to_nat 16) a rows L) as (a' & rows' & He & Hla' & Hlr' & Hrows & Hcells & _);
    try lia.
  { intros i Hi. replace (N.of_nat (N.to_nat 16)) with 16 in * by lia. apply Hfit. lia. }
  replace (N.of_nat (N.to_nat 16)) with 16 in * by lia.
  rewrite He. cbn [obind].
  eexists. split; [reflexivity|].
  assert (Hr' : forall i, i < 16 -> get rows' i = L - 256 + 16 * i).
  { intros i Hi. rewrite Hrows. replace (i <? 16) with true by lia. lia. }
  split; [|split].
  - unfold layout. cbn [s_slide s_rows]. split; [exact Hla'|]. split; [lia|]. split.
    + intros i j Hij Hj. rewrite !Hr' by lia. lia.
    + rewrite Hr' by lia. lia.
  - exact Hr'.
  - intros p Hp. unfold cell. cbn [s_slide s_rows].
    remember (p / 16) as j eqn:Ej. remember (p mod 16) as i eqn:Ei.
    assert (Hji : i < 16 /\ j < 16) by lia. clear Ej Ei. destruct Hji as (Hi & Hj).
    rewrite Hr' by lia. rewrite <- (Hcells j i) by lia. f_equal. lia.
Qed.

(* ---- one call: general case ------------------------------------------------------------------- *)
(* the part of mtf_general after the rebuild test *)
Definition general_rest (L c : N) (st1 : sstate) : option outcome :=
  bb <~ rd (s_rows st1) (c / ROW_WIDTH) ;;
  pp <~ padd L bb (c mod ROW_WIDTH) ;;
  x <~ rd (s_slide st1) pp ;;
  a <~ shift_up (N.to_nat (pp - bb)) (s_slide st1) bb ;;
  ' (a', rows', pp') <~ carry (N.to_nat (c / ROW_WIDTH)) a (s_rows st1) bb ;;
  a'' <~ wr a' pp' x ;;
  Some (Done x {| s_slide := a''; s_rows := rows' |}).

Lemma mtf_general_unfold : forall L c st,
  mtf_general L c st =
  lift (r0 <~ rd (s_rows st) 0 ;;
        st1 <~ (if r0 =? 0 then rebuild L st else Some st) ;;
        general_rest L c st1).
Proof. reflexivity. Qed.

Lemma general_rest_ok : forall L st c, layout L st -> 1 <= get (s_rows st) 0 -> 16 <= c -> c < 256 ->
  exists st', general_rest L c st = Some (Done (cell st c) st') /\ layout L st' /\
              get (s_rows st') 0 = get (s_rows st) 0 - 1 /\ moved st st' c.
Proof.
  intros L [a rows] c HL Hr0 Hc16 Hc256.
  assert (Hfit : forall i, i < 16 -> get rows i + 16 * (16 - i) <= L).
  { intros i Hi. apply (layout_row_fits L _ i HL Hi). }
  assert (Hsep : forall i j, i < j -> j < 16 -> get rows i + 16 <= get rows j).
  { intros i j. apply (layout_sep L _ i j HL). }
  destruct HL as (Hla & Hlr & Hch & Htop). cbn [s_slide s_rows] in *.
  unfold general_rest. cbn [s_slide s_rows]. rewrite RW16.
  remember (c / 16) as t eqn:Et. remember (c mod 16) as k eqn:Ek.
  assert (Htk : c = 16 * t + k /\ k < 16 /\ 1 <= t /\ t < 16) by lia. clear Et Ek.
  destruct Htk as (Hc & Hk & Ht1 & Ht16).
  rewrite (rd_ok rows) by lia. cbn [obind].
  set (bb := get rows t) in *.
  pose proof (Hfit t Ht16) as Hft. fold bb in Hft.
  rewrite padd_ok by lia. cbn [obind].
  rewrite (rd_ok a) by lia. cbn [obind].
  replace (bb + k - bb) with k by lia.
  destruct (shift_up_spec (N.to_nat k) a bb) as (a2 & He2 & Hl2 & Hg2); [lia|].
  rewrite He2. cbn [obind].
  replace (bb + N.of_nat (N.to_nat k)) with (bb + k) in Hg2 by lia.
  destruct (carry_spec (N.to_nat t) a2 rows bb bb) as
    (a3 & rows3 & pp3 & He3 & Hl3 & Hlr3 & Hrows3 & Hpp3 & Hd3 & Hc3 & Hu3).
  { lia. } { unfold bb. f_equal. lia. } { lia. }
  { intros i Hi. pose proof (Hch 0 i). pose proof (Hsep i t). fold bb in H0. lia. }
  { intros i j Hij Hj. apply Hsep; lia. }
  replace (N.of_nat (N.to_nat t)) with t in * by lia.
  rewrite He3. cbn [obind].
  replace (t =? 0) with false in Hpp3 by lia. subst pp3.
  set (r0 := get rows 0) in *.
  assert (Hf0 : r0 + 256 <= L) by (pose proof (Hfit 0); fold r0 in H; lia).
  rewrite wr_ok by lia. cbn [obind].
  eexists. split.
  { f_equal. f_equal. rewrite Hc. rewrite cell_at by lia. reflexivity. }
  assert (Hlow : forall i, i < 16 -> r0 + 16 * i <= get rows i).
  { intros i Hi. pose proof (Hch 0 i). lia. }
  split; [|split].
  { unfold layout. cbn [s_slide s_rows]. rewrite len_set. split; [lia|]. split; [lia|]. split.
    - intros i j Hij Hj. rewrite !Hrows3. pose proof (Hch i j Hij Hj). pose proof (Hlow i).
      bdestr; lia.
    - rewrite Hrows3. replace (15 <? t) with false by lia. exact Htop. }
  { cbn [s_rows]. rewrite Hrows3. replace (0 <? t) with true by lia. reflexivity. }
  (* cell-wise *)
  assert (F1 : forall y, y <> r0 - 1 -> get (set a3 (r0 - 1) (get a (bb + k))) y = get a3 y).
  { intros y Hy. rewrite get_set by lia. replace (y =? r0 - 1) with false by lia. reflexivity. }
  assert (Uhi : forall y, bb < y -> get a3 y = get a2 y).
  { intros y Hy. apply Hu3; [lia|]. intros l Hl. pose proof (Hsep (l + 1) t). fold bb in H. lia. }
  intros p Hp.
  remember (p / 16) as j eqn:Ej. remember (p mod 16) as i eqn:Ei.
  assert (Hji : p = 16 * j + i /\ i < 16 /\ j < 16) by lia. clear Ej Ei.
  destruct Hji as (-> & Hi & Hj).
  rewrite cell_at by lia. cbn [s_slide s_rows]. rewrite Hrows3.
  pose proof (Hlow j Hj) as Hlj.
  destruct (N.lt_trichotomy j t) as [Hjt|[->|Hjt]].
  - (* rows before the target row: shifted by one, first slot = last of the previous row *)
    replace (j <? t) with true by lia.
    pose proof (Hsep j t Hjt Ht16) as Hsjt. fold bb in Hsjt.
    replace (16 * j + i <=? c) with true by lia.
    destruct (N.eq_dec i 0) as [->|Hi0].
    + destruct (N.eq_dec j 0) as [->|Hj0].
      * (* p = 0 *)
        fold r0. rewrite get_set by lia. replace (r0 - 1 + 0 =? r0 - 1) with true by lia.
        cbn [N.mul N.add N.eqb]. rewrite Hc. rewrite cell_at by lia. reflexivity.
      * replace (16 * j + 0 =? 0) with false by lia.
        pose proof (Hsep (j - 1) j) as Hs1.
        rewrite F1 by lia.
        replace (get rows j - 1 + 0) with (get rows (j - 1 + 1) - 1)
          by (replace (j - 1 + 1) with j by lia; lia).
        rewrite Hc3 by lia. rewrite Hg2.
        pose proof (Hsep (j - 1) t). fold bb in H.
        replace ((bb <? get rows (j - 1) + 15) && (get rows (j - 1) + 15 <=? bb + k)) with false by lia.
        replace (16 * j + 0 - 1) with (16 * (j - 1) + 15) by lia.
        rewrite cell_at by lia. reflexivity.
    + replace (16 * j + i =? 0) with false by lia.
      rewrite F1 by lia.
      rewrite Hu3.
      * rewrite Hg2.
        replace ((bb <? get rows j - 1 + i) && (get rows j - 1 + i <=? bb + k)) with false by lia.
        replace (16 * j + i - 1) with (16 * j + (i - 1)) by lia.
        rewrite cell_at by lia. cbn [s_slide s_rows]. f_equal. lia.
      * intros _. lia.
      * intros l Hl.
        destruct (N.lt_trichotomy (l + 1) j) as [Hlj1|[Hlj1|Hlj1]].
        -- pose proof (Hsep (l + 1) j). lia.
        -- rewrite Hlj1. lia.
        -- pose proof (Hsep j (l + 1)). pose proof (Hlow (l + 1)). lia.
  - (* the target row *)
    replace (t <? t) with false by lia. fold bb.
    replace (16 * t + i =? 0) with false by lia.
    destruct (N.eq_dec i 0) as [->|Hi0].
    + rewrite F1 by lia. replace (bb + 0) with bb by lia.
      rewrite Hd3 by lia. rewrite Hg2.
      pose proof (Hsep (t - 1) t). fold bb in H.
      replace ((bb <? get rows (t - 1) + 15) && (get rows (t - 1) + 15 <=? bb + k)) with false by lia.
      replace (16 * t + 0 <=? c) with true by lia.
      replace (16 * t + 0 - 1) with (16 * (t - 1) + 15) by lia.
      rewrite cell_at by lia. reflexivity.
    + rewrite F1 by lia. rewrite Uhi by lia. rewrite Hg2.
      destruct (N.leb_spec i k).
      * replace ((bb <? bb + i) && (bb + i <=? bb + k)) with true by lia.
        replace (16 * t + i <=? c) with true by lia.
        replace (16 * t + i - 1) with (16 * t + (i - 1)) by lia.
        rewrite cell_at by lia. cbn [s_slide s_rows]. fold bb. f_equal. lia.
      * replace ((bb <? bb + i) && (bb + i <=? bb + k)) with false by lia.
        replace (16 * t + i <=? c) with false by lia.
        rewrite cell_at by lia. reflexivity.
  - (* rows after the target row: untouched *)
    replace (j <? t) with false by lia.
    pose proof (Hsep t j Hjt Hj) as Hstj. fold bb in Hstj.
    rewrite F1 by lia. rewrite Uhi by lia. rewrite Hg2.
    replace ((bb <? get rows j + i) && (get rows j + i <=? bb + k)) with false by lia.
    replace (16 * j + i =? 0) with false by lia.
    replace (16 * j + i <=? c) with false by lia.
    rewrite cell_at by lia. reflexivity.
Qed.

(* ---- one call, any position ------------------------------------------------------------------- *)
Lemma moved_ext : forall st0 st st' c, c < 256 ->
  (forall p, p < 256 -> cell st p = cell st0 p) -> moved st st' c -> moved st0 st' c.
Proof.
  intros st0 st st' c Hc Heq Hm p Hp. rewrite (Hm p Hp).
  rewrite <- (Heq c Hc), <- (Heq p Hp).
  destruct (N.eq_dec p 0) as [->|Hp0]; [reflexivity|].
  rewrite <- (Heq (p - 1)) by lia. reflexivity.
Qed.

Theorem mtf_one_ok : forall L st c, 256 < L -> layout L st -> 1 <= c -> c < 256 ->
  exists st', mtf_one L c st = Done (cell st c) st' /\ layout L st' /\ moved st st' c /\
    get (s_rows st') 0 =
      if c <? 16 then get (s_rows st) 0
      else (if get (s_rows st) 0 =? 0 then L - 256 else get (s_rows st) 0) - 1.
Proof.
  intros L st c HLL HL Hc1 Hc256. unfold mtf_one. rewrite RW16.
  destruct (N.ltb_spec c 16) as [Hlt|Hge].
  - destruct (fast_ok L st c HL Hc1 Hlt) as (st' & He & HL' & Hr & Hm).
    exists st'. rewrite Hr. auto.
  - rewrite mtf_general_unfold.
    assert (Hlr : len (s_rows st) = 16) by (destruct HL as (_ & H & _); exact H).
    rewrite (rd_ok (s_rows st)) by lia. cbn [obind].
    destruct (N.eqb_spec (get (s_rows st) 0) 0) as [Hz|Hnz].
    + destruct (rebuild_ok L st HL) as (st1 & He1 & HL1 & Hr1 & Hc1').
      rewrite He1. cbn [obind].
      destruct (general_rest_ok L st1 c HL1) as (st' & He & HL' & Hr' & Hm); try lia.
      { rewrite Hr1 by lia. lia. }
      rewrite He. cbn [lift]. exists st'.
      rewrite <- (Hc1' c Hc256). split; [reflexivity|]. split; [exact HL'|]. split.
      * apply (moved_ext st st1 st' c Hc256); [intros p Hp; now rewrite Hc1'|exact Hm].
      * rewrite Hr', Hr1 by lia. f_equal. lia.
    + cbn [obind].
      destruct (general_rest_ok L st c HL) as (st' & He & HL' & Hr' & Hm); try lia.
      rewrite He. cbn [lift]. exists st'. auto.
Qed.

(* position 0 never reaches mtf_one in the decoder (symbol 0 is EOB); the code aborts, it does not
   touch memory out of bounds *)
Lemma mtf_one_zero : forall L st, layout L st -> mtf_one L 0 st = Abort.
Proof.
  intros L st HL. pose proof (layout_row_fits L st 0 HL) as Hf.
  destruct HL as (Hla & Hlr & _). unfold mtf_one. rewrite RW16. cbn [N.ltb N.compare].
  unfold mtf_fast. rewrite (rd_ok (s_rows st)) by lia. cbn [obind].
  rewrite (rd_ok (s_slide st)) by lia. cbn [obind N.eqb lift]. reflexivity.
Qed.

(* ---- (a) safety of every sequence of calls ------------------------------------------------- *)
Definition no_oob (r : run_outcome) : Prop := match r with ROob _ => False | _ => True end.

Theorem slide_safe_gen : forall L cs st, 256 < L -> layout L st ->
  Forall (fun c => c < 256) cs -> no_oob (slide_run L cs st).
Proof.
  intros L cs. induction cs as [|c cs IH]; intros st HLL HL Hcs; [exact I|].
  inversion Hcs as [|? ? Hc Hcs']; subst. cbn [slide_run].
  destruct (N.eq_dec c 0) as [->|Hc0].
  - rewrite mtf_one_zero by assumption. exact I.
  - destruct (mtf_one_ok L st c HLL HL) as (st' & He & HL' & _); try lia.
    rewrite He. specialize (IH st' HLL HL' Hcs').
    destruct (slide_run L cs st'); cbn [no_oob] in *; auto.
Qed.

(* ---- (b) refinement of the list operation ------------------------------------------------------ *)
Lemma mtf_front_l_eq : forall i l, mtf_front_l i l = mtf_front i l 0.
Proof. reflexivity. Qed.

Theorem slide_step_refines_gen : forall L st c, 256 < L -> layout L st -> 1 <= c -> c < 256 ->
  exists st', mtf_one L c st = Done (fst (mtf_front (N.to_nat c) (absl st) 0)) st' /\
              layout L st' /\ absl st' = snd (mtf_front (N.to_nat c) (absl st) 0).
Proof.
  intros L st c HLL HL Hc1 Hc256.
  destruct (mtf_one_ok L st c HLL HL Hc1 Hc256) as (st' & He & HL' & Hm & _).
  destruct (absl_mtf_front L st st' c HL HL' Hc256 Hm) as (Ha & Hx).
  exists st'. rewrite <- Hx, (absl_get L st c HL Hc256). auto.
Qed.

Theorem slide_refines_list_gen : forall L cs st, 256 < L -> layout L st ->
  Forall (fun c => 1 <= c /\ c < 256) cs ->
  exists st', slide_run L cs st = RDone (fst (mtf_run cs (absl st))) st' /\
              layout L st' /\ absl st' = snd (mtf_run cs (absl st)).
Proof.
  intros L cs. induction cs as [|c cs IH]; intros st HLL HL Hcs.
  - exists st. cbn [slide_run mtf_run fst snd]. auto.
  - inversion Hcs as [|? ? [Hc1 Hc256] Hcs']; subst. cbn [slide_run mtf_run].
    destruct (slide_step_refines_gen L st c HLL HL Hc1 Hc256) as (st1 & He & HL1 & Ha).
    rewrite He. rewrite mtf_front_l_eq.
    destruct (mtf_front (N.to_nat c) (absl st) 0) as [x o] eqn:Emf. cbn [fst snd] in *.
    destruct (IH st1 HLL HL1 Hcs') as (st' & He' & HL' & Ha').
    rewrite He'. rewrite Ha in *.
    destruct (mtf_run cs o) as [xs o']. cbn [fst snd] in *. exists st'. auto.
Qed.

(* ---- (c) interface with the list-based decoder model (Dec/Format.v) ----------------------- *)
(* [order] = the list the abstract decoder keeps (initially the bytes in use); the slide holds it
   in its first [length order] cells, the remaining cells are whatever the memory held *)
Definition Sim (L : N) (st : sstate) (order : list N) : Prop :=
  layout L st /\ firstn (length order) (absl st) = order.

Lemma mtf_front_app : forall (l tl : list N) c, (c < length l)%nat ->
  mtf_front c (l ++ tl) 0 = (fst (mtf_front c l 0), snd (mtf_front c l 0) ++ tl).
Proof.
  intros l tl c Hc. unfold mtf_front. cbn [fst snd].
  rewrite app_nth1 by lia. f_equal. cbn [app]. f_equal.
  rewrite firstn_app, skipn_app.
  replace (c - length l)%nat with 0%nat by lia.
  replace (S c - length l)%nat with 0%nat by lia.
  cbn [firstn skipn]. rewrite app_nil_r, app_assoc. reflexivity.
Qed.

Theorem slide_step_sim_gen : forall L st order c, 256 < L -> Sim L st order ->
  1 <= c -> c < N.of_nat (length order) ->
  exists st', mtf_one L c st = Done (fst (mtf_front (N.to_nat c) order 0)) st' /\
              Sim L st' (snd (mtf_front (N.to_nat c) order 0)).
Proof.
  intros L st order c HLL [HL Hf] Hc1 Hcn.
  pose proof (absl_len L st HL) as Hlen.
  assert (Hn : (length order <= 256)%nat).
  { rewrite <- Hf. rewrite firstn_length. lia. }
  destruct (slide_step_refines_gen L st c HLL HL Hc1) as (st' & He & HL' & Ha); [lia|].
  rewrite <- (firstn_skipn (length order) (absl st)) in He, Ha. rewrite Hf in He, Ha.
  rewrite mtf_front_app in He, Ha by lia. cbn [fst snd] in He, Ha.
  exists st'. split; [exact He|]. split; [exact HL'|].
  rewrite Ha. unfold mtf_front at 1. cbn [snd].
  rewrite mtf_front_length by lia.
  rewrite firstn_app. rewrite firstn_all2.
  2:{ unfold mtf_front. cbn [snd]. rewrite mtf_front_length by lia. lia. }
  unfold mtf_front at 2. cbn [snd]. rewrite mtf_front_length by lia.
  rewrite Nat.sub_diag. cbn [firstn]. apply app_nil_r.
Qed.

Lemma mtf_front_snd_length : forall (l : list N) c, (c < length l)%nat ->
  length (snd (mtf_front c l 0)) = length l.
Proof. intros. unfold mtf_front. cbn [snd]. now apply mtf_front_length. Qed.

Theorem slide_run_sim_gen : forall L cs st order, 256 < L -> Sim L st order ->
  Forall (fun c => 1 <= c /\ c < N.of_nat (length order)) cs ->
  exists st', slide_run L cs st = RDone (fst (mtf_run cs order)) st' /\
              Sim L st' (snd (mtf_run cs order)).
Proof.
  intros L cs. induction cs as [|c cs IH]; intros st order HLL HS Hcs.
  - exists st. cbn [slide_run mtf_run fst snd]. auto.
  - inversion Hcs as [|? ? [Hc1 Hcn] Hcs']; subst. cbn [slide_run mtf_run].
    destruct (slide_step_sim_gen L st order c HLL HS Hc1 Hcn) as (st1 & He & HS1).
    rewrite He. rewrite mtf_front_l_eq.
    pose proof (mtf_front_snd_length order (N.to_nat c)) as Hlen.
    destruct (mtf_front (N.to_nat c) order 0) as [x o] eqn:Emf. cbn [fst snd] in *.
    destruct (IH st1 o HLL HS1) as (st' & He' & HS').
    { rewrite Hlen by lia. exact Hcs'. }
    rewrite He'. destruct (mtf_run cs o) as [xs o']. cbn [fst snd] in *. exists st'. auto.
Qed.

(* ---- the initial state built by retrieve() ---------------------------------------------------- *)
Lemma used_from_length : forall flags j, (length (used_from j flags) <= length flags)%nat.
Proof.
  induction flags as [|b r IH]; intros j; cbn [used_from length]; [lia|].
  destruct b; cbn [length]; specialize (IH (j + 1)); lia.
Qed.

Lemma bitmap_fill_spec : forall flags base j alpha a,
  base + alpha + N.of_nat (length flags) <= len a ->
  exists a', bitmap_fill base flags j alpha a =
               Some (a', alpha + N.of_nat (length (used_from j flags))) /\
    len a' = len a /\
    (forall q, (q < length (used_from j flags))%nat ->
       get a' (base + alpha + N.of_nat q) = nth q (used_from j flags) 0) /\
    (forall y, y < base + alpha -> get a' y = get a y).
Proof.
  induction flags as [|b r IH]; intros base j alpha a Hb.
  - exists a. cbn [bitmap_fill used_from length]. split; [f_equal; f_equal; lia|].
    split; [reflexivity|]. split; [intros q Hq; cbn [length] in Hq; lia|reflexivity].
  - cbn [bitmap_fill used_from]. cbn [length] in Hb. rewrite wr_ok by lia. cbn [obind].
    assert (Hs : forall y, get (set a (base + alpha) j) y = if y =? base + alpha then j else get a y).
    { intros y. apply get_set. lia. }
    destruct b.
    + destruct (IH base (j + 1) (alpha + 1) (set a (base + alpha) j)) as (a' & He & Hl & Hq & Hy).
      { rewrite len_set. lia. }
      exists a'. cbn [length]. split; [rewrite He; f_equal; f_equal; lia|].
      split; [now rewrite Hl, len_set|]. split.
      * intros q Hlt. destruct q as [|q].
        -- cbn [nth]. rewrite Hy by lia. rewrite Hs.
           replace (base + alpha + N.of_nat 0 =? base + alpha) with true by lia. reflexivity.
        -- cbn [nth]. rewrite <- Hq by lia. f_equal. lia.
      * intros y Hlt. rewrite Hy by lia. rewrite Hs.
        replace (y =? base + alpha) with false by lia. reflexivity.
    + destruct (IH base (j + 1) alpha (set a (base + alpha) j)) as (a' & He & Hl & Hq & Hy).
      { rewrite len_set. lia. }
      exists a'. split; [exact He|]. split; [now rewrite Hl, len_set|]. split; [exact Hq|].
      intros y Hlt. rewrite Hy by lia. rewrite Hs.
      replace (y =? base + alpha) with false by lia. reflexivity.
Qed.

Lemma nth_map_seq : forall (f : nat -> N) n i d, (i < n)%nat -> nth i (map f (seq 0 n)) d = f i.
Proof.
  intros f n i d Hi. rewrite (nth_indep _ d (f 0%nat)) by (rewrite map_length, seq_length; lia).
  rewrite (map_nth f). rewrite seq_nth by lia. reflexivity.
Qed.

Lemma rows_init_get : forall base i, i < 16 -> get (rows_init base) i = base + 16 * i.
Proof.
  intros base i Hi. unfold get, rows_init. rewrite NR16, RW16.
  rewrite nth_map_seq by lia. lia.
Qed.

Lemma rows_init_len : forall base, len (rows_init base) = 16.
Proof. intros. unfold len, rows_init. rewrite map_length, seq_length, NR16. lia. Qed.

Theorem slide_init_ok : forall L base junk flags,
  len junk = L -> base + 256 = L -> length flags = 256%nat ->
  exists st, slide_init base junk flags = Some (st, N.of_nat (length (used_of flags))) /\
             Sim L st (used_of flags).
Proof.
  intros L base junk flags Hj Hb Hf. unfold slide_init, used_of.
  destruct (bitmap_fill_spec flags base 0 0 junk) as (a' & He & Hl & Hq & _); [lia|].
  rewrite He. cbn [obind]. eexists. split; [reflexivity|].
  pose proof (used_from_length flags 0) as Hul.
  assert (HL : layout L {| s_slide := a'; s_rows := rows_init base |}).
  { unfold layout. cbn [s_slide s_rows]. split; [lia|]. split; [apply rows_init_len|]. split.
    - intros i j Hij Hj16. rewrite !rows_init_get by lia. lia.
    - rewrite rows_init_get by lia. lia. }
  split; [exact HL|].
  pose proof (absl_len L _ HL) as Hal.
  apply nth_ext with (d := 0) (d' := 0).
  - rewrite firstn_length. lia.
  - intros n Hn. rewrite firstn_length in Hn. rewrite nth_firstn_lt by lia.
    pose proof (absl_get L _ (N.of_nat n) HL) as G. unfold get at 1 in G. rewrite Nat2N.id in G.
    rewrite G by lia. unfold cell. cbn [s_slide s_rows].
    rewrite rows_init_get by lia. rewrite <- Hq by lia. f_equal. lia.
Qed.

(* ==== the statements for the real constants of src/decode.c =============================== *)
Definition layout_c := layout SLIDE_LENGTH.
Definition Sim_c := Sim SLIDE_LENGTH.

(* initial state of a block: any previous slide contents [junk], any bitmap [flags] *)
Theorem slide_init_c_ok : forall junk flags,
  len junk = SLIDE_LENGTH -> length flags = 256%nat ->
  exists st, slide_init_c junk flags = Some (st, N.of_nat (length (used_of flags))) /\
             Sim_c st (used_of flags).
Proof.
  intros junk flags Hj Hf. apply slide_init_ok; [exact Hj|exact cmap_base_ok|exact Hf].
Qed.

(* (a) no access outside imtf_slide[0..SLIDE_LENGTH) / imtf_row[0..NUM_ROWS), no pointer leaves
   the slide, for every sequence of uint8_t positions, from every state satisfying the layout
   invariant (in particular the initial one) *)
Theorem slide_safe : forall cs st, layout_c st ->
  Forall (fun c => c < 256) cs -> no_oob (slide_run_c cs st).
Proof. intros cs st. apply slide_safe_gen. exact slide_room. Qed.

Theorem slide_safe_from_init : forall junk flags cs st alpha,
  len junk = SLIDE_LENGTH -> length flags = 256%nat ->
  slide_init_c junk flags = Some (st, alpha) ->
  Forall (fun c => c < 256) cs -> no_oob (slide_run_c cs st).
Proof.
  intros junk flags cs st alpha Hj Hf Hi Hcs.
  destruct (slide_init_c_ok junk flags Hj Hf) as (st0 & He & [HL _]).
  rewrite He in Hi. inversion Hi; subst. now apply slide_safe.
Qed.

(* (b) *)
Theorem slide_step_refines : forall st c, layout_c st -> 1 <= c -> c < 256 ->
  exists st', mtf_one_c c st = Done (fst (mtf_front (N.to_nat c) (absl st) 0)) st' /\
              layout_c st' /\ absl st' = snd (mtf_front (N.to_nat c) (absl st) 0).
Proof. intros st c. apply slide_step_refines_gen. exact slide_room. Qed.

Theorem slide_refines_list : forall cs st, layout_c st ->
  Forall (fun c => 1 <= c /\ c < 256) cs ->
  exists st', slide_run_c cs st = RDone (fst (mtf_run cs (absl st))) st' /\
              layout_c st' /\ absl st' = snd (mtf_run cs (absl st)).
Proof. intros cs st. apply slide_refines_list_gen. exact slide_room. Qed.

(* (c) *)
Theorem slide_step_sim : forall st order c, Sim_c st order ->
  1 <= c -> c < N.of_nat (length order) ->
  exists st', mtf_one_c c st = Done (fst (mtf_front (N.to_nat c) order 0)) st' /\
              Sim_c st' (snd (mtf_front (N.to_nat c) order 0)).
Proof. intros st order c. apply slide_step_sim_gen. exact slide_room. Qed.

Theorem slide_run_sim : forall cs st order, Sim_c st order ->
  Forall (fun c => 1 <= c /\ c < N.of_nat (length order)) cs ->
  exists st', slide_run_c cs st = RDone (fst (mtf_run cs order)) st' /\
              Sim_c st' (snd (mtf_run cs order)).
Proof. intros cs st order. apply slide_run_sim_gen. exact slide_room. Qed.

(* whole block: from retrieve()'s initialisation, the bytes returned by the slide for the MTF
   positions [cs] (all in 1 .. ninuse-1) are those of the list algorithm on the bytes in use,
   whatever the slide held before *)
Theorem slide_block : forall junk flags cs,
  len junk = SLIDE_LENGTH -> length flags = 256%nat ->
  Forall (fun c => 1 <= c /\ c < N.of_nat (length (used_of flags))) cs ->
  exists st alpha st',
    slide_init_c junk flags = Some (st, alpha) /\
    slide_run_c cs st = RDone (fst (mtf_run cs (used_of flags))) st' /\
    Sim_c st' (snd (mtf_run cs (used_of flags))).
Proof.
  intros junk flags cs Hj Hf Hcs.
  destruct (slide_init_c_ok junk flags Hj Hf) as (st & He & HS).
  destruct (slide_run_sim cs st _ HS Hcs) as (st' & Hr & HS').
  exists st, (N.of_nat (length (used_of flags))), st'. auto.
Qed.

(* ---- the inverse-MTF / zero-run loop of retrieve() with the slide in place of the list ------- *)
(* Same control structure as Format.unmtf (symbols: 0 = RUNA, 1 = RUNB, s >= 2 = MTF position
   s - 1, which is the internal symbol value retrieve() passes to mtf_one); the current run
   character is the byte returned by the last mtf_one call, as in the C (runChar), initially
   imtf_row[0][0]. *)
Inductive sl_result :=
| SlOk (runs : list (N * N)) (size : N)
| SlErr (e : err)
| SlOob
| SlAbort.

Fixpoint unmtf_slide (limit : N) (st : sstate) (runChar run shift size : N) (acc : list (N * N))
                     (syms : list N) : sl_result :=
  match syms with
  | [] => if limit <? size + run then SlErr ErrOverflow
          else SlOk ((runChar, run) :: acc) (size + run)
  | s :: r =>
      if s <=? 1 then unmtf_slide limit st runChar (run + N.shiftl (s + 1) shift) (shift + 1) size acc r
      else if limit <? size + run then SlErr ErrOverflow
      else match mtf_one_c (s - 1) st with
           | Done x st' => unmtf_slide limit st' x 1 0 (size + run) ((runChar, run) :: acc) r
           | Oob => SlOob
           | Abort => SlAbort
           end
  end.

Definition sl_of_result (r : result (list (N * N) * N)) : sl_result :=
  match r with Ok (runs, sz) => SlOk runs sz | Err e => SlErr e end.

(* every MTF symbol s >= 2 satisfies s <= number of bytes in use: retrieve() obtains symbols from
   perm[]/start[], which make_tree() fills with RUN_A, RUN_B, EOB and the values s - 1 for
   2 <= s < alpha_size - 1 = ninuse + 1 only *)
Theorem unmtf_slide_refines : forall syms limit st order run shift size acc,
  Sim_c st order ->
  Forall (fun s => s <= N.of_nat (length order)) syms ->
  unmtf_slide limit st (hd 0 order) run shift size acc syms =
  sl_of_result (unmtf limit order run shift size acc syms).
Proof.
  induction syms as [|s r IH]; intros limit st order run shift size acc HS Hsy.
  - cbn [unmtf_slide unmtf]. destruct (limit <? size + run); reflexivity.
  - inversion Hsy as [|? ? Hs Hr]; subst. cbn [unmtf_slide unmtf].
    destruct (N.leb_spec s 1) as [Hle|Hgt].
    + apply IH; assumption.
    + destruct (limit <? size + run); [reflexivity|].
      destruct (slide_step_sim st order (s - 1) HS) as (st' & He & HS'); try lia.
      rewrite He.
      pose proof (mtf_front_snd_length order (N.to_nat (s - 1))) as Hlen.
      destruct (mtf_front (N.to_nat (s - 1)) order 0) as [x o] eqn:Emf. cbn [fst snd] in *.
      assert (Hx : x = hd 0 o).
      { unfold mtf_front in Emf. inversion Emf; subst. reflexivity. }
      rewrite Hx. apply IH; [exact HS'|]. rewrite Hlen by lia. exact Hr.
Qed.

(* in particular the slide-based loop never reports an out-of-bounds access or abort() *)
Corollary unmtf_slide_safe : forall syms limit st order run shift size acc,
  Sim_c st order ->
  Forall (fun s => s <= N.of_nat (length order)) syms ->
  unmtf_slide limit st (hd 0 order) run shift size acc syms <> SlOob /\
  unmtf_slide limit st (hd 0 order) run shift size acc syms <> SlAbort.
Proof.
  intros. rewrite unmtf_slide_refines by assumption.
  destruct (unmtf limit order run shift size acc syms) as [[runs sz]|e]; cbn [sl_of_result];
    split; discriminate.
Qed.

(* ---- hypotheses are satisfiable: a concrete initial state and run (short slide) -------------- *)
Example init_example :
  exists st xs st',
    slide_init 5 (repeat 77 (N.to_nat 261)) (repeat true 40 ++ repeat false 216) = Some (st, 40) /\
    Sim 261 st (used_of (repeat true 40 ++ repeat false 216)) /\
    slide_run 261 [17; 39; 16; 255; 1; 31; 32; 200; 16; 16; 16; 16; 16; 16] st = RDone xs st' /\
    xs = [17; 39; 14; 77; 14; 29; 30; 77; 9; 8; 7; 6; 5; 4] /\
    s_rows st' = [2; 21; 37; 53; 69; 85; 101; 117; 133; 149; 165; 181; 197; 213; 229; 245].
Proof.
  destruct (slide_init_ok 261 5 (repeat 77 (N.to_nat 261)) (repeat true 40 ++ repeat false 216))
    as (st & He & HS); try reflexivity.
  exists st. rewrite He. vm_compute in He. inversion He; subst.
  do 2 eexists. split; [reflexivity|]. split; [exact HS|].
  split; [vm_compute; reflexivity|]. split; reflexivity.
Qed.

Print Assumptions slide_safe.
Print Assumptions slide_safe_from_init.
Print Assumptions slide_step_refines.
Print Assumptions slide_refines_list.
Print Assumptions slide_step_sim.
Print Assumptions slide_run_sim.
Print Assumptions slide_block.
Print Assumptions slide_init_c_ok.
Print Assumptions unmtf_slide_refines.
Print Assumptions unmtf_slide_safe.
