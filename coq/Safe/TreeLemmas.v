(* Generic lemmas for the array-level model of Safe/TreeModel.v: the monad, arrays, machine
   arithmetic, loop invariants; and the arithmetic of canonical codes in left-justified form. *)
From Coq Require Import List NArith Arith Bool Lia ZifyBool ZifyNat ZifyN.
From LBZ Require Import Common.Bits Dec.Prog Dec.Format Enc.EncModel Enc.HuffProofs Gen.Consts Gen.DecTabs Safe.TreeModel.
Import ListNotations.
Local Open Scope N_scope.

(* ---- arrays -------------------------------------------------------------------------------- *)
Lemma upd_length i x l : length (upd i x l) = length l.
Proof. revert i; induction l as [|y r IH]; intros [|i]; cbn [upd length]; auto. Qed.

Lemma nth_upd_same i x l d : (i < length l)%nat -> nth i (upd i x l) d = x.
Proof. revert i; induction l as [|y r IH]; intros [|i] H; cbn [upd nth length] in *; try lia; auto. apply IH; lia. Qed.

Lemma nth_upd_other i j x l d : j <> i -> nth j (upd i x l) d = nth j l d.
Proof.
  revert i j; induction l as [|y r IH]; intros [|i] [|j] H; cbn [upd nth]; auto; try congruence.
Qed.

Lemma aget_ok a l i : i < N.of_nat (length l) -> aget a l i = Done (nth (N.to_nat i) l 0).
Proof. intro H. unfold aget. apply N.ltb_lt in H. rewrite H. reflexivity. Qed.

Lemma aset_ok a l i x : i < N.of_nat (length l) -> aset a l i x = Done (upd (N.to_nat i) x l).
Proof. intro H. unfold aset. apply N.ltb_lt in H. rewrite H. reflexivity. Qed.

(* nat-indexed views *)
Lemma aget_nat a l (i : nat) : (i < length l)%nat -> aget a l (N.of_nat i) = Done (nth i l 0).
Proof. intro H. rewrite aget_ok by lia. rewrite Nat2N.id. reflexivity. Qed.

Lemma aset_nat a l (i : nat) x : (i < length l)%nat -> aset a l (N.of_nat i) x = Done (upd i x l).
Proof. intro H. rewrite aset_ok by lia. rewrite Nat2N.id. reflexivity. Qed.

(* ---- machine arithmetic ------------------------------------------------------------------------ *)
Lemma W16_val : W16 = 65536. Proof. reflexivity. Qed.
Lemma W32_val : W32 = 4294967296. Proof. reflexivity. Qed.
Lemma W64_val : W64 = 18446744073709551616. Proof. reflexivity. Qed.
Lemma UINT64_MAX_val : UINT64_MAX = 18446744073709551615. Proof. reflexivity. Qed.

Lemma add32_small a b : a + b < W32 -> add32 a b = a + b.
Proof. intro H. unfold add32. apply N.mod_small. exact H. Qed.

Lemma sub32_small a b : b <= a -> a < W32 -> sub32 a b = a - b.
Proof.
  intros H1 H2. unfold sub32. rewrite (N.mod_small b) by lia.
  replace (a + W32 - b) with ((a - b) + 1 * W32) by lia.
  rewrite N.mod_add by (rewrite W32_val; discriminate). apply N.mod_small. lia.
Qed.

Lemma add64_small a b : a + b < W64 -> add64 a b = a + b.
Proof. intro H. unfold add64. apply N.mod_small. exact H. Qed.

Lemma sub64_small a b : b <= a -> a < W64 -> sub64 a b = a - b.
Proof.
  intros H1 H2. unfold sub64. rewrite (N.mod_small b) by lia.
  replace (a + W64 - b) with ((a - b) + 1 * W64) by lia.
  rewrite N.mod_add by (rewrite W64_val; discriminate). apply N.mod_small. lia.
Qed.

Lemma shl64_ok x c : c < 64 -> shl64 x c = Done ((x * 2 ^ c) mod W64).
Proof. intro H. unfold shl64. apply N.ltb_lt in H. rewrite H, N.shiftl_mul_pow2. reflexivity. Qed.

Lemma shr64_ok x c : c < 64 -> shr64 x c = Done (x / 2 ^ c).
Proof. intro H. unfold shr64. apply N.ltb_lt in H. rewrite H, N.shiftr_div_pow2. reflexivity. Qed.

Lemma shr32_ok x c : c < 32 -> shr32 x c = Done (x / 2 ^ c).
Proof. intro H. unfold shr32. apply N.ltb_lt in H. rewrite H, N.shiftr_div_pow2. reflexivity. Qed.

Lemma shl_int_ok x c : c < 32 -> x * 2 ^ c < 2 ^ 31 -> shl_int x c = Done (x * 2 ^ c).
Proof.
  intros H1 H2. unfold shl_int. apply N.ltb_lt in H1. rewrite H1, N.shiftl_mul_pow2.
  apply N.ltb_lt in H2. rewrite H2. reflexivity.
Qed.

(* (p << 5) | k for k < 32 *)
Lemma lor_shift5 p k : k < 32 -> N.lor (p * 32) k = p * 32 + k.
Proof.
  intro Hk.
  assert (D : N.land (p * 32) k = 0).
  { apply N.bits_inj. intro i. rewrite N.land_spec, N.bits_0.
    destruct (N.lt_ge_cases i 5) as [Hi|Hi].
    - change 32 with (2 ^ 5). rewrite N.mul_pow2_bits_low by exact Hi. reflexivity.
    - destruct k as [|kp]; [rewrite N.bits_0; apply andb_false_r|].
      rewrite (N.bits_above_log2 (N.pos kp) i), andb_false_r; [reflexivity|].
      assert (N.log2 (N.pos kp) < 5); [|lia].
      apply N.log2_lt_pow2; [lia|exact Hk]. }
  rewrite <- N.lxor_lor by exact D. symmetry. apply N.add_nocarry_lxor. exact D.
Qed.

Lemma land31 x : N.land x 31 = x mod 32.
Proof. change 31 with (N.ones 5). rewrite N.land_ones. reflexivity. Qed.

(* ---- monad / loops --------------------------------------------------------------------------------- *)
Lemma for_loop_inv {St} (I : nat -> St -> Prop) (ks : list N) (body : N -> St -> M St) s0 :
  I 0%nat s0 ->
  (forall i k s, nth_error ks i = Some k -> I i s -> exists s', body k s = Done s' /\ I (S i) s') ->
  exists s', for_loop ks body s0 = Done s' /\ I (length ks) s'.
Proof.
  revert I s0. induction ks as [|k r IH]; intros I s0 H0 Hs.
  - exists s0. split; [reflexivity|exact H0].
  - cbn [for_loop length]. destruct (Hs 0%nat k s0 eq_refl H0) as [s1 [E1 I1]].
    rewrite E1. cbn [bindM].
    apply (IH (fun i s => I (S i) s) s1 I1).
    intros i k' s Hn Hi. apply (Hs (S i) k' s Hn Hi).
Qed.

Lemma nrange_nth lo cnt i k : nth_error (nrange lo cnt) i = Some k -> k = N.of_nat (lo + i) /\ (i < cnt)%nat.
Proof.
  unfold nrange. intro H.
  assert (L : (i < cnt)%nat).
  { assert (H' : nth_error (map N.of_nat (seq lo cnt)) i <> None) by congruence.
    apply nth_error_Some in H'. rewrite map_length, seq_length in H'. exact H'. }
  split; [|exact L].
  rewrite nth_error_map in H. rewrite (nth_error_nth' _ 0%nat) in H by (rewrite seq_length; exact L).
  rewrite seq_nth in H by exact L. cbn [option_map] in H. congruence.
Qed.

Lemma nrange_length lo cnt : length (nrange lo cnt) = cnt.
Proof. unfold nrange. rewrite map_length, seq_length. reflexivity. Qed.

Lemma while_inv {St} (I : St -> Prop) (mu : St -> nat) (cond : St -> M bool) (body : St -> M St) :
  (forall s, I s -> exists b, cond s = Done b /\
     (b = true -> exists s', body s = Done s' /\ I s' /\ (mu s' < mu s)%nat)) ->
  forall fuel s, I s -> (mu s < fuel)%nat ->
  exists s', while fuel cond body s = Done s' /\ I s' /\ cond s' = Done false.
Proof.
  intros Hstep. induction fuel as [|f IH]; intros s Hi Hm; [lia|].
  cbn [while]. destruct (Hstep s Hi) as [b [Ec Hb]]. rewrite Ec. cbn [bindM].
  destruct b.
  - destruct (Hb eq_refl) as [s' [Eb [Hi' Hm']]]. rewrite Eb. cbn [bindM].
    apply IH; [exact Hi'|lia].
  - exists s. auto.
Qed.

Lemma do_while_inv {St} (I J : St -> Prop) (mu : St -> nat) (body : St -> M St) (cond : St -> M bool) :
  (forall s, I s -> exists s', body s = Done s' /\ J s' /\ exists b, cond s' = Done b /\
     (b = true -> I s' /\ (mu s' < mu s)%nat)) ->
  forall fuel s, I s -> (mu s < fuel)%nat ->
  exists s', do_while fuel body cond s = Done s' /\ J s' /\ cond s' = Done false.
Proof.
  intros Hstep. induction fuel as [|f IH]; intros s Hi Hm; [lia|].
  cbn [do_while]. destruct (Hstep s Hi) as [s' [Eb [Hj [b [Ec Hb]]]]]. rewrite Eb. cbn [bindM].
  rewrite Ec. cbn [bindM]. destruct b.
  - destruct (Hb eq_refl) as [Hi' Hm']. apply IH; [exact Hi'|lia].
  - exists s'. auto.
Qed.

(* ---- code-length vectors ---------------------------------------------------------------------------- *)
Definition lens_ok (lens : list N) : Prop := Forall (fun l => 1 <= l <= 20) lens.

Lemma lens_ok_forallb lens : lens_ok lens -> forallb (fun l => (1 <=? l) && (l <=? 20)) lens = true.
Proof.
  intro H. apply forallb_forall. intros x Hx. unfold lens_ok in H. rewrite Forall_forall in H.
  specialize (H x Hx). apply andb_true_iff. split; apply N.leb_le; lia.
Qed.

Lemma lens_ok_nth lens s : lens_ok lens -> (s < length lens)%nat -> 1 <= nth s lens 0 <= 20.
Proof. intros H Hs. unfold lens_ok in H. rewrite Forall_forall in H. apply H. apply nth_In. exact Hs. Qed.

Lemma count_len_le lens l : count_len lens l <= N.of_nat (length lens).
Proof.
  unfold count_len. induction lens as [|x r IH]; [cbn; lia|].
  cbn [filter length]. destruct (N.eqb l x); cbn [length]; lia.
Qed.

Lemma cnt_le lens j : cnt lens j <= N.of_nat (length lens).
Proof. apply count_len_le. Qed.

Lemma count_len_out lens l : lens_ok lens -> ~ (1 <= l <= 20) -> count_len lens l = 0.
Proof.
  intros H Hl. induction H as [|x r Hx Hr IH]; [reflexivity|].
  rewrite count_len_cons, IH. destruct (N.eqb_spec l x); lia.
Qed.

Lemma count_len_app a b l : count_len (a ++ b) l = count_len a l + count_len b l.
Proof. unfold count_len. rewrite filter_app, app_length. lia. Qed.

Lemma firstn_S_nth (l : list N) i : (i < length l)%nat -> firstn (S i) l = firstn i l ++ [nth i l 0].
Proof.
  revert i; induction l as [|x r IH]; intros i H; cbn [length] in H; [lia|].
  destruct i as [|i]; [reflexivity|]. cbn [firstn nth app]. rewrite <- IH by lia. reflexivity.
Qed.

Lemma count_len_firstn_S lens i l : (i < length lens)%nat ->
  count_len (firstn (S i) lens) l = count_len (firstn i lens) l + (if N.eqb l (nth i lens 0) then 1 else 0).
Proof.
  intro H. rewrite firstn_S_nth by exact H. rewrite count_len_app. f_equal.
  rewrite count_len_cons. unfold count_len. cbn [filter length]. lia.
Qed.

Lemma count_len_firstn_le lens i l : count_len (firstn i lens) l <= count_len lens l.
Proof.
  rewrite <- (firstn_skipn i lens) at 2. rewrite count_len_app. lia.
Qed.

(* ---- W in an m-bit frame: number of m-bit strings that start with a code of length <= k ------------ *)
Definition WS (m : N) (lens : list N) (k : nat) : N := W lens k * 2 ^ (m - N.of_nat k).

Lemma WS_0 m lens : WS m lens 0 = 0.
Proof. unfold WS. rewrite W_0. reflexivity. Qed.

Lemma WS_S m lens k : N.of_nat (S k) <= m ->
  WS m lens (S k) = WS m lens k + cnt lens (S k) * 2 ^ (m - N.of_nat (S k)).
Proof.
  intro H. unfold WS. rewrite W_S.
  replace (m - N.of_nat k) with (N.succ (m - N.of_nat (S k))) by lia.
  rewrite N.pow_succ_r'. lia.
Qed.

Lemma WS_mono m lens a b : (a <= b)%nat -> N.of_nat b <= m -> WS m lens a <= WS m lens b.
Proof.
  intros Hab Hb. induction b as [|b IH]; [replace a with 0%nat by lia; lia|].
  destruct (Nat.eq_dec a (S b)) as [->|Hne]; [lia|].
  rewrite WS_S by exact Hb. specialize (IH ltac:(lia) ltac:(lia)). lia.
Qed.

Lemma WS_const m lens a b : (a <= b)%nat -> N.of_nat b <= m ->
  (forall j, (a < j <= b)%nat -> cnt lens j = 0) -> WS m lens b = WS m lens a.
Proof.
  intros Hab Hb Hz. induction b as [|b IH]; [replace a with 0%nat by lia; reflexivity|].
  destruct (Nat.eq_dec a (S b)) as [->|Hne]; [reflexivity|].
  rewrite WS_S by exact Hb. rewrite (Hz (S b)) by lia.
  rewrite IH; [lia|lia|lia|]. intros j Hj. apply Hz. lia.
Qed.

Lemma WS_scale a b lens k : N.of_nat k <= a -> a <= b -> WS b lens k = WS a lens k * 2 ^ (b - a).
Proof.
  intros H1 H2. unfold WS. rewrite <- N.mul_assoc, <- N.pow_add_r. do 2 f_equal. lia.
Qed.

Lemma WS_strict m lens k : N.of_nat (S k) <= m -> cnt lens (S k) <> 0 -> WS m lens k < WS m lens (S k).
Proof.
  intros H Hc. rewrite WS_S by exact H.
  assert (0 < 2 ^ (m - N.of_nat (S k))) by (apply N.neq_0_lt_0, N.pow_nonzero; discriminate).
  nia.
Qed.

(* Kraft sum *)
Lemma ksum_W20 lens : lens_ok lens -> ksum lens = W lens 20.
Proof.
  intro H. induction H as [|x r Hx Hr IH]; [reflexivity|].
  cbn [ksum W]. rewrite IH, N.shiftl_1_l.
  assert (E1 : (1 <=? x) = true) by (apply N.leb_le; lia).
  assert (E2 : (x <=? N.of_nat 20) = true) by (apply N.leb_le; lia).
  rewrite E1, E2. cbn [andb]. reflexivity.
Qed.

Lemma kraft_W20 lens : lens_ok lens -> kraft lens = W lens 20.
Proof. intro H. rewrite kraft_ksum. apply ksum_W20. exact H. Qed.

Lemma ksum_bound lens : lens_ok lens -> ksum lens <= N.of_nat (length lens) * 2 ^ 19.
Proof.
  intro H. induction H as [|x r Hx Hr IH]; [cbn; lia|].
  cbn [ksum length]. rewrite N.shiftl_1_l.
  assert (2 ^ (20 - x) <= 2 ^ 19) by (apply N.pow_le_mono_r; lia). lia.
Qed.

Lemma WS20_W20 lens : WS 20 lens 20 = W lens 20.
Proof. unfold WS. cbn [N.of_nat]. rewrite N.sub_diag, N.pow_0_r. lia. Qed.

(* ---- IDX --------------------------------------------------------------------------------------------------- *)
Lemma IDX_0 lens : IDX lens 0 = 0.
Proof. reflexivity. Qed.

Lemma IDX_mono lens a b : (a <= b)%nat -> IDX lens a <= IDX lens b.
Proof.
  intro H. induction b as [|b IH]; [replace a with 0%nat by lia; lia|].
  destruct (Nat.eq_dec a (S b)) as [->|Hne]; [lia|]. rewrite IDX_S. specialize (IH ltac:(lia)). lia.
Qed.

Definition CLE (lens : list N) (k : nat) : N :=
  N.of_nat (length (filter (fun l => (1 <=? l) && (l <=? N.of_nat k)) lens)).

Lemma CLE_S lens k : CLE lens (S k) = CLE lens k + cnt lens (S k).
Proof.
  unfold CLE, cnt, count_len. induction lens as [|x r IH]; [reflexivity|].
  cbn [filter].
  destruct (N.leb_spec 1 x) as [H1|H1]; cbn [andb].
  - destruct (N.leb_spec x (N.of_nat (S k))) as [H2|H2]; destruct (N.leb_spec x (N.of_nat k)) as [H3|H3];
      destruct (N.eqb_spec (N.of_nat (S k)) x) as [H4|H4]; cbn [length]; try lia.
  - destruct (N.eqb_spec (N.of_nat (S k)) x) as [H4|H4]; cbn [length]; lia.
Qed.

Lemma IDX_CLE lens k : IDX lens k = CLE lens k.
Proof.
  induction k as [|k IH].
  - unfold CLE. rewrite IDX_0. induction lens as [|x r IHl]; [reflexivity|].
    cbn [filter]. destruct (N.leb_spec 1 x); cbn [andb]; [|exact IHl].
    destruct (N.leb_spec x (N.of_nat 0)); [cbn [N.of_nat] in *; lia|exact IHl].
  - rewrite IDX_S, CLE_S, IH. reflexivity.
Qed.

Lemma IDX_20 lens : lens_ok lens -> IDX lens 20 = N.of_nat (length lens).
Proof.
  intro H. rewrite IDX_CLE. unfold CLE. do 2 f_equal.
  induction H as [|x r Hx Hr IH]; [reflexivity|].
  cbn [filter].
  assert (E1 : (1 <=? x) = true) by (apply N.leb_le; lia).
  assert (E2 : (x <=? N.of_nat 20) = true) by (apply N.leb_le; lia).
  rewrite E1, E2. cbn [andb length]. rewrite IH. reflexivity.
Qed.

Lemma IDX_le_len lens k : lens_ok lens -> (k <= 20)%nat -> IDX lens k <= N.of_nat (length lens).
Proof. intros H Hk. rewrite <- IDX_20 by exact H. apply IDX_mono. exact Hk. Qed.

(* the r-th (from 0) element satisfying f *)
Lemma rth_exists (f : N -> bool) (l : list N) : forall r, (r < length (filter f l))%nat ->
  exists s, (s < length l)%nat /\ f (nth s l 0) = true /\ length (filter f (firstn s l)) = r.
Proof.
  induction l as [|x t IH]; intros r Hr; [cbn in Hr; lia|].
  cbn [filter] in Hr. destruct (f x) eqn:Ef.
  - destruct r as [|r].
    + exists 0%nat. cbn [length nth firstn filter]. repeat split; [lia|exact Ef].
    + cbn [length] in Hr. destruct (IH r ltac:(lia)) as [s [Hs [Hf Hc]]].
      exists (S s). cbn [length nth firstn filter]. rewrite Ef. cbn [length]. repeat split; [lia|exact Hf|lia].
  - destruct (IH r Hr) as [s [Hs [Hf Hc]]].
    exists (S s). cbn [length nth firstn filter]. rewrite Ef. repeat split; [lia|exact Hf|exact Hc].
Qed.

(* position of symbol s in the sorted symbol list *)
Definition pos (lens : list N) (s : nat) : N :=
  IDX lens (N.to_nat (nth s lens 0) - 1) + count_len (firstn s lens) (nth s lens 0).

Lemma pos_sorted lens s : lens_ok lens -> (s < length lens)%nat ->
  nth (N.to_nat (pos lens s)) (sorted_syms lens) 0 = N.of_nat s.
Proof.
  intros H Hs. pose proof (lens_ok_nth lens s H Hs) as Hl.
  unfold pos, count_len. apply sorted_nth; [exact Hs|lia].
Qed.

Lemma pos_lt lens s : lens_ok lens -> (s < length lens)%nat ->
  pos lens s < IDX lens (N.to_nat (nth s lens 0)).
Proof.
  intros H Hs. pose proof (lens_ok_nth lens s H Hs) as Hl. unfold pos.
  replace (N.to_nat (nth s lens 0)) with (S (N.to_nat (nth s lens 0) - 1)) at 2 by lia.
  rewrite IDX_S. unfold cnt. replace (N.of_nat (S (N.to_nat (nth s lens 0) - 1))) with (nth s lens 0) by lia.
  unfold count_len.
  pose proof (rank_lt (N.eqb (nth s lens 0)) lens s Hs (N.eqb_refl _)). lia.
Qed.

Lemma pos_inj lens s s' : lens_ok lens -> (s < length lens)%nat -> (s' < length lens)%nat ->
  pos lens s = pos lens s' -> s = s'.
Proof.
  intros H Hs Hs' E. pose proof (pos_sorted lens s H Hs) as A. pose proof (pos_sorted lens s' H Hs') as B.
  rewrite E in A. rewrite A in B. lia.
Qed.

(* every slot of length class k is the position of some symbol *)
Lemma pos_onto lens k r : lens_ok lens -> (1 <= k <= 20)%nat -> r < cnt lens k ->
  exists s, (s < length lens)%nat /\ nth s lens 0 = N.of_nat k /\ pos lens s = IDX lens (k - 1) + r.
Proof.
  intros H Hk Hr. unfold cnt, count_len in Hr.
  destruct (rth_exists (N.eqb (N.of_nat k)) lens (N.to_nat r) ltac:(lia)) as [s [Hs [Hf Hc]]].
  apply N.eqb_eq in Hf. exists s. split; [exact Hs|]. split; [congruence|].
  unfold pos. rewrite <- Hf. rewrite Nat2N.id. unfold count_len. lia.
Qed.
