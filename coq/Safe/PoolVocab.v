(* Vocabulary of the regenerated file Gen/PoolTab.v (the deque / pqueue macros of
   src/process.h and up_heap()/down_heap() of src/process.c).  Only types and the
   meaning of C `unsigned` arithmetic live here; the index expressions, the order of
   the side effects inside each macro and the comparison used by the heap are
   transcribed from the source by lib/gen_pool.py.  Semantics: Safe/PoolModel.v. *)
From Coq Require Import List NArith Bool.
Import ListNotations.
Local Open Scope N_scope.

(* struct position { uint64_t major; uint64_t minor; } *)
Definition pos := (N * N)%type.

(* `unsigned`: 32 bits (harness/pool_h.c refuses to run otherwise).  Every +, -, * of the
   macros is between `unsigned` operands (or an `unsigned` and an int literal, which is
   converted to `unsigned`): modular arithmetic. *)
Definition UMOD : N := 4294967296.
Definition uadd (a b : N) : N := (a + b) mod UMOD.
Definition usub (a b : N) : N := (a + (UMOD - b mod UMOD)) mod UMOD.
Definition umul (a b : N) : N := (a * b) mod UMOD.
Definition udiv (a b : N) : N := a / b.          (* the translator only accepts non-zero literal divisors *)
Definition urem (a b : N) : N := a mod b.

(* the integer fields of `struct deque(T)`; `struct pqueue(T)` has only [size]
   (the translator rejects a pqueue macro that mentions modulus or head) *)
Record qf := mkqf { f_size : N; f_modulus : N; f_head : N }.
Inductive qfield := FSize | FModulus | FHead.

Definition qf_set (fld : qfield) (v : N) (f : qf) : qf :=
  match fld with
  | FSize => mkqf v (f_modulus f) (f_head f)
  | FModulus => mkqf (f_size f) v (f_head f)
  | FHead => mkqf (f_size f) (f_modulus f) v
  end.

(* One side effect (or the value) of a macro body, in source order.  Every expression is
   a function of the CURRENT fields (after the effects before it) and of the numeric
   macro argument (`i' of dq_get/dq_set, `n' of the init macros; unused otherwise). *)
Inductive qop :=
| QAssert (c : qf -> N -> bool)                 (* assert(c) *)
| QSet (fld : qfield) (v : qf -> N -> N)        (* (q).fld = v    also ++ / -- *)
| QAlloc (n : qf -> N -> N)                     (* (q).root = xmalloc(n * sizeof *(q).root) *)
| QFree                                         (* free((q).root) *)
| QWrite (ix : qf -> N -> N)                    (* (q).root[ix] = (e) *)
| QRead (ix : qf -> N -> N)                     (* value: (q).root[ix] *)
| QNum (v : qf -> N -> N)                       (* value: an integer *)
| QBool (v : qf -> N -> bool)                   (* value: a truth value *)
| QUp (arg : qf -> N -> N)                      (* up_heap((q).root, arg) *)
| QDown (arg : qf -> N -> N).                   (* down_heap((q).root, arg) *)

(* conditions of up_heap()/down_heap(): && and || short-circuit (a comparison reads the
   array, so whether it is evaluated matters for the bounds) *)
Inductive operand := OEl | ORoot (ix : N).      (* *el   |   *root[ix] *)
Inductive cmpk := CmpLt | CmpLe | CmpEq.        (* pos_lt | pos_le | pos_eq *)
Inductive hcond :=
| HPure (b : bool)
| HCmp (k : cmpk) (a b : operand)
| HAnd (a b : hcond)
| HOr (a b : hcond)
| HNot (a : hcond).
