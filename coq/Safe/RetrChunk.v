(* C09, retrieve(): CHUNK INDEPENDENCE of the statement-level model (Safe/RetrModel.v), structural part.

   Nothing here looks inside the format.  Two facts about the control-flow graph:
   (1) [merge_up]: for the machine with the fast path switched off, suspending at a NEED because the chunk is
       exhausted and resuming with the next chunk is the same as having both chunks at once;
   (2) [fast_to_slow]: a group decoded on the fast path (locals, NEED_FAST) is the same as the same group decoded
       on the slow path (rs->j, rs->run, ..., NEED), unless NEED_FAST reads past the end of the chunk ([FInput];
       excluded by the counting argument of Safe/RetrSafe.v).
   Results are compared by [rsim]: for OK the observable part of the state (tt, block size, origin pointer,
   randomised flag, ftab, the saved bit buffer and the words not consumed), for an error its code.
   Fuel: everything is stated for runs that do not end in [RFault FFuel]; Safe/RetrSafe.v shows that the fuel
   [call_fuel] of [retrieve] always suffices. *)
From Coq Require Import List NArith Arith Bool Lia.
From LBZ Require Import Gen.Consts Gen.DecTabs Safe.TreeModel Safe.RetrModel.
Import ListNotations.
Local Open Scope N_scope.

(* ---- the slow machine does not look at next/limit between two NEEDs ------------------------------------ *)
Definition sstep (p : pc) (c : core) : bres := fst (step false p c []).

Lemma step_false p c nx : step false p c nx = (sstep p c, nx).
Proof.
  unfold sstep. destruct p as [s| |]; cbn [step fst]; try reflexivity.
  unfold group_head. destruct (group_select c); reflexivity.
Qed.

Definition after (b : bres) (st : rstate) : out :=
  match b with
  | BGo p' c => Running p' (with_core st c)
  | BNeed s c =>
      match need_at s (with_core st c) with
      | NGo st' => Running (After s) st'
      | NRet r => Final r
      end
  | BRet code c => Final (RErr code (with_core st c))
  | BEob c => Final (finish (with_core st c))
  | BFault fl => Final (RFault fl)
  end.

Lemma with_next_id st : with_next st (l_next st) = st.
Proof. destruct st; reflexivity. Qed.

Lemma onestep_after b p st :
  onestep b p st = after (fst (step b p (s_core st) (l_next st))) (with_next st (snd (step b p (s_core st) (l_next st)))).
Proof. unfold onestep. destruct (step b p (s_core st) (l_next st)) as [r nx]. reflexivity. Qed.

Lemma onestep_false p st : onestep false p st = after (sstep p (s_core st)) st.
Proof. rewrite onestep_after, step_false. cbn [fst snd]. rewrite with_next_id. reflexivity. Qed.

Definition cont (b : bool) (m : nat) (o : out) : cres :=
  match o with Running p st => run_from b m p st | Final r => r end.

Lemma run_from_S b m p st : run_from b (S m) p st = cont b m (onestep b p st).
Proof. reflexivity. Qed.

(* ---- fuel ------------------------------------------------------------------------------------------------ *)
Lemma run_from_mono b : forall n p st r, run_from b n p st = r -> r <> RFault FFuel ->
  forall m, (n <= m)%nat -> run_from b m p st = r.
Proof.
  induction n as [|n IH]; intros p st r H Hr m Hm.
  - cbn in H. congruence.
  - destruct m as [|m]; [lia|]. rewrite run_from_S in *. destruct (onestep b p st) as [p' st'|r']; cbn [cont] in *.
    + apply (IH p' st' r H Hr). lia.
    + exact H.
Qed.

Lemma retrieve_f_mono b : forall n st r, retrieve_f n b st = r -> r <> RFault FFuel ->
  forall m, (n <= m)%nat -> retrieve_f m b st = r.
Proof.
  intros n st r H Hr m Hm. unfold retrieve_f in *.
  destruct (s_state (restore st) =? S_INIT).
  - destruct (need_at S_bwt_idx (restore st)); [|exact H]. eapply run_from_mono; eassumption.
  - destruct (site_of_state (s_state (restore st))); [|exact H].
    destruct (b_data (restore st)); [exact H|].
    destruct (c_w (s_core (restore (restore st))) <? 32); [|exact H].
    destruct (load (s_core (restore (restore st))) n0); [|exact H].
    eapply run_from_mono; eassumption.
Qed.

(* ---- comparing results ---------------------------------------------------------------------------------------- *)
Definition obs_core (c : core) := (c_v c, c_w c, c_ttp c, c_tt c, d_rand c, d_bwt_idx c, d_ftab c).

(* [b]: words the second run still has in its chunk beyond those of the first *)
Definition rsim (b : list N) (r1 r2 : cres) : Prop :=
  match r1, r2 with
  | ROk C, ROk M =>
      obs_core (s_core C) = obs_core (s_core M) /\ b_live C = b_live M /\ b_buff C = b_buff M /\
      d_block_size C = d_block_size M /\ b_data M = b_data C ++ b
  | RErr c1 _, RErr c2 _ => c1 = c2
  | RMore C, RMore M => C = M /\ b = []
  | RFault f1, RFault f2 => f1 = f2
  | _, _ => False
  end.

Lemma rsim_refl r : rsim [] r r.
Proof. destruct r; cbn; auto. rewrite app_nil_r. auto. Qed.

Lemma rsim_trans b r1 r2 r3 : rsim [] r1 r2 -> rsim b r2 r3 -> rsim b r1 r3.
Proof.
  destruct r1, r2, r3; cbn; try tauto; try congruence.
  - intros [-> _] H. exact H.
  - intros (A & B & C & D & E) (A' & B' & C' & D' & E'). rewrite app_nil_r in E.
    repeat split; congruence.
Qed.

Lemma rsim_trans_r b r1 r2 r3 : rsim b r1 r2 -> rsim [] r2 r3 -> rsim b r1 r3.
Proof.
  destruct r1, r2, r3; cbn; try tauto; try congruence.
  - intros [-> ->] [-> _]. auto.
  - intros (A & B & C & D & E) (A' & B' & C' & D' & E'). rewrite app_nil_r in E'.
    repeat split; congruence.
Qed.

Lemma rsim_sym r1 r2 : rsim [] r1 r2 -> rsim [] r2 r1.
Proof.
  destruct r1, r2; cbn; try tauto; try congruence.
  - intros [-> _]. auto.
  - intros (A & B & C & D & E). rewrite app_nil_r in *. repeat split; congruence.
Qed.

Lemma rsim_fuel b r1 r2 : rsim b r1 r2 -> r1 <> RFault FFuel -> r2 <> RFault FFuel.
Proof. destruct r1, r2; cbn; try tauto; try congruence. Qed.

(* same core, the second state has [b] more words in its chunk; the saved fields do not matter (SAVE()
   overwrites them before anything reads them), bs->eof does *)
Definition csim (b : list N) (C M : rstate) : Prop :=
  s_core C = s_core M /\ l_next M = l_next C ++ b /\ b_eof C = b_eof M.

Lemma state_no_not_init s : (state_no s =? S_INIT) = false.
Proof. destruct s; reflexivity. Qed.

Lemma site_of_state_no s : site_of_state (state_no s) = Some s.
Proof. destruct s; reflexivity. Qed.

Lemma restore_save_core c :
  set_c_ttp (set_c_w (set_c_v c (c_v c)) (c_w c)) (c_ttp c) = c.
Proof. destruct c; reflexivity. Qed.

(* one pass of the slow machine on related states *)
Lemma after_csim b r C M : csim b C M -> (b <> [] -> b_eof C = false) ->
  match after r C with
  | Running p' C' => exists M', after r M = Running p' M' /\ csim b C' M'
  | Final rC =>
      (exists rM, after r M = Final rM /\ rsim b rC rM) \/
      (exists s c, r = BNeed s c /\ (c_w c <? 32) = true /\ l_next C = [] /\ b <> [] /\
                   rC = RMore (with_state (save (with_core C c)) (state_no s)))
  end.
Proof.
  intros (Hc & Hn & He) Heof. destruct r as [p' c|s c|code c|c|fl]; cbn [after].
  - exists (with_core M c). split; [reflexivity|]. repeat split; cbn; auto.
  - unfold need_at. cbn [s_core with_core l_next].
    destruct (c_w c <? 32) eqn:Ew.
    + destruct (l_next C) as [|x r] eqn:EC.
      * (* the chunk of C is exhausted *)
        cbn [save with_core b_eof s_core l_next].
        destruct (b_eof C) eqn:EE.
        -- left. destruct b as [|y b']; [|specialize (Heof ltac:(discriminate)); discriminate].
           rewrite Hn. cbn [app]. cbn [save with_core b_eof s_core l_next]. rewrite <- He.
           eexists. split; [reflexivity|]. cbn. reflexivity.
        -- destruct b as [|y b'].
           ++ left. rewrite Hn. cbn [app]. cbn [save with_core b_eof s_core l_next]. rewrite <- He.
              eexists. split; [reflexivity|]. cbn. split; [|reflexivity].
              unfold with_state, save, with_core. cbn. rewrite Hn. cbn. rewrite <- He, EC, EE. reflexivity.
           ++ right. exists s, c. repeat split; auto. discriminate.
      * rewrite Hn. cbn [app]. destruct (load c x) as [c'|f].
        -- eexists. split; [reflexivity|]. repeat split; cbn; auto.
        -- left. eexists. split; [reflexivity|]. cbn. reflexivity.
    + eexists. split; [reflexivity|]. repeat split; cbn; auto.
  - left. eexists. split; [reflexivity|]. cbn. reflexivity.
  - left. eexists. split; [reflexivity|]. unfold finish. cbn [save with_core s_core d_block_size].
    destruct (c_ttp c =? 0); [cbn; reflexivity|].
    destruct (c_ttp c <=? d_bwt_idx c); [cbn; reflexivity|].
    cbn. repeat split; auto.
  - left. eexists. split; [reflexivity|]. cbn. reflexivity.
Qed.

Lemma after_eof r st : match after r st with Running _ st' => b_eof st' = b_eof st | Final _ => True end.
Proof.
  destruct r; cbn [after]; auto. unfold need_at. cbn [s_core with_core l_next].
  destruct (c_w c <? 32); auto. destruct (l_next st); [destruct (b_eof (save (with_core st c))); auto|].
  destruct (load c n); auto.
Qed.

(* identical chunks: identical runs *)
Lemma run_eq : forall n p C M, csim [] C M -> rsim [] (run_from false n p C) (run_from false n p M).
Proof.
  induction n as [|n IH]; intros p C M H; [cbn; reflexivity|].
  rewrite !run_from_S, !onestep_false. destruct H as (Hc & Hn & He).
  pose proof (after_csim [] (sstep p (s_core C)) C M (conj Hc (conj Hn He)) ltac:(congruence)) as A.
  rewrite <- Hc. destruct (after (sstep p (s_core C)) C) as [p' C'|rC].
  - destruct A as (M' & -> & HS). cbn [cont]. apply IH. exact HS.
  - destruct A as [(rM & -> & HR)|(s & c & _ & _ & _ & Hb & _)]; [exact HR|congruence].
Qed.

(* (1) the chunked run (suspended at most once here) against the run that has both chunks at once *)
Lemma run_merge : forall n p C M b rC, csim b C M -> b <> [] -> b_eof C = false ->
  run_from false n p C = rC -> rC <> RFault FFuel ->
  match rC with
  | RMore C' => forall n2 r2, retrieve_f n2 false (attach C' b) = r2 -> r2 <> RFault FFuel ->
                  exists m rM, run_from false m p M = rM /\ rsim [] r2 rM
  | _ => exists m rM, run_from false m p M = rM /\ rsim b rC rM
  end.
Proof.
  induction n as [|n IH]; intros p C M b rC HS Hb Heof HC HF; [cbn in HC; congruence|].
  rewrite run_from_S, onestep_false in HC.
  pose proof (after_csim b (sstep p (s_core C)) C M HS (fun _ => Heof)) as A.
  pose proof (after_eof (sstep p (s_core C)) C) as E.
  assert (Hcore : s_core C = s_core M) by (destruct HS; assumption).
  destruct (after (sstep p (s_core C)) C) as [p' C'|rC0] eqn:EA; cbn [cont] in HC.
  - destruct A as (M' & AM & HS').
    specialize (IH p' C' M' b rC HS' Hb ltac:(congruence) HC HF).
    destruct rC as [C''| | |].
    + intros n2 r2 H2 HF2. destruct (IH n2 r2 H2 HF2) as (m & rM & Hm & Hr).
      exists (S m), rM. split; [|exact Hr]. rewrite run_from_S, onestep_false, <- Hcore, AM. exact Hm.
    + destruct IH as (m & rM & Hm & Hr). exists (S m), rM. split; [|exact Hr].
      rewrite run_from_S, onestep_false, <- Hcore, AM. exact Hm.
    + destruct IH as (m & rM & Hm & Hr). exists (S m), rM. split; [|exact Hr].
      rewrite run_from_S, onestep_false, <- Hcore, AM. exact Hm.
    + destruct IH as (m & rM & Hm & Hr). exists (S m), rM. split; [|exact Hr].
      rewrite run_from_S, onestep_false, <- Hcore, AM. exact Hm.
  - subst rC0. destruct A as [(rM & AM & HR)|(s & c & Er & Ew & EC & _ & ->)].
    + assert (G : exists m rM', run_from false m p M = rM' /\ rsim b rC rM').
      { exists 1%nat, rM. split; [|exact HR]. rewrite run_from_S, onestep_false, <- Hcore, AM. reflexivity. }
      destruct rC; try exact G.
      destruct rM; cbn in HR; tauto.
    + (* C is suspended, M goes on *)
      intros n2 r2 H2 HF2. destruct HS as (_ & Hn & He). rewrite EC in Hn. cbn [app] in Hn.
      destruct b as [|y b']; [congruence|].
      unfold retrieve_f in H2.
      cbn [restore attach with_next with_core with_state save s_state s_core b_data b_live b_buff d_block_size] in H2.
      rewrite state_no_not_init, site_of_state_no in H2.
      cbn [b_data b_live b_buff d_block_size s_core b_eof] in H2.
      rewrite !restore_save_core in H2. rewrite Ew in H2.
      destruct (load c y) as [c'|f] eqn:EL.
      * (* both go on from the same core *)
        match type of H2 with run_from false n2 ?pp ?X = _ =>
          pose proof (run_eq n2 pp X (with_next (with_core (with_core M c) c') b')) as RE end.
        exists (S n2). eexists. split.
        -- rewrite run_from_S, onestep_false, <- Hcore, Er. cbn [after]. unfold need_at.
           cbn [s_core with_core l_next]. rewrite Ew, Hn, EL. cbn [cont]. reflexivity.
        -- rewrite <- H2. apply RE. repeat split; cbn; auto. rewrite app_nil_r. reflexivity.
      * exists 1%nat. eexists. split.
        -- rewrite run_from_S, onestep_false, <- Hcore, Er. cbn [after]. unfold need_at.
           cbn [s_core with_core l_next]. rewrite Ew, Hn, EL. cbn [cont]. reflexivity.
        -- subst r2. cbn. reflexivity.
Qed.

(* ---- one call ------------------------------------------------------------------------------------------------- *)
Inductive ent := EGo (p : pc) (st : rstate) | EStop (r : cres).

(* the prologue of retrieve(): RESTORE(), switch (rs->state), the resume part of NEED(s) *)
Definition enter (st : rstate) : ent :=
  let st := restore st in
  if s_state st =? S_INIT then
    match need_at S_bwt_idx st with
    | NGo st' => EGo A_BWT_IDX st'
    | NRet r => EStop r
    end
  else
    match site_of_state (s_state st) with
    | None => EStop (RFault FAbort)
    | Some s =>
        match b_data st with
        | [] => EStop (if b_eof st then RErr E_ERR_EOF st else RFault (FAssert 1))
        | x :: r =>
            let st := restore st in
            if c_w (s_core st) <? 32 then
              match load (s_core st) x with
              | XV c' => EGo (After s) (with_next (with_core st c') r)
              | XF f => EStop (RFault f)
              end
            else EStop (RFault (FAssert 2))
        end
    end.

Lemma retrieve_f_enter n b st :
  retrieve_f n b st = match enter st with EGo p s => run_from b n p s | EStop r => r end.
Proof.
  unfold retrieve_f, enter. destruct (s_state (restore st) =? S_INIT).
  - destruct (need_at S_bwt_idx (restore st)); reflexivity.
  - destruct (site_of_state (s_state (restore st))); [|reflexivity].
    destruct (b_data (restore st)); [destruct (b_eof (restore st)); reflexivity|].
    destruct (c_w (s_core (restore (restore st))) <? 32); [|reflexivity].
    destruct (load (s_core (restore (restore st))) n0); reflexivity.
Qed.

Lemma enter_merge st a b : a <> [] ->
  match enter (attach st a) with
  | EGo p C => exists M, enter (attach st (a ++ b)) = EGo p M /\ csim b C M /\ b_eof C = b_eof st
  | EStop r => enter (attach st (a ++ b)) = EStop r
  end.
Proof.
  intro Ha. destruct a as [|x a']; [congruence|]. destruct st as [c nx s bl bb d e bs].
  unfold enter, restore, attach, need_at, with_next, with_core, csim. cbn.
  destruct (s =? S_INIT).
  - destruct (bl <? 32).
    + match goal with |- context [load ?c x] => destruct (load c x) as [c'|f] end; [|reflexivity].
      eexists. split; [reflexivity|]. cbn. repeat split; reflexivity.
    + eexists. split; [reflexivity|]. cbn. repeat split; reflexivity.
  - destruct (site_of_state s); [|reflexivity].
    destruct (bl <? 32); [|reflexivity].
    match goal with |- context [load ?c x] => destruct (load c x) as [c'|f] end; [|reflexivity].
    eexists. split; [reflexivity|]. cbn. repeat split; reflexivity.
Qed.

(* a call that does not run out of fuel *)
Definition Ret (b : bool) (st : rstate) (r : cres) : Prop :=
  exists n, retrieve_f n b st = r /\ r <> RFault FFuel.

Lemma Ret_det b st r1 r2 : Ret b st r1 -> Ret b st r2 -> r1 = r2.
Proof.
  intros (n1 & H1 & F1) (n2 & H2 & F2).
  rewrite <- (retrieve_f_mono b n1 st r1 H1 F1 (max n1 n2) ltac:(lia)).
  rewrite <- (retrieve_f_mono b n2 st r2 H2 F2 (max n1 n2) ltac:(lia)). reflexivity.
Qed.

(* bs->eof is not touched by retrieve() *)
Lemma need_at_eof s st : match need_at s st with
                         | NGo st' => b_eof st' = b_eof st
                         | NRet (RMore st') => b_eof st' = b_eof st
                         | NRet _ => True
                         end.
Proof.
  unfold need_at. destruct (c_w (s_core st) <? 32); [|reflexivity].
  destruct (l_next st).
  - cbn [save b_eof]. destruct (b_eof st) eqn:E; cbn; auto.
  - destruct (load (s_core st) n); cbn; auto.
Qed.

Lemma after_more r st st' : after r st = Final (RMore st') -> b_eof st' = b_eof st.
Proof.
  destruct r; cbn [after]; try discriminate.
  - pose proof (need_at_eof s (with_core st c)) as E. destruct (need_at s (with_core st c)); [discriminate|].
    intro H. injection H as ->. exact E.
  - unfold finish. destruct (_ =? 0); [discriminate|]. destruct (_ <=? _); discriminate.
Qed.

Lemma run_from_more b : forall n p st st', run_from b n p st = RMore st' -> b_eof st' = b_eof st.
Proof.
  induction n as [|n IH]; intros p st st' H; [discriminate|].
  rewrite run_from_S, onestep_after in H.
  set (r := fst (step b p (s_core st) (l_next st))) in *. set (nx := snd (step b p (s_core st) (l_next st))) in *.
  pose proof (after_eof r (with_next st nx)) as E. pose proof (after_more r (with_next st nx)) as F.
  destruct (after r (with_next st nx)) as [p' s'|r']; cbn [cont] in H.
  - rewrite (IH _ _ _ H). exact E.
  - subst r'. exact (F st' eq_refl).
Qed.

Lemma retrieve_f_more b n st st' : retrieve_f n b st = RMore st' -> b_eof st' = b_eof st.
Proof.
  rewrite retrieve_f_enter. unfold enter.
  destruct (s_state (restore st) =? S_INIT).
  - pose proof (need_at_eof S_bwt_idx (restore st)) as E.
    destruct (need_at S_bwt_idx (restore st)) as [s'|r].
    + intro H. rewrite (run_from_more _ _ _ _ _ H). exact E.
    + intro H. subst r. exact E.
  - destruct (site_of_state (s_state (restore st))); [|discriminate].
    destruct (b_data (restore st)); [destruct (b_eof (restore st)); discriminate|].
    destruct (c_w _ <? 32); [|discriminate].
    destruct (load _ n0); [|discriminate].
    intro H. rewrite (run_from_more _ _ _ _ _ H). reflexivity.
Qed.

(* two chunks against their concatenation *)
Lemma retrieve_merge st a b rC : a <> [] -> b <> [] -> b_eof st = false ->
  Ret false (attach st a) rC ->
  match rC with
  | RMore C' => forall r2, Ret false (attach C' b) r2 -> exists rM, Ret false (attach st (a ++ b)) rM /\ rsim [] r2 rM
  | _ => exists rM, Ret false (attach st (a ++ b)) rM /\ rsim b rC rM
  end.
Proof.
  intros Ha Hb He (n & HC & HF). rewrite retrieve_f_enter in HC.
  pose proof (enter_merge st a b Ha) as EM.
  destruct (enter (attach st a)) as [p C|r].
  - destruct EM as (M & EM & HS & HeC).
    pose proof (run_merge n p C M b rC HS Hb (eq_trans HeC He) HC HF) as RM.
    destruct rC as [C'| | |].
    + intros r2 (n2 & H2 & F2). destruct (RM n2 r2 H2 F2) as (m & rM & Hm & Hr).
      exists rM. split; [|exact Hr]. exists m. rewrite retrieve_f_enter, EM. split; [exact Hm|].
      intro X. rewrite X in Hr. destruct r2 as [?|?|? ?|f2]; cbn in Hr; try tauto. subst f2. exact (F2 eq_refl).
    + destruct RM as (m & rM & Hm & Hr). exists rM. split; [|exact Hr]. exists m.
      rewrite retrieve_f_enter, EM. split; [exact Hm|]. eapply rsim_fuel; eassumption.
    + destruct RM as (m & rM & Hm & Hr). exists rM. split; [|exact Hr]. exists m.
      rewrite retrieve_f_enter, EM. split; [exact Hm|]. eapply rsim_fuel; eassumption.
    + destruct RM as (m & rM & Hm & Hr). exists rM. split; [|exact Hr]. exists m.
      rewrite retrieve_f_enter, EM. split; [exact Hm|]. eapply rsim_fuel; eassumption.
  - subst r.
    assert (G : exists rM, Ret false (attach st (a ++ b)) rM /\ rsim b rC rM).
    { exists rC. split; [exists n; rewrite retrieve_f_enter, EM; auto|].
      (* a stop in the prologue is a fault *)
      clear - Ha EM. destruct a as [|x a']; [congruence|]. destruct st as [c nx s bl bb d e bs].
      unfold enter, restore, attach, need_at, with_next, with_core in EM. cbn in EM.
      destruct (s =? S_INIT).
      - destruct (bl <? 32); [|discriminate].
        match type of EM with context [load ?c x] => destruct (load c x) as [c'|f] end; [discriminate|].
        injection EM as <-. cbn. reflexivity.
      - destruct (site_of_state s); [|injection EM as <-; cbn; reflexivity].
        destruct (bl <? 32); [|injection EM as <-; cbn; reflexivity].
        match type of EM with context [load ?c x] => destruct (load c x) as [c'|f] end; [discriminate|].
        injection EM as <-. cbn. reflexivity. }
    destruct rC; try exact G.
    destruct G as (rM & _ & HR). destruct rM; cbn in HR; tauto.
Qed.

(* ---- a list of chunks, then end of input ------------------------------------------------------------------------ *)
Definition is_more (r : cres) : bool := match r with RMore _ => true | _ => false end.

Inductive Eval (b : bool) : rstate -> list (list N) -> cres * list (list N) -> Prop :=
| Ev_nil_stop st r : Ret b (attach_eof st) r -> is_more r = false -> Eval b st [] (r, [])
| Ev_nil_more st st' r : Ret b (attach_eof st) (RMore st') -> Ret b (attach_eof st') r -> Eval b st [] (r, [])
| Ev_stop st ch rest r : Ret b (attach st ch) r -> is_more r = false -> Eval b st (ch :: rest) (r, rest)
| Ev_more st ch rest st' x : Ret b (attach st ch) (RMore st') -> Eval b st' rest x -> Eval b st (ch :: rest) x.

Lemma Eval_det b st cs x : Eval b st cs x -> forall y, Eval b st cs y -> x = y.
Proof.
  induction 1 as [st r H Hm|st st' r H H'|st ch rest r H Hm|st ch rest st' x H E IH]; intros y Hy; inversion Hy; subst.
  - f_equal. eapply Ret_det; eassumption.
  - pose proof (Ret_det _ _ _ _ H H2). subst. discriminate.
  - pose proof (Ret_det _ _ _ _ H H3). subst. discriminate.
  - pose proof (Ret_det _ _ _ _ H H3) as X. injection X as <-. f_equal. eapply Ret_det; eassumption.
  - f_equal. eapply Ret_det; eassumption.
  - pose proof (Ret_det _ _ _ _ H H5). subst. discriminate.
  - pose proof (Ret_det _ _ _ _ H H4). subst. discriminate.
  - pose proof (Ret_det _ _ _ _ H H4) as X. injection X as <-. apply IH. assumption.
Qed.

(* the executable driver, when it does not run out of fuel, is an evaluation *)
Lemma retr_chunks_Eval fu b : forall cs st x, retr_chunks_f fu b st cs = x -> fst x <> RFault FFuel -> Eval b st cs x.
Proof.
  induction cs as [|ch rest IH]; intros st x H HF; cbn [retr_chunks_f] in H.
  - destruct (retrieve_f (fu (attach_eof st)) b (attach_eof st)) as [st'| | |] eqn:E1.
    + subst x. cbn [fst] in HF. eapply Ev_nil_more; [exists (fu (attach_eof st)); split; [exact E1|discriminate]|].
      eexists. split; [reflexivity|exact HF].
    + subst x. apply Ev_nil_stop; [|reflexivity]. eexists. split; [exact E1|exact HF].
    + subst x. apply Ev_nil_stop; [|reflexivity]. eexists. split; [exact E1|exact HF].
    + subst x. apply Ev_nil_stop; [|reflexivity]. eexists. split; [exact E1|exact HF].
  - destruct (retrieve_f (fu (attach st ch)) b (attach st ch)) as [st'| | |] eqn:E1.
    + eapply Ev_more; [exists (fu (attach st ch)); split; [exact E1|discriminate]|]. apply IH; assumption.
    + subst x. apply Ev_stop; [|reflexivity]. eexists. split; [exact E1|exact HF].
    + subst x. apply Ev_stop; [|reflexivity]. eexists. split; [exact E1|exact HF].
    + subst x. apply Ev_stop; [|reflexivity]. eexists. split; [exact E1|exact HF].
Qed.

(* results of two chunkings: the words not consumed are what is left of the chunk plus the chunks never attached *)
Definition xsim (x y : cres * list (list N)) : Prop :=
  match fst x, fst y with
  | ROk C, ROk M =>
      obs_core (s_core C) = obs_core (s_core M) /\ b_live C = b_live M /\ b_buff C = b_buff M /\
      d_block_size C = d_block_size M /\ b_data C ++ concat (snd x) = b_data M ++ concat (snd y)
  | RErr c1 _, RErr c2 _ => c1 = c2
  | RMore C, RMore M => C = M
  | RFault f1, RFault f2 => f1 = f2
  | _, _ => False
  end.

Lemma xsim_refl x : xsim x x.
Proof. destruct x as [[| | |] lo]; cbn; auto. Qed.

Lemma xsim_sym x y : xsim x y -> xsim y x.
Proof. destruct x as [[| | |] lo], y as [[| | |] lo']; cbn; try tauto; try congruence. intros (A & B & C & D & E). repeat split; congruence. Qed.

Lemma xsim_trans x y z : xsim x y -> xsim y z -> xsim x z.
Proof.
  destruct x as [[| | |] lo], y as [[| | |] lo'], z as [[| | |] lo'']; cbn; try tauto; try congruence.
  intros (A & B & C & D & E) (A' & B' & C' & D' & E'). repeat split; congruence.
Qed.

Lemma rsim_xsim b r1 r2 lo : rsim b r1 r2 -> xsim (r1, b :: lo) (r2, lo).
Proof.
  destruct r1, r2; cbn; try tauto.
  intros (A & B & C & D & E). repeat split; auto. rewrite E, app_assoc. reflexivity.
Qed.

Lemma rsim_nil_xsim r1 r2 lo : rsim [] r1 r2 -> xsim (r1, lo) (r2, lo).
Proof.
  destruct r1, r2; cbn; try tauto.
  intros (A & B & C & D & E). rewrite app_nil_r in E. repeat split; auto. congruence.
Qed.

Lemma rsim_more b r1 r2 : rsim b r1 r2 -> is_more r1 = is_more r2.
Proof. destruct r1, r2; cbn; tauto. Qed.

(* the first two chunks merged *)
Lemma Eval_merge2 st a b rest x : a <> [] -> b <> [] -> b_eof st = false ->
  Eval false st (a :: b :: rest) x -> exists y, Eval false st ((a ++ b) :: rest) y /\ xsim x y.
Proof.
  intros Ha Hb He E. inversion E as [| |st0 ch rest0 r H Hm|st0 ch rest0 st' x0 H E']; subst.
  - (* the block ends in the first chunk *)
    pose proof (retrieve_merge st a b r Ha Hb He H) as RM.
    assert (G : exists rM, Ret false (attach st (a ++ b)) rM /\ rsim b r rM) by (destruct r; try exact RM; discriminate).
    destruct G as (rM & HR & HS). exists (rM, rest). split; [|apply rsim_xsim; exact HS].
    apply Ev_stop; [exact HR|]. rewrite <- (rsim_more _ _ _ HS). exact Hm.
  - pose proof (retrieve_merge st a b (RMore st') Ha Hb He H) as RM. cbn in RM.
    inversion E' as [| |st1 ch1 rest1 r H2 Hm2|st1 ch1 rest1 st'' x1 H2 E'']; subst.
    + destruct (RM r H2) as (rM & HR & HS). exists (rM, rest). split; [|apply rsim_nil_xsim; exact HS].
      apply Ev_stop; [exact HR|]. rewrite <- (rsim_more _ _ _ HS). exact Hm2.
    + destruct (RM (RMore st'') H2) as (rM & HR & HS). destruct rM as [M| | |]; cbn in HS; try tauto.
      destruct HS as [<- _]. exists x. split; [|apply xsim_refl]. eapply Ev_more; eassumption.
Qed.

Lemma Eval_more_eof b st ch st' : Ret b (attach st ch) (RMore st') -> b_eof st' = b_eof st.
Proof. intros (n & H & _). apply retrieve_f_more in H. exact H. Qed.

(* any chunking against the single chunk *)
Lemma Eval_concat : forall n cs st x, (length cs <= n)%nat -> cs <> [] -> Forall (fun c => c <> []) cs -> b_eof st = false ->
  Eval false st cs x -> exists y, Eval false st [concat cs] y /\ xsim x y.
Proof.
  induction n as [|n IH]; intros cs st x Hl Hne Hall He E.
  - destruct cs; [congruence|cbn in Hl; lia].
  - destruct cs as [|a [|b rest]]; [congruence| |].
    + cbn [concat]. rewrite app_nil_r. exists x. split; [exact E|apply xsim_refl].
    + inversion Hall as [|? ? Ha Hall']; subst. inversion Hall' as [|? ? Hb Hall'']; subst.
      destruct (Eval_merge2 st a b rest x Ha Hb He E) as (y & Ey & Sy).
      destruct (IH ((a ++ b) :: rest) st y) as (z & Ez & Sz); auto.
      * cbn [length] in *. lia.
      * discriminate.
      * constructor; [|exact Hall'']. destruct a; [congruence|discriminate].
      * exists z. split; [|eapply xsim_trans; eassumption].
        cbn [concat] in *. rewrite <- app_assoc in Ez. exact Ez.
Qed.

Lemma concat_nil_nonempty (cs : list (list N)) : Forall (fun c => c <> []) cs -> concat cs = [] -> cs = [].
Proof. destruct cs as [|c cs]; [reflexivity|]. intros H E. inversion H; subst. cbn in E. destruct c; [congruence|discriminate]. Qed.

(* (1) the slow machine: the result depends only on the concatenation of the chunks *)
Theorem slow_chunk_indep st cs1 cs2 x1 x2 :
  Forall (fun c => c <> []) cs1 -> Forall (fun c => c <> []) cs2 -> concat cs1 = concat cs2 -> b_eof st = false ->
  Eval false st cs1 x1 -> Eval false st cs2 x2 -> xsim x1 x2.
Proof.
  intros H1 H2 Hc He E1 E2.
  destruct cs1 as [|a1 r1].
  - cbn in Hc. symmetry in Hc. apply (concat_nil_nonempty _ H2) in Hc. subst cs2.
    rewrite (Eval_det _ _ _ _ E1 _ E2). apply xsim_refl.
  - destruct cs2 as [|a2 r2].
    + apply (concat_nil_nonempty _ H1) in Hc. discriminate.
    + destruct (Eval_concat _ (a1 :: r1) st x1 (le_n _) ltac:(discriminate) H1 He E1) as (y1 & Ey1 & S1).
      destruct (Eval_concat _ (a2 :: r2) st x2 (le_n _) ltac:(discriminate) H2 He E2) as (y2 & Ey2 & S2).
      rewrite Hc in Ey1. rewrite (Eval_det _ _ _ _ Ey1 _ Ey2) in S1.
      eapply xsim_trans; [exact S1|apply xsim_sym; exact S2].
Qed.
