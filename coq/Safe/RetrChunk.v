(* C09, retrieve(): CHUNK INDEPENDENCE of the statement-level model (Safe/RetrModel.v), structural part.

   Nothing here looks inside the format.  Two facts about the control-flow graph:
   (1) [merge_up]: for the machine with the fast path switched off, suspending at a NEED because the chunk is
       exhausted and resuming with the next chunk is the same as having both chunks at once;
   (2) [fast_to_slow]: a group decoded on the fast path (locals, NEED_FAST) is the same as the same group decoded
       on the slow path (rs->j, rs->run, ..., NEED), unless NEED_FAST reads past the end of the chunk ([FInput];
       excluded by the counting argument of Safe/RetrSafe.v).
   Results are compared by [rsim]: for OK the observable part of the state (tt, block size, origin pointer,
   randomised flag, ftab, the saved bit buffer and the words not consumed), for an error its code.
   Fuel: everything is stated for runs that do not end in [RFault FFuel]; Safe/RetrSafe.v shows that the fuel
   [call_fuel] of [retrieve] always suffices. *)
From Coq Require Import List NArith Arith Bool Lia.
From LBZ Require Import Gen.Consts Gen.DecTabs Safe.TreeModel Safe.RetrModel.
Import ListNotations.
Local Open Scope N_scope.

(* ---- the slow machine does not look at next/limit between two NEEDs ------------------------------------ *)
Definition sstep (p : pc) (c : core) : bres := fst (step false p c []).

Lemma step_false p c nx : step false p c nx = (sstep p c, nx).
Proof.
  unfold sstep. destruct p as [s| |]; cbn [step fst]; try reflexivity.
  unfold group_head. destruct (group_select c); reflexivity.
Qed.

Definition after (b : bres) (st : rstate) : out :=
  match b with
  | BGo p' c => Running p' (with_core st c)
  | BNeed s c =>
      match need_at s (with_core st c) with
      | NGo st' => Running (After s) st'
      | NRet r => Final r
      end
  | BRet code c => Final (RErr code (with_core st c))
  | BEob c => Final (finish (with_core st c))
  | BFault fl => Final (RFault fl)
  end.

Lemma with_next_id st : with_next st (l_next st) = st.
Proof. destruct st; reflexivity. Qed.

Lemma onestep_after b p st :
  onestep b p st = after (fst (step b p (s_core st) (l_next st))) (with_next st (snd (step b p (s_core st) (l_next st)))).
Proof. unfold onestep. destruct (step b p (s_core st) (l_next st)) as [r nx]. reflexivity. Qed.

Lemma onestep_false p st : onestep false p st = after (sstep p (s_core st)) st.
Proof. rewrite onestep_after, step_false. cbn [fst snd]. rewrite with_next_id. reflexivity. Qed.

Definition cont (b : bool) (m : nat) (o : out) : cres :=
  match o with Running p st => run_from b m p st | Final r => r end.

Lemma run_from_S b m p st : run_from b (S m) p st = cont b m (onestep b p st).
Proof. reflexivity. Qed.

(* ---- fuel ------------------------------------------------------------------------------------------------ *)
Lemma run_from_mono b : forall n p st r, run_from b n p st = r -> r <> RFault FFuel ->
  forall m, (n <= m)%nat -> run_from b m p st = r.
Proof.
  induction n as [|n IH]; intros p st r H Hr m Hm.
  - cbn in H. congruence.
  - destruct m as [|m]; [lia|]. rewrite run_from_S in *. destruct (onestep b p st) as [p' st'|r']; cbn [cont] in *.
    + apply (IH p' st' r H Hr). lia.
    + exact H.
Qed.

Lemma retrieve_f_mono b : forall n st r, retrieve_f n b st = r -> r <> RFault FFuel ->
  forall m, (n <= m)%nat -> retrieve_f m b st = r.
Proof.
  intros n st r H Hr m Hm. unfold retrieve_f in *.
  destruct (s_state (restore st) =? S_INIT).
  - destruct (need_at S_bwt_idx (restore st)); [|exact H]. eapply run_from_mono; eassumption.
  - destruct (site_of_state (s_state (restore st))); [|exact H].
    destruct (b_data (restore st)); [exact H|].
    destruct (c_w (s_core (restore (restore st))) <? 32); [|exact H].
    destruct (load (s_core (restore (restore st))) n0); [|exact H].
    eapply run_from_mono; eassumption.
Qed.

(* ---- comparing results ---------------------------------------------------------------------------------------- *)
Definition obs_core (c : core) := (c_v c, c_w c, c_ttp c, c_tt c, d_rand c, d_bwt_idx c, d_ftab c).

(* [b]: words the second run still has in its chunk beyond those of the first *)
Definition rsim (b : list N) (r1 r2 : cres) : Prop :=
  match r1, r2 with
  | ROk C, ROk M =>
      obs_core (s_core C) = obs_core (s_core M) /\ b_live C = b_live M /\ b_buff C = b_buff M /\
      d_block_size C = d_block_size M /\ b_data M = b_data C ++ b
  | RErr c1 _, RErr c2 _ => c1 = c2
  | RMore C, RMore M => C = M /\ b = []
  | RFault f1, RFault f2 => f1 = f2
  | _, _ => False
  end.

Lemma rsim_refl r : rsim [] r r.
Proof. destruct r; cbn; auto. rewrite app_nil_r. auto. Qed.

Lemma rsim_trans b r1 r2 r3 : rsim [] r1 r2 -> rsim b r2 r3 -> rsim b r1 r3.
Proof.
  destruct r1, r2, r3; cbn; try tauto; try congruence.
  - intros [-> _] H. exact H.
  - intros (A & B & C & D & E) (A' & B' & C' & D' & E'). rewrite app_nil_r in E.
    repeat split; congruence.
Qed.

Lemma rsim_trans_r b r1 r2 r3 : rsim b r1 r2 -> rsim [] r2 r3 -> rsim b r1 r3.
Proof.
  destruct r1, r2, r3; cbn; try tauto; try congruence.
  - intros [-> ->] [-> _]. auto.
  - intros (A & B & C & D & E) (A' & B' & C' & D' & E'). rewrite app_nil_r in E'.
    repeat split; congruence.
Qed.

Lemma rsim_sym r1 r2 : rsim [] r1 r2 -> rsim [] r2 r1.
Proof.
  destruct r1, r2; cbn; try tauto; try congruence.
  - intros [-> _]. auto.
  - intros (A & B & C & D & E). rewrite app_nil_r in *. repeat split; congruence.
Qed.

Lemma rsim_fuel b r1 r2 : rsim b r1 r2 -> r1 <> RFault FFuel -> r2 <> RFault FFuel.
Proof. destruct r1, r2; cbn; try tauto; try congruence. Qed.

(* same core, the second state has [b] more words in its chunk; the saved fields do not matter (SAVE()
   overwrites them before anything reads them), bs->eof does *)
Definition csim (b : list N) (C M : rstate) : Prop :=
  s_core C = s_core M /\ l_next M = l_next C ++ b /\ b_eof C = b_eof M.

Lemma state_no_not_init s : (state_no s =? S_INIT) = false.
Proof. destruct s; reflexivity. Qed.

Lemma site_of_state_no s : site_of_state (state_no s) = Some s.
Proof. destruct s; reflexivity. Qed.

Lemma restore_save_core c :
  set_c_ttp (set_c_w (set_c_v c (c_v c)) (c_w c)) (c_ttp c) = c.
Proof. destruct c; reflexivity. Qed.

(* one pass of the slow machine on related states *)
Lemma after_csim b r C M : csim b C M -> (b <> [] -> b_eof C = false) ->
  match after r C with
  | Running p' C' => exists M', after r M = Running p' M' /\ csim b C' M'
  | Final rC =>
      (exists rM, after r M = Final rM /\ rsim b rC rM) \/
      (exists s c, r = BNeed s c /\ (c_w c <? 32) = true /\ l_next C = [] /\ b <> [] /\
                   rC = RMore (with_state (save (with_core C c)) (state_no s)))
  end.
Proof.
  intros (Hc & Hn & He) Heof. destruct r as [p' c|s c|code c|c|fl]; cbn [after].
  - exists (with_core M c). split; [reflexivity|]. repeat split; cbn; auto.
  - unfold need_at. cbn [s_core with_core l_next].
    destruct (c_w c <? 32) eqn:Ew.
    + destruct (l_next C) as [|x r] eqn:EC.
      * (* the chunk of C is exhausted *)
        cbn [save with_core b_eof s_core l_next].
        destruct (b_eof C) eqn:EE.
        -- left. destruct b as [|y b']; [|specialize (Heof ltac:(discriminate)); discriminate].
           rewrite Hn. cbn [app]. cbn [save with_core b_eof s_core l_next]. rewrite <- He.
           eexists. split; [reflexivity|]. cbn. reflexivity.
        -- destruct b as [|y b'].
           ++ left. rewrite Hn. cbn [app]. cbn [save with_core b_eof s_core l_next]. rewrite <- He.
              eexists. split; [reflexivity|]. cbn. split; [|reflexivity].
              unfold with_state, save, with_core. cbn. rewrite Hn. cbn. rewrite <- He, EC, EE. reflexivity.
           ++ right. exists s, c. repeat split; auto. discriminate.
      * rewrite Hn. cbn [app]. destruct (load c x) as [c'|f].
        -- eexists. split; [reflexivity|]. repeat split; cbn; auto.
        -- left. eexists. split; [reflexivity|]. cbn. reflexivity.
    + eexists. split; [reflexivity|]. repeat split; cbn; auto.
  - left. eexists. split; [reflexivity|]. cbn. reflexivity.
  - left. eexists. split; [reflexivity|]. unfold finish. cbn [save with_core s_core d_block_size].
    destruct (c_ttp c =? 0); [cbn; reflexivity|].
    destruct (c_ttp c <=? d_bwt_idx c); [cbn; reflexivity|].
    cbn. repeat split; auto.
  - left. eexists. split; [reflexivity|]. cbn. reflexivity.
Qed.

Lemma after_eof r st : match after r st with Running _ st' => b_eof st' = b_eof st | Final _ => True end.
Proof.
  destruct r; cbn [after]; auto. unfold need_at. cbn [s_core with_core l_next].
  destruct (c_w c <? 32); auto. destruct (l_next st); [destruct (b_eof (save (with_core st c))); auto|].
  destruct (load c n); auto.
Qed.

(* identical chunks: identical runs *)
Lemma run_eq : forall n p C M, csim [] C M -> rsim [] (run_from false n p C) (run_from false n p M).
Proof.
  induction n as [|n IH]; intros p C M H; [cbn; reflexivity|].
  rewrite !run_from_S, !onestep_false. destruct H as (Hc & Hn & He).
  pose proof (after_csim [] (sstep p (s_core C)) C M (conj Hc (conj Hn He)) ltac:(congruence)) as A.
  rewrite <- Hc. destruct (after (sstep p (s_core C)) C) as [p' C'|rC].
  - destruct A as (M' & -> & HS). cbn [cont]. apply IH. exact HS.
  - destruct A as [(rM & -> & HR)|(s & c & _ & _ & _ & Hb & _)]; [exact HR|congruence].
Qed.

(* ---- one call ------------------------------------------------------------------------------------------------- *)
Inductive ent := EGo (p : pc) (st : rstate) | EStop (r : cres).

(* the prologue of retrieve(): RESTORE(), switch (rs->state), the resume part of NEED(s) *)
Definition enter (st : rstate) : ent :=
  let st := restore st in
  if s_state st =? S_INIT then
    match need_at S_bwt_idx st with
    | NGo st' => EGo A_BWT_IDX st'
    | NRet r => EStop r
    end
  else
    match site_of_state (s_state st) with
    | None => EStop (RFault FAbort)
    | Some s =>
        match b_data st with
        | [] => EStop (if b_eof st then RErr E_ERR_EOF st else RFault (FAssert 1))
        | x :: r =>
            let st := restore st in
            if c_w (s_core st) <? 32 then
              match load (s_core st) x with
              | XV c' => EGo (After s) (with_next (with_core st c') r)
              | XF f => EStop (RFault f)
              end
            else EStop (RFault (FAssert 2))
        end
    end.

Lemma retrieve_f_enter n b st :
  retrieve_f n b st = match enter st with EGo p s => run_from b n p s | EStop r => r end.
Proof.
  unfold retrieve_f, enter. destruct (s_state (restore st) =? S_INIT).
  - destruct (need_at S_bwt_idx (restore st)); reflexivity.
  - destruct (site_of_state (s_state (restore st))); [|reflexivity].
    destruct (b_data (restore st)); [destruct (b_eof (restore st)); reflexivity|].
    destruct (c_w (s_core (restore (restore st))) <? 32); [|reflexivity].
    destruct (load (s_core (restore (restore st))) n0); reflexivity.
Qed.

Ltac rs_simpl := cbn [s_core l_next s_state b_live b_buff b_data b_eof d_block_size with_core with_next with_state save restore attach attach_eof
                      c_v c_w c_ttp set_c_v set_c_w set_c_ttp].

(* resuming where NEED(s) suspended *)
Lemma resume_enter C c s y b' : (c_w c <? 32) = true ->
  enter (attach (with_state (save (with_core C c)) (state_no s)) (y :: b')) =
  match load c y with
  | XV c' => EGo (After s) (mk_rstate c' b' (state_no s) (c_w c) (c_v c) (y :: b') (b_eof C) (c_ttp c))
  | XF f => EStop (RFault f)
  end.
Proof.
  intro Ew. unfold enter. rs_simpl. rewrite state_no_not_init, site_of_state_no. rs_simpl.
  rewrite !restore_save_core. rewrite Ew. destruct (load c y); reflexivity.
Qed.

(* (1) the chunked run (suspended at most once here) against the run that has both chunks at once *)
Lemma run_merge : forall n p C M b rC, csim b C M -> b <> [] -> b_eof C = false ->
  run_from false n p C = rC -> rC <> RFault FFuel ->
  match rC with
  | RMore C' => forall n2 r2, retrieve_f n2 false (attach C' b) = r2 -> r2 <> RFault FFuel ->
                  exists m rM, run_from false m p M = rM /\ rsim [] r2 rM
  | _ => exists m rM, run_from false m p M = rM /\ rsim b rC rM
  end.
Proof.
  induction n as [|n IH]; intros p C M b rC HS Hb Heof HC HF; [cbn in HC; congruence|].
  rewrite run_from_S, onestep_false in HC.
  pose proof (after_csim b (sstep p (s_core C)) C M HS (fun _ => Heof)) as A.
  pose proof (after_eof (sstep p (s_core C)) C) as E.
  assert (Hcore : s_core C = s_core M) by (destruct HS; assumption).
  destruct (after (sstep p (s_core C)) C) as [p' C'|rC0] eqn:EA; cbn [cont] in HC.
  - destruct A as (M' & AM & HS').
    specialize (IH p' C' M' b rC HS' Hb ltac:(congruence) HC HF).
    destruct rC as [C''| | |].
    + intros n2 r2 H2 HF2. destruct (IH n2 r2 H2 HF2) as (m & rM & Hm & Hr).
      exists (S m), rM. split; [|exact Hr]. rewrite run_from_S, onestep_false, <- Hcore, AM. exact Hm.
    + destruct IH as (m & rM & Hm & Hr). exists (S m), rM. split; [|exact Hr].
      rewrite run_from_S, onestep_false, <- Hcore, AM. exact Hm.
    + destruct IH as (m & rM & Hm & Hr). exists (S m), rM. split; [|exact Hr].
      rewrite run_from_S, onestep_false, <- Hcore, AM. exact Hm.
    + destruct IH as (m & rM & Hm & Hr). exists (S m), rM. split; [|exact Hr].
      rewrite run_from_S, onestep_false, <- Hcore, AM. exact Hm.
  - subst rC0. destruct A as [(rM & AM & HR)|(s & c & Er & Ew & EC & _ & ->)].
    + assert (G : exists m rM', run_from false m p M = rM' /\ rsim b rC rM').
      { exists 1%nat, rM. split; [|exact HR]. rewrite run_from_S, onestep_false, <- Hcore, AM. reflexivity. }
      destruct rC; try exact G.
      destruct rM; cbn in HR; tauto.
    + (* C is suspended, M goes on *)
      intros n2 r2 H2 HF2. destruct HS as (_ & Hn & He). rewrite EC in Hn. cbn [app] in Hn.
      destruct b as [|y b']; [congruence|].
      rewrite retrieve_f_enter, (resume_enter C c s y b' Ew) in H2.
      destruct (load c y) as [c'|f] eqn:EL.
      * (* both go on from the same core *)
        match type of H2 with run_from false n2 ?pp ?X = _ =>
          pose proof (run_eq n2 pp X (with_next (with_core (with_core M c) c') b')) as RE end.
        exists (S n2). eexists. split.
        -- rewrite run_from_S, onestep_false, <- Hcore, Er. cbn [after]. unfold need_at.
           cbn [s_core with_core l_next]. rewrite Ew, Hn, EL. cbn [cont]. reflexivity.
        -- rewrite <- H2. apply RE. repeat split; cbn; auto. rewrite app_nil_r. reflexivity.
      * exists 1%nat. eexists. split.
        -- rewrite run_from_S, onestep_false, <- Hcore, Er. cbn [after]. unfold need_at.
           cbn [s_core with_core l_next]. rewrite Ew, Hn, EL. cbn [cont]. reflexivity.
        -- subst r2. cbn. reflexivity.
Qed.

Lemma enter_merge st a b : a <> [] ->
  match enter (attach st a) with
  | EGo p C => exists M, enter (attach st (a ++ b)) = EGo p M /\ csim b C M /\ b_eof C = b_eof st
  | EStop r => enter (attach st (a ++ b)) = EStop r
  end.
Proof.
  intro Ha. destruct a as [|x a']; [congruence|]. destruct st as [c nx s bl bb d e bs].
  unfold enter, need_at, csim. rs_simpl. cbn [app].
  destruct (s =? S_INIT).
  - destruct (bl <? 32).
    + match goal with |- context [load ?c x] => destruct (load c x) as [c'|f] end; [|reflexivity].
      eexists. split; [reflexivity|]. cbn. repeat split; reflexivity.
    + eexists. split; [reflexivity|]. cbn. repeat split; reflexivity.
  - destruct (site_of_state s); [|reflexivity].
    destruct (bl <? 32); [|reflexivity].
    match goal with |- context [load ?c x] => destruct (load c x) as [c'|f] end; [|reflexivity].
    eexists. split; [reflexivity|]. cbn. repeat split; reflexivity.
Qed.

(* a call that does not run out of fuel *)
Definition Ret (b : bool) (st : rstate) (r : cres) : Prop :=
  exists n, retrieve_f n b st = r /\ r <> RFault FFuel.

Lemma Ret_det b st r1 r2 : Ret b st r1 -> Ret b st r2 -> r1 = r2.
Proof.
  intros (n1 & H1 & F1) (n2 & H2 & F2).
  rewrite <- (retrieve_f_mono b n1 st r1 H1 F1 (max n1 n2) ltac:(lia)).
  rewrite <- (retrieve_f_mono b n2 st r2 H2 F2 (max n1 n2) ltac:(lia)). reflexivity.
Qed.

(* bs->eof is not touched by retrieve() *)
Lemma need_at_eof s st : match need_at s st with
                         | NGo st' => b_eof st' = b_eof st
                         | NRet (RMore st') => b_eof st' = b_eof st
                         | NRet _ => True
                         end.
Proof.
  unfold need_at. destruct (c_w (s_core st) <? 32); [|reflexivity].
  destruct (l_next st).
  - cbn [save b_eof]. destruct (b_eof st) eqn:E; cbn; auto.
  - destruct (load (s_core st) n); cbn; auto.
Qed.

Lemma after_more r st st' : after r st = Final (RMore st') -> b_eof st' = b_eof st.
Proof.
  destruct r; cbn [after]; try discriminate.
  - pose proof (need_at_eof s (with_core st c)) as E. destruct (need_at s (with_core st c)); [discriminate|].
    intro H. injection H as ->. exact E.
  - unfold finish. destruct (_ =? 0); [discriminate|]. destruct (_ <=? _); discriminate.
Qed.

Lemma run_from_more b : forall n p st st', run_from b n p st = RMore st' -> b_eof st' = b_eof st.
Proof.
  induction n as [|n IH]; intros p st st' H; [discriminate|].
  rewrite run_from_S, onestep_after in H.
  set (r := fst (step b p (s_core st) (l_next st))) in *. set (nx := snd (step b p (s_core st) (l_next st))) in *.
  pose proof (after_eof r (with_next st nx)) as E. pose proof (after_more r (with_next st nx)) as F.
  destruct (after r (with_next st nx)) as [p' s'|r']; cbn [cont] in H.
  - rewrite (IH _ _ _ H). exact E.
  - subst r'. exact (F st' eq_refl).
Qed.

Lemma retrieve_f_more b n st st' : retrieve_f n b st = RMore st' -> b_eof st' = b_eof st.
Proof.
  rewrite retrieve_f_enter. unfold enter.
  destruct (s_state (restore st) =? S_INIT).
  - pose proof (need_at_eof S_bwt_idx (restore st)) as E.
    destruct (need_at S_bwt_idx (restore st)) as [s'|r].
    + intro H. rewrite (run_from_more _ _ _ _ _ H). exact E.
    + intro H. subst r. exact E.
  - destruct (site_of_state (s_state (restore st))); [|discriminate].
    destruct (b_data (restore st)); [destruct (b_eof (restore st)); discriminate|].
    destruct (c_w _ <? 32); [|discriminate].
    destruct (load _ n0); [|discriminate].
    intro H. rewrite (run_from_more _ _ _ _ _ H). reflexivity.
Qed.

(* two chunks against their concatenation *)
Lemma retrieve_merge st a b rC : a <> [] -> b <> [] -> b_eof st = false ->
  Ret false (attach st a) rC ->
  match rC with
  | RMore C' => forall r2, Ret false (attach C' b) r2 -> exists rM, Ret false (attach st (a ++ b)) rM /\ rsim [] r2 rM
  | _ => exists rM, Ret false (attach st (a ++ b)) rM /\ rsim b rC rM
  end.
Proof.
  intros Ha Hb He (n & HC & HF). rewrite retrieve_f_enter in HC.
  pose proof (enter_merge st a b Ha) as EM.
  destruct (enter (attach st a)) as [p C|r].
  - destruct EM as (M & EM & HS & HeC).
    pose proof (run_merge n p C M b rC HS Hb (eq_trans HeC He) HC HF) as RM.
    destruct rC as [C'| | |].
    + intros r2 (n2 & H2 & F2). destruct (RM n2 r2 H2 F2) as (m & rM & Hm & Hr).
      exists rM. split; [|exact Hr]. exists m. rewrite retrieve_f_enter, EM. split; [exact Hm|].
      intro X. rewrite X in Hr. destruct r2 as [?|?|? ?|f2]; cbn in Hr; try tauto. subst f2. exact (F2 eq_refl).
    + destruct RM as (m & rM & Hm & Hr). exists rM. split; [|exact Hr]. exists m.
      rewrite retrieve_f_enter, EM. split; [exact Hm|]. eapply rsim_fuel; eassumption.
    + destruct RM as (m & rM & Hm & Hr). exists rM. split; [|exact Hr]. exists m.
      rewrite retrieve_f_enter, EM. split; [exact Hm|]. eapply rsim_fuel; eassumption.
    + destruct RM as (m & rM & Hm & Hr). exists rM. split; [|exact Hr]. exists m.
      rewrite retrieve_f_enter, EM. split; [exact Hm|]. eapply rsim_fuel; eassumption.
  - subst r.
    assert (G : exists rM, Ret false (attach st (a ++ b)) rM /\ rsim b rC rM).
    { exists rC. split; [exists n; rewrite retrieve_f_enter, EM; auto|].
      (* a stop in the prologue is a fault *)
      clear - Ha EM. destruct a as [|x a']; [congruence|]. destruct st as [c nx s bl bb d e bs].
      unfold enter, restore, attach, need_at, with_next, with_core in EM. cbn in EM.
      destruct (s =? S_INIT).
      - destruct (bl <? 32); [|discriminate].
        match type of EM with context [load ?c x] => destruct (load c x) as [c'|f] end; [discriminate|].
        injection EM as <-. cbn. reflexivity.
      - destruct (site_of_state s); [|injection EM as <-; cbn; reflexivity].
        destruct (bl <? 32); [|injection EM as <-; cbn; reflexivity].
        match type of EM with context [load ?c x] => destruct (load c x) as [c'|f] end; [discriminate|].
        injection EM as <-. cbn. reflexivity. }
    destruct rC; try exact G.
    destruct G as (rM & _ & HR). destruct rM; cbn in HR; tauto.
Qed.

(* ---- a list of chunks, then end of input ------------------------------------------------------------------------ *)
Definition is_more (r : cres) : bool := match r with RMore _ => true | _ => false end.

Inductive Eval (b : bool) : rstate -> list (list N) -> cres * list (list N) -> Prop :=
| Ev_nil_stop st r : Ret b (attach_eof st) r -> is_more r = false -> Eval b st [] (r, [])
| Ev_nil_more st st' r : Ret b (attach_eof st) (RMore st') -> Ret b (attach_eof st') r -> Eval b st [] (r, [])
| Ev_stop st ch rest r : Ret b (attach st ch) r -> is_more r = false -> Eval b st (ch :: rest) (r, rest)
| Ev_more st ch rest st' x : Ret b (attach st ch) (RMore st') -> Eval b st' rest x -> Eval b st (ch :: rest) x.

Lemma Eval_det b st cs x : Eval b st cs x -> forall y, Eval b st cs y -> x = y.
Proof.
  induction 1 as [st r H Hm|st st' r H H'|st ch rest r H Hm|st ch rest st' x H E IH]; intros y Hy; inversion Hy; subst;
    repeat match goal with
    | H1 : Ret ?bb ?s ?r1, H2 : Ret ?bb ?s ?r2 |- _ =>
        let X := fresh "X" in pose proof (Ret_det _ _ _ _ H1 H2) as X; clear H2;
        first [discriminate X | injection X as <- | subst r2 | subst r1]
    end; try reflexivity; try discriminate; auto.
Qed.

(* the executable driver, when it does not run out of fuel, is an evaluation *)
Lemma retr_chunks_Eval fu b : forall cs st x, retr_chunks_f fu b st cs = x -> fst x <> RFault FFuel -> Eval b st cs x.
Proof.
  induction cs as [|ch rest IH]; intros st x H HF; cbn [retr_chunks_f] in H.
  - destruct (retrieve_f (fu (attach_eof st)) b (attach_eof st)) as [st'| | |] eqn:E1.
    + subst x. cbn [fst] in HF. eapply Ev_nil_more; [exists (fu (attach_eof st)); split; [exact E1|discriminate]|].
      eexists. split; [reflexivity|exact HF].
    + subst x. apply Ev_nil_stop; [|reflexivity]. eexists. split; [exact E1|exact HF].
    + subst x. apply Ev_nil_stop; [|reflexivity]. eexists. split; [exact E1|exact HF].
    + subst x. apply Ev_nil_stop; [|reflexivity]. eexists. split; [exact E1|exact HF].
  - destruct (retrieve_f (fu (attach st ch)) b (attach st ch)) as [st'| | |] eqn:E1.
    + eapply Ev_more; [exists (fu (attach st ch)); split; [exact E1|discriminate]|]. apply IH; assumption.
    + subst x. apply Ev_stop; [|reflexivity]. eexists. split; [exact E1|exact HF].
    + subst x. apply Ev_stop; [|reflexivity]. eexists. split; [exact E1|exact HF].
    + subst x. apply Ev_stop; [|reflexivity]. eexists. split; [exact E1|exact HF].
Qed.

(* results of two chunkings: the words not consumed are what is left of the chunk plus the chunks never attached *)
Definition xsim (x y : cres * list (list N)) : Prop :=
  match fst x, fst y with
  | ROk C, ROk M =>
      obs_core (s_core C) = obs_core (s_core M) /\ b_live C = b_live M /\ b_buff C = b_buff M /\
      d_block_size C = d_block_size M /\ b_data C ++ concat (snd x) = b_data M ++ concat (snd y)
  | RErr c1 _, RErr c2 _ => c1 = c2
  | RMore C, RMore M => C = M
  | RFault f1, RFault f2 => f1 = f2
  | _, _ => False
  end.

Lemma xsim_refl x : xsim x x.
Proof. destruct x as [[| | |] lo]; cbn; auto. Qed.

Lemma xsim_sym x y : xsim x y -> xsim y x.
Proof. destruct x as [[| | |] lo], y as [[| | |] lo']; cbn; try tauto; try congruence. intros (A & B & C & D & E). repeat split; congruence. Qed.

Lemma xsim_trans x y z : xsim x y -> xsim y z -> xsim x z.
Proof.
  destruct x as [[| | |] lo], y as [[| | |] lo'], z as [[| | |] lo'']; cbn; try tauto; try congruence.
  intros (A & B & C & D & E) (A' & B' & C' & D' & E'). repeat split; congruence.
Qed.

Lemma rsim_xsim b r1 r2 lo : rsim b r1 r2 -> xsim (r1, b :: lo) (r2, lo).
Proof.
  destruct r1, r2; cbn; try tauto.
  intros (A & B & C & D & E). repeat split; auto. rewrite E, app_assoc. reflexivity.
Qed.

Lemma rsim_nil_xsim r1 r2 lo : rsim [] r1 r2 -> xsim (r1, lo) (r2, lo).
Proof.
  destruct r1, r2; cbn; try tauto.
  intros (A & B & C & D & E). rewrite app_nil_r in E. repeat split; auto. congruence.
Qed.

Lemma rsim_more b r1 r2 : rsim b r1 r2 -> is_more r1 = is_more r2.
Proof. destruct r1, r2; cbn; tauto. Qed.

(* the first two chunks merged *)
Lemma Eval_merge2 st a b rest x : a <> [] -> b <> [] -> b_eof st = false ->
  Eval false st (a :: b :: rest) x -> exists y, Eval false st ((a ++ b) :: rest) y /\ xsim x y.
Proof.
  intros Ha Hb He E. inversion E as [| |st0 ch rest0 r H Hm|st0 ch rest0 st' x0 H E']; subst.
  - (* the block ends in the first chunk *)
    pose proof (retrieve_merge st a b r Ha Hb He H) as RM.
    assert (G : exists rM, Ret false (attach st (a ++ b)) rM /\ rsim b r rM) by (destruct r; try exact RM; discriminate).
    destruct G as (rM & HR & HS). exists (rM, rest). split; [|apply rsim_xsim; exact HS].
    apply Ev_stop; [exact HR|]. rewrite <- (rsim_more _ _ _ HS). exact Hm.
  - pose proof (retrieve_merge st a b (RMore st') Ha Hb He H) as RM. cbn in RM.
    inversion E' as [| |st1 ch1 rest1 r H2 Hm2|st1 ch1 rest1 st'' x1 H2 E'']; subst.
    + destruct (RM r H2) as (rM & HR & HS). exists (rM, rest). split; [|apply rsim_nil_xsim; exact HS].
      apply Ev_stop; [exact HR|]. rewrite <- (rsim_more _ _ _ HS). exact Hm2.
    + destruct (RM (RMore st'') H2) as (rM & HR & HS). destruct rM as [M| | |]; cbn in HS; try tauto.
      destruct HS as [<- _]. exists x. split; [|apply xsim_refl]. eapply Ev_more; eassumption.
Qed.

Lemma Eval_more_eof b st ch st' : Ret b (attach st ch) (RMore st') -> b_eof st' = b_eof st.
Proof. intros (n & H & _). apply retrieve_f_more in H. exact H. Qed.

(* any chunking against the single chunk *)
Lemma Eval_concat : forall n cs st x, (length cs <= n)%nat -> cs <> [] -> Forall (fun c => c <> []) cs -> b_eof st = false ->
  Eval false st cs x -> exists y, Eval false st [concat cs] y /\ xsim x y.
Proof.
  induction n as [|n IH]; intros cs st x Hl Hne Hall He E.
  - destruct cs; [congruence|cbn in Hl; lia].
  - destruct cs as [|a [|b rest]]; [congruence| |].
    + cbn [concat]. rewrite app_nil_r. exists x. split; [exact E|apply xsim_refl].
    + inversion Hall as [|? ? Ha Hall']; subst. inversion Hall' as [|? ? Hb Hall'']; subst.
      destruct (Eval_merge2 st a b rest x Ha Hb He E) as (y & Ey & Sy).
      destruct (IH ((a ++ b) :: rest) st y) as (z & Ez & Sz); auto.
      * cbn [length] in *. lia.
      * discriminate.
      * constructor; [|exact Hall'']. destruct a; [congruence|discriminate].
      * exists z. split; [|eapply xsim_trans; eassumption].
        cbn [concat] in *. rewrite <- app_assoc in Ez. exact Ez.
Qed.

Lemma concat_nil_nonempty (cs : list (list N)) : Forall (fun c => c <> []) cs -> concat cs = [] -> cs = [].
Proof. destruct cs as [|c cs]; [reflexivity|]. intros H E. inversion H; subst. cbn in E. destruct c; [congruence|discriminate]. Qed.

(* (1) the slow machine: the result depends only on the concatenation of the chunks *)
Theorem slow_chunk_indep st cs1 cs2 x1 x2 :
  Forall (fun c => c <> []) cs1 -> Forall (fun c => c <> []) cs2 -> concat cs1 = concat cs2 -> b_eof st = false ->
  Eval false st cs1 x1 -> Eval false st cs2 x2 -> xsim x1 x2.
Proof.
  intros H1 H2 Hc He E1 E2.
  destruct cs1 as [|a1 r1].
  - cbn in Hc. symmetry in Hc. apply (concat_nil_nonempty _ H2) in Hc. subst cs2.
    rewrite (Eval_det _ _ _ _ E1 _ E2). apply xsim_refl.
  - destruct cs2 as [|a2 r2].
    + apply (concat_nil_nonempty _ H1) in Hc. discriminate.
    + destruct (Eval_concat _ (a1 :: r1) st x1 (le_n _) ltac:(discriminate) H1 He E1) as (y1 & Ey1 & S1).
      destruct (Eval_concat _ (a2 :: r2) st x2 (le_n _) ltac:(discriminate) H2 He E2) as (y2 & Ey2 & S2).
      rewrite Hc in Ey1. rewrite (Eval_det _ _ _ _ Ey1 _ Ey2) in S1.
      eapply xsim_trans; [exact S1|apply xsim_sym; exact S2].
Qed.

(* ================================================================================================================ *)
(* (2) fast path = slow path                                                                                       *)
(* ================================================================================================================ *)
Ltac rec_simpl := cbn [c_v c_w c_ttp c_tt d_rand d_bwt_idx d_ftab r_selector r_num_trees r_num_selectors r_alpha_size
                       r_code_len r_mtf r_tree r_big r_small r_j r_t r_g r_slide r_runChar r_run r_shift
                       set_c_v set_c_w set_c_ttp set_c_tt set_d_rand set_d_bwt_idx set_d_ftab set_r_selector set_r_num_trees
                       set_r_num_selectors set_r_alpha_size set_r_code_len set_r_mtf set_r_tree set_r_big set_r_small set_r_j
                       set_r_t set_r_g set_r_slide set_r_runChar set_r_run set_r_shift].

Ltac dcore c := destruct c as [?xv ?xw ?xttp ?xtt ?xrand ?xidx ?xftab ?xsel ?xnt ?xns ?xasz ?xcl ?xmtf ?xtree ?xbig ?xsmall ?xj ?xt ?xg ?xslide ?xrc ?xrun ?xsh].

(* the state of the slow path that corresponds to the fast path's locals run, runChar, shift, j *)
Definition cS (c : core) (run rc sh j : N) : core := set_r_j (set_r_shift (set_r_runChar (set_r_run c run) rc) sh) j.

Lemma cS_vw c run rc sh j v w : set_c_w (set_c_v (cS c run rc sh j) v) w = cS (set_c_w (set_c_v c v) w) run rc sh j.
Proof. destruct c; reflexivity. Qed.
Lemma cS_acc c run rc sh j run' sh' j' : set_r_j (set_r_shift (set_r_run (cS c run rc sh j) run') sh') j' = cS c run' rc sh' j'.
Proof. destruct c; reflexivity. Qed.
Lemma cS_sym c run rc sh j u sl x j' :
  set_r_j (set_r_run (set_r_shift (set_r_runChar (set_r_slide (set_r_run (cS c run rc sh j) u) sl) x) 0) 1) j' = cS (set_r_slide c sl) 1 x 0 j'.
Proof. destruct c; reflexivity. Qed.
Lemma cS_self c : cS c (r_run c) (r_runChar c) (r_shift c) (r_j c) = c.
Proof. destruct c; reflexivity. Qed.
Lemma cS_j c run rc sh j j' : set_r_j (cS c run rc sh j) j' = cS c run rc sh j'.
Proof. destruct c; reflexivity. Qed.
Lemma cS_g c run rc sh j g : set_r_g (cS c run rc sh j) g = cS (set_r_g c g) run rc sh j.
Proof. destruct c; reflexivity. Qed.

Definition mapX {A B} (f : A -> B) (x : X A) : X B := match x with XV a => XV (f a) | XF e => XF e end.

Lemma load_cS c run rc sh j x : load (cS c run rc sh j) x = mapX (fun c' => cS c' run rc sh j) (load c x).
Proof. unfold load. destruct c. cbn. destruct (shl64 _ _); reflexivity. Qed.

Lemma tt_push_cS ch run rc sh j (xc : X core) :
  tt_push ch (mapX (fun c' => cS c' run rc sh j) xc) = mapX (fun c' => cS c' run rc sh j) (tt_push ch xc).
Proof. destruct xc as [c|f]; [|reflexivity]. destruct c. cbn. destruct (_ <? _); reflexivity. Qed.

Lemma iter_push_cS ch run rc sh j n (xc : X core) :
  N.iter n (tt_push ch) (mapX (fun c' => cS c' run rc sh j) xc) = mapX (fun c' => cS c' run rc sh j) (N.iter n (tt_push ch) xc).
Proof.
  induction n as [|n IH] using N.peano_ind; [reflexivity|].
  rewrite !N.iter_succ, IH. apply tt_push_cS.
Qed.

Lemma emit_run_cS c run rc sh j a b : emit_run (cS c run rc sh j) a b = mapX (fun c' => cS c' run rc sh j) (emit_run c a b).
Proof.
  unfold emit_run. replace (d_ftab (cS c run rc sh j)) with (d_ftab c) by (destruct c; reflexivity).
  destruct (xget RFtab (d_ftab c) a) as [f|e]; [|reflexivity]. cbn [bindX].
  destruct (xset RFtab (d_ftab c) a (add32 f b)) as [ft|e]; [|reflexivity]. cbn [bindX].
  replace (set_d_ftab (cS c run rc sh j) ft) with (cS (set_d_ftab c ft) run rc sh j) by (destruct c; reflexivity).
  apply (iter_push_cS a run rc sh j b (XV (set_d_ftab c ft))).
Qed.

(* results that end the call: same code, or end of block with the same observable core *)
Definition bfin (r1 r2 : bres) : Prop :=
  match r1, r2 with
  | BRet c1 _, BRet c2 _ => c1 = c2
  | BEob c1, BEob c2 => obs_core c1 = obs_core c2
  | BFault f1, BFault f2 => f1 = f2
  | _, _ => False
  end.

Lemma bfin_after r1 r2 st m1 m2 : bfin r1 r2 -> rsim [] (cont false m1 (after r1 st)) (cont false m2 (after r2 st)).
Proof.
  destruct r1, r2; cbn [bfin]; try tauto; intro H; cbn [after cont].
  unfold finish. cbn [save with_core s_core d_block_size].
  unfold obs_core in H. injection H as Hv Hw Hp Ht Hr Hi Hf.
  rewrite Hp, Hi. destruct (c_ttp c0 =? 0); [cbn; reflexivity|].
  destruct (c_ttp c0 <=? d_bwt_idx c0); [cbn; reflexivity|].
  cbn. unfold obs_core. rewrite Hv, Hw, Hp, Ht, Hr, Hi, Hf, app_nil_r. auto.
Qed.

Lemma eob_cS c run rc sh j : bfin (eob (cS c run rc sh j)) (eob (set_r_runChar (set_r_run c run) rc)).
Proof.
  unfold eob.
  replace (overflows (cS c run rc sh j) (r_run (cS c run rc sh j))) with (overflows (set_r_runChar (set_r_run c run) rc) run)
    by (destruct c; reflexivity).
  replace (r_run (set_r_runChar (set_r_run c run) rc)) with run by (destruct c; reflexivity).
  destruct (overflows _ run); [cbn; reflexivity|].
  replace (r_runChar (cS c run rc sh j)) with rc by (destruct c; reflexivity).
  replace (r_run (cS c run rc sh j)) with run by (destruct c; reflexivity).
  replace (r_runChar (set_r_runChar (set_r_run c run) rc)) with rc by (destruct c; reflexivity).
  replace (cS c run rc sh j) with (cS (set_r_runChar (set_r_run c run) rc) run rc sh j) by (destruct c; reflexivity).
  rewrite emit_run_cS. destruct (emit_run (set_r_runChar (set_r_run c run) rc) rc run) as [c'|f]; cbn; [|reflexivity].
  destruct c'; reflexivity.
Qed.

Lemma guard_eq r : run_guard 0 r = run_guard 1 r.
Proof. reflexivity. Qed.

Lemma after_with_core r st c : after r (with_core st c) = after r st.
Proof. destruct r, st; reflexivity. Qed.

(* the group head does not depend on rs->j *)
Definition gmap (f : core -> core) (g : gsel) : gsel :=
  match g with
  | GSel c => GSel (f c)
  | GOut (BRet t c) => GOut (BRet t (f c))
  | GOut r => GOut r
  end.

Lemma group_select_j c x : group_select (set_r_j c x) = gmap (fun c' => set_r_j c' x) (group_select c).
Proof.
  unfold group_select. dcore c. rec_simpl.
  destruct (_ <? _); [|reflexivity].
  destruct (xget RSelector _ _) as [i|f]; [|reflexivity].
  destruct (xget RMtf _ i) as [t|f]; [|reflexivity].
  destruct (MAX_TREES <=? t); [reflexivity|].
  destruct (bindX _ _) as [m|f]; reflexivity.
Qed.

Lemma group_j_indep : forall n st x,
  rsim [] (run_from false n P_GROUP (with_core st (set_r_j (s_core st) x))) (run_from false n P_GROUP st).
Proof.
  intros [|n] st x; [cbn; reflexivity|].
  rewrite !run_from_S, !onestep_false. cbn [s_core with_core]. rewrite after_with_core.
  unfold sstep. cbn [step fst]. unfold group_head.
  rewrite group_select_j. destruct (group_select (s_core st)) as [c|r]; cbn [gmap andb fst].
  - replace (set_r_j (set_r_j c x) 0) with (set_r_j c 0) by (dcore c; reflexivity). apply rsim_refl.
  - destruct r; cbn; try reflexivity; auto using rsim_refl.
Qed.

Lemma with_core_twice st c1 c2 : with_core (with_core st c1) c2 = with_core st c2.
Proof. destruct st; reflexivity. Qed.
Lemma with_next_core st nx c : with_next (with_core st c) nx = with_core (with_next st nx) c.
Proof. destruct st; reflexivity. Qed.
Lemma add32_small' a b : a + b < 2 ^ 32 -> add32 a b = a + b.
Proof. intro H. unfold add32. apply N.mod_small. exact H. Qed.

Lemma cS_proj c run rc sh j :
  c_v (cS c run rc sh j) = c_v c /\ c_w (cS c run rc sh j) = c_w c /\ r_tree (cS c run rc sh j) = r_tree c /\
  r_t (cS c run rc sh j) = r_t c /\ r_alpha_size (cS c run rc sh j) = r_alpha_size c /\
  r_run (cS c run rc sh j) = run /\ r_runChar (cS c run rc sh j) = rc /\ r_shift (cS c run rc sh j) = sh /\
  r_j (cS c run rc sh j) = j /\ r_slide (cS c run rc sh j) = r_slide c /\ r_g (cS c run rc sh j) = r_g c /\
  c_ttp (cS c run rc sh j) = c_ttp c.
Proof. dcore c. repeat split; reflexivity. Qed.

(* emit_run only touches ftab[], tt[] and the tt pointer *)
Definition tt_frame (c c' : core) : Prop := c' = set_c_ttp (set_c_tt (set_d_ftab c (d_ftab c')) (c_tt c')) (c_ttp c').

Lemma tt_frame_refl c : tt_frame c c.
Proof. unfold tt_frame. dcore c. reflexivity. Qed.

Lemma tt_frame_trans a b c : tt_frame a b -> tt_frame b c -> tt_frame a c.
Proof. unfold tt_frame. intros H1 H2. rewrite H2. rewrite H1. dcore a. dcore c. reflexivity. Qed.

Lemma iter_push_frame ch : forall n xc c', N.iter n (tt_push ch) xc = XV c' -> exists c0, xc = XV c0 /\ tt_frame c0 c'.
Proof.
  induction n as [|n IH] using N.peano_ind; intros xc c' H.
  - cbn in H. exists c'. split; [exact H|apply tt_frame_refl].
  - rewrite N.iter_succ in H. unfold tt_push at 1 in H.
    destruct (N.iter n (tt_push ch) xc) as [c1|f] eqn:E; cbn [bindX] in H; [|discriminate].
    destruct (c_ttp c1 <? MAX_BLOCK_SIZE); [|discriminate]. injection H as <-.
    destruct (IH xc c1 E) as (c0 & -> & F). exists c0. split; [reflexivity|].
    eapply tt_frame_trans; [exact F|]. unfold tt_frame. dcore c1. reflexivity.
Qed.

Lemma emit_run_frame c a b c' : emit_run c a b = XV c' -> tt_frame c c'.
Proof.
  unfold emit_run. destruct (xget RFtab (d_ftab c) a) as [f|e]; [|discriminate]. cbn [bindX].
  destruct (xset RFtab (d_ftab c) a (add32 f b)) as [ft|e]; [|discriminate]. cbn [bindX].
  intro H. destruct (iter_push_frame a b _ c' H) as (c0 & E & F). injection E as <-.
  eapply tt_frame_trans; [|exact F]. unfold tt_frame. dcore c. reflexivity.
Qed.

Lemma tt_frame_fields c c' : tt_frame c c' ->
  r_tree c' = r_tree c /\ r_t c' = r_t c /\ r_slide c' = r_slide c /\ c_v c' = c_v c /\ c_w c' = c_w c.
Proof. unfold tt_frame. intros ->. dcore c. repeat split; reflexivity. Qed.

Definition fast_body (n' : nat) (T : tree) (c : core) (next : list N) (run runChar shift : N) : bres * list N :=
        match ofM (tree_decode (r_alpha_size c) T (c_v c)) with
        | XF f => (BFault f, next)
        | XV skv =>
          let s := fst (fst skv) in let k := snd (fst skv) in
          let c := set_c_w (set_c_v c (snd skv)) (sub32 (c_w c) k) in
          if s =? EOB then (eob (set_r_runChar (set_r_run c run) runChar), next)
          else if (256 <=? s) && run_guard 0 run then
            match ofM (shl32 (sub32 s 256) shift) with
            | XF f => (BFault f, next)
            | XV sh => fast_loop n' T c next (add32 run sh) runChar (add32 shift 1)
            end
          else if overflows c run then (BRet E_ERR_OVERFLOW c, next)
          else
            match emit_run c runChar run with
            | XF f => (BFault f, next)
            | XV c =>
              match SlideModel.mtf_one_c (s mod W8) (r_slide c) with
              | SlideModel.Oob => (BFault FSlideOob, next)
              | SlideModel.Abort => (BFault FSlideAbort, next)
              | SlideModel.Done x sl => fast_loop n' T (set_r_slide c sl) next 1 x 0
              end
            end
        end.

Lemma fast_loop_S n' T c next run rc sh :
  fast_loop (S n') T c next run rc sh =
  match need_fast c next with
  | XF f => (BFault f, next)
  | XV (c1, nx1) => fast_body n' T c1 nx1 run rc sh
  end.
Proof. reflexivity. Qed.

(* one symbol: the slow path's step against the fast path's loop body *)
Lemma sym_corr n' T c next run rc sh j : j < 50 ->
  nth_error (r_tree c) (N.to_nat (r_t c)) = Some T ->
  (exists c' run' rc' sh',
     fast_body n' T c next run rc sh = fast_loop n' T c' next run' rc' sh' /\
     after_prefix (cS c run rc sh j) = slow_head (cS c' run' rc' sh' (j + 1)) /\
     r_tree c' = r_tree c /\ r_t c' = r_t c) \/
  (snd (fast_body n' T c next run rc sh) = next /\ bfin (after_prefix (cS c run rc sh j)) (fst (fast_body n' T c next run rc sh))).
Proof.
  intros Hj HT.
  destruct (cS_proj c run rc sh j) as (Ev & Ew & Et & Ett & Ea & Er & Erc & Es & Ej & Esl & Eg & Ep).
  unfold after_prefix, fast_body. rewrite Et, Ett, HT, Ea, Ev, Ew. cbn [ofO bindB].
  destruct (ofM (tree_decode (r_alpha_size c) T (c_v c))) as [skv|f]; cbn [bindB]; [|right; split; reflexivity].
  set (s := fst (fst skv)). set (k := snd (fst skv)).
  rewrite cS_vw. set (c2 := set_c_w (set_c_v c (snd skv)) (sub32 (c_w c) k)).
  assert (Hc2 : r_tree c2 = r_tree c /\ r_t c2 = r_t c) by (subst c2; dcore c; split; reflexivity).
  clearbody c2.
  destruct (cS_proj c2 run rc sh j) as (Ev2 & Ew2 & Et2 & Ett2 & Ea2 & Er2 & Erc2 & Es2 & Ej2 & Esl2 & Eg2 & Ep2).
  destruct (s =? EOB).
  { right. split; [reflexivity|]. apply eob_cS. }
  rewrite Er2, Es2, <- guard_eq.
  destruct ((256 <=? s) && run_guard 0 run).
  { destruct (ofM (shl32 (sub32 s 256) sh)) as [x|f]; cbn [bindB]; [|right; split; reflexivity].
    left. exists c2, (add32 run x), rc, (add32 sh 1). split; [reflexivity|]. split.
    - match goal with |- context [add32 (r_j ?X) 1] => replace (r_j X) with j by (dcore c2; reflexivity) end.
      rewrite (add32_small' j 1) by lia. rewrite cS_acc. reflexivity.
    - exact Hc2. }
  replace (overflows (cS c2 run rc sh j) run) with (overflows c2 run) by (unfold overflows; rewrite Ep2; reflexivity).
  destruct (overflows c2 run); [right; split; reflexivity|].
  rewrite Erc2, emit_run_cS.
  destruct (emit_run c2 rc run) as [c3|f] eqn:Eem; cbn [mapX bindB]; [|right; split; reflexivity].
  replace (r_slide (set_r_run (cS c3 run rc sh j) UINT_MAX)) with (r_slide c3) by (dcore c3; reflexivity).
  destruct (SlideModel.mtf_one_c (s mod W8) (r_slide c3)) as [x sl| |]; [|right; split; reflexivity|right; split; reflexivity].
  left. exists (set_r_slide c3 sl), 1, x, 0. split; [reflexivity|]. split.
  - replace (r_j (set_r_run (set_r_shift (set_r_runChar (set_r_slide (set_r_run (cS c3 run rc sh j) UINT_MAX) sl) x) 0) 1)) with j
      by (dcore c3; reflexivity).
    rewrite (add32_small' j 1) by lia. rewrite cS_sym. reflexivity.
  - assert (E3 : r_tree c3 = r_tree c2 /\ r_t c3 = r_t c2).
    { destruct (tt_frame_fields _ _ (emit_run_frame _ _ _ _ Eem)) as (A & B & _). split; assumption. }
    destruct E3 as [E3a E3b]. destruct Hc2 as [Ha Hb]. split.
    + replace (r_tree (set_r_slide c3 sl)) with (r_tree c3) by (dcore c3; reflexivity). congruence.
    + replace (r_t (set_r_slide c3 sl)) with (r_t c3) by (dcore c3; reflexivity). congruence.
Qed.

Lemma need_corr c next run rc sh j st :
  match need_fast c next with
  | XV (c1, nx1) =>
      need_at S_prefix (with_core (with_next st next) (cS c run rc sh j)) = NGo (with_core (with_next st nx1) (cS c1 run rc sh j)) /\
      r_tree c1 = r_tree c /\ r_t c1 = r_t c
  | XF f => f = FInput \/ need_at S_prefix (with_core (with_next st next) (cS c run rc sh j)) = NRet (RFault f)
  end.
Proof.
  destruct (cS_proj c run rc sh j) as (Ev & Ew & _).
  unfold need_fast, need_at. cbn [s_core with_core l_next with_next]. rewrite Ew.
  destruct (c_w c <? 32).
  - destruct next as [|x r]; [left; reflexivity|].
    rewrite load_cS. destruct (load c x) as [c1|f] eqn:EL; cbn [bindX mapX].
    + split; [destruct st; reflexivity|].
      unfold load in EL. destruct (ofM _); [|discriminate]. cbn [bindX] in EL. injection EL as <-. dcore c. split; reflexivity.
    + right. reflexivity.
  - split; [destruct st; reflexivity|]. split; reflexivity.
Qed.

Lemma fast_slow_loop : forall n T c next run rc sh j st mF rF,
  N.of_nat n + j = GROUP_SIZE ->
  nth_error (r_tree c) (N.to_nat (r_t c)) = Some T ->
  fst (fast_loop n T c next run rc sh) <> BFault FInput ->
  cont false mF (after (fst (fast_loop n T c next run rc sh)) (with_next st (snd (fast_loop n T c next run rc sh)))) = rF ->
  rF <> RFault FFuel ->
  exists mS rS, cont false mS (after (slow_head (cS c run rc sh j)) (with_next st next)) = rS /\ rsim [] rS rF.
Proof.
  induction n as [|n IH]; intros T c next run rc sh j st mF rF Hj HT HI HF HN.
  - cbn [fast_loop fst snd] in HF. change GROUP_SIZE with 50 in Hj. assert (j = 50) by lia. subst j.
    destruct (cS_proj c run rc sh 50) as (_ & _ & _ & _ & _ & _ & _ & _ & Ej & _ & Eg & _).
    unfold slow_head. rewrite Ej, Eg. change (50 <? GROUP_SIZE) with false. cbn iota.
    cbn [after cont] in *.
    set (cF := set_r_g (set_r_shift (set_r_runChar (set_r_run c run) rc) sh)
                 (add32 (r_g (set_r_shift (set_r_runChar (set_r_run c run) rc) sh)) 1)) in *.
    replace (set_r_g (cS c run rc sh 50) (add32 (r_g c) 1)) with (set_r_j cF 50) by (dcore c; reflexivity).
    exists mF. eexists. split; [reflexivity|].
    pose proof (group_j_indep mF (with_core (with_next st next) cF) 50) as G.
    cbn [s_core with_core] in G. rewrite with_core_twice in G. rewrite <- HF. exact G.
  - change GROUP_SIZE with 50 in Hj.
    destruct (cS_proj c run rc sh j) as (Ev & Ew & Et & Ett & Ea & Er & Erc & Es & Ej & Esl & Eg & Ep).
    unfold slow_head. rewrite Ej. replace (j <? GROUP_SIZE) with true by (symmetry; apply N.ltb_lt; change GROUP_SIZE with 50; lia).
    cbn [after]. rewrite fast_loop_S in HF, HI.
    pose proof (need_corr c next run rc sh j st) as NC.
    destruct (need_fast c next) as [[c1 nx1]|f].
    + destruct NC as (NC & Ht1 & Ht2). rewrite NC.
      destruct (sym_corr n T c1 nx1 run rc sh j ltac:(lia) ltac:(congruence))
        as [(c' & run' & rc' & sh' & EF & ES & Ht1' & Ht2')|(EN & BF)].
      * rewrite EF in HF, HI.
        destruct (IH T c' nx1 run' rc' sh' (j + 1) st mF rF ltac:(change GROUP_SIZE with 50; lia) ltac:(congruence) HI HF HN)
          as (mS & rS & HS & HR).
        exists (S mS), rS. split; [|exact HR]. cbn [cont]. rewrite run_from_S, onestep_false.
        cbn [s_core with_core]. unfold sstep. cbn [step fst step_core]. rewrite ES, after_with_core. exact HS.
      * rewrite EN in HF. exists 1%nat. eexists. split; [reflexivity|].
        cbn [cont]. rewrite run_from_S, onestep_false. cbn [s_core with_core]. unfold sstep. cbn [step fst step_core].
        rewrite after_with_core, <- HF. apply bfin_after. exact BF.
    + cbn [fst snd] in HF, HI. destruct NC as [->|NC]; [congruence|]. rewrite NC.
      exists 0%nat. eexists. split; [reflexivity|]. cbn [cont]. subst rF. cbn. reflexivity.
Qed.

Definition no_fault (r : cres) : Prop := forall f, r <> RFault f.

Lemma rsim_no_fault b r1 r2 : rsim b r1 r2 -> no_fault r2 -> no_fault r1.
Proof. destruct r1, r2; cbn; try tauto; intros; intros f' E; try discriminate. subst. injection E as <-. exact (H0 _ eq_refl). Qed.

Lemma cS_self_j c j : cS c (r_run c) (r_runChar c) (r_shift c) j = set_r_j c j.
Proof. dcore c. reflexivity. Qed.

Lemma step_true_other p c nx : p <> P_GROUP -> step true p c nx = step false p c nx.
Proof. destruct p; try reflexivity. congruence. Qed.

(* (2) a run of the machine with the fast path that ends without a fault is matched by the slow machine *)
Lemma fast_to_slow_run : forall n p st rF, run_from true n p st = rF -> no_fault rF ->
  exists m rS, run_from false m p st = rS /\ rsim [] rS rF.
Proof.
  induction n as [|n IH]; intros p st rF H NF; [cbn in H; subst; exfalso; exact (NF _ eq_refl)|].
  rewrite run_from_S in H.
  assert (Hother : p <> P_GROUP -> exists m rS, run_from false m p st = rS /\ rsim [] rS rF).
  { intro Hp. unfold onestep in H. rewrite (step_true_other p _ _ Hp) in H. fold (onestep false p st) in H.
    destruct (onestep false p st) as [p' st'|r] eqn:E; cbn [cont] in H.
    - destruct (IH p' st' rF H NF) as (m & rS & Hm & Hr). exists (S m), rS. split; [|exact Hr].
      rewrite run_from_S, E. exact Hm.
    - subst r. exists 1%nat, rF. split; [rewrite run_from_S, E; reflexivity|apply rsim_refl]. }
  destruct p as [s| |]; try (apply Hother; discriminate). clear Hother.
  rewrite onestep_after in H. cbn [step] in H. unfold group_head in H.
  destruct (group_select (s_core st)) as [c1|r] eqn:EG.
  - destruct (true && (fast_path_words <=? N.of_nat (length (l_next st)))) eqn:Efast.
    + destruct (ofO (FRead RTree) (nth_error (r_tree c1) (N.to_nat (r_t c1)))) as [T|f] eqn:ET.
      * set (fr := fast_loop (N.to_nat GROUP_SIZE) T c1 (l_next st) (r_run c1) (r_runChar c1) (r_shift c1)) in *.
        assert (HT : nth_error (r_tree c1) (N.to_nat (r_t c1)) = Some T).
        { destruct (nth_error (r_tree c1) (N.to_nat (r_t c1))); cbn in ET; congruence. }
        assert (HI : fst fr <> BFault FInput).
        { intro X. rewrite X in H. cbn in H. subst rF. exact (NF _ eq_refl). }
        assert (G : exists mF rS', cont false mF (after (fst fr) (with_next st (snd fr))) = rS' /\ rsim [] rS' rF).
        { destruct (after (fst fr) (with_next st (snd fr))) as [p' st'|r] eqn:EA; cbn [cont] in H.
          - destruct (IH p' st' rF H NF) as (m & rS & Hm & Hr). exists m, rS. split; [exact Hm|exact Hr].
          - subst r. exists 0%nat, rF. split; [reflexivity|apply rsim_refl]. }
        destruct G as (mF & rS' & HF & HR').
        assert (NF' : rS' <> RFault FFuel) by (apply (rsim_no_fault _ _ _ HR' NF)).
        destruct (fast_slow_loop (N.to_nat GROUP_SIZE) T c1 (l_next st) (r_run c1) (r_runChar c1) (r_shift c1) 0 st mF rS'
                    ltac:(reflexivity) HT HI HF NF') as (mS & rS & HS & HR).
        exists (S mS), rS. split; [|eapply rsim_trans; eassumption].
        rewrite run_from_S, onestep_false. unfold sstep. cbn [step fst]. unfold group_head. rewrite EG. cbn [andb fst].
        rewrite cS_self_j, with_next_id in HS. exact HS.
      * cbn [fst snd] in H. cbn in H. subst rF. exfalso. exact (NF _ eq_refl).
    + (* slow path in both machines *)
      cbn [fst snd] in H. rewrite with_next_id in H.
      destruct (after (slow_head (set_r_j c1 0)) st) as [p' st'|r] eqn:EA; cbn [cont] in H.
      * destruct (IH p' st' rF H NF) as (m & rS & Hm & Hr). exists (S m), rS. split; [|exact Hr].
        rewrite run_from_S, onestep_false. unfold sstep. cbn [step fst]. unfold group_head. rewrite EG. cbn [andb fst].
        rewrite EA. exact Hm.
      * subst r. exists 1%nat, rF. split; [|apply rsim_refl].
        rewrite run_from_S, onestep_false. unfold sstep. cbn [step fst]. unfold group_head. rewrite EG. cbn [andb fst].
        rewrite EA. reflexivity.
  - cbn [fst snd] in H. rewrite with_next_id in H.
    destruct (after r st) as [p' st'|r'] eqn:EA; cbn [cont] in H.
    + destruct (IH p' st' rF H NF) as (m & rS & Hm & Hr). exists (S m), rS. split; [|exact Hr].
      rewrite run_from_S, onestep_false. unfold sstep. cbn [step fst]. unfold group_head. rewrite EG. cbn [fst].
      rewrite EA. exact Hm.
    + subst r'. exists 1%nat, rF. split; [|apply rsim_refl].
      rewrite run_from_S, onestep_false. unfold sstep. cbn [step fst]. unfold group_head. rewrite EG. cbn [fst].
      rewrite EA. reflexivity.
Qed.

Lemma Ret_fast_to_slow st rF : Ret true st rF -> no_fault rF -> exists rS, Ret false st rS /\ rsim [] rS rF.
Proof.
  intros (n & H & _) NF. rewrite retrieve_f_enter in H.
  destruct (enter st) as [p s|r] eqn:E.
  - destruct (fast_to_slow_run n p s rF H NF) as (m & rS & Hm & Hr).
    exists rS. split; [|exact Hr]. exists m. rewrite retrieve_f_enter, E. split; [exact Hm|].
    apply (rsim_no_fault _ _ _ Hr NF).
  - subst r. exists rF. split; [|apply rsim_refl]. exists 0%nat. rewrite retrieve_f_enter, E. split; [reflexivity|apply NF].
Qed.

Lemma Eval_fast_to_slow st cs x : Eval true st cs x -> no_fault (fst x) -> exists y, Eval false st cs y /\ xsim y x.
Proof.
  induction 1 as [st r H Hm|st st' r H H'|st ch rest r H Hm|st ch rest st' x H E IH]; intro NF; cbn [fst] in NF.
  - destruct (Ret_fast_to_slow _ _ H NF) as (rS & HS & HR). exists (rS, []). split; [|apply rsim_nil_xsim; exact HR].
    apply Ev_nil_stop; [exact HS|]. rewrite (rsim_more _ _ _ HR). exact Hm.
  - destruct (Ret_fast_to_slow _ _ H ltac:(intros f; discriminate)) as (rS & HS & HR).
    destruct rS as [sS| | |]; cbn in HR; try tauto. destruct HR as [-> _].
    destruct (Ret_fast_to_slow _ _ H' NF) as (rS & HS' & HR'). exists (rS, []). split; [|apply rsim_nil_xsim; exact HR'].
    eapply Ev_nil_more; eassumption.
  - destruct (Ret_fast_to_slow _ _ H NF) as (rS & HS & HR). exists (rS, rest). split; [|apply rsim_nil_xsim; exact HR].
    apply Ev_stop; [exact HS|]. rewrite (rsim_more _ _ _ HR). exact Hm.
  - destruct (Ret_fast_to_slow _ _ H ltac:(intros f; discriminate)) as (rS & HS & HR).
    destruct rS as [sS| | |]; cbn in HR; try tauto. destruct HR as [-> _].
    destruct (IH NF) as (y & Ey & Sy). exists y. split; [|exact Sy]. eapply Ev_more; eassumption.
Qed.

(* CHUNK INDEPENDENCE, for runs that end without a fault: the result of retrieve() fed with a list of non-empty
   chunks (then end of input) depends only on the concatenation of the chunks *)
Theorem chunk_indep_nofault st cs1 cs2 x1 x2 :
  Forall (fun c => c <> []) cs1 -> Forall (fun c => c <> []) cs2 -> concat cs1 = concat cs2 -> b_eof st = false ->
  Eval true st cs1 x1 -> Eval true st cs2 x2 -> no_fault (fst x1) -> no_fault (fst x2) -> xsim x1 x2.
Proof.
  intros H1 H2 Hc He E1 E2 N1 N2.
  destruct (Eval_fast_to_slow _ _ _ E1 N1) as (y1 & Ey1 & S1).
  destruct (Eval_fast_to_slow _ _ _ E2 N2) as (y2 & Ey2 & S2).
  pose proof (slow_chunk_indep st cs1 cs2 y1 y2 H1 H2 Hc He Ey1 Ey2) as S.
  eapply xsim_trans; [apply xsim_sym; exact S1|]. eapply xsim_trans; [exact S|exact S2].
Qed.

Print Assumptions chunk_indep_nofault.
