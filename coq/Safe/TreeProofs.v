(* C08, prefix-code decoding tables: theorems about the array-level model Safe/TreeModel.v of
   make_tree() and of the decode sequence of retrieve() (src/decode.c).

   For ALL code-length vectors [lens] with 3 <= length lens <= 258 and every length in 1..20
   (what the delta reader of retrieve() guarantees), any previous contents of the tree [T] and any
   contents [pad] of code_len[] above alpha_size:

   (a) make_tree_safe      no out-of-bounds access, no undefined shift, no signed overflow, no failing
                           assert(), in the success outcome and in both error outcomes;
   (b) make_tree_verdict   success iff kraft lens = kraft_full, ERR_INCOMPLT iff less, ERR_PREFIX iff more
                           (= complete_only of Dec/Policies.v: make_tree_verdict_policy);
   (c) tree_decode_safe    on a successfully built tree, for every 64-bit buffer value v < 2^64 - 1 the
                           decode sequence runs without an undefined event: start index < 1024, the walk
                           while (v >= base[k+1]) k++ stops with k <= 20, the perm index is < alpha_size;
                           [tree_decode_allones_oob]: the precondition v <> 2^64-1 is needed (the walk
                           runs past the sentinel base[21] = 2^64-1) -- retrieve() guarantees it because
                           the bit buffer never holds more than 63 valid bits (NEED()/NEED_FAST());
   (d) tree_decode_correct the symbol and code length returned are those of the canonical bit-by-bit decoder
                           [decode_sym lens] of Dec/Format.v run on the 64 bits of v, through the internal
                           symbol numbering [isym]. *)
From Coq Require Import List NArith Arith Bool Lia ZifyBool ZifyNat ZifyN.
From LBZ Require Import Common.Bits Dec.Prog Dec.Format Dec.Delta Dec.Policies Enc.EncModel Enc.HuffProofs
  Gen.Consts Gen.DecTabs Safe.TreeModel Safe.TreeLemmas Safe.TreeBuild.
Import ListNotations.
Local Open Scope N_scope.

(* ---- arithmetic of the left-justified frame ---------------------------------------------------------------------- *)
Lemma WS_FF m lens k : (1 <= k)%nat -> N.of_nat k <= m -> WS m lens (k - 1) = FF lens (k - 1) * 2 ^ (m - N.of_nat k).
Proof.
  intros H1 H2. unfold WS. rewrite FF_W.
  replace (m - N.of_nat (k - 1)) with (N.succ (m - N.of_nat k)) by lia. rewrite N.pow_succ_r'. lia.
Qed.

Lemma WS_FF_S m lens k : (1 <= k)%nat -> N.of_nat k <= m ->
  WS m lens k = (FF lens (k - 1) + cnt lens k) * 2 ^ (m - N.of_nat k).
Proof.
  intros H1 H2. replace k with (S (k - 1)) at 1 by lia. rewrite WS_S by lia.
  replace (S (k - 1)) with k by lia. rewrite WS_FF by assumption. lia.
Qed.

Lemma find_len lens v j : (j <= 20)%nat -> v < WS 64 lens j ->
  exists k, (1 <= k <= j)%nat /\ WS 64 lens (k - 1) <= v < WS 64 lens k.
Proof.
  induction j as [|j IH]; intros Hj Hv; [rewrite WS_0 in Hv; lia|].
  destruct (N.lt_ge_cases v (WS 64 lens j)) as [Hlt|Hge].
  - destruct (IH ltac:(lia) Hlt) as [k [Hk Hi]]. exists k. split; [lia|exact Hi].
  - exists (S j). replace (S j - 1)%nat with j by lia. split; [lia|]. split; assumption.
Qed.

Lemma top_bits lens v k : (1 <= k <= 20)%nat -> WS 64 lens (k - 1) <= v < WS 64 lens k ->
  FF lens (k - 1) <= v / 2 ^ (64 - N.of_nat k) < FF lens (k - 1) + cnt lens k.
Proof.
  intros Hk [H1 H2]. rewrite WS_FF in H1 by lia. rewrite WS_FF_S in H2 by lia.
  assert (P : 2 ^ (64 - N.of_nat k) <> 0) by (apply N.pow_nonzero; discriminate).
  split.
  - apply N.div_le_lower_bound; [exact P|]. rewrite N.mul_comm. exact H1.
  - apply N.div_lt_upper_bound; [exact P|]. rewrite N.mul_comm. exact H2.
Qed.

Lemma div_sub_mul v F m : m <> 0 -> F * m <= v -> (v - F * m) / m = v / m - F.
Proof.
  intros Hm H. replace v with ((v - F * m) + F * m) at 2 by lia. rewrite N.div_add by exact Hm. rewrite N.add_sub. reflexivity.
Qed.

(* ---- the decode sequence on a successfully built tree ------------------------------------------------------------- *)
(* (s, k) is what the canonical code of [lens] assigns to the buffer value v *)
Definition dec_rel (lens : list N) (v s : N) (k : nat) : Prop :=
  (1 <= k <= 20)%nat /\ WS 64 lens (k - 1) <= v < WS 64 lens k /\
  exists a, a < N.of_nat (length lens) /\
    a = nth (N.to_nat (IDX lens (k - 1) + (v / 2 ^ (64 - N.of_nat k) - FF lens (k - 1)))) (sorted_syms lens) 0 /\
    s = isym (N.of_nat (length lens)) a.

Section Decode.
Variable lens : list N.
Hypothesis Hok : lens_ok lens.
Hypothesis Hn3 : (3 <= length lens <= 258)%nat.
Hypothesis Hfull : W lens 20 = 2 ^ 20.
Variable T : tree.
Hypothesis HT : tree_ok lens T.
Let n := N.of_nat (length lens).

Lemma tree_decode_spec v : v < UINT64_MAX ->
  exists s k, tree_decode n T v = Done (s, N.of_nat k, (v * 2 ^ N.of_nat k) mod W64) /\ dec_rel lens v s k.
Proof.
  intro Hv. destruct HT as [LS [LUT [SLOW [BO [[LC [C0 CV]] [PO LP]]]]]].
  assert (Hv64 : v < W64) by (rewrite UINT64_MAX_val, W64_val in *; lia).
  unfold tree_decode. rewrite const_HSW.
  rewrite sub32_small by (rewrite ?W32_val; lia). rewrite shr64_ok by lia. cbn [bindM].
  change (64 - 10) with 54. set (c := v / 2 ^ 54).
  assert (Hc : c < 1024).
  { unfold c. apply N.div_lt_upper_bound; [discriminate|]. rewrite W64_val in Hv64. exact Hv64. }
  rewrite aget_ok by lia. cbn [bindM].
  assert (LJ10 : WS 64 lens 10 = WS 10 lens 10 * 2 ^ 54) by (apply (WS_scale 10 64 lens 10); cbn; lia).
  destruct (N.lt_ge_cases c (WS 10 lens 10)) as [Hfast|Hslow].
  - (* the code is at most HUFF_START_WIDTH bits long *)
    assert (V10 : v < WS 64 lens 10).
    { rewrite LJ10. unfold c in Hfast.
      pose proof (N.mul_succ_div_gt v (2 ^ 54) ltac:(discriminate)) as G. nia. }
    destruct (find_len lens v 10 ltac:(lia) V10) as [k [Hk Hi]].
    pose proof (top_bits lens v k ltac:(lia) Hi) as TB.
    set (CC := v / 2 ^ (64 - N.of_nat k)) in *. set (r := CC - FF lens (k - 1)).
    set (m := 2 ^ (10 - N.of_nat k)).
    assert (Em : c / m = CC).
    { unfold c, m, CC. rewrite N.div_div by (try apply N.pow_nonzero; discriminate).
      rewrite <- N.pow_add_r. do 2 f_equal. lia. }
    assert (Pm : m <> 0) by (apply N.pow_nonzero; discriminate).
    assert (Ec : c = lut_idx lens k r (c mod m)).
    { unfold lut_idx. rewrite WS_FF by (try lia; cbn; lia). fold m.
      rewrite (N.div_mod c m Pm) at 1. rewrite Em. unfold r. nia. }
    pose proof (N.mod_lt c m Pm) as Mj.
    rewrite Ec. rewrite (LUT k r (c mod m) ltac:(lia) ltac:(unfold r; lia) Mj ltac:(left; lia)).
    unfold XE. destruct (PO k r ltac:(lia) ltac:(unfold r; lia)) as [a [Ha [Esort Eperm]]].
    rewrite Eperm. set (p := isym (N.of_nat (length lens)) a).
    rewrite land31.
    assert (Emod : (p * 32 + N.of_nat k) mod 32 = N.of_nat k).
    { rewrite N.add_comm, N.mod_add by discriminate. apply N.mod_small. lia. }
    rewrite Emod.
    assert (Ele : (N.of_nat k <=? 10) = true) by (apply N.leb_le; lia). rewrite Ele.
    rewrite shr32_ok by lia. cbn [bindM fst snd]. rewrite shl64_ok by lia. cbn [bindM].
    change (2 ^ 5) with 32.
    assert (Ediv : (p * 32 + N.of_nat k) / 32 = p).
    { rewrite N.add_comm, N.div_add by discriminate. rewrite N.div_small by lia. reflexivity. }
    rewrite Ediv. exists p, k. split; [reflexivity|].
    split; [lia|]. split; [exact Hi|]. exists a. split; [exact Ha|]. split; [|reflexivity].
    rewrite <- Esort. reflexivity.
  - (* longer codes: canonical decoding *)
    destruct (SLOW c ltac:(lia)) as [k0 [Ex [Hk0 Hb0]]]. rewrite Ex.
    rewrite land31. rewrite (N.mod_small (N.of_nat k0)) by lia.
    assert (Egt : (N.of_nat k0 <=? 10) = false) by (apply N.leb_gt; lia). rewrite Egt.
    assert (Hcv : c * 2 ^ 54 <= v).
    { unfold c. rewrite N.mul_comm. apply N.mul_div_le. discriminate. }
    pose proof (walk_spec lens (repeat 0 (258 - length lens)) ltac:(lia) ltac:(rewrite repeat_length; lia) Hfull
                  (t_base T) v k0 BO ltac:(lia) Hv ltac:(lia)) as WK.
    destruct WK as [k [Ew [Hk [Hlo Hhi]]]]. rewrite Ew. cbn [bindM].
    (* the walk ends in the length class of v *)
    assert (Hi : WS 64 lens (k - 1) <= v < WS 64 lens k).
    { unfold BASE in Hlo, Hhi. replace (S k - 1)%nat with k in Hhi by lia. split.
      - destruct (N.min_spec (WS 64 lens (k - 1)) UINT64_MAX) as [[_ E]|[_ E]]; rewrite E in Hlo; lia.
      - pose proof (N.le_min_l (WS 64 lens k) UINT64_MAX). lia. }
    pose proof (top_bits lens v k ltac:(lia) Hi) as TB.
    set (CC := v / 2 ^ (64 - N.of_nat k)) in *. set (r := CC - FF lens (k - 1)).
    rewrite aget_nat by lia. cbn [bindM]. rewrite CV by lia.
    destruct BO as [LB BV].
    rewrite aget_nat by lia. cbn [bindM]. rewrite BV by lia.
    assert (Eb : BASE lens k = WS 64 lens (k - 1)).
    { unfold BASE. apply N.min_l. rewrite UINT64_MAX_val in *. lia. }
    rewrite Eb. rewrite sub64_small by lia.
    rewrite sub32_small by (rewrite ?W32_val; lia). rewrite shr64_ok by lia. cbn [bindM].
    rewrite WS_FF by (try lia; cbn; lia).
    rewrite div_sub_mul by (try (apply N.pow_nonzero; discriminate); rewrite <- WS_FF by (try lia; cbn; lia); lia).
    fold CC. fold r.
    pose proof (IDX_le_len lens k Hok ltac:(lia)) as IL.
    assert (Ik : IDX lens k = IDX lens (k - 1) + cnt lens k).
    { replace k with (S (k - 1)) at 1 by lia. rewrite IDX_S. replace (S (k - 1)) with k by lia. reflexivity. }
    rewrite add64_small by (rewrite W64_val; unfold r; lia).
    unfold aget_perm.
    assert (Elt : (IDX lens (k - 1) + r <? n) = true) by (apply N.ltb_lt; unfold r, n; lia).
    rewrite Elt. rewrite aget_ok by (unfold r; lia). cbn [bindM fst snd].
    rewrite shl64_ok by lia. cbn [bindM].
    destruct (PO k r ltac:(lia) ltac:(unfold r; lia)) as [a [Ha [Esort Eperm]]].
    rewrite Eperm. exists (isym (N.of_nat (length lens)) a), k. split; [reflexivity|].
    split; [lia|]. split; [exact Hi|]. exists a. split; [exact Ha|]. split; [|reflexivity].
    rewrite <- Esort. reflexivity.
Qed.
End Decode.

(* ---- bits of the buffer -------------------------------------------------------------------------------------------- *)
Lemma bits_msb_split a b x : bits_msb (a + b) x = bits_msb a (x / 2 ^ N.of_nat b) ++ bits_msb b x.
Proof.
  induction a as [|a IH]; [reflexivity|].
  cbn [Nat.add bits_msb app]. rewrite IH. f_equal.
  rewrite <- N.shiftr_div_pow2, N.shiftr_spec'. f_equal. apply Nat2N.inj_add.
Qed.

(* ---- internal symbol numbering --------------------------------------------------------------------------------------- *)
Lemma isym_inj n a b : 3 <= n <= 258 -> a < n -> b < n -> isym n a = isym n b -> a = b.
Proof.
  intros Hn Ha Hb. unfold isym, RUN_A, RUN_B, EOB.
  destruct (N.eqb_spec a 0); destruct (N.eqb_spec a 1); destruct (N.eqb_spec a (n - 1));
  destruct (N.eqb_spec b 0); destruct (N.eqb_spec b 1); destruct (N.eqb_spec b (n - 1)); cbn; lia.
Qed.

Lemma isym_range n a : n <= 258 -> a < n -> isym n a <= 258.
Proof.
  intros Hn Ha. unfold isym, RUN_A, RUN_B, EOB.
  destruct (N.eqb_spec a 0); destruct (N.eqb_spec a 1); destruct (N.eqb_spec a (n - 1)); cbn; lia.
Qed.

(* ---- the results ----------------------------------------------------------------------------------------------------- *)
Definition verdict_result (vd : verdict) : result unit :=
  match vd with VBuilt => Ok tt | VIncomplete => Err ErrIncomplete | VPrefix => Err ErrPrefix end.

(* what the delta reader of retrieve() guarantees about code_len[0 .. alpha_size-1], and the shape of
   the memory make_tree() works on: [pad] is whatever code_len[] holds above alpha_size, [T] whatever the
   tree held before *)
Definition tree_pre (lens pad : list N) (T : tree) : Prop :=
  (3 <= length lens)%nat /\ Forall (fun l => 1 <= l <= 20) lens /\
  N.of_nat (length lens + length pad) = LEN_SIZE /\ tree_wf T.

Lemma tree_pre_unfold lens pad T : tree_pre lens pad T ->
  lens_ok lens /\ (3 <= length lens)%nat /\ (length lens + length pad = 258)%nat /\ tree_wf T.
Proof.
  intros [A [B [C D]]]. change LEN_SIZE with 258 in C.
  split; [exact B|]. split; [exact A|]. split; [lia|exact D].
Qed.

Lemma tree_pre_alpha lens pad T : tree_pre lens pad T -> 3 <= N.of_nat (length lens) <= MAX_ALPHA_SIZE.
Proof. intros [A [B [C D]]]. change LEN_SIZE with 258 in C. change MAX_ALPHA_SIZE with 258. lia. Qed.

Theorem make_tree_total : forall lens pad T, tree_pre lens pad T ->
  exists vd T', make_tree (N.of_nat (length lens)) (lens ++ pad) T = Done (vd, T') /\ tree_wf T' /\
                verdict_result vd = complete_only lens /\ (vd = VBuilt -> tree_ok lens T').
Proof.
  intros lens pad T Hpre. destruct (tree_pre_unfold lens pad T Hpre) as [Hok [Hn3 [Hpad Hwf]]].
  assert (EK : kraft lens = W lens 20) by (apply kraft_W20; exact Hok).
  assert (EF : kraft_full = 2 ^ 20) by reflexivity.
  destruct (N.eq_dec (W lens 20) (2 ^ 20)) as [Hfull|Hne].
  - destruct (make_tree_built lens pad Hok Hn3 Hpad T Hwf Hfull) as [T' [E OK]].
    exists VBuilt, T'. split; [exact E|]. split.
    + destruct OK as [LS [_ [_ [[LB _] [[LC _] [_ LP]]]]]]. unfold tree_wf.
      rewrite LS, LB, LC, LP. repeat split; reflexivity.
    + split; [|intros _; exact OK]. unfold complete_only. rewrite EK, EF, Hfull, N.eqb_refl. reflexivity.
  - destruct (make_tree_prefix lens pad Hok Hn3 Hpad T Hwf) as [C [LC [_ E]]].
    apply N.eqb_neq in Hne. rewrite Hne in E. cbn [negb] in E.
    eexists; eexists. split; [exact E|]. split.
    + destruct (tree_wf_lengths T Hwf) as [LS [LB [_ LP]]]. unfold tree_wf. cbn [t_start t_base t_count t_perm].
      rewrite LS, LB, LC, LP. repeat split; reflexivity.
    + split.
      * unfold complete_only. rewrite EK, EF, Hne. destruct (W lens 20 <? 2 ^ 20); reflexivity.
      * destruct (W lens 20 <? 2 ^ 20); discriminate.
Qed.

(* (a) no undefined event, whatever the verdict; the arrays keep their declared sizes *)
Theorem make_tree_safe : forall lens pad T, tree_pre lens pad T ->
  exists vd T', make_tree (N.of_nat (length lens)) (lens ++ pad) T = Done (vd, T') /\ tree_wf T'.
Proof.
  intros lens pad T Hpre. destruct (make_tree_total lens pad T Hpre) as [vd [T' [E [WF _]]]].
  exists vd, T'. auto.
Qed.

(* (b) the verdict is the Kraft verdict *)
Theorem make_tree_verdict : forall lens pad T vd T', tree_pre lens pad T ->
  make_tree (N.of_nat (length lens)) (lens ++ pad) T = Done (vd, T') ->
  (vd = VBuilt <-> kraft lens = kraft_full) /\
  (vd = VIncomplete <-> kraft lens < kraft_full) /\
  (vd = VPrefix <-> kraft_full < kraft lens).
Proof.
  intros lens pad T vd T' Hpre E. destruct (make_tree_total lens pad T Hpre) as [vd0 [T0 [E0 [_ [V _]]]]].
  rewrite E in E0. injection E0 as <- <-. unfold complete_only in V.
  destruct (N.eqb_spec (kraft lens) kraft_full) as [He|Hne].
  - destruct vd; try discriminate. repeat split; intros; try discriminate; try assumption; try lia; reflexivity.
  - destruct (N.ltb_spec (kraft lens) kraft_full) as [Hlt|Hge]; destruct vd; try discriminate;
      repeat split; intros; try discriminate; try assumption; try lia; reflexivity.
Qed.

Theorem make_tree_verdict_policy : forall lens pad T vd T', tree_pre lens pad T ->
  make_tree (N.of_nat (length lens)) (lens ++ pad) T = Done (vd, T') ->
  verdict_result vd = complete_only lens.
Proof.
  intros lens pad T vd T' Hpre E. destruct (make_tree_total lens pad T Hpre) as [vd0 [T0 [E0 [_ [V _]]]]].
  rewrite E in E0. injection E0 as <- <-. exact V.
Qed.

(* what is stored in rs->mtf[rs->t]: the tree number or the error code of Gen/Consts.v *)
Lemma verdict_code_spec t vd : t < MAX_TREES ->
  (vd = VBuilt <-> verdict_code t vd = t) /\ (vd = VIncomplete <-> verdict_code t vd = E_ERR_INCOMPLT) /\
  (vd = VPrefix <-> verdict_code t vd = E_ERR_PREFIX).
Proof.
  intro Ht. change MAX_TREES with 6 in Ht. unfold verdict_code. change E_ERR_INCOMPLT with 11. change E_ERR_PREFIX with 10.
  destruct vd; repeat split; intros; try discriminate; try reflexivity; try lia.
Qed.

Lemma built_tree_ok lens pad T T' : tree_pre lens pad T ->
  make_tree (N.of_nat (length lens)) (lens ++ pad) T = Done (VBuilt, T') ->
  tree_ok lens T' /\ W lens 20 = 2 ^ 20.
Proof.
  intros Hpre E. destruct (make_tree_total lens pad T Hpre) as [vd0 [T0 [E0 [_ [V OK]]]]].
  rewrite E in E0. injection E0 as <- <-. split; [apply OK; reflexivity|].
  destruct (tree_pre_unfold lens pad T Hpre) as [Hok _].
  unfold complete_only in V. rewrite (kraft_W20 lens Hok) in V. change kraft_full with (2 ^ 20) in V.
  destruct (N.eqb_spec (W lens 20) (2 ^ 20)); [assumption|].
  destruct (W lens 20 <? 2 ^ 20); discriminate.
Qed.

(* the sentinel that stops the walk  while (v >= T->base[k + 1]) k++ *)
Theorem built_tree_sentinel : forall lens pad T T', tree_pre lens pad T ->
  make_tree (N.of_nat (length lens)) (lens ++ pad) T = Done (VBuilt, T') ->
  nth 21 (t_base T') 0 = 2 ^ 64 - 1.
Proof.
  intros lens pad T T' Hpre E. destruct (built_tree_ok lens pad T T' Hpre E) as [OK Hfull].
  destruct OK as [_ [_ [_ [[_ BV] _]]]]. rewrite BV by lia.
  destruct (tree_pre_unfold lens pad T Hpre) as [Hok [Hn3 [Hn _]]].
  apply (BASE_21 lens Hfull).
Qed.

(* (c) the decode sequence on a built tree runs without an undefined event for every buffer value
   below 2^64 - 1; the code length is in 1..20, the symbol is an internal symbol of the alphabet *)
Theorem tree_decode_safe : forall lens pad T T' v, tree_pre lens pad T ->
  make_tree (N.of_nat (length lens)) (lens ++ pad) T = Done (VBuilt, T') ->
  v < 2 ^ 64 - 1 ->
  exists s k v', tree_decode (N.of_nat (length lens)) T' v = Done (s, k, v') /\
                 1 <= k <= 20 /\ s <= 258 /\ v' = (v * 2 ^ k) mod 2 ^ 64.
Proof.
  intros lens pad T T' v Hpre E Hv.
  destruct (built_tree_ok lens pad T T' Hpre E) as [OK Hfull].
  destruct (tree_pre_unfold lens pad T Hpre) as [Hok [Hn3 [Hn _]]].
  destruct (tree_decode_spec lens Hok ltac:(lia) Hfull T' OK v Hv) as [s [k [Ed [Hk [_ [a [Ha [_ Es]]]]]]]].
  exists s, (N.of_nat k), ((v * 2 ^ N.of_nat k) mod W64). split; [exact Ed|]. split; [lia|].
  split; [|reflexivity]. rewrite Es. apply isym_range; lia.
Qed.

(* the precondition on v cannot be dropped: with a code longer than HUFF_START_WIDTH bits, the all-ones
   buffer walks past the sentinel base[MAX_CODE_LENGTH + 1] *)
Definition lens21 : list N := [1; 2; 3; 4; 5; 6; 7; 8; 9; 10; 11; 12; 13; 14; 15; 16; 17; 18; 19; 20; 20].
Theorem tree_decode_allones_oob :
  tree_pre lens21 (fill 237 0xAA) garbage_tree /\
  exists T', make_tree 21 (lens21 ++ fill 237 0xAA) garbage_tree = Done (VBuilt, T') /\
             tree_decode 21 T' (2 ^ 64 - 1) = Undef (OobRead ABase).
Proof.
  split.
  - unfold tree_pre. split; [cbn; lia|]. split; [repeat constructor; cbn; lia|]. split; [reflexivity|].
    unfold tree_wf. repeat split; reflexivity.
  - eexists. split; [vm_compute; reflexivity|]. vm_compute. reflexivity.
Qed.

(* (d) the decode sequence computes the canonical bit-by-bit decoder of Dec/Format.v on the bits of v:
   it returns the internal symbol [isym alpha a] of the alphabet index a that [decode_sym lens] reads from
   the 64 buffer bits (msb first), and k is the number of bits [decode_sym] consumed *)
Theorem tree_decode_correct : forall lens pad T T' v, tree_pre lens pad T ->
  make_tree (N.of_nat (length lens)) (lens ++ pad) T = Done (VBuilt, T') ->
  v < 2 ^ 64 - 1 ->
  exists a k rest,
    tree_decode (N.of_nat (length lens)) T' v =
      Done (isym (N.of_nat (length lens)) a, N.of_nat k, (v * 2 ^ N.of_nat k) mod 2 ^ 64) /\
    (1 <= k <= 20)%nat /\ a < N.of_nat (length lens) /\
    run (decode_sym lens) (bits_msb 64 v) = Ok (a, rest) /\
    rest = bits_msb (64 - k) v /\ length rest = (64 - k)%nat.
Proof.
  intros lens pad T T' v Hpre E Hv.
  destruct (built_tree_ok lens pad T T' Hpre E) as [OK Hfull].
  destruct (tree_pre_unfold lens pad T Hpre) as [Hok [Hn3 [Hn _]]].
  destruct (tree_decode_spec lens Hok ltac:(lia) Hfull T' OK v Hv) as [s [k [Ed [Hk [Hi [a [Ha [Ea Es]]]]]]]].
  exists a, k, (bits_msb (64 - k) v). subst s. split; [exact Ed|]. split; [exact Hk|]. split; [exact Ha|].
  split; [|split; [reflexivity|apply bits_msb_length]].
  pose proof (top_bits lens v k Hk Hi) as TB. set (C := v / 2 ^ (64 - N.of_nat k)) in *.
  replace 64%nat with (k + (64 - k))%nat at 1 by lia. rewrite bits_msb_split.
  replace (N.of_nat (64 - k)) with (64 - N.of_nat k) by lia. fold C.
  unfold decode_sym. rewrite counts_cnt.
  pose proof (dsym_run lens (sorted_syms lens) C k (bits_msb (64 - k) v) ltac:(lia) TB k 0%nat ltac:(lia) ltac:(lia)) as R.
  assert (Z : N.shiftr C (N.of_nat k) = 0).
  { rewrite N.shiftr_div_pow2. apply N.div_small. unfold C.
    apply N.div_lt_upper_bound; [apply N.pow_nonzero; discriminate|].
    rewrite <- N.pow_add_r. replace (64 - N.of_nat k + N.of_nat k) with 64 by lia. lia. }
  rewrite Z in R. cbn [N.mul] in R.
  change (FF lens 0) with 0 in R. change (IDX lens 0) with 0 in R. change (20 - 0)%nat with 20%nat in R.
  rewrite R. rewrite Ea. reflexivity.
Qed.

(* the hypotheses are satisfiable on non-trivial instances *)
Example tree_pre_example : tree_pre lens21 (fill 237 0xAA) garbage_tree /\ kraft lens21 = kraft_full.
Proof. split; [apply tree_decode_allones_oob|reflexivity]. Qed.

Print Assumptions make_tree_safe.
Print Assumptions make_tree_verdict.
Print Assumptions make_tree_verdict_policy.
Print Assumptions built_tree_sentinel.
Print Assumptions tree_decode_safe.
Print Assumptions tree_decode_allones_oob.
Print Assumptions tree_decode_correct.
