(* C08, prefix-code decoding tables of the decompressor (src/decode.c).

   ARRAY-LEVEL model of make_tree() and of the decode sequence that occurs twice
   in retrieve():

       x = T->start[PEEK(HUFF_START_WIDTH)];  k = x & 0x1F;
       if (k <= HUFF_START_WIDTH) s = x >> 5;
       else { while (v >= T->base[k + 1]) k++;
              s = T->perm[T->count[k] + ((v - T->base[k]) >> (64 - k))]; }
       DUMP(k);

   Conventions
   * arrays are [list N] of the declared C lengths (struct tree: start[1 << HUFF_START_WIDTH],
     base[MAX_CODE_LENGTH + 2], count[MAX_CODE_LENGTH + 1], perm[MAX_ALPHA_SIZE]); they are read and
     written only through [aget]/[aset], which stop the computation with [Undef (OobRead a)] /
     [Undef (OobWrite a)] on an index outside the list;
   * the monad [M] stops at the first event that is undefined in C ([Undef u]): out-of-bounds access,
     shift count >= width of the (promoted) left operand, signed overflow, a failing assert()
     (abort() with assertions compiled in), and -- a value distinct from all normal ones -- fuel
     exhaustion of a [while] loop;
   * unsigned arithmetic is written with the explicit modulus of its C type:
       unsigned / uint32_t : mod 2^32      uint64_t : mod 2^64      uint16_t (stores) : mod 2^16
     the usual arithmetic conversions are applied by hand (e.g. [code += inc] with unsigned code and
     uint64_t inc is computed in 64 bits and truncated to 32);
   * loops: a C [for] with constant bounds is a fold over the list of its index values
     ([for_loop] over [nrange]); [while]/[do-while] loops and [for] loops whose condition reads
     memory are [while]/[do_while] with fuel (the fuel is never the reason a loop stops: theorem
     statements exclude [Undef OutOfFuel]).
   * asserts: numbered 1..10 top to bottom in make_tree(); assert 4 (k == MAX_CODE_LENGTH + 1) and
     assert 8 (k == HUFF_START_WIDTH + 1) only restate the exit value of the preceding for loop and
     are built into the model (the next loop starts from that value);
   * rs->code_len[] is the list L of its declared length MAX_ALPHA_SIZE, of which make_tree() reads the
     first n = rs->alpha_size entries; the tree T passed in carries arbitrary previous contents
     (the retriever state comes from xmalloc(), and a tree slot is reused from block to block);
   * not modelled: the counter w of valid bits in DUMP(k) (unsigned, no undefined event; the theorems
     take "v < 2^64 - 1", which follows from w <= 63, as a precondition on the buffer value).
   The C statement each piece stands for is quoted next to it.
   Tied to src/decode.c by checks/safe_tree.py (harness/safe_h_tree.c vs the extraction of this file). *)
From Coq Require Import List NArith Arith Bool.
From LBZ Require Import Gen.Consts Gen.DecTabs.
Import ListNotations.
Local Open Scope N_scope.

(* ---- undefined-behaviour monad ------------------------------------------------------------ *)
Inductive arr := AStart | ABase | ACount | APerm | ALen.

Inductive ub :=
| OobRead (a : arr)        (* read outside the declared array *)
| OobWrite (a : arr)       (* write outside the declared array *)
| UninitRead (a : arr)     (* read of perm[] at or above alpha_size (never written by make_tree) *)
| BadShift                 (* shift count >= width of the promoted left operand *)
| IntOverflow              (* signed int result not representable *)
| AssertFail (id : N)      (* assert() fails; ids number the asserts of make_tree top to bottom *)
| OutOfFuel.               (* model artefact, excluded by the theorems *)

Inductive M (A : Type) := Done (a : A) | Undef (u : ub).
Arguments Done {A} a.
Arguments Undef {A} u.

Definition bindM {A B} (m : M A) (f : A -> M B) : M B :=
  match m with Done a => f a | Undef u => Undef u end.
Notation "x <~ p ;; q" := (bindM p (fun x => q)) (at level 61, p at next level, right associativity).

Definition assert (id : N) (b : bool) : M unit := if b then Done tt else Undef (AssertFail id).

(* ---- arrays --------------------------------------------------------------------------------- *)
Fixpoint upd (i : nat) (x : N) (l : list N) : list N :=
  match l with
  | [] => []
  | y :: r => match i with O => x :: r | S i' => y :: upd i' x r end
  end.

Definition aget (a : arr) (l : list N) (i : N) : M N :=
  if i <? N.of_nat (length l) then Done (nth (N.to_nat i) l 0) else Undef (OobRead a).

Definition aset (a : arr) (l : list N) (i x : N) : M (list N) :=
  if i <? N.of_nat (length l) then Done (upd (N.to_nat i) x l) else Undef (OobWrite a).

(* ---- machine arithmetic ----------------------------------------------------------------------- *)
Definition W16 : N := 2 ^ 16.
Definition W32 : N := 2 ^ 32.
Definition W64 : N := 2 ^ 64.
Definition UINT64_MAX : N := W64 - 1.

Definition add32 (a b : N) : N := (a + b) mod W32.
Definition sub32 (a b : N) : N := (a + W32 - b mod W32) mod W32.   (* unsigned a - b *)
Definition add64 (a b : N) : N := (a + b) mod W64.
Definition sub64 (a b : N) : N := (a + W64 - b mod W64) mod W64.

(* uint64_t x << c, x >> c *)
Definition shl64 (x c : N) : M N := if c <? 64 then Done (N.shiftl x c mod W64) else Undef BadShift.
Definition shr64 (x c : N) : M N := if c <? 64 then Done (N.shiftr x c) else Undef BadShift.
(* unsigned x >> c *)
Definition shr32 (x c : N) : M N := if c <? 32 then Done (N.shiftr x c) else Undef BadShift.
(* (int)x << c for a non-negative int x: undefined unless c < 32 and the result fits in int *)
Definition shl_int (x c : N) : M N :=
  if c <? 32 then (if N.shiftl x c <? 2 ^ 31 then Done (N.shiftl x c) else Undef IntOverflow)
  else Undef BadShift.

(* ---- loops ------------------------------------------------------------------------------------ *)
Definition nrange (lo cnt : nat) : list N := map N.of_nat (seq lo cnt).

Fixpoint for_loop {St : Type} (ks : list N) (body : N -> St -> M St) (s : St) : M St :=
  match ks with
  | [] => Done s
  | k :: r => s' <~ body k s ;; for_loop r body s'
  end.

Fixpoint while {St : Type} (fuel : nat) (cond : St -> M bool) (body : St -> M St) (s : St) : M St :=
  match fuel with
  | O => Undef OutOfFuel
  | S f =>
      b <~ cond s ;;
      if b then s' <~ body s ;; while f cond body s' else Done s
  end.

Fixpoint do_while {St : Type} (fuel : nat) (body : St -> M St) (cond : St -> M bool) (s : St) : M St :=
  match fuel with
  | O => Undef OutOfFuel
  | S f =>
      s' <~ body s ;;
      b <~ cond s' ;;
      if b then do_while f body cond s' else Done s'
  end.

(* ---- struct tree -------------------------------------------------------------------------------- *)
Definition START_SIZE : N := N.shiftl 1 HUFF_START_WIDTH.   (* uint16_t start[1 << HUFF_START_WIDTH] *)
Definition BASE_SIZE : N := MAX_CODE_LENGTH + 2.             (* uint64_t base[MAX_CODE_LENGTH + 2]    *)
Definition COUNT_SIZE : N := MAX_CODE_LENGTH + 1.            (* unsigned count[MAX_CODE_LENGTH + 1]   *)
Definition PERM_SIZE : N := MAX_ALPHA_SIZE.                  (* uint16_t perm[MAX_ALPHA_SIZE]         *)
Definition LEN_SIZE : N := MAX_ALPHA_SIZE.                   (* uint8_t code_len[MAX_ALPHA_SIZE]      *)

Record tree := mk_tree { t_start : list N; t_base : list N; t_count : list N; t_perm : list N }.

Definition tree_wf (T : tree) : Prop :=
  N.of_nat (length (t_start T)) = START_SIZE /\ N.of_nat (length (t_base T)) = BASE_SIZE /\
  N.of_nat (length (t_count T)) = COUNT_SIZE /\ N.of_nat (length (t_perm T)) = PERM_SIZE.

(* internal symbol values (#define RUN_A (256+1), RUN_B (256+2), EOB 0) *)
Definition RUN_A : N := 256 + 1.
Definition RUN_B : N := 256 + 2.
Definition EOB : N := 0.

(* fuel of the loops: one more than the largest possible number of iterations *)
Definition FUEL_LEN : nat := N.to_nat BASE_SIZE + 1.
Definition FUEL_ALPHA : nat := N.to_nat MAX_ALPHA_SIZE + 1.
Definition FUEL_START : nat := N.to_nat START_SIZE + 1.

(* ---- make_tree(), phase by phase ---------------------------------------------------------------- *)
(* for (k = 0; k <= MAX_CODE_LENGTH; k++) C[k] = 0; *)
Definition ph_zero (C : list N) : M (list N) :=
  for_loop (nrange 0 (N.to_nat MAX_CODE_LENGTH + 1)) (fun k C => aset ACount C k 0) C.

(* for (s = 0; s < n; s++) { k = L[s]; C[k]++; } *)
Definition ph_count (n : N) (L C : list N) : M (list N) :=
  for_loop (nrange 0 (N.to_nat n))
    (fun s C => k <~ aget ALen L s ;; c <~ aget ACount C k ;; aset ACount C k (add32 c 1)) C.

(* sofar = 0;
   for (k = MIN_CODE_LENGTH; k <= MAX_CODE_LENGTH; k++) sofar += (uint64_t)C[k] << (MAX_CODE_LENGTH - k); *)
Definition ph_kraft (C : list N) : M N :=
  for_loop (nrange (N.to_nat MIN_CODE_LENGTH) (N.to_nat MAX_CODE_LENGTH + 1 - N.to_nat MIN_CODE_LENGTH))
    (fun k sofar => c <~ aget ACount C k ;; sh <~ shl64 c (sub32 MAX_CODE_LENGTH k) ;; Done (add64 sofar sh)) 0.

(* sofar = 0;
   for (k = MIN_CODE_LENGTH; k <= MAX_CODE_LENGTH; k++) {
     next = sofar + ((uint64_t)C[k] << (64 - k));
     assert(next == 0 || next >= sofar);
     B[k] = sofar;
     sofar = next;
   }
   assert(sofar == 0); *)
Definition ph_base (C B : list N) : M (list N) :=
  r <~ for_loop (nrange (N.to_nat MIN_CODE_LENGTH) (N.to_nat MAX_CODE_LENGTH + 1 - N.to_nat MIN_CODE_LENGTH))
         (fun k (st : list N * N) =>
            let B := fst st in let sofar := snd st in
            c <~ aget ACount C k ;;
            sh <~ shl64 c (sub32 64 k) ;;
            let next := add64 sofar sh in
            _ <~ assert 2 ((next =? 0) || (sofar <=? next)) ;;
            B' <~ aset ABase B k sofar ;;
            Done (B', next)) (B, 0) ;;
  _ <~ assert 3 (snd r =? 0) ;;
  Done (fst r).

(* assert(k == MAX_CODE_LENGTH + 1);     [k is the exit value of the for loop above]
   do {
     assert(k > MIN_CODE_LENGTH);
     assert(k > MAX_CODE_LENGTH || B[k] == 0);
     B[k--] = -1;
   } while (C[k] == 0); *)
Definition ph_sentinel (C B : list N) : M (list N) :=
  r <~ do_while FUEL_LEN
         (fun (st : list N * N) =>
            let B := fst st in let k := snd st in
            _ <~ assert 5 (MIN_CODE_LENGTH <? k) ;;
            ok <~ (if MAX_CODE_LENGTH <? k then Done true else b <~ aget ABase B k ;; Done (b =? 0)) ;;
            _ <~ assert 6 ok ;;
            B' <~ aset ABase B k UINT64_MAX ;;
            Done (B', sub32 k 1))
         (fun st => c <~ aget ACount C (snd st) ;; Done (c =? 0))
         (B, MAX_CODE_LENGTH + 1) ;;
  Done (fst r).

(* cum = 0;
   for (k = MIN_CODE_LENGTH; k <= MAX_CODE_LENGTH; k++) { uint32_t t1 = C[k]; C[k] = cum; cum += t1; }
   assert(cum == n); *)
Definition ph_cumul (n : N) (C : list N) : M (list N) :=
  r <~ for_loop (nrange (N.to_nat MIN_CODE_LENGTH) (N.to_nat MAX_CODE_LENGTH + 1 - N.to_nat MIN_CODE_LENGTH))
         (fun k (st : list N * N) =>
            let C := fst st in let cum := snd st in
            t1 <~ aget ACount C k ;;
            C' <~ aset ACount C k cum ;;
            Done (C', add32 cum t1)) (C, 0) ;;
  _ <~ assert 7 (snd r =? n) ;;
  Done (fst r).

(* P[C[L[s]]++] = val;     (val converted to uint16_t) *)
Definition sort_put (L : list N) (s val : N) (st : list N * list N) : M (list N * list N) :=
  let C := fst st in let P := snd st in
  l <~ aget ALen L s ;;
  c <~ aget ACount C l ;;
  P' <~ aset APerm P c (val mod W16) ;;
  C' <~ aset ACount C l (add32 c 1) ;;
  Done (C', P').

(* P[C[L[0]]++] = RUN_A;
   P[C[L[1]]++] = RUN_B;
   for (s = 2; s < n - 1; s++) P[C[L[s]]++] = s - 1;
   P[C[L[n - 1]]++] = EOB; *)
Definition ph_sort (n : N) (L C P : list N) : M (list N * list N) :=
  st <~ sort_put L 0 RUN_A (C, P) ;;
  st <~ sort_put L 1 RUN_B st ;;
  st <~ for_loop (nrange 2 (N.to_nat (sub32 n 1) - 2)) (fun s st => sort_put L s (sub32 s 1) st) st ;;
  sort_put L (sub32 n 1) EOB st.

(* while (v < code) S[v++] = x;        (v is uint64_t) *)
Definition fill_run (S : list N) (v code x : N) : M (list N * N) :=
  while FUEL_START
    (fun st => Done (snd st <? code))
    (fun st => S' <~ aset AStart (fst st) (snd st) x ;; Done (S', add64 (snd st) 1))
    (S, v).

(* body of  for (s = C[k - 1]; s < C[k]; s++) :
     uint16_t x = (P[s] << 5) | k;
     v = code;
     code += inc;
     while (v < code) S[v++] = x;
   state: (S, code, s) *)
Definition start_sym (P : list N) (k inc : N) (st : list N * N * N) : M (list N * N * N) :=
  let S := fst (fst st) in let code := snd (fst st) in let s := snd st in
  p <~ aget APerm P s ;;
  ps <~ shl_int p 5 ;;                         (* uint16_t promoted to int *)
  let x := N.lor ps k mod W16 in
  let v := code in
  let code' := add64 code inc mod W32 in       (* unsigned code, uint64_t inc *)
  r <~ fill_run S v code' x ;;
  Done (fst r, code', add32 s 1).

(* body of  for (k = 1; k <= HUFF_START_WIDTH; k++) :
     for (s = C[k - 1]; s < C[k]; s++) {...}
     inc >>= 1;
   state: (S, code, inc) *)
Definition start_len (C P : list N) (k : N) (st : list N * N * N) : M (list N * N * N) :=
  let S := fst (fst st) in let code := snd (fst st) in let inc := snd st in
  s0 <~ aget ACount C (sub32 k 1) ;;
  r <~ while FUEL_ALPHA
         (fun st' => ck <~ aget ACount C k ;; Done (snd st' <? ck))
         (start_sym P k inc)
         (S, code, s0) ;;
  inc' <~ shr64 inc 1 ;;
  Done (fst (fst r), snd (fst r), inc').

(* code = 0;
   inc = 1 << (HUFF_START_WIDTH - 1);
   for (k = 1; k <= HUFF_START_WIDTH; k++) {...}
   result: (S, code) *)
Definition ph_start_lut (C P S : list N) : M (list N * N) :=
  inc <~ shl_int 1 (HUFF_START_WIDTH - 1) ;;
  r <~ for_loop (nrange 1 (N.to_nat HUFF_START_WIDTH)) (start_len C P) (S, 0, inc) ;;
  Done (fst r).

(* while (x >= B[k + 1]) k++;       [shared by make_tree and the decode sequence] *)
Definition walk (B : list N) (x k : N) : M N :=
  while FUEL_LEN
    (fun k => b <~ aget ABase B (add32 k 1) ;; Done (b <=? x))
    (fun k => Done (add32 k 1))
    k.

(* assert(k == HUFF_START_WIDTH + 1);     [exit value of the for loop]
   sofar = (uint64_t)code << (64 - HUFF_START_WIDTH);
   while (code < (1 << HUFF_START_WIDTH)) {
     while (sofar >= B[k + 1]) k++;
     S[code] = k;
     code++;
     sofar += (uint64_t)1 << (64 - HUFF_START_WIDTH);
   }
   assert(sofar == 0);
   state: (S, code, k, sofar) *)
Definition ph_start_rest (B S : list N) (code : N) : M (list N) :=
  sofar <~ shl64 code (sub32 64 HUFF_START_WIDTH) ;;
  r <~ while FUEL_START
         (fun (st : list N * N * N * N) =>
            lim <~ shl_int 1 HUFF_START_WIDTH ;; Done (snd (fst (fst st)) <? lim))
         (fun (st : list N * N * N * N) =>
            let S := fst (fst (fst st)) in let code := snd (fst (fst st)) in
            let k := snd (fst st) in let sofar := snd st in
            k' <~ walk B sofar k ;;
            S' <~ aset AStart S code (k' mod W16) ;;
            one <~ shl64 1 (sub32 64 HUFF_START_WIDTH) ;;
            Done (S', add32 code 1, k', add64 sofar one))
         (S, code, HUFF_START_WIDTH + 1, sofar) ;;
  _ <~ assert 9 (snd r =? 0) ;;
  Done (fst (fst (fst r))).

(* for (k = MAX_CODE_LENGTH; k > 0; k--) C[k] = C[k - 1];
   assert(C[0] == 0); *)
Definition ph_restore (C : list N) : M (list N) :=
  C' <~ for_loop (rev (nrange 1 (N.to_nat MAX_CODE_LENGTH)))
          (fun k C => c <~ aget ACount C (sub32 k 1) ;; aset ACount C k c) C ;;
  c0 <~ aget ACount C' 0 ;;
  _ <~ assert 10 (c0 =? 0) ;;
  Done C'.

(* what make_tree() stores in rs->mtf[rs->t] *)
Inductive verdict := VBuilt | VIncomplete | VPrefix.

Definition verdict_code (t : N) (v : verdict) : N :=
  match v with VBuilt => t | VIncomplete => E_ERR_INCOMPLT | VPrefix => E_ERR_PREFIX end.

(* make_tree(rs) with n = rs->alpha_size, L = rs->code_len, T = rs->tree[rs->t] (any previous
   contents).  Returns the verdict and the tree as it is left behind. *)
Definition make_tree (n : N) (L : list N) (T : tree) : M (verdict * tree) :=
  let S := t_start T in let B := t_base T in let P := t_perm T in
  C <~ ph_zero (t_count T) ;;
  C <~ ph_count n L C ;;
  c0 <~ aget ACount C 0 ;;
  _ <~ assert 1 (c0 =? 0) ;;                              (* assert(C[0] == 0) *)
  sofar <~ ph_kraft C ;;
  full <~ shl_int 1 MAX_CODE_LENGTH ;;                    (* 1 << MAX_CODE_LENGTH *)
  if negb (sofar =? full) then                            (* if (sofar != (1 << MAX_CODE_LENGTH)) *)
    Done (if sofar <? full then VIncomplete else VPrefix, mk_tree S B C P)
  else
    B <~ ph_base C B ;;
    B <~ ph_sentinel C B ;;
    C <~ ph_cumul n C ;;
    CP <~ ph_sort n L C P ;;
    let C := fst CP in let P := snd CP in
    Sc <~ ph_start_lut C P S ;;
    S <~ ph_start_rest B (fst Sc) (snd Sc) ;;
    C <~ ph_restore C ;;
    Done (VBuilt, mk_tree S B C P).

(* ---- the decode sequence of retrieve() -------------------------------------------------------------- *)
(* reading perm[]: only the first alpha_size entries were written by make_tree *)
Definition aget_perm (n : N) (P : list N) (i : N) : M N :=
  if i <? n then aget APerm P i else
  if i <? N.of_nat (length P) then Undef (UninitRead APerm) else Undef (OobRead APerm).

(* v: the 64-bit bit buffer.  Result: (s, k, v after DUMP(k)). *)
Definition tree_decode (n : N) (T : tree) (v : N) : M (N * N * N) :=
  c <~ shr64 v (sub32 64 HUFF_START_WIDTH) ;;               (* PEEK(HUFF_START_WIDTH) *)
  x <~ aget AStart (t_start T) c ;;                         (* x = T->start[...] *)
  let k := N.land x 31 in                                   (* k = x & 0x1F *)
  sk <~ (if k <=? HUFF_START_WIDTH then
           s <~ shr32 x 5 ;; Done (s, k)                    (* s = x >> 5 *)
         else
           k <~ walk (t_base T) v k ;;                      (* while (v >= T->base[k + 1]) k++; *)
           ck <~ aget ACount (t_count T) k ;;
           bk <~ aget ABase (t_base T) k ;;
           sh <~ shr64 (sub64 v bk) (sub32 64 k) ;;         (* (v - T->base[k]) >> (64 - k) *)
           s <~ aget_perm n (t_perm T) (add64 ck sh) ;;
           Done (s, k)) ;;
  v' <~ shl64 v (snd sk) ;;                                 (* DUMP(k): v <<= k *)
  Done (fst sk, snd sk, v').

(* ---- internal symbol numbering ------------------------------------------------------------------------ *)
(* alphabet index a (0 = RUNA, 1 = RUNB, 2.. = MTF position a-1, alpha-1 = EOB) -> value stored in perm[] *)
Definition isym (n a : N) : N :=
  if a =? 0 then RUN_A else if a =? 1 then RUN_B else if a =? n - 1 then EOB else a - 1.

(* ---- tests ---------------------------------------------------------------------------------------------- *)
Definition fill (len : N) (x : N) : list N := repeat x (N.to_nat len).
Definition garbage_tree : tree :=
  mk_tree (fill START_SIZE 0xAAAA) (fill BASE_SIZE 0xAAAAAAAAAAAAAAAA) (fill COUNT_SIZE 0xAAAAAAAA) (fill PERM_SIZE 0xAAAA).
Definition pad_len (lens : list N) : list N := lens ++ fill (LEN_SIZE - N.of_nat (length lens)) 0xAA.

Definition build (lens : list N) : M (verdict * tree) :=
  make_tree (N.of_nat (length lens)) (pad_len lens) garbage_tree.
