(* C08, arithmetic and index discipline of retrieve() on the abstract block
   reader: every quantity that the C code uses as an array index or shift count
   is bounded by the corresponding regenerated array size / type width. *)
From Coq Require Import List NArith Arith Bool Lia.
From LBZ Require Import Common.Bits Dec.Prog Dec.Sim Dec.Format Dec.DecProofs Gen.Consts Gen.DecTabs.
Import ListNotations.
Local Open Scope N_scope.

(* ---- run-length accumulation: `if (IS_RUN(s) && run <= MAX_BLOCK_SIZE) run += RUN(s) << shift++` ---- *)
(* s = 0 (RUN_A, adds 1 << shift) or 1 (RUN_B, adds 2 << shift) *)
Definition acc_run (run shift s : N) : option (N * N) :=
  if run <=? MAX_BLOCK_SIZE then Some (run + N.shiftl (s + 1) shift, shift + 1) else None.

(* invariant: run >= 2^shift - 1 (every digit so far added at least 1 << its position) *)
Definition run_inv (run shift : N) : Prop := 2 ^ shift <= run + 1.

Lemma run_inv_init : run_inv 0 0 /\ run_inv 1 0.
Proof. unfold run_inv. simpl. lia. Qed.

Lemma acc_run_safe run shift s run' shift' :
  s <= 1 -> run_inv run shift -> acc_run run shift s = Some (run', shift') ->
  shift < 32 /\ N.shiftl (s + 1) shift < 2 ^ 32 /\ run' < 2 ^ 32 /\ run_inv run' shift'.
Proof.
  unfold acc_run, run_inv. intros Hs Hinv H.
  destruct (N.leb_spec run MAX_BLOCK_SIZE) as [Hle|]; [|discriminate]. inversion H; subst; clear H.
  assert (HM : MAX_BLOCK_SIZE < 2 ^ 20) by (vm_compute; reflexivity).
  assert (Hsh : shift <= 20).
  { destruct (N.le_gt_cases shift 20) as [|Hgt]; [assumption|exfalso].
    assert (2 ^ 21 <= 2 ^ shift) by (apply N.pow_le_mono_r; lia). lia. }
  rewrite N.shiftl_mul_pow2.
  assert (P : 2 ^ shift <= 2 ^ 20) by (apply N.pow_le_mono_r; lia).
  assert (E20 : 2 ^ 20 = 1048576) by reflexivity. assert (E32 : 2 ^ 32 = 4294967296) by reflexivity.
  repeat split; try nia. rewrite N.add_1_r at 1. rewrite N.pow_succ_r'. nia.
Qed.

(* every accumulation site of retrieve() (fast path with local variables, slow resumable path) is
   guarded by `run <= limit` with limit <= MAX_BLOCK_SIZE: regenerated list, one entry per site *)
Definition run_guard_ok (g : option N) : bool :=
  match g with Some l => l <=? MAX_BLOCK_SIZE | None => false end.

Lemma run_acc_guards_ok : forallb run_guard_ok run_acc_guards = true /\ (2 <= length run_acc_guards)%nat.
Proof. split; [vm_compute; reflexivity|vm_compute; lia]. Qed.

Lemma guarded_site_safe g lim run shift s :
  In g run_acc_guards -> g = Some lim -> s <= 1 -> run_inv run shift -> run <= lim ->
  shift < 32 /\ N.shiftl (s + 1) shift < 2 ^ 32 /\ run + N.shiftl (s + 1) shift < 2 ^ 32.
Proof.
  intros Hin -> Hs Hinv Hle.
  destruct run_acc_guards_ok as [Hall _]. rewrite forallb_forall in Hall. specialize (Hall _ Hin).
  cbn [run_guard_ok] in Hall. apply N.leb_le in Hall.
  assert (A : acc_run run shift s = Some (run + N.shiftl (s + 1) shift, shift + 1)).
  { unfold acc_run. destruct (N.leb_spec run MAX_BLOCK_SIZE) as [|C]; [reflexivity|lia]. }
  destruct (acc_run_safe _ _ _ _ _ Hs Hinv A) as (B & C & D & _). auto.
Qed.

Lemma filter_len_le {A} (f : A -> bool) l : (length (filter f l) <= length l)%nat.
Proof. induction l as [|x l IH]; simpl; [lia|]. destruct (f x); simpl; lia. Qed.

(* ---- sizes read from the block header --------------------------------------------------------- *)
Local Opaque seq N.mul.

Lemma read_smalls_bound big : forall n i bits used r,
  run (read_smalls big i n) bits = Ok (used, r) ->
  (length used <= 16 * n)%nat /\ Forall (fun c => c < 16 * N.of_nat (i + n)) used.
Proof.
  induction n as [|n IH]; intros i bits used r H; cbn [read_smalls] in H.
  - inversion H; subst. simpl. split; [lia|constructor].
  - destruct (testbit16 big i).
    + rewrite run_bind in H. destruct (run (take 16) bits) as [[s r1]|e]; [|discriminate].
      rewrite run_bind in H. destruct (run (read_smalls big (S i) n) r1) as [[rest r2]|e] eqn:E; [|discriminate].
      cbn [run] in H. injection H as Hu Hr. subst used r. apply IH in E as [L F]. split.
      * rewrite app_length, map_length.
        assert (length (filter (testbit16 s) (seq 0 16)) <= 16)%nat.
        { etransitivity; [apply filter_len_le|]. rewrite seq_length. lia. }
        lia.
      * apply Forall_app. split.
        -- apply Forall_forall. intros c Hc. apply in_map_iff in Hc as [j [Hj Hin]]. apply filter_In in Hin as [Hin _].
           apply in_seq in Hin. subst c. lia.
        -- eapply Forall_impl; [|exact F]. intros c Hc. simpl in Hc. lia.
    + apply IH in H as [L F]. split; [lia|]. eapply Forall_impl; [|exact F]. intros c Hc. simpl in Hc. lia.
Qed.

Local Transparent seq N.mul.

Lemma read_bitmap_bound bits used r : run read_bitmap bits = Ok (used, r) ->
  (length used <= 256)%nat /\ Forall (fun c => c < 256) used.
Proof.
  unfold read_bitmap. rewrite run_bind. destruct (run (take 16) bits) as [[big r1]|e]; [|discriminate].
  intro H. apply read_smalls_bound in H as [L F]. split; [lia|]. eapply Forall_impl; [|exact F]. intros c Hc. simpl in Hc. lia.
Qed.

Lemma repeat_prog_length {A} (p : prog A) : forall n bits l r, run (repeat_prog n p) bits = Ok (l, r) -> length l = n.
Proof.
  induction n as [|n IH]; intros bits l r H; cbn [repeat_prog] in H.
  - inversion H; reflexivity.
  - rewrite run_bind in H. destruct (run p bits) as [[x r1]|e]; [|discriminate].
    rewrite run_bind in H. destruct (run (repeat_prog n p) r1) as [[xs r2]|e] eqn:E; [|discriminate].
    cbn [run] in H. inversion H; subst. simpl. f_equal. eapply IH. exact E.
Qed.

(* what retrieve() indexes with: alpha_size <= MAX_ALPHA_SIZE (code_len[], perm[]),
   num_trees <= MAX_TREES (tree[], mtf[]), num_selectors <= MAX_SELECTORS (selector[]) *)
Theorem read_block_index_bounds pol fuel bits rb r :
  run (read_block pol fuel) bits = Ok (rb, r) ->
  (1 <= length (rb_used rb) <= 256)%nat /\ Forall (fun c => c < 256) (rb_used rb) /\
  N.of_nat (length (rb_used rb)) + 2 <= MAX_ALPHA_SIZE /\
  2 <= rb_ntrees rb <= MAX_TREES /\ length (rb_tables rb) = N.to_nat (rb_ntrees rb) /\
  1 <= rb_nsel rb <= MAX_SELECTORS.
Proof.
  unfold read_block. intro H.
  rewrite run_bind in H. destruct (run (take 1) bits) as [[rnd r1]|e]; [|discriminate].
  rewrite run_bind in H. destruct (run (take 24) r1) as [[idx r2]|e]; [|discriminate].
  rewrite run_bind in H. destruct (run read_bitmap r2) as [[used r3]|e] eqn:Eb; [|discriminate].
  apply read_bitmap_bound in Eb as [Lu Fu].
  rewrite run_bind in H. unfold guard in H at 1.
  destruct (negb (N.of_nat (length used) =? 0)) eqn:G1; cbn [run] in H; [|discriminate].
  rewrite run_bind in H. destruct (run (take 3) r3) as [[nt r4]|e] eqn:E3; [|discriminate].
  rewrite run_bind in H. unfold guard in H at 1.
  destruct ((2 <=? nt) && (nt <=? 6))%bool eqn:G2; cbn [run] in H; [|discriminate].
  rewrite run_bind in H. destruct (run (take 15) r4) as [[ns r5]|e] eqn:E15; [|discriminate].
  rewrite run_bind in H. unfold guard in H at 1.
  destruct (negb (ns =? 0)) eqn:G3; cbn [run] in H; [|discriminate].
  rewrite run_bind in H. destruct (run (repeat_prog (N.to_nat ns) (read_unary (N.to_nat nt) 0)) r5) as [[selm r6]|e]; [|discriminate].
  rewrite run_bind in H.
  destruct (run (repeat_prog (N.to_nat nt) (read_table pol fuel (length used + 2))) r6) as [[tables r7]|e] eqn:Et; [|discriminate].
  rewrite run_bind in H.
  destruct (run (read_groups pol tables (N.of_nat (length used + 2) - 1)
                 (unmtf_selectors [0; 1; 2; 3; 4; 5] (firstn (N.to_nat (sel_clamp pol)) selm))) r7) as [[mtfv r8]|e]; [|discriminate].
  cbn [run] in H. inversion H; subst; clear H. cbn [rb_used rb_ntrees rb_tables rb_nsel].
  apply negb_true_iff in G1. apply N.eqb_neq in G1. apply andb_true_iff in G2 as [G2a G2b].
  apply N.leb_le in G2a. apply N.leb_le in G2b. apply negb_true_iff in G3. apply N.eqb_neq in G3.
  apply take_lt in E15. apply repeat_prog_length in Et.
  assert (MAX_ALPHA_SIZE = 258) by reflexivity. assert (MAX_TREES = 6) by reflexivity.
  assert (MAX_SELECTORS = 32767) by reflexivity. assert (2 ^ N.of_nat 15 = 32768) by reflexivity.
  repeat split; try lia; auto.
Qed.

(* ---- a reader program can be fed its input in pieces: the result is the same -------------- *)
(* This is the abstract content of the NEED()/SAVE()/RESTORE() suspension of retrieve():
   suspending a reader when it runs out of bits and resuming it with more bits later
   gives what reading the concatenation gives. *)
Fixpoint feed {A} (p : prog A) (bits : list bool) : prog A + result (A * list bool) :=
  match p with
  | Ret a => inr (Ok (a, bits))
  | Fail e => inr (Err e)
  | Bit k => match bits with
             | [] => inl p                       (* suspended: needs more input *)
             | b :: r => feed (k b) r
             end
  end.

Fixpoint feed_all {A} (p : prog A) (chunks : list (list bool)) : prog A + result (A * list bool) :=
  match chunks with
  | [] => inl p
  | c :: cs => match feed p c with
               | inl p' => feed_all p' cs
               | inr (Ok (a, rest)) => inr (Ok (a, rest ++ concat cs))
               | inr (Err e) => inr (Err e)
               end
  end.

Definition finish {A} (s : prog A + result (A * list bool)) : result (A * list bool) :=
  match s with
  | inr r => r
  | inl p => run p []          (* end of input while suspended *)
  end.

Lemma feed_run {A} (p : prog A) : forall bits rest,
  match feed p bits with
  | inl p' => run p (bits ++ rest) = run p' rest
  | inr (Ok (a, r)) => run p (bits ++ rest) = Ok (a, r ++ rest)
  | inr (Err e) => run p (bits ++ rest) = Err e
  end.
Proof.
  induction p as [a|k IH|e]; intros bits rest; cbn [feed].
  - reflexivity.
  - destruct bits as [|b r]; [reflexivity|]. cbn [app run]. apply IH.
  - reflexivity.
Qed.

Theorem feed_chunking {A} (p : prog A) : forall chunks,
  finish (feed_all p chunks) = run p (concat chunks).
Proof.
  intros chunks. revert p. induction chunks as [|c cs IH]; intro p; cbn [feed_all concat].
  - reflexivity.
  - pose proof (feed_run p c (concat cs)) as F. destruct (feed p c) as [p'|[[a r]|e]].
    + rewrite F. apply IH.
    + cbn [finish]. symmetry. exact F.
    + cbn [finish]. symmetry. exact F.
Qed.
