(* C08/C09, retrieve(): SAFETY and TERMINATION of the statement-level model (Safe/RetrModel.v) for any input words and
   any chunking, and with them the clean form of CHUNK INDEPENDENCE.

   [Inv p c]: the invariant at control point p (Safe/RetrInv.v) plus the bit-buffer facts; the block lemmas of
   Safe/RetrStepHdr.v, RetrStepSel.v, RetrStepSym.v show that every block preserves it without a fault.  Here:
   NEED (a word < 2^32 is loaded only when w < 32), the fast path (NEED_FAST never reads past the chunk: a group
   takes at most 50 * 20 bits and at least 32 words = 1024 bits are there), the measure that bounds the number of
   passes by [call_fuel], the calls and the chunk driver. *)
From Coq Require Import List NArith Arith Bool Lia ZifyBool ZifyNat ZifyN.
From LBZ Require Import Common.Bits Gen.Consts Gen.DecTabs Dec.Prog Dec.Format Safe.TreeModel Safe.TreeLemmas Safe.TreeProofs
                        Safe.RetrModel Safe.RetrChunk Safe.RetrInv Safe.RetrStepHdr Safe.RetrStepSel Safe.RetrStepSym.
From LBZ Require Safe.SlideModel Safe.SlideProofs.
Import ListNotations.
Local Open Scope N_scope.

Definition wlo (p : pc) : N := match p with P_GROUP => 12 | _ => 32 end.

Definition Jp (p : pc) (c : core) : Prop :=
  match p with
  | A_BWT_IDX => J_bwt c
  | A_BITMAP_BIG => J_big c
  | A_BITMAP_SMALL => exists i flags, J_bm c i flags
  | A_SELECTOR_MTF => exists flags, J_selN c flags
  | A_DELTA_TAG => exists flags, J_deltaN c flags
  | A_PREFIX => exists order, J_prefix c order
  | P_TREE => exists flags, J_tree c flags
  | P_GROUP => exists order, J_group c order
  end.

Definition Inv (p : pc) (c : core) : Prop := Jp p c /\ buf_ok c /\ wlo p <= c_w c.
Definition words_ok (nx : list N) : Prop := Forall (fun x => x < 2 ^ 32) nx.
Definition bitsleft (c : core) (nx : list N) : N := c_w c + 32 * N.of_nat (length nx).
Definition sigma (p : pc) : N := match p with A_PREFIX => 0 | P_GROUP => 1 | P_TREE => 2 | _ => 3 end.
Definition phi (p : pc) (c : core) (nx : list N) : N := 4 * bitsleft c nx + sigma p.

(* the J_x do not look at v, w *)
Lemma Jp_bufset p c v w : Jp p c -> Jp p (bufset c v w).
Proof. dcore c. destruct p as [[]| |]; exact (fun H => H). Qed.

Lemma J_group_j c order x : J_group c order -> J_group (set_r_j c x) order.
Proof. dcore c. exact (fun H => H). Qed.

(* what a block of the slow machine leaves behind *)
Definition bres_ok (p : pc) (c : core) (r : bres) : Prop :=
  match r with
  | BGo p' c' => Inv p' c' /\ 4 * c_w c' + sigma p' < 4 * c_w c + sigma p
  | BNeed s c' => Jp (After s) c' /\ buf_ok c' /\ 4 * c_w c' + sigma (After s) < 4 * c_w c + sigma p
  | BRet _ _ => True
  | BEob _ => True
  | BFault _ => False
  end.

Lemma J_deltaN_delta c flags : J_deltaN c flags -> J_delta c flags 31.
Proof.
  intros [(A & B & C & D & E & F & G) H]. unfold J_delta. split; [exact A|]. split; [exact B|]. split; [exact C|].
  split; [exact D|]. split; [exact E|]. split; [exact F|]. intro X. specialize (G X). lia.
Qed.

Lemma group_slow_ok c order : J_group c order -> buf_ok c -> 12 <= c_w c ->
  bres_ok P_GROUP c (fst (group_head false c [])).
Proof.
  intros HJ HB Hw. unfold group_head. pose proof (group_select_ok c order HJ) as G.
  destruct (group_select c) as [c1|r]; cbn [andb fst].
  - destruct G as (HJ1 & Hg & Ht & HT & Ev & Ew).
    unfold slow_head. replace (r_j (set_r_j c1 0)) with 0 by (dcore c1; reflexivity).
    change (0 <? GROUP_SIZE) with true. cbn iota. cbn [bres_ok]. unfold sigma.
    split; [|split].
    + exists order. unfold J_prefix. split; [apply J_group_j; exact HJ1|].
      dcore c1. rsa. repeat split; auto; lia.
    + destruct HB as (q & Hq). exists q. eapply buf_is_frame; [| |exact Hq]; dcore c1; rsa; auto.
    + replace (c_w (set_r_j c1 0)) with (c_w c1) by (dcore c1; reflexivity). lia.
  - destruct r; cbn [bres_ok]; auto; contradiction.
Qed.

Lemma sstep_ok p c : Inv p c -> bres_ok p c (sstep p c).
Proof.
  intros (HJ & HB & Hw). unfold sstep. destruct p as [[]| |]; cbn [step step_core fst Jp wlo] in *.
  - (* A_BWT_IDX *)
    destruct (after_bwt_idx_ok c HJ HB Hw) as (c' & -> & J' & B' & W). cbn [bres_ok Jp]. unfold sigma.
    split; [exact J'|]. split; [exact B'|lia].
  - pose proof (after_bitmap_big_ok c HJ HB Hw) as A. destruct (after_bitmap_big c) as [| [] c'| | |]; cbn [bres_ok]; auto; try contradiction.
    destruct A as (i' & fl & J' & B' & W). cbn [Jp]. unfold sigma. split; [eauto|]. split; [exact B'|lia].
  - destruct HJ as (i & fl & HJ). unfold after_bitmap_small.
    pose proof (bitmap_from_inner_ok 16 c i fl HJ HB ltac:(lia) ltac:(lia) (or_introl Hw)) as A.
    destruct (bitmap_from_inner 16 c) as [| [] c'| | |]; cbn [bres_ok]; auto; try contradiction.
    + destruct A as (i' & fl' & J' & B' & W). cbn [Jp]. unfold sigma. split; [eauto|]. split; [exact B'|lia].
    + destruct A as (fl' & J' & B' & W & _). cbn [Jp]. unfold sigma. split; [eauto|]. split; [exact B'|lia].
  - (* A_SELECTOR_MTF *)
    destruct HJ as (fl & HJ). unfold after_selector_mtf.
    set (c1 := set_r_j c (add32 (r_j c) 1)).
    assert (J1 : J_selH c1 fl).
    { destruct HJ as (Hh & Hj & Hs). unfold J_selH. destruct Hh as (A1 & A2 & A3 & A4 & A5 & A6 & A7).
      assert (E : add32 (r_j c) 1 = r_j c + 1) by (apply add32_small; rewrite W32_val; lia).
      subst c1. rewrite E. dcore c. rsa. split; [|split; [lia|exact Hs]]. unfold J_hdr. rsa. auto 10. }
    assert (B1 : buf_ok c1) by (destruct HB as (q & Hq); exists q; eapply buf_is_frame; [| |exact Hq]; subst c1; dcore c; auto).
    assert (W1 : c_w c1 = c_w c) by (subst c1; dcore c; reflexivity).
    pose proof (sel_head_ok c1 fl J1 B1 ltac:(lia) ltac:(lia)) as A.
    destruct (sel_head c1) as [| [] c'| | |]; cbn [bres_ok]; auto; try contradiction.
    + destruct A as (J' & B' & W & _). cbn [Jp]. unfold sigma. split; [eauto|]. split; [exact B'|lia].
    + destruct A as (J' & B' & W). cbn [Jp]. unfold sigma. split; [eauto|]. split; [exact B'|lia].
  - (* A_DELTA_TAG *)
    destruct HJ as (fl & HJ). unfold after_delta_tag.
    pose proof (delta_head_ok c fl (J_deltaN_delta _ _ HJ) HB ltac:(lia)) as A.
    destruct (delta_head c) as [[[]| |] c'| [] c'| | |]; cbn [bres_ok]; auto; try contradiction.
    + destruct A as (J' & B' & W). unfold Inv. cbn [Jp wlo]. unfold sigma. split; [|lia]. split; [eauto|]. split; [exact B'|lia].
    + destruct A as (J' & B' & W & _). cbn [Jp]. unfold sigma. split; [eauto|]. split; [exact B'|lia].
  - (* A_PREFIX *)
    destruct HJ as (od & HJ). pose proof (after_prefix_ok c od HJ HB Hw) as A.
    destruct (after_prefix c) as [[[]| |] c'| [] c'| | |]; cbn [bres_ok]; auto; try contradiction.
    + destruct A as (od' & J' & B' & W1 & W2). unfold Inv. cbn [Jp wlo]. unfold sigma. split; [|lia]. split; [eauto|]. split; [exact B'|lia].
    + destruct A as (od' & J' & B' & W1 & W2). cbn [Jp]. unfold sigma. split; [eauto|]. split; [exact B'|lia].
  - (* P_TREE *)
    destruct HJ as (fl & HJ). pose proof (tree_head_ok c fl HJ HB Hw) as A.
    destruct (tree_head c) as [[[]| |] c'| [] c'| | |]; cbn [bres_ok]; auto; try contradiction.
    + destruct A as (od & J' & B' & W). unfold Inv. cbn [Jp wlo]. unfold sigma. split; [|lia]. split; [eauto|]. split; [exact B'|lia].
    + destruct A as (J' & B' & W). cbn [Jp]. unfold sigma. split; [eauto|]. split; [exact B'|lia].
  - (* P_GROUP *)
    destruct HJ as (od & HJ). exact (group_slow_ok c od HJ HB Hw).
Qed.

(* ---- NEED ---------------------------------------------------------------------------------------------------------- *)
(* what a suspended call leaves in the state *)
Definition MoreInv (st : rstate) : Prop :=
  exists s, s_state st = state_no s /\ Jp (After s) (s_core st) /\ buf_ok (s_core st) /\ c_w (s_core st) < 32 /\
            b_live st = c_w (s_core st) /\ b_buff st = c_v (s_core st) /\ d_block_size st = c_ttp (s_core st).

Definition final_ok (r : cres) : Prop :=
  match r with RFault _ => False | RMore st => MoreInv st | _ => True end.

Lemma need_ok s st : Jp (After s) (s_core st) -> buf_ok (s_core st) -> words_ok (l_next st) ->
  match need_at s st with
  | NGo st' => Inv (After s) (s_core st') /\ words_ok (l_next st') /\
               bitsleft (s_core st') (l_next st') = bitsleft (s_core st) (l_next st) \/
               (* no load and still fewer than 32 bits: cannot happen *) False
  | NRet r => final_ok r
  end.
Proof.
  intros HJ HB HW. unfold need_at. destruct (N.ltb_spec (c_w (s_core st)) 32) as [Hlt|Hge].
  - destruct (l_next st) as [|x r] eqn:EN.
    + cbn [save b_eof]. destruct (b_eof st); cbn [final_ok]; [exact I|].
      exists s. destruct st as [c nx ss bl bb bd be bs]. cbn in *. repeat split; auto.
    + inversion HW as [|? ? Hx Hr]; subst. destruct HB as (q & Hq).
      destruct (load_ok (s_core st) q x Hq Hlt Hx) as (c' & -> & Ec & Hq'). left.
      cbn [s_core with_next with_core l_next]. split; [|split].
      * unfold Inv. split; [|split].
        -- rewrite Ec. apply (Jp_bufset (After s) (s_core st)). exact HJ.
        -- exists (q * 2 ^ 32 + x). exact Hq'.
        -- cbn [wlo]. rewrite Ec. replace (c_w (set_c_w _ _)) with (c_w (s_core st) + 32) by (dcore (s_core st); reflexivity).
           destruct s; cbn; lia.
      * exact Hr.
      * unfold bitsleft. rewrite Ec. replace (c_w (set_c_w _ _)) with (c_w (s_core st) + 32) by (dcore (s_core st); reflexivity).
        cbn [length]. lia.
  - left. split; [|split; [exact HW|reflexivity]]. unfold Inv. split; [exact HJ|]. split; [exact HB|].
    destruct s; cbn; lia.
Qed.

(* ---- one pass of the slow machine ------------------------------------------------------------------------------------- *)
Definition out_ok (p : pc) (st : rstate) (o : out) : Prop :=
  match o with
  | Running p' st' => Inv p' (s_core st') /\ words_ok (l_next st') /\
                      phi p' (s_core st') (l_next st') < phi p (s_core st) (l_next st)
  | Final r => final_ok r
  end.

Lemma finish_ok st : final_ok (finish st).
Proof. unfold finish. destruct (_ =? 0); [exact I|]. destruct (_ <=? _); exact I. Qed.

Lemma after_ok p st r : bres_ok p (s_core st) r -> words_ok (l_next st) -> out_ok p st (after r st).
Proof.
  intros HR HW. destruct r as [p' c'|s c'|code c'|c'|f]; cbn [after bres_ok] in *.
  - destruct HR as (HI & Hphi). cbn [out_ok s_core with_core l_next]. split; [exact HI|]. split; [exact HW|].
    unfold phi, bitsleft. lia.
  - destruct HR as (HJ & HB & Hphi).
    pose proof (need_ok s (with_core st c') HJ HB HW) as N.
    destruct (need_at s (with_core st c')) as [st'|r]; cbn [out_ok].
    + destruct N as [(HI & HW' & Hb)|[]]. split; [exact HI|]. split; [exact HW'|].
      unfold phi. rewrite Hb. cbn [s_core with_core l_next]. unfold bitsleft. lia.
    + exact N.
  - exact I.
  - apply finish_ok.
  - contradiction.
Qed.

Lemma onestep_slow_ok p st : Inv p (s_core st) -> words_ok (l_next st) -> out_ok p st (onestep false p st).
Proof. intros HI HW. rewrite onestep_false. apply after_ok; [apply sstep_ok; exact HI|exact HW]. Qed.

(* ---- the fast path ------------------------------------------------------------------------------------------------------ *)
(* what the slow path's loop test says about the state the fast path's locals stand for *)
Definition sh_ok (r : bres) : Prop :=
  match r with
  | BNeed S_prefix c' => exists o, J_prefix c' o
  | BGo P_GROUP c' => exists o, J_group c' o
  | _ => False
  end.

Lemma J_prefix_bufset c o v w : J_prefix c o -> J_prefix (bufset c v w) o.
Proof. dcore c. exact (fun H => H). Qed.

Lemma buf_ok_frame c c' : c_v c' = c_v c -> c_w c' = c_w c -> buf_ok c -> buf_ok c'.
Proof. intros Ev Ew (q & H). exists q. eapply buf_is_frame; eassumption. Qed.

Lemma slow_head_cases c : (r_j c < 50 /\ slow_head c = BNeed S_prefix c) \/
                          (50 <= r_j c /\ slow_head c = BGo P_GROUP (set_r_g c (add32 (r_g c) 1))).
Proof.
  unfold slow_head. change GROUP_SIZE with 50. destruct (N.ltb_spec (r_j c) 50); [left|right]; auto.
Qed.

Lemma fast_loop_ok : forall n T c nx run rc sh j,
  N.of_nat n + j = 50 -> nth_error (r_tree c) (N.to_nat (r_t c)) = Some T ->
  sh_ok (slow_head (cS c run rc sh j)) -> buf_ok c -> words_ok nx ->
  20 * N.of_nat n + 12 <= bitsleft c nx -> 12 <= c_w c ->
  match fast_loop n T c nx run rc sh with
  | (BGo P_GROUP c', nx') => (exists o, J_group c' o) /\ buf_ok c' /\ 12 <= c_w c' /\ words_ok nx' /\
                             bitsleft c' nx' + N.of_nat n <= bitsleft c nx
  | (BRet _ _, _) => True
  | (BEob _, _) => True
  | _ => False
  end.
Proof.
  induction n as [|n IH]; intros T c nx run rc sh j Hj HT HS HB HW Hbits Hw.
  - cbn [fast_loop]. assert (j = 50) by lia. subst j.
    destruct (cS_proj c run rc sh 50) as (_ & _ & _ & _ & _ & _ & _ & _ & Ej & _ & Eg & _).
    destruct (slow_head_cases (cS c run rc sh 50)) as [[A _]|[_ E]]; [rewrite Ej in A; lia|].
    rewrite E in HS. cbn [sh_ok] in HS. destruct HS as (o & HJ). rewrite Eg in HJ.
    split; [|split; [|split; [|split]]].
    + exists o. apply (J_group_j _ o (r_j c)) in HJ.
      replace (set_r_g (set_r_shift (set_r_runChar (set_r_run c run) rc) sh)
                 (add32 (r_g (set_r_shift (set_r_runChar (set_r_run c run) rc) sh)) 1))
        with (set_r_j (set_r_g (cS c run rc sh 50) (add32 (r_g c) 1)) (r_j c)) by (dcore c; reflexivity).
      exact HJ.
    + eapply buf_ok_frame; [| |exact HB]; dcore c; reflexivity.
    + replace (c_w (set_r_g _ _)) with (c_w c) by (dcore c; reflexivity). exact Hw.
    + exact HW.
    + unfold bitsleft. replace (c_w (set_r_g _ _)) with (c_w c) by (dcore c; reflexivity). lia.
  - rewrite fast_loop_S.
    destruct (cS_proj c run rc sh j) as (Ev & Ew & Et & Ett & Ea & Er & Erc & Es & Ej & Esl & Eg & Ep).
    destruct (slow_head_cases (cS c run rc sh j)) as [[A E]|[A _]]; [|rewrite Ej in A; lia].
    rewrite E in HS. cbn [sh_ok] in HS. destruct HS as (o & HJ). rewrite Ej in A.
    (* NEED_FAST *)
    assert (NF : exists c1 nx1, need_fast c nx = XV (c1, nx1) /\ buf_ok c1 /\ 32 <= c_w c1 /\ words_ok nx1 /\
                   bitsleft c1 nx1 = bitsleft c nx /\ J_prefix (cS c1 run rc sh j) o /\
                   r_tree c1 = r_tree c /\ r_t c1 = r_t c).
    { unfold need_fast. destruct (N.ltb_spec (c_w c) 32) as [Hlt|Hge].
      - destruct nx as [|x r].
        + exfalso. unfold bitsleft in Hbits. cbn [length] in Hbits. lia.
        + inversion HW as [|? ? Hx Hr]; subst. destruct HB as (q & Hq).
          destruct (load_ok c q x Hq Hlt Hx) as (c1 & -> & Ec & Hq'). cbn [bindX].
          exists c1, r. split; [reflexivity|]. split; [exists (q * 2 ^ 32 + x); exact Hq'|].
          assert (Ew1 : c_w c1 = c_w c + 32) by (rewrite Ec; dcore c; reflexivity).
          split; [lia|]. split; [exact Hr|]. split; [unfold bitsleft; rewrite Ew1; cbn [length]; lia|].
          split; [|rewrite Ec; dcore c; split; reflexivity].
          rewrite Ec. fold (bufset c (N.lor (c_v c) (x * 2 ^ (32 - c_w c))) (c_w c + 32)).
          unfold bufset. rewrite <- cS_vw. apply (J_prefix_bufset _ o). exact HJ.
      - exists c, nx. split; [reflexivity|]. split; [exact HB|]. split; [lia|]. split; [exact HW|].
        split; [reflexivity|]. split; [exact HJ|]. split; reflexivity. }
    destruct NF as (c1 & nx1 & -> & HB1 & Hw1 & HW1 & Hb1 & HJ1 & Et1 & Ett1).
    destruct (cS_proj c1 run rc sh j) as (Ev1 & Ew1 & _).
    pose proof (after_prefix_ok (cS c1 run rc sh j) o HJ1 (buf_ok_frame _ _ Ev1 Ew1 HB1) ltac:(lia)) as AP.
    destruct (sym_corr n T c1 nx1 run rc sh j A ltac:(congruence))
      as [(c' & run' & rc' & sh' & EF & ES & Ht1' & Ht2')|(EN & BF)].
    + rewrite EF. rewrite ES in AP.
      destruct (cS_proj c' run' rc' sh' (j + 1)) as (Ev' & Ew' & _ & _ & _ & _ & _ & _ & _ & _ & Eg' & _).
      assert (G : sh_ok (slow_head (cS c' run' rc' sh' (j + 1))) /\ buf_ok c' /\ c_w c' + 1 <= c_w c1 /\ c_w c1 <= c_w c' + 20).
      { destruct (slow_head_cases (cS c' run' rc' sh' (j + 1))) as [[_ E']|[_ E']]; rewrite E' in *.
        - destruct AP as (o' & J' & B' & W1 & W2). cbn [sh_ok]. split; [eauto|].
          split; [eapply buf_ok_frame; [| |exact B']; auto|]. lia.
        - destruct AP as (o' & J' & B' & W1 & W2). cbn [sh_ok]. split; [eauto|].
          replace (c_w (set_r_g _ _)) with (c_w c') in * by (dcore c'; reflexivity).
          split; [|lia]. eapply buf_ok_frame; [| |exact B']; dcore c'; reflexivity. }
      destruct G as (HS' & HB' & W1 & W2).
      pose proof (IH T c' nx1 run' rc' sh' (j + 1) ltac:(lia) ltac:(congruence) HS' HB' HW1
                    ltac:(unfold bitsleft in *; lia) ltac:(lia)) as R.
      destruct (fast_loop n T c' nx1 run' rc' sh') as [[[[]| |] cc| [] cc| | |] nx']; auto.
      destruct R as (R1 & R2 & R3 & R4 & R5). repeat split; auto. unfold bitsleft in *. lia.
    + destruct (fast_body n T c1 nx1 run rc sh) as [r nx'] eqn:EB. cbn [fst snd] in *.
      destruct (after_prefix (cS c1 run rc sh j)) as [[[]| |] cc| [] cc| | |]; destruct r as [| | | |]; cbn [bfin] in BF; try contradiction; auto.
Qed.

(* ---- the fast-path threshold ---------------------------------------------------------------------------------------------- *)
(* The only fact about the regenerated threshold [fast_path_words] (Gen/DecTabs.v: the constant of the test
   `(limit - next) >= 32` in retrieve()) that the safety proof needs: that many 32-bit words hold the bits of a
   whole group, GROUP_SIZE symbols of at most MAX_CODE_LENGTH bits.  Then, with the >= 12 bits that are in the bit
   buffer at the head of the group loop, the GROUP_SIZE executions of NEED_FAST never read *next with next == limit
   ([fast_loop_ok]).  A source with a smaller threshold makes this lemma fail; a larger one is accepted. *)
Lemma fast_path_words_enough : GROUP_SIZE * MAX_CODE_LENGTH <= 32 * fast_path_words.
Proof. vm_compute. discriminate. Qed.

(* ---- one pass of the machine, with or without the fast path ------------------------------------------------------------- *)
Lemma onestep_ok b p st : Inv p (s_core st) -> words_ok (l_next st) -> out_ok p st (onestep b p st).
Proof.
  intros HI HW. destruct b; [|apply onestep_slow_ok; assumption].
  destruct p as [s| |]; try (change (onestep true ?p st) with (onestep false p st); apply onestep_slow_ok; assumption).
  (* P_GROUP *)
  rewrite onestep_after. cbn [step]. unfold group_head.
  destruct HI as ((o & HJ) & HB & Hw). cbn [wlo] in Hw.
  pose proof (group_select_ok (s_core st) o HJ) as G.
  pose proof (onestep_slow_ok P_GROUP st (conj (ex_intro _ o HJ) (conj HB Hw)) HW) as SL.
  rewrite onestep_false in SL. unfold sstep in SL. cbn [step fst] in SL. unfold group_head in SL.
  destruct (group_select (s_core st)) as [c1|r] eqn:EG; cbn [andb fst snd] in *.
  2:{ rewrite with_next_id. exact SL. }
  destruct (fast_path_words <=? N.of_nat (length (l_next st))) eqn:E32; [|cbn [fst snd]; rewrite with_next_id; exact SL].
  destruct G as (HJ1 & Hg & Ht & HT & Ev & Ew).
  assert (HTn : nth_error (r_tree c1) (N.to_nat (r_t c1)) = Some (nth (N.to_nat (r_t c1)) (r_tree c1) garbage_tree)).
  { apply nth_error_nth'. destruct HJ1 as ((_ & _ & _ & L & _) & _). lia. }
  rewrite HTn. cbn [ofO].
  assert (HS : sh_ok (slow_head (cS c1 (r_run c1) (r_runChar c1) (r_shift c1) 0))).
  { rewrite cS_self_j. unfold slow_head. replace (r_j (set_r_j c1 0)) with 0 by (dcore c1; reflexivity).
    change (0 <? GROUP_SIZE) with true. cbn iota. cbn [sh_ok]. exists o. unfold J_prefix.
    split; [apply J_group_j; exact HJ1|]. dcore c1. rsa. repeat split; auto; lia. }
  apply N.leb_le in E32.
  pose proof fast_path_words_enough as FPW. change (GROUP_SIZE * MAX_CODE_LENGTH) with 1000 in FPW.
  pose proof (fast_loop_ok (N.to_nat GROUP_SIZE) _ c1 (l_next st) (r_run c1) (r_runChar c1) (r_shift c1) 0
                ltac:(reflexivity) HTn HS (buf_ok_frame _ _ Ev Ew HB) HW
                ltac:(unfold bitsleft; change (N.of_nat (N.to_nat GROUP_SIZE)) with 50; lia) ltac:(lia)) as F.
  destruct (fast_loop (N.to_nat GROUP_SIZE) _ c1 (l_next st) (r_run c1) (r_runChar c1) (r_shift c1))
    as [[[[]| |] cc| [] cc| | |] nx']; cbn [fst snd after out_ok]; try contradiction; auto.
  - destruct F as ((o' & J') & B' & W' & HW' & Hb). cbn [s_core with_core with_next l_next].
    split; [unfold Inv; cbn [Jp wlo]; eauto|]. split; [exact HW'|].
    unfold phi, sigma. change (N.of_nat (N.to_nat GROUP_SIZE)) with 50 in Hb. unfold bitsleft in *. rewrite Ew in Hb. lia.
  - apply finish_ok.
Qed.

(* ---- a run ------------------------------------------------------------------------------------------------------------------ *)
Lemma run_from_ok b : forall fuel p st, Inv p (s_core st) -> words_ok (l_next st) ->
  phi p (s_core st) (l_next st) < N.of_nat fuel -> final_ok (run_from b fuel p st).
Proof.
  induction fuel as [|fuel IH]; intros p st HI HW Hphi; [lia|].
  rewrite run_from_S. pose proof (onestep_ok b p st HI HW) as O.
  destruct (onestep b p st) as [p' st'|r]; cbn [cont out_ok] in *.
  - destruct O as (HI' & HW' & Hd). apply IH; auto. lia.
  - exact O.
Qed.

(* ---- a call ------------------------------------------------------------------------------------------------------------------ *)
(* a fresh decoder state: decoder_init() and the bit stream as the parser/scanner leaves it *)
Definition init_ok (st : rstate) : Prop :=
  s_state st = S_INIT /\ shape (s_core st) /\ c_tt (s_core st) = [] /\ d_block_size st = 0 /\
  b_live st <= 63 /\ (exists q, q < 2 ^ b_live st /\ b_buff st = q * 2 ^ (64 - b_live st)).

Definition CallInv (st : rstate) : Prop := init_ok st \/ MoreInv st.

Lemma call_fuel_enough p c nx bl : 4 * (c_w c + 32 * N.of_nat (length nx)) <= 4 * bl ->
  phi p c nx < N.of_nat (N.to_nat (4 * bl + 8)).
Proof. intro H. rewrite N2Nat.id. unfold phi, bitsleft, sigma. destruct p as [[]| |]; lia. Qed.

Lemma retrieve_ok b st : CallInv st -> words_ok (b_data st) ->
  (b_data st <> [] \/ b_eof st = true \/ s_state st = S_INIT) ->
  final_ok (retrieve_gen b st).
Proof.
  intros HC HW HD. unfold retrieve_gen. rewrite retrieve_f_enter. unfold enter.
  destruct HC as [(Hs & Hsh & Htt & Hbs & Hl & q & Hq & Hb)|(s & Hs & HJ & HB & Hw & El & Eb & Ed)].
  - (* first call *)
    cbn [restore with_next with_core s_state]. rewrite Hs. cbn [N.eqb].
    change (S_INIT =? S_INIT) with true. cbn iota.
    set (st1 := restore st).
    assert (J1 : Jp A_BWT_IDX (s_core st1)).
    { subst st1. unfold restore. cbn [s_core with_next with_core Jp]. unfold J_bwt, tt0. rewrite Hbs.
      destruct st as [c nx ss bl bb bd be bs]. cbn in *. dcore c. rsa. repeat split; auto; apply Hsh. }
    assert (B1 : buf_ok (s_core st1)).
    { exists q. subst st1. destruct st as [c nx ss bl bb bd be bs]. cbn in *. dcore c. unfold buf_is. rsa. auto. }
    assert (W1 : words_ok (l_next st1)) by (subst st1; destruct st; exact HW).
    pose proof (need_ok S_bwt_idx st1 J1 B1 W1) as N.
    destruct (need_at S_bwt_idx st1) as [st'|r]; [|exact N].
    destruct N as [(HI & HW' & Hbits)|[]].
    apply run_from_ok; auto. unfold call_fuel. apply call_fuel_enough.
    unfold bitsleft in Hbits. rewrite Hbits. subst st1. destruct st as [c nx ss bl bb bd be bs]. cbn. dcore c. rsa. lia.
  - (* resumed call *)
    cbn [restore with_next with_core s_state]. rewrite Hs, state_no_not_init, site_of_state_no.
    cbn [b_data with_next with_core b_eof restore].
    destruct (b_data st) as [|x r] eqn:ED.
    + destruct HD as [HD|[HD|HD]]; [congruence| |rewrite Hs in HD; destruct s; discriminate].
      rewrite HD. exact I.
    + cbn [s_core with_next with_core b_live b_buff d_block_size restore].
      rewrite El, Eb, Ed, !restore_save_core.
      destruct (N.ltb_spec (c_w (s_core st)) 32) as [_|Hge]; [|lia].
      inversion HW as [|? ? Hx Hr]; subst. destruct HB as (q & Hq).
      destruct (load_ok (s_core st) q x Hq Hw Hx) as (c' & -> & Ec & Hq').
      apply run_from_ok.
      * cbn [s_core with_next with_core]. unfold Inv. split; [|split].
        -- rewrite Ec. apply (Jp_bufset (After s) (s_core st)). exact HJ.
        -- exists (q * 2 ^ 32 + x). exact Hq'.
        -- rewrite Ec. replace (c_w (set_c_w _ _)) with (c_w (s_core st) + 32) by (dcore (s_core st); reflexivity).
           destruct s; cbn; lia.
      * cbn [l_next with_next]. exact Hr.
      * unfold call_fuel. apply call_fuel_enough. cbn [s_core with_next with_core l_next]. rewrite ED, El. cbn [length].
        rewrite Ec. replace (c_w (set_c_w _ _)) with (c_w (s_core st) + 32) by (dcore (s_core st); reflexivity). lia.
Qed.

(* ---- the chunk driver ------------------------------------------------------------------------------------------------------ *)
Lemma CallInv_attach st ch : CallInv st -> CallInv (attach st ch).
Proof. destruct st. exact (fun H => H). Qed.
Lemma CallInv_attach_eof st : CallInv st -> CallInv (attach_eof st).
Proof. destruct st. exact (fun H => H). Qed.

Lemma eof_call_more b st : MoreInv st -> exists st', retrieve_gen b (attach_eof st) = RErr E_ERR_EOF st'.
Proof.
  intros (s & Hs & HJ & HB & Hw & El & Eb & Ed). unfold retrieve_gen. rewrite retrieve_f_enter. unfold enter.
  cbn [restore attach_eof with_next with_core s_state b_data b_eof b_live]. rewrite Hs, state_no_not_init, site_of_state_no.
  rewrite El. apply N.ltb_lt in Hw. rewrite Hw. eexists. reflexivity.
Qed.

Definition done_ok (r : cres) : Prop := match r with RFault _ => False | RMore _ => False | _ => True end.

Lemma retr_chunks_ok b : forall chunks st, CallInv st -> Forall words_ok chunks -> Forall (fun c => c <> []) chunks ->
  done_ok (fst (retr_chunks_f call_fuel b st chunks)).
Proof.
  induction chunks as [|ch rest IH]; intros st HC HW HN; cbn [retr_chunks_f].
  - fold (retrieve_gen b (attach_eof st)).
    assert (HD : b_data (attach_eof st) <> [] \/ b_eof (attach_eof st) = true \/ s_state (attach_eof st) = S_INIT).
    { destruct HC as [(Hs & _)|(s & Hs & HJ & HB & Hw & El & _)].
      - right. right. destruct st; exact Hs.
      - right. left. destruct st as [c nx ss bl bb bd be bs]. cbn in *. apply N.ltb_lt. lia. }
    pose proof (retrieve_ok b (attach_eof st) (CallInv_attach_eof st HC) ltac:(destruct st; constructor) HD) as R.
    destruct (retrieve_gen b (attach_eof st)) as [st'| | |]; cbn [fst final_ok done_ok] in *; auto.
    fold (retrieve_gen b (attach_eof st')). destruct (eof_call_more b st' R) as (st'' & ->). exact I.
  - fold (retrieve_gen b (attach st ch)).
    inversion HW as [|? ? Hw1 Hw2]; subst. inversion HN as [|? ? Hn1 Hn2]; subst.
    pose proof (retrieve_ok b (attach st ch) (CallInv_attach st ch HC) ltac:(destruct st; exact Hw1)
                  ltac:(left; destruct st; exact Hn1)) as R.
    destruct (retrieve_gen b (attach st ch)) as [st'| | |]; cbn [fst final_ok done_ok] in *; auto.
    apply IH; auto. right. exact R.
Qed.

(* (a) SAFETY and TERMINATION: for any input words, cut into any non-empty chunks, retrieve() ends with OK or an
   error code: no out-of-bounds index, no shift by the width or more, no failing assert, no read past the chunk,
   and the fuel of the model is never the reason to stop *)
Theorem retr_safe st chunks : init_ok st -> Forall words_ok chunks -> Forall (fun c => c <> []) chunks ->
  match fst (retr_chunks st chunks) with
  | ROk _ => True
  | RErr _ _ => True
  | RMore _ => False
  | RFault _ => False
  end.
Proof.
  intros HI HW HN. pose proof (retr_chunks_ok true chunks st (or_introl HI) HW HN) as R.
  unfold retr_chunks. destruct (fst (retr_chunks_f call_fuel true st chunks)); auto.
Qed.

(* (b) CHUNK INDEPENDENCE: the result depends only on the concatenation of the chunks *)
Theorem retr_chunk_indep st cs1 cs2 : init_ok st -> b_eof st = false ->
  Forall words_ok cs1 -> Forall (fun c => c <> []) cs1 -> Forall words_ok cs2 -> Forall (fun c => c <> []) cs2 ->
  concat cs1 = concat cs2 ->
  xsim (retr_chunks st cs1) (retr_chunks st cs2).
Proof.
  intros HI He W1 N1 W2 N2 Hc.
  pose proof (retr_chunks_ok true cs1 st (or_introl HI) W1 N1) as R1.
  pose proof (retr_chunks_ok true cs2 st (or_introl HI) W2 N2) as R2.
  assert (F1 : no_fault (fst (retr_chunks st cs1))).
  { intros f E. unfold retr_chunks in E. rewrite E in R1. exact R1. }
  assert (F2 : no_fault (fst (retr_chunks st cs2))).
  { intros f E. unfold retr_chunks in E. rewrite E in R2. exact R2. }
  assert (E1 : Eval true st cs1 (retr_chunks st cs1)) by (apply (retr_chunks_Eval call_fuel true cs1 st _ eq_refl); apply F1).
  assert (E2 : Eval true st cs2 (retr_chunks st cs2)) by (apply (retr_chunks_Eval call_fuel true cs2 st _ eq_refl); apply F2).
  exact (chunk_indep_nofault st cs1 cs2 _ _ N1 N2 Hc He E1 E2 F1 F2).
Qed.

Print Assumptions retr_safe.
Print Assumptions retr_chunk_indep.
