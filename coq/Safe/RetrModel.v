(* C08/C09 (decompressor): statement-level RESUMABLE model of retrieve() of src/decode.c.

   retrieve() is a coroutine: `switch (rs->state)` jumps to a `case (s):` label hidden inside the
   NEED(s) macro, i.e. into the middle of the loops, and NEED(s) returns MORE (after saving the bit
   buffer and s) when the current input chunk is exhausted.  The model is the control-flow graph of
   that function:

   * [core]   the locals v, w and tt (as an offset into ds->tt) of retrieve() together with every field of
              `struct retriever_internal_state` and the fields of `struct decoder_state` that
              retrieve() writes (rand, bwt_idx, ftab[], the cells of tt[] written so far);
   * [rstate] adds the locals next/limit (the list [l_next] of the words of the CURRENT chunk not yet consumed)
              and what survives a return: rs->state, the saved bit stream bs->buff / bs->live /
              bs->data(..bs->limit) / bs->eof and ds->block_size (RESTORE() / SAVE());
              only NEED / NEED_FAST and the fast-path test look at next/limit, so the code between two NEEDs is a
              function of [core] alone;
   * one Gallina function per resumable state: [after_bwt_idx], [after_bitmap_big],
     [after_bitmap_small], [after_selector_mtf], [after_delta_tag], [after_prefix] = the C statements
     executed from the point just behind a successful NEED(S_x) (control point [After s], s : [site]) up to
     the next NEED site (result [BNeed s]), a `return` ([BRet]: an error code, no SAVE(); [BEob]: the end
     of the block, SAVE() and the final checks follow in [finish]) or one of the two loop heads that can be
     reached without passing a NEED: the head of the tree loop ([P_TREE]) and the head of the group loop
     ([P_GROUP]); the interior loop heads [sel_head], [tree_head], [delta_head], [slow_head] are inlined
     tails.  [step] dispatches on the control point, [onestep] adds NEED and the returns, [run_from]
     iterates (its fuel [call_fuel] provably suffices: Safe/RetrSafe.v);
   * the fast path of the symbol loop ([fast_loop], NEED_FAST, state in the C locals j, run, runChar,
     shift, taken when limit - next >= 32) and the slow path ([after_prefix], NEED(S_PREFIX), state in
     rs->j, rs->run, rs->runChar, rs->shift) are separate code, as in the C;
   * NEED(s) itself is [need_at] (reached from above) / the resume prologue in [retrieve_f] (reached
     through `case (s):`, including its two assert()s), NEED_FAST is [need_fast]: reading *next with
     next == limit is the fault [FInput];
   * C integer widths are explicit: unsigned / uint32_t mod 2^32 ([add32]/[sub32] of TreeModel),
     uint64_t mod 2^64, uint16_t / uint8_t stores truncated; a shift by >= the width is a fault;
   * arrays are lists of their declared lengths accessed through bounds-checked [xget]/[xset]
     (selector[MAX_SELECTORS], code_len[MAX_ALPHA_SIZE], mtf[MAX_TREES], tree[MAX_TREES], ftab[256],
     the constant tables table[], L[], R[], Rmin[], Rmax[]); imtf_row/imtf_slide and mtf_one() are
     Safe/SlideModel.v, make_tree() and the table decode sequence are Safe/TreeModel.v (re-used, not
     re-modelled); tt[] is the list of the cells written so far, most recent first, every write
     checked against MAX_BLOCK_SIZE ([tt_push]);
   * initial contents of the arrays are arbitrary (the state comes from xmalloc()): they are
     parameters of [init_core] (no "uninitialised" marker is modelled, except for perm[] inside TreeModel:
     the theorems hold for every content, so no result depends on it);
   * the flag [fast_ok] of [group_head]/[step]/[run_from]/[retrieve_f]/[retr_chunks_f] is [true] in
     [retrieve]/[retr_chunks] (the model of the C); [false] switches the fast path off and gives the
     reference machine used in the proofs (Safe/RetrChunk.v);
   * constants and tables regenerated from the source: Gen/Consts.v, Gen/DecTabs.v (in particular the
     delta range check, the selector clamp, the two run-accumulation guards [run_acc_guards] and the
     threshold [fast_path_words] of the fast-path test).

   One call:  [retrieve st]  =  RESTORE(); switch (rs->state) ...        with [attach]/[attach_eof]
   standing for what expand.c's attach() stores in the struct bitstream before the call (a non-empty
   part of the input; at the end of the input data = limit = NULL and eof = (live < 32)).
   [retr_chunks] feeds a list of chunks, then end of input; it also returns the chunks never attached.
   Tied to src/decode.c by checks/retr_part.py (harness/retr_h.c vs Extract/ExtractRetr.v). *)
From Coq Require Import List NArith Arith Bool.
From LBZ Require Import Gen.Consts Gen.DecTabs Safe.TreeModel.
From LBZ Require Safe.SlideModel.
Import ListNotations.
Local Open Scope N_scope.

(* ---- faults -------------------------------------------------------------------------------------- *)
Inductive rarr := RSelector | RCodeLen | RMtf | RTree | RFtab | RTt | RConst.

Inductive fault :=
| FUb (u : ub)             (* undefined event inside make_tree / the decode sequence / a shift (TreeModel) *)
| FSlideOob                (* mtf_one / the bitmap loop left imtf_slide[] or imtf_row[] *)
| FSlideAbort              (* mtf_one: default: abort() *)
| FRead (a : rarr)         (* read outside the declared array *)
| FWrite (a : rarr)        (* write outside the declared array *)
| FInput                   (* *next read with next == limit *)
| FAssert (id : N)         (* assert() of the NEED macro: 1 = assert(bs->eof), 2 = assert(w < 32u) *)
| FAbort                   (* switch (rs->state) default: abort() *)
| FFuel.                   (* model artefact, excluded by the theorems *)

Inductive X (A : Type) := XV (a : A) | XF (f : fault).
Arguments XV {A} a.
Arguments XF {A} f.

Definition bindX {A B} (x : X A) (k : A -> X B) : X B := match x with XV a => k a | XF f => XF f end.
Notation "x <-- p ;; q" := (bindX p (fun x => q)) (at level 61, p at next level, right associativity).

Definition ofM {A} (m : M A) : X A := match m with Done a => XV a | Undef u => XF (FUb u) end.
Definition ofO {A} (f : fault) (o : option A) : X A := match o with Some a => XV a | None => XF f end.

Definition xget (a : rarr) (l : list N) (i : N) : X N :=
  if i <? N.of_nat (length l) then XV (nth (N.to_nat i) l 0) else XF (FRead a).
Definition xset (a : rarr) (l : list N) (i x : N) : X (list N) :=
  if i <? N.of_nat (length l) then XV (upd (N.to_nat i) x l) else XF (FWrite a).

Fixpoint updt (i : nat) (x : tree) (l : list tree) : list tree :=
  match l with
  | [] => []
  | y :: r => match i with O => x :: r | S i' => y :: updt i' x r end
  end.

Definition W8 : N := 2 ^ 8.
(* unsigned x << c *)
Definition shl32 (x c : N) : M N := if c <? 32 then Done (N.shiftl x c mod W32) else Undef BadShift.

(* ---- FSM states (enum in decode.c) --------------------------------------------------------------- *)
Definition S_INIT : N := 0.
Definition S_BWT_IDX : N := 1.
Definition S_BITMAP_BIG : N := 2.
Definition S_BITMAP_SMALL : N := 3.
Definition S_SELECTOR_MTF : N := 4.
Definition S_DELTA_TAG : N := 5.
Definition S_PREFIX : N := 6.

(* the NEED sites = the states in which retrieve() can be suspended *)
Inductive site := S_bwt_idx | S_bitmap_big | S_bitmap_small | S_selector_mtf | S_delta_tag | S_prefix.

(* control points: behind NEED(S_x), and the two loop heads reachable without passing a NEED *)
Inductive pc := After (s : site) | P_TREE | P_GROUP.
Notation A_BWT_IDX := (After S_bwt_idx).
Notation A_BITMAP_BIG := (After S_bitmap_big).
Notation A_BITMAP_SMALL := (After S_bitmap_small).
Notation A_SELECTOR_MTF := (After S_selector_mtf).
Notation A_DELTA_TAG := (After S_delta_tag).
Notation A_PREFIX := (After S_prefix).

Definition state_no (s : site) : N :=
  match s with
  | S_bwt_idx => S_BWT_IDX | S_bitmap_big => S_BITMAP_BIG | S_bitmap_small => S_BITMAP_SMALL
  | S_selector_mtf => S_SELECTOR_MTF | S_delta_tag => S_DELTA_TAG | S_prefix => S_PREFIX
  end.

Definition site_of_state (s : N) : option site :=
  if s =? S_BWT_IDX then Some S_bwt_idx else if s =? S_BITMAP_BIG then Some S_bitmap_big
  else if s =? S_BITMAP_SMALL then Some S_bitmap_small else if s =? S_SELECTOR_MTF then Some S_selector_mtf
  else if s =? S_DELTA_TAG then Some S_delta_tag else if s =? S_PREFIX then Some S_prefix else None.

(* ---- the locals of retrieve() + *rs + the written part of *ds -------------------------------------- *)
Record core := mk_core {
  c_v : N;
  c_w : N;
  c_ttp : N;
  c_tt : list N;
  d_rand : N;
  d_bwt_idx : N;
  d_ftab : list N;
  r_selector : list N;
  r_num_trees : N;
  r_num_selectors : N;
  r_alpha_size : N;
  r_code_len : list N;
  r_mtf : list N;
  r_tree : list tree;
  r_big : N;
  r_small : N;
  r_j : N;
  r_t : N;
  r_g : N;
  r_slide : SlideModel.sstate;
  r_runChar : N;
  r_run : N;
  r_shift : N
}.

Definition set_c_v (c : core) (x : N) : core :=
  mk_core x (c_w c) (c_ttp c) (c_tt c) (d_rand c) (d_bwt_idx c) (d_ftab c) (r_selector c) (r_num_trees c) (r_num_selectors c) (r_alpha_size c) (r_code_len c) (r_mtf c) (r_tree c) (r_big c) (r_small c) (r_j c) (r_t c) (r_g c) (r_slide c) (r_runChar c) (r_run c) (r_shift c).
Definition set_c_w (c : core) (x : N) : core :=
  mk_core (c_v c) x (c_ttp c) (c_tt c) (d_rand c) (d_bwt_idx c) (d_ftab c) (r_selector c) (r_num_trees c) (r_num_selectors c) (r_alpha_size c) (r_code_len c) (r_mtf c) (r_tree c) (r_big c) (r_small c) (r_j c) (r_t c) (r_g c) (r_slide c) (r_runChar c) (r_run c) (r_shift c).
Definition set_c_ttp (c : core) (x : N) : core :=
  mk_core (c_v c) (c_w c) x (c_tt c) (d_rand c) (d_bwt_idx c) (d_ftab c) (r_selector c) (r_num_trees c) (r_num_selectors c) (r_alpha_size c) (r_code_len c) (r_mtf c) (r_tree c) (r_big c) (r_small c) (r_j c) (r_t c) (r_g c) (r_slide c) (r_runChar c) (r_run c) (r_shift c).
Definition set_c_tt (c : core) (x : list N) : core :=
  mk_core (c_v c) (c_w c) (c_ttp c) x (d_rand c) (d_bwt_idx c) (d_ftab c) (r_selector c) (r_num_trees c) (r_num_selectors c) (r_alpha_size c) (r_code_len c) (r_mtf c) (r_tree c) (r_big c) (r_small c) (r_j c) (r_t c) (r_g c) (r_slide c) (r_runChar c) (r_run c) (r_shift c).
Definition set_d_rand (c : core) (x : N) : core :=
  mk_core (c_v c) (c_w c) (c_ttp c) (c_tt c) x (d_bwt_idx c) (d_ftab c) (r_selector c) (r_num_trees c) (r_num_selectors c) (r_alpha_size c) (r_code_len c) (r_mtf c) (r_tree c) (r_big c) (r_small c) (r_j c) (r_t c) (r_g c) (r_slide c) (r_runChar c) (r_run c) (r_shift c).
Definition set_d_bwt_idx (c : core) (x : N) : core :=
  mk_core (c_v c) (c_w c) (c_ttp c) (c_tt c) (d_rand c) x (d_ftab c) (r_selector c) (r_num_trees c) (r_num_selectors c) (r_alpha_size c) (r_code_len c) (r_mtf c) (r_tree c) (r_big c) (r_small c) (r_j c) (r_t c) (r_g c) (r_slide c) (r_runChar c) (r_run c) (r_shift c).
Definition set_d_ftab (c : core) (x : list N) : core :=
  mk_core (c_v c) (c_w c) (c_ttp c) (c_tt c) (d_rand c) (d_bwt_idx c) x (r_selector c) (r_num_trees c) (r_num_selectors c) (r_alpha_size c) (r_code_len c) (r_mtf c) (r_tree c) (r_big c) (r_small c) (r_j c) (r_t c) (r_g c) (r_slide c) (r_runChar c) (r_run c) (r_shift c).
Definition set_r_selector (c : core) (x : list N) : core :=
  mk_core (c_v c) (c_w c) (c_ttp c) (c_tt c) (d_rand c) (d_bwt_idx c) (d_ftab c) x (r_num_trees c) (r_num_selectors c) (r_alpha_size c) (r_code_len c) (r_mtf c) (r_tree c) (r_big c) (r_small c) (r_j c) (r_t c) (r_g c) (r_slide c) (r_runChar c) (r_run c) (r_shift c).
Definition set_r_num_trees (c : core) (x : N) : core :=
  mk_core (c_v c) (c_w c) (c_ttp c) (c_tt c) (d_rand c) (d_bwt_idx c) (d_ftab c) (r_selector c) x (r_num_selectors c) (r_alpha_size c) (r_code_len c) (r_mtf c) (r_tree c) (r_big c) (r_small c) (r_j c) (r_t c) (r_g c) (r_slide c) (r_runChar c) (r_run c) (r_shift c).
Definition set_r_num_selectors (c : core) (x : N) : core :=
  mk_core (c_v c) (c_w c) (c_ttp c) (c_tt c) (d_rand c) (d_bwt_idx c) (d_ftab c) (r_selector c) (r_num_trees c) x (r_alpha_size c) (r_code_len c) (r_mtf c) (r_tree c) (r_big c) (r_small c) (r_j c) (r_t c) (r_g c) (r_slide c) (r_runChar c) (r_run c) (r_shift c).
Definition set_r_alpha_size (c : core) (x : N) : core :=
  mk_core (c_v c) (c_w c) (c_ttp c) (c_tt c) (d_rand c) (d_bwt_idx c) (d_ftab c) (r_selector c) (r_num_trees c) (r_num_selectors c) x (r_code_len c) (r_mtf c) (r_tree c) (r_big c) (r_small c) (r_j c) (r_t c) (r_g c) (r_slide c) (r_runChar c) (r_run c) (r_shift c).
Definition set_r_code_len (c : core) (x : list N) : core :=
  mk_core (c_v c) (c_w c) (c_ttp c) (c_tt c) (d_rand c) (d_bwt_idx c) (d_ftab c) (r_selector c) (r_num_trees c) (r_num_selectors c) (r_alpha_size c) x (r_mtf c) (r_tree c) (r_big c) (r_small c) (r_j c) (r_t c) (r_g c) (r_slide c) (r_runChar c) (r_run c) (r_shift c).
Definition set_r_mtf (c : core) (x : list N) : core :=
  mk_core (c_v c) (c_w c) (c_ttp c) (c_tt c) (d_rand c) (d_bwt_idx c) (d_ftab c) (r_selector c) (r_num_trees c) (r_num_selectors c) (r_alpha_size c) (r_code_len c) x (r_tree c) (r_big c) (r_small c) (r_j c) (r_t c) (r_g c) (r_slide c) (r_runChar c) (r_run c) (r_shift c).
Definition set_r_tree (c : core) (x : list tree) : core :=
  mk_core (c_v c) (c_w c) (c_ttp c) (c_tt c) (d_rand c) (d_bwt_idx c) (d_ftab c) (r_selector c) (r_num_trees c) (r_num_selectors c) (r_alpha_size c) (r_code_len c) (r_mtf c) x (r_big c) (r_small c) (r_j c) (r_t c) (r_g c) (r_slide c) (r_runChar c) (r_run c) (r_shift c).
Definition set_r_big (c : core) (x : N) : core :=
  mk_core (c_v c) (c_w c) (c_ttp c) (c_tt c) (d_rand c) (d_bwt_idx c) (d_ftab c) (r_selector c) (r_num_trees c) (r_num_selectors c) (r_alpha_size c) (r_code_len c) (r_mtf c) (r_tree c) x (r_small c) (r_j c) (r_t c) (r_g c) (r_slide c) (r_runChar c) (r_run c) (r_shift c).
Definition set_r_small (c : core) (x : N) : core :=
  mk_core (c_v c) (c_w c) (c_ttp c) (c_tt c) (d_rand c) (d_bwt_idx c) (d_ftab c) (r_selector c) (r_num_trees c) (r_num_selectors c) (r_alpha_size c) (r_code_len c) (r_mtf c) (r_tree c) (r_big c) x (r_j c) (r_t c) (r_g c) (r_slide c) (r_runChar c) (r_run c) (r_shift c).
Definition set_r_j (c : core) (x : N) : core :=
  mk_core (c_v c) (c_w c) (c_ttp c) (c_tt c) (d_rand c) (d_bwt_idx c) (d_ftab c) (r_selector c) (r_num_trees c) (r_num_selectors c) (r_alpha_size c) (r_code_len c) (r_mtf c) (r_tree c) (r_big c) (r_small c) x (r_t c) (r_g c) (r_slide c) (r_runChar c) (r_run c) (r_shift c).
Definition set_r_t (c : core) (x : N) : core :=
  mk_core (c_v c) (c_w c) (c_ttp c) (c_tt c) (d_rand c) (d_bwt_idx c) (d_ftab c) (r_selector c) (r_num_trees c) (r_num_selectors c) (r_alpha_size c) (r_code_len c) (r_mtf c) (r_tree c) (r_big c) (r_small c) (r_j c) x (r_g c) (r_slide c) (r_runChar c) (r_run c) (r_shift c).
Definition set_r_g (c : core) (x : N) : core :=
  mk_core (c_v c) (c_w c) (c_ttp c) (c_tt c) (d_rand c) (d_bwt_idx c) (d_ftab c) (r_selector c) (r_num_trees c) (r_num_selectors c) (r_alpha_size c) (r_code_len c) (r_mtf c) (r_tree c) (r_big c) (r_small c) (r_j c) (r_t c) x (r_slide c) (r_runChar c) (r_run c) (r_shift c).
Definition set_r_slide (c : core) (x : SlideModel.sstate) : core :=
  mk_core (c_v c) (c_w c) (c_ttp c) (c_tt c) (d_rand c) (d_bwt_idx c) (d_ftab c) (r_selector c) (r_num_trees c) (r_num_selectors c) (r_alpha_size c) (r_code_len c) (r_mtf c) (r_tree c) (r_big c) (r_small c) (r_j c) (r_t c) (r_g c) x (r_runChar c) (r_run c) (r_shift c).
Definition set_r_runChar (c : core) (x : N) : core :=
  mk_core (c_v c) (c_w c) (c_ttp c) (c_tt c) (d_rand c) (d_bwt_idx c) (d_ftab c) (r_selector c) (r_num_trees c) (r_num_selectors c) (r_alpha_size c) (r_code_len c) (r_mtf c) (r_tree c) (r_big c) (r_small c) (r_j c) (r_t c) (r_g c) (r_slide c) x (r_run c) (r_shift c).
Definition set_r_run (c : core) (x : N) : core :=
  mk_core (c_v c) (c_w c) (c_ttp c) (c_tt c) (d_rand c) (d_bwt_idx c) (d_ftab c) (r_selector c) (r_num_trees c) (r_num_selectors c) (r_alpha_size c) (r_code_len c) (r_mtf c) (r_tree c) (r_big c) (r_small c) (r_j c) (r_t c) (r_g c) (r_slide c) (r_runChar c) x (r_shift c).
Definition set_r_shift (c : core) (x : N) : core :=
  mk_core (c_v c) (c_w c) (c_ttp c) (c_tt c) (d_rand c) (d_bwt_idx c) (d_ftab c) (r_selector c) (r_num_trees c) (r_num_selectors c) (r_alpha_size c) (r_code_len c) (r_mtf c) (r_tree c) (r_big c) (r_small c) (r_j c) (r_t c) (r_g c) (r_slide c) (r_runChar c) (r_run c) x.

(* ---- result of running from one control point to the next -------------------------------------------- *)
Inductive bres :=
| BGo (p : pc) (c : core)        (* arrived at loop head p *)
| BNeed (s : site) (c : core)    (* arrived at NEED(state_no s) *)
| BRet (code : N) (c : core)     (* return code;  an error code: ERR_x or a tree verdict >= MAX_TREES (no SAVE()) *)
| BEob (c : core)                (* end of block reached: SAVE() and the final checks follow *)
| BFault (f : fault).

Definition bindB {A} (x : X A) (k : A -> bres) : bres := match x with XV a => k a | XF f => BFault f end.
Notation "x <== p ;; q" := (bindB p (fun x => q)) (at level 61, p at next level, right associativity).

(* ---- bit buffer macros ----------------------------------------------------------------------------------- *)
(* PEEK(k) = v >> (64u - (k)) *)
Definition peek (c : core) (k : N) : X N := ofM (shr64 (c_v c) (sub32 64 k)).
(* DUMP(k) = (v <<= (k), w -= (k)) *)
Definition dump (c : core) (k : N) : X core :=
  v' <-- ofM (shl64 (c_v c) k) ;; XV (set_c_w (set_c_v c v') (sub32 (c_w c) k)).

(* v |= (uint64_t)ntohl( *next ) << (64u - (w += 32u));  next++;      (x = the word at next, after ntohl) *)
Definition load (c : core) (x : N) : X core :=
  let w' := add32 (c_w c) 32 in
  sh <-- ofM (shl64 x (sub32 64 w')) ;;
  XV (set_c_w (set_c_v c (N.lor (c_v c) sh)) w').

(* NEED_FAST() *)
Definition need_fast (c : core) (next : list N) : X (core * list N) :=
  if c_w c <? 32 then
    match next with
    | [] => XF FInput
    | x :: r => c' <-- load c x ;; XV (c', r)
    end
  else XV (c, next).

(* ---- writing a run into tt[] ---------------------------------------------------------------------------- *)
(* *tt++ = runChar *)
Definition tt_push (ch : N) (c : X core) : X core :=
  c <-- c ;;
  if c_ttp c <? MAX_BLOCK_SIZE then XV (set_c_ttp (set_c_tt c (ch :: c_tt c)) (c_ttp c + 1)) else XF (FWrite RTt).

(* ds->ftab[runChar] += run;  while (run-- > 0) *tt++ = runChar;
   (the value the run counter is left with, UINT_MAX, is stored by the callers) *)
Definition emit_run (c : core) (runChar run : N) : X core :=
  f <-- xget RFtab (d_ftab c) runChar ;;
  ftab <-- xset RFtab (d_ftab c) runChar (add32 f run) ;;
  N.iter run (tt_push runChar) (XV (set_d_ftab c ftab)).

Definition UINT_MAX : N := W32 - 1.

(* run > (size_t)(tt_limit - tt) *)
Definition overflows (c : core) (run : N) : bool := sub64 MAX_BLOCK_SIZE (c_ttp c) <? run.

(* the guards `run <= MAX_BLOCK_SIZE` of the two run accumulations (fast path, slow path), regenerated *)
Definition run_guard (which : nat) (run : N) : bool :=
  match nth which run_acc_guards None with Some lim => run <=? lim | None => true end.

(* eob:  (rs->run and rs->runChar hold the pending run) *)
Definition eob (c : core) : bres :=
  if overflows c (r_run c) then BRet E_ERR_OVERFLOW c
  else
    c' <== emit_run c (r_runChar c) (r_run c) ;;
    BEob (set_r_run c' UINT_MAX).

(* ---- S_PREFIX: the symbol loop --------------------------------------------------------------------------- *)
(* for (rs->j = 0; rs->j < GROUP_SIZE; rs->j++) { NEED(S_PREFIX); ...      -- the loop test *)
Definition slow_head (c : core) : bres :=
  if r_j c <? GROUP_SIZE then BNeed S_prefix c
  else BGo P_GROUP (set_r_g c (add32 (r_g c) 1)).

(* behind NEED(S_PREFIX): one symbol on the slow path, then rs->j++ and the loop test *)
Definition after_prefix (c : core) : bres :=
  T <== ofO (FRead RTree) (nth_error (r_tree c) (N.to_nat (r_t c))) ;;        (* T = &rs->tree[rs->t] *)
  skv <== ofM (tree_decode (r_alpha_size c) T (c_v c)) ;;                     (* x = T->start[..] ... DUMP(k) *)
  let s := fst (fst skv) in let k := snd (fst skv) in
  let c := set_c_w (set_c_v c (snd skv)) (sub32 (c_w c) k) in
  if s =? EOB then eob c                                                      (* if (IS_EOB(s)) eob: *)
  else if (256 <=? s) && run_guard 1 (r_run c) then                           (* IS_RUN(s) && rs->run <= MAX_BLOCK_SIZE *)
    sh <== ofM (shl32 (sub32 s 256) (r_shift c)) ;;                           (* rs->run += RUN(s) << rs->shift++ *)
    let c := set_r_shift (set_r_run c (add32 (r_run c) sh)) (add32 (r_shift c) 1) in
    slow_head (set_r_j c (add32 (r_j c) 1))                                   (* continue *)
  else if overflows c (r_run c) then BRet E_ERR_OVERFLOW c
  else
    c <== emit_run c (r_runChar c) (r_run c) ;;
    let c := set_r_run c UINT_MAX in
    match SlideModel.mtf_one_c (s mod W8) (r_slide c) with                    (* mtf_one(.., (uint8_t)s) *)
    | SlideModel.Oob => BFault FSlideOob
    | SlideModel.Abort => BFault FSlideAbort
    | SlideModel.Done x sl =>
        let c := set_r_run (set_r_shift (set_r_runChar (set_r_slide c sl) x) 0) 1 in
        slow_head (set_r_j c (add32 (r_j c) 1))
    end.

(* the fast path (the symbol code is written out a second time, as in the C):
   for (j = 0; j < GROUP_SIZE; j++) { NEED_FAST(); ... } with n = GROUP_SIZE - j
   iterations to go, T = &rs->tree[rs->t], the locals run, runChar, shift and next (limit is the end of the list) *)
Fixpoint fast_loop (n : nat) (T : tree) (c : core) (next : list N) (run runChar shift : N) : bres * list N :=
  match n with
  | O =>
      (* rs->run = run; rs->runChar = runChar; rs->shift = shift;  and the g++ of the group loop *)
      let c := set_r_shift (set_r_runChar (set_r_run c run) runChar) shift in
      (BGo P_GROUP (set_r_g c (add32 (r_g c) 1)), next)
  | S n' =>
      match need_fast c next with
      | XF f => (BFault f, next)
      | XV (c, next) =>
        match ofM (tree_decode (r_alpha_size c) T (c_v c)) with
        | XF f => (BFault f, next)
        | XV skv =>
          let s := fst (fst skv) in let k := snd (fst skv) in
          let c := set_c_w (set_c_v c (snd skv)) (sub32 (c_w c) k) in
          if s =? EOB then (eob (set_r_runChar (set_r_run c run) runChar), next)   (* rs->run = run; rs->runChar = runChar; goto eob *)
          else if (256 <=? s) && run_guard 0 run then
            match ofM (shl32 (sub32 s 256) shift) with                            (* run += RUN(s) << shift++ *)
            | XF f => (BFault f, next)
            | XV sh => fast_loop n' T c next (add32 run sh) runChar (add32 shift 1)
            end
          else if overflows c run then (BRet E_ERR_OVERFLOW c, next)
          else
            match emit_run c runChar run with
            | XF f => (BFault f, next)
            | XV c =>
              match SlideModel.mtf_one_c (s mod W8) (r_slide c) with
              | SlideModel.Oob => (BFault FSlideOob, next)
              | SlideModel.Abort => (BFault FSlideAbort, next)
              | SlideModel.Done x sl => fast_loop n' T (set_r_slide c sl) next 1 x 0
              end
            end
        end
      end
  end.

(* for (; i > 0; i--) rs->mtf[i] = rs->mtf[i - 1]; *)
Fixpoint mtf_shift (i : nat) (m : list N) : X (list N) :=
  match i with
  | O => XV m
  | S i' => x <-- xget RMtf m (N.of_nat i') ;; m' <-- xset RMtf m (N.of_nat i) x ;; mtf_shift i' m'
  end.

(* the head of  for (rs->g = 0; rs->g < rs->num_selectors; rs->g++)  and the group prologue: select the tree,
   update the IMTF table of the selectors.  Result: the tree is usable ([GSel]), or a return / fault *)
Inductive gsel := GSel (c : core) | GOut (r : bres).
Definition group_select (c : core) : gsel :=
  if r_g c <? r_num_selectors c then
    match xget RSelector (r_selector c) (r_g c) with                          (* i = rs->selector[rs->g] *)
    | XF f => GOut (BFault f)
    | XV i =>
      match xget RMtf (r_mtf c) i with                                        (* rs->t = rs->mtf[i] *)
      | XF f => GOut (BFault f)
      | XV t =>
        let c := set_r_t c t in
        if MAX_TREES <=? t then GOut (BRet t c)                               (* if (rs->t >= MAX_TREES) return rs->t *)
        else
          match (m <-- mtf_shift (N.to_nat i) (r_mtf c) ;; xset RMtf m 0 t) with   (* ...; rs->mtf[0] = rs->t *)
          | XF f => GOut (BFault f)
          | XV m => GSel (set_r_mtf c m)
          end
      end
    end
  else GOut (BRet E_ERR_UNTERM c).

(* [fast_ok]: the test (limit - next) >= 32 is honoured (always so in retrieve(); RetrProofs.v also runs
   the machine with the fast path switched off, as the reference for chunk independence).  The threshold is the
   regenerated constant [fast_path_words] of Gen/DecTabs.v (transcribed from the test in retrieve()); the only
   fact the proofs use about it is [RetrSafe.fast_path_words_enough]: that many words hold a whole group. *)
Definition group_head (fast_ok : bool) (c : core) (next : list N) : bres * list N :=
  match group_select c with
  | GOut r => (r, next)
  | GSel c =>
      if fast_ok && (fast_path_words <=? N.of_nat (length next)) then         (* if ((limit - next) >= 32) *)
        match ofO (FRead RTree) (nth_error (r_tree c) (N.to_nat (r_t c))) with
        | XF f => (BFault f, next)
        | XV T => fast_loop (N.to_nat GROUP_SIZE) T c next (r_run c) (r_runChar c) (r_shift c)
        end
      else (slow_head (set_r_j c 0), next)
  end.

(* ---- behind the tree loop: IMTF and IBWT tables, selector clamp, g = 0 ---------------------------------- *)
Definition init_groups (c : core) : bres :=
  let rows := SlideModel.rows_init CMAP_BASE in                               (* imtf_row[i] = imtf_slide + CMAP_BASE + i * ROW_WIDTH *)
  let sl := SlideModel.Build_sstate (SlideModel.s_slide (r_slide c)) rows in
  r0 <== ofO FSlideOob (SlideModel.rd rows 0) ;;
  x <== ofO FSlideOob (SlideModel.rd (SlideModel.s_slide sl) r0) ;;           (* rs->runChar = rs->imtf_row[0][0] *)
  let c := set_r_shift (set_r_run (set_r_runChar (set_r_slide c sl) x) 0) 0 in
  let c := set_d_ftab c (repeat 0 256) in                                     (* memset(ds->ftab, 0, sizeof(ds->ftab)) *)
  let c := if sel_clamp_test <? r_num_selectors c then set_r_num_selectors c sel_clamp_value else c in
  BGo P_GROUP (set_r_g c 0).

(* ---- S_DELTA_TAG: code lengths ----------------------------------------------------------------------------- *)
Definition Rmin_tab : list N := if delta_check_excursion then match delta_Rmin with Some t => t | None => [] end else delta_R.
Definition Rmax_tab : list N := if delta_check_excursion then match delta_Rmax with Some t => t | None => [] end else delta_R.

(* while (rs->j < rs->alpha_size) { ... NEED(S_DELTA_TAG); }  make_tree(rs);  and the t++ of the tree loop *)
Definition delta_head (c : core) : bres :=
  if r_j c <? r_alpha_size c then
    k <== peek c 6 ;;
    cl <== xget RCodeLen (r_code_len c) (r_j c) ;;
    rmin <== xget RConst Rmin_tab k ;;
    rmax <== xget RConst Rmax_tab k ;;
    if (cl + rmin <? delta_check_lo) || (delta_check_hi <? cl + rmax) then BRet E_ERR_DELTA c
    else
      r <== xget RConst delta_R k ;;
      let cl := ((cl + r) mod W8 + W8 - delta_bias) mod W8 in                (* code_len[j] += R[k]; code_len[j] -= 3;  (uint8_t) *)
      cls <== xset RCodeLen (r_code_len c) (r_j c) cl ;;
      let c := set_r_code_len c cls in
      kk <== xget RConst delta_L k ;;                                         (* k = L[k] *)
      c <== (if negb (kk =? 6) then
               let c := set_r_j c (add32 (r_j c) 1) in
               if r_j c <? r_alpha_size c then
                 p <-- xget RCodeLen (r_code_len c) (sub32 (r_j c) 1) ;;
                 cls <-- xset RCodeLen (r_code_len c) (r_j c) p ;;
                 XV (set_r_code_len c cls)
               else XV c
             else XV c) ;;
      c <== dump c kk ;;
      BNeed S_delta_tag c
  else
    T <== ofO (FRead RTree) (nth_error (r_tree c) (N.to_nat (r_t c))) ;;
    vt <== ofM (make_tree (r_alpha_size c) (r_code_len c) T) ;;              (* make_tree(rs) *)
    m <== xset RMtf (r_mtf c) (r_t c) (verdict_code (r_t c) (fst vt)) ;;     (*   rs->mtf[rs->t] = ... *)
    let c := set_r_mtf (set_r_tree c (updt (N.to_nat (r_t c)) (snd vt) (r_tree c))) m in
    BGo P_TREE (set_r_t c (add32 (r_t c) 1)).

(* for (rs->t = 0; rs->t < rs->num_trees; rs->t++) { rs->j = 0; TAKE(rs->code_len[0], 5); while ... *)
Definition tree_head (c : core) : bres :=
  if r_t c <? r_num_trees c then
    let c := set_r_j c 0 in
    x <== peek c 5 ;;
    cls <== xset RCodeLen (r_code_len c) 0 (x mod W8) ;;
    c <== dump (set_r_code_len c cls) 5 ;;
    delta_head c
  else init_groups c.

Definition after_delta_tag (c : core) : bres := delta_head c.

(* ---- S_SELECTOR_MTF ------------------------------------------------------------------------------------------ *)
(* for (rs->j = 0; rs->j < rs->num_selectors; rs->j++) { k = table[PEEK(6u)]; ... NEED(S_SELECTOR_MTF); } *)
Definition sel_head (c : core) : bres :=
  if r_j c <? r_num_selectors c then
    x <== peek c 6 ;;
    k <== xget RConst sel_table x ;;
    if r_num_trees c <? k then BRet E_ERR_SELECTOR c
    else
      sel <== xset RSelector (r_selector c) (r_j c) (sub32 k 1 mod W8) ;;    (* rs->selector[rs->j] = k - 1u *)
      c <== dump (set_r_selector c sel) k ;;
      BNeed S_selector_mtf c
  else tree_head (set_r_t c 0).

Definition after_selector_mtf (c : core) : bres := sel_head (set_r_j c (add32 (r_j c) 1)).

(* ---- S_BITMAP_BIG / S_BITMAP_SMALL ------------------------------------------------------------------------------ *)
(* behind the bitmap: alphabet size, number of trees, number of selectors *)
Definition post_bitmap (c : core) : bres :=
  if r_alpha_size c =? 0 then BRet E_ERR_BITMAP c
  else
    let c := set_r_alpha_size c (add32 (r_alpha_size c) 2) in
    nt <== peek c 3 ;;
    c <== dump (set_r_num_trees c nt) 3 ;;
    if (nt <? MIN_TREES) || (MAX_TREES <? nt) then BRet E_ERR_TREES c
    else
      ns <== peek c 15 ;;
      c <== dump (set_r_num_selectors c ns) 15 ;;
      if ns =? 0 then BRet E_ERR_GROUPS c
      else sel_head (set_r_j c 0).

(* do { rs->imtf_slide[CMAP_BASE + rs->alpha_size] = rs->j++; rs->alpha_size += rs->small >> 15;
        rs->small <<= 1; } while (rs->j & 0xF);                   at most 16 iterations *)
Fixpoint bitmap_inner (n : nat) (c : core) : X core :=
  match n with
  | O => XF FFuel
  | S n' =>
      a <-- ofO FSlideOob (SlideModel.wr (SlideModel.s_slide (r_slide c)) (CMAP_BASE + r_alpha_size c) (r_j c mod W8)) ;;
      let c := set_r_slide c (SlideModel.Build_sstate a (SlideModel.s_rows (r_slide c))) in
      let c := set_r_j c (add32 (r_j c) 1) in
      sm <-- ofM (shr32 (r_small c) 15) ;;
      let c := set_r_alpha_size c (add32 (r_alpha_size c) sm) in
      let c := set_r_small c ((r_small c * 2) mod W16) in
      if N.land (r_j c) 15 =? 0 then XV c else bitmap_inner n' c
  end.

(* the outer do { if (rs->big & 0x8000) { TAKE(rs->small, 16u); NEED(S_BITMAP_SMALL); } <inner>; rs->big <<= 1; }
   while (rs->j < 256u);   entered behind the NEED (or behind the skipped if): at most 16 iterations *)
Fixpoint bitmap_from_inner (n : nat) (c : core) : bres :=
  match n with
  | O => BFault FFuel
  | S n' =>
      c <== bitmap_inner 16 c ;;
      let c := set_r_big c ((r_big c * 2) mod W16) in
      if r_j c <? 256 then
        if negb (N.land (r_big c) 0x8000 =? 0) then
          sm <== peek c 16 ;;
          c <== dump (set_r_small c sm) 16 ;;
          BNeed S_bitmap_small c
        else bitmap_from_inner n' c
      else post_bitmap c
  end.

Definition after_bitmap_small (c : core) : bres := bitmap_from_inner 16 c.

(* TAKE(rs->big, 16u); rs->small = 0; rs->alpha_size = 0u; rs->j = 0; do { ... *)
Definition after_bitmap_big (c : core) : bres :=
  big <== peek c 16 ;;
  c <== dump (set_r_big c big) 16 ;;
  let c := set_r_j (set_r_alpha_size (set_r_small c 0) 0) 0 in
  if negb (N.land (r_big c) 0x8000 =? 0) then
    sm <== peek c 16 ;;
    c <== dump (set_r_small c sm) 16 ;;
    BNeed S_bitmap_small c
  else bitmap_from_inner 16 c.

(* ---- S_BWT_IDX ----------------------------------------------------------------------------------------------------- *)
(* TAKE(ds->rand, 1u); TAKE(ds->bwt_idx, 24u); NEED(S_BITMAP_BIG); *)
Definition after_bwt_idx (c : core) : bres :=
  rnd <== peek c 1 ;;
  c <== dump (set_d_rand c rnd) 1 ;;
  idx <== peek c 24 ;;
  c <== dump (set_d_bwt_idx c idx) 24 ;;
  BNeed S_bitmap_big c.

(* the code between two NEEDs never looks at next/limit, except for the fast-path test and NEED_FAST *)
Definition step_core (p : pc) (c : core) : bres :=
  match p with
  | A_BWT_IDX => after_bwt_idx c
  | A_BITMAP_BIG => after_bitmap_big c
  | A_BITMAP_SMALL => after_bitmap_small c
  | A_SELECTOR_MTF => after_selector_mtf c
  | A_DELTA_TAG => after_delta_tag c
  | A_PREFIX => after_prefix c
  | P_TREE => tree_head c
  | P_GROUP => BFault FAbort           (* not used: see [step] *)
  end.

Definition step (fast_ok : bool) (p : pc) (c : core) (next : list N) : bres * list N :=
  match p with
  | P_GROUP => group_head fast_ok c next
  | _ => (step_core p c, next)
  end.

(* ---- what survives a return, and the locals next/limit ---------------------------------------------------------------- *)
Record rstate := mk_rstate {
  s_core : core;
  l_next : list N;          (* the locals next .. limit: the words of the current chunk not yet consumed (after ntohl) *)
  s_state : N;              (* rs->state *)
  b_live : N;               (* bs->live *)
  b_buff : N;               (* bs->buff *)
  b_data : list N;          (* the words bs->data .. bs->limit (after ntohl) *)
  b_eof : bool;             (* bs->eof *)
  d_block_size : N          (* ds->block_size *)
}.

Definition with_core (st : rstate) (c : core) : rstate :=
  mk_rstate c (l_next st) (s_state st) (b_live st) (b_buff st) (b_data st) (b_eof st) (d_block_size st).
Definition with_next (st : rstate) (nx : list N) : rstate :=
  mk_rstate (s_core st) nx (s_state st) (b_live st) (b_buff st) (b_data st) (b_eof st) (d_block_size st).
Definition with_state (st : rstate) (s : N) : rstate :=
  mk_rstate (s_core st) (l_next st) s (b_live st) (b_buff st) (b_data st) (b_eof st) (d_block_size st).

(* RESTORE(): v = bs->buff, w = bs->live, next = bs->data, limit = bs->limit, tt = ds->tt + ds->block_size *)
Definition restore (st : rstate) : rstate :=
  with_next (with_core st (set_c_ttp (set_c_w (set_c_v (s_core st) (b_buff st)) (b_live st)) (d_block_size st))) (b_data st).
(* SAVE(): bs->buff = v, bs->live = w, bs->data = next, ds->block_size = tt - ds->tt *)
Definition save (st : rstate) : rstate :=
  let c := s_core st in mk_rstate c (l_next st) (s_state st) (c_w c) (c_v c) (l_next st) (b_eof st) (c_ttp c).

Inductive cres :=
| RMore (st : rstate)            (* MORE: call again with more input *)
| ROk (st : rstate)              (* OK: block retrieved (the internal state is freed) *)
| RErr (code : N) (st : rstate)  (* ERR_* *)
| RFault (f : fault).

Inductive nres := NGo (st : rstate) | NRet (r : cres).

(* NEED(s), reached from above *)
Definition need_at (s : site) (st : rstate) : nres :=
  let c := s_core st in
  if c_w c <? 32 then
    match l_next st with
    | [] =>
        let st := save st in
        if b_eof st then NRet (RErr E_ERR_EOF st)                             (* return ERR_EOF *)
        else NRet (RMore (with_state st (state_no s)))                        (* rs->state = (s); return MORE *)
    | x :: r =>
        match load c x with XV c' => NGo (with_next (with_core st c') r) | XF f => NRet (RFault f) end
    end
  else NGo st.

(* the end of a block: SAVE(); if (ds->block_size == 0) return ERR_EMPTY;
   if (ds->bwt_idx >= ds->block_size) return ERR_BWTIDX; free(..); return OK; *)
Definition finish (st : rstate) : cres :=
  let st := save st in
  if d_block_size st =? 0 then RErr E_ERR_EMPTY st
  else if d_block_size st <=? d_bwt_idx (s_core st) then RErr E_ERR_BWTIDX st
  else ROk st.

(* one pass: from control point p to the next one, or to a return *)
Inductive out := Running (p : pc) (st : rstate) | Final (r : cres).

Definition onestep (fast_ok : bool) (p : pc) (st : rstate) : out :=
  let (b, nx) := step fast_ok p (s_core st) (l_next st) in
  let st := with_next st nx in
  match b with
  | BGo p' c => Running p' (with_core st c)
  | BNeed s c =>
      match need_at s (with_core st c) with
      | NGo st' => Running (After s) st'
      | NRet r => Final r
      end
  | BRet code c => Final (RErr code (with_core st c))
  | BEob c => Final (finish (with_core st c))
  | BFault fl => Final (RFault fl)
  end.

Fixpoint run_from (fast_ok : bool) (fuel : nat) (p : pc) (st : rstate) : cres :=
  match fuel with
  | O => RFault FFuel
  | S f =>
      match onestep fast_ok p st with
      | Running p' st' => run_from fast_ok f p' st'
      | Final r => r
      end
  end.

(* enough for every call (RetrProofs.v): every pass through [run_from] either consumes a bit of the
   chunk or is one of at most three consecutive passes that do not *)
Definition call_fuel (st : rstate) : nat := N.to_nat (4 * (b_live st + 32 * N.of_nat (length (b_data st))) + 8).

(* int retrieve(struct decoder_state *ds, struct bitstream *bs), with explicit fuel *)
Definition retrieve_f (fuel : nat) (fast_ok : bool) (st : rstate) : cres :=
  let st := restore st in
  if s_state st =? S_INIT then
    (* case S_INIT: NEED(S_BWT_IDX); *)
    match need_at S_bwt_idx st with
    | NGo st' => run_from fast_ok fuel A_BWT_IDX st'
    | NRet r => r
    end
  else
    match site_of_state (s_state st) with
    | None => RFault FAbort                                                   (* default: abort() *)
    | Some s =>
        (* case (s): if (bs->data == bs->limit) { assert(bs->eof); return ERR_EOF; } RESTORE(); assert(w < 32u); *)
        match b_data st with
        | [] => if b_eof st then RErr E_ERR_EOF st else RFault (FAssert 1)
        | x :: r =>
            let st := restore st in
            if c_w (s_core st) <? 32 then
              match load (s_core st) x with
              | XV c' => run_from fast_ok fuel (After s) (with_next (with_core st c') r)
              | XF f => RFault f
              end
            else RFault (FAssert 2)
        end
    end.

Definition retrieve_gen (fast_ok : bool) (st : rstate) : cres := retrieve_f (call_fuel st) fast_ok st.

Definition retrieve : rstate -> cres := retrieve_gen true.

(* ---- the caller's side (expand.c: attach() / detach() around retrieve()) ------------------------------------------ *)
(* bs.data = base + ..., bs.limit = base + blk->size  (a non-empty part of the input); live, buff, eof carried over *)
Definition attach (st : rstate) (chunk : list N) : rstate :=
  mk_rstate (s_core st) (l_next st) (s_state st) (b_live st) (b_buff st) chunk (b_eof st) (d_block_size st).
(* at the end of the input: bs.data = bs.limit = NULL, bs.eof = (bs.live < 32u) *)
Definition attach_eof (st : rstate) : rstate :=
  mk_rstate (s_core st) (l_next st) (s_state st) (b_live st) (b_buff st) [] (b_live st <? 32) (d_block_size st).

(* the chunks one after the other, then end of input.  Also returns the chunks not yet attached. *)
Fixpoint retr_chunks_f (fuel : rstate -> nat) (fast_ok : bool) (st : rstate) (chunks : list (list N)) : cres * list (list N) :=
  match chunks with
  | [] =>
      match retrieve_f (fuel (attach_eof st)) fast_ok (attach_eof st) with
      | RMore st' => (retrieve_f (fuel (attach_eof st')) fast_ok (attach_eof st'), [])
      | r => (r, [])
      end
  | ch :: rest =>
      match retrieve_f (fuel (attach st ch)) fast_ok (attach st ch) with
      | RMore st' => retr_chunks_f fuel fast_ok st' rest
      | r => (r, rest)
      end
  end.

Definition retr_chunks : rstate -> list (list N) -> cres * list (list N) := retr_chunks_f call_fuel true.

(* ---- initial state: decoder_init() + bits_init()/the parser's bit stream ------------------------------------------- *)
(* all arrays hold arbitrary values of their declared lengths *)
Definition init_core (sel cl mtf : list N) (trees : list tree) (slide rows ftab : list N)
                     (rand idx asz nt ns big small j t g rc run shift : N) : core :=
  mk_core 0 0 0 [] rand idx ftab sel nt ns asz cl mtf trees big small j t g
          (SlideModel.Build_sstate slide rows) rc run shift.

Definition init_state (c : core) (buff live : N) : rstate :=
  mk_rstate c [] S_INIT live buff [] false 0.

(* a definite instance for tests and extraction: everything 0xAA.. as after memset(.., 0xAA, ..), except
   ds->rand = true (a bool) and the row pointers = imtf_slide; this is how harness/retr_h.c starts *)
Definition junk_core : core :=
  init_core (fill MAX_SELECTORS 0xAA) (fill MAX_ALPHA_SIZE 0xAA) (fill MAX_TREES 0xAAAAAAAA)
            (repeat garbage_tree (N.to_nat MAX_TREES)) (fill SLIDE_LENGTH 0xAA) (fill NUM_ROWS 0) (fill 256 0xAAAAAAAA)
            1 0xAAAAAAAA 0xAAAAAAAA 0xAAAAAAAA 0xAAAAAAAA 0xAAAA 0xAAAA 0xAAAAAAAA 0xAAAAAAAA 0xAAAAAAAA
            0xAAAAAAAA 0xAAAAAAAA 0xAAAAAAAA.

