(* C05/C06, retrieve(): the selector and code length blocks of the model (Safe/RetrModel.v) read what
   Format.read_block reads (residual programs K_* and abstract values R_* of Safe/RetrSpec.v). *)
From Coq Require Import List NArith Arith Bool Lia ZifyBool ZifyNat ZifyN.
From LBZ Require Import Common.Bits Gen.Consts Gen.DecTabs Dec.Prog Dec.Format Dec.Sim Dec.Policies Dec.Delta Dec.DecProofs
                        Safe.TreeModel Safe.TreeLemmas Safe.TreeProofs
                        Safe.RetrModel Safe.RetrChunk Safe.RetrInv Safe.RetrStepSel Safe.RetrSpec Safe.RetrWin.
From LBZ Require Safe.SlideModel Safe.SlideProofs.
Import ListNotations.
Local Open Scope N_scope.

(* the delta loop of one tree, from its head to the next NEED or to the next tree *)
Lemma ref_delta c h selm tables lens f nx : R_deltaH c h selm tables lens -> buf_ok c -> 6 <= c_w c ->
  (length (strm c nx) < f)%nat ->
  match delta_head c with
  | BNeed S_delta_tag c' =>
      exists lens', R_delta c' h selm tables lens' /\
        run (K_lens f h selm tables lens (h_alpha h - length lens) (cl c (r_j c))) (strm c nx) =
        run (K_lens f h selm tables lens' (h_alpha h - length lens') (cl c' (r_j c'))) (strm c' nx)
  | BGo P_TREE c' =>
      exists tables', R_tree c' h selm tables' /\
        run (K_lens f h selm tables lens (h_alpha h - length lens) (cl c (r_j c))) (strm c nx) =
        run (K_tables f h selm tables') (strm c' nx)
  | BRet _ _ => exists e, run (K_lens f h selm tables lens (h_alpha h - length lens) (cl c (r_j c))) (strm c nx) = Err e
  | _ => True
  end.
Proof.
Abort.

(* the head of the tree loop *)
Lemma ref_tree c h selm tables f nx : R_tree c h selm tables -> buf_ok c -> 32 <= c_w c ->
  (length (strm c nx) < f)%nat ->
  match tree_head c with
  | BNeed S_delta_tag c' =>
      exists lens', R_delta c' h selm tables lens' /\
        run (K_tables f h selm tables) (strm c nx) =
        run (K_lens f h selm tables lens' (h_alpha h - length lens') (cl c' (r_j c'))) (strm c' nx)
  | BGo P_GROUP c' =>
      R_group c' h selm tables 0 [] /\
      run (K_tables f h selm tables) (strm c nx) = run (K_group h selm tables 0 []) (strm c' nx)
  | BRet _ _ => exists e, run (K_tables f h selm tables) (strm c nx) = Err e
  | _ => True
  end.
Proof.
Abort.

(* the head of the selector loop *)
Lemma ref_sel c h selm f nx : R_selH c h selm -> buf_ok c -> 6 <= c_w c -> (r_j c = r_num_selectors c -> 32 <= c_w c) ->
  (length (strm c nx) < f)%nat ->
  match sel_head c with
  | BNeed S_selector_mtf c' =>
      exists selm', R_sel c' h selm' /\ run (K_sels f h selm) (strm c nx) = run (K_sels f h selm') (strm c' nx)
  | BNeed S_delta_tag c' =>
      exists lens', R_delta c' h selm [] lens' /\
        run (K_sels f h selm) (strm c nx) =
        run (K_lens f h selm [] lens' (h_alpha h - length lens') (cl c' (r_j c'))) (strm c' nx)
  | BRet _ _ => exists e, run (K_sels f h selm) (strm c nx) = Err e
  | _ => True
  end.
Proof.
Abort.
