(* C05/C06, retrieve(): the selector and code length blocks of the model (Safe/RetrModel.v) read what
   Format.read_block reads (residual programs K_* and abstract values R_* of Safe/RetrSpec.v). *)
From Coq Require Import List NArith Arith Bool Lia ZifyBool ZifyNat ZifyN.
From LBZ Require Import Common.Bits Gen.Consts Gen.DecTabs Dec.Prog Dec.Format Dec.Sim Dec.Policies Dec.Delta Dec.DecProofs
                        Safe.TreeModel Safe.TreeLemmas Safe.TreeProofs
                        Safe.RetrModel Safe.RetrChunk Safe.RetrInv Safe.RetrStepSel Safe.RetrSpec Safe.RetrWin.
From LBZ Require Safe.SlideModel Safe.SlideProofs.
Import ListNotations.
Local Open Scope N_scope.

(* ---- the stream: its first bits, DUMP ----------------------------------------------------------------------------- *)
Lemma strm_front c q nx n : buf_is c q -> N.of_nat n <= c_w c ->
  strm c nx = bits_msb n (q / 2 ^ (c_w c - N.of_nat n)) ++ skipn n (strm c nx).
Proof.
  intros Hq Hn. rewrite (strm_q c q nx Hq).
  assert (E : bits_msb (N.to_nat (c_w c)) q =
              bits_msb n (q / 2 ^ (c_w c - N.of_nat n)) ++ bits_msb (N.to_nat (c_w c) - n) q).
  { replace (N.to_nat (c_w c)) with (n + (N.to_nat (c_w c) - n))%nat at 1 by lia. rewrite bits_msb_split.
    do 3 f_equal. lia. }
  rewrite E, <- app_assoc. rewrite skipn_app, bits_msb_length, Nat.sub_diag.
  rewrite skipn_all2 by (rewrite bits_msb_length; lia). reflexivity.
Qed.

Lemma strm_skip c q kk c' nx : buf_is c q -> kk <= c_w c -> buf_is c' (q mod 2 ^ (c_w c - kk)) -> c_w c' = c_w c - kk ->
  strm c' nx = skipn (N.to_nat kk) (strm c nx).
Proof.
  intros Hq Hk Hq' Ew. rewrite (strm_split c q kk c' nx Hq Hk Hq' Ew).
  rewrite skipn_app, bits_msb_length, Nat.sub_diag. rewrite skipn_all2 by (rewrite bits_msb_length; lia). reflexivity.
Qed.

Lemma strm_same c c' nx : c_v c' = c_v c -> c_w c' = c_w c -> strm c' nx = strm c nx.
Proof. intros Ev Ew. unfold strm, bufq. rewrite Ev, Ew. reflexivity. Qed.

Lemma skipn_length_lt {A} n (l : list A) m : (length l < m)%nat -> (n <= length l)%nat -> (length (skipn n l) < m - n)%nat.
Proof. intros H1 H2. rewrite skipn_length. lia. Qed.

(* ---- the range test of retrieve() is window_apply ----------------------------------------------------------------- *)
Lemma window_apply_C cur k : k < 64 ->
  window_apply cur k =
  if (cur + nth (N.to_nat k) Rmin_tab 0 <? delta_check_lo) || (delta_check_hi <? cur + nth (N.to_nat k) Rmax_tab 0) then None
  else Some (cur + nth (N.to_nat k) delta_R 0 - delta_bias).
Proof.
  intro Hk. destruct (delta_entry k Hk) as (HL & Hmin & Hmax & Hhi). cbv zeta in HL, Hmin, Hmax, Hhi.
  unfold window_apply.
  change (tabRmin k) with (nth (N.to_nat k) Rmin_tab 0). change (tabRmax k) with (nth (N.to_nat k) Rmax_tab 0).
  change (tabR k) with (nth (N.to_nat k) delta_R 0).
  destruct ((cur + nth (N.to_nat k) Rmin_tab 0 <? delta_check_lo) || (delta_check_hi <? cur + nth (N.to_nat k) Rmax_tab 0)) eqn:E;
    [reflexivity|].
  assert (E2 : (cur + nth (N.to_nat k) delta_R 0 <? delta_check_lo) || (delta_check_hi <? cur + nth (N.to_nat k) delta_R 0) = false) by lia.
  rewrite E2. reflexivity.
Qed.

(* one window of the delta reader on the stream of a state *)
Lemma delta_step_run c q nx f cur : buf_is c q -> 6 <= c_w c -> (length (strm c nx) < f)%nat ->
  run (win_delta f cur) (strm c nx) =
  match window_apply cur (q / 2 ^ (c_w c - 6)) with
  | None => Err ErrDelta
  | Some cur' =>
      if tabL (q / 2 ^ (c_w c - 6)) =? 6 then run (win_delta f cur') (skipn 6 (strm c nx))
      else Ok (cur', skipn (N.to_nat (tabL (q / 2 ^ (c_w c - 6)))) (strm c nx))
  end.
Proof.
  intros Hq Hw Hf. pose proof (strm_length c nx) as SL.
  pose proof (peek_lt q (c_w c) 6 ltac:(apply Hq) Hw) as Hk. change (2 ^ 6) with 64 in Hk.
  pose proof (strm_front c q nx 6 Hq ltac:(lia)) as SF. change (N.of_nat 6) with 6 in SF.
  rewrite SF at 1. rewrite win_window by lia. rewrite <- SF.
  destruct (window_apply cur _) as [cur'|]; [|reflexivity].
  destruct (tabL _ =? 6); [|reflexivity].
  unfold win_delta. apply mprog_fuel; rewrite skipn_length; lia.
Qed.

(* ---- residual programs, one step ---------------------------------------------------------------------------------- *)
Lemma K_lens_step f h selm tables lens n' cur bits :
  run (K_lens f h selm tables lens (S n') cur) bits =
  match run (win_delta f cur) bits with
  | Ok (l, r) => run (K_lens f h selm tables (lens ++ [l]) n' l) r
  | Err e => Err e
  end.
Proof.
  unfold K_lens. cbn [read_lens]. change (delta_reader lbz_policy) with win_delta. rewrite !run_bind.
  destruct (run (win_delta f cur) bits) as [[l r]|e]; [|reflexivity].
  rewrite !run_bind. destruct (run (read_lens lbz_policy f n' l) r) as [[ls r']|e]; [|reflexivity].
  cbn [run]. rewrite <- app_assoc. reflexivity.
Qed.

Lemma K_lens_0 f h selm tables lens cur : K_lens f h selm tables lens 0 cur = K_tables f h selm (tables ++ [lens ++ []]).
Proof. reflexivity. Qed.

Lemma K_lens_window c q nx f h selm tables lens n' cur : buf_is c q -> 6 <= c_w c -> (length (strm c nx) < f)%nat ->
  run (K_lens f h selm tables lens (S n') cur) (strm c nx) =
  let k := q / 2 ^ (c_w c - 6) in
  if (cur + nth (N.to_nat k) Rmin_tab 0 <? delta_check_lo) || (delta_check_hi <? cur + nth (N.to_nat k) Rmax_tab 0) then Err ErrDelta
  else
    let ncl := cur + nth (N.to_nat k) delta_R 0 - delta_bias in
    if nth (N.to_nat k) delta_L 0 =? 6 then run (K_lens f h selm tables lens (S n') ncl) (skipn 6 (strm c nx))
    else run (K_lens f h selm tables (lens ++ [ncl]) n' ncl) (skipn (N.to_nat (nth (N.to_nat k) delta_L 0)) (strm c nx)).
Proof.
  intros Hq Hw Hf. cbv zeta.
  pose proof (peek_lt q (c_w c) 6 ltac:(apply Hq) Hw) as Hk. change (2 ^ 6) with 64 in Hk.
  rewrite K_lens_step, (delta_step_run c q nx f cur Hq Hw Hf), (window_apply_C cur _ Hk).
  destruct (_ || _); [reflexivity|].
  change (tabL (q / 2 ^ (c_w c - 6))) with (nth (N.to_nat (q / 2 ^ (c_w c - 6))) delta_L 0).
  destruct (_ =? 6); [|reflexivity].
  rewrite K_lens_step. reflexivity.
Qed.

(* ---- frames ---------------------------------------------------------------------------------------------------------- *)
Lemma R_hdr_frame c c' h flags : R_hdr c h flags -> J_hdr c' flags -> d_rand c' = d_rand c -> d_bwt_idx c' = d_bwt_idx c ->
  r_num_trees c' = r_num_trees c -> r_num_selectors c' = r_num_selectors c -> R_hdr c' h flags.
Proof. intros (_ & H1 & H2 & H3 & H4 & H5) HJ E1 E2 E3 E4. unfold R_hdr. rewrite E1, E2, E3, E4. auto 10. Qed.

Lemma tabs_rel_frame c c' tables : tabs_rel c tables -> r_t c' = r_t c -> r_alpha_size c' = r_alpha_size c ->
  r_mtf c' = r_mtf c -> r_tree c' = r_tree c -> tabs_rel c' tables.
Proof. intros H E1 E2 E3 E4. unfold tabs_rel. rewrite E1, E2, E3, E4. exact H. Qed.

Lemma R_hdr_alpha c h flags : R_hdr c h flags -> N.of_nat (h_alpha h) = r_alpha_size c.
Proof. intros ((_ & _ & _ & _ & Ha & _) & Hu & _). unfold h_alpha. rewrite Hu, Ha. lia. Qed.

Lemma firstn_upd_le n i x l : (n <= i)%nat -> firstn n (upd i x l) = firstn n l.
Proof.
  revert i l; induction n as [|n IH]; intros i l H; [reflexivity|].
  destruct l as [|y r]; [destruct i; reflexivity|]. destruct i as [|i]; [lia|]. cbn [upd firstn]. rewrite IH by lia. reflexivity.
Qed.

Lemma firstn_S_upd i x l : (i < length l)%nat -> firstn (S i) (upd i x l) = firstn i l ++ [x].
Proof.
  intro H. rewrite firstn_S_nth by (rewrite upd_length; exact H). rewrite nth_upd_same by exact H.
  rewrite firstn_upd_le by lia. reflexivity.
Qed.


(* the common tail of the three ways through the loop body, on the reading side *)
Lemma ref_finish c h selm tables flags q kk j' cls' c0 lens' cur' f nx X :
  J_delta c flags 31 -> buf_is c q -> 1 <= kk <= 6 -> 6 <= c_w c ->
  length cls' = 258%nat -> j' <= r_alpha_size c ->
  (forall i, i < j' -> 1 <= nth (N.to_nat i) cls' 0 <= 20) ->
  (j' < r_alpha_size c -> 1 <= nth (N.to_nat j') cls' 0 <= 20) ->
  c0 = set_r_code_len (set_r_j c j') cls' ->
  R_hdr c h flags -> selm = firstn (N.to_nat (h_ns h)) (r_selector c) -> tabs_rel c tables ->
  lens' = firstn (N.to_nat j') cls' ->
  (j' < r_alpha_size c -> nth (N.to_nat j') cls' 0 = cur') ->
  X = run (K_lens f h selm tables lens' (h_alpha h - length lens') cur') (skipn (N.to_nat kk) (strm c nx)) ->
  match (c1 <== dump c0 kk ;; BNeed S_delta_tag c1) with
  | BNeed S_delta_tag c' =>
      exists lens', R_delta c' h selm tables lens' /\
        X = run (K_lens f h selm tables lens' (h_alpha h - length lens') (cl c' (r_j c'))) (strm c' nx)
  | BGo P_TREE c' => exists tables', R_tree c' h selm tables' /\ X = run (K_tables f h selm tables') (strm c' nx)
  | BRet _ _ => exists e, X = Err e
  | _ => True
  end.
Proof.
  intros HJ Hb Hkk Hw Hl Hj Hlo Hcur Ec0 HR Hsel Htab Hlens Hcur' HX.
  pose proof (delta_finish c flags q kk j' cls' c0 HJ Hb Hkk Hw Hl Hj Hlo Hcur Ec0) as DF.
  pose proof (R_hdr_alpha c h flags HR) as Hha.
  assert (Hal : r_alpha_size c <= 258) by (apply (J_hdr_alpha c flags), HJ).
  assert (Hb0 : buf_is c0 q) by (apply (buf_is_frame c); [subst c0; dcore c; reflexivity..|exact Hb]).
  assert (Ew0 : c_w c0 = c_w c) by (subst c0; dcore c; reflexivity).
  destruct (dump_ok c0 q kk Hb0 ltac:(lia)) as (c' & E & Ec' & B').
  rewrite E in DF |- *. cbn [bindB] in DF |- *. destruct DF as (DJ & _).
  assert (Ew : c_w c' = c_w c0 - kk) by (subst c'; dcore c0; reflexivity).
  assert (Ej : r_j c' = j') by (subst c' c0; dcore c; reflexivity).
  assert (Ecl : r_code_len c' = cls') by (subst c' c0; dcore c; reflexivity).
  exists lens'. split.
  - exists flags. split; [exact DJ|]. split; [|split; [|split]].
    + apply (R_hdr_frame c); [exact HR|apply DJ|subst c' c0; dcore c; reflexivity..].
    + rewrite Hsel. f_equal. subst c' c0; dcore c; reflexivity.
    + apply (tabs_rel_frame c); [exact Htab|subst c' c0; dcore c; reflexivity..].
    + rewrite Ej, Ecl. exact Hlens.
  - rewrite (strm_skip c0 q kk c' nx Hb0 ltac:(lia) B' Ew). rewrite (strm_same c c0) by (subst c0; dcore c; reflexivity).
    rewrite HX. unfold cl. rewrite Ej, Ecl.
    destruct (N.ltb_spec j' (r_alpha_size c)) as [Hlt|Hge].
    + rewrite (Hcur' Hlt). reflexivity.
    + assert (E0 : (h_alpha h - length lens' = 0)%nat) by (subst lens'; rewrite firstn_length; lia).
      rewrite E0. reflexivity.
Qed.

(* the delta loop of one tree, from its head to the next NEED or to the next tree *)
Lemma ref_delta c h selm tables lens f nx : R_deltaH c h selm tables lens -> buf_ok c -> 6 <= c_w c ->
  (length (strm c nx) < f)%nat ->
  match delta_head c with
  | BNeed S_delta_tag c' =>
      exists lens', R_delta c' h selm tables lens' /\
        run (K_lens f h selm tables lens (h_alpha h - length lens) (cl c (r_j c))) (strm c nx) =
        run (K_lens f h selm tables lens' (h_alpha h - length lens') (cl c' (r_j c'))) (strm c' nx)
  | BGo P_TREE c' =>
      exists tables', R_tree c' h selm tables' /\
        run (K_lens f h selm tables lens (h_alpha h - length lens) (cl c (r_j c))) (strm c nx) =
        run (K_tables f h selm tables') (strm c' nx)
  | BRet _ _ => exists e, run (K_lens f h selm tables lens (h_alpha h - length lens) (cl c (r_j c))) (strm c nx) = Err e
  | _ => True
  end.
Proof.
  intros (flags & HJ & HR & Hsel & Htab & Hlens) HB Hw Hf.
  pose proof HB as (q & Hb).
  pose proof HJ as (Hh & Hs & Ht & Htd & Hj & Hlo & Hcur).
  pose proof (J_hdr_alpha c flags Hh) as Hal.
  assert (Hsh : shape c) by apply Hh.
  destruct Hsh as (Ssel & Scl & Smtf & Str & Swf & Ssl & Sft).
  pose proof (R_hdr_alpha c h flags HR) as Hha.
  assert (Llens : length lens = N.to_nat (r_j c)) by (subst lens; rewrite firstn_length; lia).
  pose proof (strm_length c nx) as SL.
  destruct (N.ltb_spec (r_j c) (r_alpha_size c)) as [Hlt|Hge].
  - unfold delta_head. rewrite (proj2 (N.ltb_lt _ _) Hlt).
    specialize (Hcur Hlt).
    destruct (h_alpha h - length lens)%nat as [|n'] eqn:En; [lia|].
    pose proof (K_lens_window c q nx f h selm tables lens n' (cl c (r_j c)) Hb Hw Hf) as KW. cbv zeta in KW.
    rewrite (peek_ok c q 6 Hb ltac:(lia) Hw). cbn [bindB].
    pose proof (peek_lt q (c_w c) 6 ltac:(apply Hb) Hw) as Hk. change (2 ^ 6) with 64 in Hk.
    set (k := q / 2 ^ (c_w c - 6)) in *.
    destruct delta_tabs_len as (LL & LR & Lmin & Lmax).
    rewrite (xget_ok RCodeLen) by lia. cbn [bindB].
    rewrite (xget_ok RConst Rmin_tab) by lia. cbn [bindB].
    rewrite (xget_ok RConst Rmax_tab) by lia. cbn [bindB].
    destruct (delta_entry k Hk) as (HL & Hmin & Hmax & Hhi). cbv zeta in HL, Hmin, Hmax, Hhi.
    destruct delta_consts_ok as (Dlo & Dhi & Dbias).
    fold (cl c (r_j c)).
    set (rmin := nth (N.to_nat k) Rmin_tab 0) in *. set (rmax := nth (N.to_nat k) Rmax_tab 0) in *.
    destruct ((cl c (r_j c) + rmin <? delta_check_lo) || (delta_check_hi <? cl c (r_j c) + rmax)) eqn:Etest.
    { exists ErrDelta. exact KW. }
    rewrite (xget_ok RConst delta_R) by lia. cbn [bindB].
    set (r := nth (N.to_nat k) delta_R 0) in *.
    rewrite mod8_delta by lia.
    set (ncl := cl c (r_j c) + r - delta_bias) in *.
    assert (Hncl : 1 <= ncl <= 20) by (unfold ncl; lia).
    rewrite xset_ok by lia. cbn [bindB].
    rewrite (xget_ok RConst delta_L) by lia. cbn [bindB].
    set (kk := nth (N.to_nat k) delta_L 0) in *.
    set (cls := upd (N.to_nat (r_j c)) ncl (r_code_len c)).
    assert (Lcls : length cls = 258%nat) by (unfold cls; rewrite upd_length; exact Scl).
    assert (Ncls_lo : forall i, i < r_j c -> nth (N.to_nat i) cls 0 = cl c i).
    { intros i Hi. unfold cls. rewrite nth_upd_other by lia. reflexivity. }
    assert (Ncls_j : nth (N.to_nat (r_j c)) cls 0 = ncl).
    { unfold cls. rewrite nth_upd_same by lia. reflexivity. }
    assert (Flens : firstn (N.to_nat (r_j c)) cls = lens).
    { unfold cls. rewrite firstn_upd_le by lia. symmetry. exact Hlens. }
    assert (Flens1 : firstn (N.to_nat (r_j c + 1)) cls = lens ++ [ncl]).
    { replace (N.to_nat (r_j c + 1)) with (S (N.to_nat (r_j c))) by lia. unfold cls. rewrite firstn_S_upd by lia.
      rewrite Hlens. reflexivity. }
    replace (r_j (set_r_code_len c cls)) with (r_j c) by (dcore c; reflexivity).
    destruct (N.eqb_spec kk 6) as [E6|N6]; cbn [negb].
    + (* same symbol again *)
      apply (ref_finish c h selm tables flags q kk (r_j c) cls _ lens ncl); try assumption; try lia.
      * intros i Hi. rewrite Ncls_lo by exact Hi. apply Hlo; exact Hi.
      * dcore c; reflexivity.
      * symmetry; exact Flens.
      * rewrite KW, En, E6. reflexivity.
    + rewrite add32_small by (rewrite W32_val; lia).
      replace (r_j (set_r_j (set_r_code_len c cls) (r_j c + 1))) with (r_j c + 1) by (dcore c; reflexivity).
      replace (r_alpha_size (set_r_j (set_r_code_len c cls) (r_j c + 1))) with (r_alpha_size c) by (dcore c; reflexivity).
      replace (r_code_len (set_r_j (set_r_code_len c cls) (r_j c + 1))) with cls by (dcore c; reflexivity).
      assert (En1 : (h_alpha h - length (lens ++ [ncl]))%nat = n') by (rewrite app_length; cbn [length]; lia).
      destruct (N.ltb_spec (r_j c + 1) (r_alpha_size c)) as [Hlt1|Hge1].
      * rewrite sub32_small by (rewrite ?W32_val; lia).
        rewrite xget_ok by lia. cbn [bindX]. rewrite xset_ok by lia. cbn [bindX].
        replace (r_j c + 1 - 1) with (r_j c) by lia. rewrite Ncls_j.
        apply (ref_finish c h selm tables flags q kk (r_j c + 1) (upd (N.to_nat (r_j c + 1)) ncl cls) _ (lens ++ [ncl]) ncl);
          try assumption; try lia.
        -- rewrite upd_length; exact Lcls.
        -- intros i Hi. rewrite nth_upd_other by lia. destruct (N.eq_dec i (r_j c)) as [->|Hne].
           ++ rewrite Ncls_j. exact Hncl.
           ++ rewrite Ncls_lo by lia. apply Hlo; lia.
        -- intros _. rewrite nth_upd_same by lia. exact Hncl.
        -- dcore c; reflexivity.
        -- rewrite firstn_upd_le by lia. symmetry; exact Flens1.
        -- intros _. rewrite nth_upd_same by lia. reflexivity.
        -- rewrite KW, En1. reflexivity.
      * apply (ref_finish c h selm tables flags q kk (r_j c + 1) cls _ (lens ++ [ncl]) ncl); try assumption; try lia.
        -- intros i Hi. destruct (N.eq_dec i (r_j c)) as [->|Hne].
           ++ rewrite Ncls_j. exact Hncl.
           ++ rewrite Ncls_lo by lia. apply Hlo; lia.
        -- dcore c; reflexivity.
        -- symmetry; exact Flens1.
        -- rewrite KW, En1. reflexivity.
  - assert (Ej : r_j c = r_alpha_size c) by lia.
    pose proof (delta_head_ok' c flags HJ HB Hw) as DH.
    set (t := r_t c) in *.
    assert (Ht6 : t < 6) by (destruct Hh as (_ & _ & _ & _ & _ & Hnt & _); lia).
    set (T := nth (N.to_nat t) (r_tree c) garbage_tree).
    set (n := N.to_nat (r_alpha_size c)).
    rewrite Ej in Hlens, Llens. fold n in Hlens, Llens.
    set (pad := skipn n (r_code_len c)).
    assert (ECL : lens ++ pad = r_code_len c) by (rewrite Hlens; apply firstn_skipn).
    assert (Hpre : tree_pre lens pad T).
    { unfold tree_pre. split; [lia|]. split; [|split].
      - apply Forall_nth. intros i d Hi. rewrite (nth_indep _ d 0) by exact Hi. rewrite Hlens.
        rewrite SlideProofs.nth_firstn_lt by lia.
        specialize (Hlo (N.of_nat i) ltac:(lia)). unfold cl in Hlo. rewrite Nat2N.id in Hlo. exact Hlo.
      - rewrite <- app_length. rewrite ECL, Scl. reflexivity.
      - rewrite Forall_forall in Swf. apply Swf. apply nth_In. lia. }
    destruct (make_tree_total lens pad T Hpre) as (vd & T' & EM & WF' & _).
    assert (TR : tree_rel lens (verdict_code t vd) t T').
    { exists pad, T, vd. split; [exact Hpre|]. split; [exact EM|reflexivity]. }
    rewrite ECL in EM. replace (N.of_nat (length lens)) with (r_alpha_size c) in EM by lia.
    assert (EQ : delta_head c = BGo P_TREE (set_r_t (set_r_mtf (set_r_tree c (updt (N.to_nat t) T' (r_tree c)))
                                                         (upd (N.to_nat t) (verdict_code t vd) (r_mtf c))) (t + 1))).
    { unfold delta_head. rewrite (proj2 (N.ltb_ge _ _) Hge). fold t.
      rewrite (nth_error_nth' (r_tree c) garbage_tree) by lia. cbn [ofO bindB]. fold T.
      rewrite EM. cbn [ofM bindB fst snd]. rewrite xset_ok by lia. cbn [bindB].
      match goal with |- context [add32 (r_t ?X) 1] => replace (r_t X) with t by (subst t; dcore c; reflexivity) end.
      rewrite add32_small by (rewrite W32_val; lia). reflexivity. }
    rewrite EQ in DH |- *. destruct DH as ((DJ & DB & DW) & _).
    set (c' := set_r_t _ _) in *.
    assert (F1 : r_t c' = t + 1) by reflexivity.
    assert (F2 : r_alpha_size c' = r_alpha_size c) by reflexivity.
    assert (F3 : r_mtf c' = upd (N.to_nat t) (verdict_code t vd) (r_mtf c)) by reflexivity.
    assert (F4 : r_tree c' = updt (N.to_nat t) T' (r_tree c)) by reflexivity.
    exists (tables ++ [lens]). split.
    + exists flags. split; [exact DJ|]. split; [|split].
      * apply (R_hdr_frame c); [exact HR|apply DJ|reflexivity..].
      * rewrite Hsel. reflexivity.
      * destruct Htab as (Tl & Tr). unfold tabs_rel. rewrite F1, F2, F3, F4. split; [rewrite app_length; cbn [length]; lia|].
        intros i Hi. destruct (N.eq_dec i t) as [->|Hne].
        -- rewrite app_nth2 by lia. replace (N.to_nat t - length tables)%nat with 0%nat by lia. cbn [nth].
           split; [lia|]. rewrite nth_upd_same, nth_updt_same by lia. exact TR.
        -- rewrite app_nth1 by lia. rewrite nth_upd_other, nth_updt_other by lia. apply Tr. lia.
    + replace (h_alpha h - length lens)%nat with 0%nat by lia. rewrite K_lens_0, app_nil_r.
      rewrite (strm_same c c') by reflexivity. reflexivity.
Qed.

Lemma K_tables_step f h selm tables m bits : (N.to_nat (h_nt h) - length tables = S m)%nat ->
  run (K_tables f h selm tables) bits =
  match run (take 5) bits with
  | Ok (start, r) => run (K_lens f h selm tables [] (h_alpha h) start) r
  | Err e => Err e
  end.
Proof.
  intro E. unfold K_lens, K_tables. rewrite E. cbn [repeat_prog]. unfold read_table. rewrite !run_bind.
  destruct (run (take 5) bits) as [[s r]|e]; [|reflexivity].
  rewrite !run_bind. destruct (run (read_lens lbz_policy f (h_alpha h) s) r) as [[ls r']|e]; [|reflexivity].
  rewrite !run_bind.
  replace (N.to_nat (h_nt h) - length (tables ++ [[] ++ ls]))%nat with m by (rewrite app_length; cbn [length app]; lia).
  destruct (run (repeat_prog m _) r') as [[more r'']|e]; [|reflexivity].
  cbn [run app]. rewrite <- app_assoc. reflexivity.
Qed.

Lemma K_tables_done f h selm tables : (N.to_nat (h_nt h) - length tables = 0)%nat ->
  K_tables f h selm tables = K_group h selm (tables ++ []) 0 [].
Proof. intro E. unfold K_tables. rewrite E. reflexivity. Qed.

(* what init_groups changes *)
Lemma init_groups_eq c flags : J_tree c flags -> r_t c = r_num_trees c ->
  exists c', init_groups c = BGo P_GROUP c' /\
    c_v c' = c_v c /\ c_w c' = c_w c /\ c_ttp c' = c_ttp c /\ c_tt c' = c_tt c /\
    d_rand c' = d_rand c /\ d_bwt_idx c' = d_bwt_idx c /\ r_num_trees c' = r_num_trees c /\ r_alpha_size c' = r_alpha_size c /\
    r_selector c' = r_selector c /\ r_num_selectors c' = N.min (r_num_selectors c) 18001 /\
    r_mtf c' = r_mtf c /\ r_tree c' = r_tree c /\ r_g c' = 0 /\ r_run c' = 0 /\ r_shift c' = 0 /\
    r_runChar c' = hd 0 (SlideModel.used_of flags).
Proof.
  intros (Hh & Hs & Ht & Htd) Et.
  pose proof (J_hdr_alpha c flags Hh) as Hal.
  pose proof Hh as (((Hsh & Htt0) & Hrand & Hidx) & Lfl & Hfill & Hu1 & Ealpha & Hnt & Hns).
  destruct Hsh as (Ssel & Scl & Smtf & Str & Swf & Ssl & Sft).
  destruct Hfill as (junk & Ljunk & EBF).
  destruct (SlideProofs.bitmap_fill_spec flags CMAP_BASE 0 0 junk) as (a' & EBF' & _ & Hq & _).
  { unfold SlideProofs.len. rewrite Ljunk, Lfl. change CMAP_BASE with 7936. lia. }
  rewrite EBF in EBF'. injection EBF' as Ea'. subst a'.
  fold (SlideModel.used_of flags) in Hq. specialize (Hq 0%nat ltac:(lia)).
  replace (CMAP_BASE + 0 + N.of_nat 0) with CMAP_BASE in Hq by lia.
  unfold init_groups. cbv zeta.
  rewrite (SlideProofs.rd_ok (SlideModel.rows_init CMAP_BASE) 0) by (rewrite SlideProofs.rows_init_len; lia).
  cbn [ofO bindB]. rewrite SlideProofs.rows_init_get by lia. replace (CMAP_BASE + 16 * 0) with CMAP_BASE by lia.
  cbn [SlideModel.s_slide].
  rewrite SlideProofs.rd_ok by (unfold SlideProofs.len; rewrite Ssl; change CMAP_BASE with 7936; lia).
  cbn [ofO bindB].
  eexists. split; [reflexivity|].
  assert (Hx : SlideProofs.get (SlideModel.s_slide (r_slide c)) CMAP_BASE = hd 0 (SlideModel.used_of flags)).
  { rewrite Hq. destruct (SlideModel.used_of flags); reflexivity. }
  destruct (sel_clamp_test <? _) eqn:Ecl.
  - repeat split; try reflexivity; [|exact Hx].
    change sel_clamp_value with 18001. change sel_clamp_test with 18001 in Ecl.
    match type of Ecl with (18001 <? ?X) = true => change X with (r_num_selectors c) in Ecl end.
    match goal with |- r_num_selectors ?X = _ => change (r_num_selectors X) with 18001 end. lia.
  - repeat split; try reflexivity; [|exact Hx].
    change sel_clamp_test with 18001 in Ecl.
    match type of Ecl with (18001 <? ?X) = false => change X with (r_num_selectors c) in Ecl end.
    match goal with |- r_num_selectors ?X = _ => change (r_num_selectors X) with (r_num_selectors c) end. lia.
Qed.

Lemma nth_iota6 i : i < 6 -> nth (N.to_nat i) [0; 1; 2; 3; 4; 5] 0 = i.
Proof.
  intro H. assert (C : i = 0 \/ i = 1 \/ i = 2 \/ i = 3 \/ i = 4 \/ i = 5) by lia.
  destruct C as [->|[->|[->|[->|[->| ->]]]]]; reflexivity.
Qed.

(* the head of the tree loop *)
Lemma ref_tree c h selm tables f nx : R_tree c h selm tables -> buf_ok c -> 32 <= c_w c ->
  (length (strm c nx) < f)%nat ->
  match tree_head c with
  | BNeed S_delta_tag c' =>
      exists lens', R_delta c' h selm tables lens' /\
        run (K_tables f h selm tables) (strm c nx) =
        run (K_lens f h selm tables lens' (h_alpha h - length lens') (cl c' (r_j c'))) (strm c' nx)
  | BGo P_GROUP c' =>
      R_group c' h selm tables 0 [] /\
      run (K_tables f h selm tables) (strm c nx) = run (K_group h selm tables 0 []) (strm c' nx)
  | BRet _ _ => exists e, run (K_tables f h selm tables) (strm c nx) = Err e
  | _ => True
  end.
Proof.
  intros (flags & HJ & HR & Hsel & Htab) HB Hw Hf.
  pose proof HB as (q & Hb). pose proof HJ as (Hh & Hs & Ht & Htd).
  pose proof (J_hdr_alpha c flags Hh) as Hal.
  assert (Hsh : shape c) by apply Hh.
  destruct Hsh as (Ssel & Scl & Smtf & Str & Swf & Ssl & Sft).
  pose proof (R_hdr_alpha c h flags HR) as Hha.
  pose proof (strm_length c nx) as SL.
  pose proof HR as (_ & Hused & Hrnd & Hidx & Hnt & Hns).
  pose proof Htab as (Tl & Tr).
  unfold tree_head.
  destruct (N.ltb_spec (r_t c) (r_num_trees c)) as [Hlt|Hge].
  - assert (Hb1 : buf_is (set_r_j c 0) q) by (apply (buf_is_frame c); [reflexivity..|exact Hb]).
    assert (Ew1 : c_w (set_r_j c 0) = c_w c) by reflexivity.
    destruct (take_ok (set_r_j c 0) q 5 Hb1 ltac:(lia) ltac:(lia)) as (Ep & Hx & Hd).
    rewrite Ep. cbn [bindB]. rewrite Ew1 in *. change (2 ^ 5) with 32 in Hx.
    set (x := q / 2 ^ (c_w c - 5)) in *.
    replace (r_code_len (set_r_j c 0)) with (r_code_len c) by reflexivity.
    rewrite xset_ok by lia. cbn [bindB].
    rewrite (N.mod_small x) by (change W8 with 256; lia).
    destruct (Hd (set_r_code_len (set_r_j c 0) (upd (N.to_nat 0) x (r_code_len c)))
                ltac:(reflexivity) ltac:(reflexivity)) as (c2 & E2 & Ec2 & B2).
    rewrite E2. cbn [bindB].
    assert (Ew2 : c_w c2 = c_w c - 5) by (subst c2; reflexivity).
    assert (HJ2 : J_delta c2 flags 31).
    { clear Hb Hb1 Ep Hd E2 B2 Ew2 Ew1 SL Hf. subst c2. dcore c. unfold J_delta, sels_ok, sel, trees_done, cl in *. rsa.
      split; [|split; [exact Hs|split; [exact Hlt|split; [exact Htd|split; [lia|split; [intros i Hi; lia|]]]]]].
      - eapply J_hdr_frame; [exact Hh|rsa; try reflexivity..]; [apply upd_length|exact Swf].
      - intros _. change (N.to_nat 0) with 0%nat. rewrite nth_upd_same by lia. lia. }
    assert (RD : R_deltaH c2 h selm tables []).
    { exists flags. split; [exact HJ2|]. split; [|split; [|split]].
      - apply (R_hdr_frame c); [exact HR|apply HJ2|subst c2; reflexivity..].
      - rewrite Hsel. subst c2. reflexivity.
      - apply (tabs_rel_frame c); [exact Htab|subst c2; reflexivity..].
      - subst c2. reflexivity. }
    assert (Hf2 : (length (strm c2 nx) < f)%nat).
    { pose proof (strm_length c2 nx) as SL2. lia. }
    pose proof (ref_delta c2 h selm tables [] f nx RD (ex_intro _ _ B2) ltac:(lia) Hf2) as R.
    cbn [length] in R. rewrite Nat.sub_0_r in R.
    assert (Ecl : cl c2 (r_j c2) = x).
    { subst c2. unfold cl. cbn [r_j r_code_len]. change (N.to_nat 0) with 0%nat. apply nth_upd_same. lia. }
    rewrite Ecl in R.
    destruct (N.to_nat (h_nt h) - length tables)%nat as [|m] eqn:Em; [lia|].
    rewrite (K_tables_step f h selm tables m _ Em). change (take 5) with (take (N.to_nat 5)).
    rewrite (strm_take c q 5 c2 nx Hb ltac:(lia) B2 Ew2). fold x.
    pose proof (delta_head_ok' c2 flags HJ2 (ex_intro _ _ B2) ltac:(lia)) as R0.
    destruct (delta_head c2) as [[[]| |] c'|[] c'| | |]; try exact R; try exact I; exfalso; exact R0.
  - destruct (init_groups_ok c flags HJ ltac:(lia) HB) as (c' & E & JG & _ & _).
    destruct (init_groups_eq c flags HJ ltac:(lia)) as (c'' & E' & Fv & Fw & Fttp & Ftt & Frand & Fidx & Fnt & Fal & Fsel & Fns &
                                                        Fmtf & Ftree & Fg & Frun & Fsh & Frc).
    rewrite E in E'. injection E' as <-. rewrite E.
    assert (Et : r_t c = r_num_trees c) by lia.
    assert (Hcl : sel_clamp lbz_policy = 18001) by reflexivity.
    pose proof Hh as (((_ & Http & Htt) & _) & _ & _ & _ & _ & Hnt26 & Hns15).
    change (2 ^ 15) with 32768 in Hns15.
    assert (Lselm : length selm = N.to_nat (h_ns h)) by (rewrite Hsel, firstn_length; lia).
    split.
    + exists (SlideModel.used_of flags). split; [exact JG|]. split; [|split; [lia|]].
      * unfold G_static. rewrite Frand, Fidx, Fnt, Fal, Fns, Fsel, Fmtf, Ftree, Hcl.
        split; [exact Hrnd|]. split; [exact Hidx|]. split; [exact Hnt|]. split; [lia|]. split; [exact Lselm|].
        split; [|split; [lia|split; [|split; [lia|]]]].
        -- apply Forall_nth. intros i d Hi. rewrite (nth_indep _ d 0) by exact Hi. rewrite Hsel.
           rewrite SlideProofs.nth_firstn_lt by lia. rewrite <- Hnt.
           specialize (Hs (N.of_nat i) ltac:(lia)). unfold sel in Hs. rewrite Nat2N.id in Hs. exact Hs.
        -- unfold clamped. rewrite Hcl, Hsel, firstn_firstn. f_equal. lia.
        -- intros i Hi. cbn [firstn]. unfold sel_order. cbn [fold_left]. cbv zeta. rewrite nth_iota6 by lia.
           destruct (Tr i ltac:(lia)) as (T1 & T2). cbv zeta in T1, T2. split; [exact Hi|]. split; [lia|exact T2].
      * exists 0, 0, 0, []. cbn [usteps]. rewrite Frun, Fsh, Fttp, Ftt, Frc, Hused.
        repeat split; try reflexivity; try assumption. rewrite Htt. reflexivity.
    + rewrite (K_tables_done f h selm tables) by lia. rewrite app_nil_r. rewrite (strm_same c c' nx Fv Fw). reflexivity.
Qed.

(* ---- one unary coded selector against sel_table[PEEK(6)] ---------------------------------------------------------- *)
Definition unary_at (nt : N) (rest : list bool) (x : N) : Prop :=
  run (read_unary (N.to_nat nt) 0) (bits_msb 6 x ++ rest) =
  let k := nth (N.to_nat x) sel_table 0 in
  if nt <? k then Err ErrSelector else Ok (k - 1, skipn (N.to_nat k) (bits_msb 6 x ++ rest)).

Lemma unary_all nt rest : 2 <= nt <= 6 -> forall n, (n < 64)%nat -> unary_at nt rest (N.of_nat n).
Proof.
  intros Hnt n Hn. assert (C : nt = 2 \/ nt = 3 \/ nt = 4 \/ nt = 5 \/ nt = 6) by lia.
  destruct C as [->|[->|[->|[->| ->]]]].
  all: do 64 (destruct n as [|n]; [cbv; reflexivity|]); lia.
Qed.

Lemma unary_window nt x rest : 2 <= nt <= 6 -> x < 64 ->
  run (read_unary (N.to_nat nt) 0) (bits_msb 6 x ++ rest) =
  let k := nth (N.to_nat x) sel_table 0 in
  if nt <? k then Err ErrSelector else Ok (k - 1, skipn (N.to_nat k) (bits_msb 6 x ++ rest)).
Proof.
  intros Hnt Hx. pose proof (unary_all nt rest Hnt (N.to_nat x) ltac:(lia)) as H. rewrite N2Nat.id in H. exact H.
Qed.

Lemma unary_step_run c q nx nt : buf_is c q -> 6 <= c_w c -> 2 <= nt <= 6 ->
  run (read_unary (N.to_nat nt) 0) (strm c nx) =
  let k := nth (N.to_nat (q / 2 ^ (c_w c - 6))) sel_table 0 in
  if nt <? k then Err ErrSelector else Ok (k - 1, skipn (N.to_nat k) (strm c nx)).
Proof.
  intros Hq Hw Hnt.
  pose proof (peek_lt q (c_w c) 6 ltac:(apply Hq) Hw) as Hk. change (2 ^ 6) with 64 in Hk.
  pose proof (strm_front c q nx 6 Hq ltac:(lia)) as SF. change (N.of_nat 6) with 6 in SF.
  rewrite SF at 1. rewrite unary_window by assumption. rewrite <- SF. reflexivity.
Qed.

Lemma K_sels_step f h selm m bits : (N.to_nat (h_ns h) - length selm = S m)%nat ->
  run (K_sels f h selm) bits =
  match run (read_unary (N.to_nat (h_nt h)) 0) bits with
  | Ok (s, r) => run (K_sels f h (selm ++ [s])) r
  | Err e => Err e
  end.
Proof.
  intro E. unfold K_sels. rewrite E. cbn [repeat_prog]. rewrite !run_bind.
  destruct (run (read_unary (N.to_nat (h_nt h)) 0) bits) as [[s r]|e]; [|reflexivity].
  rewrite !run_bind.
  replace (N.to_nat (h_ns h) - length (selm ++ [s]))%nat with m by (rewrite app_length; cbn [length]; lia).
  destruct (run (repeat_prog m _) r) as [[more r']|e]; [|reflexivity].
  cbn [run]. rewrite <- app_assoc. reflexivity.
Qed.

Lemma K_sels_done f h selm : (N.to_nat (h_ns h) - length selm = 0)%nat -> K_sels f h selm = K_tables f h (selm ++ []) [].
Proof. intro E. unfold K_sels. rewrite E. reflexivity. Qed.

(* the head of the selector loop *)
Lemma ref_sel c h selm f nx : R_selH c h selm -> buf_ok c -> 6 <= c_w c -> (r_j c = r_num_selectors c -> 32 <= c_w c) ->
  (length (strm c nx) < f)%nat ->
  match sel_head c with
  | BNeed S_selector_mtf c' =>
      exists selm', R_sel c' h selm' /\ run (K_sels f h selm) (strm c nx) = run (K_sels f h selm') (strm c' nx)
  | BNeed S_delta_tag c' =>
      exists lens', R_delta c' h selm [] lens' /\
        run (K_sels f h selm) (strm c nx) =
        run (K_lens f h selm [] lens' (h_alpha h - length lens') (cl c' (r_j c'))) (strm c' nx)
  | BRet _ _ => exists e, run (K_sels f h selm) (strm c nx) = Err e
  | _ => True
  end.
Proof.
  intros (flags & HJ & HR & Hselm) HB Hw Hw32 Hf.
  pose proof HB as (q & Hb). pose proof HJ as (Hh & Hj & Hs).
  pose proof Hh as (((Hsh & Htt0) & Hrand & Hidx) & Lfl & Hfill & Hu1 & Ealpha & Hnt & Hns).
  destruct Hsh as (Ssel & Scl & Smtf & Str & Swf & Ssl & Sft).
  change (2 ^ 15) with 32768 in Hns.
  pose proof HR as (_ & Hused & Hrnd' & Hidx' & Hnt' & Hns').
  assert (Lselm : length selm = N.to_nat (r_j c)) by (rewrite Hselm, firstn_length; lia).
  unfold sel_head.
  destruct (N.ltb_spec (r_j c) (r_num_selectors c)) as [Hlt|Hge].
  - destruct (N.to_nat (h_ns h) - length selm)%nat as [|m] eqn:Em; [lia|].
    pose proof (K_sels_step f h selm m (strm c nx) Em) as KS.
    rewrite (unary_step_run c q nx (h_nt h) Hb Hw ltac:(lia)) in KS. cbv zeta in KS. rewrite <- Hnt' in KS.
    rewrite (peek_ok c q 6 Hb ltac:(lia) Hw). cbn [bindB].
    pose proof (peek_lt q (c_w c) 6 ltac:(apply Hb) Hw) as Hx. change (2 ^ 6) with 64 in Hx.
    set (x := q / 2 ^ (c_w c - 6)) in *.
    rewrite (xget_ok RConst sel_table) by (rewrite sel_table_len; lia). cbn [bindB].
    pose proof (sel_table_range x Hx) as Hk. set (k := nth (N.to_nat x) sel_table 0) in *.
    destruct (N.ltb_spec (r_num_trees c) k) as [Hbad|Hok].
    { exists ErrSelector. exact KS. }
    rewrite sub32_small by (rewrite ?W32_val; lia). rewrite N.mod_small by (change W8 with 256; lia).
    rewrite xset_ok by lia. cbn [bindB].
    set (c0 := set_r_selector c (upd (N.to_nat (r_j c)) (k - 1) (r_selector c))).
    assert (Hb0 : buf_is c0 q) by (apply (buf_is_frame c); [reflexivity..|exact Hb]).
    destruct (dump_ok c0 q k Hb0 ltac:(change (c_w c0) with (c_w c); lia)) as (c' & E & Ec' & B').
    rewrite E. cbn [bindB]. change (c_w c0) with (c_w c) in *.
    assert (Ew : c_w c' = c_w c - k) by (subst c'; reflexivity).
    assert (HJ' : J_selN c' flags).
    { clear B' E Ew Hb Hb0 Hw32 KS Hf. subst c' c0. dcore c. unfold J_selN, sels_ok, sel in *. rsa.
      split; [|split; [exact Hlt|]].
      + eapply J_hdr_frame; [exact Hh|rsa; try reflexivity..]; [apply upd_length|exact Swf].
      + intros i Hi. destruct (N.eq_dec i xj) as [->|Hne].
        * rewrite nth_upd_same by lia. lia.
        * rewrite nth_upd_other by lia. apply Hs. lia. }
    exists (selm ++ [k - 1]). split.
    + exists flags. split; [exact HJ'|]. split.
      * apply (R_hdr_frame c); [exact HR|apply HJ'|subst c' c0; reflexivity..].
      * replace (r_j c') with (r_j c) by (subst c' c0; reflexivity).
        replace (r_selector c') with (upd (N.to_nat (r_j c)) (k - 1) (r_selector c)) by (subst c' c0; reflexivity).
        replace (N.to_nat (r_j c) + 1)%nat with (S (N.to_nat (r_j c))) by lia.
        rewrite firstn_S_upd by lia. rewrite Hselm. reflexivity.
    + rewrite KS. rewrite (strm_skip c0 q k c' nx Hb0 ltac:(change (c_w c0) with (c_w c); lia) B' Ew).
      rewrite (strm_same c c0 nx) by reflexivity. reflexivity.
  - assert (Ej : r_j c = r_num_selectors c) by lia. specialize (Hw32 Ej).
    assert (HJ0 : J_tree (set_r_t c 0) flags).
    { clear Hb Hf. dcore c. unfold J_tree, sels_ok, sel, trees_done in *. rsa.
      split; [|split; [intros i Hi; apply Hs; lia|split; [lia|intros i Hi; lia]]].
      eapply J_hdr_frame; [exact Hh|rsa; try reflexivity..]. exact Swf. }
    assert (HB0 : buf_ok (set_r_t c 0)) by (exists q; apply (buf_is_frame c); [reflexivity..|exact Hb]).
    assert (RT : R_tree (set_r_t c 0) h selm []).
    { exists flags. split; [exact HJ0|]. split; [|split].
      - apply (R_hdr_frame c); [exact HR|apply HJ0|reflexivity..].
      - rewrite Hselm, Ej, Hns'. reflexivity.
      - split; [reflexivity|]. intros i Hi. change (r_t (set_r_t c 0)) with 0 in Hi. lia. }
    pose proof (ref_tree (set_r_t c 0) h selm [] f nx RT HB0 Hw32) as R.
    rewrite (strm_same c (set_r_t c 0) nx) in R by reflexivity. specialize (R Hf).
    rewrite (K_sels_done f h selm) by lia. rewrite app_nil_r.
    pose proof (tree_head_ok' (set_r_t c 0) flags HJ0 HB0 Hw32) as R0.
    destruct (tree_head (set_r_t c 0)) as [[[]| |] c'|[] c'| | |]; try exact R; try exact I; exfalso; exact R0.
Qed.

Print Assumptions ref_delta.
Print Assumptions ref_tree.
Print Assumptions ref_sel.
