(* C05/C06/C09, retrieve(): the statement-level model (Safe/RetrModel.v) against the format description
   (Dec/Format.v).  Part 1: the bit stream a state stands for, and how PEEK/DUMP/NEED act on it. *)
From Coq Require Import List NArith Arith Bool Lia ZifyBool ZifyNat ZifyN.
From LBZ Require Import Common.Bits Gen.Consts Gen.DecTabs Dec.Prog Dec.Format Dec.Sim Dec.DecProofs Safe.TreeModel Safe.TreeLemmas Safe.TreeProofs
                        Safe.RetrModel Safe.RetrChunk Safe.RetrInv.
Import ListNotations.
Local Open Scope N_scope.

(* the bits of the words not yet consumed *)
Definition wbits (nx : list N) : list bool := flat_map (bits_msb 32) nx.
(* the valid bits of the buffer, as a number *)
Definition bufq (c : core) : N := c_v c / 2 ^ (64 - c_w c).
(* the bit stream ahead of a state *)
Definition strm (c : core) (nx : list N) : list bool := bits_msb (N.to_nat (c_w c)) (bufq c) ++ wbits nx.

Lemma buf_is_q c q : buf_is c q -> bufq c = q.
Proof. intros (_ & _ & Hv). unfold bufq. rewrite Hv. apply N.div_mul. apply N.pow_nonzero. discriminate. Qed.

Lemma wbits_length nx : length (wbits nx) = (32 * length nx)%nat.
Proof. induction nx as [|x r IH]; [reflexivity|]. cbn [wbits flat_map]. rewrite app_length, bits_msb_length. fold (wbits r). rewrite IH. cbn [length]. lia. Qed.

Lemma strm_length c nx : N.of_nat (length (strm c nx)) = c_w c + 32 * N.of_nat (length nx).
Proof. unfold strm. rewrite app_length, bits_msb_length, wbits_length. lia. Qed.

(* bits_msb of the low part *)
Lemma bits_msb_mod n x : bits_msb n (x mod 2 ^ N.of_nat n) = bits_msb n x.
Proof.
  assert (G : forall m, (m <= n)%nat -> bits_msb m (x mod 2 ^ N.of_nat n) = bits_msb m x).
  { induction m as [|m IH]; intro Hm; [reflexivity|]. cbn [bits_msb]. rewrite IH by lia. f_equal.
    apply N.mod_pow2_bits_low. lia. }
  apply G. lia.
Qed.

(* reading k bits off the front *)
Lemma take_acc_bits k : forall acc y rest, y < 2 ^ N.of_nat k ->
  run (take_acc k acc) (bits_msb k y ++ rest) = Ok (acc * 2 ^ N.of_nat k + y, rest).
Proof.
  induction k as [|k IH]; intros acc y rest Hy.
  - cbn. f_equal. f_equal. change (2 ^ 0) with 1 in Hy. lia.
  - cbn [bits_msb take_acc app run].
    rewrite <- (bits_msb_mod k y). rewrite IH by (apply N.mod_lt, N.pow_nonzero; discriminate). f_equal. f_equal.
    rewrite Nat2N.inj_succ, N.pow_succ_r' in *.
    assert (Eb : (if N.testbit y (N.of_nat k) then 1 else 0) = y / 2 ^ N.of_nat k).
    { rewrite N.testbit_eqb. assert (y / 2 ^ N.of_nat k < 2).
      { apply N.div_lt_upper_bound; [apply N.pow_nonzero; discriminate|lia]. }
      rewrite N.mod_small by assumption. destruct (y / 2 ^ N.of_nat k) as [|[p|p|]]; try reflexivity; lia. }
    rewrite Eb. pose proof (N.div_mod y (2 ^ N.of_nat k) ltac:(apply N.pow_nonzero; discriminate)). nia.
Qed.

Lemma take_bits (w k : nat) q rest : (k <= w)%nat -> q < 2 ^ N.of_nat w ->
  run (take k) (bits_msb w q ++ rest) =
  Ok (q / 2 ^ N.of_nat (w - k), bits_msb (w - k) (q mod 2 ^ N.of_nat (w - k)) ++ rest).
Proof.
  intros Hk Hq. replace w with (k + (w - k))%nat at 1 by lia. rewrite bits_msb_split, <- app_assoc.
  unfold take. rewrite take_acc_bits.
  - rewrite bits_msb_mod. f_equal.
  - apply N.div_lt_upper_bound; [apply N.pow_nonzero; discriminate|]. rewrite <- N.pow_add_r.
    replace (N.of_nat (w - k) + N.of_nat k) with (N.of_nat w) by lia. exact Hq.
Qed.

(* the stream in terms of q *)
Lemma strm_q c q nx : buf_is c q -> strm c nx = bits_msb (N.to_nat (c_w c)) q ++ wbits nx.
Proof. intro H. unfold strm. rewrite (buf_is_q c q H). reflexivity. Qed.

(* NEED does not change the stream *)
Lemma strm_load c q x c' r : buf_is c q -> c_w c < 32 -> x < 2 ^ 32 ->
  buf_is c' (q * 2 ^ 32 + x) -> c_w c' = c_w c + 32 -> strm c' r = strm c (x :: r).
Proof.
  intros Hq Hw Hx Hq' Ew. rewrite (strm_q c q _ Hq), (strm_q c' _ _ Hq'). rewrite Ew.
  cbn [wbits flat_map]. fold (wbits r). rewrite app_assoc. f_equal.
  replace (N.to_nat (c_w c + 32)) with (N.to_nat (c_w c) + 32)%nat by lia. rewrite bits_msb_split. f_equal.
  - f_equal. change (N.of_nat 32) with 32. rewrite N.div_add_l by discriminate. rewrite N.div_small by exact Hx. lia.
  - rewrite <- (bits_msb_mod 32 (q * 2 ^ 32 + x)). change (N.of_nat 32) with 32.
    rewrite N.add_comm, N.mod_add by discriminate. rewrite N.mod_small by exact Hx. reflexivity.
Qed.

(* TAKE(x, k) on the stream *)
Lemma strm_take c q k c' nx : buf_is c q -> k <= c_w c -> buf_is c' (q mod 2 ^ (c_w c - k)) -> c_w c' = c_w c - k ->
  run (take (N.to_nat k)) (strm c nx) = Ok (q / 2 ^ (c_w c - k), strm c' nx).
Proof.
  intros Hq Hk Hq' Ew. rewrite (strm_q c q _ Hq), (strm_q c' _ _ Hq'), Ew. destruct Hq as (_ & Hlt & _).
  rewrite take_bits by (rewrite ?N2Nat.id; lia || exact Hlt).
  replace (N.of_nat (N.to_nat (c_w c) - N.to_nat k)) with (c_w c - k) by lia.
  replace (N.to_nat (c_w c) - N.to_nat k)%nat with (N.to_nat (c_w c - k)) by lia. reflexivity.
Qed.

(* the first k bits of the stream as a bit list *)
Lemma strm_split c q k c' nx : buf_is c q -> k <= c_w c -> buf_is c' (q mod 2 ^ (c_w c - k)) -> c_w c' = c_w c - k ->
  strm c nx = bits_msb (N.to_nat k) (q / 2 ^ (c_w c - k)) ++ strm c' nx.
Proof.
  intros Hq Hk Hq' Ew. rewrite (strm_q c q _ Hq), (strm_q c' _ _ Hq'), Ew.
  replace (N.to_nat (c_w c)) with (N.to_nat k + N.to_nat (c_w c - k))%nat at 1 by lia.
  rewrite bits_msb_split, <- app_assoc. rewrite N2Nat.id. f_equal. f_equal.
  rewrite <- (bits_msb_mod (N.to_nat (c_w c - k)) q). rewrite N2Nat.id. reflexivity.
Qed.

(* ================================================================================================================ *)
(* Part 2: what remains to be read - residual programs of Format.read_block - and the abstract values of a state  *)
(* ================================================================================================================ *)
From LBZ Require Import Dec.Policies Dec.Delta.
From LBZ Require Safe.SlideModel Safe.SlideProofs.

Record hdr := mk_hdr { h_rnd : N; h_idx : N; h_used : list N; h_nt : N; h_ns : N }.
Definition h_alpha (h : hdr) : nat := (length (h_used h) + 2)%nat.
Definition h_eob (h : hdr) : N := N.of_nat (h_alpha h) - 1.

Definition mk_rb (h : hdr) (tables : list (list N)) (mtfv : list N) : raw_block :=
  {| rb_rand := negb (h_rnd h =? 0); rb_idx := h_idx h; rb_used := h_used h; rb_mtfv := mtfv;
     rb_ntrees := h_nt h; rb_nsel := h_ns h; rb_tables := tables |}.

(* the tree numbers of the groups *)
Definition sels_of (selm : list N) : list N :=
  unmtf_selectors [0; 1; 2; 3; 4; 5] (firstn (N.to_nat (sel_clamp lbz_policy)) selm).

Section K.
Variable f : nat.       (* fuel of the delta reader *)

(* g groups done, their symbols are syms *)
Definition K_group (h : hdr) (selm : list N) (tables : list (list N)) (g : nat) (syms : list N) : prog raw_block :=
  more <- read_groups lbz_policy tables (h_eob h) (skipn g (sels_of selm)) ;; Prog.Ret (mk_rb h tables (syms ++ more)).

(* inside group g (coded with lens), n symbols to go *)
Definition K_prefix (h : hdr) (selm : list N) (tables : list (list N)) (g : nat) (syms : list N) (lens : list N) (n : nat)
  : prog raw_block :=
  gr <- read_group lens (h_eob h) n ;;
  if snd gr then Prog.Ret (mk_rb h tables (syms ++ fst gr))
  else more <- read_groups lbz_policy tables (h_eob h) (skipn (S g) (sels_of selm)) ;; Prog.Ret (mk_rb h tables (syms ++ fst gr ++ more)).

Definition K_tables (h : hdr) (selm : list N) (tables : list (list N)) : prog raw_block :=
  more <- repeat_prog (N.to_nat (h_nt h) - length tables) (read_table lbz_policy f (h_alpha h)) ;;
  K_group h selm (tables ++ more) 0 [].

(* inside a table: lens are the lengths read, n symbols to go, cur the running value *)
Definition K_lens (h : hdr) (selm : list N) (tables : list (list N)) (lens : list N) (n : nat) (cur : N) : prog raw_block :=
  rest <- read_lens lbz_policy f n cur ;; K_tables h selm (tables ++ [lens ++ rest]).

Definition K_sels (h : hdr) (selm : list N) : prog raw_block :=
  more <- repeat_prog (N.to_nat (h_ns h) - length selm) (read_unary (N.to_nat (h_nt h)) 0) ;; K_tables h (selm ++ more) [].

Definition K_post (rnd idx : N) (used : list N) : prog raw_block :=
  _ <- guard (negb (N.of_nat (length used) =? 0)) ErrBitmap ;;
  nt <- take 3 ;;
  _ <- guard ((2 <=? nt) && (nt <=? 6)) ErrTrees ;;
  ns <- take 15 ;;
  _ <- guard (negb (ns =? 0)) ErrGroups ;;
  K_sels (mk_hdr rnd idx used nt ns) [].

(* ranges i .. i+n-1 of the bitmap still to come *)
Definition K_smalls (rnd idx big : N) (i n : nat) (used : list N) : prog raw_block :=
  rest <- read_smalls big i n ;; K_post rnd idx (used ++ rest).

Definition K_big (rnd idx : N) : prog raw_block := big <- take 16 ;; K_smalls rnd idx big 0 16 [].
Definition K_start : prog raw_block := rnd <- take 1 ;; idx <- take 24 ;; K_big rnd idx.
End K.

(* the bytes of range i whose bit is set in the 16-bit word s *)
Definition range_bytes (i : nat) (s : N) : list N :=
  map (fun j => (16 * N.of_nat i + N.of_nat j)) (filter (testbit16 s) (seq 0 16)).

(* ---- the result of a block: what retrieve() delivers ------------------------------------------------------------- *)
Definition post (rb : raw_block) : result (bool * N * list N) :=
  match unmtf_block MAX_BLOCK_SIZE (rb_used rb) (rb_mtfv rb) with
  | Err e => Err e
  | Ok col =>
      if N.of_nat (length col) =? 0 then Err ErrEmpty
      else if N.of_nat (length col) <=? rb_idx rb then Err ErrBwtIdx
      else Ok (rb_rand rb, rb_idx rb, col)
  end.

(* one block of the format, from the bits behind its CRC: randomised flag, origin pointer, BWT column, bits left *)
Definition spec_block (f : nat) (bits : list bool) : result (bool * N * list N * list bool) :=
  match run (read_block lbz_policy f) bits with
  | Err e => Err e
  | Ok (rb, rest) => match post rb with Err e => Err e | Ok r => Ok (r, rest) end
  end.

(* ---- abstract values of a state ------------------------------------------------------------------------------------ *)
Definition R_big (c : core) (rnd idx : N) : Prop := J_big c /\ d_rand c = rnd /\ d_bwt_idx c = idx.

(* at the inner loop of range i, whose 16 bits are in rs->small; [used]: the bytes of the ranges below i *)
Definition R_small (c : core) (rnd idx big : N) (i : nat) (used : list N) : Prop :=
  exists flags, J_bm c i flags /\ d_rand c = rnd /\ d_bwt_idx c = idx /\ used = SlideModel.used_of flags /\
                big < 2 ^ 16 /\ r_big c = (big * 2 ^ N.of_nat i) mod 2 ^ 16.

Definition R_hdr (c : core) (h : hdr) (flags : list bool) : Prop :=
  J_hdr c flags /\ h_used h = SlideModel.used_of flags /\ d_rand c = h_rnd h /\ d_bwt_idx c = h_idx h /\
  r_num_trees c = h_nt h /\ r_num_selectors c = h_ns h.

Definition R_sel (c : core) (h : hdr) (selm : list N) : Prop :=
  exists flags, J_selN c flags /\ R_hdr c h flags /\ selm = firstn (N.to_nat (r_j c) + 1) (r_selector c).

(* the tables of the trees 0 .. t-1 *)
Definition tabs_rel (c : core) (tables : list (list N)) : Prop :=
  N.of_nat (length tables) = r_t c /\
  forall i, i < r_t c -> let lens := nth (N.to_nat i) tables [] in
    N.of_nat (length lens) = r_alpha_size c /\
    tree_rel lens (nth (N.to_nat i) (r_mtf c) 0) i (nth (N.to_nat i) (r_tree c) garbage_tree).

Definition R_tree (c : core) (h : hdr) (selm : list N) (tables : list (list N)) : Prop :=
  exists flags, J_tree c flags /\ R_hdr c h flags /\ selm = firstn (N.to_nat (h_ns h)) (r_selector c) /\ tabs_rel c tables.

Definition R_delta (c : core) (h : hdr) (selm : list N) (tables : list (list N)) (lens : list N) : Prop :=
  exists flags, J_deltaN c flags /\ R_hdr c h flags /\ selm = firstn (N.to_nat (h_ns h)) (r_selector c) /\ tabs_rel c tables /\
                lens = firstn (N.to_nat (r_j c)) (r_code_len c).

(* at the entry of the inner loop of range i with sm in rs->small (0 for a skipped range): what remains *)
Definition K_inner (f : nat) (rnd idx big : N) (i : nat) (used : list N) (sm : N) : prog raw_block :=
  rest <- read_smalls big (S i) (15 - i) ;; K_post f rnd idx (used ++ range_bytes i sm ++ rest).

(* the head of the selector loop: j selectors stored *)
Definition R_selH (c : core) (h : hdr) (selm : list N) : Prop :=
  exists flags, J_selH c flags /\ R_hdr c h flags /\ selm = firstn (N.to_nat (r_j c)) (r_selector c).

(* the head of the delta loop (running value possibly up to 31) *)
Definition R_deltaH (c : core) (h : hdr) (selm : list N) (tables : list (list N)) (lens : list N) : Prop :=
  exists flags, J_delta c flags 31 /\ R_hdr c h flags /\ selm = firstn (N.to_nat (h_ns h)) (r_selector c) /\ tabs_rel c tables /\
                lens = firstn (N.to_nat (r_j c)) (r_code_len c).

(* ---- the symbol phase: Format.unmtf one symbol at a time ---------------------------------------------------------- *)
(* (order, run, shift, size, acc) *)
Definition ust := (list N * N * N * N * list (N * N))%type.

Definition ustep (limit : N) (u : ust) (s : N) : result ust :=
  let '(order, run, shift, size, acc) := u in
  if s <=? 1 then Ok (order, run + N.shiftl (s + 1) shift, shift + 1, size, acc)
  else if limit <? size + run then Err ErrOverflow
  else Ok (snd (mtf_front (N.to_nat (s - 1)) order 0), 1, 0, size + run, (hd 0 order, run) :: acc).

Fixpoint usteps (limit : N) (u : ust) (syms : list N) : result ust :=
  match syms with
  | [] => Ok u
  | s :: r => match ustep limit u s with Ok u' => usteps limit u' r | Err e => Err e end
  end.

Definition ufinal (limit : N) (u : ust) : result (list (N * N) * N) :=
  let '(order, run, shift, size, acc) := u in
  if limit <? size + run then Err ErrOverflow else Ok ((hd 0 order, run) :: acc, size + run).

(* the order of the tree numbers behind a prefix of the selector MTF values *)
Definition sel_order (sels : list N) : list N :=
  fold_left (fun ord s => snd (mtf_front (N.to_nat s) ord 0)) sels [0; 1; 2; 3; 4; 5].

Definition clamped (selm : list N) : list N := firstn (N.to_nat (sel_clamp lbz_policy)) selm.

(* what the group phase keeps of the header and of the tables; [k] selector MTF values have been applied to rs->mtf[] *)
Definition G_static (c : core) (h : hdr) (selm : list N) (tables : list (list N)) (k : nat) : Prop :=
  d_rand c = h_rnd h /\ d_bwt_idx c = h_idx h /\ r_num_trees c = h_nt h /\ r_alpha_size c = N.of_nat (h_alpha h) /\
  length selm = N.to_nat (h_ns h) /\ Forall (fun s => s < h_nt h) selm /\
  r_num_selectors c = N.min (h_ns h) (sel_clamp lbz_policy) /\
  firstn (N.to_nat (r_num_selectors c)) (r_selector c) = clamped selm /\
  N.of_nat (length tables) = h_nt h /\
  (forall i, i < h_nt h ->
     let t := nth (N.to_nat i) (sel_order (firstn k (clamped selm))) 0 in
     t < h_nt h /\ N.of_nat (length (nth (N.to_nat t) tables [])) = r_alpha_size c /\
     tree_rel (nth (N.to_nat t) tables []) (nth (N.to_nat i) (r_mtf c) 0) t (nth (N.to_nat t) (r_tree c) garbage_tree)).

(* the symbols decoded so far, run through Format.unmtf, give the run/slide state of the core and the tt[] cells *)
Definition G_syms (c : core) (h : hdr) (order : list N) (syms : list N) : Prop :=
  exists run shift size acc,
    usteps MAX_BLOCK_SIZE (h_used h, 0, 0, 0, []) syms = Ok (order, run, shift, size, acc) /\
    r_run c = run /\ r_shift c = shift /\ c_ttp c = size /\ rev (c_tt c) = expand_runs (rev acc) /\ r_runChar c = hd 0 order.

(* the head of the group loop: g groups done *)
Definition R_group (c : core) (h : hdr) (selm : list N) (tables : list (list N)) (g : nat) (syms : list N) : Prop :=
  exists order, J_group c order /\ G_static c h selm tables g /\ N.of_nat g = r_g c /\ G_syms c h order syms.

(* inside group g on the slow path: its tree is t = rs->t with lengths lens, n symbols to go *)
Definition R_prefix (c : core) (h : hdr) (selm : list N) (tables : list (list N)) (g : nat) (syms : list N) (lens : list N) (n : nat)
  : Prop :=
  exists order, J_prefix c order /\ G_static c h selm tables (S g) /\ N.of_nat g = r_g c /\ G_syms c h order syms /\
    N.of_nat n + r_j c = 50 /\ nth g (sels_of selm) 0 = r_t c /\ lens = nth (N.to_nat (r_t c)) tables [] /\
    tree_rel lens (r_t c) (r_t c) (nth (N.to_nat (r_t c)) (r_tree c) garbage_tree).

(* a return without a block: the format description does not deliver a block either *)
Definition spec_fails (p : prog raw_block) (bits : list bool) : Prop :=
  match run p bits with
  | Err _ => True
  | Ok (rb, _) => exists e, post rb = Err e
  end.

(* the end of a block: what the format description reads is what is in the state *)
Definition spec_done (p : prog raw_block) (bits : list bool) (c : core) (nx : list N) : Prop :=
  exists rb, run p bits = Ok (rb, strm c nx) /\
    unmtf_block MAX_BLOCK_SIZE (rb_used rb) (rb_mtfv rb) = Ok (rev (c_tt c)) /\
    c_ttp c = N.of_nat (length (c_tt c)) /\ rb_rand rb = negb (d_rand c =? 0) /\ rb_idx rb = d_bwt_idx c.
