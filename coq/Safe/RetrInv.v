(* C08/C09, retrieve(): the invariant of the statement-level model (Safe/RetrModel.v) and its preservation by
   every pass of the machine.  Part 1: the bit buffer, the constant tables, checked array accesses. *)
From Coq Require Import List NArith Arith Bool Lia ZifyBool ZifyNat ZifyN.
From LBZ Require Import Common.Bits Gen.Consts Gen.DecTabs Safe.TreeModel Safe.TreeLemmas Safe.RetrModel Safe.RetrChunk.
Import ListNotations.
Local Open Scope N_scope.

Ltac rsa := cbv beta iota delta [c_v c_w c_ttp c_tt d_rand d_bwt_idx d_ftab r_selector r_num_trees r_num_selectors r_alpha_size
                       r_code_len r_mtf r_tree r_big r_small r_j r_t r_g r_slide r_runChar r_run r_shift
                       set_c_v set_c_w set_c_ttp set_c_tt set_d_rand set_d_bwt_idx set_d_ftab set_r_selector set_r_num_trees
                       set_r_num_selectors set_r_alpha_size set_r_code_len set_r_mtf set_r_tree set_r_big set_r_small set_r_j
                       set_r_t set_r_g set_r_slide set_r_runChar set_r_run set_r_shift] in *.

(* ---- the bit buffer: the w most significant bits of v hold q, the rest is zero ----------------------------- *)
Definition buf_is (c : core) (q : N) : Prop :=
  c_w c <= 63 /\ q < 2 ^ c_w c /\ c_v c = q * 2 ^ (64 - c_w c).
Definition buf_ok (c : core) : Prop := exists q, buf_is c q.

Lemma pow2_split a b : b <= a -> 2 ^ a = 2 ^ (a - b) * 2 ^ b.
Proof. intro H. rewrite <- N.pow_add_r. f_equal. lia. Qed.

Lemma buf_v_lt c q : buf_is c q -> c_v c < 2 ^ 64 - 1.
Proof.
  intros (Hw & Hq & Hv). rewrite Hv.
  assert (E : 2 ^ 64 = 2 ^ c_w c * 2 ^ (64 - c_w c)) by (rewrite <- N.pow_add_r; f_equal; lia).
  assert (P : 2 <= 2 ^ (64 - c_w c)).
  { change 2 with (2 ^ 1) at 1. apply N.pow_le_mono_r; lia. }
  assert (Q : 0 < 2 ^ c_w c) by (apply N.neq_0_lt_0, N.pow_nonzero; discriminate).
  nia.
Qed.

(* PEEK(k) *)
Lemma peek_ok c q k : buf_is c q -> 1 <= k -> k <= c_w c ->
  peek c k = XV (q / 2 ^ (c_w c - k)).
Proof.
  intros (Hw & Hq & Hv) Hk1 Hk. unfold peek.
  rewrite sub32_small by (rewrite ?W32_val; lia). rewrite shr64_ok by lia. cbn [ofM]. f_equal.
  rewrite Hv. rewrite (pow2_split (64 - k) (64 - c_w c)) by lia.
  replace (64 - k - (64 - c_w c)) with (c_w c - k) by lia.
  apply N.div_mul_cancel_r; apply N.pow_nonzero; discriminate.
Qed.

Lemma peek_lt q w k : q < 2 ^ w -> k <= w -> q / 2 ^ (w - k) < 2 ^ k.
Proof.
  intros Hq Hk. apply N.div_lt_upper_bound; [apply N.pow_nonzero; discriminate|].
  rewrite <- N.pow_add_r. replace (w - k + k) with w by lia. exact Hq.
Qed.

(* DUMP(k) *)
Lemma dump_ok c q k : buf_is c q -> k <= c_w c ->
  exists c', dump c k = XV c' /\ c' = set_c_w (set_c_v c ((c_v c * 2 ^ k) mod 2 ^ 64)) (c_w c - k) /\
             buf_is c' (q mod 2 ^ (c_w c - k)).
Proof.
  intros (Hw & Hq & Hv) Hk. unfold dump. rewrite shl64_ok by lia. cbn [ofM bindX].
  rewrite sub32_small by (rewrite ?W32_val; lia). rewrite W64_val. change 18446744073709551616 with (2 ^ 64).
  eexists. split; [reflexivity|]. split; [reflexivity|].
  unfold buf_is. replace (c_w (set_c_w _ _)) with (c_w c - k) by (dcore c; reflexivity).
  replace (c_v (set_c_w (set_c_v c ((c_v c * 2 ^ k) mod 2 ^ 64)) (c_w c - k))) with ((c_v c * 2 ^ k) mod 2 ^ 64) by (dcore c; reflexivity).
  split; [lia|]. split; [apply N.mod_lt, N.pow_nonzero; discriminate|].
  set (w := c_w c) in *. set (m := w - k).
  (* v * 2^k = q * 2^(64 - m);  2^64 = 2^m * 2^(64-m) *)
  rewrite Hv. replace (q * 2 ^ (64 - w) * 2 ^ k) with (q * 2 ^ (64 - m))
    by (rewrite <- N.mul_assoc, <- N.pow_add_r; do 2 f_equal; lia).
  rewrite (pow2_split 64 (64 - m)) by lia. replace (64 - (64 - m)) with m by lia.
  rewrite N.mul_mod_distr_r by (apply N.pow_nonzero; discriminate). reflexivity.
Qed.

(* lor of disjoint numbers is their sum *)
Lemma lor_disjoint a m b : b < 2 ^ m -> N.lor (a * 2 ^ m) b = a * 2 ^ m + b.
Proof.
  intro Hb. assert (L : N.land (a * 2 ^ m) b = 0).
  { apply N.bits_inj_0. intro i. rewrite N.land_spec.
    destruct (N.lt_ge_cases i m) as [Hi|Hi].
    - rewrite N.mul_pow2_bits_low by exact Hi. reflexivity.
    - destruct (N.eq_dec b 0) as [->|Hb0]; [rewrite N.bits_0; apply andb_false_r|].
      rewrite (N.bits_above_log2 b i); [apply andb_false_r|].
      apply N.log2_lt_pow2 in Hb; lia. }
  rewrite <- N.lxor_lor by exact L. symmetry. apply N.add_nocarry_lxor. exact L.
Qed.

(* v |= (uint64_t)x << (64 - (w += 32)) *)
Lemma load_ok c q x : buf_is c q -> c_w c < 32 -> x < 2 ^ 32 ->
  exists c', load c x = XV c' /\ c' = set_c_w (set_c_v c (N.lor (c_v c) (x * 2 ^ (32 - c_w c)))) (c_w c + 32) /\
             buf_is c' (q * 2 ^ 32 + x).
Proof.
  intros (Hw & Hq & Hv) Hw32 Hx. unfold load.
  rewrite add32_small by (rewrite W32_val; lia).
  rewrite sub32_small by (rewrite ?W32_val; lia). rewrite shl64_ok by lia. cbn [ofM bindX].
  replace (64 - (c_w c + 32)) with (32 - c_w c) by lia.
  assert (Hs : x * 2 ^ (32 - c_w c) < 2 ^ (64 - c_w c)).
  { rewrite (pow2_split (64 - c_w c) (32 - c_w c)) by lia. replace (64 - c_w c - (32 - c_w c)) with 32 by lia.
    apply N.mul_lt_mono_pos_r; [apply N.neq_0_lt_0, N.pow_nonzero; discriminate|exact Hx]. }
  rewrite N.mod_small.
  2:{ rewrite W64_val. change 18446744073709551616 with (2 ^ 64).
      eapply N.lt_le_trans; [exact Hs|]. apply N.pow_le_mono_r; lia. }
  eexists. split; [reflexivity|]. split; [reflexivity|].
  unfold buf_is. replace (c_w (set_c_w _ _)) with (c_w c + 32) by (dcore c; reflexivity).
  replace (c_v (set_c_w (set_c_v c (N.lor (c_v c) (x * 2 ^ (32 - c_w c)))) (c_w c + 32)))
    with (N.lor (c_v c) (x * 2 ^ (32 - c_w c))) by (dcore c; reflexivity).
  split; [lia|]. split.
  - rewrite N.pow_add_r. nia.
  - rewrite Hv, lor_disjoint by exact Hs. replace (64 - (c_w c + 32)) with (32 - c_w c) by lia.
    rewrite (pow2_split (64 - c_w c) (32 - c_w c)) by lia. replace (64 - c_w c - (32 - c_w c)) with 32 by lia. ring.
Qed.

(* ---- checked arrays ---------------------------------------------------------------------------------------------- *)
Lemma xget_ok a l i : i < N.of_nat (length l) -> xget a l i = XV (nth (N.to_nat i) l 0).
Proof. intro H. unfold xget. apply N.ltb_lt in H. rewrite H. reflexivity. Qed.

Lemma xset_ok a l i x : i < N.of_nat (length l) -> xset a l i x = XV (upd (N.to_nat i) x l).
Proof. intro H. unfold xset. apply N.ltb_lt in H. rewrite H. reflexivity. Qed.

(* ---- the constant tables (side conditions discharged by computation on the regenerated values) ------------------ *)
Lemma sel_table_len : length sel_table = 64%nat. Proof. reflexivity. Qed.
Lemma sel_table_range k : k < 64 -> 1 <= nth (N.to_nat k) sel_table 0 <= 7.
Proof.
  intro H. assert (A : forallb (fun i => (1 <=? nth i sel_table 0) && (nth i sel_table 0 <=? 7)) (seq 0 64) = true) by reflexivity.
  rewrite forallb_forall in A. specialize (A (N.to_nat k)). rewrite in_seq in A. specialize (A ltac:(lia)). lia.
Qed.

Lemma delta_tabs_len : length delta_L = 64%nat /\ length delta_R = 64%nat /\ length Rmin_tab = 64%nat /\ length Rmax_tab = 64%nat.
Proof. repeat split; reflexivity. Qed.

(* a window that passes the range test leaves a length in 1..20 (and no uint8_t wrap occurs) *)
Definition delta_entry_ok (i : nat) : bool :=
  let l := nth i delta_L 0 in let r := nth i delta_R 0 in let lo := nth i Rmin_tab 0 in let hi := nth i Rmax_tab 0 in
  (1 <=? l) && (l <=? 6) && (lo <=? r) && (r <=? hi) && (hi <=? 6).
Lemma delta_tabs_ok : forallb delta_entry_ok (seq 0 64) = true. Proof. reflexivity. Qed.
Lemma delta_consts_ok : delta_bias + 1 <= delta_check_lo /\ delta_check_hi <= delta_bias + 20 /\ delta_bias <= 3.
Proof. repeat split; discriminate. Qed.

Lemma delta_entry k : k < 64 ->
  let l := nth (N.to_nat k) delta_L 0 in let r := nth (N.to_nat k) delta_R 0 in
  let lo := nth (N.to_nat k) Rmin_tab 0 in let hi := nth (N.to_nat k) Rmax_tab 0 in
  1 <= l <= 6 /\ lo <= r /\ r <= hi /\ hi <= 6.
Proof.
  intro H. pose proof delta_tabs_ok as A. rewrite forallb_forall in A. specialize (A (N.to_nat k)).
  rewrite in_seq in A. specialize (A ltac:(lia)). unfold delta_entry_ok in A. cbv zeta. lia.
Qed.

(* the two run-accumulation guards exist and are small enough for 32-bit arithmetic *)
Lemma guards_ok : forall i, (i < 2)%nat -> exists g, nth i run_acc_guards None = Some g /\ g < 2 ^ 30.
Proof. intros [|[|i]] H; [eexists; split; [reflexivity|reflexivity]..|lia]. Qed.

(* ---- the bitmap loops ------------------------------------------------------------------------------------------------ *)
From LBZ Require Safe.SlideProofs.

(* the n most significant bits of a 16-bit value, as the loop sees them (shifting left) *)
Fixpoint topbits (n : nat) (s : N) : list bool :=
  match n with
  | O => []
  | S n' => N.testbit s 15 :: topbits n' ((s * 2) mod W16)
  end.

Lemma topbits_length n s : length (topbits n s) = n.
Proof. revert s; induction n; intros; cbn; auto. Qed.

Lemma shr15 s : s < 2 ^ 16 -> s / 2 ^ 15 = if N.testbit s 15 then 1 else 0.
Proof.
  intro H. rewrite N.testbit_eqb. assert (H0 : s / 2 ^ 15 < 2) by (apply N.div_lt_upper_bound; [discriminate|exact H]).
  rewrite N.mod_small by exact H0. destruct (s / 2 ^ 15) as [|[p|p|]]; try reflexivity; lia.
Qed.

Definition with_bitmap (c : core) (a : list N) (j alpha small : N) : core :=
  set_r_small (set_r_alpha_size (set_r_j (set_r_slide c (SlideModel.Build_sstate a (SlideModel.s_rows (r_slide c)))) j) alpha) small.

Lemma shift16_iter s n : s < 2 ^ 16 -> (s * 2 ^ N.of_nat (S n)) mod W16 = (((s * 2) mod W16) * 2 ^ N.of_nat n) mod W16.
Proof.
  intro H. rewrite Nat2N.inj_succ, N.pow_succ_r'. rewrite N.mul_assoc.
  rewrite (N.mul_mod (s * 2 mod W16)) by discriminate. rewrite N.mod_mod by discriminate.
  rewrite <- N.mul_mod by discriminate. reflexivity.
Qed.

(* n more iterations of the inner do-while = bitmap_fill on the next n bits of rs->small *)
Lemma bitmap_inner_spec : forall n f c a' alpha',
  (1 <= n)%nat -> (n <= f)%nat -> r_j c + N.of_nat n <= 256 -> r_alpha_size c + N.of_nat n < 2 ^ 32 -> r_small c < 2 ^ 16 ->
  (forall k, (0 < k < n)%nat -> N.land (r_j c + N.of_nat k) 15 <> 0) -> N.land (r_j c + N.of_nat n) 15 = 0 ->
  SlideModel.bitmap_fill CMAP_BASE (topbits n (r_small c)) (r_j c) (r_alpha_size c) (SlideModel.s_slide (r_slide c)) = Some (a', alpha') ->
  bitmap_inner f c = XV (with_bitmap c a' (r_j c + N.of_nat n) alpha' ((r_small c * 2 ^ N.of_nat n) mod W16)).
Proof.
  induction n as [|n IH]; intros f c a' alpha' Hn Hf Hj Ha Hs Hmid Hend HB; [lia|].
  destruct f as [|f]; [lia|]. cbn [bitmap_inner]. cbn [topbits SlideModel.bitmap_fill] in HB.
  destruct (SlideModel.wr (SlideModel.s_slide (r_slide c)) (CMAP_BASE + r_alpha_size c) (r_j c)) as [a1|] eqn:EW; [|discriminate].
  cbn [SlideModel.obind] in HB.
  rewrite (N.mod_small (r_j c)) by (change W8 with 256; lia). rewrite EW. cbn [ofO bindX].
  rewrite shr32_ok by lia. cbn [ofM bindX]. rewrite shr15 by exact Hs.
  set (c1 := set_r_small _ _).
  assert (E1 : r_j c1 = r_j c + 1 /\ r_small c1 = (r_small c * 2) mod W16 /\
               r_alpha_size c1 = (if N.testbit (r_small c) 15 then r_alpha_size c + 1 else r_alpha_size c) /\
               SlideModel.s_slide (r_slide c1) = a1 /\ SlideModel.s_rows (r_slide c1) = SlideModel.s_rows (r_slide c)).
  { subst c1. dcore c. rsa. cbn [SlideModel.s_slide SlideModel.s_rows]. rewrite add32_small by (rewrite W32_val; lia).
    repeat split; try reflexivity. destruct (N.testbit xsmall 15); rewrite add32_small; rewrite ?W32_val; lia. }
  destruct E1 as (Ej & Esm & Eal & Esl & Erw).
  destruct n as [|n].
  - (* last iteration *)
    cbn [topbits SlideModel.bitmap_fill] in HB. rewrite Ej. replace (r_j c + N.of_nat 1) with (r_j c + 1) in Hend by lia.
    rewrite Hend. cbn. f_equal. injection HB as <- <-. subst c1. unfold with_bitmap. dcore c. rsa.
    cbn [SlideModel.s_slide SlideModel.s_rows] in *. rewrite Ej, Eal.
    replace (xsmall * 2 ^ N.of_nat 1) with (xsmall * 2) by (cbn; lia).
    destruct (N.testbit xsmall 15); f_equal; lia.
  - rewrite Ej. pose proof (Hmid 1%nat ltac:(lia)) as H1. replace (r_j c + N.of_nat 1) with (r_j c + 1) in H1 by lia.
    apply N.eqb_neq in H1. rewrite H1.
    assert (P1 : r_j c1 + N.of_nat (S n) <= 256) by (rewrite Ej; lia).
    assert (P2 : r_alpha_size c1 + N.of_nat (S n) < 2 ^ 32) by (rewrite Eal; destruct (N.testbit (r_small c) 15); lia).
    assert (P3 : r_small c1 < 2 ^ 16) by (rewrite Esm; apply N.mod_lt; discriminate).
    assert (P4 : forall k, (0 < k < S n)%nat -> N.land (r_j c1 + N.of_nat k) 15 <> 0).
    { intros k Hk. rewrite Ej. replace (r_j c + 1 + N.of_nat k) with (r_j c + N.of_nat (S k)) by lia. apply Hmid. lia. }
    assert (P5 : N.land (r_j c1 + N.of_nat (S n)) 15 = 0).
    { rewrite Ej. replace (r_j c + 1 + N.of_nat (S n)) with (r_j c + N.of_nat (S (S n))) by lia. exact Hend. }
    assert (P6 : SlideModel.bitmap_fill CMAP_BASE (topbits (S n) (r_small c1)) (r_j c1) (r_alpha_size c1)
                   (SlideModel.s_slide (r_slide c1)) = Some (a', alpha')).
    { rewrite Ej, Esm, Eal, Esl. destruct (N.testbit (r_small c) 15); exact HB. }
    rewrite (IH f c1 a' alpha' ltac:(lia) ltac:(lia) P1 P2 P3 P4 P5 P6).
    f_equal. unfold with_bitmap. rewrite Ej, Esm, Erw. rewrite <- shift16_iter by exact Hs.
    subst c1. dcore c. rsa. cbn [SlideModel.s_slide SlideModel.s_rows] in *. f_equal; try reflexivity; lia.
Qed.

(* ================================================================================================================ *)
(* Part 2: the invariant                                                                                            *)
(* ================================================================================================================ *)
From LBZ Require Import Dec.Prog Dec.Format Safe.TreeProofs.

Lemma consts_vals : MAX_SELECTORS = 32767 /\ MAX_ALPHA_SIZE = 258 /\ MAX_TREES = 6 /\ MIN_TREES = 2 /\ GROUP_SIZE = 50 /\
                    MAX_BLOCK_SIZE = 900000 /\ SLIDE_LENGTH = 8192 /\ CMAP_BASE = 7936 /\ MAX_CODE_LENGTH = 20.
Proof. repeat split; reflexivity. Qed.

(* declared array sizes *)
Definition shape (c : core) : Prop :=
  N.of_nat (length (r_selector c)) = 32767 /\ length (r_code_len c) = 258%nat /\ length (r_mtf c) = 6%nat /\
  length (r_tree c) = 6%nat /\ Forall tree_wf (r_tree c) /\ N.of_nat (length (SlideModel.s_slide (r_slide c))) = 8192 /\
  length (d_ftab c) = 256%nat.

(* nothing written to tt[] yet *)
Definition tt0 (c : core) : Prop := c_ttp c = 0 /\ c_tt c = [].

(* the first cells of the character map hold what the bitmap loop wrote for [flags] *)
Definition filled (c : core) (flags : list bool) (alpha : N) : Prop :=
  exists junk, N.of_nat (length junk) = 8192 /\
    SlideModel.bitmap_fill CMAP_BASE flags 0 0 junk = Some (SlideModel.s_slide (r_slide c), alpha).

Definition sel (c : core) (i : N) : N := nth (N.to_nat i) (r_selector c) 0.
Definition cl (c : core) (i : N) : N := nth (N.to_nat i) (r_code_len c) 0.

(* ---- before the block's symbol phase: J_x do not mention the bit buffer ---------------------------------------- *)
Definition J_bwt (c : core) : Prop := shape c /\ tt0 c.
Definition J_big (c : core) : Prop := J_bwt c /\ d_rand c < 2 /\ d_bwt_idx c < 2 ^ 24.

(* at the entry of the inner bitmap loop for range i (0..15): ranges below i are done *)
Definition J_bm (c : core) (i : nat) (flags : list bool) : Prop :=
  J_big c /\ (i < 16)%nat /\ r_j c = 16 * N.of_nat i /\ length flags = (16 * i)%nat /\ filled c flags (r_alpha_size c) /\
  r_small c < 2 ^ 16 /\ r_big c < 2 ^ 16.

(* behind the bitmap *)
Definition J_hdr (c : core) (flags : list bool) : Prop :=
  J_big c /\ length flags = 256%nat /\ filled c flags (N.of_nat (length (SlideModel.used_of flags))) /\
  (1 <= length (SlideModel.used_of flags))%nat /\ r_alpha_size c = N.of_nat (length (SlideModel.used_of flags)) + 2 /\
  2 <= r_num_trees c <= 6 /\ 1 <= r_num_selectors c < 2 ^ 15.

(* selectors 0 .. n-1 have been stored *)
Definition sels_ok (c : core) (n : N) : Prop := forall i, i < n -> sel c i < r_num_trees c.

(* the head of the selector loop *)
Definition J_selH (c : core) (flags : list bool) : Prop :=
  J_hdr c flags /\ r_j c <= r_num_selectors c /\ sels_ok c (r_j c).
(* at NEED(S_SELECTOR_MTF): selector j has just been stored *)
Definition J_selN (c : core) (flags : list bool) : Prop :=
  J_hdr c flags /\ r_j c < r_num_selectors c /\ sels_ok c (r_j c + 1).

(* tree i is what make_tree() left for the lengths [lens]; [code] is what it stored in mtf[i] *)
Definition tree_rel (lens : list N) (code i : N) (T' : tree) : Prop :=
  exists pad T vd, tree_pre lens pad T /\ make_tree (N.of_nat (length lens)) (lens ++ pad) T = Done (vd, T') /\
                   code = verdict_code i vd.

Definition trees_done (c : core) (t : N) : Prop :=
  forall i, i < t -> exists lens, N.of_nat (length lens) = r_alpha_size c /\
    tree_rel lens (nth (N.to_nat i) (r_mtf c) 0) i (nth (N.to_nat i) (r_tree c) garbage_tree).

(* the head of the tree loop *)
Definition J_tree (c : core) (flags : list bool) : Prop :=
  J_hdr c flags /\ sels_ok c (r_num_selectors c) /\ r_t c <= r_num_trees c /\ trees_done c (r_t c).

(* inside the delta loop of tree t: lengths 0 .. j-1 are final, code_len[j] is the running value *)
Definition J_delta (c : core) (flags : list bool) (hi : N) : Prop :=
  J_hdr c flags /\ sels_ok c (r_num_selectors c) /\ r_t c < r_num_trees c /\ trees_done c (r_t c) /\
  r_j c <= r_alpha_size c /\ (forall i, i < r_j c -> 1 <= cl c i <= 20) /\
  (r_j c < r_alpha_size c -> cl c (r_j c) <= hi).
(* [hi] = 31 behind the 5-bit start value, 20 behind a window; at NEED(S_DELTA_TAG) also >= 1: *)
Definition J_deltaN (c : core) (flags : list bool) : Prop :=
  J_delta c flags 20 /\ (r_j c < r_alpha_size c -> 1 <= cl c (r_j c)).

(* ---- the symbol phase -------------------------------------------------------------------------------------------- *)
Definition tree_good (n : N) (T' : tree) : Prop :=
  exists lens pad T, N.of_nat (length lens) = n /\ tree_pre lens pad T /\ make_tree n (lens ++ pad) T = Done (VBuilt, T').

(* a usable entry of the selector IMTF table names a tree that was built *)
Definition mtf_good (c : core) : Prop :=
  forall i, i < r_num_trees c -> let t := nth (N.to_nat i) (r_mtf c) 0 in
    t < MAX_TREES -> tree_good (r_alpha_size c) (nth (N.to_nat t) (r_tree c) garbage_tree).

Definition run_ok (run shift : N) : Prop := 2 ^ shift <= run + 1 /\ run < 2 ^ 32.

Definition J_group (c : core) (order : list N) : Prop :=
  shape c /\ c_ttp c = N.of_nat (length (c_tt c)) /\ c_ttp c <= MAX_BLOCK_SIZE /\
  2 <= r_num_trees c <= 6 /\ r_alpha_size c = N.of_nat (length order) + 2 /\ (1 <= length order <= 256)%nat /\
  Forall (fun x => x < 256) order /\ r_num_selectors c <= 32767 /\ r_g c <= r_num_selectors c /\
  sels_ok c (r_num_selectors c) /\ mtf_good c /\ SlideProofs.Sim_c (r_slide c) order /\
  r_runChar c < 256 /\ run_ok (r_run c) (r_shift c).

(* inside a group on the slow path (at NEED(S_PREFIX) or behind it) *)
Definition J_prefix (c : core) (order : list N) : Prop :=
  J_group c order /\ r_g c < r_num_selectors c /\ r_j c < 50 /\ r_t c < 6 /\
  tree_good (r_alpha_size c) (nth (N.to_nat (r_t c)) (r_tree c) garbage_tree).

(* none of the J_x looks at v or w *)
Definition bufset (c : core) (v w : N) : core := set_c_w (set_c_v c v) w.

Lemma buf_is_frame c c' q : c_v c' = c_v c -> c_w c' = c_w c -> buf_is c q -> buf_is c' q.
Proof. unfold buf_is. intros -> ->. auto. Qed.

(* TAKE(x, k) on a core whose v, w are those of c *)
Lemma take_ok c q k : buf_is c q -> 1 <= k -> k <= c_w c ->
  peek c k = XV (q / 2 ^ (c_w c - k)) /\ q / 2 ^ (c_w c - k) < 2 ^ k /\
  forall c1, c_v c1 = c_v c -> c_w c1 = c_w c ->
    exists c', dump c1 k = XV c' /\ c' = set_c_w (set_c_v c1 ((c_v c * 2 ^ k) mod 2 ^ 64)) (c_w c - k) /\
               buf_is c' (q mod 2 ^ (c_w c - k)).
Proof.
  intros Hb Hk1 Hk. split; [apply peek_ok; assumption|]. split; [apply peek_lt; [apply Hb|exact Hk]|].
  intros c1 Ev Ew. destruct (dump_ok c1 q k (buf_is_frame c c1 q Ev Ew Hb) ltac:(lia)) as (c' & E & -> & B).
  exists (set_c_w (set_c_v c1 ((c_v c1 * 2 ^ k) mod 2 ^ 64)) (c_w c1 - k)). rewrite Ev, Ew in *. auto.
Qed.

(* the successful form of the tt[] writes *)
Lemma iter_push_ok ch : forall n c, c_ttp c + n <= MAX_BLOCK_SIZE ->
  N.iter n (tt_push ch) (XV c) = XV (set_c_ttp (set_c_tt c (repeat ch (N.to_nat n) ++ c_tt c)) (c_ttp c + n)).
Proof.
  induction n as [|n IH] using N.peano_ind; intros c H.
  - cbn. f_equal. rewrite N.add_0_r. dcore c. reflexivity.
  - rewrite N.iter_succ, IH by lia. unfold tt_push. cbn [bindX].
    replace (c_ttp (set_c_ttp _ _)) with (c_ttp c + n) by (dcore c; reflexivity).
    assert (E : (c_ttp c + n <? MAX_BLOCK_SIZE) = true) by (apply N.ltb_lt; lia). rewrite E. f_equal.
    rewrite N2Nat.inj_succ. cbn [repeat app]. dcore c. rsa. f_equal; lia.
Qed.

Lemma emit_run_ok c rc run : length (d_ftab c) = 256%nat -> rc < 256 -> c_ttp c + run <= MAX_BLOCK_SIZE ->
  emit_run c rc run =
  XV (set_c_ttp (set_c_tt (set_d_ftab c (upd (N.to_nat rc) (add32 (nth (N.to_nat rc) (d_ftab c) 0) run) (d_ftab c)))
                          (repeat rc (N.to_nat run) ++ c_tt c)) (c_ttp c + run)).
Proof.
  intros Hl Hrc Hr. unfold emit_run. rewrite xget_ok by lia. cbn [bindX]. rewrite xset_ok by lia. cbn [bindX].
  rewrite iter_push_ok by (dcore c; exact Hr). dcore c. reflexivity.
Qed.
