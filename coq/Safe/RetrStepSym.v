(* C08/C09, retrieve(): preservation of the invariant (Safe/RetrInv.v) by the blocks of the symbol phase of the
   model (Safe/RetrModel.v): group_select and after_prefix (the slow path; the fast path is reduced to it in
   Safe/RetrChunk.v). *)
From Coq Require Import List NArith Arith Bool Lia ZifyBool ZifyNat ZifyN.
From LBZ Require Import Common.Bits Gen.Consts Gen.DecTabs Dec.Prog Dec.Format Safe.TreeModel Safe.TreeLemmas Safe.TreeProofs
                        Safe.RetrModel Safe.RetrChunk Safe.RetrInv.
From LBZ Require Safe.SlideModel Safe.SlideProofs.
Import ListNotations.
Local Open Scope N_scope.

Ltac csplit := repeat match goal with |- _ /\ _ => split end.

(* ---- group_select ------------------------------------------------------------------------------------------- *)
Lemma mtf_shift_spec : forall i m, (i < length m)%nat ->
  exists m', mtf_shift i m = XV m' /\ length m' = length m /\
    (forall p, (1 <= p <= i)%nat -> nth p m' 0 = nth (p - 1) m 0) /\
    (forall p, (p = 0 \/ i < p)%nat -> nth p m' 0 = nth p m 0).
Proof.
  induction i as [|i IH]; intros m Hi.
  - exists m. cbn [mtf_shift]. repeat split; auto. intros; lia.
  - cbn [mtf_shift]. rewrite xget_ok by lia. cbn [bindX]. rewrite xset_ok by lia. cbn [bindX].
    rewrite !Nat2N.id.
    destruct (IH (upd (S i) (nth i m 0) m)) as (m' & E & L & P1 & P2); [rewrite upd_length; lia|].
    exists m'. split; [exact E|]. rewrite upd_length in L. split; [exact L|]. split.
    + intros p Hp. destruct (Nat.eq_dec p (S i)) as [->|Hne].
      * rewrite P2 by lia. rewrite nth_upd_same by lia. f_equal; lia.
      * rewrite P1 by lia. apply nth_upd_other. lia.
    + intros p Hp. rewrite P2 by lia. apply nth_upd_other. lia.
Qed.

(* the head of the group loop: the tree of the group *)
Lemma group_select_ok c order : J_group c order ->
  match group_select c with
  | GSel c1 => J_group c1 order /\ r_g c1 < r_num_selectors c1 /\ r_t c1 < 6 /\
               tree_good (r_alpha_size c1) (nth (N.to_nat (r_t c1)) (r_tree c1) garbage_tree) /\
               c_v c1 = c_v c /\ c_w c1 = c_w c
  | GOut (BRet _ _) => True
  | GOut _ => False
  end.
Proof.
  intros J. unfold J_group in J.
  destruct J as (Hsh & Htt & Httl & Hnt & Hal & Hlo & Hfo & Hns & Hg & Hsel & Hmg & Hsim & Hrc & Hrun).
  destruct Hsh as (Ls & Lc & Lm & Lt & Lwf & Lsl & Lf).
  unfold group_select. destruct (r_g c <? r_num_selectors c) eqn:Eg; [|exact I].
  apply N.ltb_lt in Eg.
  rewrite xget_ok by lia.
  pose proof (Hsel _ Eg) as Hi. unfold sel in Hi.
  remember (nth (N.to_nat (r_g c)) (r_selector c) 0) as i eqn:Ei.
  rewrite xget_ok by lia. remember (nth (N.to_nat i) (r_mtf c) 0) as t eqn:Et0.
  destruct (MAX_TREES <=? t) eqn:Et; [exact I|]. apply N.leb_gt in Et.
  replace (r_mtf (set_r_t c t)) with (r_mtf c) by (dcore c; reflexivity).
  destruct (mtf_shift_spec (N.to_nat i) (r_mtf c)) as (m' & E & L & P1 & P2); [lia|].
  rewrite E. cbn [bindX]. rewrite xset_ok by lia. change (N.to_nat 0) with 0%nat.
  assert (TG : tree_good (r_alpha_size c) (nth (N.to_nat t) (r_tree c) garbage_tree)).
  { pose proof (Hmg i Hi) as G. cbv zeta in G. rewrite <- Et0 in G. exact (G Et). }
  assert (MG : forall p, p < r_num_trees c -> nth (N.to_nat p) (upd 0 t m') 0 < MAX_TREES ->
               tree_good (r_alpha_size c) (nth (N.to_nat (nth (N.to_nat p) (upd 0 t m') 0)) (r_tree c) garbage_tree)).
  { intros p Hp. destruct (Nat.eq_dec (N.to_nat p) 0) as [E0|E0].
    - rewrite E0, nth_upd_same by lia. intros _. exact TG.
    - rewrite nth_upd_other by exact E0.
      destruct (le_lt_dec (N.to_nat p) (N.to_nat i)) as [Hle|Hgt].
      + rewrite P1 by lia. replace (N.to_nat p - 1)%nat with (N.to_nat (p - 1)) by lia.
        apply (Hmg (p - 1)). lia.
      + rewrite P2 by lia. apply (Hmg p Hp). }
  assert (Et6 : t < 6) by (change MAX_TREES with 6 in Et; exact Et).
  clear Hmg P1 P2 E Et0 Ei.
  dcore c. unfold J_group, shape, sels_ok, sel, mtf_good in *. rsa.
  rewrite upd_length.
  csplit; try assumption; try lia.
Qed.

(* ---- after_prefix -------------------------------------------------------------------------------------------- *)
(* the code behind the decode sequence: s is the symbol *)
Definition after_sym (c : core) (s : N) : bres :=
  if s =? EOB then eob c
  else if (256 <=? s) && run_guard 1 (r_run c) then
    sh <== ofM (shl32 (sub32 s 256) (r_shift c)) ;;
    let c := set_r_shift (set_r_run c (add32 (r_run c) sh)) (add32 (r_shift c) 1) in
    slow_head (set_r_j c (add32 (r_j c) 1))
  else if overflows c (r_run c) then BRet E_ERR_OVERFLOW c
  else
    c <== emit_run c (r_runChar c) (r_run c) ;;
    let c := set_r_run c UINT_MAX in
    match SlideModel.mtf_one_c (s mod W8) (r_slide c) with
    | SlideModel.Oob => BFault FSlideOob
    | SlideModel.Abort => BFault FSlideAbort
    | SlideModel.Done x sl =>
        let c := set_r_run (set_r_shift (set_r_runChar (set_r_slide c sl) x) 0) 1 in
        slow_head (set_r_j c (add32 (r_j c) 1))
    end.

Lemma after_prefix_unf c : after_prefix c =
  (T <== ofO (FRead RTree) (nth_error (r_tree c) (N.to_nat (r_t c))) ;;
   skv <== ofM (tree_decode (r_alpha_size c) T (c_v c)) ;;
   after_sym (set_c_w (set_c_v c (snd skv)) (sub32 (c_w c) (snd (fst skv)))) (fst (fst skv))).
Proof. reflexivity. Qed.

(* what a block of the symbol phase may end in; v, w are the bit buffer it must leave *)
Definition post (v w : N) (b : bres) : Prop :=
  match b with
  | BNeed S_prefix c' => exists order', J_prefix c' order' /\ c_v c' = v /\ c_w c' = w
  | BGo P_GROUP c' => exists order', J_group c' order' /\ c_v c' = v /\ c_w c' = w
  | BRet _ _ => True
  | BEob _ => True
  | _ => False
  end.

Ltac jopen := unfold J_prefix, J_group, shape, sels_ok, sel, mtf_good in *; rsa.

(* rs->j++ and the loop test *)
Lemma slow_head_post c order : J_prefix c order ->
  post (c_v c) (c_w c) (slow_head (set_r_j c (add32 (r_j c) 1))).
Proof.
  intros (JG & Hg & Hj & Ht & TG). unfold slow_head.
  replace (r_j (set_r_j c (add32 (r_j c) 1))) with (add32 (r_j c) 1) by (dcore c; reflexivity).
  rewrite add32_small by (rewrite W32_val; lia). change GROUP_SIZE with 50.
  destruct (r_j c + 1 <? 50) eqn:E.
  - apply N.ltb_lt in E. cbn [post]. exists order. dcore c. jopen. csplit; try assumption; try lia; apply JG.
  - cbn [post]. exists order.
    assert (G1 : add32 (r_g (set_r_j c (r_j c + 1))) 1 = r_g c + 1).
    { replace (r_g (set_r_j c (r_j c + 1))) with (r_g c) by (dcore c; reflexivity).
      apply add32_small. rewrite W32_val. unfold J_group in JG. lia. }
    rewrite G1. dcore c. jopen. csplit; try assumption; try lia; apply JG.
Qed.

Lemma guard1_val : nth 1 run_acc_guards None = Some MAX_BLOCK_SIZE.
Proof. reflexivity. Qed.

Lemma overflows_false c run : c_ttp c <= MAX_BLOCK_SIZE -> overflows c run = false -> c_ttp c + run <= MAX_BLOCK_SIZE.
Proof.
  intros H Ho. unfold overflows in Ho. change MAX_BLOCK_SIZE with 900000 in *.
  rewrite sub64_small in Ho by (rewrite ?W64_val; lia). apply N.ltb_ge in Ho. lia.
Qed.

Lemma overflows_big c run : c_ttp c <= MAX_BLOCK_SIZE -> MAX_BLOCK_SIZE < run -> overflows c run = true.
Proof.
  intros H Ho. unfold overflows. change MAX_BLOCK_SIZE with 900000 in *.
  rewrite sub64_small by (rewrite ?W64_val; lia). apply N.ltb_lt. lia.
Qed.

(* the pending run fits: it is written, nothing else changes *)
Lemma emit_J c order : J_prefix c order -> overflows c (r_run c) = false ->
  exists c', emit_run c (r_runChar c) (r_run c) = XV c' /\ J_prefix c' order /\ c_v c' = c_v c /\ c_w c' = c_w c /\
             r_slide c' = r_slide c /\ r_j c' = r_j c.
Proof.
  intros J Ho. pose proof J as (JG & _).
  assert (Hf : c_ttp c + r_run c <= MAX_BLOCK_SIZE) by (apply overflows_false; [apply JG|exact Ho]).
  rewrite emit_run_ok; [|apply JG|apply JG|exact Hf].
  eexists. split; [reflexivity|]. clear JG Ho.
  dcore c. jopen. rewrite upd_length, app_length, repeat_length.
  destruct J as (JG & J'). csplit; try assumption; try lia; try apply JG; try apply J'; try reflexivity.
Qed.

Lemma eob_post c order v w : J_prefix c order -> post v w (eob c).
Proof.
  intros J. unfold eob. destruct (overflows c (r_run c)) eqn:Ho; [exact I|].
  destruct (emit_J c order J Ho) as (c' & E & _). rewrite E. exact I.
Qed.

(* Forall through mtf_front *)
Lemma Forall_firstn {A} (P : A -> Prop) : forall n l, Forall P l -> Forall P (firstn n l).
Proof. induction n; intros [|x l] H; cbn [firstn]; auto. inversion H; subst. constructor; auto. Qed.
Lemma Forall_skipn {A} (P : A -> Prop) : forall n l, Forall P l -> Forall P (skipn n l).
Proof. induction n; intros [|x l] H; cbn [skipn]; auto. inversion H; subst. auto. Qed.
Lemma Forall_nth' {A} (P : A -> Prop) : forall i l d, Forall P l -> (i < length l)%nat -> P (nth i l d).
Proof.
  induction i; intros [|x l] d H L; cbn [length nth] in *; try lia; inversion H; subst; auto. apply IHi; [assumption|lia].
Qed.

Lemma mtf_front_Forall (P : N -> Prop) i l : Forall P l -> (i < length l)%nat ->
  P (fst (mtf_front i l 0)) /\ Forall P (snd (mtf_front i l 0)) /\ length (snd (mtf_front i l 0)) = length l.
Proof.
  intros H L. unfold mtf_front. cbn [fst snd]. split; [apply Forall_nth'; assumption|]. split.
  - constructor; [apply Forall_nth'; assumption|]. apply Forall_app. split; [apply Forall_firstn|apply Forall_skipn]; exact H.
  - cbn [length]. rewrite app_length, firstn_length, skipn_length. lia.
Qed.

(* a run symbol under the guard: rs->run += RUN(s) << rs->shift++ *)
Lemma acc_post c order s : J_prefix c order -> s = RUN_A \/ s = RUN_B -> run_guard 1 (r_run c) = true ->
  post (c_v c) (c_w c)
    (sh <== ofM (shl32 (sub32 s 256) (r_shift c)) ;;
     let c := set_r_shift (set_r_run c (add32 (r_run c) sh)) (add32 (r_shift c) 1) in
     slow_head (set_r_j c (add32 (r_j c) 1))).
Proof.
  intros J Hs Hgd. unfold run_guard in Hgd. rewrite guard1_val in Hgd. change MAX_BLOCK_SIZE with 900000 in Hgd.
  apply N.leb_le in Hgd.
  assert (Hro : run_ok (r_run c) (r_shift c)) by apply J. destruct Hro as (Hr1 & Hr2).
  assert (Hsh : r_shift c <= 20).
  { destruct (N.le_gt_cases (r_shift c) 20) as [H|H]; [exact H|].
    assert (2 ^ 21 <= 2 ^ r_shift c) by (apply N.pow_le_mono_r; lia). change (2 ^ 21) with 2097152 in *. lia. }
  assert (Hp : 2 ^ r_shift c <= 2 ^ 20) by (apply N.pow_le_mono_r; lia). change (2 ^ 20) with 1048576 in Hp.
  assert (Hd : sub32 s 256 = 1 \/ sub32 s 256 = 2).
  { destruct Hs as [-> | ->]; [left|right]; reflexivity. }
  unfold shl32. assert (E : (r_shift c <? 32) = true) by (apply N.ltb_lt; lia). rewrite E. cbn [ofM bindB].
  rewrite N.shiftl_mul_pow2. rewrite (N.mod_small (_ * _)) by (rewrite W32_val; lia).
  cbv zeta. set (d := sub32 s 256) in *.
  set (c1 := set_r_shift _ _).
  assert (E1 : c_v c1 = c_v c /\ c_w c1 = c_w c) by (subst c1; dcore c; split; reflexivity).
  destruct E1 as (<- & <-). apply (slow_head_post c1 order).
  subst c1. rewrite !add32_small by (rewrite W32_val; lia).
  assert (RO : run_ok (r_run c + d * 2 ^ r_shift c) (r_shift c + 1)).
  { split; [rewrite N.pow_add_r; change (2 ^ 1) with 2; lia|lia]. }
  clear Hr1 Hr2 Hsh Hp E.
  dcore c. jopen. destruct J as (JG & J'). csplit; try assumption; try lia; try apply JG; try apply J'.
Qed.

Lemma Sim_c_len st order : SlideProofs.Sim_c st order -> N.of_nat (length (SlideModel.s_slide st)) = 8192.
Proof. intros ((H & _) & _). exact H. Qed.

(* an MTF symbol: flush the pending run, move to front, start a new run *)
Lemma sym_post c order s : J_prefix c order -> 1 <= s -> s < N.of_nat (length order) -> overflows c (r_run c) = false ->
  post (c_v c) (c_w c)
    (c <== emit_run c (r_runChar c) (r_run c) ;;
     let c := set_r_run c UINT_MAX in
     match SlideModel.mtf_one_c (s mod W8) (r_slide c) with
     | SlideModel.Oob => BFault FSlideOob
     | SlideModel.Abort => BFault FSlideAbort
     | SlideModel.Done x sl =>
         let c := set_r_run (set_r_shift (set_r_runChar (set_r_slide c sl) x) 0) 1 in
         slow_head (set_r_j c (add32 (r_j c) 1))
     end).
Proof.
  intros J Hs1 Hs2 Ho.
  destruct (emit_J c order J Ho) as (c1 & E & J1 & Ev & Ew & Esl & Ej). rewrite E. cbn [bindB]. cbv zeta.
  replace (r_slide (set_r_run c1 UINT_MAX)) with (r_slide c) by (rewrite <- Esl; dcore c1; reflexivity).
  assert (Hlo : (1 <= length order <= 256)%nat) by apply J.
  assert (Hfo : Forall (fun x => x < 256) order) by apply J.
  assert (Hsim : SlideProofs.Sim_c (r_slide c) order) by apply J.
  rewrite N.mod_small by (change W8 with 256; lia).
  destruct (SlideProofs.slide_step_sim (r_slide c) order s Hsim Hs1 Hs2) as (sl & Em & Hsim').
  rewrite Em.
  destruct (mtf_front_Forall (fun x => x < 256) (N.to_nat s) order Hfo ltac:(lia)) as (Fx & Fo & Fl).
  set (x := fst (mtf_front (N.to_nat s) order 0)) in *. set (order' := snd (mtf_front (N.to_nat s) order 0)) in *.
  set (c2 := set_r_run (set_r_shift _ 0) 1).
  assert (E2 : c_v c2 = c_v c /\ c_w c2 = c_w c) by (rewrite <- Ev, <- Ew; subst c2; dcore c1; split; reflexivity).
  destruct E2 as (<- & <-). apply (slow_head_post c2 order').
  subst c2. clear E Ev Ew Esl Ej Em Hsim J Ho.
  assert (RO : run_ok 1 0) by (split; [cbn; lia|reflexivity]).
  dcore c1. jopen. destruct J1 as (JG & J'). rewrite Fl. csplit; try assumption; try lia; try apply JG; try apply J'.
  exact (Sim_c_len _ _ Hsim').
Qed.

Lemma after_sym_post c order s : J_prefix c order ->
  s = EOB \/ s = RUN_A \/ s = RUN_B \/ (1 <= s /\ s < N.of_nat (length order)) ->
  post (c_v c) (c_w c) (after_sym c s).
Proof.
  intros J Hs. unfold after_sym.
  assert (Hlo : (1 <= length order <= 256)%nat) by apply J.
  assert (Httl : c_ttp c <= MAX_BLOCK_SIZE) by apply J.
  destruct Hs as [-> | Hs]; [apply (eob_post c order); exact J|].
  assert (E0 : (s =? EOB) = false).
  { apply N.eqb_neq. unfold EOB, RUN_A, RUN_B in *. lia. }
  rewrite E0.
  destruct (run_guard 1 (r_run c)) eqn:Eg.
  - rewrite andb_true_r. destruct Hs as [Hs | [Hs | Hs]].
    + subst s. change (256 <=? RUN_A) with true. cbv iota. apply (acc_post c order); auto.
    + subst s. change (256 <=? RUN_B) with true. cbv iota. apply (acc_post c order); auto.
    + assert (E1 : (256 <=? s) = false) by (apply N.leb_gt; lia). rewrite E1.
      destruct (overflows c (r_run c)) eqn:Ho; [exact I|]. apply (sym_post c order); tauto.
  - rewrite andb_false_r.
    assert (Ho : s = RUN_A \/ s = RUN_B -> overflows c (r_run c) = true).
    { intros _. unfold run_guard in Eg. rewrite guard1_val in Eg. apply N.leb_gt in Eg. apply overflows_big; assumption. }
    destruct (overflows c (r_run c)) eqn:Ho'; [exact I|].
    destruct Hs as [Hs | [Hs | Hs]]; [discriminate Ho; auto..|]. apply (sym_post c order); tauto.
Qed.

Lemma isym_cases n a : 3 <= n -> a < n ->
  isym n a = EOB \/ isym n a = RUN_A \/ isym n a = RUN_B \/ (1 <= isym n a /\ isym n a < n - 2).
Proof.
  intros Hn Ha. unfold isym.
  destruct (a =? 0) eqn:E0; [auto|]. destruct (a =? 1) eqn:E1; [auto|]. destruct (a =? n - 1) eqn:E2; [auto|].
  right; right; right. lia.
Qed.

(* behind NEED(S_PREFIX): one symbol *)
Lemma after_prefix_ok c order : J_prefix c order -> buf_ok c -> 32 <= c_w c ->
  match after_prefix c with
  | BNeed S_prefix c' => exists order', J_prefix c' order' /\ buf_ok c' /\ c_w c' + 1 <= c_w c /\ c_w c <= c_w c' + 20
  | BGo P_GROUP c' => exists order', J_group c' order' /\ buf_ok c' /\ c_w c' + 1 <= c_w c /\ c_w c <= c_w c' + 20
  | BRet _ _ => True
  | BEob _ => True
  | _ => False
  end.
Proof.
  intros J [q B] Hw. pose proof J as (JG & Hg & Hj & Ht & (lens & pad & T0 & Hlen & Hpre & Hmk)).
  assert (Lt : length (r_tree c) = 6%nat) by apply JG.
  assert (Hal : r_alpha_size c = N.of_nat (length order) + 2) by apply JG.
  assert (Hlo : (1 <= length order <= 256)%nat) by apply JG.
  assert (Hw63 : c_w c <= 63) by apply B.
  rewrite after_prefix_unf.
  rewrite (nth_error_nth' (r_tree c) garbage_tree) by lia. cbn [ofO bindB].
  rewrite <- Hlen in Hmk.
  destruct (tree_decode_correct lens pad T0 _ (c_v c) Hpre Hmk (buf_v_lt c q B)) as (a & k & rest & Ed & Hk & Ha & _).
  rewrite Hlen in Ed, Ha. rewrite Ed. cbn [ofM bindB fst snd].
  rewrite sub32_small by (rewrite ?W32_val; lia).
  destruct (dump_ok c q (N.of_nat k) B ltac:(lia)) as (c2 & _ & Ec2 & B2).
  rewrite <- Ec2.
  assert (E2 : c_v c2 = (c_v c * 2 ^ N.of_nat k) mod 2 ^ 64 /\ c_w c2 = c_w c - N.of_nat k) by (subst c2; dcore c; split; reflexivity).
  destruct E2 as (Ev2 & Ew2).
  assert (J2 : J_prefix c2 order).
  { subst c2. clear -J. dcore c. jopen. exact J. }
  assert (Hs : isym (r_alpha_size c) a = EOB \/ isym (r_alpha_size c) a = RUN_A \/ isym (r_alpha_size c) a = RUN_B \/
               (1 <= isym (r_alpha_size c) a /\ isym (r_alpha_size c) a < N.of_nat (length order))).
  { destruct (isym_cases (r_alpha_size c) a ltac:(lia) Ha) as [H|[H|[H|H]]]; auto. right; right; right. lia. }
  pose proof (after_sym_post c2 order (isym (r_alpha_size c) a) J2 Hs) as P.
  assert (Fin : forall c', c_v c' = c_v c2 -> c_w c' = c_w c2 ->
                  buf_ok c' /\ c_w c' + 1 <= c_w c /\ c_w c <= c_w c' + 20).
  { intros c' Ev' Ew'. split; [|lia].
    exists (q mod 2 ^ (c_w c - N.of_nat k)). apply (buf_is_frame c2 c'); assumption. }
  destruct (after_sym c2 (isym (r_alpha_size c) a)) as [p c'|st c'| | |]; cbn [post] in P; try exact I; try contradiction.
  - destruct p as [?| |]; try contradiction. destruct P as (order' & J' & Ev' & Ew'). exists order'.
    split; [exact J'|]. apply (Fin c'); assumption.
  - destruct st; try contradiction. destruct P as (order' & J' & Ev' & Ew'). exists order'.
    split; [exact J'|]. apply (Fin c'); assumption.
Qed.

Print Assumptions group_select_ok.
Print Assumptions after_prefix_ok.
