(* Array-level executable model of decode() and emit() of src/decode.c
   (inverse BWT list construction and the resumable un-RLE emitter).

   Memory: tt is a [list N] of 32-bit words, ftab a 256-list, both accessed
   only through the bounds-checked accessors [get]/[set].  All arithmetic of
   decode() is "checked": an index out of bounds gives [Bad Oob], a sum/shift
   that would not fit 32 bits gives [Bad Wrap] (the C code relies on neither
   happening).  In emit() the intended wrap-arounds (`!a--`, `!m--` leaving
   0xFFFFFFFF, `s << 8` truncation, `c--` on uint8) are modelled explicitly.
   The asserts of the C code are ghost checks ([Bad AssertFail]).

   The control flow of emit() is followed label by label: the entry switch
   with its fall-throughs (case1 .. case5), the test after the switch, the
   main loop (four copies of the same "distinct byte" step [lstep], then the
   run tail [ltail]) and the exit protocol [finish]. *)
From Coq Require Import List NArith Arith Bool Lia.
From LBZ Require Import Gen.Consts Gen.CrcTab Gen.DecTabs Dec.Prog Dec.Format.
Import ListNotations.
Local Open Scope N_scope.

Definition W32 : N := 4294967296.
Definition M1 : N := 4294967295.

Inductive fault := Oob | Wrap | BadState | AssertFail | Fuel.
Inductive res (A : Type) := Good (a : A) | Bad (f : fault).
Arguments Good {A} a.
Arguments Bad {A} f.

Definition bind {A B} (x : res A) (f : A -> res B) : res B :=
  match x with Good a => f a | Bad e => Bad e end.
Notation "x <-- p ;; q" := (bind p (fun x => q)) (at level 61, p at next level, right associativity).

(* ---- bounds-checked memory ------------------------------------------------------------ *)
Definition get (l : list N) (i : N) : res N :=
  match nth_error l (N.to_nat i) with Some x => Good x | None => Bad Oob end.

Fixpoint upd (l : list N) (i : nat) (v : N) : list N :=
  match l, i with
  | [], _ => []
  | _ :: r, O => v :: r
  | x :: r, S i' => x :: upd r i' v
  end.

Definition set (l : list N) (i : N) (v : N) : res (list N) :=
  if i <? N.of_nat (length l) then Good (upd l (N.to_nat i) v) else Bad Oob.

(* ---- checked 32-bit arithmetic ----------------------------------------------------------- *)
Definition add32 (x y : N) : res N := if x + y <? W32 then Good (x + y) else Bad Wrap.
Definition sub32 (x y : N) : res N := if y <=? x then Good (x - y) else Bad Wrap.
(* x << 8 on uint32_t: the shift count 8 is < 32 (defined); flag a lost high bit *)
Definition shl8 (x : N) : res N := if x * 256 <? W32 then Good (x * 256) else Bad Wrap.

(* ---- decoder state ------------------------------------------------------------------------ *)
Record estate := mkE {
  rle_state : N; rle_crc : N; rle_index : N; rle_avail : N; rle_char : N; rle_prev : N;
  ds_crc : N;
}.

(* ======================================================================================== *)
(* decode()                                                                                 *)
(* ======================================================================================== *)

(* for (i = 0; i < 256; i++) ds->ftab[i] = (cum += ds->ftab[i]) - ds->ftab[i]; *)
Fixpoint cumloop (n : nat) (i cum : N) (ftab : list N) : res (list N * N) :=
  match n with
  | O => Good (ftab, cum)
  | S n' =>
      x <-- get ftab i ;;
      cum' <-- add32 cum x ;;
      v <-- sub32 cum' x ;;
      ftab' <-- set ftab i v ;;
      cumloop n' (i + 1) cum' ftab'
  end.

(* for (i = 0; i < block_size; i++) { uc = tt[i]; tt[ftab[uc]] += (i << 8); ftab[uc]++; } *)
Fixpoint linkloop (n : nat) (i : N) (tt ftab : list N) : res (list N * list N) :=
  match n with
  | O => Good (tt, ftab)
  | S n' =>
      w <-- get tt i ;;
      let uc := w mod 256 in
      pos <-- get ftab uc ;;
      old <-- get tt pos ;;
      sh <-- shl8 i ;;
      v <-- add32 old sh ;;
      tt' <-- set tt pos v ;;
      f' <-- add32 pos 1 ;;
      ftab' <-- set ftab uc f' ;;
      linkloop n' (i + 1) tt' ftab'
  end.

(* if (j >= ds->ftab[k + off]) k += add; *)
Definition bstep (ftab : list N) (j k off add : N) : res N :=
  x <-- get ftab (k + off) ;;
  Good (if x <=? j then k + add else k).

Definition bsearch (ftab : list N) (j : N) : res N :=
  k <-- bstep ftab j 0 127 128 ;;
  k <-- bstep ftab j k 63 64 ;;
  k <-- bstep ftab j k 31 32 ;;
  k <-- bstep ftab j k 15 16 ;;
  k <-- bstep ftab j k 7 8 ;;
  k <-- bstep ftab j k 3 4 ;;
  k <-- bstep ftab j k 1 2 ;;
  bstep ftab j k 0 1.

(* in-situ IBWT: for (i..) { k = bsearch(j); tt[i] = (tt[i] & ~0xFF) + k; j = tt[j] >> 8; } *)
Fixpoint insitu (n : nat) (i j : N) (tt ftab : list N) : res (list N) :=
  match n with
  | O => Good tt
  | S n' =>
      k <-- bsearch ftab j ;;
      w <-- get tt i ;;
      v <-- add32 (N.land w 0xFFFFFF00) k ;;
      tt' <-- set tt i v ;;
      wj <-- get tt' j ;;
      insitu n' (i + 1) (N.shiftr wj 8) tt' ftab
  end.

(* i = 0, j = RAND_THRESH; while (j < bs) { tt[j] ^= 1; i = (i + 1) & 0x1FF; j += rand_table[i]; } *)
Fixpoint derandloop (fuel : nat) (i j bs : N) (tt : list N) : res (list N) :=
  if j <? bs then
    match fuel with
    | O => Bad Fuel
    | S f =>
        w <-- get tt j ;;
        tt' <-- set tt j (N.lxor w 1) ;;
        let i' := N.land (i + 1) 511 in
        r <-- get rand_table i' ;;
        j' <-- add32 j r ;;
        derandloop f i' j' bs tt'
    end
  else Good tt.

(* for (i..) tt[i] = ((i + 1) << 8) + (tt[i] & 0xFF); *)
Fixpoint relink (n : nat) (i : N) (tt : list N) : res (list N) :=
  match n with
  | O => Good tt
  | S n' =>
      w <-- get tt i ;;
      i1 <-- add32 i 1 ;;
      sh <-- shl8 i1 ;;
      v <-- add32 sh (w mod 256) ;;
      tt' <-- set tt i v ;;
      relink n' (i + 1) tt'
  end.

(* the whole of decode(): returns the new tt, the new ftab and the emitter start state *)
Definition decode_model (tt ftab : list N) (bs idx : N) (rand : bool) (crc0 : N)
  : res (list N * list N * estate) :=
  fc <-- cumloop 256 0 0 ftab ;;
  let '(ftab1, cum) := fc in
  if negb (cum =? bs) then Bad AssertFail else
  tf <-- linkloop (N.to_nat bs) 0 tt ftab1 ;;
  let '(tt2, ftab2) := tf in
  last <-- get ftab2 255 ;;
  if negb (last =? bs) then Bad AssertFail else
  tt5 <-- (if rand then
             tt3 <-- insitu (N.to_nat bs) 0 idx tt2 ftab2 ;;
             tt4 <-- derandloop (N.to_nat bs) 0 RAND_THRESH bs tt3 ;;
             relink (N.to_nat bs) 0 tt4
           else Good tt2) ;;
  index <-- (if rand then Good 0 else get tt5 idx) ;;
  Good (tt5, ftab2, mkE 0 M1 index bs 0 0 crc0).

(* ======================================================================================== *)
(* emit()                                                                                   *)
(* ======================================================================================== *)
Record regs := mkR {
  r_p : N; r_a : N; r_s : N; r_c : N; r_d : N; r_m : N;
  r_out : list N;   (* bytes stored through *b++ so far *)
  r_st : N;         (* ds->rle_state *)
}.
Definition set_p r v := mkR v (r_a r) (r_s r) (r_c r) (r_d r) (r_m r) (r_out r) (r_st r).
Definition set_a r v := mkR (r_p r) v (r_s r) (r_c r) (r_d r) (r_m r) (r_out r) (r_st r).
Definition set_c r v := mkR (r_p r) (r_a r) (r_s r) v (r_d r) (r_m r) (r_out r) (r_st r).
Definition set_d r v := mkR (r_p r) (r_a r) (r_s r) (r_c r) v (r_m r) (r_out r) (r_st r).
Definition set_m r v := mkR (r_p r) (r_a r) (r_s r) (r_c r) (r_d r) v (r_out r) (r_st r).
Definition set_st r v := mkR (r_p r) (r_a r) (r_s r) (r_c r) (r_d r) (r_m r) (r_out r) v.

(* status, bytes written, new decoder state, new *buf_sz *)
Definition ret := (N * list N * estate * N)%type.

(* s = (s << 8) ^ crc_table[(s >> 24) ^ ( *b++ = x)] *)
Definition put (r : regs) (x : N) : res regs :=
  t <-- get crc_table (N.lxor (N.shiftr (r_s r) 24) x) ;;
  Good (mkR (r_p r) (r_a r) (N.lxor (N.land (N.shiftl (r_s r) 8) mask32) t)
            (r_c r) (r_d r) (r_m r) (r_out r ++ [x]) (r_st r)).

Fixpoint putn (n : nat) (r : regs) (x : N) : res regs :=
  match n with
  | O => Good r
  | S n' => r' <-- put r x ;; putn n' r' x
  end.

Section Emit.
  Variable tt : list N.
  Variable st0 : estate.     (* *ds on entry *)
  Variable bufsz0 : N.       (* *buf_sz on entry *)

  (* c = p = t[p >> 8] *)
  Definition rd (r : regs) : res regs :=
    w <-- get tt (N.shiftr (r_p r) 8) ;;
    Good (set_c (set_p r w) (w mod 256)).

  (* the code after the main loop *)
  Definition finish (r : regs) : res ret :=
    if Bool.eqb (r_a r =? M1) (r_m r =? M1) then Bad AssertFail
    else if r_m r =? M1 then
      Good (E_MORE, r_out r,
            mkE (r_st r) (r_s r) (r_p r) (r_a r) (r_c r) (r_d r) (ds_crc st0), 0)
    else
      Good (E_OK, r_out r,
            mkE (r_st r) (rle_crc st0) (rle_index st0) (r_a r) (rle_char st0) (rle_prev st0)
                (N.lxor (r_s r) M1), r_m r).

  Definition ret_runlen (r : regs) : res ret := Good (E_ERR_RUNLEN, r_out r, st0, bufsz0).

  (* one of the four copies:  if (!a--) break; d = c; c = p = t[p >> 8];
     if (!m--) { state = 1; break; }  s = ...( *b++ = c);  if (c != d) <kneq> else <keq> *)
  Definition lstep (r : regs) (kneq keq : regs -> res ret) : res ret :=
    if r_a r =? 0 then finish (set_a r M1)
    else
      let r := set_a r (r_a r - 1) in
      let r := set_d r (r_c r) in
      r <-- rd r ;;
      if r_m r =? 0 then finish (set_st (set_m r M1) 1)
      else
        r <-- put (set_m r (r_m r - 1)) (r_c r) ;;
        if negb (r_c r =? r_d r) then kneq r else keq r.

  (* the rest of the loop body (two equal bytes seen); [kcont] = continue *)
  Definition ltail (r : regs) (kcont : regs -> res ret) : res ret :=
    if r_a r =? 0 then finish (set_a r M1) else
    r <-- rd (set_a r (r_a r - 1)) ;;
    if r_m r =? 0 then finish (set_st (set_m r M1) 2) else
    r <-- put (set_m r (r_m r - 1)) (r_c r) ;;
    if negb (r_c r =? r_d r) then kcont r else
    if r_a r =? 0 then finish (set_a r M1) else
    r <-- rd (set_a r (r_a r - 1)) ;;
    if r_m r =? 0 then finish (set_st (set_m r M1) 3) else
    r <-- put (set_m r (r_m r - 1)) (r_c r) ;;
    if negb (r_c r =? r_d r) then kcont r else
    if r_a r =? 0 then ret_runlen r else
    r <-- rd (set_a r (r_a r - 1)) ;;
    if r_m r <? r_c r then
      (* c -= m; while (m--) put d;  leaves m = M1 *)
      r' <-- putn (N.to_nat (r_m r)) (set_c r (r_c r - r_m r)) (r_d r) ;;
      finish (set_st (set_m r' M1) 4)
    else
      (* m -= c; while (c--) put d;  leaves c = 255 *)
      r' <-- putn (N.to_nat (r_c r)) (set_m r (r_m r - r_c r)) (r_d r) ;;
      let r := set_c r' 255 in
      if r_a r =? 0 then finish (set_a r M1) else
      r <-- rd (set_a r (r_a r - 1)) ;;
      if r_m r =? 0 then finish (set_st (set_m r M1) 5) else
      r <-- put (set_m r (r_m r - 1)) (r_c r) ;;
      kcont r.

  Fixpoint loop (fuel : nat) (r : regs) : res ret :=
    match fuel with
    | O => Bad Fuel
    | S f =>
        let t := fun r => ltail r (loop f) in
        lstep r (fun r => lstep r (fun r => lstep r (fun r => lstep r (loop f) t) t) t) t
    end.

  (* if (a != M1 && m != M1) for (;;) ...;  then the exit protocol *)
  Definition after_switch (r : regs) : res ret :=
    if negb (r_a r =? M1) && negb (r_m r =? M1) then loop (S (N.to_nat (r_a r))) r
    else finish r.

  Definition case5 (r : regs) : res ret :=
    if r_m r =? 0 then after_switch (set_st (set_m r M1) 5) else
    r <-- put (set_m r (r_m r - 1)) (r_c r) ;;
    after_switch r.

  Definition case0 (r : regs) : res ret :=
    if r_a r =? 0 then after_switch (set_a r M1) else
    r <-- rd (set_a r (r_a r - 1)) ;;
    case5 r.

  Definition case4 (r : regs) : res ret :=
    if r_m r <? r_c r then
      r' <-- putn (N.to_nat (r_m r)) (set_c r (r_c r - r_m r)) (r_d r) ;;
      after_switch (set_st (set_m r' M1) 4)
    else
      r' <-- putn (N.to_nat (r_c r)) (set_m r (r_m r - r_c r)) (r_d r) ;;
      case0 (set_c r' 255).

  Definition case3 (r : regs) : res ret :=
    if r_m r =? 0 then after_switch (set_st (set_m r M1) 3) else
    r <-- put (set_m r (r_m r - 1)) (r_c r) ;;
    if negb (r_c r =? r_d r) then after_switch r else
    if r_a r =? 0 then ret_runlen r else
    r <-- rd (set_a r (r_a r - 1)) ;;
    case4 r.

  Definition case2 (r : regs) : res ret :=
    if r_m r =? 0 then after_switch (set_st (set_m r M1) 2) else
    r <-- put (set_m r (r_m r - 1)) (r_c r) ;;
    if negb (r_c r =? r_d r) then after_switch r else
    if r_a r =? 0 then after_switch (set_a r M1) else
    r <-- rd (set_a r (r_a r - 1)) ;;
    case3 r.

  Definition case1 (r : regs) : res ret :=
    if r_m r =? 0 then after_switch (set_m r M1) else
    r <-- put (set_m r (r_m r - 1)) (r_c r) ;;
    if negb (r_c r =? r_d r) then after_switch r else
    if r_a r =? 0 then after_switch (set_a r M1) else
    r <-- rd (set_a r (r_a r - 1)) ;;
    case2 r.

  (* m = *buf_sz is a size_t -> uint32_t conversion *)
  Definition emit_entry : res ret :=
    if bufsz0 =? 0 then Bad AssertFail else
    let r := mkR (rle_index st0) (rle_avail st0) (rle_crc st0) (rle_char st0) (rle_prev st0)
                 (bufsz0 mod W32) [] (rle_state st0) in
    match rle_state st0 with
    | 0 => case0 r
    | 1 => case1 r
    | 2 => case2 r
    | 3 => case3 r
    | 4 => case4 r
    | 5 => case5 r
    | _ => Bad BadState
    end.
End Emit.

Definition emit_model (tt : list N) (st : estate) (bufsz : N) : res ret := emit_entry tt st bufsz.

(* ---- repeated calls with a sequence of buffer sizes ---------------------------------------- *)
Inductive run_result :=
| RFinished (status : N) (chunks : list (list N)) (st : estate)  (* OK or ERR_RUNLEN *)
| RPending (chunks : list (list N)) (st : estate)                (* sizes used up, still MORE *)
| RFault (f : fault).

Definition rcons (c : list N) (r : run_result) : run_result :=
  match r with
  | RFinished s cs st => RFinished s (c :: cs) st
  | RPending cs st => RPending (c :: cs) st
  | RFault f => RFault f
  end.

Fixpoint emit_run (tt : list N) (st : estate) (sizes : list N) : run_result :=
  match sizes with
  | [] => RPending [] st
  | b :: rest =>
      match emit_model tt st b with
      | Bad f => RFault f
      | Good (status, out, st', _) =>
          if status =? E_MORE then rcons out (emit_run tt st' rest)
          else RFinished status [out] st'
      end
  end.

(* ---- the frequency table retrieve() leaves in ds->ftab --------------------------------------- *)
Definition count_of (tt : list N) (c : N) : N := N.of_nat (length (filter (N.eqb c) tt)).
Definition ftab_of (tt : list N) : list N := map (fun c => count_of tt (N.of_nat c)) (seq 0 256).

(* decode() then emit() until done, as the harness does *)
Definition decode_emit (col : list N) (idx : N) (rand : bool) (sizes : list N) : run_result :=
  match decode_model col (ftab_of col) (N.of_nat (length col)) idx rand 0 with
  | Bad f => RFault f
  | Good (tt', _, st) => emit_run tt' st sizes
  end.

(* the abstract one-shot result (Dec/Format.v) *)
Definition abstract_block (col : list N) (idx : N) (rand : bool) : result (list N) :=
  let b := ibwt col idx in
  unrle true 256 0 (if rand then derand b else b).
