(* C08/C09, retrieve(): preservation of the invariant (Safe/RetrInv.v) by the selector / code length blocks of the
   model (Safe/RetrModel.v): sel_head, tree_head (with init_groups), delta_head (with make_tree). *)
From Coq Require Import List NArith Arith Bool Lia ZifyBool ZifyNat ZifyN.
From LBZ Require Import Common.Bits Gen.Consts Gen.DecTabs Dec.Prog Dec.Format Safe.TreeModel Safe.TreeLemmas Safe.TreeProofs
                        Safe.RetrModel Safe.RetrChunk Safe.RetrInv.
From LBZ Require Safe.SlideModel Safe.SlideProofs.
Import ListNotations.
Local Open Scope N_scope.

(* ---- helpers: updt, the set of used bytes, framing of J_hdr ------------------------------------------------------ *)
Lemma updt_length i x l : length (updt i x l) = length l.
Proof. revert i; induction l as [|y r IH]; intros [|i]; cbn [updt length]; auto. Qed.

Lemma nth_updt_same i x l d : (i < length l)%nat -> nth i (updt i x l) d = x.
Proof. revert i; induction l as [|y r IH]; intros [|i] H; cbn [updt length nth] in *; try lia; auto. apply IH; lia. Qed.

Lemma nth_updt_other i j x l d : j <> i -> nth j (updt i x l) d = nth j l d.
Proof.
  revert i j; induction l as [|y r IH]; intros [|i] [|j] H; cbn [updt nth]; try reflexivity; try lia.
  apply IH; lia.
Qed.

Lemma Forall_updt (P : tree -> Prop) i x l : P x -> Forall P l -> Forall P (updt i x l).
Proof.
  intros Hx H. revert i; induction H as [|y r Hy Hr IH]; intros [|i]; cbn [updt]; constructor; auto.
Qed.

Lemma used_from_lt : forall flags j, Forall (fun x => x < j + N.of_nat (length flags)) (SlideModel.used_from j flags).
Proof.
  induction flags as [|b r IH]; intros j; cbn [SlideModel.used_from length]; [constructor|].
  specialize (IH (j + 1)).
  assert (H : Forall (fun x => x < j + N.of_nat (S (length r))) (SlideModel.used_from (j + 1) r)).
  { eapply Forall_impl; [|exact IH]. cbn beta. intros a Ha. lia. }
  destruct b; [constructor; [lia|exact H]|exact H].
Qed.

Lemma J_hdr_alpha c flags : J_hdr c flags -> 3 <= r_alpha_size c <= 258.
Proof.
  intros (_ & Hf & _ & H1 & Ha & _). pose proof (SlideProofs.used_from_length flags 0) as U.
  unfold SlideModel.used_of in *. lia.
Qed.

(* frame: J_hdr looks only at some fields *)
Lemma J_hdr_frame c c' flags : J_hdr c flags ->
  length (r_selector c') = length (r_selector c) -> length (r_code_len c') = length (r_code_len c) ->
  length (r_mtf c') = length (r_mtf c) -> length (r_tree c') = length (r_tree c) -> Forall tree_wf (r_tree c') ->
  r_slide c' = r_slide c -> d_ftab c' = d_ftab c -> c_ttp c' = c_ttp c -> c_tt c' = c_tt c ->
  d_rand c' = d_rand c -> d_bwt_idx c' = d_bwt_idx c -> r_alpha_size c' = r_alpha_size c ->
  r_num_trees c' = r_num_trees c -> r_num_selectors c' = r_num_selectors c -> J_hdr c' flags.
Proof.
  intros H E1 E2 E3 E4 E5 E6 E7 E8 E9 E10 E11 E12 E13 E14.
  unfold J_hdr, J_big, J_bwt, shape, tt0, filled in *. rewrite E1, E2, E3, E4, E6, E7, E8, E9, E10, E11, E12, E13, E14.
  destruct H as ((((S1 & S2 & S3 & S4 & S5 & S6 & S7) & T) & R) & F). repeat split; try tauto.
Qed.

(* the common tail of the three ways through the loop body: DUMP(L[k]); NEED(S_DELTA_TAG) *)
Lemma delta_finish c flags q kk j' cls' c0 :
  J_delta c flags 31 -> buf_is c q -> 1 <= kk <= 6 -> 6 <= c_w c ->
  length cls' = 258%nat -> j' <= r_alpha_size c ->
  (forall i, i < j' -> 1 <= nth (N.to_nat i) cls' 0 <= 20) ->
  (j' < r_alpha_size c -> 1 <= nth (N.to_nat j') cls' 0 <= 20) ->
  c0 = set_r_code_len (set_r_j c j') cls' ->
  match (c1 <== dump c0 kk ;; BNeed S_delta_tag c1) with
  | BNeed S_delta_tag c' => J_deltaN c' flags /\ buf_ok c' /\ c_w c' + 1 <= c_w c /\ c_w c <= c_w c' + 6
  | BGo P_TREE c' => (J_tree c' flags /\ buf_ok c' /\ c_w c' = c_w c) /\ r_alpha_size c <= r_j c
  | BRet _ _ => True
  | _ => False
  end.
Proof.
  intros (Hh & Hs & Ht & Htd & _ & _ & _) Hb Hkk Hw Hl Hj Hlo Hcur ->.
  destruct (dump_ok (set_r_code_len (set_r_j c j') cls') q kk) as (c' & E & Ec' & B').
  { apply (buf_is_frame c); [dcore c; reflexivity..|exact Hb]. }
  { replace (c_w _) with (c_w c) by (dcore c; reflexivity). lia. }
  rewrite E. cbn [bindB].
  replace (c_w (set_r_code_len (set_r_j c j') cls')) with (c_w c) in * by (dcore c; reflexivity).
  assert (Ew : c_w c' = c_w c - kk) by (subst c'; dcore c; reflexivity).
  split; [|split; [exists (q mod 2 ^ (c_w c - kk)); exact B'| lia]].
  clear B' E Ew Hb.
  assert (Hsh : shape c) by apply Hh.
  destruct Hsh as (Ssel & Scl & Smtf & Str & Swf & Ssl & Sft).
  subst c'. dcore c. unfold J_deltaN, J_delta, sels_ok, sel, trees_done, cl in *. rsa.
  assert (Hh' : J_hdr (mk_core ((xv * 2 ^ kk) mod 2 ^ 64) (xw - kk) xttp xtt xrand xidx xftab xsel xnt xns xasz cls' xmtf xtree xbig xsmall j' xt xg xslide xrc xrun xsh) flags).
  { eapply J_hdr_frame; [exact Hh|rsa; try reflexivity..]; [lia|exact Swf]. }
  split; [split; [exact Hh'|]|].
  - split; [exact Hs|]. split; [exact Ht|]. split; [exact Htd|]. split; [exact Hj|]. split; [exact Hlo|].
    intro H. specialize (Hcur H). lia.
  - intro H. specialize (Hcur H). lia.
Qed.

(* code_len[j] += R[k]; code_len[j] -= 3 in uint8_t arithmetic *)
Lemma mod8_delta x b : b + 1 <= x -> x < 256 -> b <= 3 -> ((x mod W8) + W8 - b) mod W8 = x - b.
Proof.
  intros H1 H2 H3. change W8 with 256. rewrite (N.mod_small x) by lia.
  replace (x + 256 - b) with ((x - b) + 1 * 256) by lia. rewrite N.mod_add by discriminate. apply N.mod_small. lia.
Qed.

(* delta_head, and the P_TREE exit is taken only with j = alpha_size *)
Lemma delta_head_ok' c flags : J_delta c flags 31 -> buf_ok c -> 6 <= c_w c ->
  match delta_head c with
  | BNeed S_delta_tag c' => J_deltaN c' flags /\ buf_ok c' /\ c_w c' + 1 <= c_w c /\ c_w c <= c_w c' + 6
  | BGo P_TREE c' => (J_tree c' flags /\ buf_ok c' /\ c_w c' = c_w c) /\ r_alpha_size c <= r_j c
  | BRet _ _ => True
  | _ => False
  end.
Proof.
  intros HJ (q & Hb) Hw. pose proof HJ as (Hh & Hs & Ht & Htd & Hj & Hlo & Hcur).
  pose proof (J_hdr_alpha c flags Hh) as Hal.
  assert (Hsh : shape c) by apply Hh.
  destruct Hsh as (Ssel & Scl & Smtf & Str & Swf & Ssl & Sft).
  unfold delta_head.
  destruct (N.ltb_spec (r_j c) (r_alpha_size c)) as [Hlt|Hge].
  - specialize (Hcur Hlt).
    rewrite (peek_ok c q 6 Hb ltac:(lia) Hw). cbn [bindB].
    pose proof (peek_lt q (c_w c) 6 ltac:(apply Hb) Hw) as Hk. change (2 ^ 6) with 64 in Hk.
    set (k := q / 2 ^ (c_w c - 6)) in *.
    destruct delta_tabs_len as (LL & LR & Lmin & Lmax).
    rewrite (xget_ok RCodeLen) by lia. cbn [bindB].
    rewrite (xget_ok RConst Rmin_tab) by lia. cbn [bindB].
    rewrite (xget_ok RConst Rmax_tab) by lia. cbn [bindB].
    destruct (delta_entry k Hk) as (HL & Hmin & Hmax & Hhi). cbv zeta in HL, Hmin, Hmax, Hhi.
    destruct delta_consts_ok as (Dlo & Dhi & Dbias).
    fold (cl c (r_j c)).
    set (rmin := nth (N.to_nat k) Rmin_tab 0) in *. set (rmax := nth (N.to_nat k) Rmax_tab 0) in *.
    destruct ((cl c (r_j c) + rmin <? delta_check_lo) || (delta_check_hi <? cl c (r_j c) + rmax)) eqn:Etest; [exact I|].
    rewrite (xget_ok RConst delta_R) by lia. cbn [bindB].
    set (r := nth (N.to_nat k) delta_R 0) in *.
    rewrite mod8_delta by lia.
    set (ncl := cl c (r_j c) + r - delta_bias).
    assert (Hncl : 1 <= ncl <= 20) by (unfold ncl; lia).
    rewrite xset_ok by lia. cbn [bindB].
    rewrite (xget_ok RConst delta_L) by lia. cbn [bindB].
    set (kk := nth (N.to_nat k) delta_L 0) in *.
    set (cls := upd (N.to_nat (r_j c)) ncl (r_code_len c)).
    assert (Lcls : length cls = 258%nat) by (unfold cls; rewrite upd_length; exact Scl).
    assert (Ncls_lo : forall i, i < r_j c -> nth (N.to_nat i) cls 0 = cl c i).
    { intros i Hi. unfold cls. rewrite nth_upd_other by lia. reflexivity. }
    assert (Ncls_j : nth (N.to_nat (r_j c)) cls 0 = ncl).
    { unfold cls. rewrite nth_upd_same by lia. reflexivity. }
    cbn [r_j r_alpha_size r_code_len set_r_j set_r_code_len].
    destruct (N.eqb_spec kk 6) as [E6|N6]; cbn [negb].
    + (* same symbol again *)
      apply (delta_finish c flags q kk (r_j c) cls); try assumption; try lia.
      * intros i Hi. rewrite Ncls_lo by exact Hi. apply Hlo; exact Hi.
      * dcore c; reflexivity.
    + rewrite add32_small by (rewrite W32_val; lia).
      destruct (N.ltb_spec (r_j c + 1) (r_alpha_size c)) as [Hlt1|Hge1].
      * rewrite sub32_small by (rewrite ?W32_val; lia).
        rewrite xget_ok by lia. cbn [bindX]. rewrite xset_ok by lia. cbn [bindX].
        replace (r_j c + 1 - 1) with (r_j c) by lia. rewrite Ncls_j.
        apply (delta_finish c flags q kk (r_j c + 1) (upd (N.to_nat (r_j c + 1)) ncl cls)); try assumption; try lia.
        -- rewrite upd_length; exact Lcls.
        -- intros i Hi. rewrite nth_upd_other by lia. destruct (N.eq_dec i (r_j c)) as [->|Hne].
           ++ rewrite Ncls_j. exact Hncl.
           ++ rewrite Ncls_lo by lia. apply Hlo; lia.
        -- intros _. rewrite nth_upd_same by lia. exact Hncl.
        -- dcore c; reflexivity.
      * apply (delta_finish c flags q kk (r_j c + 1) cls); try assumption; try lia.
        -- intros i Hi. destruct (N.eq_dec i (r_j c)) as [->|Hne].
           ++ rewrite Ncls_j. exact Hncl.
           ++ rewrite Ncls_lo by lia. apply Hlo; lia.
        -- dcore c; reflexivity.
  - assert (Ej : r_j c = r_alpha_size c) by lia.
    set (t := r_t c) in *.
    assert (Ht6 : t < 6) by (destruct Hh as (_ & _ & _ & _ & _ & Hnt & _); lia).
    rewrite (nth_error_nth' (r_tree c) garbage_tree) by lia. cbn [ofO bindB].
    set (T := nth (N.to_nat t) (r_tree c) garbage_tree).
    set (n := N.to_nat (r_alpha_size c)).
    set (lens := firstn n (r_code_len c)). set (pad := skipn n (r_code_len c)).
    assert (Llens : length lens = n) by (unfold lens; rewrite firstn_length; lia).
    assert (Hpre : tree_pre lens pad T).
    { unfold tree_pre. split; [lia|]. split; [|split].
      - apply Forall_nth. intros i d Hi. rewrite (nth_indep _ d 0) by exact Hi. unfold lens.
        rewrite SlideProofs.nth_firstn_lt by lia.
        specialize (Hlo (N.of_nat i) ltac:(lia)). unfold cl in Hlo. rewrite Nat2N.id in Hlo. exact Hlo.
      - rewrite <- app_length. unfold lens, pad. rewrite firstn_skipn, Scl. reflexivity.
      - rewrite Forall_forall in Swf. apply Swf. apply nth_In. lia. }
    destruct (make_tree_total lens pad T Hpre) as (vd & T' & EM & WF' & _).
    unfold lens at 2 in EM. unfold pad in EM. rewrite firstn_skipn in EM.
    replace (N.of_nat (length lens)) with (r_alpha_size c) in EM by lia.
    rewrite EM. cbn [ofM bindB fst snd].
    rewrite xset_ok by lia. cbn [bindB].
    cbn [r_t set_r_mtf set_r_tree]. fold t. rewrite add32_small by (rewrite W32_val; lia).
    split; [|exact Hge]. split; [|split; [exists q; apply (buf_is_frame c); [dcore c; reflexivity..|exact Hb]|dcore c; reflexivity]].
    assert (TR : tree_rel lens (verdict_code t vd) t T').
    { exists pad, T, vd. split; [exact Hpre|]. split; [|reflexivity].
      unfold lens at 2. unfold pad. rewrite firstn_skipn. replace (N.of_nat (length lens)) with (r_alpha_size c) by lia. exact EM. }
    assert (Lal : N.of_nat (length lens) = r_alpha_size c) by lia.
    clearbody lens T. clear EM Hpre pad Hb.
    unfold J_tree. subst t. dcore c. unfold sels_ok, sel, trees_done, cl in *. rsa.
    split; [|split; [exact Hs|split; [lia|]]].
    + eapply J_hdr_frame; [exact Hh|rsa; try reflexivity..].
      * apply upd_length.
      * apply updt_length.
      * apply Forall_updt; assumption.
    + intros i Hi. destruct (N.eq_dec i xt) as [->|Hne].
      * exists lens. split; [exact Lal|]. rewrite nth_upd_same, nth_updt_same by lia. exact TR.
      * rewrite nth_upd_other, nth_updt_other by lia. apply Htd. lia.
Qed.

(* the delta loop of one tree, from its head to the next NEED or to the next tree *)
Lemma delta_head_ok c flags : J_delta c flags 31 -> buf_ok c -> 6 <= c_w c ->
  match delta_head c with
  | BNeed S_delta_tag c' => J_deltaN c' flags /\ buf_ok c' /\ c_w c' + 1 <= c_w c /\ c_w c <= c_w c' + 6
  | BGo P_TREE c' => J_tree c' flags /\ buf_ok c' /\ c_w c' = c_w c
  | BRet _ _ => True
  | _ => False
  end.
Proof.
  intros H1 H2 H3. pose proof (delta_head_ok' c flags H1 H2 H3) as R.
  destruct (delta_head c) as [[[]| |] c'|[] c'| | |]; try exact R. apply R.
Qed.

(* all trees done: the usable entries of mtf[] name built trees *)
Lemma trees_done_good c : r_num_trees c <= 6 -> trees_done c (r_num_trees c) -> mtf_good c.
Proof.
  intros Hnt Htd i Hi. cbv zeta. intro Hlt.
  destruct (Htd i Hi) as (lens & Ll & pad & T & vd & Hpre & EM & Ecode).
  destruct (verdict_code_spec i vd ltac:(change MAX_TREES with 6; lia)) as (V1 & V2 & V3).
  change MAX_TREES with 6 in Hlt. change E_ERR_INCOMPLT with 11 in V2. change E_ERR_PREFIX with 10 in V3.
  destruct vd.
  - rewrite Ecode. cbn [verdict_code]. exists lens, pad, T. split; [exact Ll|]. split; [exact Hpre|]. rewrite <- Ll. exact EM.
  - exfalso. destruct V2 as (V2 & _). specialize (V2 eq_refl). lia.
  - exfalso. destruct V3 as (V3 & _). specialize (V3 eq_refl). lia.
Qed.

(* behind the last tree: the tables of the symbol phase *)
Lemma init_groups_ok c flags : J_tree c flags -> r_t c = r_num_trees c -> buf_ok c ->
  exists c', init_groups c = BGo P_GROUP c' /\ J_group c' (SlideModel.used_of flags) /\ buf_ok c' /\ c_w c' = c_w c.
Proof.
  intros (Hh & Hs & Ht & Htd) Et (q & Hb).
  pose proof (J_hdr_alpha c flags Hh) as Hal.
  pose proof Hh as (((Hsh & Htt0) & Hrand & Hidx) & Lfl & Hfill & Hu1 & Ealpha & Hnt & Hns).
  destruct Hsh as (Ssel & Scl & Smtf & Str & Swf & Ssl & Sft).
  rewrite Et in Htd. pose proof (trees_done_good c ltac:(lia) Htd) as Hgood.
  destruct Hfill as (junk & Ljunk & EBF).
  destruct (SlideProofs.slide_init_c_ok junk flags Ljunk Lfl) as (st & Einit & HSim).
  unfold SlideModel.slide_init_c, SlideModel.slide_init in Einit. rewrite EBF in Einit. cbn [SlideModel.obind] in Einit.
  injection Einit as Est.
  destruct (SlideProofs.bitmap_fill_spec flags CMAP_BASE 0 0 junk) as (a' & EBF' & _ & Hq & _).
  { unfold SlideProofs.len. rewrite Ljunk, Lfl. change CMAP_BASE with 7936. lia. }
  rewrite EBF in EBF'. injection EBF' as Ea'. subst a'.
  fold (SlideModel.used_of flags) in Hq. specialize (Hq 0%nat ltac:(lia)).
  replace (CMAP_BASE + 0 + N.of_nat 0) with CMAP_BASE in Hq by lia.
  pose proof (used_from_lt flags 0) as Hult. fold (SlideModel.used_of flags) in Hult. rewrite Lfl in Hult.
  pose proof (SlideProofs.used_from_length flags 0) as Hul. fold (SlideModel.used_of flags) in Hul.
  assert (Hx : SlideProofs.get (SlideModel.s_slide (r_slide c)) CMAP_BASE < 256).
  { rewrite Hq. rewrite Forall_forall in Hult. apply (Hult (nth 0 (SlideModel.used_of flags) 0)). apply nth_In. lia. }
  unfold init_groups. cbv zeta.
  rewrite (SlideProofs.rd_ok (SlideModel.rows_init CMAP_BASE) 0) by (rewrite SlideProofs.rows_init_len; lia).
  cbn [ofO bindB]. rewrite SlideProofs.rows_init_get by lia. replace (CMAP_BASE + 16 * 0) with CMAP_BASE by lia.
  cbn [SlideModel.s_slide].
  rewrite SlideProofs.rd_ok by (unfold SlideProofs.len; rewrite Ssl; change CMAP_BASE with 7936; lia).
  cbn [ofO bindB].
  set (x := SlideProofs.get (SlideModel.s_slide (r_slide c)) CMAP_BASE) in *.
  eexists. split; [reflexivity|].
  split; [|split; [exists q; apply (buf_is_frame c); [destruct (sel_clamp_test <? _); dcore c; reflexivity..|exact Hb]
                  |destruct (sel_clamp_test <? _); dcore c; reflexivity]].
  clear Hb Hq.
  assert (Hcl : sel_clamp_test = 18001 /\ sel_clamp_value = 18001) by (split; reflexivity). destruct Hcl as (Ec1 & Ec2).
  unfold tt0 in Htt0. destruct Htt0 as (Ettp & Ett).
  unfold J_group, shape, sels_ok, sel, mtf_good, run_ok in *.
  dcore c. rsa.
  destruct (N.ltb_spec sel_clamp_test xns) as [Hcl|Hcl]; rsa; rewrite ?Ec1, ?Ec2 in *.
  all: subst st xttp xtt; cbn [SlideModel.s_slide length].
  all: assert (HF : Forall (fun x0 : N => x0 < 256) (SlideModel.used_of flags))
         by (eapply Forall_impl; [|exact Hult]; cbn beta; intros a Ha; lia).
  all: split; [repeat split; try assumption; apply repeat_length|].
  all: split; [reflexivity|]. all: split; [change MAX_BLOCK_SIZE with 900000; lia|].
  all: split; [exact Hnt|]. all: split; [exact Ealpha|]. all: split; [lia|]. all: split; [exact HF|].
  all: split; [lia|]. all: split; [lia|]. all: split; [intros i Hi; apply Hs; lia|].
  all: split; [exact Hgood|]. all: split; [exact HSim|]. all: split; [exact Hx|].
  all: split; [change (2 ^ 0) with 1; lia|reflexivity].
Qed.
(* tree_head, and the P_GROUP exit is taken only with t = num_trees *)
Lemma tree_head_ok' c flags : J_tree c flags -> buf_ok c -> 32 <= c_w c ->
  match tree_head c with
  | BNeed S_delta_tag c' => J_deltaN c' flags /\ buf_ok c' /\ c_w c' + 6 <= c_w c
  | BGo P_GROUP c' => (exists order, J_group c' order /\ buf_ok c' /\ c_w c' = c_w c) /\ r_num_trees c <= r_t c
  | BRet _ _ => True
  | _ => False
  end.
Proof.
  intros (Hh & Hs & Ht & Htd) (q & Hb) Hw.
  pose proof (J_hdr_alpha c flags Hh) as Hal.
  assert (Hsh : shape c) by apply Hh.
  destruct Hsh as (Ssel & Scl & Smtf & Str & Swf & Ssl & Sft).
  unfold tree_head.
  destruct (N.ltb_spec (r_t c) (r_num_trees c)) as [Hlt|Hge].
  - assert (Hb1 : buf_is (set_r_j c 0) q) by (apply (buf_is_frame c); [dcore c; reflexivity..|exact Hb]).
    assert (Ew1 : c_w (set_r_j c 0) = c_w c) by (dcore c; reflexivity).
    destruct (take_ok (set_r_j c 0) q 5 Hb1 ltac:(lia) ltac:(lia)) as (Ep & Hx & Hd).
    rewrite Ep. cbn [bindB]. rewrite Ew1 in *. change (2 ^ 5) with 32 in Hx.
    set (x := q / 2 ^ (c_w c - 5)) in *.
    replace (r_code_len (set_r_j c 0)) with (r_code_len c) by (dcore c; reflexivity).
    rewrite xset_ok by lia. cbn [bindB].
    rewrite (N.mod_small x) by (change W8 with 256; lia).
    destruct (Hd (set_r_code_len (set_r_j c 0) (upd (N.to_nat 0) x (r_code_len c)))
                ltac:(dcore c; reflexivity) ltac:(dcore c; reflexivity)) as (c2 & E2 & Ec2 & B2).
    rewrite E2. cbn [bindB].
    assert (Ew2 : c_w c2 = c_w c - 5) by (subst c2; dcore c; reflexivity).
    assert (HJ : J_delta c2 flags 31).
    { clear Hb Hb1 Ep Hd E2 B2 Ew2 Ew1. subst c2. dcore c. unfold J_delta, sels_ok, sel, trees_done, cl in *. rsa.
      split; [|split; [exact Hs|split; [exact Hlt|split; [exact Htd|split; [lia|split; [intros i Hi; lia|]]]]]].
      - eapply J_hdr_frame; [exact Hh|rsa; try reflexivity..]; [apply upd_length|exact Swf].
      - intros _. change (N.to_nat 0) with 0%nat. rewrite nth_upd_same by lia. lia. }
    pose proof (delta_head_ok' c2 flags HJ (ex_intro _ _ B2) ltac:(lia)) as R.
    assert (Ej2 : r_j c2 = 0) by (subst c2; dcore c; reflexivity).
    assert (Ea2 : r_alpha_size c2 = r_alpha_size c) by (subst c2; dcore c; reflexivity).
    destruct (delta_head c2) as [[[]| |] c'|[] c'| | |]; try exact R; try (exfalso; exact R).
    + lia.
    + destruct R as (R1 & R2 & R3). split; [exact R1|split; [exact R2|lia]].
  - destruct (init_groups_ok c flags (conj Hh (conj Hs (conj Ht Htd))) ltac:(lia) (ex_intro _ q Hb)) as (c' & E & R).
    rewrite E. split; [|exact Hge]. exists (SlideModel.used_of flags). exact R.
Qed.

(* the head of the tree loop; behind the last tree: the tables of the symbol phase *)
Lemma tree_head_ok c flags : J_tree c flags -> buf_ok c -> 32 <= c_w c ->
  match tree_head c with
  | BNeed S_delta_tag c' => J_deltaN c' flags /\ buf_ok c' /\ c_w c' + 6 <= c_w c
  | BGo P_GROUP c' => exists order, J_group c' order /\ buf_ok c' /\ c_w c' = c_w c
  | BRet _ _ => True
  | _ => False
  end.
Proof.
  intros H1 H2 H3. pose proof (tree_head_ok' c flags H1 H2 H3) as R.
  destruct (tree_head c) as [[[]| |] c'|[] c'| | |]; try exact R. apply R.
Qed.

(* the head of the selector loop *)
Lemma sel_head_ok c flags : J_selH c flags -> buf_ok c -> 6 <= c_w c -> (r_j c = r_num_selectors c -> 32 <= c_w c) ->
  match sel_head c with
  | BNeed S_selector_mtf c' => J_selN c' flags /\ buf_ok c' /\ c_w c' + 1 <= c_w c /\ c_w c <= c_w c' + 6
  | BNeed S_delta_tag c' => J_deltaN c' flags /\ buf_ok c' /\ c_w c' + 6 <= c_w c
  | BRet _ _ => True
  | _ => False
  end.
Proof.
  intros (Hh & Hj & Hs) (q & Hb) Hw Hw32.
  pose proof Hh as (((Hsh & Htt0) & Hrand & Hidx) & Lfl & Hfill & Hu1 & Ealpha & Hnt & Hns).
  destruct Hsh as (Ssel & Scl & Smtf & Str & Swf & Ssl & Sft).
  change (2 ^ 15) with 32768 in Hns.
  unfold sel_head.
  destruct (N.ltb_spec (r_j c) (r_num_selectors c)) as [Hlt|Hge].
  - rewrite (peek_ok c q 6 Hb ltac:(lia) Hw). cbn [bindB].
    pose proof (peek_lt q (c_w c) 6 ltac:(apply Hb) Hw) as Hx. change (2 ^ 6) with 64 in Hx.
    set (x := q / 2 ^ (c_w c - 6)) in *.
    rewrite (xget_ok RConst sel_table) by (rewrite sel_table_len; lia). cbn [bindB].
    pose proof (sel_table_range x Hx) as Hk. set (k := nth (N.to_nat x) sel_table 0) in *.
    destruct (N.ltb_spec (r_num_trees c) k) as [Hbad|Hok]; [exact I|].
    rewrite sub32_small by (rewrite ?W32_val; lia). rewrite N.mod_small by (change W8 with 256; lia).
    rewrite xset_ok by lia. cbn [bindB].
    destruct (dump_ok (set_r_selector c (upd (N.to_nat (r_j c)) (k - 1) (r_selector c))) q k) as (c' & E & Ec' & B').
    { apply (buf_is_frame c); [dcore c; reflexivity..|exact Hb]. }
    { replace (c_w _) with (c_w c) by (dcore c; reflexivity). lia. }
    rewrite E. cbn [bindB].
    replace (c_w (set_r_selector c _)) with (c_w c) in * by (dcore c; reflexivity).
    assert (Ew : c_w c' = c_w c - k) by (subst c'; dcore c; reflexivity).
    split; [|split; [exists (q mod 2 ^ (c_w c - k)); exact B'| lia]].
    clear B' E Ew Hb Hw32.
    subst c'. dcore c. unfold J_selN, sels_ok, sel in *. rsa.
    split; [|split; [exact Hlt|]].
    + eapply J_hdr_frame; [exact Hh|rsa; try reflexivity..]; [apply upd_length|exact Swf].
    + intros i Hi. destruct (N.eq_dec i xj) as [->|Hne].
      * rewrite nth_upd_same by lia. lia.
      * rewrite nth_upd_other by lia. apply Hs. lia.
  - assert (Ej : r_j c = r_num_selectors c) by lia. specialize (Hw32 Ej).
    assert (HJ : J_tree (set_r_t c 0) flags).
    { clear Hb. dcore c. unfold J_tree, sels_ok, sel, trees_done in *. rsa.
      split; [|split; [intros i Hi; apply Hs; lia|split; [lia|intros i Hi; lia]]].
      eapply J_hdr_frame; [exact Hh|rsa; try reflexivity..]. exact Swf. }
    assert (HB : buf_ok (set_r_t c 0)) by (exists q; apply (buf_is_frame c); [dcore c; reflexivity..|exact Hb]).
    assert (Ew : c_w (set_r_t c 0) = c_w c) by (dcore c; reflexivity).
    pose proof (tree_head_ok' (set_r_t c 0) flags HJ HB ltac:(lia)) as R.
    assert (Et : r_t (set_r_t c 0) = 0) by (dcore c; reflexivity).
    assert (En : r_num_trees (set_r_t c 0) = r_num_trees c) by (dcore c; reflexivity).
    rewrite Ew, Et, En in R.
    destruct (tree_head (set_r_t c 0)) as [[[]| |] c'|[] c'| | |]; try exact R; try (exfalso; exact R).
    lia.
Qed.

Print Assumptions delta_head_ok.
Print Assumptions tree_head_ok.
Print Assumptions sel_head_ok.

