(* C05/C06/C09, retrieve(): REFINEMENT of the format description.  The statement-level model (Safe/RetrModel.v), run on
   any chunking of the input, delivers the block that Dec/Format.v's read_block + unmtf_block describe for the same
   bits, and consumes the same number of bits.  The block lemmas are in Safe/RetrRefHdr.v, RetrRefSel.v, RetrRefSym.v;
   here: the abstract state per control point, one pass, a run, a call, the chunk driver (through the slow
   single-chunk machine and the chunk independence of Safe/RetrChunk.v / RetrSafe.v). *)
From Coq Require Import List NArith Arith Bool Lia ZifyBool ZifyNat ZifyN.
From LBZ Require Import Common.Bits Gen.Consts Gen.DecTabs Dec.Prog Dec.Format Dec.Sim Dec.Policies Dec.Total
                        Safe.TreeModel Safe.TreeLemmas Safe.TreeProofs
                        Safe.RetrModel Safe.RetrChunk Safe.RetrInv Safe.RetrStepHdr Safe.RetrStepSel Safe.RetrStepSym Safe.RetrSafe Safe.RetrSpec
                        Safe.RetrWin Safe.RetrRefHdr Safe.RetrRefSel Safe.RetrRefSym.
Import ListNotations.
Local Open Scope N_scope.

Inductive astate :=
| ABwt
| ABig (rnd idx : N)
| ASmall (rnd idx big : N) (i : nat) (used : list N)
| ASel (h : hdr) (selm : list N)
| ADelta (h : hdr) (selm : list N) (tables : list (list N)) (lens : list N)
| ATree (h : hdr) (selm : list N) (tables : list (list N))
| AGroup (h : hdr) (selm : list N) (tables : list (list N)) (g : nat) (syms : list N)
| APrefix (h : hdr) (selm : list N) (tables : list (list N)) (g : nat) (syms : list N) (lens : list N) (n : nat).

Definition Rel (p : pc) (c : core) (a : astate) : Prop :=
  match p, a with
  | A_BWT_IDX, ABwt => J_bwt c
  | A_BITMAP_BIG, ABig rnd idx => R_big c rnd idx
  | A_BITMAP_SMALL, ASmall rnd idx big i used => R_small c rnd idx big i used
  | A_SELECTOR_MTF, ASel h selm => R_sel c h selm
  | A_DELTA_TAG, ADelta h selm tables lens => R_delta c h selm tables lens
  | P_TREE, ATree h selm tables => R_tree c h selm tables
  | P_GROUP, AGroup h selm tables g syms => R_group c h selm tables g syms
  | A_PREFIX, APrefix h selm tables g syms lens n => R_prefix c h selm tables g syms lens n
  | _, _ => False
  end.

(* what remains to be read *)
Definition Kof (f : nat) (c : core) (a : astate) : prog raw_block :=
  match a with
  | ABwt => K_start f
  | ABig rnd idx => K_big f rnd idx
  | ASmall rnd idx big i used => K_inner f rnd idx big i used (r_small c)
  | ASel h selm => K_sels f h selm
  | ADelta h selm tables lens => K_lens f h selm tables lens (h_alpha h - length lens) (cl c (r_j c))
  | ATree h selm tables => K_tables f h selm tables
  | AGroup h selm tables g syms => K_group h selm tables g syms
  | APrefix h selm tables g syms lens n => K_prefix h selm tables g syms lens n
  end.

Lemma Rel_Jp p c a : Rel p c a -> Jp p c.
Proof.
  destruct p as [[]| |], a; cbn [Rel Jp]; try contradiction.
  - auto.
  - intros (H & _). exact H.
  - intros (fl & H & _). eauto.
  - intros (fl & H & _). eauto.
  - intros (fl & H & _). eauto.
  - intros (o & H & _). eauto.
  - intros (fl & H & _). eauto.
  - intros (o & H & _). eauto.
Qed.

Lemma Rel_bufset p c a v w : Rel p c a -> Rel p (bufset c v w) a.
Proof. dcore c. destruct p as [[]| |], a; exact (fun H => H). Qed.

Lemma Kof_bufset f c a v w : Kof f (bufset c v w) a = Kof f c a.
Proof. dcore c. destruct a; reflexivity. Qed.

Lemma group_head_false_shape c o : J_group c o ->
  match fst (group_head false c []) with BNeed S_prefix _ => True | BRet _ _ => True | _ => False end.
Proof.
  intro HJ. unfold group_head. pose proof (group_select_ok c o HJ) as G.
  destruct (group_select c) as [c1|r]; cbn [andb fst].
  - unfold slow_head. replace (r_j (set_r_j c1 0)) with 0 by (dcore c1; reflexivity).
    change (0 <? GROUP_SIZE) with true. exact I.
  - destruct r; auto; contradiction.
Qed.

Lemma err_fails p bits e : run p bits = Err e -> spec_fails p bits.
Proof. unfold spec_fails. intros ->. exact I. Qed.

(* one block of the slow machine *)
Definition bres_ref (f : nat) (c : core) (a : astate) (nx : list N) (r : bres) : Prop :=
  match r with
  | BGo p' c' => exists a', Rel p' c' a' /\ run (Kof f c a) (strm c nx) = run (Kof f c' a') (strm c' nx)
  | BNeed s c' => exists a', Rel (After s) c' a' /\ run (Kof f c a) (strm c nx) = run (Kof f c' a') (strm c' nx)
  | BRet _ _ => spec_fails (Kof f c a) (strm c nx)
  | BEob c' => spec_done (Kof f c a) (strm c nx) c' nx
  | BFault _ => True
  end.


Lemma sstep_ref f p c a nx : Rel p c a -> buf_ok c -> wlo p <= c_w c -> (length (strm c nx) < f)%nat ->
  bres_ref f c a nx (sstep p c).
Proof.
  intros HR HB Hw Hf. unfold sstep.
  destruct p as [[]| |], a; cbn [Rel] in HR; try contradiction; cbn [step step_core fst wlo Kof] in *.
  - (* A_BWT_IDX *)
    destruct (ref_bwt c f nx HR HB Hw) as (c' & -> & R' & E). cbn [bres_ref].
    exists (ABig (d_rand c') (d_bwt_idx c')). split; [exact R'|exact E].
  - pose proof (ref_big c rnd idx f nx HR HB Hw) as A.
    pose proof (after_bitmap_big_ok c (proj1 HR) HB Hw) as SF.
    destruct (after_bitmap_big c) as [| [] c'| | |]; cbn [bres_ref]; auto; try contradiction.
    + destruct A as (big & i' & used' & R' & E). exists (ASmall rnd idx big i' used'). split; [exact R'|exact E].
    + destruct A as (e & E). eapply err_fails; exact E.
  - unfold after_bitmap_small.
    pose proof (ref_inner 16 c rnd idx big i used f nx HR HB ltac:(lia) ltac:(lia) (or_introl Hw)) as A.
    destruct HR as (fl0 & HJ0 & _).
    pose proof (bitmap_from_inner_ok 16 c i fl0 HJ0 HB ltac:(lia) ltac:(lia) (or_introl Hw)) as SF.
    destruct (bitmap_from_inner 16 c) as [| [] c'| | |]; cbn [bres_ref]; auto; try contradiction.
    + destruct A as (i' & used' & R' & E). exists (ASmall rnd idx big i' used'). split; [exact R'|exact E].
    + destruct A as (h & selm & R' & E). exists (ASel h selm). split; [exact R'|exact E].
    + destruct A as (e & E). eapply err_fails; exact E.
  - (* A_SELECTOR_MTF *)
    unfold after_selector_mtf. set (c1 := set_r_j c (add32 (r_j c) 1)).
    destruct HR as (fl & HJ & HH & Es).
    assert (Ej : add32 (r_j c) 1 = r_j c + 1).
    { destruct HJ as ((_ & _ & _ & _ & _ & _ & Hns) & Hj & _). apply add32_small. rewrite W32_val. lia. }
    assert (J1 : J_selH c1 fl).
    { destruct HJ as (Hh & Hj & Hs). unfold J_selH. subst c1. rewrite Ej. dcore c. rsa.
      split; [exact Hh|]. split; [lia|exact Hs]. }
    assert (R1 : R_selH c1 h selm).
    { exists fl. split; [exact J1|split].
      - subst c1. dcore c. exact HH.
      - subst c1. rewrite Ej. rewrite Es. dcore c. rsa. f_equal. lia. }
    assert (B1 : buf_ok c1) by (eapply buf_ok_frame; [| |exact HB]; subst c1; dcore c; reflexivity).
    assert (S1 : strm c1 nx = strm c nx) by (apply strm_frame; subst c1; dcore c; reflexivity).
    assert (W1 : c_w c1 = c_w c) by (subst c1; dcore c; reflexivity).
    pose proof (ref_sel c1 h selm f nx R1 B1 ltac:(lia) ltac:(lia) ltac:(rewrite S1; exact Hf)) as A.
    pose proof (sel_head_ok c1 fl J1 B1 ltac:(lia) ltac:(lia)) as SF.
    rewrite S1 in A.
    destruct (sel_head c1) as [| [] c'| | |]; cbn [bres_ref]; auto; try contradiction.
    + destruct A as (selm' & R' & E). exists (ASel h selm'). split; [exact R'|exact E].
    + destruct A as (lens' & R' & E). exists (ADelta h selm [] lens'). split; [exact R'|exact E].
    + destruct A as (e & E). eapply err_fails; exact E.
  - (* A_DELTA_TAG *)
    unfold after_delta_tag. destruct HR as (fl & HJ & HH & Es & HT & El).
    assert (R1 : R_deltaH c h selm tables lens).
    { exists fl. split; [apply J_deltaN_delta; exact HJ|]. auto. }
    pose proof (ref_delta c h selm tables lens f nx R1 HB ltac:(lia) Hf) as A.
    pose proof (delta_head_ok c fl (J_deltaN_delta _ _ HJ) HB ltac:(lia)) as SF.
    destruct (delta_head c) as [[[]| |] c'| [] c'| | |]; cbn [bres_ref]; auto; try contradiction.
    + destruct A as (tables' & R' & E). exists (ATree h selm tables'). split; [exact R'|exact E].
    + destruct A as (lens' & R' & E). exists (ADelta h selm tables lens'). split; [exact R'|exact E].
    + destruct A as (e & E). eapply err_fails; exact E.
  - (* A_PREFIX *)
    pose proof (ref_prefix c h selm tables g syms lens n nx HR HB Hw) as A.
    destruct HR as (o & HJ & _).
    pose proof (after_prefix_ok c o HJ HB Hw) as SF.
    destruct (after_prefix c) as [[[]| |] c'| [] c'| | |]; cbn [bres_ref]; auto; try contradiction.
    + destruct A as (syms' & R' & E). exists (AGroup h selm tables (S g) syms'). split; [exact R'|exact E].
    + destruct A as (syms' & n' & R' & E). exists (APrefix h selm tables g syms' lens n'). split; [exact R'|exact E].
  - (* P_TREE *)
    pose proof (ref_tree c h selm tables f nx HR HB Hw Hf) as A.
    destruct HR as (fl & HJ & _).
    pose proof (tree_head_ok c fl HJ HB Hw) as SF.
    destruct (tree_head c) as [[[]| |] c'| [] c'| | |]; cbn [bres_ref]; auto; try contradiction.
    + destruct A as (R' & E). exists (AGroup h selm tables 0%nat []). split; [exact R'|exact E].
    + destruct A as (lens' & R' & E). exists (ADelta h selm tables lens'). split; [exact R'|exact E].
    + destruct A as (e & E). eapply err_fails; exact E.
  - (* P_GROUP *)
    pose proof (ref_group c h selm tables g syms nx HR HB Hw) as A.
    destruct HR as (o & HJ & _).
    pose proof (group_head_false_shape c o HJ) as SF.
    destruct (fst (group_head false c [])) as [| [] c'| | |]; cbn [bres_ref]; auto; try contradiction.
    destruct A as (lens & R' & E). exists (APrefix h selm tables g syms lens 50%nat). split; [exact R'|exact E].
Qed.

(* ---- read_block is K_start --------------------------------------------------------------------------------------------- *)
Lemma read_block_K f bits : run (read_block lbz_policy f) bits = run (K_start f) bits.
Proof.
  unfold read_block, K_start, K_big, K_smalls, read_bitmap.
  rewrite !run_bind. destruct (run (take 1) bits) as [[rnd r1]|e]; [|reflexivity].
  rewrite !run_bind. destruct (run (take 24) r1) as [[idx r2]|e]; [|reflexivity].
  rewrite !run_bind. destruct (run (take 16) r2) as [[big r3]|e]; [|reflexivity].
  rewrite !run_bind. destruct (run (read_smalls big 0 16) r3) as [[used r4]|e]; [|reflexivity].
  cbn [app]. unfold K_post. rewrite !run_bind.
  destruct (run (guard (negb (N.of_nat (length used) =? 0)) ErrBitmap) r4) as [[u r5]|e]; [|reflexivity].
  rewrite !run_bind. destruct (run (take 3) r5) as [[nt r6]|e]; [|reflexivity].
  rewrite !run_bind. destruct (run (guard ((2 <=? nt) && (nt <=? 6)) ErrTrees) r6) as [[u2 r7]|e]; [|reflexivity].
  rewrite !run_bind. destruct (run (take 15) r7) as [[ns r8]|e]; [|reflexivity].
  rewrite !run_bind. destruct (run (guard (negb (ns =? 0)) ErrGroups) r8) as [[u3 r9]|e]; [|reflexivity].
  unfold K_sels. cbn [h_ns h_nt length app]. rewrite Nat.sub_0_r. rewrite !run_bind.
  destruct (run (repeat_prog (N.to_nat ns) (read_unary (N.to_nat nt) 0)) r9) as [[selm r10]|e]; [|reflexivity].
  unfold K_tables. cbn [h_nt length app]. rewrite Nat.sub_0_r. unfold h_alpha. cbn [h_used]. rewrite !run_bind.
  destruct (run (repeat_prog (N.to_nat nt) (read_table lbz_policy f (length used + 2))) r10) as [[tables r11]|e]; [|reflexivity].
  unfold K_group, sels_of, h_eob, h_alpha. cbn [h_used skipn app]. rewrite !run_bind.
  destruct (run (read_groups lbz_policy tables (N.of_nat (length used + 2) - 1) _) r11) as [[mtfv r12]|e]; reflexivity.
Qed.

(* ---- a run of the slow machine against what remains to be read ------------------------------------------------------------ *)
(* the block would end with fewer than 32 bits behind it: retrieve() says ERR_EOF where the format description may still
   succeed (NEED asks for a whole word) *)
Definition short (res : result (raw_block * list bool)) : Prop :=
  forall rb rest, res = Ok (rb, rest) -> (length rest < 32)%nat.

Definition fails (res : result (raw_block * list bool)) : Prop :=
  match res with Err _ => True | Ok (rb, _) => exists e, RetrSpec.post rb = Err e end.

Definition fin_res (res : result (raw_block * list bool)) (r : cres) : Prop :=
  match r with
  | ROk st' =>
      exists rb, res = Ok (rb, strm (s_core st') (l_next st')) /\
        RetrSpec.post rb = Ok (negb (d_rand (s_core st') =? 0), d_bwt_idx (s_core st'), rev (c_tt (s_core st'))) /\
        d_block_size st' = N.of_nat (length (c_tt (s_core st'))) /\ b_data st' = l_next st'
  | RErr code _ => fails res \/ (code = E_ERR_EOF /\ short res)
  | RMore _ => short res
  | RFault _ => True
  end.

Lemma short_of_len p bits : (length bits < 32)%nat -> short (run p bits).
Proof. intros H rb rest E. apply run_rest_le in E. lia. Qed.

Lemma finish_ref res st c' nx : l_next st = nx ->
  (exists rb, res = Ok (rb, strm c' nx) /\ unmtf_block MAX_BLOCK_SIZE (rb_used rb) (rb_mtfv rb) = Ok (rev (c_tt c')) /\
     c_ttp c' = N.of_nat (length (c_tt c')) /\ rb_rand rb = negb (d_rand c' =? 0) /\ rb_idx rb = d_bwt_idx c') ->
  fin_res res (finish (with_core st c')).
Proof.
  intros En (rb & E & U & Ht & Er & Ei). unfold finish. cbn [save with_core s_core d_block_size].
  assert (P : RetrSpec.post rb = if N.of_nat (length (rev (c_tt c'))) =? 0 then Err ErrEmpty
              else if N.of_nat (length (rev (c_tt c'))) <=? rb_idx rb then Err ErrBwtIdx
              else Ok (rb_rand rb, rb_idx rb, rev (c_tt c'))) by (unfold RetrSpec.post; rewrite U; reflexivity).
  rewrite rev_length, <- Ht, Ei in P.
  destruct (c_ttp c' =? 0) eqn:E0.
  - cbn [fin_res]. left. unfold fails. rewrite E. eexists. exact P.
  - destruct (c_ttp c' <=? d_bwt_idx c') eqn:E1.
    + cbn [fin_res]. left. unfold fails. rewrite E. eexists. exact P.
    + cbn [fin_res s_core l_next d_block_size save with_core b_data]. exists rb. rewrite En. split; [exact E|].
      split; [|split; [exact Ht|reflexivity]]. rewrite P, Er. reflexivity.
Qed.

Lemma ref_run f : forall fuel p st a, Rel p (s_core st) a -> buf_ok (s_core st) -> wlo p <= c_w (s_core st) ->
  words_ok (l_next st) -> (length (strm (s_core st) (l_next st)) < f)%nat ->
  fin_res (run (Kof f (s_core st) a) (strm (s_core st) (l_next st))) (run_from false fuel p st).
Proof.
  induction fuel as [|fuel IH]; intros p st a HR HB Hw HW Hf; [exact I|].
  rewrite run_from_S, onestep_false.
  pose proof (sstep_ref f p (s_core st) a (l_next st) HR HB Hw Hf) as SR.
  pose proof (sstep_ok p (s_core st) (conj (Rel_Jp _ _ _ HR) (conj HB Hw))) as SO.
  destruct (sstep p (s_core st)) as [p' c'|s c'|code c'|c'|fl]; cbn [after bres_ref bres_ok] in *.
  - destruct SR as (a' & R' & E). destruct SO as ((J' & B' & W') & Hd). cbn [cont]. rewrite E.
    apply (IH p' (with_core st c') a'); cbn [s_core with_core l_next]; auto.
    pose proof (strm_length (s_core st) (l_next st)). pose proof (strm_length c' (l_next st)).
    unfold sigma in Hd. destruct p as [[]| |], p' as [[]| |]; lia.
  - destruct SR as (a' & R' & E). destruct SO as (J' & B' & Hd). rewrite E.
    assert (Hlen : (length (strm c' (l_next st)) <= length (strm (s_core st) (l_next st)))%nat).
    { pose proof (strm_length (s_core st) (l_next st)). pose proof (strm_length c' (l_next st)).
      unfold sigma in Hd. destruct p as [[]| |], s; lia. }
    unfold need_at. cbn [s_core with_core l_next].
    destruct (N.ltb_spec (c_w c') 32) as [Hlt|Hge].
    + destruct (l_next st) as [|x r] eqn:EN.
      * (* the chunk is exhausted *)
        assert (SH : short (run (Kof f c' a') (strm c' []))).
        { apply short_of_len. pose proof (strm_length c' []). cbn [length] in *. lia. }
        cbn [save with_core b_eof]. destruct (b_eof st); cbn [cont fin_res]; [right; split; [reflexivity|exact SH]|exact SH].
      * inversion HW as [|? ? Hx Hr]; subst. destruct B' as (q & Hq).
        destruct (load_ok c' q x Hq Hlt Hx) as (c'' & -> & Ec & Hq'). cbn [cont].
        assert (Ew : c_w c'' = c_w c' + 32) by (rewrite Ec; dcore c'; reflexivity).
        rewrite <- (strm_load c' q x c'' r Hq Hlt Hx Hq' Ew).
        replace (Kof f c' a') with (Kof f c'' a') by (rewrite Ec; apply Kof_bufset).
        apply (IH (After s) (with_next (with_core (with_core st c') c'') r) a'); cbn [s_core with_core with_next l_next].
        -- rewrite Ec. apply (Rel_bufset (After s) c' a'). exact R'.
        -- exists (q * 2 ^ 32 + x). exact Hq'.
        -- destruct s; cbn [wlo]; lia.
        -- exact Hr.
        -- rewrite (strm_load c' q x c'' r Hq Hlt Hx Hq' Ew). lia.
    + cbn [cont]. apply (IH (After s) (with_core st c') a'); cbn [s_core with_core l_next]; auto;
        try (destruct s; cbn [wlo]; lia); try lia.
  - cbn [cont fin_res]. left. exact SR.
  - cbn [cont]. apply (finish_ref _ st c' (l_next st) eq_refl). exact SR.
  - exact I.
Qed.

(* ---- calls ------------------------------------------------------------------------------------------------------------------ *)
(* the bits in the bit buffer the block starts with *)
Definition init_bits (st : rstate) : list bool :=
  bits_msb (N.to_nat (b_live st)) (b_buff st / 2 ^ (64 - b_live st)).

Lemma strm_restore st : strm (s_core (restore st)) (b_data st) = init_bits st ++ wbits (b_data st).
Proof. destruct st as [c nx ss bl bb bd be bs]. unfold strm, bufq, init_bits. cbn. dcore c. reflexivity. Qed.

(* the first call *)
Lemma ref_first f fuel st : init_ok st -> words_ok (b_data st) ->
  (length (init_bits st ++ wbits (b_data st)) < f)%nat ->
  fin_res (run (K_start f) (init_bits st ++ wbits (b_data st))) (retrieve_f fuel false st).
Proof.
  intros (Hs & Hsh & Htt & Hbs & Hl & q & Hq & Hb) HW Hf. rewrite <- strm_restore in *.
  rewrite retrieve_f_enter. unfold enter.
  cbn [restore with_next with_core s_state]. rewrite Hs. change (S_INIT =? S_INIT) with true. cbn iota.
  set (st1 := restore st) in *.
  assert (J1 : J_bwt (s_core st1)).
  { subst st1. unfold restore. cbn [s_core with_next with_core]. unfold J_bwt, tt0. rewrite Hbs.
    destruct st as [c nx ss bl bb bd be bs]. cbn in *. dcore c. rsa. repeat split; auto; apply Hsh. }
  assert (B1 : buf_ok (s_core st1)).
  { exists q. subst st1. destruct st as [c nx ss bl bb bd be bs]. cbn in *. dcore c. unfold buf_is. rsa. auto. }
  assert (N1 : l_next st1 = b_data st) by (subst st1; destruct st; reflexivity).
  rewrite <- N1 in *.
  unfold need_at. destruct (N.ltb_spec (c_w (s_core st1)) 32) as [Hlt|Hge].
  - destruct (l_next st1) as [|x r] eqn:EN.
    + assert (SH : short (run (K_start f) (strm (s_core st1) []))).
      { apply short_of_len. pose proof (strm_length (s_core st1) []). cbn [length] in *. lia. }
      cbn [save b_eof]. destruct (b_eof st1); cbn [fin_res]; [right; split; [reflexivity|exact SH]|exact SH].
    + inversion HW as [|? ? Hx Hr]; subst. destruct B1 as (q1 & Hq1).
      destruct (load_ok (s_core st1) q1 x Hq1 Hlt Hx) as (c' & -> & Ec & Hq').
      assert (Ew : c_w c' = c_w (s_core st1) + 32) by (rewrite Ec; dcore (s_core st1); reflexivity).
      rewrite <- (strm_load (s_core st1) q1 x c' r Hq1 Hlt Hx Hq' Ew).
      apply (ref_run f fuel A_BWT_IDX (with_next (with_core st1 c') r) ABwt); cbn [s_core with_core with_next l_next Rel wlo].
      * rewrite Ec. apply (Rel_bufset A_BWT_IDX (s_core st1) ABwt). exact J1.
      * exists (q1 * 2 ^ 32 + x). exact Hq'.
      * lia.
      * exact Hr.
      * rewrite (strm_load (s_core st1) q1 x c' r Hq1 Hlt Hx Hq' Ew). exact Hf.
  - apply (ref_run f fuel A_BWT_IDX st1 ABwt); cbn [Rel wlo]; auto.
Qed.

Lemma Ret_gen b st r : Ret b st r -> final_ok (retrieve_gen b st) -> r = retrieve_gen b st.
Proof.
  intros HR HF. eapply Ret_det; [exact HR|]. exists (call_fuel st). split; [reflexivity|].
  intro E. rewrite E in HF. exact HF.
Qed.

Lemma concat_words_ok cs : Forall words_ok cs -> words_ok (concat cs).
Proof. induction 1; cbn; [constructor|]. apply Forall_app. split; assumption. Qed.

(* the slow machine on a single chunk *)
Lemma ref_hub f st ws x : init_ok st -> b_eof st = false -> words_ok ws ->
  (length (init_bits st ++ wbits ws) < f)%nat ->
  Eval false st (match ws with [] => [] | _ => [ws] end) x ->
  snd x = [] /\
  match fst x with
  | ROk st' =>
      exists rb, run (K_start f) (init_bits st ++ wbits ws) = Ok (rb, strm (s_core st') (l_next st')) /\
        RetrSpec.post rb = Ok (negb (d_rand (s_core st') =? 0), d_bwt_idx (s_core st'), rev (c_tt (s_core st'))) /\
        d_block_size st' = N.of_nat (length (c_tt (s_core st'))) /\ b_data st' = l_next st'
  | RErr code _ => fails (run (K_start f) (init_bits st ++ wbits ws)) \/
                   (code = E_ERR_EOF /\ short (run (K_start f) (init_bits st ++ wbits ws)))
  | RMore _ => False
  | RFault _ => True
  end.
Proof.
  intros HI He HW Hf E.
  (* a suspended call followed by end of input is ERR_EOF *)
  assert (EOF : forall st0 st' r, init_ok st0 -> words_ok (b_data st0) ->
            (b_data st0 <> [] \/ b_eof st0 = true \/ s_state st0 = S_INIT) ->
            Ret false st0 (RMore st') -> Ret false (attach_eof st') r -> exists s, r = RErr E_ERR_EOF s).
  { intros st0 st' r HI0 HW0 HD0 R1 R2.
    pose proof (retrieve_ok false st0 (or_introl HI0) HW0 HD0) as F1.
    rewrite <- (Ret_gen _ _ _ R1 F1) in F1. cbn [final_ok] in F1.
    destruct (eof_call_more false st' F1) as (s' & Es).
    assert (F2 : final_ok (retrieve_gen false (attach_eof st'))) by (rewrite Es; exact I).
    rewrite (Ret_gen _ _ _ R2 F2), Es. eauto. }
  destruct ws as [|w0 ws'].
  - (* no input at all *)
    assert (HI' : init_ok (attach_eof st)) by (destruct st; exact HI).
    assert (HB : b_data (attach_eof st) = []) by (destruct st; reflexivity).
    assert (HB' : init_bits (attach_eof st) = init_bits st) by (destruct st; reflexivity).
    inversion E as [st0 r H Hm|st0 st' r H H'| |]; subst; cbn [fst snd].
    + split; [reflexivity|]. destruct H as (n & H & _).
      pose proof (ref_first f n (attach_eof st) HI' ltac:(rewrite HB; constructor) ltac:(rewrite HB, HB'; exact Hf)) as R.
      rewrite HB, HB', H in R. destruct r; cbn [fin_res is_more] in *; auto; discriminate.
    + split; [reflexivity|].
      destruct H as (n & H & Fn).
      pose proof (ref_first f n (attach_eof st) HI' ltac:(rewrite HB; constructor) ltac:(rewrite HB, HB'; exact Hf)) as R.
      rewrite HB, HB', H in R. cbn [fin_res] in R.
      destruct (EOF (attach_eof st) st' r HI' ltac:(rewrite HB; constructor)
                  ltac:(right; right; destruct HI as (Hs & _); destruct st; exact Hs)
                  (ex_intro _ n (conj H Fn)) H') as (s' & ->).
      right. split; [reflexivity|exact R].
  - assert (HI' : init_ok (attach st (w0 :: ws'))) by (destruct st; exact HI).
    assert (HB : b_data (attach st (w0 :: ws')) = w0 :: ws') by (destruct st; reflexivity).
    assert (HB' : init_bits (attach st (w0 :: ws')) = init_bits st) by (destruct st; reflexivity).
    inversion E as [| |st0 ch rest r H Hm|st0 ch rest st' x0 H E']; subst; cbn [fst snd].
    + split; [reflexivity|]. destruct H as (n & H & _).
      pose proof (ref_first f n (attach st (w0 :: ws')) HI' ltac:(rewrite HB; exact HW) ltac:(rewrite HB, HB'; exact Hf)) as R.
      rewrite HB, HB', H in R. destruct r; cbn [fin_res is_more] in *; auto; discriminate.
    + destruct H as (n & H & Fn).
      pose proof (ref_first f n (attach st (w0 :: ws')) HI' ltac:(rewrite HB; exact HW) ltac:(rewrite HB, HB'; exact Hf)) as R.
      rewrite HB, HB', H in R. cbn [fin_res] in R.
      assert (R1 : Ret false (attach st (w0 :: ws')) (RMore st')) by (exists n; auto).
      assert (HD : b_data (attach st (w0 :: ws')) <> [] \/ b_eof (attach st (w0 :: ws')) = true \/ s_state (attach st (w0 :: ws')) = S_INIT)
        by (left; rewrite HB; discriminate).
      pose proof (retrieve_ok false _ (or_introl HI') ltac:(rewrite HB; exact HW) HD) as F1.
      rewrite <- (Ret_gen _ _ _ R1 F1) in F1. cbn [final_ok] in F1.
      inversion E' as [st1 r1 H1 Hm1|st1 st'' r1 H1 H1'| |]; subst; cbn [fst snd].
      * split; [reflexivity|].
        destruct (EOF _ st' r1 HI' ltac:(rewrite HB; exact HW) HD R1 H1) as (s' & ->).
        right. split; [reflexivity|exact R].
      * exfalso. destruct (EOF _ st' (RMore st'') HI' ltac:(rewrite HB; exact HW) HD R1 H1) as (s' & Es). discriminate.
Qed.

(* ---- any chunking --------------------------------------------------------------------------------------------------------------- *)
Lemma strm_obs c1 c2 nx : obs_core c1 = obs_core c2 -> strm c1 nx = strm c2 nx.
Proof. unfold obs_core. intro H. injection H as Hv Hw _ _ _ _ _. unfold strm, bufq. rewrite Hv, Hw. reflexivity. Qed.

(* (c) REFINEMENT.  [bits]: the bits in the initial bit buffer followed by the bits of all input words.
   OK: the format description reads a block from the same bits, with the same randomised flag, origin pointer and BWT
   column (tt[0 .. block_size)), and leaves the same bits unread (saved bit buffer, rest of the current chunk, chunks not
   attached).  An error return: the format description has no block either - except that retrieve() says ERR_EOF when
   fewer than 32 bits would be left behind the block. *)
Theorem retr_refines st cs f : init_ok st -> b_eof st = false -> Forall words_ok cs -> Forall (fun c => c <> []) cs ->
  (length (init_bits st ++ wbits (concat cs)) < f)%nat ->
  match retr_chunks st cs with
  | (ROk st', lo) =>
      spec_block f (init_bits st ++ wbits (concat cs)) =
        Ok (negb (d_rand (s_core st') =? 0), d_bwt_idx (s_core st'), rev (c_tt (s_core st')),
            strm (s_core st') (b_data st' ++ concat lo)) /\
      d_block_size st' = N.of_nat (length (c_tt (s_core st')))
  | (RErr code _, _) =>
      (exists e, spec_block f (init_bits st ++ wbits (concat cs)) = Err e) \/
      (code = E_ERR_EOF /\ forall r rest, spec_block f (init_bits st ++ wbits (concat cs)) = Ok (r, rest) -> (length rest < 32)%nat)
  | _ => False
  end.
Proof.
  intros HI He HW HN Hf.
  pose proof (retr_chunks_ok true cs st (or_introl HI) HW HN) as SAFE. fold (retr_chunks st cs) in SAFE.
  assert (NF : no_fault (fst (retr_chunks st cs))) by (intros fl E; rewrite E in SAFE; exact SAFE).
  assert (E1 : Eval true st cs (retr_chunks st cs)) by (apply (retr_chunks_Eval call_fuel true cs st _ eq_refl); apply NF).
  destruct (Eval_fast_to_slow _ _ _ E1 NF) as (y & Ey & Sy).
  (* the single chunk *)
  assert (HUB : exists z, Eval false st (match concat cs with [] => [] | _ => [concat cs] end) z /\ xsim y z).
  { destruct cs as [|c0 cs'].
    - exists y. cbn. split; [exact Ey|apply xsim_refl].
    - destruct (Eval_concat _ (c0 :: cs') st y (le_n _) ltac:(discriminate) HN He Ey) as (z & Ez & Sz).
      exists z. split; [|exact Sz]. destruct (concat (c0 :: cs')) eqn:EC; [|exact Ez].
      apply (concat_nil_nonempty _ HN) in EC. discriminate. }
  destruct HUB as (z & Ez & Syz).
  destruct (ref_hub f st (concat cs) z HI He (concat_words_ok cs HW) Hf Ez) as (Lz & Hz).
  assert (Sxz : xsim (retr_chunks st cs) z) by (eapply xsim_trans; [apply xsim_sym; exact Sy|exact Syz]).
  destruct (retr_chunks st cs) as [r lo]. destruct z as [rz loz]. cbn [fst snd] in *. subst loz.
  unfold spec_block. rewrite read_block_K.
  destruct r as [sx|sx|code sx|fl]; destruct rz as [sz|sz|codez sz|flz]; cbn [xsim fst snd] in Sxz; try contradiction.
  - (* OK *)
    destruct Sxz as (Ho & Hl & Hb & Hd & Hdata). destruct Hz as (rb & Er & Ep & Es & Esv). symmetry in Esv.
    rewrite Er, Ep. split.
    + f_equal. unfold obs_core in Ho. injection Ho as Hv Hw Hp Ht Hr Hi Hf'. rewrite Hr, Hi, Ht.
      f_equal. rewrite Esv, Hdata. cbn [concat]. rewrite app_nil_r.
      apply strm_obs. unfold obs_core. congruence.
    + unfold obs_core in Ho. injection Ho as Hv Hw Hp Ht Hr Hi Hf'. rewrite Hd, Es, Ht. reflexivity.
  - subst codez. destruct Hz as [Hfail|[-> Hsh]].
    + left. unfold fails in Hfail. destruct (run (K_start f) _) as [[rb rest]|e]; [|eauto].
      destruct Hfail as (e & ->). eauto.
    + right. split; [reflexivity|]. intros r0 rest0 E0.
      destruct (run (K_start f) _) as [[rb rest]|e] eqn:ER; [|discriminate].
      destruct (RetrSpec.post rb); [|discriminate]. injection E0 as _ <-. exact (Hsh rb rest eq_refl).
Qed.

(* completeness: a block of the format with at least 32 bits behind it is delivered *)
Theorem retr_complete st cs f r rest : init_ok st -> b_eof st = false -> Forall words_ok cs -> Forall (fun c => c <> []) cs ->
  (length (init_bits st ++ wbits (concat cs)) < f)%nat ->
  spec_block f (init_bits st ++ wbits (concat cs)) = Ok (r, rest) -> (32 <= length rest)%nat ->
  exists st' lo, retr_chunks st cs = (ROk st', lo) /\
    r = (negb (d_rand (s_core st') =? 0), d_bwt_idx (s_core st'), rev (c_tt (s_core st'))) /\
    rest = strm (s_core st') (b_data st' ++ concat lo) /\
    d_block_size st' = N.of_nat (length (c_tt (s_core st'))).
Proof.
  intros HI He HW HN Hf HS Hr. pose proof (retr_refines st cs f HI He HW HN Hf) as R.
  destruct (retr_chunks st cs) as [[sx|sx|code sx|fl] lo]; try contradiction.
  - destruct R as (E & Hd). rewrite HS in E. injection E as -> ->. exists sx, lo. auto.
  - exfalso. destruct R as [(e & E)|(_ & Hsh)]; [rewrite HS in E; discriminate|].
    specialize (Hsh r rest HS). lia.
Qed.

(* rejection: no block in the format, an error code from retrieve() *)
Theorem retr_rejects st cs f e : init_ok st -> b_eof st = false -> Forall words_ok cs -> Forall (fun c => c <> []) cs ->
  (length (init_bits st ++ wbits (concat cs)) < f)%nat ->
  spec_block f (init_bits st ++ wbits (concat cs)) = Err e ->
  exists code st' lo, retr_chunks st cs = (RErr code st', lo).
Proof.
  intros HI He HW HN Hf HS. pose proof (retr_refines st cs f HI He HW HN Hf) as R.
  destruct (retr_chunks st cs) as [[sx|sx|code sx|fl] lo]; try contradiction.
  - destruct R as (E & _). rewrite HS in E. discriminate.
  - eauto.
Qed.

Print Assumptions retr_refines.
Print Assumptions retr_complete.
Print Assumptions retr_rejects.
