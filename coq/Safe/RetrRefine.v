(* C05/C06/C09, retrieve(): REFINEMENT of the format description.  The statement-level model (Safe/RetrModel.v), run on
   any chunking of the input, delivers the block that Dec/Format.v's read_block + unmtf_block describe for the same
   bits, and consumes the same number of bits.  The block lemmas are in Safe/RetrRefHdr.v, RetrRefSel.v, RetrRefSym.v;
   here: the abstract state per control point, one pass, a run, a call, the chunk driver (through the slow
   single-chunk machine and the chunk independence of Safe/RetrChunk.v / RetrSafe.v). *)
From Coq Require Import List NArith Arith Bool Lia ZifyBool ZifyNat ZifyN.
From LBZ Require Import Common.Bits Gen.Consts Gen.DecTabs Dec.Prog Dec.Format Dec.Sim Dec.Policies Dec.Total
                        Safe.TreeModel Safe.TreeLemmas Safe.TreeProofs
                        Safe.RetrModel Safe.RetrChunk Safe.RetrInv Safe.RetrStepHdr Safe.RetrStepSel Safe.RetrStepSym Safe.RetrSafe Safe.RetrSpec.
Import ListNotations.
Local Open Scope N_scope.

Inductive astate :=
| ABwt
| ABig (rnd idx : N)
| ASmall (rnd idx big : N) (i : nat) (used : list N)
| ASel (h : hdr) (selm : list N)
| ADelta (h : hdr) (selm : list N) (tables : list (list N)) (lens : list N)
| ATree (h : hdr) (selm : list N) (tables : list (list N))
| AGroup (h : hdr) (selm : list N) (tables : list (list N)) (g : nat) (syms : list N)
| APrefix (h : hdr) (selm : list N) (tables : list (list N)) (g : nat) (syms : list N) (lens : list N) (n : nat).

Definition Rel (p : pc) (c : core) (a : astate) : Prop :=
  match p, a with
  | A_BWT_IDX, ABwt => J_bwt c
  | A_BITMAP_BIG, ABig rnd idx => R_big c rnd idx
  | A_BITMAP_SMALL, ASmall rnd idx big i used => R_small c rnd idx big i used
  | A_SELECTOR_MTF, ASel h selm => R_sel c h selm
  | A_DELTA_TAG, ADelta h selm tables lens => R_delta c h selm tables lens
  | P_TREE, ATree h selm tables => R_tree c h selm tables
  | P_GROUP, AGroup h selm tables g syms => R_group c h selm tables g syms
  | A_PREFIX, APrefix h selm tables g syms lens n => R_prefix c h selm tables g syms lens n
  | _, _ => False
  end.

(* what remains to be read *)
Definition Kof (f : nat) (c : core) (a : astate) : prog raw_block :=
  match a with
  | ABwt => K_start f
  | ABig rnd idx => K_big f rnd idx
  | ASmall rnd idx big i used => K_inner f rnd idx big i used (r_small c)
  | ASel h selm => K_sels f h selm
  | ADelta h selm tables lens => K_lens f h selm tables lens (h_alpha h - length lens) (cl c (r_j c))
  | ATree h selm tables => K_tables f h selm tables
  | AGroup h selm tables g syms => K_group h selm tables g syms
  | APrefix h selm tables g syms lens n => K_prefix h selm tables g syms lens n
  end.

Lemma Rel_Jp p c a : Rel p c a -> Jp p c.
Proof.
  destruct p as [[]| |], a; cbn [Rel Jp]; try contradiction.
  - auto.
  - intros (H & _). exact H.
  - intros (fl & H & _). eauto.
  - intros (fl & H & _). eauto.
  - intros (fl & H & _). eauto.
  - intros (o & H & _). eauto.
  - intros (fl & H & _). eauto.
  - intros (o & H & _). eauto.
Qed.

Lemma Rel_bufset p c a v w : Rel p c a -> Rel p (bufset c v w) a.
Proof. dcore c. destruct p as [[]| |], a; exact (fun H => H). Qed.

Lemma Kof_bufset f c a v w : Kof f (bufset c v w) a = Kof f c a.
Proof. dcore c. destruct a; reflexivity. Qed.

Section WithRefs.
(* TEMPORARY section: the block lemmas (Safe/RetrRefHdr.v, RetrRefSel.v, RetrRefSym.v) *)
Hypothesis ref_bwt : forall c f nx, J_bwt c -> buf_ok c -> 32 <= c_w c ->
  exists c', after_bwt_idx c = BNeed S_bitmap_big c' /\ R_big c' (d_rand c') (d_bwt_idx c') /\
             run (K_start f) (strm c nx) = run (K_big f (d_rand c') (d_bwt_idx c')) (strm c' nx).
Hypothesis ref_inner : forall n c rnd idx big i used f nx, R_small c rnd idx big i used -> buf_ok c -> (16 - i <= n)%nat -> 16 <= c_w c ->
  (32 <= c_w c \/ (r_alpha_size c = 0 /\ r_small c = 0)) ->
  match bitmap_from_inner n c with
  | BNeed S_bitmap_small c' =>
      exists i' used', R_small c' rnd idx big i' used' /\
        run (K_inner f rnd idx big i used (r_small c)) (strm c nx) = run (K_inner f rnd idx big i' used' (r_small c')) (strm c' nx)
  | BNeed S_selector_mtf c' =>
      exists h selm, R_sel c' h selm /\
        run (K_inner f rnd idx big i used (r_small c)) (strm c nx) = run (K_sels f h selm) (strm c' nx)
  | BRet _ _ => exists e, run (K_inner f rnd idx big i used (r_small c)) (strm c nx) = Err e
  | _ => True
  end.
Hypothesis ref_big : forall c rnd idx f nx, R_big c rnd idx -> buf_ok c -> 32 <= c_w c ->
  match after_bitmap_big c with
  | BNeed S_bitmap_small c' =>
      exists big i' used', R_small c' rnd idx big i' used' /\
        run (K_big f rnd idx) (strm c nx) = run (K_inner f rnd idx big i' used' (r_small c')) (strm c' nx)
  | BRet _ _ => exists e, run (K_big f rnd idx) (strm c nx) = Err e
  | _ => True
  end.
Hypothesis ref_delta : forall c h selm tables lens f nx, R_deltaH c h selm tables lens -> buf_ok c -> 6 <= c_w c ->
  (length (strm c nx) < f)%nat ->
  match delta_head c with
  | BNeed S_delta_tag c' =>
      exists lens', R_delta c' h selm tables lens' /\
        run (K_lens f h selm tables lens (h_alpha h - length lens) (cl c (r_j c))) (strm c nx) =
        run (K_lens f h selm tables lens' (h_alpha h - length lens') (cl c' (r_j c'))) (strm c' nx)
  | BGo P_TREE c' =>
      exists tables', R_tree c' h selm tables' /\
        run (K_lens f h selm tables lens (h_alpha h - length lens) (cl c (r_j c))) (strm c nx) =
        run (K_tables f h selm tables') (strm c' nx)
  | BRet _ _ => exists e, run (K_lens f h selm tables lens (h_alpha h - length lens) (cl c (r_j c))) (strm c nx) = Err e
  | _ => True
  end.
Hypothesis ref_tree : forall c h selm tables f nx, R_tree c h selm tables -> buf_ok c -> 32 <= c_w c ->
  (length (strm c nx) < f)%nat ->
  match tree_head c with
  | BNeed S_delta_tag c' =>
      exists lens', R_delta c' h selm tables lens' /\
        run (K_tables f h selm tables) (strm c nx) =
        run (K_lens f h selm tables lens' (h_alpha h - length lens') (cl c' (r_j c'))) (strm c' nx)
  | BGo P_GROUP c' =>
      R_group c' h selm tables 0 [] /\
      run (K_tables f h selm tables) (strm c nx) = run (K_group h selm tables 0 []) (strm c' nx)
  | BRet _ _ => exists e, run (K_tables f h selm tables) (strm c nx) = Err e
  | _ => True
  end.
Hypothesis ref_sel : forall c h selm f nx, R_selH c h selm -> buf_ok c -> 6 <= c_w c -> (r_j c = r_num_selectors c -> 32 <= c_w c) ->
  (length (strm c nx) < f)%nat ->
  match sel_head c with
  | BNeed S_selector_mtf c' =>
      exists selm', R_sel c' h selm' /\ run (K_sels f h selm) (strm c nx) = run (K_sels f h selm') (strm c' nx)
  | BNeed S_delta_tag c' =>
      exists lens', R_delta c' h selm [] lens' /\
        run (K_sels f h selm) (strm c nx) =
        run (K_lens f h selm [] lens' (h_alpha h - length lens') (cl c' (r_j c'))) (strm c' nx)
  | BRet _ _ => exists e, run (K_sels f h selm) (strm c nx) = Err e
  | _ => True
  end.
Hypothesis ref_group : forall c h selm tables g syms nx, R_group c h selm tables g syms -> buf_ok c -> 12 <= c_w c ->
  match fst (group_head false c []) with
  | BNeed S_prefix c' =>
      exists lens, R_prefix c' h selm tables g syms lens 50 /\
        run (K_group h selm tables g syms) (strm c nx) = run (K_prefix h selm tables g syms lens 50) (strm c' nx)
  | BRet _ _ => spec_fails (K_group h selm tables g syms) (strm c nx)
  | _ => True
  end.
Hypothesis ref_prefix : forall c h selm tables g syms lens n nx, R_prefix c h selm tables g syms lens n -> buf_ok c -> 32 <= c_w c ->
  match after_prefix c with
  | BNeed S_prefix c' =>
      exists syms' n', R_prefix c' h selm tables g syms' lens n' /\
        run (K_prefix h selm tables g syms lens n) (strm c nx) = run (K_prefix h selm tables g syms' lens n') (strm c' nx)
  | BGo P_GROUP c' =>
      exists syms', R_group c' h selm tables (S g) syms' /\
        run (K_prefix h selm tables g syms lens n) (strm c nx) = run (K_group h selm tables (S g) syms') (strm c' nx)
  | BRet _ _ => spec_fails (K_prefix h selm tables g syms lens n) (strm c nx)
  | BEob c' => spec_done (K_prefix h selm tables g syms lens n) (strm c nx) c' nx
  | _ => True
  end.

Lemma err_fails p bits e : run p bits = Err e -> spec_fails p bits.
Proof. unfold spec_fails. intros ->. exact I. Qed.

(* one block of the slow machine *)
Definition bres_ref (f : nat) (c : core) (a : astate) (nx : list N) (r : bres) : Prop :=
  match r with
  | BGo p' c' => exists a', Rel p' c' a' /\ run (Kof f c a) (strm c nx) = run (Kof f c' a') (strm c' nx)
  | BNeed s c' => exists a', Rel (After s) c' a' /\ run (Kof f c a) (strm c nx) = run (Kof f c' a') (strm c' nx)
  | BRet _ _ => spec_fails (Kof f c a) (strm c nx)
  | BEob c' => spec_done (Kof f c a) (strm c nx) c' nx
  | BFault _ => True
  end.

Lemma strm_frame c c' nx : c_v c' = c_v c -> c_w c' = c_w c -> strm c' nx = strm c nx.
Proof. intros Ev Ew. unfold strm, bufq. rewrite Ev, Ew. reflexivity. Qed.

Lemma sstep_ref f p c a nx : Rel p c a -> buf_ok c -> wlo p <= c_w c -> (length (strm c nx) < f)%nat ->
  bres_ref f c a nx (sstep p c).
Proof.
  intros HR HB Hw Hf. unfold sstep.
  destruct p as [[]| |], a; cbn [Rel] in HR; try contradiction; cbn [step step_core fst wlo Kof] in *.
  - (* A_BWT_IDX *)
    destruct (ref_bwt c f nx HR HB Hw) as (c' & -> & R' & E). cbn [bres_ref].
    exists (ABig (d_rand c') (d_bwt_idx c')). split; [exact R'|exact E].
  - pose proof (ref_big c rnd idx f nx HR HB Hw) as A.
    pose proof (after_bitmap_big_ok c (proj1 HR) HB Hw) as S.
    destruct (after_bitmap_big c) as [| [] c'| | |]; cbn [bres_ref]; auto; try contradiction.
    + destruct A as (big & i' & used' & R' & E). exists (ASmall rnd idx big i' used'). split; [exact R'|exact E].
    + destruct A as (e & E). eapply err_fails; exact E.
  - unfold after_bitmap_small.
    pose proof (ref_inner 16 c rnd idx big i used f nx HR HB ltac:(lia) ltac:(lia) (or_introl Hw)) as A.
    destruct HR as (fl0 & HJ0 & _).
    pose proof (bitmap_from_inner_ok 16 c i fl0 HJ0 HB ltac:(lia) ltac:(lia) (or_introl Hw)) as S.
    destruct (bitmap_from_inner 16 c) as [| [] c'| | |]; cbn [bres_ref]; auto; try contradiction.
    + destruct A as (i' & used' & R' & E). exists (ASmall rnd idx big i' used'). split; [exact R'|exact E].
    + destruct A as (h & selm & R' & E). exists (ASel h selm). split; [exact R'|exact E].
    + destruct A as (e & E). eapply err_fails; exact E.
  - (* A_SELECTOR_MTF *)
    unfold after_selector_mtf. set (c1 := set_r_j c (add32 (r_j c) 1)).
    destruct HR as (fl & HJ & HH & Es).
    assert (Ej : add32 (r_j c) 1 = r_j c + 1).
    { destruct HJ as ((_ & _ & _ & _ & _ & _ & Hns) & Hj & _). apply add32_small. rewrite W32_val. lia. }
    assert (J1 : J_selH c1 fl).
    { destruct HJ as (Hh & Hj & Hs). unfold J_selH. subst c1. rewrite Ej. dcore c. rsa.
      split; [exact Hh|]. split; [lia|exact Hs]. }
    assert (R1 : R_selH c1 h selm).
    { exists fl. split; [exact J1|split].
      - subst c1. dcore c. exact HH.
      - subst c1. rewrite Ej. rewrite Es. dcore c. rsa. f_equal. lia. }
    assert (B1 : buf_ok c1) by (eapply buf_ok_frame; [| |exact HB]; subst c1; dcore c; reflexivity).
    assert (S1 : strm c1 nx = strm c nx) by (apply strm_frame; subst c1; dcore c; reflexivity).
    assert (W1 : c_w c1 = c_w c) by (subst c1; dcore c; reflexivity).
    pose proof (ref_sel c1 h selm f nx R1 B1 ltac:(lia) ltac:(lia) ltac:(rewrite S1; exact Hf)) as A.
    pose proof (sel_head_ok c1 fl J1 B1 ltac:(lia) ltac:(lia)) as S.
    rewrite S1 in A.
    destruct (sel_head c1) as [| [] c'| | |]; cbn [bres_ref]; auto; try contradiction.
    + destruct A as (selm' & R' & E). exists (ASel h selm'). split; [exact R'|exact E].
    + destruct A as (lens' & R' & E). exists (ADelta h selm [] lens'). split; [exact R'|exact E].
    + destruct A as (e & E). eapply err_fails; exact E.
  - (* A_DELTA_TAG *)
    unfold after_delta_tag. destruct HR as (fl & HJ & HH & Es & HT & El).
    assert (R1 : R_deltaH c h selm tables lens).
    { exists fl. split; [apply J_deltaN_delta; exact HJ|]. auto. }
    pose proof (ref_delta c h selm tables lens f nx R1 HB ltac:(lia) Hf) as A.
    pose proof (delta_head_ok c fl (J_deltaN_delta _ _ HJ) HB ltac:(lia)) as S.
    destruct (delta_head c) as [[[]| |] c'| [] c'| | |]; cbn [bres_ref]; auto; try contradiction.
    + destruct A as (tables' & R' & E). exists (ATree h selm tables'). split; [exact R'|exact E].
    + destruct A as (lens' & R' & E). exists (ADelta h selm tables lens'). split; [exact R'|exact E].
    + destruct A as (e & E). eapply err_fails; exact E.
  - (* A_PREFIX *)
    pose proof (ref_prefix c h selm tables g syms lens n nx HR HB Hw) as A.
    destruct HR as (o & HJ & _).
    pose proof (after_prefix_ok c o HJ HB Hw) as S.
    destruct (after_prefix c) as [[[]| |] c'| [] c'| | |]; cbn [bres_ref]; auto; try contradiction.
    + destruct A as (syms' & R' & E). exists (AGroup h selm tables (S g) syms'). split; [exact R'|exact E].
    + destruct A as (syms' & n' & R' & E). exists (APrefix h selm tables g syms' lens n'). split; [exact R'|exact E].
  - (* P_TREE *)
    pose proof (ref_tree c h selm tables f nx HR HB Hw Hf) as A.
    destruct HR as (fl & HJ & _).
    pose proof (tree_head_ok c fl HJ HB Hw) as S.
    destruct (tree_head c) as [[[]| |] c'| [] c'| | |]; cbn [bres_ref]; auto; try contradiction.
    + destruct A as (R' & E). exists (AGroup h selm tables 0%nat []). split; [exact R'|exact E].
    + destruct A as (lens' & R' & E). exists (ADelta h selm tables lens'). split; [exact R'|exact E].
    + destruct A as (e & E). eapply err_fails; exact E.
  - (* P_GROUP *)
    pose proof (ref_group c h selm tables g syms nx HR HB Hw) as A.
    destruct HR as (o & HJ & _).
    pose proof (group_slow_ok c o HJ HB Hw) as S.
    destruct (fst (group_head false c [])) as [| [] c'| | |]; cbn [bres_ref bres_ok] in *; auto; try contradiction.
    + admit.
    + destruct A as (lens & R' & E). exists (APrefix h selm tables g syms lens 50%nat). split; [exact R'|exact E].
Qed.
