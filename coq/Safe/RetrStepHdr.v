(* C08/C09, retrieve(): preservation of the invariant (Safe/RetrInv.v) by the header blocks of the model
   (Safe/RetrModel.v): origin pointer, the bitmap loops, number of trees / selectors. *)
From Coq Require Import List NArith Arith Bool Lia ZifyBool ZifyNat ZifyN.
From LBZ Require Import Common.Bits Gen.Consts Gen.DecTabs Safe.TreeModel Safe.TreeLemmas Safe.RetrModel Safe.RetrChunk Safe.RetrInv.
From LBZ Require Safe.SlideModel Safe.SlideProofs.
Import ListNotations.
Local Open Scope N_scope.

(* ---- helpers: the bit buffer with the contents hidden ------------------------------------------------------ *)
Lemma buf_ok_frame c c' : c_v c' = c_v c -> c_w c' = c_w c -> buf_ok c -> buf_ok c'.
Proof. intros Ev Ew (q & H). exists q. eapply buf_is_frame; eauto. Qed.

Lemma peek_ex c k : buf_ok c -> 1 <= k -> k <= c_w c -> exists x, peek c k = XV x /\ x < 2 ^ k.
Proof.
  intros (q & Hb) H1 H2. destruct (take_ok c q k Hb H1 H2) as (Ep & Hx & _).
  eexists. split; [exact Ep|exact Hx].
Qed.

Lemma dump_ex c k : buf_ok c -> k <= c_w c ->
  exists v', dump c k = XV (set_c_w (set_c_v c v') (c_w c - k)) /\ buf_ok (set_c_w (set_c_v c v') (c_w c - k)).
Proof.
  intros (q & Hb) H2. destruct (dump_ok c q k Hb H2) as (c' & Ed & -> & Hb').
  eexists. split; [exact Ed|]. eexists. exact Hb'.
Qed.

(* TAKE(x, k): x = PEEK(k) is stored somewhere (c1 = the core after the store), then DUMP(k) *)
Lemma take_ex c k : buf_ok c -> 1 <= k -> k <= c_w c ->
  exists x v', peek c k = XV x /\ x < 2 ^ k /\
    forall c1, c_v c1 = c_v c -> c_w c1 = c_w c ->
      dump c1 k = XV (set_c_w (set_c_v c1 v') (c_w c - k)) /\ buf_ok (set_c_w (set_c_v c1 v') (c_w c - k)).
Proof.
  intros (q & Hb) H1 H2. destruct (take_ok c q k Hb H1 H2) as (Ep & Hx & Hd).
  exists (q / 2 ^ (c_w c - k)), ((c_v c * 2 ^ k) mod 2 ^ 64). split; [exact Ep|]. split; [exact Hx|].
  intros c1 Ev Ew. destruct (Hd c1 Ev Ew) as (c' & Ed & -> & Hb'). split; [exact Ed|].
  exists (q mod 2 ^ (c_w c - k)). exact Hb'.
Qed.

(* goal: ... x <== peek cp k ;; c <== dump (store cp x) k ;; ...   with Hb0 : buf_ok c0, c0 having the v, w of cp *)
Ltac take Hb0 k x v' Hx Hb' :=
  let Ep := fresh "Ep" in let Hd := fresh "Hd" in let Ed := fresh "Ed" in
  match goal with |- context [peek ?cp k] =>
    destruct (take_ex cp k) as (x & v' & Ep & Hx & Hd);
    [ refine (buf_ok_frame _ _ eq_refl eq_refl Hb0) | rsa; lia | rsa; lia | ];
    rewrite Ep; cbn [bindB];
    match goal with |- context [dump ?c1 k] =>
      destruct (Hd c1 eq_refl eq_refl) as (Ed & Hb'); rewrite Ed; cbn [bindB]; clear Ep Hd Ed
    end
  end.

(* behind NEED(S_BWT_IDX) *)
Lemma after_bwt_idx_ok c : J_bwt c -> buf_ok c -> 32 <= c_w c ->
  exists c', after_bwt_idx c = BNeed S_bitmap_big c' /\ J_big c' /\ buf_ok c' /\ c_w c' + 25 = c_w c.
Proof.
  intros HJ Hb Hw.
  enough (H : match after_bwt_idx c with
              | BNeed S_bitmap_big c' => J_big c' /\ buf_ok c' /\ c_w c' + 25 = c_w c
              | _ => False end).
  { destruct (after_bwt_idx c) as [p c'|s c'|code c'|c'|f]; try contradiction.
    destruct s; try contradiction. exists c'. split; [reflexivity|exact H]. }
  dcore c. unfold after_bwt_idx. unfold J_bwt, shape, tt0 in HJ. rsa.
  take Hb 1 rnd v1 Hrnd Hb1. rsa.
  take Hb1 24 idx v2 Hidx Hb2. rsa.
  unfold J_big, J_bwt, shape, tt0. rsa. split; [|split]; [|exact Hb2|lia].
  split; [exact HJ|]. split; [exact Hrnd|exact Hidx].
Qed.

(* ---- helpers: the bitmap --------------------------------------------------------------------------------- *)
Lemma land15 x : N.land x 15 = x mod 16.
Proof. change 15 with (N.ones 4). rewrite N.land_ones. reflexivity. Qed.

Lemma bitmap_fill_app base : forall f1 f2 j alpha a,
  SlideModel.bitmap_fill base (f1 ++ f2) j alpha a =
  match SlideModel.bitmap_fill base f1 j alpha a with
  | Some (a1, alpha1) => SlideModel.bitmap_fill base f2 (j + N.of_nat (length f1)) alpha1 a1
  | None => None
  end.
Proof.
  induction f1 as [|b r IH]; intros f2 j alpha a; cbn [app SlideModel.bitmap_fill length].
  - replace (j + N.of_nat 0) with j by lia. reflexivity.
  - destruct (SlideModel.wr a (base + alpha) j) as [a'|]; cbn [SlideModel.obind]; [|reflexivity].
    rewrite IH. replace (j + 1 + N.of_nat (length r)) with (j + N.of_nat (S (length r))) by lia. reflexivity.
Qed.

Lemma used_from_false : forall n j, SlideModel.used_from j (repeat false n) = [].
Proof. induction n; intros j; cbn [repeat SlideModel.used_from]; auto. Qed.

Lemma topbits16_0 : topbits 16 0 = repeat false 16.
Proof. vm_compute. reflexivity. Qed.

Lemma CMAP_BASE_val : CMAP_BASE = 7936. Proof. reflexivity. Qed.

(* the alphabet counter behind bitmap_fill from (0, 0) *)
Lemma fill_alpha flags junk a alpha : N.of_nat (length junk) = 8192 -> (length flags <= 256)%nat ->
  SlideModel.bitmap_fill CMAP_BASE flags 0 0 junk = Some (a, alpha) ->
  alpha = N.of_nat (length (SlideModel.used_of flags)) /\ N.of_nat (length a) = 8192.
Proof.
  intros Hj Hl HF. pose proof CMAP_BASE_val as HC.
  destruct (SlideProofs.bitmap_fill_spec flags CMAP_BASE 0 0 junk) as (a' & He & Hl' & _ & _).
  { unfold SlideProofs.len. lia. }
  rewrite HF in He. injection He as E1 E2. subst a'. unfold SlideProofs.len in Hl'. unfold SlideModel.used_of. split; lia.
Qed.

(* the inner do-while of range i *)
Lemma inner_ok c i flags : J_bm c i flags ->
  exists a' alpha', bitmap_inner 16 c = XV (with_bitmap c a' (16 * N.of_nat (S i)) alpha' 0) /\
    N.of_nat (length a') = 8192 /\
    (exists junk, N.of_nat (length junk) = 8192 /\
       SlideModel.bitmap_fill CMAP_BASE (flags ++ topbits 16 (r_small c)) 0 0 junk = Some (a', alpha')) /\
    (r_alpha_size c = 0 -> r_small c = 0 -> alpha' = 0).
Proof.
  intros (HJ & Hi & Hj & Hlen & (junk & Hjl & HF) & Hs & Hbg).
  assert (Hl256 : (length flags <= 256)%nat) by lia.
  destruct (fill_alpha _ _ _ _ Hjl Hl256 HF) as (Ha & Hsl).
  pose proof (SlideProofs.used_from_length flags 0) as Hu. unfold SlideModel.used_of in Ha.
  pose proof CMAP_BASE_val as HC.
  destruct (SlideProofs.bitmap_fill_spec (topbits 16 (r_small c)) CMAP_BASE (r_j c) (r_alpha_size c)
              (SlideModel.s_slide (r_slide c))) as (a' & He & Hl' & _ & _).
  { rewrite topbits_length. unfold SlideProofs.len. lia. }
  unfold SlideProofs.len in Hl'.
  exists a', (r_alpha_size c + N.of_nat (length (SlideModel.used_from (r_j c) (topbits 16 (r_small c))))).
  split; [|split; [|split]].
  - rewrite (bitmap_inner_spec 16 16 c a' (r_alpha_size c + N.of_nat (length (SlideModel.used_from (r_j c) (topbits 16 (r_small c)))))).
    + replace (r_j c + N.of_nat 16) with (16 * N.of_nat (S i)) by lia.
      replace ((r_small c * 2 ^ N.of_nat 16) mod W16) with 0; [reflexivity|].
      symmetry. replace (2 ^ N.of_nat 16) with W16 by reflexivity. apply N.mod_mul. discriminate.
    + lia.
    + lia.
    + lia.
    + lia.
    + exact Hs.
    + intros k Hk. rewrite land15, Hj.
      replace (16 * N.of_nat i + N.of_nat k) with (N.of_nat k + N.of_nat i * 16) by lia.
      rewrite N.mod_add by discriminate. rewrite N.mod_small by lia. lia.
    + rewrite land15, Hj.
      replace (16 * N.of_nat i + N.of_nat 16) with (0 + (N.of_nat i + 1) * 16) by lia.
      rewrite N.mod_add by discriminate. reflexivity.
    + exact He.
  - lia.
  - exists junk. split; [exact Hjl|]. rewrite bitmap_fill_app, HF.
    replace (0 + N.of_nat (length flags)) with (r_j c) by lia. exact He.
  - intros E1 E2. rewrite E1, E2, topbits16_0, used_from_false. reflexivity.
Qed.

(* from the entry of the inner bitmap loop of range i to the next NEED; the selector loop is only reached
   when some range had a byte in use *)
Lemma bitmap_from_inner_gen : forall n c i flags, J_bm c i flags -> buf_ok c -> (16 - i <= n)%nat -> 16 <= c_w c ->
  (32 <= c_w c \/ (r_alpha_size c = 0 /\ r_small c = 0)) ->
  match bitmap_from_inner n c with
  | BNeed S_bitmap_small c' => exists i' flags', J_bm c' i' flags' /\ buf_ok c' /\ c_w c' + 16 = c_w c
  | BNeed S_selector_mtf c' => exists flags', J_selN c' flags' /\ buf_ok c' /\ c_w c' + 19 <= c_w c /\ 32 <= c_w c /\
                                 ~ (r_alpha_size c = 0 /\ r_small c = 0)
  | BRet _ _ => True
  | _ => False
  end.
Proof.
  induction n as [|n IH]; intros c i flags HJ Hb Hn Hw Hd.
  - destruct HJ as (_ & Hi & _). lia.
  - cbn [bitmap_from_inner].
    destruct (inner_ok c i flags HJ) as (a' & alpha' & Ei & Hla & HF' & Hz). rewrite Ei. cbn [bindB].
    destruct HJ as (HJ & Hi & Hj & Hlen & _ & Hs & Hbg).
    unfold with_bitmap. dcore c. unfold J_big, J_bwt, shape, tt0 in HJ. rsa.
    cbn [SlideModel.s_rows SlideModel.s_slide] in *.
    destruct HJ as (((S1 & S2 & S3 & S4 & S5 & S6 & S7) & T1 & T2) & R1 & R2).
    assert (Hbig : (xbig * 2) mod W16 < 2 ^ 16) by (apply N.mod_lt; discriminate).
    assert (Hfl : length (flags ++ topbits 16 xsmall) = (16 * S i)%nat) by (rewrite app_length, topbits_length; lia).
    destruct (N.ltb_spec (16 * N.of_nat (S i)) 256) as [Hlt|Hge].
    + destruct (N.land ((xbig * 2) mod W16) 32768 =? 0); cbn [negb].
      * (* next range skipped: small = 0 *)
        match goal with |- context [bitmap_from_inner n ?c2] =>
          assert (HJ2 : J_bm c2 (S i) (flags ++ topbits 16 xsmall));
          [|assert (Hb2 : buf_ok c2) by (refine (buf_ok_frame _ _ eq_refl eq_refl Hb));
            specialize (IH c2 (S i) (flags ++ topbits 16 xsmall) HJ2 Hb2 ltac:(lia))]
        end.
        { unfold J_bm, J_big, J_bwt, shape, tt0, filled. rsa. cbn [SlideModel.s_slide].
          repeat apply conj; try assumption; try lia. }
        rsa. specialize (IH Hw).
        assert (Hd2 : 32 <= xw \/ alpha' = 0 /\ 0 = 0).
        { destruct Hd as [H|[E1 E2]]; [left; exact H|right; split; [apply Hz; assumption|reflexivity]]. }
        specialize (IH Hd2).
        match goal with |- context [bitmap_from_inner n ?c2] => destruct (bitmap_from_inner n c2) as [p c'|s c'|code c'|c'|f] end;
          try exact IH.
        destruct s; try exact IH.
        destruct IH as (fl & A & B & C & D & E). exists fl. split; [exact A|split; [exact B|split; [exact C|split; [exact D|]]]].
        intros [E1 E2]. apply E. split; [apply Hz; assumption|reflexivity].
      * (* TAKE(rs->small, 16); NEED(S_BITMAP_SMALL) *)
        take Hb 16 sm v1 Hsm Hb1. rsa.
        exists (S i), (flags ++ topbits 16 xsmall). split; [|split; [exact Hb1|lia]].
        unfold J_bm, J_big, J_bwt, shape, tt0, filled. rsa. cbn [SlideModel.s_slide].
        repeat apply conj; try assumption; try lia.
    + (* all 16 ranges done *)
      assert (Ei15 : i = 15%nat) by lia. subst i.
      unfold post_bitmap. cbv zeta. rsa.
      destruct (N.eqb_spec alpha' 0) as [Ez|Hnz]; [exact I|].
      assert (Hw32 : 32 <= xw).
      { destruct Hd as [H|[E1 E2]]; [exact H|]. exfalso. apply Hnz. apply Hz; assumption. }
      destruct HF' as (junk' & Hjl' & HF').
      assert (Hl256 : (length (flags ++ topbits 16 xsmall) <= 256)%nat) by lia.
      destruct (fill_alpha _ _ _ _ Hjl' Hl256 HF') as (Ha' & _).
      pose proof (SlideProofs.used_from_length (flags ++ topbits 16 xsmall) 0) as Hu.
      fold (SlideModel.used_of (flags ++ topbits 16 xsmall)) in Hu.
      rewrite add32_small by (rewrite W32_val; lia).
      take Hb 3 nt v1 Hnt Hb1. rsa.
      destruct ((nt <? MIN_TREES) || (MAX_TREES <? nt)) eqn:Ent; [exact I|].
      apply orb_false_elim in Ent. destruct Ent as [Ent1 Ent2]. apply N.ltb_ge in Ent1, Ent2.
      change MIN_TREES with 2 in Ent1. change MAX_TREES with 6 in Ent2.
      take Hb1 15 ns v2 Hns Hb2. rsa.
      destruct (N.eqb_spec ns 0) as [Ens|Hns0]; [exact I|].
      unfold sel_head. rsa.
      destruct (N.ltb_spec 0 ns) as [Hns1|Hns1]; [|lia].
      match goal with |- context [peek ?cp 6] =>
        destruct (peek_ex cp 6) as (x & Ep & Hx);
          [refine (buf_ok_frame _ _ eq_refl eq_refl Hb2)|rsa; lia|rsa; lia|] end.
      rewrite Ep. cbn [bindB]. change (2 ^ 6) with 64 in Hx.
      rewrite xget_ok by (rewrite sel_table_len; lia). cbn [bindB].
      pose proof (sel_table_range x Hx) as Hk. set (k := nth (N.to_nat x) sel_table 0) in *.
      destruct (N.ltb_spec nt k) as [Hkt|Hkt]; [exact I|].
      rewrite xset_ok by lia. cbn [bindB]. rsa.
      match goal with |- context [dump ?cp k] =>
        destruct (dump_ex cp k) as (v3 & Ed & Hb3);
          [refine (buf_ok_frame _ _ eq_refl eq_refl Hb2)|rsa; lia|] end.
      rewrite Ed. cbn [bindB]. rsa.
      exists (flags ++ topbits 16 xsmall).
      split; [|split; [exact Hb3|split; [lia|split; [exact Hw32|]]]].
      * unfold J_selN, J_hdr, J_big, J_bwt, shape, tt0, filled, sels_ok, sel. rsa. cbn [SlideModel.s_slide].
        repeat apply conj; try assumption; try lia.
        -- rewrite upd_length. exact S1.
        -- exists junk'. split; [exact Hjl'|]. rewrite <- Ha'. exact HF'.
        -- intros j Hj0. assert (j = 0) by lia. subst j. rewrite nth_upd_same by lia.
           rewrite sub32_small by (rewrite ?W32_val; lia). rewrite N.mod_small by (change W8 with 256; lia). lia.
      * intros [E1 E2]. apply Hnz, Hz; assumption.
Qed.

Lemma bitmap_from_inner_ok : forall n c i flags, J_bm c i flags -> buf_ok c -> (16 - i <= n)%nat -> 16 <= c_w c ->
  (32 <= c_w c \/ (r_alpha_size c = 0 /\ r_small c = 0)) ->
  match bitmap_from_inner n c with
  | BNeed S_bitmap_small c' => exists i' flags', J_bm c' i' flags' /\ buf_ok c' /\ c_w c' + 16 = c_w c
  | BNeed S_selector_mtf c' => exists flags', J_selN c' flags' /\ buf_ok c' /\ c_w c' + 19 <= c_w c /\ 32 <= c_w c
  | BRet _ _ => True
  | _ => False
  end.
Proof.
  intros n c i flags HJ Hb Hn Hw Hd. pose proof (bitmap_from_inner_gen n c i flags HJ Hb Hn Hw Hd) as H.
  destruct (bitmap_from_inner n c) as [p c'|s c'|code c'|c'|f]; try exact H.
  destruct s; try exact H. destruct H as (fl & A & B & C & D & _). exists fl. auto.
Qed.

(* behind NEED(S_BITMAP_BIG) *)
Lemma after_bitmap_big_ok c : J_big c -> buf_ok c -> 32 <= c_w c ->
  match after_bitmap_big c with
  | BNeed S_bitmap_small c' => exists i' flags', J_bm c' i' flags' /\ buf_ok c' /\ c_w c' + 32 = c_w c
  | BRet _ _ => True
  | _ => False
  end.
Proof.
  intros HJ Hb Hw. dcore c. unfold after_bitmap_big. unfold J_big, J_bwt, shape, tt0 in HJ. rsa.
  destruct HJ as (((S1 & S2 & S3 & S4 & S5 & S6 & S7) & T1 & T2) & R1 & R2).
  take Hb 16 big v1 Hbig Hb1. cbv zeta. rsa.
  match goal with |- context [bitmap_from_inner 16 ?c2] =>
    assert (HJ2 : forall sm, sm < 2 ^ 16 -> J_bm (set_r_small c2 sm) 0 []) end.
  { intros sm Hsm. unfold J_bm, J_big, J_bwt, shape, tt0, filled. rsa.
    repeat apply conj; try assumption; try lia; try reflexivity.
    exists (SlideModel.s_slide xslide). split; [exact S6|reflexivity]. }
  destruct (N.land big 32768 =? 0); cbn [negb].
  - match goal with |- context [bitmap_from_inner 16 ?c2] =>
      pose proof (bitmap_from_inner_gen 16 c2 0 [] (HJ2 0 ltac:(lia))
                    (buf_ok_frame _ _ eq_refl eq_refl Hb1)) as H; rsa;
      specialize (H ltac:(lia) ltac:(lia) (or_intror (conj eq_refl eq_refl)));
      destruct (bitmap_from_inner 16 c2) as [p c'|s c'|code c'|c'|f] end; try exact H.
    destruct s; try exact H.
    + destruct H as (i' & fl & A & B & C). exists i', fl. split; [exact A|split; [exact B|lia]].
    + destruct H as (fl & _ & _ & _ & _ & E). apply E. split; reflexivity.
  - take Hb1 16 sm v2 Hsm Hb2. rsa.
    exists 0%nat, []. split; [|split; [exact Hb2|lia]]. exact (HJ2 sm Hsm).
Qed.

Print Assumptions after_bwt_idx_ok.
Print Assumptions bitmap_from_inner_ok.
Print Assumptions after_bitmap_big_ok.
