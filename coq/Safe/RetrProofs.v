(* C05/C06/C08/C09, retrieve() of src/decode.c: the theorems about its statement-level resumable model
   (Safe/RetrModel.v), gathered.

   Helper files, in build order:
     Safe/RetrModel.v     the model (no proofs): core/rstate, one function per resumable state, step/onestep/run_from,
                          retrieve, attach/attach_eof, retr_chunks
     Safe/RetrChunk.v     structure of the control-flow graph: suspension at a NEED is transparent ([run_merge],
                          [slow_chunk_indep]), a fast-path group is a slow-path group ([fast_slow_loop], [fast_to_slow_run]),
                          [chunk_indep_nofault]
     Safe/RetrInv.v       bit buffer (PEEK/DUMP/NEED: [peek_ok], [dump_ok], [load_ok]), the invariants J_x
     Safe/RetrStepHdr.v, RetrStepSel.v, RetrStepSym.v     every block preserves the invariant, without a fault
     Safe/RetrSafe.v      NEED, NEED_FAST (counting argument), termination measure, calls, chunk driver:
                          [retr_safe], [retr_chunk_indep]
     Safe/RetrSpec.v      the bit stream of a state, the residual programs K_x of Format.read_block, abstract values R_x
     Safe/RetrWin.v       the 6-bit delta window against Dec/Delta.v's bit-by-bit machine
     Safe/RetrRefHdr.v, RetrRefSel.v, RetrRefSym.v     every block reads what the format description reads
     Safe/RetrRefine.v    [retr_refines], [retr_complete], [retr_rejects]

   Reading the statements: [init_ok st] = a state as decoder_init() and the parser leave it (rs->state = S_INIT, arrays of
   their declared sizes with ARBITRARY contents, nothing in tt[], a bit buffer of at most 63 valid bits, zero below them);
   chunks = the non-empty parts of the input handed to successive calls (bs->data .. bs->limit), words < 2^32;
   [retr_chunks st chunks] = the calls one after the other, then the call(s) at end of input. *)
From Coq Require Import List NArith Arith Bool Lia.
From LBZ Require Import Common.Bits Gen.Consts Dec.Prog Dec.Format Dec.Policies
                        Safe.TreeModel Safe.RetrModel Safe.RetrChunk Safe.RetrInv Safe.RetrSafe Safe.RetrSpec Safe.RetrRefine.
Import ListNotations.
Local Open Scope N_scope.

(* the initial state of harness/retr_h.c and of the extracted model's driver is an instance *)
Lemma junk_init_ok buff live q : live <= 63 -> q < 2 ^ live -> buff = q * 2 ^ (64 - live) ->
  init_ok (init_state junk_core buff live) /\ b_eof (init_state junk_core buff live) = false.
Proof.
  intros Hl Hq Hb. split; [|reflexivity]. unfold init_ok, init_state. cbn [s_state s_core d_block_size b_live b_buff].
  split; [reflexivity|]. split; [|split; [reflexivity|split; [reflexivity|split; [exact Hl|eauto]]]].
  unfold shape, junk_core, init_core. cbn [r_selector r_code_len r_mtf r_tree r_slide d_ftab SlideModel.s_slide].
  repeat split; try reflexivity. repeat constructor; reflexivity.
Qed.

(* spec_block spelled out: read_block under lbz_policy, unmtf_block with the 900000 limit of retrieve(), the two final checks *)
Lemma spec_block_unfold f bits : spec_block f bits =
    match run (read_block lbz_policy f) bits with
    | Err e => Err e
    | Ok (rb, rest) =>
        match unmtf_block MAX_BLOCK_SIZE (rb_used rb) (rb_mtfv rb) with
        | Err e => Err e
        | Ok col =>
            if N.of_nat (length col) =? 0 then Err ErrEmpty
            else if N.of_nat (length col) <=? rb_idx rb then Err ErrBwtIdx
            else Ok (rb_rand rb, rb_idx rb, col, rest)
        end
    end.
Proof.
  unfold spec_block, post. destruct (run (read_block lbz_policy f) bits) as [[rb rest]|e]; [|reflexivity].
  destruct (unmtf_block MAX_BLOCK_SIZE (rb_used rb) (rb_mtfv rb)) as [col|e]; [|reflexivity].
  destruct (N.of_nat (length col) =? 0); [reflexivity|]. destruct (N.of_nat (length col) <=? rb_idx rb); reflexivity.
Qed.

(* (a) *)
Definition retr_safe := RetrSafe.retr_safe.
(* (b) *)
Definition retr_chunk_indep := RetrSafe.retr_chunk_indep.
(* (c) *)
Definition retr_refines := RetrRefine.retr_refines.
Definition retr_complete := RetrRefine.retr_complete.
Definition retr_rejects := RetrRefine.retr_rejects.

Print Assumptions junk_init_ok.
Print Assumptions retr_safe.
Print Assumptions retr_chunk_indep.
Print Assumptions retr_refines.
Print Assumptions retr_complete.
Print Assumptions retr_rejects.
